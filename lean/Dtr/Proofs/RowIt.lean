import Dtr.Proofs.ScopeDiscipline
import Dtr.Proofs.MapRes
import Dtr.Model.RowIter
/-! Lemmas about `DataRowIterator` -/
namespace Dtr

def StepRes.ctx? : StepRes → Option Ctx
  | .yield _ _ c => some c
  | .cont _ c => some c
  | .done _ c => some c
  | _ => none

/-- one turn of the statement iterator changes neither the outputs map nor the spare variable store -/
theorem step_ctx : ∀ (it : It) (c c' : Ctx), (step it c).ctx? = some c' → c'.outs = c.outs ∧ c'.alt = c.alt
  | .mk rest .iterate, c, c', h => by
    cases rest with
    | nil => simp only [step, StepRes.ctx?, Option.some.injEq] at h; subst h; exact ⟨rfl, rfl⟩
    | cons s rest' =>
      cases s with
      | letS name e =>
        simp only [step] at h
        cases he : evalE e c with
        | ok p =>
          obtain ⟨v, c1⟩ := p
          have := evalE_vars he
          simp only [he, StepRes.ctx?, Option.some.injEq] at h
          subst h; exact ⟨this.2.2, this.2.1⟩
        | err e => simp [he, StepRes.ctx?] at h
        | panic m => simp [he, StepRes.ctx?] at h
      | row data line =>
        simp only [step] at h
        cases he : evalRow data c with
        | ok p =>
          obtain ⟨es, c1⟩ := p
          have := evalRow_vars he
          simp only [he, StepRes.ctx?, Option.some.injEq] at h
          subst h; exact ⟨this.2.2, this.2.1⟩
        | err e => simp [he, StepRes.ctx?] at h
        | panic m => simp [he, StepRes.ctx?] at h
      | loop var max body =>
        simp only [step] at h
        cases he : evalE max c with
        | ok p =>
          obtain ⟨v, c1⟩ := p
          have := evalE_vars he
          simp only [he, StepRes.ctx?, Option.some.injEq] at h
          subst h; exact ⟨this.2.2, this.2.1⟩
        | err e => simp [he, StepRes.ctx?] at h
        | panic m => simp [he, StepRes.ctx?] at h
      | resetRandom =>
        simp only [step, StepRes.ctx?, Option.some.injEq] at h; subst h; exact ⟨rfl, rfl⟩
      | «while» cond body =>
        simp only [step, StepRes.ctx?, Option.some.injEq] at h; subst h; exact ⟨rfl, rfl⟩
  | .mk rest (.startLoop ls), c, c', h => by
    simp only [step] at h
    split at h <;> (simp only [StepRes.ctx?, Option.some.injEq] at h; subst h; exact ⟨rfl, rfl⟩)
  | .mk rest (.startInner ls), c, c', h => by
    simp only [step, StepRes.ctx?, Option.some.injEq] at h; subst h; exact ⟨rfl, rfl⟩
  | .mk rest (.inner it ls), c, c', h => by
    simp only [step] at h
    cases hs : step it c with
    | yield r it' c1 =>
      simp only [hs, StepRes.ctx?, Option.some.injEq] at h; subst h
      exact step_ctx it c c1 (by simp [hs, StepRes.ctx?])
    | cont it' c1 =>
      simp only [hs, StepRes.ctx?, Option.some.injEq] at h; subst h
      exact step_ctx it c c1 (by simp [hs, StepRes.ctx?])
    | done it' c1 =>
      simp only [hs, StepRes.ctx?, Option.some.injEq] at h; subst h
      exact step_ctx it c c1 (by simp [hs, StepRes.ctx?])
    | err e => simp [hs, StepRes.ctx?] at h
    | panic m => simp [hs, StepRes.ctx?] at h
  | .mk rest (.endInner ls), c, c', h => by
    simp only [step] at h
    split at h <;> (simp only [StepRes.ctx?, Option.some.injEq] at h; subst h; exact ⟨rfl, rfl⟩)
  | .mk rest (.startWhile ws), c, c', h => by
    simp only [step] at h
    cases he : evalE ws.cond c with
    | ok p =>
      obtain ⟨v, c1⟩ := p
      have := evalE_vars he
      simp only [he] at h
      split at h <;> (simp only [StepRes.ctx?, Option.some.injEq] at h; subst h; exact ⟨this.2.2, this.2.1⟩)
    | err e => simp [he, StepRes.ctx?] at h
    | panic m => simp [he, StepRes.ctx?] at h
  | .mk rest (.whileInner it ws), c, c', h => by
    simp only [step] at h
    cases hs : step it c with
    | yield r it' c1 =>
      simp only [hs, StepRes.ctx?, Option.some.injEq] at h; subst h
      exact step_ctx it c c1 (by simp [hs, StepRes.ctx?])
    | cont it' c1 =>
      simp only [hs, StepRes.ctx?, Option.some.injEq] at h; subst h
      exact step_ctx it c c1 (by simp [hs, StepRes.ctx?])
    | done it' c1 =>
      simp only [hs, StepRes.ctx?, Option.some.injEq] at h; subst h
      exact step_ctx it c c1 (by simp [hs, StepRes.ctx?])
    | err e => simp [hs, StepRes.ctx?] at h
    | panic m => simp [hs, StepRes.ctx?] at h

def NextRes.ctx? : NextRes → Option Ctx
  | .row _ _ c => Option.some c
  | .none _ c => Option.some c
  | _ => Option.none

theorem nextRow_ctx : ∀ (f : Nat) (it : It) (c c' : Ctx), (nextRow f it c).ctx? = some c' →
    c'.outs = c.outs ∧ c'.alt = c.alt
  | 0, it, c, c', h => by simp [nextRow, NextRes.ctx?] at h
  | f+1, it, c, c', h => by
    simp only [nextRow] at h
    cases hs : step it c with
    | yield r it' c1 =>
      simp only [hs, NextRes.ctx?, Option.some.injEq] at h; subst h
      exact step_ctx it c c1 (by simp [hs, StepRes.ctx?])
    | done it' c1 =>
      simp only [hs, NextRes.ctx?, Option.some.injEq] at h; subst h
      exact step_ctx it c c1 (by simp [hs, StepRes.ctx?])
    | cont it' c1 =>
      simp only [hs] at h
      have h1 := step_ctx it c c1 (by simp [hs, StepRes.ctx?])
      have h2 := nextRow_ctx f it' c1 c' h
      exact ⟨h2.1.trans h1.1, h2.2.trans h1.2⟩
    | err e => simp [hs, NextRes.ctx?] at h
    | panic m => simp [hs, NextRes.ctx?] at h

/-- `get_row` changes neither the outputs map nor the spare variable store, and records the popped row as `prev` -/
theorem getRow_ctx (tc : TestCase) (fuel : Nat) (s sg : RowIt) (ev : EvRow) (h : getRow tc fuel s = .row ev sg) :
    sg.ctx.outs = s.ctx.outs ∧ sg.ctx.alt = s.ctx.alt ∧ sg.outIdx = s.outIdx ∧ sg.numOut = s.numOut := by
  unfold getRow at h
  by_cases hemp : s.cache.isEmpty = true
  · simp only [hemp, if_true] at h
    cases hn : nextRow fuel s.it s.ctx with
    | row r it c =>
      have hc := nextRow_ctx fuel s.it s.ctx c (by simp [hn, NextRes.ctx?])
      simp only [hn] at h
      split at h
      · cases h
      · cases h
      · split at h
        · cases h
        · cases h
        · split at h
          · cases h
          · cases h
          · cases h; exact ⟨hc.1, hc.2, rfl, rfl⟩
    | none it c => simp [hn] at h
    | err e => simp [hn] at h
    | panic m => simp [hn] at h
    | fuel => simp [hn] at h
  · have hemp' : s.cache.isEmpty = false := by simpa using hemp
    simp only [hemp', Bool.false_eq_true, if_false] at h
    split at h
    · cases h
    · cases h
    · split at h
      · cases h
      · cases h
      · split at h
        · cases h
        · cases h
        · cases h; exact ⟨rfl, rfl, rfl, rfl⟩

/-- the row `get_row` hands out is built from the popped stack row by the two site functions -/
theorem getRow_row (tc : TestCase) (fuel : Nat) (s sg : RowIt) (ev : EvRow) (h : getRow tc fuel s = .row ev sg) :
    ∃ top : CRow, sg.prev = some top.entries ∧ ev.line = top.line ∧ ev.upd = top.upd ∧
      genInputs tc top.entries (changedFlags (if s.cache.isEmpty then s.prev else s.prev) top.entries) = .ok ev.inputs ∧
      genExpected tc top.entries top.xcols = .ok ev.expected := by
  unfold getRow at h
  by_cases hemp : s.cache.isEmpty = true
  · simp only [hemp, if_true] at h ⊢
    cases hn : nextRow fuel s.it s.ctx with
    | row r it c =>
      simp only [hn] at h
      split at h
      · cases h
      · cases h
      · next top rest hp =>
        split at h
        · cases h
        · cases h
        · next ins hi =>
          split at h
          · cases h
          · cases h
          · next exps he => cases h; exact ⟨top, rfl, rfl, rfl, hi, he⟩
    | none it c => simp [hn] at h
    | err e => simp [hn] at h
    | panic m => simp [hn] at h
    | fuel => simp [hn] at h
  · have hemp' : s.cache.isEmpty = false := by simpa using hemp
    simp only [hemp', Bool.false_eq_true, if_false] at h ⊢
    split at h
    · cases h
    · cases h
    · next top rest hp =>
      split at h
      · cases h
      · cases h
      · next ins hi =>
        split at h
        · cases h
        · cases h
        · next exps he => cases h; exact ⟨top, rfl, rfl, rfl, hi, he⟩

end Dtr
