import Dtr.Proofs.Refine
import Dtr.Spec.BigStepErr
/-! The resumable iterator refines the sequential reading also when that ends in an evaluation error -/
namespace Dtr
variable {W : Type} (D : Device W)

/-- the machine has reached a configuration whose next turn is the evaluation error `e` -/
def FailsAt (a : It × Sys W) (e : ExprErr) (σe : Sys W) : Prop :=
  ∃ it, Steps D a (it, σe) ∧ step it σe.ctx = .err e

theorem FailsAt.of_steps {a b : It × Sys W} {e σe} (h : Steps D a b) (hf : FailsAt D b e σe) : FailsAt D a e σe := by
  obtain ⟨it, hs, he⟩ := hf
  exact ⟨it, h.trans D hs, he⟩

theorem FailsAt.cont1 {it it' : It} {c c' : Ctx} {w : W} {l e σe}
    (hs : step it c = .cont it' c') (h : FailsAt D (it', ⟨c', w, l⟩) e σe) : FailsAt D (it, ⟨c, w, l⟩) e σe :=
  FailsAt.of_steps D (.cont0 D hs) h

theorem FailsAt.lift_inner {it : It} {σ : Sys W} {e σe} (rest ls) (h : FailsAt D (it, σ) e σe) :
    FailsAt D (.mk rest (.inner it ls), σ) e σe := by
  obtain ⟨it', hs, he⟩ := h
  exact ⟨.mk rest (.inner it' ls), Dtr.lift_inner D rest ls hs, by simp [step, he]⟩

theorem FailsAt.lift_while {it : It} {σ : Sys W} {e σe} (rest ws) (h : FailsAt D (it, σ) e σe) :
    FailsAt D (.mk rest (.whileInner it ws), σ) e σe := by
  obtain ⟨it', hs, he⟩ := h
  exact ⟨.mk rest (.whileInner it' ws), Dtr.lift_while D rest ws hs, by simp [step, he]⟩

structure ESound (fuel : Nat) : Prop where
  block : ∀ ss rest (σ : Sys W) e σe, errBlock D fuel ss σ = some (e, σe) →
    FailsAt D (.mk (ss ++ rest) .iterate, σ) e σe
  stmt : ∀ s rest (σ : Sys W) e σe, errStmt D fuel s σ = some (e, σe) →
    FailsAt D (.mk (s :: rest) .iterate, σ) e σe
  loop : ∀ var n body cur rest (σ : Sys W) e σe, errLoop D fuel var n body cur σ = some (e, σe) →
    FailsAt D (.mk rest (.startInner ⟨var, n, body, cur⟩), σ) e σe
  whil : ∀ cond body rest (σ : Sys W) e σe, errWhile D fuel cond body σ = some (e, σe) →
    FailsAt D (.mk rest (.startWhile ⟨cond, body⟩), σ) e σe

theorem esound : ∀ fuel, ESound D fuel := by
  intro fuel
  induction fuel with
  | zero => constructor <;> intros <;> simp_all [errBlock, errStmt, errLoop, errWhile]
  | succ fuel ih =>
    have hS := sound D fuel
    constructor
    · -- block
      intro ss rest σ e σe h
      cases ss with
      | nil => simp [errBlock] at h
      | cons s ss' =>
        simp only [errBlock] at h
        split at h
        · next σ1 hs => exact FailsAt.of_steps D (hS.stmt s (ss' ++ rest) σ σ1 hs) (ih.block ss' rest σ1 e σe h)
        · exact ih.stmt s (ss' ++ rest) σ e σe h
    · -- stmt
      intro s rest σ e σe h
      obtain ⟨c, w, l⟩ := σ
      cases s with
      | letS name ex =>
        simp only [errStmt] at h
        split at h
        · next er he => cases h; exact ⟨_, .refl _, by simp [step, he]⟩
        · cases h
      | row data line =>
        simp only [errStmt] at h
        split at h
        · next er he => cases h; exact ⟨_, .refl _, by simp [step, he]⟩
        · cases h
      | resetRandom => simp [errStmt] at h
      | loop var max body =>
        simp only [errStmt] at h
        split at h
        · next n c' he =>
          refine FailsAt.cont1 D (it' := .mk rest (.startLoop ⟨var, n, body, 0⟩)) (c' := c') (by simp [step, he]) ?_
          split at h
          · cases h
          · next hn =>
            refine FailsAt.cont1 D (it' := .mk rest (.startInner ⟨var, n, body, 0⟩)) (c' := c'.pushFrame.set var 0)
              (by simp [step, hn]) ?_
            exact ih.loop var n body 0 rest _ e σe h
        · next er he => cases h; exact ⟨_, .refl _, by simp [step, he]⟩
        · cases h
      | «while» cond body =>
        simp only [errStmt] at h
        refine FailsAt.cont1 D (it' := .mk rest (.startWhile ⟨cond, body⟩)) (c' := c) (by simp [step]) ?_
        exact ih.whil cond body rest _ e σe h
    · -- loop
      intro var n body cur rest σ e σe h
      obtain ⟨c, w, l⟩ := σ
      simp only [errLoop] at h
      refine FailsAt.cont1 D (it' := .mk rest (.inner (.mk body .iterate) ⟨var, n, body, cur⟩)) (c' := c) (by simp [step]) ?_
      split at h
      · next σ2 hb =>
        obtain ⟨c2, w2, l2⟩ := σ2
        have hbody := hS.block body [] _ _ hb
        simp only [List.append_nil] at hbody
        refine FailsAt.of_steps D (lift_inner D rest ⟨var, n, body, cur⟩ hbody) ?_
        refine FailsAt.cont1 D (it' := .mk rest (.endInner ⟨var, n, body, cur⟩)) (c' := c2) (by simp [step]) ?_
        split at h
        · next hlt =>
          refine FailsAt.cont1 D (it' := .mk rest (.startInner ⟨var, n, body, satSucc cur⟩))
            (c' := c2.set var (satSucc cur)) (by simp [step, hlt]) ?_
          exact ih.loop var n body (satSucc cur) rest _ e σe h
        · cases h
      · have hb := ih.block body [] _ e σe h
        simp only [List.append_nil] at hb
        exact FailsAt.lift_inner D rest _ hb
    · -- while
      intro cond body rest σ e σe h
      obtain ⟨c, w, l⟩ := σ
      simp only [errWhile] at h
      split at h
      · next v c' he =>
        split at h
        · cases h
        · next hv =>
          refine FailsAt.cont1 D (it' := .mk rest (.whileInner (.mk body .iterate) ⟨cond, body⟩)) (c' := c')
            (by simp [step, he, hv]) ?_
          split at h
          · next σ2 hb =>
            obtain ⟨c2, w2, l2⟩ := σ2
            have hbody := hS.block body [] _ _ hb
            simp only [List.append_nil] at hbody
            refine FailsAt.of_steps D (lift_while D rest ⟨cond, body⟩ hbody) ?_
            refine FailsAt.cont1 D (it' := .mk rest (.startWhile ⟨cond, body⟩)) (c' := c2) (by simp [step]) ?_
            exact ih.whil cond body rest _ e σe h
          · have hb := ih.block body [] _ e σe h
            simp only [List.append_nil] at hb
            exact FailsAt.lift_while D rest _ hb
      · next er he => cases h; exact ⟨_, .refl _, by simp [step, he]⟩
      · cases h

end Dtr
