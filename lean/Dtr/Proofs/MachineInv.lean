import Dtr.Proofs.ExprWF
import Dtr.Proofs.Frames
import Dtr.Proofs.RowIt
/-!
# The statement machine never panics  (C10)

Invariant: every active loop's counter is bound in the scope that loop pushed (`VarsOK`), scopes
below an iterator's own only ever gain keys (`Grow`), the `FramedMap` invariant holds, and every
statement still to be executed is statically well-formed (`SWF`: expressions call table functions
at their arity, rows have the header's width, `C` entries sit in input columns).
-/
namespace Dtr

abbrev Sc := List (String × Int64)

def Has (f : Sc) (x : String) : Prop := ∃ v, (x, v) ∈ f

theorem setIn_has_self (k : String) (v : Int64) : ∀ (l l' : Sc), FMap.setIn k v l = some l' → Has l' k
  | [], l', h => by simp [FMap.setIn] at h
  | (k', v') :: rest, l', h => by
    simp only [FMap.setIn] at h
    split at h
    · next hk =>
      cases h
      have : k' = k := by simpa using hk
      exact ⟨v, by simp [this]⟩
    · split at h
      · next rest' hr =>
        cases h
        obtain ⟨w, hw⟩ := setIn_has_self k v rest rest' hr
        exact ⟨w, by simp [hw]⟩
      · cases h

theorem setIn_has_mono (k : String) (v : Int64) (y : String) : ∀ (l l' : Sc), FMap.setIn k v l = some l' → Has l y → Has l' y
  | [], l', h, _ => by simp [FMap.setIn] at h
  | (k', v') :: rest, l', h, hy => by
    obtain ⟨w, hw⟩ := hy
    simp only [FMap.setIn] at h
    split at h
    · cases h
      simp only [List.mem_cons, Prod.mk.injEq] at hw
      rcases hw with ⟨rfl, rfl⟩ | hw
      · exact ⟨v, by simp⟩
      · exact ⟨w, by simp [hw]⟩
    · split at h
      · next rest' hr =>
        cases h
        simp only [List.mem_cons, Prod.mk.injEq] at hw
        rcases hw with ⟨rfl, rfl⟩ | hw
        · exact ⟨w, by simp⟩
        · obtain ⟨w', hw'⟩ := setIn_has_mono k v y rest rest' hr ⟨w, hw⟩
          exact ⟨w', by simp [hw']⟩
      · cases h

theorem bind_has_self (k : String) (v : Int64) (sc : Sc) : Has (Scopes.bind k v sc) k := by
  unfold Scopes.bind
  cases h : FMap.setIn k v sc with
  | some sc' => exact setIn_has_self k v sc sc' h
  | none => exact ⟨v, by simp⟩

theorem bind_has_mono (k : String) (v : Int64) (sc : Sc) (y : String) (h : Has sc y) : Has (Scopes.bind k v sc) y := by
  unfold Scopes.bind
  cases hs : FMap.setIn k v sc with
  | some sc' => exact setIn_has_mono k v y sc sc' hs h
  | none => obtain ⟨w, hw⟩ := h; exact ⟨w, by simp [hw]⟩

theorem inScope_of_has (sc : Sc) (x : String) (h : Has sc x) : Scopes.inScope x sc ≠ none := by
  obtain ⟨v, hv⟩ := h
  unfold Scopes.inScope
  intro hn
  simp only [Option.map_eq_none_iff, List.find?_eq_none, List.mem_reverse] at hn
  exact hn (x, v) hv (by simp)

theorem lookup_of_has_head (sc : Sc) (rest : Scopes.T Int64) (x : String) (h : Has sc x) :
    Scopes.lookup x (sc :: rest) ≠ none := by
  simp only [Scopes.lookup]
  cases hi : Scopes.inScope x sc with
  | none => exact absurd hi (inScope_of_has sc x h)
  | some v => simp

/-- same height, every scope keeps its keys -/
inductive Grow : Scopes.T Int64 → Scopes.T Int64 → Prop
  | nil : Grow [] []
  | cons {f f' fs fs'} : (∀ x, Has f x → Has f' x) → Grow fs fs' → Grow (f :: fs) (f' :: fs')

theorem Grow.refl : ∀ fs, Grow fs fs
  | [] => .nil
  | _ :: fs => .cons (fun _ h => h) (Grow.refl fs)

theorem Grow.length {a b} (h : Grow a b) : a.length = b.length := by
  induction h <;> simp_all

theorem Grow.tail {a b} (h : Grow a b) : Grow a.tail b.tail := by
  cases h with
  | nil => exact .nil
  | cons _ h => exact h

theorem Grow.head_has {f fs b x} (h : Grow (f :: fs) b) (hx : Has f x) : ∃ f' fs', b = f' :: fs' ∧ Has f' x := by
  cases h with
  | cons hf _ => exact ⟨_, _, rfl, hf x hx⟩

theorem drop_succ_eq_tail_drop {α : Type} (l : List α) (k : Nat) : l.drop (k+1) = (l.drop k).tail := by
  induction l generalizing k with
  | nil => simp
  | cons a l ih =>
    cases k with
    | zero => simp
    | succ k => simpa using ih k

section
variable (w : Nat) (isIn : Nat → Bool)

mutual
/-- static well-formedness of a statement: what parsing and binding guarantee -/
def Stmt.SWF : Stmt → Prop
  | .letS _ e => e.WF
  | .row data _ => (∀ d ∈ data, d.WF) ∧ rowW data = w ∧ ∀ j ∈ cCols data 0, isIn j = true
  | .loop _ max body => max.WF ∧ Stmts.SWF body
  | .while cond body => cond.WF ∧ Stmts.SWF body
  | .resetRandom => True
def Stmts.SWF : List Stmt → Prop
  | [] => True
  | s :: ss => Stmt.SWF s ∧ Stmts.SWF ss
end

mutual
def It.SWF : It → Prop
  | .mk rest st => Stmts.SWF w isIn rest ∧ ItState.SWF st
def ItState.SWF : ItState → Prop
  | .iterate => True
  | .startLoop ls => Stmts.SWF w isIn ls.stmts
  | .startInner ls => Stmts.SWF w isIn ls.stmts
  | .endInner ls => Stmts.SWF w isIn ls.stmts
  | .inner it ls => It.SWF it ∧ Stmts.SWF w isIn ls.stmts
  | .startWhile ws => ws.cond.WF ∧ Stmts.SWF w isIn ws.stmts
  | .whileInner it ws => It.SWF it ∧ ws.cond.WF ∧ Stmts.SWF w isIn ws.stmts
end

/-- a row on the row stack: header width, `C` only in input columns -/
def RowOK (r : CRow) : Prop := r.entries.length = w ∧ ∀ (j : Nat), r.entries[j]? = some REntry.c → isIn j = true

end

/-- number of scopes an iterator state has pushed and not yet popped -/
def depth : It → Nat
  | .mk _ .iterate => 0
  | .mk _ (.startLoop _) => 0
  | .mk _ (.startWhile _) => 0
  | .mk _ (.startInner _) => 1
  | .mk _ (.endInner _) => 1
  | .mk _ (.inner it _) => depth it + 1
  | .mk _ (.whileInner it _) => depth it

/-- every active loop's counter is bound in the scope that loop pushed -/
def VarsOK : It → Scopes.T Int64 → Prop
  | .mk _ .iterate, _ => True
  | .mk _ (.startLoop _), _ => True
  | .mk _ (.startWhile _), _ => True
  | .mk _ (.startInner ls), fs => ∃ f rest, fs = f :: rest ∧ Has f ls.var
  | .mk _ (.endInner ls), fs => ∃ f rest, fs = f :: rest ∧ Has f ls.var
  | .mk _ (.inner it ls), fs => VarsOK it fs ∧ ∃ f rest, fs.drop (depth it) = f :: rest ∧ Has f ls.var
  | .mk _ (.whileInner it _), fs => VarsOK it fs

/-- what a turn of the machine preserves -/
def Good (w : Nat) (isIn : Nat → Bool) (it : It) (c : Ctx) (it' : It) (c' : Ctx) : Prop :=
  It.SWF w isIn it' ∧ c'.vars.Inv ∧ VarsOK it' c'.vars.abs ∧ depth it' < c'.vars.abs.length ∧
  Grow (c.vars.abs.drop (depth it)) (c'.vars.abs.drop (depth it'))

def Post (w : Nat) (isIn : Nat → Bool) (it : It) (c : Ctx) : StepRes → Prop
  | .yield r it' c' => RowOK w isIn r ∧ r.upd = true ∧ Good w isIn it c it' c'
  | .cont it' c' => Good w isIn it c it' c'
  | .done it' c' => depth it' = 0 ∧ Good w isIn it c it' c'
  | .err _ => True
  | .panic _ => False

theorem abs_set_ctx (c : Ctx) (x : String) (v : Int64) (hi : c.vars.Inv) :
    (c.set x v).vars.Inv ∧ (c.set x v).vars.abs = Scopes.set c.vars.abs x v :=
  ⟨FMap.inv_set c.vars x v hi, FMap.abs_set c.vars x v hi⟩

theorem set_scopes (s : Scopes.T Int64) (x : String) (v : Int64) (h : 0 < s.length) :
    ∃ f fs, s = f :: fs ∧ Scopes.set s x v = Scopes.bind x v f :: fs := by
  cases s with
  | nil => simp at h
  | cons f fs => exact ⟨f, fs, rfl, rfl⟩

end Dtr

namespace Dtr

theorem good_of_vars_eq {w : Nat} {isIn : Nat → Bool} {it it' : It} {c c' : Ctx} (he : c'.vars = c.vars)
    (hs : It.SWF w isIn it') (hi : c.vars.Inv) (hv : VarsOK it' c.vars.abs) (hd : depth it' < c.vars.abs.length)
    (hg : Grow (c.vars.abs.drop (depth it)) (c.vars.abs.drop (depth it'))) : Good w isIn it c it' c' := by
  unfold Good; rw [he]; exact ⟨hs, hi, hv, hd, hg⟩

theorem pop_scopes (f : Sc) (r : Sc) (rs : Scopes.T Int64) : Scopes.pop (f :: r :: rs) = r :: rs := rfl

theorem ctx_get_of_has (c : Ctx) (x : String) (f : Sc) (rest : Scopes.T Int64) (ha : c.vars.abs = f :: rest) (hf : Has f x) :
    ∃ n, c.get x = some (.val n) := by
  have hl : c.vars.get x ≠ none := by
    rw [FMap.get_abs, ha]; exact lookup_of_has_head f rest x hf
  cases hg : c.vars.get x with
  | none => exact absurd hg hl
  | some n => exact ⟨n, by simp [Ctx.get, hg]⟩

theorem step_inv (w : Nat) (isIn : Nat → Bool) : (it : It) → (c : Ctx) → It.SWF w isIn it → c.vars.Inv →
    VarsOK it c.vars.abs → depth it < c.vars.abs.length → Post w isIn it c (step it c)
  | .mk rest .iterate, c, hs, hi, _, hl => by
    simp only [depth] at hl
    simp only [It.SWF, ItState.SWF, and_true] at hs
    cases rest with
    | nil =>
      simp only [step, Post, depth, true_and]
      exact good_of_vars_eq rfl (by simp [It.SWF, ItState.SWF, Stmts.SWF]) hi (by simp [VarsOK]) (by simpa [depth] using hl)
        (by simp [depth, Grow.refl])
    | cons s rest' =>
      simp only [Stmts.SWF] at hs
      obtain ⟨hs1, hs2⟩ := hs
      cases s with
      | letS name e =>
        simp only [Stmt.SWF] at hs1
        simp only [step]
        cases he : evalE e c with
        | ok p =>
          obtain ⟨v, c1⟩ := p
          have hv := evalE_vars he
          have hi1 : c1.vars.Inv := by rw [hv.1]; exact hi
          obtain ⟨hi2, ha2⟩ := abs_set_ctx c1 name v hi1
          obtain ⟨f, fs, h1, h2⟩ := set_scopes c1.vars.abs name v (by rw [hv.1]; exact hl)
          simp only [Post, Good, depth, List.drop_zero]
          refine ⟨by simp [It.SWF, ItState.SWF, hs2], hi2, by simp [VarsOK], ?_, ?_⟩
          · rw [ha2, h2]; rw [hv.1] at h1; rw [h1] at hl; simpa using hl
          · rw [ha2, h2, ← hv.1, h1]
            exact .cons (fun y hy => bind_has_mono name v f y hy) (Grow.refl fs)
        | err er => simp [Post]
        | panic m => exact absurd he (evalE_no_panic e c m hs1)
      | row data line =>
        simp only [Stmt.SWF] at hs1
        obtain ⟨hwf, hw, hc⟩ := hs1
        have hr := evalRow_spec data c hwf
        simp only [step]
        cases he : evalRow data c with
        | ok p =>
          obtain ⟨es, c1⟩ := p
          have hv := evalRow_vars he
          have h2 := hr.2 es c1 he
          simp only [Post, true_and]
          refine ⟨⟨by rw [h2.1, hw], fun j hj => hc j (by simpa using h2.2 0 j hj)⟩, ?_⟩
          exact good_of_vars_eq hv.1 (by simp [It.SWF, ItState.SWF, hs2]) hi (by simp [VarsOK]) (by simpa [depth] using hl)
            (by simp [depth, Grow.refl])
        | err er => simp [Post]
        | panic m => exact absurd he (hr.1 m)
      | loop var max body =>
        simp only [Stmt.SWF] at hs1
        simp only [step]
        cases he : evalE max c with
        | ok p =>
          obtain ⟨v, c1⟩ := p
          have hv := evalE_vars he
          simp only [Post]
          exact good_of_vars_eq hv.1 (by simp [It.SWF, ItState.SWF, hs2, hs1.2]) hi (by simp [VarsOK]) (by simpa [depth] using hl)
            (by simp [depth, Grow.refl])
        | err er => simp [Post]
        | panic m => exact absurd he (evalE_no_panic max c m hs1.1)
      | resetRandom =>
        simp only [step, Post]
        exact good_of_vars_eq rfl (by simp [It.SWF, ItState.SWF, hs2]) hi (by simp [VarsOK]) (by simpa [depth] using hl)
          (by simp [depth, Grow.refl])
      | «while» cond body =>
        simp only [Stmt.SWF] at hs1
        simp only [step, Post]
        exact good_of_vars_eq rfl (by simp [It.SWF, ItState.SWF, hs2, hs1.1, hs1.2]) hi (by simp [VarsOK]) (by simpa [depth] using hl)
          (by simp [depth, Grow.refl])
  | .mk rest (.startLoop ls), c, hs, hi, _, hl => by
    simp only [depth] at hl
    simp only [It.SWF, ItState.SWF] at hs
    simp only [step]
    split
    · simp only [Post]
      exact good_of_vars_eq rfl (by simp [It.SWF, ItState.SWF, hs.1]) hi (by simp [VarsOK]) (by simpa [depth] using hl)
        (by simp [depth, Grow.refl])
    · simp only [Post, Good, depth, List.drop_zero]
      have hip : c.pushFrame.vars.Inv := FMap.inv_push c.vars hi
      obtain ⟨hi2, ha2⟩ := abs_set_ctx c.pushFrame ls.var 0 hip
      have hap : c.pushFrame.vars.abs = [] :: c.vars.abs := by
        show c.vars.pushFrame.abs = _
        rw [FMap.abs_push]; rfl
      have ha3 : (c.pushFrame.set ls.var 0).vars.abs = Scopes.bind ls.var 0 [] :: c.vars.abs := by
        rw [ha2, hap]; rfl
      refine ⟨by simp [It.SWF, ItState.SWF, hs.1, hs.2], hi2, ?_, ?_, ?_⟩
      · simp only [VarsOK]; exact ⟨_, _, ha3, bind_has_self _ _ _⟩
      · rw [ha3]; simpa using hl
      · rw [ha3]; simp [Grow.refl]
  | .mk rest (.startInner ls), c, hs, hi, hv, hl => by
    simp only [depth] at hl
    simp only [It.SWF, ItState.SWF] at hs
    simp only [VarsOK] at hv
    simp only [step, Post]
    refine good_of_vars_eq rfl (by simp [It.SWF, ItState.SWF, hs.1, hs.2]) hi ?_ (by simpa [depth] using hl) (by simp [depth, Grow.refl])
    simp only [VarsOK, depth, List.drop_zero, true_and]
    exact hv
  | .mk rest (.inner it ls), c, hs, hi, hv, hl => by
    simp only [VarsOK] at hv
    obtain ⟨hv1, f, fs, hd, hf⟩ := hv
    simp only [depth] at hl
    simp only [It.SWF, ItState.SWF] at hs
    obtain ⟨hs1, hs2, hs3⟩ := hs
    have ih := step_inv w isIn it c hs2 hi hv1 (by omega)
    simp only [step]
    have key : ∀ (it' : It) (c' : Ctx), Grow (c.vars.abs.drop (depth it)) (c'.vars.abs.drop (depth it')) →
        (∃ f' fs', c'.vars.abs.drop (depth it') = f' :: fs' ∧ Has f' ls.var) ∧
        depth it' + 1 < c'.vars.abs.length ∧
        Grow (c.vars.abs.drop (depth it + 1)) (c'.vars.abs.drop (depth it' + 1)) := by
      intro it' c' g
      rw [hd] at g
      refine ⟨g.head_has hf, ?_, ?_⟩
      · have := g.length
        have h2 : (c.vars.abs.drop (depth it)).length = c.vars.abs.length - depth it := by simp
        rw [hd] at h2
        simp at this h2
        have h3 : (c'.vars.abs.drop (depth it')).length = c'.vars.abs.length - depth it' := by simp
        omega
      · rw [drop_succ_eq_tail_drop, drop_succ_eq_tail_drop, hd]; exact g.tail
    cases hst : step it c with
    | yield r it' c' =>
      rw [hst] at ih
      obtain ⟨hr, hu, hsw, hi', a, b, g⟩ := ih
      obtain ⟨k1, k2, k3⟩ := key it' c' g
      exact ⟨hr, hu, by simp [It.SWF, ItState.SWF, hs1, hsw, hs3], hi', ⟨a, k1⟩, k2, k3⟩
    | cont it' c' =>
      rw [hst] at ih
      obtain ⟨hsw, hi', a, b, g⟩ := ih
      obtain ⟨k1, k2, k3⟩ := key it' c' g
      exact ⟨by simp [It.SWF, ItState.SWF, hs1, hsw, hs3], hi', ⟨a, k1⟩, k2, k3⟩
    | done it' c' =>
      rw [hst] at ih
      obtain ⟨d0, hsw, hi', a, b, g⟩ := ih
      obtain ⟨k1, k2, k3⟩ := key it' c' g
      simp only [Post, Good, depth, VarsOK]
      rw [d0] at k1 k2 k3
      simp only [List.drop_zero] at k1
      exact ⟨by simp [It.SWF, ItState.SWF, hs1, hs3], hi', k1, by omega, by simpa using k3⟩
    | err e => simp [Post]
    | panic m => rw [hst] at ih; exact ih.elim
  | .mk rest (.endInner ls), c, hs, hi, hv, hl => by
    simp only [VarsOK] at hv
    obtain ⟨f, fs, hc, hf⟩ := hv
    simp only [depth] at hl
    simp only [It.SWF, ItState.SWF] at hs
    simp only [step]
    split
    · obtain ⟨hi2, ha2⟩ := abs_set_ctx c ls.var (satSucc ls.cur) hi
      have ha3 : (c.set ls.var (satSucc ls.cur)).vars.abs = Scopes.bind ls.var (satSucc ls.cur) f :: fs := by
        rw [ha2, hc]; rfl
      simp only [Post, Good, depth]
      refine ⟨by simp [It.SWF, ItState.SWF, hs.1, hs.2], hi2, ?_, ?_, ?_⟩
      · simp only [VarsOK]; exact ⟨_, _, ha3, bind_has_self _ _ _⟩
      · rw [ha3]; rw [hc] at hl; simpa using hl
      · rw [ha3, hc]; simp [Grow.refl]
    · have hpa : c.popFrame.vars.abs = Scopes.pop c.vars.abs := FMap.abs_pop c.vars
      rw [hc] at hl
      cases fs with
      | nil => simp at hl
      | cons r rs =>
        rw [hc, pop_scopes] at hpa
        simp only [Post, Good, depth]
        refine ⟨by simp [It.SWF, ItState.SWF, hs.1], FMap.inv_pop c.vars hi, by simp [VarsOK], ?_, ?_⟩
        · rw [hpa]; simp
        · rw [hpa, hc]; simp [Grow.refl]
  | .mk rest (.startWhile ws), c, hs, hi, _, hl => by
    simp only [depth] at hl
    simp only [It.SWF, ItState.SWF] at hs
    simp only [step]
    cases he : evalE ws.cond c with
    | ok p =>
      obtain ⟨v, c1⟩ := p
      have hv := evalE_vars he
      simp only
      split
      · simp only [Post]
        exact good_of_vars_eq hv.1 (by simp [It.SWF, ItState.SWF, hs.1]) hi (by simp [VarsOK]) (by simpa [depth] using hl)
          (by simp [depth, Grow.refl])
      · simp only [Post]
        exact good_of_vars_eq hv.1 (by simp [It.SWF, ItState.SWF, hs.1, hs.2.1, hs.2.2]) hi (by simp [VarsOK])
          (by simpa [depth] using hl) (by simp [depth, Grow.refl])
    | err er => simp [Post]
    | panic m => exact absurd he (evalE_no_panic ws.cond c m hs.2.1)
  | .mk rest (.whileInner it ws), c, hs, hi, hv, hl => by
    simp only [VarsOK] at hv
    simp only [depth] at hl
    simp only [It.SWF, ItState.SWF] at hs
    obtain ⟨hs1, hs2, hs3, hs4⟩ := hs
    have ih := step_inv w isIn it c hs2 hi hv hl
    simp only [step]
    cases hst : step it c with
    | yield r it' c' =>
      rw [hst] at ih
      obtain ⟨hr, hu, hsw, hi', a, b, g⟩ := ih
      exact ⟨hr, hu, by simp [It.SWF, ItState.SWF, hs1, hsw, hs3, hs4], hi', by simpa [VarsOK] using a, by simpa [depth] using b,
        by simpa [depth] using g⟩
    | cont it' c' =>
      rw [hst] at ih
      obtain ⟨hsw, hi', a, b, g⟩ := ih
      exact ⟨by simp [It.SWF, ItState.SWF, hs1, hsw, hs3, hs4], hi', by simpa [VarsOK] using a, by simpa [depth] using b,
        by simpa [depth] using g⟩
    | done it' c' =>
      rw [hst] at ih
      obtain ⟨d0, hsw, hi', a, b, g⟩ := ih
      simp only [Post, Good, depth, VarsOK]
      rw [d0] at g b
      exact ⟨by simp [It.SWF, ItState.SWF, hs1, hs3, hs4], hi', trivial, b, by simpa using g⟩
    | err e => simp [Post]
    | panic m => rw [hst] at ih; exact ih.elim

end Dtr
