import Dtr.Spec.Scopes
/-! Data refinement: `FramedMap` implements a stack of scopes -/
namespace Dtr
namespace FMap
variable {α : Type}

theorem inv_empty : (FMap.empty : FMap α).Inv := by simp [Inv, InvL, empty]
theorem abs_empty : (FMap.empty : FMap α).abs = [[]] := by simp [abs, scopesOf, empty]

theorem inv_push (m : FMap α) (h : m.Inv) : m.pushFrame.Inv := by
  simp only [Inv, pushFrame, InvL]
  exact ⟨Nat.le_refl _, h⟩

theorem abs_push (m : FMap α) : m.pushFrame.abs = Scopes.push m.abs := by
  simp [abs, pushFrame, scopesOf, Scopes.push]

theorem inv_pop (m : FMap α) (h : m.Inv) : m.popFrame.Inv := by
  unfold popFrame Inv at *
  cases hf : m.frames with
  | nil => simp [InvL]
  | cons f fs =>
    rw [hf] at h
    simp only [InvL] at h
    simp only [List.length_take]
    rw [Nat.min_eq_left h.1]; exact h.2

theorem abs_pop (m : FMap α) : m.popFrame.abs = Scopes.pop m.abs := by
  unfold popFrame abs
  cases hf : m.frames with
  | nil => simp [scopesOf, Scopes.pop]
  | cons f fs =>
    simp only [scopesOf]
    cases fs with
    | nil => simp [scopesOf, Scopes.pop]
    | cons g gs => simp [scopesOf, Scopes.pop]

theorem setIn_length (k : String) (v : α) : ∀ (l l' : List (String × α)), setIn k v l = some l' → l'.length = l.length
  | [], l', h => by simp [setIn] at h
  | (k', v') :: rest, l', h => by
    simp only [setIn] at h
    split at h
    · cases h; simp
    · split at h
      · next rest' hr => cases h; simp [setIn_length k v rest rest' hr]
      · cases h

theorem inv_set (m : FMap α) (k : String) (v : α) (h : m.Inv) : (m.set k v).Inv := by
  unfold set Inv at *
  cases hf : m.frames with
  | nil =>
    simp only [List.headD_nil, List.drop_zero, List.take_zero, List.nil_append]
    split <;> simp [InvL]
  | cons f fs =>
    rw [hf] at h
    simp only [InvL] at h
    simp only [List.headD_cons]
    split
    · next tail' ht =>
      have := setIn_length k v _ _ ht
      simp only [InvL, List.length_append, List.length_take, this, List.length_drop]
      exact ⟨by omega, h.2⟩
    · simp only [InvL, List.length_append, List.length_cons, List.length_nil]
      exact ⟨by omega, h.2⟩

theorem scopesOf_append_tail (fs : List Nat) : ∀ (vs ws : List (String × α)) (f : Nat), f ≤ vs.length →
    InvL f fs → scopesOf ((vs.take f) ++ ws |>.take f) fs = scopesOf (vs.take f) fs := by
  intro vs ws f hf _
  have : ((vs.take f) ++ ws).take f = vs.take f := by
    rw [List.take_append_of_le_length (by simp [List.length_take]; omega)]
    simp [List.take_take]
  rw [this]

theorem abs_set (m : FMap α) (k : String) (v : α) (h : m.Inv) : (m.set k v).abs = Scopes.set m.abs k v := by
  unfold set abs Inv at *
  cases hf : m.frames with
  | nil =>
    simp only [List.headD_nil, List.drop_zero, List.take_zero, List.nil_append, scopesOf, Scopes.set, Scopes.bind]
    split <;> simp_all [scopesOf]
  | cons f fs =>
    rw [hf] at h
    simp only [InvL] at h
    simp only [List.headD_cons, scopesOf, Scopes.set, Scopes.bind]
    split
    · next tail' ht =>
      simp only [ht, scopesOf]
      have hl : (m.values.take f).length = f := by simp [List.length_take]; omega
      congr 1
      · rw [List.drop_append_of_le_length (by omega), List.drop_of_length_le (by omega)]; simp
      · rw [List.take_append_of_le_length (by omega), List.take_take]; simp
    · next ht =>
      simp only [ht, scopesOf]
      have hl : f ≤ m.values.length := h.1
      congr 1
      · rw [List.drop_append_of_le_length hl]
      · rw [List.take_append_of_le_length hl]

theorem find_rev_append (k : String) (a b : List (String × α)) :
    ((a ++ b).reverse.find? (fun e => e.1 == k)) =
      match b.reverse.find? (fun e => e.1 == k) with
      | some e => some e
      | none => a.reverse.find? (fun e => e.1 == k) := by
  rw [List.reverse_append, List.find?_append]
  cases b.reverse.find? (fun e => e.1 == k) <;> rfl

/-- `get` finds the innermost binding -/
theorem get_lookup : ∀ (fs : List Nat) (vs : List (String × α)) (k : String),
    ((vs.reverse.find? (fun e => e.1 == k)).map (·.2)) = Scopes.lookup k (scopesOf vs fs)
  | [], vs, k => by
    simp only [scopesOf, Scopes.lookup, Scopes.inScope]
    cases (vs.reverse.find? (fun e => e.1 == k)) <;> rfl
  | f :: fs, vs, k => by
    simp only [scopesOf, Scopes.lookup, Scopes.inScope]
    have hsplit : vs = vs.take f ++ vs.drop f := (List.take_append_drop f vs).symm
    have := find_rev_append k (vs.take f) (vs.drop f)
    rw [← hsplit] at this
    rw [this]
    cases hd : (vs.drop f).reverse.find? (fun e => e.1 == k) with
    | some e => rfl
    | none => exact get_lookup fs (vs.take f) k

theorem get_abs (m : FMap α) (k : String) : m.get k = Scopes.lookup k m.abs :=
  get_lookup m.frames m.values k

end FMap
end Dtr

namespace Dtr
namespace FMap
variable {α : Type}

def flatStep (acc : List (String × α)) (e : String × α) : List (String × α) :=
  if acc.any (fun a => a.1 == e.1) then acc else acc ++ [e]

theorem flatten_eq (m : FMap α) : m.flatten = m.values.reverse.foldl flatStep [] := rfl

theorem any_iff_find {k : String} (l : List (String × α)) :
    l.any (fun a => a.1 == k) = (l.find? (fun e => e.1 == k)).isSome := by
  induction l with
  | nil => rfl
  | cons a l ih =>
    by_cases h : (a.1 == k) = true
    · simp [List.find?, h]
    · have : (a.1 == k) = false := by simpa using h
      simp [List.find?, this, ih]

/-- scanning from the back, the first occurrence of each key wins -/
theorem fold_find (k : String) : ∀ (l acc : List (String × α)),
    ((l.foldl flatStep acc).find? (fun e => e.1 == k)) =
      match acc.find? (fun e => e.1 == k) with
      | some e => some e
      | none => l.find? (fun e => e.1 == k)
  | [], acc => by
    simp only [List.foldl_nil, List.find?_nil]
    cases acc.find? (fun e => e.1 == k) <;> rfl
  | e :: l, acc => by
    simp only [List.foldl_cons]
    rw [fold_find k l (flatStep acc e)]
    unfold flatStep
    by_cases hany : acc.any (fun a => a.1 == e.1) = true
    · simp only [hany, if_true]
      cases hacc : acc.find? (fun x => x.1 == k) with
      | some x => rfl
      | none =>
        -- `e`'s key is already in `acc`, `k` is not: so `e.1 ≠ k`
        have hk : (e.1 == k) = false := by
          by_cases hek : (e.1 == k) = true
          · have : e.1 = k := by simpa using hek
            rw [this, any_iff_find, hacc] at hany; cases hany
          · simpa using hek
        simp [List.find?, hk]
    · have hany' : acc.any (fun a => a.1 == e.1) = false := by
        cases hb : acc.any (fun a => a.1 == e.1) with
        | true => exact absurd hb hany
        | false => rfl
      simp only [hany', Bool.false_eq_true, if_false, List.find?_append]
      cases hacc : acc.find? (fun x => x.1 == k) with
      | some x => rfl
      | none =>
        by_cases hek : (e.1 == k) = true
        · simp [List.find?, hek]
        · have : (e.1 == k) = false := by simpa using hek
          simp [List.find?, this]

/-- **`flatten` reports, for every name, its innermost binding** -/
theorem flatten_find (m : FMap α) (k : String) :
    (m.flatten.find? (fun e => e.1 == k)).map (·.2) = m.get k := by
  rw [flatten_eq, fold_find k m.values.reverse []]
  rfl

/-- no name is reported twice -/
theorem fold_nodup : ∀ (l acc : List (String × α)), (acc.map (·.1)).Nodup → ((l.foldl flatStep acc).map (·.1)).Nodup
  | [], acc, h => h
  | e :: l, acc, h => by
    simp only [List.foldl_cons]
    apply fold_nodup l
    unfold flatStep
    by_cases hany : acc.any (fun a => a.1 == e.1) = true
    · simp [hany, h]
    · have hany' : acc.any (fun a => a.1 == e.1) = false := by
        cases hb : acc.any (fun a => a.1 == e.1) with
        | true => exact absurd hb hany
        | false => rfl
      simp only [hany', Bool.false_eq_true, if_false, List.map_append, List.map_cons, List.map_nil]
      rw [List.nodup_append]
      refine ⟨h, by simp, ?_⟩
      intro a ha b hb
      simp only [List.mem_cons, List.mem_nil_iff, or_false] at hb
      subst hb
      simp only [List.any_eq_false, beq_iff_eq] at hany'
      simp only [List.mem_map] at ha
      obtain ⟨x, hx, rfl⟩ := ha
      exact hany' x hx

theorem flatten_nodup (m : FMap α) : (m.flatten.map (·.1)).Nodup := by
  rw [flatten_eq]; exact fold_nodup _ [] (by simp)

end FMap
end Dtr
