import Dtr.Model.Ast
/-! The hand-written `BEq` instances (derived `PartialEq` of the code) are lawful -/
namespace Dtr

mutual
theorem Expr.beq_iff : ∀ (a b : Expr), Expr.beq a b = true ↔ a = b
  | .num x, b => by cases b <;> simp [Expr.beq]
  | .var x, b => by cases b <;> simp [Expr.beq]
  | .bin o l r, b => by
    cases b <;> simp [Expr.beq]
    next o' l' r' => rw [Expr.beq_iff l l', Expr.beq_iff r r']; exact and_assoc
  | .un o e, b => by
    cases b <;> simp [Expr.beq]
    next o' e' => intro _; exact Expr.beq_iff e e'
  | .call f as, b => by
    cases b <;> simp [Expr.beq]
    next g bs => intro _; exact Expr.beqList_iff as bs
theorem Expr.beqList_iff : ∀ (as bs : List Expr), Expr.beqList as bs = true ↔ as = bs
  | [], bs => by cases bs <;> simp [Expr.beqList]
  | a :: as, bs => by
    cases bs <;> simp [Expr.beqList]
    next b bs => rw [Expr.beq_iff a b, Expr.beqList_iff as bs]
end

instance : LawfulBEq Expr where
  eq_of_beq {a b} h := (Expr.beq_iff a b).mp h
  rfl {a} := (Expr.beq_iff a a).mpr rfl

theorem SigType.beq_iff (a b : SigType) : SigType.beq a b = true ↔ a = b := by
  cases a <;> cases b <;> simp [SigType.beq]

instance : LawfulBEq SigType where
  eq_of_beq {a b} h := (SigType.beq_iff a b).mp h
  rfl {a} := (SigType.beq_iff a a).mpr rfl

theorem Signal.beq_iff (a b : Signal) : (a == b) = true ↔ a = b := by
  cases a; cases b
  simp [BEq.beq, Signal.beq, SigType.beq_iff]
  constructor
  · rintro ⟨⟨h1, h2⟩, h3⟩; exact ⟨h1, h2, h3⟩
  · rintro ⟨h1, h2, h3⟩; exact ⟨⟨h1, h2⟩, h3⟩

instance : LawfulBEq Signal where
  eq_of_beq {a b} h := (Signal.beq_iff a b).mp h
  rfl {a} := (Signal.beq_iff a a).mpr rfl

end Dtr
