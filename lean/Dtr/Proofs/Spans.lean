import Dtr.Model.Parser
/-!
# Every span the lexers hand out lies in the source text, on character boundaries

`IsBnd src b`: the byte offset `b` is the UTF-8 length of a prefix of `src` made of whole characters —
so it is at most the length of the text and never inside a character.
-/
namespace Dtr

theorem utf8Len_fold (s : Str) (a : Nat) : s.foldl (fun n c => n + c.utf8Size) a = a + utf8Len s := by
  unfold utf8Len
  induction s generalizing a with
  | nil => simp
  | cons c cs ih => simp only [List.foldl_cons]; rw [ih, ih (0 + c.utf8Size)]; omega

theorem utf8Len_nil : utf8Len [] = 0 := rfl

theorem utf8Len_cons (c : Char) (cs : Str) : utf8Len (c :: cs) = c.utf8Size + utf8Len cs := by
  show (c :: cs).foldl (fun n c => n + c.utf8Size) 0 = _
  rw [List.foldl_cons, utf8Len_fold]; omega

theorem utf8Len_append (a b : Str) : utf8Len (a ++ b) = utf8Len a + utf8Len b := by
  induction a with
  | nil => simp [utf8Len_nil]
  | cons c cs ih => rw [List.cons_append, utf8Len_cons, utf8Len_cons, ih]; omega

/-- `b` is the byte length of a prefix of `src` -/
def IsBnd (src : Str) (b : Nat) : Prop := ∃ a r, src = a ++ r ∧ b = utf8Len a

theorem IsBnd.le {src : Str} {b : Nat} (h : IsBnd src b) : b ≤ utf8Len src := by
  obtain ⟨a, r, hs, hb⟩ := h
  rw [hs, utf8Len_append, hb]; omega

theorem isBnd_zero (src : Str) : IsBnd src 0 := ⟨[], src, rfl, rfl⟩
theorem isBnd_len (src : Str) : IsBnd src (utf8Len src) := ⟨src, [], by simp, rfl⟩

/-- a span with both ends on boundaries of `src`, not reversed -/
def SpanOK (src : Str) (sp : Nat × Nat) : Prop := IsBnd src sp.1 ∧ IsBnd src sp.2 ∧ sp.1 ≤ sp.2

/-! ### the body lexer -/

/-- what `lexBody` guarantees when it runs on the rest `s` of `src = pre ++ s` at offset `utf8Len pre`:
every token's span is a usable span of `src`, starts are at or behind the offset, and starts never decrease -/
theorem lexBody_spans (src : Str) : ∀ (f : Nat) (pre s : Str), src = pre ++ s →
    (∀ t ∈ lexBody f (utf8Len pre) s, SpanOK src (t.s, t.e) ∧ utf8Len pre ≤ t.s) ∧
    (lexBody f (utf8Len pre) s).Pairwise (fun a b => a.s ≤ b.s)
  | 0, pre, s, h => by
    simp only [lexBody, List.mem_singleton, List.pairwise_cons, List.not_mem_nil, false_imp_iff, implies_true,
      List.Pairwise.nil, and_self, and_true]
    intro t ht; subst ht
    exact ⟨⟨⟨pre, s, h, rfl⟩, ⟨pre, s, h, rfl⟩, Nat.le_refl _⟩, Nat.le_refl _⟩
  | f+1, pre, [], h => by
    simp only [lexBody, List.mem_singleton, List.pairwise_cons, List.not_mem_nil, false_imp_iff, implies_true,
      List.Pairwise.nil, and_self, and_true]
    intro t ht; subst ht
    exact ⟨⟨⟨pre, [], h, rfl⟩, ⟨pre, [], h, rfl⟩, Nat.le_refl _⟩, Nat.le_refl _⟩
  | f+1, pre, c :: cs, h => by
    simp only [lexBody]
    split
    · -- blank
      have ih := lexBody_spans src f (pre ++ [c]) cs (by rw [h]; simp)
      have e : utf8Len (pre ++ [c]) = utf8Len pre + c.utf8Size := by
        rw [utf8Len_append, utf8Len_cons, utf8Len_nil]; omega
      rw [e] at ih
      exact ⟨fun t ht => ⟨(ih.1 t ht).1, by have := (ih.1 t ht).2; omega⟩, ih.2⟩
    · split
      · -- comment
        have ih := lexBody_spans src f (pre ++ [c] ++ cs.take (comLen cs)) (cs.drop (comLen cs))
          (by rw [h]; simp)
        have e : utf8Len (pre ++ [c] ++ cs.take (comLen cs)) =
            utf8Len pre + c.utf8Size + utf8Len (cs.take (comLen cs)) := by
          rw [utf8Len_append, utf8Len_append, utf8Len_cons, utf8Len_nil]; omega
        rw [e] at ih
        exact ⟨fun t ht => ⟨(ih.1 t ht).1, by have := (ih.1 t ht).2; omega⟩, ih.2⟩
      · -- a token
        have ih := lexBody_spans src f (pre ++ (c :: cs).take (tokLen (c :: cs))) ((c :: cs).drop (tokLen (c :: cs)))
          (by rw [h, List.append_assoc, List.take_append_drop])
        have e : utf8Len (pre ++ (c :: cs).take (tokLen (c :: cs))) =
            utf8Len pre + utf8Len ((c :: cs).take (tokLen (c :: cs))) := utf8Len_append _ _
        rw [e] at ih
        refine ⟨?_, ?_⟩
        · intro t ht
          simp only [List.mem_cons] at ht
          rcases ht with rfl | ht
          · refine ⟨⟨⟨pre, c :: cs, h, rfl⟩, ⟨pre ++ (c :: cs).take (tokLen (c :: cs)), (c :: cs).drop (tokLen (c :: cs)),
              by rw [h, List.append_assoc, List.take_append_drop], e.symm⟩, by simp only; omega⟩, Nat.le_refl _⟩
          · exact ⟨(ih.1 t ht).1, by have := (ih.1 t ht).2; omega⟩
        · rw [List.pairwise_cons]
          refine ⟨fun t ht => ?_, ih.2⟩
          have := (ih.1 t ht).2
          simp only; omega

theorem tokSpan_ok (src pre s : Str) (h : src = pre ++ s) (i : Nat) (hi : i < (lexBodyAll (utf8Len pre) s).length) :
    SpanOK src (tokSpan (lexBodyAll (utf8Len pre) s) i) := by
  unfold tokSpan
  rw [List.getElem?_eq_getElem hi]
  exact ((lexBody_spans src _ pre s h).1 _ (List.getElem_mem hi)).1

theorem tokSpan_range (src pre s : Str) (h : src = pre ++ s) (i j : Nat) (hij : i ≤ j)
    (hj : j < (lexBodyAll (utf8Len pre) s).length) :
    SpanOK src ((tokSpan (lexBodyAll (utf8Len pre) s) i).1, (tokSpan (lexBodyAll (utf8Len pre) s) j).1) := by
  have hi : i < (lexBodyAll (utf8Len pre) s).length := by omega
  have h1 := tokSpan_ok src pre s h i hi
  have h2 := tokSpan_ok src pre s h j hj
  refine ⟨h1.1, h2.1, ?_⟩
  unfold tokSpan
  rw [List.getElem?_eq_getElem hi, List.getElem?_eq_getElem hj]
  simp only
  by_cases e : i = j
  · subst e; exact Nat.le_refl _
  · exact List.pairwise_iff_getElem.mp (lexBody_spans src _ pre s h).2 i j hi hj (by omega)

/-! ### the header -/

def NamesOK (src : Str) (acc : List (String × Nat × Nat)) : Prop := ∀ x ∈ acc, SpanOK src (x.2.1, x.2.2)

/-- the header parser: the spans of the names and of any error are usable, and the rest of the
input starts on a boundary at the offset that is handed to the body lexer -/
def HdrPost (src : Str) : HdrRes → Prop
  | .ok names _ off rest => NamesOK src names ∧ ∃ pre', src = pre' ++ rest ∧ off = utf8Len pre'
  | .err spans => ∀ sp ∈ spans, SpanOK src sp

theorem parseHeader_spans (src : Str) : ∀ (f : Nat) (pre s : Str) (line : Nat) (acc : List (String × Nat × Nat)),
    src = pre ++ s → NamesOK src acc → HdrPost src (parseHeader f (utf8Len pre) line acc s)
  | 0, pre, s, line, acc, h, hacc => by
    simp only [parseHeader, HdrPost, List.mem_singleton]
    intro sp hsp; subst hsp
    exact ⟨⟨pre, s, h, rfl⟩, ⟨pre, s, h, rfl⟩, Nat.le_refl _⟩
  | f+1, pre, [], line, acc, h, hacc => by
    simp only [parseHeader, HdrPost, List.mem_singleton]
    intro sp hsp; subst hsp
    exact ⟨⟨pre, [], h, rfl⟩, ⟨pre, [], h, rfl⟩, Nat.le_refl _⟩
  | f+1, pre, c :: cs, line, acc, h, hacc => by
    have e1 : utf8Len (pre ++ [c]) = utf8Len pre + c.utf8Size := by
      rw [utf8Len_append, utf8Len_cons, utf8Len_nil]; omega
    have h1 : src = (pre ++ [c]) ++ cs := by rw [h]; simp
    simp only [parseHeader]
    split
    · have := parseHeader_spans src f (pre ++ [c]) cs line acc h1 hacc
      rw [e1] at this; exact this
    · split
      · split
        · have := parseHeader_spans src f (pre ++ [c]) cs (line + 1) acc h1 hacc
          rw [e1] at this; exact this
        · exact ⟨hacc, pre ++ [c], h1, e1.symm⟩
      · have e2 : utf8Len (pre ++ (c :: cs).take (tw isHdrName (c :: cs))) =
            utf8Len pre + utf8Len ((c :: cs).take (tw isHdrName (c :: cs))) := utf8Len_append _ _
        have h2 : src = (pre ++ (c :: cs).take (tw isHdrName (c :: cs))) ++ (c :: cs).drop (tw isHdrName (c :: cs)) := by
          rw [h, List.append_assoc, List.take_append_drop]
        have hnew : SpanOK src (utf8Len pre, utf8Len pre + utf8Len ((c :: cs).take (tw isHdrName (c :: cs)))) :=
          ⟨⟨pre, c :: cs, h, rfl⟩, ⟨_, _, h2, e2.symm⟩, by simp only; omega⟩
        split
        · next prev hf =>
          intro sp hsp
          simp only [List.mem_cons, List.mem_nil_iff, or_false] at hsp
          rcases hsp with rfl | rfl
          · exact hacc prev (List.mem_of_find?_eq_some hf)
          · exact hnew
        · have := parseHeader_spans src f (pre ++ (c :: cs).take (tw isHdrName (c :: cs)))
            ((c :: cs).drop (tw isHdrName (c :: cs))) line
            (acc ++ [(String.ofList ((c :: cs).take (tw isHdrName (c :: cs))), utf8Len pre,
              utf8Len pre + utf8Len ((c :: cs).take (tw isHdrName (c :: cs))))]) h2
            (by
              intro x hx
              simp only [List.mem_append, List.mem_cons, List.mem_nil_iff, or_false] at hx
              rcases hx with hx | rfl
              · exact hacc x hx
              · exact hnew)
          rw [e2] at this; exact this

end Dtr
