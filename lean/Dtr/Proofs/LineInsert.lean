import Dtr.Proofs.LexNewline
import Dtr.Proofs.ParserEol
import Dtr.Proofs.ParserFuel
/-!
# An inserted blank or comment-only line: lexer, parser and header put together
-/
namespace Dtr

theorem lexKT_any_fuel (s : Str) (f1 f2 : Nat) (h1 : s.length ≤ f1) (h2 : s.length ≤ f2) : lexKT f1 s = lexKT f2 s := by
  have e1 : f1 = s.length + (f1 - s.length) := by omega
  have e2 : f2 = s.length + (f2 - s.length) := by omega
  rw [e1, e2, lexKT_fuel_add _ _ _ (Nat.le_refl _), lexKT_fuel_add _ _ _ (Nat.le_refl _)]

theorem skips_append (b c rest : Str) (hb : Skips b (c ++ rest)) (hc : Skips c rest) : Skips (b ++ c) rest := by
  intro f hf
  have e : f + (b ++ c).length = (f + c.length) + b.length := by simp; omega
  rw [e, List.append_assoc, hb (f + c.length) (by simp; omega), hc f hf]

/-- blanks, optionally followed by a comment: what a blank or comment-only line holds in front of its newline -/
def BlankLine (w : Str) : Prop :=
  ∃ b : Str, (∀ a ∈ b, isBlank a = true) ∧ (w = b ∨ ∃ txt : Str, w = b ++ '#' :: txt ∧ ∀ a ∈ txt, (a != '\n') = true)

theorem skips_blankline (w : Str) (hw : BlankLine w) (R : Str) : Skips w ('\n' :: R) := by
  obtain ⟨b, hb, h | ⟨txt, h, ht⟩⟩ := hw
  · rw [h]; exact skips_blanks b hb _
  · rw [h]
    exact skips_append b ('#' :: txt) _ (skips_blanks b hb _) (skips_comment txt _ ht (Or.inr ⟨R, rfl⟩))

/-- **the lexer**: a blank or comment-only line inserted at a line start adds exactly one `Eol` token,
directly behind an `Eol` token or at the very start, and changes no other token -/
theorem lex_insert_line (L R w : Str) (hL : L = [] ∨ L.getLast? = some '\n') (hw : BlankLine w) :
    ∃ pre : List (Kind × Str), (pre = [] ∨ ∃ t, pre.getLast? = some (.Eol, t)) ∧
      lexKT ((L ++ R).length + 1) (L ++ R) = pre ++ lexKT (R.length + 1) R ∧
      lexKT ((L ++ (w ++ '\n' :: R)).length + 1) (L ++ (w ++ '\n' :: R)) =
        pre ++ (.Eol, ['\n']) :: lexKT (R.length + 1) R := by
  obtain ⟨TL, h1, h2, h3⟩ := lex_lines L.length L (Nat.le_refl _) hL
  refine ⟨TL, ?_, ?_, ?_⟩
  · by_cases hn : L = []
    · exact Or.inl (h1 hn)
    · exact Or.inr (h2 hn)
  · rw [h3 R _ (by omega), lexKT_any_fuel R _ (R.length + 1) (by simp; omega) (by omega)]
  · rw [h3 (w ++ '\n' :: R) _ (by omega)]
    congr 1
    rw [lexKT_any_fuel (w ++ '\n' :: R) _ ((R.length + 2) + w.length) (by simp; omega) (by simp; omega),
      skips_blankline w hw R (R.length + 2) (by simp)]
    have hb : isBlank '\n' = false := by decide
    have hh : ('\n' == '#') = false := by decide
    show lexKT (R.length + 1 + 1) ('\n' :: R) = _
    simp only [lexKT, hb, hh, if_false, Bool.false_eq_true, tokLen, best_nl]
    simp

/-- the abstract token of a (kind, text) pair -/
def absKT (kt : Kind × Str) : ATok := absTok ⟨kt.1, kt.2, 0, 0⟩

theorem absTok_eq_absKT (t : Tok) : absTok t = absKT (t.kind, t.text) := by cases t; rfl

theorem map_absTok_kt (a : List Tok) : a.map absTok = (a.map (fun t => (t.kind, t.text))).map absKT := by
  simp [List.map_map, Function.comp_def, absTok_eq_absKT]

/-- **the tokens the parser sees**: the second text's list is the first's with one `Eol` inserted behind an
`Eol` or at the very start -/
theorem abs_insert_line (L R w : Str) (off off' : Nat) (hL : L = [] ∨ L.getLast? = some '\n') (hw : BlankLine w) :
    ∃ P S : List ATok, (P = [] ∨ P.getLast? = some (.sym .Eol)) ∧
      (lexBodyAll off (L ++ R)).map absTok = P ++ S ∧
      (lexBodyAll off' (L ++ (w ++ '\n' :: R))).map absTok = P ++ .sym .Eol :: S := by
  obtain ⟨pre, hp, h1, h2⟩ := lex_insert_line L R w hL hw
  refine ⟨pre.map absKT, (lexKT (R.length + 1) R).map absKT, ?_, ?_, ?_⟩
  · rcases hp with rfl | ⟨t, ht⟩
    · exact Or.inl rfl
    · right; rw [List.getLast?_map, ht]; rfl
  · rw [map_absTok_kt]
    have := lexBody_kt ((L ++ R).length + 1) off (L ++ R)
    unfold lexBodyAll
    rw [this, h1, List.map_append]
  · rw [map_absTok_kt]
    have := lexBody_kt ((L ++ (w ++ '\n' :: R)).length + 1) off' (L ++ (w ++ '\n' :: R))
    unfold lexBodyAll
    rw [this, h2, List.map_append]
    rfl

/-- two parse outcomes: both succeed with the same statements up to line numbers and the same recorded
names, or neither succeeds -/
def SameParse (r r' : PRes (List Stmt)) : Prop :=
  (∃ b st b' st', r = .ok b st ∧ r' = .ok b' st' ∧ Stmts.erase b' = Stmts.erase b ∧ Sim0 st st') ∨
  ((∀ b st, r ≠ .ok b st) ∧ (∀ b st, r' ≠ .ok b st))

/-- **the parser**: one extra `Eol` behind an `Eol`, or at the very start, does not change the parse -/
theorem parseBody_eol (hdr : List String) (line : Nat) (P S : List ATok)
    (hP : P = [] ∨ P.getLast? = some (.sym .Eol)) :
    SameParse (parseBody hdr line (P ++ S)) (parseBody hdr line (P ++ .sym .Eol :: S)) := by
  have g1 := parseBody_gsat hdr line (P ++ S)
  have g2 := parseBody_gsat hdr line (P ++ .sym .Eol :: S)
  have hrel : (fun s s' => R TB s s' ∨ R TP s s')
      ({ toks := P ++ S, line := line } : PState) ({ toks := P ++ .sym .Eol :: S, line := line } : PState) := by
    have hs : Sim0 ({ toks := P ++ S, line := line } : PState) ({ toks := P ++ .sym .Eol :: S, line := line } : PState) :=
      ⟨rfl, rfl, rfl, rfl⟩
    rcases hP with rfl | hl
    · exact Or.inr ⟨by simp [TP], hs⟩
    · refine Or.inl ⟨⟨P, S, ?_, hl, rfl, rfl⟩, hs⟩
      intro e; rw [e] at hl; cases hl
  have h := blockB hdr (parseFuel (P ++ S).length) (parseFuel (P ++ .sym .Eol :: S).length) none [] []
    (by intro k hk; cases hk) rfl _ _ hrel
  unfold parseBody at g1 g2
  unfold SameParse parseBody
  cases h1 : parseBlock hdr (parseFuel (P ++ S).length) none [] { toks := P ++ S, line := line } <;>
    cases h2 : parseBlock hdr (parseFuel (P ++ .sym .Eol :: S).length) none []
      { toks := P ++ .sym .Eol :: S, line := line } <;>
    rw [h1, h2] at h <;> simp only [Rel2] at h
  all_goals first
    | exact Or.inl ⟨_, _, _, _, rfl, rfl, h.2, h.1⟩
    | exact absurd h id
    | (rw [h1] at g1; exact absurd g1 id)
    | (rw [h2] at g2; exact absurd g2 id)
    | exact Or.inr ⟨fun _ _ e => (by cases e), fun _ _ e => (by cases e)⟩

/-! ### the header does not look behind its newline -/

theorem tw_all (q : Char → Bool) : ∀ (s : Str), (∀ a ∈ s, q a = true) → tw q s = s.length
  | [], _ => rfl
  | c :: cs, h => by
    have hc := h c (by simp)
    have := tw_all q cs (fun a ha => h a (by simp [ha]))
    simp only [tw, List.takeWhile, hc, List.length_cons] at this ⊢
    omega

theorem drop_tw_head (q : Char → Bool) : ∀ (s : Str) (x : Char) (xs : Str), s.drop (tw q s) = x :: xs → q x = false
  | [], x, xs, h => by simp [tw] at h
  | c :: cs, x, xs, h => by
    by_cases hc : q c = true
    · have e : tw q (c :: cs) = tw q cs + 1 := by simp [tw, List.takeWhile, hc]
      rw [e] at h
      exact drop_tw_head q cs x xs (by simpa using h)
    · have hc' : q c = false := by simpa using hc
      have e : tw q (c :: cs) = 0 := by simp [tw, List.takeWhile, hc']
      rw [e] at h
      simp only [List.drop_zero, List.cons.injEq] at h
      rw [← h.1]; exact hc'

theorem tw_stop' (q : Char → Bool) (x : Char) (hq : q x = false) (A B : Str) (hA : ∀ a ∈ A, q a = true) :
    tw q (A ++ x :: B) = A.length := by
  rw [tw_stop q x hq A B, tw_all q A hA]

/-- **the header parser reads nothing behind the newline that ends the header**: with the same text
up to there and anything else behind it, it returns the same names, line counter and offset -/
theorem parseHeader_indep : ∀ (f off line : Nat) (acc : List (String × Nat × Nat)) (s : Str)
    (names : List (String × Nat × Nat)) (l o : Nat) (r : Str),
    parseHeader f off line acc s = .ok names l o r →
    ∃ h : Str, s = h ++ r ∧ ∀ (r2 : Str) (f2 : Nat), (h ++ r2).length < f2 →
      parseHeader f2 off line acc (h ++ r2) = .ok names l o r2 := by
  intro f
  induction f with
  | zero => intro off line acc s names l o r h; simp [parseHeader] at h
  | succ f ih =>
    intro off line acc s names l o r h
    cases s with
    | nil => simp [parseHeader] at h
    | cons c cs =>
      simp only [parseHeader] at h
      by_cases hb : isBlank c = true
      · simp only [hb, if_true] at h
        obtain ⟨h', hs, hall⟩ := ih _ _ _ _ _ _ _ _ h
        refine ⟨c :: h', by rw [hs]; rfl, ?_⟩
        intro r2 f2 hf
        obtain ⟨f2', rfl⟩ : ∃ k, f2 = k + 1 := ⟨f2 - 1, by simp at hf; omega⟩
        simp only [List.cons_append, parseHeader, hb, if_true]
        exact hall r2 f2' (by simp at hf ⊢; omega)
      · simp only [hb, if_false, Bool.false_eq_true] at h
        by_cases hn : (c == '\n') = true
        · simp only [hn, if_true] at h
          by_cases he : acc.isEmpty = true
          · simp only [he, if_true] at h
            obtain ⟨h', hs, hall⟩ := ih _ _ _ _ _ _ _ _ h
            refine ⟨c :: h', by rw [hs]; rfl, ?_⟩
            intro r2 f2 hf
            obtain ⟨f2', rfl⟩ : ∃ k, f2 = k + 1 := ⟨f2 - 1, by simp at hf; omega⟩
            simp only [List.cons_append, parseHeader, hb, hn, he, if_true, if_false, Bool.false_eq_true]
            exact hall r2 f2' (by simp at hf ⊢; omega)
          · simp only [he, if_false, Bool.false_eq_true, HdrRes.ok.injEq] at h
            obtain ⟨rfl, rfl, rfl, rfl⟩ := h
            refine ⟨[c], rfl, ?_⟩
            intro r2 f2 hf
            obtain ⟨f2', rfl⟩ : ∃ k, f2 = k + 1 := ⟨f2 - 1, by simp at hf; omega⟩
            simp only [List.cons_append, List.nil_append, parseHeader, hb, hn, he, if_true, if_false, Bool.false_eq_true]
        · simp only [hn, if_false, Bool.false_eq_true] at h
          -- a name
          have hq : isHdrName c = true := by
            have hn' : c ≠ '\n' := by simpa using hn
            simp [isHdrName, hb, hn']
          split at h
          · cases h
          · next hfind =>
            obtain ⟨h', hs, hall⟩ := ih _ _ _ _ _ _ _ _ h
            -- the rest is not empty (at the end of the text the header parser fails) and starts with a stop character
            cases h' with
            | nil =>
              have := hall [] 1 (by simp)
              simp [parseHeader] at this
            | cons x h'' =>
              have hx : isHdrName x = false := by
                have hd : (c :: cs).drop (tw isHdrName (c :: cs)) = x :: (h'' ++ r) := by rw [hs]; rfl
                exact drop_tw_head isHdrName _ x _ hd
              let A := (c :: cs).take (tw isHdrName (c :: cs))
              have hAall : ∀ a ∈ A, isHdrName a = true := by
                intro a ha
                simp only [A, take_tw'] at ha
                exact takeWhile_all _ a ha
              have hAlen : A.length = tw isHdrName (c :: cs) := by
                simp only [A, List.length_take]
                have := tw_le' isHdrName (c :: cs)
                omega
              have hpos : 1 ≤ tw isHdrName (c :: cs) := by simp [tw, List.takeWhile, hq]
              have hAc : ∃ A', A = c :: A' := by
                simp only [A]
                obtain ⟨k, hk⟩ : ∃ k, tw isHdrName (c :: cs) = k + 1 := ⟨_, (Nat.sub_add_cancel hpos).symm⟩
                rw [hk]; exact ⟨cs.take k, rfl⟩
              refine ⟨A ++ x :: h'', ?_, ?_⟩
              · have : c :: cs = A ++ (c :: cs).drop (tw isHdrName (c :: cs)) := (List.take_append_drop _ _).symm
                rw [this, hs]; simp
              · intro r2 f2 hf
                obtain ⟨f2', rfl⟩ : ∃ k, f2 = k + 1 := ⟨f2 - 1, by simp at hf; omega⟩
                obtain ⟨A', hA'⟩ := hAc
                have e0 : A ++ x :: h'' ++ r2 = c :: (A' ++ x :: (h'' ++ r2)) := by rw [hA']; simp
                have htw : tw isHdrName (c :: (A' ++ x :: (h'' ++ r2))) = tw isHdrName (c :: cs) := by
                  have := tw_stop' isHdrName x hx A (h'' ++ r2) hAall
                  rw [hA'] at this
                  simp only [List.cons_append] at this
                  rw [this, ← hA', hAlen]
                have htake : (c :: (A' ++ x :: (h'' ++ r2))).take (tw isHdrName (c :: cs)) = A := by
                  have : c :: (A' ++ x :: (h'' ++ r2)) = A ++ x :: (h'' ++ r2) := by rw [hA']; simp
                  rw [this, ← hAlen, List.take_left']
                  rfl
                have hdrop : (c :: (A' ++ x :: (h'' ++ r2))).drop (tw isHdrName (c :: cs)) = x :: h'' ++ r2 := by
                  have : c :: (A' ++ x :: (h'' ++ r2)) = A ++ x :: (h'' ++ r2) := by rw [hA']; simp
                  rw [this, ← hAlen, List.drop_left']
                  · simp
                  · rfl
                rw [e0]
                simp only [parseHeader, hb, hn, if_false, Bool.false_eq_true, htw, htake, hdrop]
                simp only [A] at hfind ⊢
                rw [hfind]
                simp only
                refine hall r2 f2' ?_
                have : (A ++ x :: h'' ++ r2).length = A.length + (x :: h'' ++ r2).length := by simp
                rw [this] at hf
                simp at hf ⊢
                omega

end Dtr
