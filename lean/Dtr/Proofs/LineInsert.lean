import Dtr.Proofs.LexNewline
import Dtr.Proofs.ParserEol
import Dtr.Proofs.ParserFuel
/-!
# An inserted blank or comment-only line: lexer, parser and header put together
-/
namespace Dtr

theorem lexKT_any_fuel (s : Str) (f1 f2 : Nat) (h1 : s.length ≤ f1) (h2 : s.length ≤ f2) : lexKT f1 s = lexKT f2 s := by
  have e1 : f1 = s.length + (f1 - s.length) := by omega
  have e2 : f2 = s.length + (f2 - s.length) := by omega
  rw [e1, e2, lexKT_fuel_add _ _ _ (Nat.le_refl _), lexKT_fuel_add _ _ _ (Nat.le_refl _)]

theorem skips_append (b c rest : Str) (hb : Skips b (c ++ rest)) (hc : Skips c rest) : Skips (b ++ c) rest := by
  intro f hf
  have e : f + (b ++ c).length = (f + c.length) + b.length := by simp; omega
  rw [e, List.append_assoc, hb (f + c.length) (by simp; omega), hc f hf]

/-- blanks, optionally followed by a comment: what a blank or comment-only line holds in front of its newline -/
def BlankLine (w : Str) : Prop :=
  ∃ b : Str, (∀ a ∈ b, isBlank a = true) ∧ (w = b ∨ ∃ txt : Str, w = b ++ '#' :: txt ∧ ∀ a ∈ txt, (a != '\n') = true)

theorem skips_blankline (w : Str) (hw : BlankLine w) (R : Str) : Skips w ('\n' :: R) := by
  obtain ⟨b, hb, h | ⟨txt, h, ht⟩⟩ := hw
  · rw [h]; exact skips_blanks b hb _
  · rw [h]
    exact skips_append b ('#' :: txt) _ (skips_blanks b hb _) (skips_comment txt _ ht (Or.inr ⟨R, rfl⟩))

/-- **the lexer**: a blank or comment-only line inserted at a line start adds exactly one `Eol` token,
directly behind an `Eol` token or at the very start, and changes no other token -/
theorem lex_insert_line (L R w : Str) (hL : L = [] ∨ L.getLast? = some '\n') (hw : BlankLine w) :
    ∃ pre : List (Kind × Str), (pre = [] ∨ ∃ t, pre.getLast? = some (.Eol, t)) ∧
      lexKT ((L ++ R).length + 1) (L ++ R) = pre ++ lexKT (R.length + 1) R ∧
      lexKT ((L ++ (w ++ '\n' :: R)).length + 1) (L ++ (w ++ '\n' :: R)) =
        pre ++ (.Eol, ['\n']) :: lexKT (R.length + 1) R := by
  obtain ⟨TL, h1, h2, h3⟩ := lex_lines L.length L (Nat.le_refl _) hL
  refine ⟨TL, ?_, ?_, ?_⟩
  · by_cases hn : L = []
    · exact Or.inl (h1 hn)
    · exact Or.inr (h2 hn)
  · rw [h3 R _ (by omega), lexKT_any_fuel R _ (R.length + 1) (by simp; omega) (by omega)]
  · rw [h3 (w ++ '\n' :: R) _ (by omega)]
    congr 1
    rw [lexKT_any_fuel (w ++ '\n' :: R) _ ((R.length + 2) + w.length) (by simp; omega) (by simp; omega),
      skips_blankline w hw R (R.length + 2) (by simp)]
    have hb : isBlank '\n' = false := by decide
    have hh : ('\n' == '#') = false := by decide
    show lexKT (R.length + 1 + 1) ('\n' :: R) = _
    simp only [lexKT, hb, hh, if_false, Bool.false_eq_true, tokLen, best_nl]
    simp

/-- the abstract token of a (kind, text) pair -/
def absKT (kt : Kind × Str) : ATok := absTok ⟨kt.1, kt.2, 0, 0⟩

theorem absTok_eq_absKT (t : Tok) : absTok t = absKT (t.kind, t.text) := by cases t; rfl

theorem map_absTok_kt (a : List Tok) : a.map absTok = (a.map (fun t => (t.kind, t.text))).map absKT := by
  simp [List.map_map, Function.comp_def, absTok_eq_absKT]

/-- **the tokens the parser sees**: the second text's list is the first's with one `Eol` inserted behind an
`Eol` or at the very start -/
theorem abs_insert_line (L R w : Str) (off off' : Nat) (hL : L = [] ∨ L.getLast? = some '\n') (hw : BlankLine w) :
    ∃ P S : List ATok, (P = [] ∨ P.getLast? = some (.sym .Eol)) ∧
      (lexBodyAll off (L ++ R)).map absTok = P ++ S ∧
      (lexBodyAll off' (L ++ (w ++ '\n' :: R))).map absTok = P ++ .sym .Eol :: S := by
  obtain ⟨pre, hp, h1, h2⟩ := lex_insert_line L R w hL hw
  refine ⟨pre.map absKT, (lexKT (R.length + 1) R).map absKT, ?_, ?_, ?_⟩
  · rcases hp with rfl | ⟨t, ht⟩
    · exact Or.inl rfl
    · right; rw [List.getLast?_map, ht]; rfl
  · rw [map_absTok_kt]
    have := lexBody_kt ((L ++ R).length + 1) off (L ++ R)
    unfold lexBodyAll
    rw [this, h1, List.map_append]
  · rw [map_absTok_kt]
    have := lexBody_kt ((L ++ (w ++ '\n' :: R)).length + 1) off' (L ++ (w ++ '\n' :: R))
    unfold lexBodyAll
    rw [this, h2, List.map_append]
    rfl

/-- two parse outcomes: both succeed with the same statements up to line numbers and the same recorded
names, or neither succeeds -/
def SameParse (r r' : PRes (List Stmt)) : Prop :=
  (∃ b st b' st', r = .ok b st ∧ r' = .ok b' st' ∧ Stmts.erase b' = Stmts.erase b ∧ Sim0 st st') ∨
  ((∀ b st, r ≠ .ok b st) ∧ (∀ b st, r' ≠ .ok b st))

/-- **the parser**: one extra `Eol` behind an `Eol`, or at the very start, does not change the parse -/
theorem parseBody_eol (hdr : List String) (line : Nat) (P S : List ATok)
    (hP : P = [] ∨ P.getLast? = some (.sym .Eol)) :
    SameParse (parseBody hdr line (P ++ S)) (parseBody hdr line (P ++ .sym .Eol :: S)) := by
  have g1 := parseBody_gsat hdr line (P ++ S)
  have g2 := parseBody_gsat hdr line (P ++ .sym .Eol :: S)
  have hrel : (fun s s' => R TB s s' ∨ R TP s s')
      ({ toks := P ++ S, line := line } : PState) ({ toks := P ++ .sym .Eol :: S, line := line } : PState) := by
    have hs : Sim0 ({ toks := P ++ S, line := line } : PState) ({ toks := P ++ .sym .Eol :: S, line := line } : PState) :=
      ⟨rfl, rfl, rfl, rfl⟩
    rcases hP with rfl | hl
    · exact Or.inr ⟨by simp [TP], hs⟩
    · refine Or.inl ⟨⟨P, S, ?_, hl, rfl, rfl⟩, hs⟩
      intro e; rw [e] at hl; cases hl
  have h := blockB hdr (parseFuel (P ++ S).length) (parseFuel (P ++ .sym .Eol :: S).length) none [] []
    (by intro k hk; cases hk) rfl _ _ hrel
  unfold parseBody at g1 g2
  unfold SameParse parseBody
  cases h1 : parseBlock hdr (parseFuel (P ++ S).length) none [] { toks := P ++ S, line := line } <;>
    cases h2 : parseBlock hdr (parseFuel (P ++ .sym .Eol :: S).length) none []
      { toks := P ++ .sym .Eol :: S, line := line } <;>
    rw [h1, h2] at h <;> simp only [Rel2] at h
  all_goals first
    | exact Or.inl ⟨_, _, _, _, rfl, rfl, h.2, h.1⟩
    | exact absurd h id
    | (rw [h1] at g1; exact absurd g1 id)
    | (rw [h2] at g2; exact absurd g2 id)
    | exact Or.inr ⟨fun _ _ e => (by cases e), fun _ _ e => (by cases e)⟩

/-! ### the header does not look behind its newline -/

theorem tw_all (q : Char → Bool) : ∀ (s : Str), (∀ a ∈ s, q a = true) → tw q s = s.length
  | [], _ => rfl
  | c :: cs, h => by
    have hc := h c (by simp)
    have := tw_all q cs (fun a ha => h a (by simp [ha]))
    simp only [tw, List.takeWhile, hc, List.length_cons] at this ⊢
    omega

theorem drop_tw_head (q : Char → Bool) : ∀ (s : Str) (x : Char) (xs : Str), s.drop (tw q s) = x :: xs → q x = false
  | [], x, xs, h => by simp [tw] at h
  | c :: cs, x, xs, h => by
    by_cases hc : q c = true
    · have e : tw q (c :: cs) = tw q cs + 1 := by simp [tw, List.takeWhile, hc]
      rw [e] at h
      exact drop_tw_head q cs x xs (by simpa using h)
    · have hc' : q c = false := by simpa using hc
      have e : tw q (c :: cs) = 0 := by simp [tw, List.takeWhile, hc']
      rw [e] at h
      simp only [List.drop_zero, List.cons.injEq] at h
      rw [← h.1]; exact hc'

theorem tw_stop' (q : Char → Bool) (x : Char) (hq : q x = false) (A B : Str) (hA : ∀ a ∈ A, q a = true) :
    tw q (A ++ x :: B) = A.length := by
  rw [tw_stop q x hq A B, tw_all q A hA]

/-- **the header parser reads nothing behind the newline that ends the header**: with the same text
up to there and anything else behind it, it returns the same names, line counter and offset -/
theorem parseHeader_indep : ∀ (f off line : Nat) (acc : List (String × Nat × Nat)) (s : Str)
    (names : List (String × Nat × Nat)) (l o : Nat) (r : Str),
    parseHeader f off line acc s = .ok names l o r →
    ∃ h : Str, s = h ++ r ∧ ∀ (r2 : Str) (f2 : Nat), (h ++ r2).length < f2 →
      parseHeader f2 off line acc (h ++ r2) = .ok names l o r2 := by
  intro f
  induction f with
  | zero => intro off line acc s names l o r h; simp [parseHeader] at h
  | succ f ih =>
    intro off line acc s names l o r h
    cases s with
    | nil => simp [parseHeader] at h
    | cons c cs =>
      simp only [parseHeader] at h
      by_cases hb : isBlank c = true
      · simp only [hb, if_true] at h
        obtain ⟨h', hs, hall⟩ := ih _ _ _ _ _ _ _ _ h
        refine ⟨c :: h', by rw [hs]; rfl, ?_⟩
        intro r2 f2 hf
        obtain ⟨f2', rfl⟩ : ∃ k, f2 = k + 1 := ⟨f2 - 1, by simp at hf; omega⟩
        simp only [List.cons_append, parseHeader, hb, if_true]
        exact hall r2 f2' (by simp at hf ⊢; omega)
      · simp only [hb, if_false, Bool.false_eq_true] at h
        by_cases hn : (c == '\n') = true
        · simp only [hn, if_true] at h
          by_cases he : acc.isEmpty = true
          · simp only [he, if_true] at h
            obtain ⟨h', hs, hall⟩ := ih _ _ _ _ _ _ _ _ h
            refine ⟨c :: h', by rw [hs]; rfl, ?_⟩
            intro r2 f2 hf
            obtain ⟨f2', rfl⟩ : ∃ k, f2 = k + 1 := ⟨f2 - 1, by simp at hf; omega⟩
            simp only [List.cons_append, parseHeader, hb, hn, he, if_true, if_false, Bool.false_eq_true]
            exact hall r2 f2' (by simp at hf ⊢; omega)
          · simp only [he, if_false, Bool.false_eq_true, HdrRes.ok.injEq] at h
            obtain ⟨rfl, rfl, rfl, rfl⟩ := h
            refine ⟨[c], rfl, ?_⟩
            intro r2 f2 hf
            obtain ⟨f2', rfl⟩ : ∃ k, f2 = k + 1 := ⟨f2 - 1, by simp at hf; omega⟩
            simp only [List.cons_append, List.nil_append, parseHeader, hb, hn, he, if_true, if_false, Bool.false_eq_true]
        · simp only [hn, if_false, Bool.false_eq_true] at h
          -- a name
          have hq : isHdrName c = true := by
            have hn' : c ≠ '\n' := by simpa using hn
            simp [isHdrName, hb, hn']
          split at h
          · cases h
          · next hfind =>
            obtain ⟨h', hs, hall⟩ := ih _ _ _ _ _ _ _ _ h
            -- the rest is not empty (at the end of the text the header parser fails) and starts with a stop character
            cases h' with
            | nil =>
              have := hall [] 1 (by simp)
              simp [parseHeader] at this
            | cons x h'' =>
              have hx : isHdrName x = false := by
                have hd : (c :: cs).drop (tw isHdrName (c :: cs)) = x :: (h'' ++ r) := by rw [hs]; rfl
                exact drop_tw_head isHdrName _ x _ hd
              let A := (c :: cs).take (tw isHdrName (c :: cs))
              have hAall : ∀ a ∈ A, isHdrName a = true := by
                intro a ha
                simp only [A, take_tw'] at ha
                exact takeWhile_all _ a ha
              have hAlen : A.length = tw isHdrName (c :: cs) := by
                simp only [A, List.length_take]
                have := tw_le' isHdrName (c :: cs)
                omega
              have hpos : 1 ≤ tw isHdrName (c :: cs) := by simp [tw, List.takeWhile, hq]
              have hAc : ∃ A', A = c :: A' := by
                simp only [A]
                obtain ⟨k, hk⟩ : ∃ k, tw isHdrName (c :: cs) = k + 1 := ⟨_, (Nat.sub_add_cancel hpos).symm⟩
                rw [hk]; exact ⟨cs.take k, rfl⟩
              refine ⟨A ++ x :: h'', ?_, ?_⟩
              · have : c :: cs = A ++ (c :: cs).drop (tw isHdrName (c :: cs)) := (List.take_append_drop _ _).symm
                rw [this, hs]; simp
              · intro r2 f2 hf
                obtain ⟨f2', rfl⟩ : ∃ k, f2 = k + 1 := ⟨f2 - 1, by simp at hf; omega⟩
                obtain ⟨A', hA'⟩ := hAc
                have e0 : A ++ x :: h'' ++ r2 = c :: (A' ++ x :: (h'' ++ r2)) := by rw [hA']; simp
                have htw : tw isHdrName (c :: (A' ++ x :: (h'' ++ r2))) = tw isHdrName (c :: cs) := by
                  have := tw_stop' isHdrName x hx A (h'' ++ r2) hAall
                  rw [hA'] at this
                  simp only [List.cons_append] at this
                  rw [this, ← hA', hAlen]
                have htake : (c :: (A' ++ x :: (h'' ++ r2))).take (tw isHdrName (c :: cs)) = A := by
                  have : c :: (A' ++ x :: (h'' ++ r2)) = A ++ x :: (h'' ++ r2) := by rw [hA']; simp
                  rw [this, ← hAlen, List.take_left']
                  rfl
                have hdrop : (c :: (A' ++ x :: (h'' ++ r2))).drop (tw isHdrName (c :: cs)) = x :: h'' ++ r2 := by
                  have : c :: (A' ++ x :: (h'' ++ r2)) = A ++ x :: (h'' ++ r2) := by rw [hA']; simp
                  rw [this, ← hAlen, List.drop_left']
                  · simp
                  · rfl
                rw [e0]
                simp only [parseHeader, hb, hn, if_false, Bool.false_eq_true, htw, htake, hdrop]
                simp only [A] at hfind ⊢
                rw [hfind]
                simp only
                refine hall r2 f2' ?_
                have : (A ++ x :: h'' ++ r2).length = A.length + (x :: h'' ++ r2).length := by simp
                rw [this] at hf
                simp at hf ⊢
                omega

end Dtr

namespace Dtr

/-! ### blank space in the header line -/

/-- header parse results that differ in byte offsets only: the same names in the same order, the same line
counter, the same rest of the input; or both are errors -/
def HdrSame : HdrRes → HdrRes → Prop
  | .ok n1 l1 _ r1, .ok n2 l2 _ r2 => n2.map (·.1) = n1.map (·.1) ∧ l2 = l1 ∧ r2 = r1
  | .err _, .err _ => True
  | _, _ => False

theorem find_names' (name : String) : ∀ (a b : List (String × Nat × Nat)), b.map (·.1) = a.map (·.1) →
    (b.find? (fun x => x.1 == name)).isSome = (a.find? (fun x => x.1 == name)).isSome
  | [], [], _ => rfl
  | [], _ :: _, h => by simp at h
  | _ :: _, [], h => by simp at h
  | x :: xs, y :: ys, h => by
    simp only [List.map_cons, List.cons.injEq] at h
    simp only [List.find?_cons, h.1]
    split
    · rfl
    · exact find_names' name xs ys h.2

/-- the header parser does not care about offsets: with other offsets and other spans in the accumulator it
returns the same names, line and rest -/
theorem parseHeader_off : ∀ (f off off' line : Nat) (acc acc' : List (String × Nat × Nat)) (s : Str),
    acc'.map (·.1) = acc.map (·.1) → HdrSame (parseHeader f off line acc s) (parseHeader f off' line acc' s)
  | 0, _, _, _, _, _, _, _ => by simp [parseHeader, HdrSame]
  | f+1, _, _, _, _, _, [], _ => by simp [parseHeader, HdrSame]
  | f+1, off, off', line, acc, acc', c :: cs, h => by
    simp only [parseHeader]
    have hemp : acc'.isEmpty = acc.isEmpty := by
      cases acc <;> cases acc' <;> simp_all
    split
    · exact parseHeader_off f _ _ line acc acc' cs h
    · split
      · rw [hemp]
        split
        · exact parseHeader_off f _ _ (line + 1) acc acc' cs h
        · simp [HdrSame, h]
      · have hf := find_names' (String.ofList ((c :: cs).take (tw isHdrName (c :: cs)))) acc acc' h
        cases h1 : acc.find? (fun x => x.1 == String.ofList ((c :: cs).take (tw isHdrName (c :: cs)))) <;>
          cases h2 : acc'.find? (fun x => x.1 == String.ofList ((c :: cs).take (tw isHdrName (c :: cs)))) <;>
          simp [h1, h2] at hf
        · simp only
          exact parseHeader_off f _ _ line _ _ _ (by simp [h])
        · simp [HdrSame]

theorem HdrSame.trans {a b c : HdrRes} (h1 : HdrSame a b) (h2 : HdrSame b c) : HdrSame a c := by
  cases a <;> cases b <;> cases c <;> simp_all [HdrSame]

/-- more fuel than characters changes nothing -/
theorem parseHeader_fuel : ∀ (f off line : Nat) (acc : List (String × Nat × Nat)) (s : Str), s.length < f →
    parseHeader (f + 1) off line acc s = parseHeader f off line acc s
  | 0, _, _, _, _, h => by omega
  | f+1, off, line, acc, [], _ => by simp [parseHeader]
  | f+1, off, line, acc, c :: cs, h => by
    have hl : cs.length < f := by simp at h; omega
    have htw : ((c :: cs).drop (tw isHdrName (c :: cs))).length < f ∨ tw isHdrName (c :: cs) = 0 := by
      by_cases h0 : tw isHdrName (c :: cs) = 0
      · exact Or.inr h0
      · left; simp only [List.length_drop, List.length_cons]; simp at h; omega
    simp only [parseHeader]
    split
    · exact parseHeader_fuel f _ _ _ cs hl
    · split
      · split
        · exact parseHeader_fuel f _ _ _ cs hl
        · rfl
      · next hb hn =>
        have hq : isHdrName c = true := by
          have hn' : c ≠ '\n' := by simpa using hn
          have hb' : isBlank c = false := by simpa using hb
          simp [isHdrName, hb', hn']
        have hpos : 1 ≤ tw isHdrName (c :: cs) := by simp [tw, List.takeWhile, hq]
        split
        · rfl
        · rcases htw with h1 | h1
          · exact parseHeader_fuel f _ _ _ _ h1
          · omega

theorem parseHeader_fuel_ge (off line : Nat) (acc : List (String × Nat × Nat)) (s : Str) :
    ∀ (k f : Nat), s.length < f → parseHeader (f + k) off line acc s = parseHeader f off line acc s
  | 0, f, _ => rfl
  | k+1, f, h => by
    rw [← Nat.add_assoc, parseHeader_fuel (f + k) off line acc s (by omega), parseHeader_fuel_ge off line acc s k f h]

/-- a run of blanks in front of the text is skipped -/
theorem parseHeader_blanks : ∀ (w : Str), (∀ b ∈ w, isBlank b = true) →
    ∀ (f off line : Nat) (acc : List (String × Nat × Nat)) (s : Str), s.length < f →
      parseHeader (f + w.length) off line acc (w ++ s) = parseHeader f (off + utf8Len w) line acc s
  | [], _, f, off, line, acc, s, _ => by simp [utf8Len]
  | b :: w, hw, f, off, line, acc, s, hf => by
    have hb := hw b (by simp)
    have ih := parseHeader_blanks w (fun a ha => hw a (by simp [ha])) f (off + b.utf8Size) line acc s hf
    have e : f + (b :: w).length = (f + w.length) + 1 := by simp; omega
    rw [e, List.cons_append, parseHeader]
    simp only [hb, if_true]
    rw [ih]
    congr 1
    show off + b.utf8Size + utf8Len w = off + utf8Len (b :: w)
    have : utf8Len (b :: w) = b.utf8Size + utf8Len w := by
      show (b :: w).foldl (fun n c => n + c.utf8Size) 0 = _
      rw [List.foldl_cons]
      have hfold : ∀ (l : Str) (a : Nat), l.foldl (fun n c => n + c.utf8Size) a = a + utf8Len l := by
        intro l
        induction l with
        | nil => intro a; simp [utf8Len]
        | cons x xs ih => intro a; simp only [List.foldl_cons, utf8Len]; rw [ih, ih (0 + x.utf8Size)]; omega
      rw [hfold]; omega
    omega

end Dtr

namespace Dtr

theorem tw_all_append (q : Char → Bool) (A B : Str) (hA : ∀ a ∈ A, q a = true)
    (hB : B = [] ∨ ∃ x xs, B = x :: xs ∧ q x = false) : tw q (A ++ B) = A.length := by
  rcases hB with rfl | ⟨x, xs, rfl, hx⟩
  · simp [tw_all q A hA]
  · exact tw_stop' q x hx A xs hA

/-- the position behind `A` in `A ++ B` is not inside a name -/
def HdrBoundary (A B : Str) : Prop :=
  A = [] ∨ (∃ a, A.getLast? = some a ∧ isHdrName a = false) ∨ B = [] ∨ ∃ x xs, B = x :: xs ∧ isHdrName x = false

theorem tw_split (q : Char → Bool) : ∀ (A : Str), (∀ a ∈ A, q a = true) ∨
    ∃ A1 x A2, A = A1 ++ x :: A2 ∧ (∀ a ∈ A1, q a = true) ∧ q x = false
  | [] => Or.inl (by simp)
  | c :: A => by
    by_cases hc : q c = true
    · rcases tw_split q A with h | ⟨A1, x, A2, rfl, h1, hx⟩
      · exact Or.inl (by intro a ha; simp at ha; rcases ha with rfl | ha; exact hc; exact h a ha)
      · exact Or.inr ⟨c :: A1, x, A2, rfl, by intro a ha; simp at ha; rcases ha with rfl | ha; exact hc; exact h1 a ha, hx⟩
    · exact Or.inr ⟨[], c, A, rfl, by simp, by simpa using hc⟩

/-- **blanks inserted in the header line, not inside a name**: same names, same line counter, same rest -/
theorem parseHeader_ins (w : Str) (hw : ∀ b ∈ w, isBlank b = true) :
    ∀ (f off off' line : Nat) (acc acc' : List (String × Nat × Nat)) (A B : Str),
      acc'.map (·.1) = acc.map (·.1) → (∀ c ∈ A, c ≠ '\n') → HdrBoundary A B → (A ++ B).length < f →
      HdrSame (parseHeader f off line acc (A ++ B)) (parseHeader (f + w.length) off' line acc' (A ++ (w ++ B))) := by
  intro f
  induction f with
  | zero => intro off off' line acc acc' A B _ _ _ h; omega
  | succ f ih =>
    intro off off' line acc acc' A B hacc hnl hbd hf
    cases A with
    | nil =>
      simp only [List.nil_append]
      rw [parseHeader_blanks w hw (f + 1) off' line acc' B (by simpa using hf)]
      exact parseHeader_off (f + 1) off _ line acc acc' B hacc
    | cons c A' =>
      have hc : c ≠ '\n' := hnl c (by simp)
      have hnl' : ∀ x ∈ A', x ≠ '\n' := fun x hx => hnl x (by simp [hx])
      have hlen : (A' ++ B).length < f := by simp at hf ⊢; omega
      have e : f + 1 + w.length = (f + w.length) + 1 := by omega
      rw [e]
      by_cases hb : isBlank c = true
      · -- a blank
        simp only [List.cons_append, parseHeader, hb, if_true]
        refine ih _ _ line acc acc' A' B hacc hnl' ?_ hlen
        cases A' with
        | nil => exact Or.inl rfl
        | cons d ds =>
          rcases hbd with h | ⟨a, ha, hq⟩ | h | h
          · cases h
          · exact Or.inr (Or.inl ⟨a, by rw [← getLast_cons_ne c (d :: ds) (by simp)]; exact ha, hq⟩)
          · exact Or.inr (Or.inr (Or.inl h))
          · exact Or.inr (Or.inr (Or.inr h))
      · have hn : (c == '\n') = false := by simpa using hc
        have hq : isHdrName c = true := by
          have hb' : isBlank c = false := by simpa using hb
          simp [isHdrName, hb', hc]
        simp only [List.cons_append, parseHeader, hb, hn, if_false, Bool.false_eq_true]
        -- where does the name that starts here end?
        rcases tw_split isHdrName A' with hall | ⟨A1, x, A2, hA', h1, hx⟩
        · -- it fills the rest of `A`: the boundary condition says that it ends there
          have hAall : ∀ a ∈ c :: A', isHdrName a = true := by
            intro a ha; simp at ha; rcases ha with rfl | ha
            · exact hq
            · exact hall a ha
          have hB : B = [] ∨ ∃ y ys, B = y :: ys ∧ isHdrName y = false := by
            rcases hbd with h | ⟨a, ha, hqa⟩ | h | h
            · cases h
            · exfalso
              have hm : a ∈ c :: A' := List.mem_of_getLast? ha
              rw [hAall a hm] at hqa; cases hqa
            · exact Or.inl h
            · exact Or.inr h
          have ht1 : tw isHdrName (c :: (A' ++ B)) = (c :: A').length := by
            rw [← List.cons_append]; exact tw_all_append isHdrName (c :: A') B hAall hB
          have ht2 : tw isHdrName (c :: (A' ++ (w ++ B))) = (c :: A').length := by
            rw [← List.cons_append]
            refine tw_all_append isHdrName (c :: A') (w ++ B) hAall ?_
            cases w with
            | nil => simpa using hB
            | cons b w' =>
              right
              have hbb := hw b (by simp)
              exact ⟨b, w' ++ B, rfl, by simp [isHdrName, hbb]⟩
          have hk1 : (c :: (A' ++ B)).take (c :: A').length = c :: A' := by
            rw [← List.cons_append, List.take_left']; rfl
          have hk2 : (c :: (A' ++ (w ++ B))).take (c :: A').length = c :: A' := by
            rw [← List.cons_append, List.take_left']; rfl
          have hd1 : (c :: (A' ++ B)).drop (c :: A').length = B := by
            rw [← List.cons_append, List.drop_left']; rfl
          have hd2 : (c :: (A' ++ (w ++ B))).drop (c :: A').length = w ++ B := by
            rw [← List.cons_append, List.drop_left']; rfl
          rw [ht1, ht2, hk1, hk2, hd1, hd2]
          have hfn := find_names' (String.ofList (c :: A')) acc acc' hacc
          cases h1 : acc.find? (fun x => x.1 == String.ofList (c :: A')) <;>
            cases h2 : acc'.find? (fun x => x.1 == String.ofList (c :: A')) <;> rw [h1, h2] at hfn
          · simp only
            have := ih (off + utf8Len (c :: A')) (off' + utf8Len (c :: A')) line
              (acc ++ [(String.ofList (c :: A'), off, off + utf8Len (c :: A'))])
              (acc' ++ [(String.ofList (c :: A'), off', off' + utf8Len (c :: A'))]) [] B (by simp [hacc])
              (by simp) (Or.inl rfl) (by simp at hlen ⊢; omega)
            simpa using this
          · exact absurd hfn (by simp)
          · exact absurd hfn (by simp)
          · simp [HdrSame]
        · -- it ends inside `A`
          subst hA'
          have hAall : ∀ a ∈ c :: A1, isHdrName a = true := by
            intro a ha; simp at ha; rcases ha with rfl | ha
            · exact hq
            · exact h1 a ha
          have ht1 : tw isHdrName (c :: (A1 ++ x :: A2 ++ B)) = (c :: A1).length := by
            have := tw_stop' isHdrName x hx (c :: A1) (A2 ++ B) hAall
            simpa using this
          have ht2 : tw isHdrName (c :: (A1 ++ x :: A2 ++ (w ++ B))) = (c :: A1).length := by
            have := tw_stop' isHdrName x hx (c :: A1) (A2 ++ (w ++ B)) hAall
            simpa using this
          have hk : ∀ (Z : Str), (c :: (A1 ++ x :: A2 ++ Z)).take (c :: A1).length = c :: A1 := by
            intro Z
            have : c :: (A1 ++ x :: A2 ++ Z) = (c :: A1) ++ (x :: A2 ++ Z) := by simp
            rw [this, List.take_left']; rfl
          have hd : ∀ (Z : Str), (c :: (A1 ++ x :: A2 ++ Z)).drop (c :: A1).length = (x :: A2) ++ Z := by
            intro Z
            have : c :: (A1 ++ x :: A2 ++ Z) = (c :: A1) ++ (x :: A2 ++ Z) := by simp
            rw [this, List.drop_left']; rfl
          rw [ht1, ht2, hk B, hk (w ++ B), hd B, hd (w ++ B)]
          have hfn := find_names' (String.ofList (c :: A1)) acc acc' hacc
          cases h1' : acc.find? (fun y => y.1 == String.ofList (c :: A1)) <;>
            cases h2 : acc'.find? (fun y => y.1 == String.ofList (c :: A1)) <;> rw [h1', h2] at hfn
          · simp only
            refine ih _ _ line _ _ (x :: A2) B (by simp [hacc]) (fun y hy => hnl' y (List.mem_append_right _ hy)) ?_
              (by simp at hlen ⊢; omega)
            -- the boundary condition is about the end of `A`, which is the end of `x :: A2`
            cases A2 with
            | nil =>
              exact Or.inr (Or.inl ⟨x, rfl, hx⟩)
            | cons d ds =>
              rcases hbd with h | ⟨a, ha, hqa⟩ | h | h
              · cases h
              · refine Or.inr (Or.inl ⟨a, ?_, hqa⟩)
                have : (c :: (A1 ++ x :: d :: ds)).getLast? = (x :: d :: ds).getLast? := by
                  rw [← List.cons_append, List.getLast?_append]
                  simp only [List.getLast?_cons_cons]
                  cases hg : (d :: ds).getLast? with
                  | none => simp at hg
                  | some z => rfl
                rw [← this]; exact ha
              · exact Or.inr (Or.inr (Or.inl h))
              · exact Or.inr (Or.inr (Or.inr h))
          · exact absurd hfn (by simp)
          · exact absurd hfn (by simp)
          · simp [HdrSame]

end Dtr

namespace Dtr

theorem utf8Len_cons' (c : Char) (cs : Str) : utf8Len (c :: cs) = c.utf8Size + utf8Len cs := by
  have hfold : ∀ (l : Str) (a : Nat), l.foldl (fun n c => n + c.utf8Size) a = a + utf8Len l := by
    intro l
    induction l with
    | nil => intro a; simp [utf8Len]
    | cons x xs ih => intro a; simp only [List.foldl_cons, utf8Len]; rw [ih, ih (0 + x.utf8Size)]; omega
  show (c :: cs).foldl (fun n c => n + c.utf8Size) 0 = _
  rw [List.foldl_cons, hfold]; omega

/-- blank lines in front of the header: skipped, counted -/
theorem parseHeader_lead : ∀ (P : Str), (∀ c ∈ P, isBlank c = true ∨ c = '\n') →
    ∀ (f off line : Nat) (s : Str), s.length < f →
      parseHeader (f + P.length) off line [] (P ++ s) = parseHeader f (off + utf8Len P) (line + nlCount P) [] s
  | [], _, f, off, line, s, _ => by simp [utf8Len, nlCount]
  | c :: P, hP, f, off, line, s, hf => by
    have ih := parseHeader_lead P (fun a ha => hP a (by simp [ha])) f
    have e : f + (c :: P).length = (f + P.length) + 1 := by simp; omega
    rw [e, List.cons_append, parseHeader]
    rcases hP c (by simp) with hb | hn
    · have hc : c ≠ '\n' := by intro e; subst e; simp [isBlank] at hb
      simp only [hb, if_true]
      rw [ih _ _ s hf, utf8Len_cons']
      have : nlCount (c :: P) = nlCount P := by simp [nlCount, List.count_cons, hc]
      rw [this, Nat.add_assoc]
    · subst hn
      have hb : isBlank '\n' = false := by decide
      simp only [hb, Bool.false_eq_true, if_false, beq_self_eq_true, if_true, List.isEmpty_nil]
      rw [ih _ _ s hf, utf8Len_cons']
      have : nlCount ('\n' :: P) = nlCount P + 1 := by simp [nlCount, List.count_cons]
      rw [this]
      congr 1 <;> omega

/-- the header of `P ++ X`, `P` blank lines: the header of `X` with offset and line counter advanced -/
theorem parseHeaderAll_lead (P X : Str) (hP : ∀ c ∈ P, isBlank c = true ∨ c = '\n') :
    parseHeaderAll (P ++ X) = parseHeader (X.length + 1) (utf8Len P) (1 + nlCount P) [] X := by
  unfold parseHeaderAll
  have e : (P ++ X).length + 1 = (X.length + 1) + P.length := by simp; omega
  rw [e, parseHeader_lead P hP (X.length + 1) 0 1 X (by omega)]
  simp

end Dtr
