import Dtr.Proofs.StaticSim
import Dtr.Proofs.AfterError
/-!
# Lock step behind an evaluation error  (C15, continued runs)

When the static and a dynamic iterator in lock step (`SimS`) meet the same evaluation error — any error but
"unassigned name", the gap known finding KF1 lives in —, the states the two are left in (`Model/AfterError`) are in
lock step again: the generator has made the same draws (`rngAfter_mono`: monotonicity of the failing evaluation in the
name lookup), the statement iterator stands at the same place.
-/
namespace Dtr

theorem rngAfter_mono (get₁ get₂ : String → Option OutVal) (hle : ∀ n v, get₁ n = some v → get₂ n = some v) :
    ∀ (e : Expr) (g : Rng) (er : ExprErr), evalG get₁ e g = .err er → NonUn er → rngAfter get₁ e g = rngAfter get₂ e g
  | .num n, g, er, _, _ => rfl
  | .var s, g, er, _, _ => rfl
  | .un o e, g, er, h, hn => by
    simp only [rngAfter]
    simp only [evalG] at h
    cases h1 : evalG get₁ e g with
    | ok p => simp [h1] at h
    | err er' =>
      simp only [h1, Res.err.injEq] at h; subst h
      exact rngAfter_mono get₁ get₂ hle e g er' h1 hn
    | panic m => simp [h1] at h
  | .bin o l r, g, er, h, hn => by
    simp only [rngAfter]
    simp only [evalG] at h
    have ml := evalG_mono get₁ get₂ hle l g
    cases h1 : evalG get₁ l g with
    | ok p =>
      obtain ⟨a, g1⟩ := p
      simp only [h1, GRel] at ml
      simp only [ml]
      simp only [h1] at h
      have mr := evalG_mono get₁ get₂ hle r g1
      cases h2 : evalG get₁ r g1 with
      | ok q =>
        obtain ⟨b, g2⟩ := q
        simp only [h2, GRel] at mr
        rw [rngAfter_of_ok get₁ r g1 g2 b h2, rngAfter_of_ok get₂ r g1 g2 b mr]
      | err er' =>
        simp only [h2, Res.err.injEq] at h; subst h
        exact rngAfter_mono get₁ get₂ hle r g1 er' h2 hn
      | panic m => simp [h2] at h
    | err er' =>
      simp only [h1, Res.err.injEq] at h; subst h
      simp only [h1, GRel] at ml
      simp only [ml hn]
      exact rngAfter_mono get₁ get₂ hle l g er' h1 hn
    | panic m => simp [h1] at h
  | .call name args, g, er, h, hn => by
    unfold evalG at h
    unfold rngAfter
    cases hfa : funcArity name with
    | none => rfl
    | some ar =>
      simp only [hfa] at h ⊢
      by_cases hne : (ar != args.length) = true
      · rw [if_pos hne, if_pos hne]
      · rw [if_neg hne, if_neg hne]
        rw [if_neg hne] at h
        by_cases hr : name = "random"
        · rw [if_pos hr, if_pos hr]
          rw [if_pos hr] at h
          match args with
          | [] => rfl
          | _ :: _ :: _ => rfl
          | [a] =>
            simp only at h ⊢
            have ma := evalG_mono get₁ get₂ hle a g
            cases h1 : evalG get₁ a g with
            | ok p =>
              obtain ⟨mx, g1⟩ := p
              simp only [h1, GRel] at ma
              simp only [ma]
            | err er' =>
              simp only [h1, Res.err.injEq] at h; subst h
              simp only [h1, GRel] at ma
              simp only [ma hn]
              exact rngAfter_mono get₁ get₂ hle a g er' h1 hn
            | panic m => simp [h1] at h
        · rw [if_neg hr, if_neg hr]
          rw [if_neg hr] at h
          by_cases hi : name = "ite"
          · rw [if_pos hi, if_pos hi]
            rw [if_pos hi] at h
            match args with
            | [] => rfl
            | [_] => rfl
            | [_, _] => rfl
            | _ :: _ :: _ :: _ :: _ => rfl
            | [t, a, b] =>
              simp only at h ⊢
              have mt := evalG_mono get₁ get₂ hle t g
              cases h1 : evalG get₁ t g with
              | ok p =>
                obtain ⟨v, g1⟩ := p
                simp only [h1, GRel] at mt
                simp only [mt]
                simp only [h1] at h
                by_cases hz : v = 0
                · simp only [hz, if_true] at h ⊢
                  exact rngAfter_mono get₁ get₂ hle b g1 er h hn
                · simp only [hz, if_false] at h ⊢
                  exact rngAfter_mono get₁ get₂ hle a g1 er h hn
              | err er' =>
                simp only [h1, Res.err.injEq] at h; subst h
                simp only [h1, GRel] at mt
                simp only [mt hn]
                exact rngAfter_mono get₁ get₂ hle t g er' h1 hn
              | panic m => simp [h1] at h
          · rw [if_neg hi, if_neg hi]

/-- the contexts behind a failing evaluation are related again -/
theorem afterEval_sim (e : Expr) {c₁ c₂ : Ctx} (h : Sim c₁ c₂) (er : ExprErr) (he : evalE e c₁ = .err er) (hn : NonUn er) :
    Sim (c₁.afterEval e) (c₂.afterEval e) := by
  have hg : evalG c₁.get e c₁.rng = .err er := by
    unfold evalE at he
    cases h1 : evalG c₁.get e c₁.rng with
    | ok p => simp [h1] at he
    | err er' => simp only [h1, Res.err.injEq] at he; rw [he]
    | panic m => simp [h1] at he
  refine ⟨h.vars, h.alt, ?_, h.outs⟩
  show rngAfter c₁.get e c₁.rng = rngAfter c₂.get e c₂.rng
  rw [← h.rng]
  exact rngAfter_mono c₁.get c₂.get h.get_le e c₁.rng er hg hn

theorem entryAfter_sim (d : DataEntry) {c₁ c₂ : Ctx} (h : Sim c₁ c₂) (er : ExprErr) (he : evalEntry d c₁ = .err er) (hn : NonUn er) :
    Sim (entryAfter d c₁) (entryAfter d c₂) := by
  cases d with
  | num n => simp [evalEntry] at he
  | x => simp [evalEntry] at he
  | z => simp [evalEntry] at he
  | c => simp [evalEntry] at he
  | expr e =>
    simp only [evalEntry] at he
    cases h1 : evalE e c₁ with
    | ok p => simp [h1] at he
    | err er' => simp only [h1, Res.err.injEq] at he; subst he; exact afterEval_sim e h er' h1 hn
    | panic m => simp [h1] at he
  | bits k e =>
    simp only [evalEntry] at he
    cases h1 : evalE e c₁ with
    | ok p => simp [h1] at he
    | err er' => simp only [h1, Res.err.injEq] at he; subst he; exact afterEval_sim e h er' h1 hn
    | panic m => simp [h1] at he

theorem rowAfter_sim : ∀ (ds : List DataEntry) {c₁ c₂ : Ctx}, Sim c₁ c₂ → ∀ (er : ExprErr), evalRow ds c₁ = .err er → NonUn er →
    Sim (rowAfter ds c₁) (rowAfter ds c₂)
  | [], c₁, c₂, _, er, he, _ => by simp [evalRow] at he
  | d :: ds, c₁, c₂, h, er, he, hn => by
    have hd := evalEntry_sim d h
    simp only [evalRow] at he
    simp only [rowAfter]
    cases h1 : evalEntry d c₁ with
    | ok p =>
      obtain ⟨es, c1⟩ := p
      simp only [h1, RRel] at hd
      obtain ⟨c2, e2, hs⟩ := hd
      simp only [e2]
      simp only [h1] at he
      cases h2 : evalRow ds c1 with
      | ok q => simp [h2] at he
      | err er' => simp only [h2, Res.err.injEq] at he; subst he; exact rowAfter_sim ds hs er' h2 hn
      | panic m => simp [h2] at he
    | err er' =>
      simp only [h1, Res.err.injEq] at he; subst he
      simp only [h1, RRel] at hd
      simp only [hd hn]
      exact entryAfter_sim d h er' h1 hn
    | panic m => simp [h1] at he

/-- a failing turn: same iterator afterwards, related contexts -/
theorem stepPost_sim : ∀ (it : It) {c₁ c₂ : Ctx}, Sim c₁ c₂ → ∀ (er : ExprErr), step it c₁ = .err er → NonUn er →
    (stepPost it c₁).1 = (stepPost it c₂).1 ∧ Sim (stepPost it c₁).2 (stepPost it c₂).2
  | .mk rest .iterate, c₁, c₂, h, er, he, hn => by
    cases rest with
    | nil => simp [step] at he
    | cons s rest' =>
      cases s with
      | letS name e =>
        simp only [step] at he
        cases h1 : evalE e c₁ with
        | ok p => simp [h1] at he
        | err er' => simp only [h1, StepRes.err.injEq] at he; subst he; exact ⟨rfl, afterEval_sim e h er' h1 hn⟩
        | panic m => simp [h1] at he
      | row data line =>
        simp only [step] at he
        cases h1 : evalRow data c₁ with
        | ok p => simp [h1] at he
        | err er' => simp only [h1, StepRes.err.injEq] at he; subst he; exact ⟨rfl, rowAfter_sim data h er' h1 hn⟩
        | panic m => simp [h1] at he
      | loop var max body =>
        simp only [step] at he
        cases h1 : evalE max c₁ with
        | ok p => simp [h1] at he
        | err er' => simp only [h1, StepRes.err.injEq] at he; subst he; exact ⟨rfl, afterEval_sim max h er' h1 hn⟩
        | panic m => simp [h1] at he
      | resetRandom => simp [step] at he
      | «while» cond body => simp [step] at he
  | .mk rest (.startLoop ls), c₁, c₂, h, er, he, hn => by
    simp only [step] at he
    split at he <;> cases he
  | .mk rest (.startInner ls), c₁, c₂, h, er, he, hn => by simp [step] at he
  | .mk rest (.inner it ls), c₁, c₂, h, er, he, hn => by
    simp only [step] at he
    cases h1 : step it c₁ with
    | yield r it' c' => simp [h1] at he
    | cont it' c' => simp [h1] at he
    | done it' c' => simp [h1] at he
    | panic m => simp [h1] at he
    | err er' =>
      simp only [h1, StepRes.err.injEq] at he; subst he
      obtain ⟨a, b⟩ := stepPost_sim it h er' h1 hn
      simp only [stepPost]
      exact ⟨by rw [a], b⟩
  | .mk rest (.endInner ls), c₁, c₂, h, er, he, hn => by
    simp only [step] at he
    split at he <;> cases he
  | .mk rest (.startWhile ws), c₁, c₂, h, er, he, hn => by
    simp only [step] at he
    cases h1 : evalE ws.cond c₁ with
    | ok p =>
      obtain ⟨v, c1⟩ := p
      simp only [h1] at he
      split at he <;> cases he
    | err er' => simp only [h1, StepRes.err.injEq] at he; subst he; exact ⟨rfl, afterEval_sim ws.cond h er' h1 hn⟩
    | panic m => simp [h1] at he
  | .mk rest (.whileInner it ws), c₁, c₂, h, er, he, hn => by
    simp only [step] at he
    cases h1 : step it c₁ with
    | yield r it' c' => simp [h1] at he
    | cont it' c' => simp [h1] at he
    | done it' c' => simp [h1] at he
    | panic m => simp [h1] at he
    | err er' =>
      simp only [h1, StepRes.err.injEq] at he; subst he
      obtain ⟨a, b⟩ := stepPost_sim it h er' h1 hn
      simp only [stepPost]
      exact ⟨by rw [a], b⟩

/-- a failing `next_with_context` -/
theorem nextRowPost_sim : ∀ (f : Nat) (it : It) {c₁ c₂ : Ctx}, Sim c₁ c₂ → ∀ (er : ExprErr), nextRow f it c₁ = .err er → NonUn er →
    (nextRowPost f it c₁).1 = (nextRowPost f it c₂).1 ∧ Sim (nextRowPost f it c₁).2 (nextRowPost f it c₂).2
  | 0, it, c₁, c₂, h, er, he, hn => by simp [nextRow] at he
  | f+1, it, c₁, c₂, h, er, he, hn => by
    have hs := step_sim it h
    simp only [nextRow] at he
    simp only [nextRowPost]
    cases h1 : step it c₁ with
    | yield r it' c1 => simp [h1] at he
    | done it' c1 => simp [h1] at he
    | panic m => simp [h1] at he
    | cont it' c1 =>
      simp only [h1, SRel] at hs; obtain ⟨c2, e2, hs'⟩ := hs
      simp only [e2]
      simp only [h1] at he
      exact nextRowPost_sim f it' hs' er he hn
    | err er' =>
      simp only [h1, NextRes.err.injEq] at he; subst he
      simp only [h1, SRel] at hs
      simp only [hs hn]
      exact stepPost_sim it h er' h1 hn

/-- **the two iterators are in lock step again behind an evaluation error** -/
theorem afterEvalErr_sim (tc : TestCase) (fuel : Nat) {s₁ s₂ : RowIt} (h : SimS s₁ s₂) (er : ExprErr)
    (he : getRow tc fuel s₁ = .err er) (hn : NonUn er) : SimS (s₁.afterEvalErr fuel) (s₂.afterEvalErr fuel) := by
  obtain ⟨_, hnr⟩ := getRow_err_inv tc fuel s₁ er he
  have := nextRowPost_sim fuel s₁.it h.ctx er hnr hn
  refine ⟨?_, h.prev, h.cache, ?_, h.oi⟩
  · show (nextRowPost fuel s₁.it s₁.ctx).1 = (nextRowPost fuel s₂.it s₂.ctx).1
    rw [← h.it]; exact this.1
  · show Sim (nextRowPost fuel s₁.it s₁.ctx).2 (nextRowPost fuel s₂.it s₂.ctx).2
    rw [← h.it]; exact this.2

end Dtr
