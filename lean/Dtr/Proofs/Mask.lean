import Dtr.Model.RowIter
/-! Helper lemmas: the width mask as arithmetic -/
namespace Dtr

theorem bitMask_lt (bits : Nat) (h : bits < 64) : bitMask bits = Int64.ofNat (2 ^ bits - 1) := by
  simp [bitMask, h]

theorem bitMask_ge (bits : Nat) (h : 64 ≤ bits) : bitMask bits = -1 := by
  have : ¬ bits < 64 := by omega
  simp [bitMask, this]

theorem and_neg_one (n : Int64) : n &&& (-1 : Int64) = n := by
  apply Int64.toBitVec_inj.mp
  rw [Int64.toBitVec_and]
  have : (-1 : Int64).toBitVec = BitVec.allOnes 64 := by decide
  rw [this, BitVec.and_allOnes]

/-- the unsigned value of the masked word -/
theorem masked_toNat (n : Int64) (bits : Nat) (h : bits < 64) :
    (n &&& bitMask bits).toBitVec.toNat = n.toBitVec.toNat % 2 ^ bits := by
  rw [bitMask_lt bits h, Int64.toBitVec_and, BitVec.toNat_and, Int64.toBitVec_ofNat', BitVec.toNat_ofNat]
  have hp : 2 ^ bits ≤ 2 ^ 63 := Nat.pow_le_pow_right (by omega) (by omega)
  have hpos : 0 < 2 ^ bits := Nat.two_pow_pos bits
  have : (2 ^ bits - 1) % 2 ^ 64 = 2 ^ bits - 1 := Nat.mod_eq_of_lt (by omega)
  rw [this, Nat.and_two_pow_sub_one_eq_mod]

theorem toInt_emod_two_pow (n : Int64) (bits : Nat) (h : bits ≤ 64) :
    n.toInt % ((2 ^ bits : Nat) : Int) = ((n.toBitVec.toNat % 2 ^ bits : Nat) : Int) := by
  rw [← Int64.toInt_toBitVec, BitVec.toInt_eq_toNat_bmod]
  have hdn : (2 ^ bits : Nat) ∣ (2 ^ 64 : Nat) := Nat.pow_dvd_pow 2 h
  have hd : ((2 ^ bits : Nat) : Int) ∣ ((2 ^ 64 : Nat) : Int) := Int.natCast_dvd_natCast.mpr hdn
  generalize (2 ^ 64 : Nat) = M at *
  generalize (2 ^ bits : Nat) = B at *
  rw [Int.bmod_def]
  split
  · rw [Int.emod_emod_of_dvd _ hd]; norm_cast
  · rw [Int.sub_emod, Int.emod_emod_of_dvd _ hd, Int.emod_eq_zero_of_dvd hd]
    simp only [Int.sub_zero, Int.emod_emod]
    norm_cast

end Dtr
