import Dtr.Proofs.RowIt
/-!
# A run that never consults the device's outputs is independent of them  (C15)

`Sim c₁ c₂`: the same variables, spare store and generator, and `c₁` has *no* outputs (the static
driver's context).  Everything that evaluates successfully in `c₁` evaluates to the same value in
`c₂`; an error other than "unassigned name" is the same error.  (An "unassigned name" in `c₁` may be
an output in `c₂` — that is exactly known finding KF1.)
-/
namespace Dtr

def NonUn (e : ExprErr) : Prop := ∀ n, e ≠ .unassigned n

/-- relation between the results of the two evaluations, for a result type without context -/
def GRel {α : Type} (r₁ r₂ : Res ExprErr α) : Prop :=
  match r₁ with
  | .ok a => r₂ = .ok a
  | .err e => NonUn e → r₂ = .err e
  | .panic _ => True

theorem GRel.refl {α : Type} (r : Res ExprErr α) : GRel r r := by
  cases r <;> simp [GRel]

theorem evalG_mono (get₁ get₂ : String → Option OutVal) (hle : ∀ n v, get₁ n = some v → get₂ n = some v) :
    ∀ (e : Expr) (g : Rng), GRel (evalG get₁ e g) (evalG get₂ e g)
  | .num n, g => by simp [evalG, GRel]
  | .var s, g => by
    cases h1 : get₁ s with
    | none => simp [evalG, h1, GRel, NonUn]
    | some v =>
      have h2 := hle s v h1
      simp only [evalG, h1, h2]; exact GRel.refl _
  | .un o e, g => by
    have ih := evalG_mono get₁ get₂ hle e g
    simp only [evalG]
    cases h1 : evalG get₁ e g with
    | ok p => simp only [h1, GRel] at ih; rw [ih]; exact GRel.refl _
    | err er =>
      simp only [h1, GRel] at ih
      simp only [GRel]; intro hn; rw [ih hn]
    | panic m => simp [GRel]
  | .bin o l r, g => by
    have ihl := evalG_mono get₁ get₂ hle l g
    simp only [evalG]
    cases h1 : evalG get₁ l g with
    | ok p =>
      obtain ⟨a, g1⟩ := p
      simp only [h1, GRel] at ihl; simp only [ihl]
      have ihr := evalG_mono get₁ get₂ hle r g1
      cases h2 : evalG get₁ r g1 with
      | ok q => simp only [h2, GRel] at ihr; simp only [ihr]; exact GRel.refl _
      | err er =>
        simp only [h2, GRel] at ihr
        simp only [GRel]; intro hn; simp only [ihr hn]
      | panic m => simp [GRel]
    | err er =>
      simp only [h1, GRel] at ihl
      simp only [GRel]; intro hn; rw [ihl hn]
    | panic m => simp [GRel]
  | .call name args, g => by
    unfold evalG
    cases hfa : funcArity name with
    | none => simp [GRel]
    | some ar =>
      simp only
      by_cases hne : (ar != args.length) = true
      · simp [hne, GRel]
      · simp only [hne, Bool.false_eq_true, if_false]
        by_cases hr : name = "random"
        · simp only [hr, if_true]
          match args with
          | [] => simp [GRel]
          | [a] =>
            simp only
            have ih := evalG_mono get₁ get₂ hle a g
            cases h1 : evalG get₁ a g with
            | ok p => simp only [h1, GRel] at ih; rw [ih]; exact GRel.refl _
            | err er =>
              simp only [h1, GRel] at ih
              simp only [GRel]; intro hn; rw [ih hn]
            | panic m => simp [GRel]
          | _ :: _ :: _ => simp [GRel]
        · simp only [hr, if_false]
          by_cases hi : name = "ite"
          · simp only [hi, if_true]
            match args with
            | [] => simp [GRel]
            | [_] => simp [GRel]
            | [_, _] => simp [GRel]
            | [t, a, b] =>
              simp only
              have ih := evalG_mono get₁ get₂ hle t g
              cases h1 : evalG get₁ t g with
              | ok p =>
                obtain ⟨c, g1⟩ := p
                simp only [h1, GRel] at ih; rw [ih]
                simp only
                by_cases hz : c = 0
                · simp only [hz, if_true]; exact evalG_mono get₁ get₂ hle b g1
                · simp only [hz, if_false]; exact evalG_mono get₁ get₂ hle a g1
              | err er =>
                simp only [h1, GRel] at ih
                simp only [GRel]; intro hn; rw [ih hn]
              | panic m => simp [GRel]
            | _ :: _ :: _ :: _ :: _ => simp [GRel]
          · simp only [hi, if_false]; exact GRel.refl _

/-- same variables, spare store and generator; the left context has no outputs -/
structure Sim (c₁ c₂ : Ctx) : Prop where
  vars : c₁.vars = c₂.vars
  alt : c₁.alt = c₂.alt
  rng : c₁.rng = c₂.rng
  outs : c₁.outs = []

theorem Sim.get_le {c₁ c₂ : Ctx} (h : Sim c₁ c₂) : ∀ n v, c₁.get n = some v → c₂.get n = some v := by
  intro n v hv
  simp only [Ctx.get, ← h.vars] at hv ⊢
  cases hg : c₁.vars.get n with
  | some x => simpa [hg] using hv
  | none => simp [hg, Ctx.outOf, h.outs] at hv

/-- relation between results that carry a context -/
def RRel {α : Type} (r₁ r₂ : Res ExprErr (α × Ctx)) : Prop :=
  match r₁ with
  | .ok (a, c₁) => ∃ c₂, r₂ = .ok (a, c₂) ∧ Sim c₁ c₂
  | .err e => NonUn e → r₂ = .err e
  | .panic _ => True

theorem evalE_sim (e : Expr) {c₁ c₂ : Ctx} (h : Sim c₁ c₂) : RRel (evalE e c₁) (evalE e c₂) := by
  have hm := evalG_mono c₁.get c₂.get h.get_le e c₁.rng
  unfold evalE
  rw [← h.rng]
  cases h1 : evalG c₁.get e c₁.rng with
  | ok p =>
    obtain ⟨v, g⟩ := p
    simp only [h1, GRel] at hm
    simp only [hm, RRel]
    exact ⟨_, rfl, ⟨h.vars, h.alt, rfl, h.outs⟩⟩
  | err er =>
    simp only [h1, GRel] at hm
    simp only [RRel]; intro hn; rw [hm hn]
  | panic m => simp [RRel]

theorem evalEntry_sim (d : DataEntry) {c₁ c₂ : Ctx} (h : Sim c₁ c₂) : RRel (evalEntry d c₁) (evalEntry d c₂) := by
  cases d with
  | num n => exact ⟨c₂, rfl, h⟩
  | x => exact ⟨c₂, rfl, h⟩
  | z => exact ⟨c₂, rfl, h⟩
  | c => exact ⟨c₂, rfl, h⟩
  | expr e =>
    have he := evalE_sim e h
    simp only [evalEntry]
    cases h1 : evalE e c₁ with
    | ok p =>
      obtain ⟨v, c1⟩ := p
      simp only [h1, RRel] at he
      obtain ⟨c2, he2, hs⟩ := he
      simp only [he2, RRel]; exact ⟨c2, rfl, hs⟩
    | err er =>
      simp only [h1, RRel] at he
      simp only [RRel]; intro hn; rw [he hn]
    | panic m => simp [RRel]
  | bits k e =>
    have he := evalE_sim e h
    simp only [evalEntry]
    cases h1 : evalE e c₁ with
    | ok p =>
      obtain ⟨v, c1⟩ := p
      simp only [h1, RRel] at he
      obtain ⟨c2, he2, hs⟩ := he
      simp only [he2, RRel]; exact ⟨c2, rfl, hs⟩
    | err er =>
      simp only [h1, RRel] at he
      simp only [RRel]; intro hn; rw [he hn]
    | panic m => simp [RRel]

theorem evalRow_sim : ∀ (ds : List DataEntry) {c₁ c₂ : Ctx}, Sim c₁ c₂ → RRel (evalRow ds c₁) (evalRow ds c₂)
  | [], c₁, c₂, h => ⟨c₂, rfl, h⟩
  | d :: ds, c₁, c₂, h => by
    have he := evalEntry_sim d h
    simp only [evalRow]
    cases h1 : evalEntry d c₁ with
    | ok p =>
      obtain ⟨es, c1⟩ := p
      simp only [h1, RRel] at he
      obtain ⟨c2, he2, hs⟩ := he
      simp only [he2]
      have hr := evalRow_sim ds hs
      cases h2 : evalRow ds c1 with
      | ok q =>
        obtain ⟨rest, c1'⟩ := q
        simp only [h2, RRel] at hr
        obtain ⟨c2', hr2, hs'⟩ := hr
        simp only [hr2, RRel]; exact ⟨c2', rfl, hs'⟩
      | err er =>
        simp only [h2, RRel] at hr
        simp only [RRel]; intro hn; rw [hr hn]
      | panic m => simp [RRel]
    | err er =>
      simp only [h1, RRel] at he
      simp only [RRel]; intro hn; rw [he hn]
    | panic m => simp [RRel]

/-- relation between two turns of the statement iterator -/
def SRel (r₁ r₂ : StepRes) : Prop :=
  match r₁ with
  | .yield r it c₁ => ∃ c₂, r₂ = .yield r it c₂ ∧ Sim c₁ c₂
  | .done it c₁ => ∃ c₂, r₂ = .done it c₂ ∧ Sim c₁ c₂
  | .cont it c₁ => ∃ c₂, r₂ = .cont it c₂ ∧ Sim c₁ c₂
  | .err e => NonUn e → r₂ = .err e
  | .panic _ => True

theorem Sim.set {c₁ c₂ : Ctx} (h : Sim c₁ c₂) (k : String) (v : Int64) : Sim (c₁.set k v) (c₂.set k v) :=
  ⟨by simp [Ctx.set, h.vars], h.alt, h.rng, h.outs⟩
theorem Sim.pushFrame {c₁ c₂ : Ctx} (h : Sim c₁ c₂) : Sim c₁.pushFrame c₂.pushFrame :=
  ⟨by simp [Ctx.pushFrame, h.vars], h.alt, h.rng, h.outs⟩
theorem Sim.popFrame {c₁ c₂ : Ctx} (h : Sim c₁ c₂) : Sim c₁.popFrame c₂.popFrame :=
  ⟨by simp [Ctx.popFrame, h.vars], h.alt, h.rng, h.outs⟩
theorem Sim.resetRandom {c₁ c₂ : Ctx} (h : Sim c₁ c₂) : Sim c₁.resetRandom c₂.resetRandom :=
  ⟨h.vars, h.alt, by simp [Ctx.resetRandom, h.rng], h.outs⟩
theorem Sim.swapVars {c₁ c₂ : Ctx} (h : Sim c₁ c₂) : Sim c₁.swapVars c₂.swapVars :=
  ⟨h.alt, h.vars, h.rng, h.outs⟩

theorem step_sim : ∀ (it : It) {c₁ c₂ : Ctx}, Sim c₁ c₂ → SRel (step it c₁) (step it c₂)
  | .mk rest .iterate, c₁, c₂, h => by
    cases rest with
    | nil => exact ⟨c₂, rfl, h⟩
    | cons s rest' =>
      cases s with
      | letS name e =>
        have he := evalE_sim e h
        simp only [step]
        cases h1 : evalE e c₁ with
        | ok p =>
          obtain ⟨v, c1⟩ := p
          simp only [h1, RRel] at he
          obtain ⟨c2, he2, hs⟩ := he
          simp only [he2, SRel]; exact ⟨_, rfl, hs.set name v⟩
        | err er =>
          simp only [h1, RRel] at he
          simp only [SRel]; intro hn; rw [he hn]
        | panic m => simp [SRel]
      | row data line =>
        have he := evalRow_sim data h
        simp only [step]
        cases h1 : evalRow data c₁ with
        | ok p =>
          obtain ⟨es, c1⟩ := p
          simp only [h1, RRel] at he
          obtain ⟨c2, he2, hs⟩ := he
          simp only [he2, SRel]; exact ⟨_, rfl, hs⟩
        | err er =>
          simp only [h1, RRel] at he
          simp only [SRel]; intro hn; rw [he hn]
        | panic m => simp [SRel]
      | loop var max body =>
        have he := evalE_sim max h
        simp only [step]
        cases h1 : evalE max c₁ with
        | ok p =>
          obtain ⟨v, c1⟩ := p
          simp only [h1, RRel] at he
          obtain ⟨c2, he2, hs⟩ := he
          simp only [he2, SRel]; exact ⟨_, rfl, hs⟩
        | err er =>
          simp only [h1, RRel] at he
          simp only [SRel]; intro hn; rw [he hn]
        | panic m => simp [SRel]
      | resetRandom => exact ⟨_, rfl, h.resetRandom⟩
      | «while» cond body => exact ⟨_, rfl, h⟩
  | .mk rest (.startLoop ls), c₁, c₂, h => by
    simp only [step]
    split
    · exact ⟨_, rfl, h⟩
    · exact ⟨_, rfl, h.pushFrame.set ls.var 0⟩
  | .mk rest (.startInner ls), c₁, c₂, h => ⟨_, rfl, h⟩
  | .mk rest (.inner it ls), c₁, c₂, h => by
    have ih := step_sim it h
    simp only [step]
    cases h1 : step it c₁ with
    | yield r it' c1 =>
      simp only [h1, SRel] at ih; obtain ⟨c2, e2, hs⟩ := ih
      simp only [e2, SRel]; exact ⟨_, rfl, hs⟩
    | cont it' c1 =>
      simp only [h1, SRel] at ih; obtain ⟨c2, e2, hs⟩ := ih
      simp only [e2, SRel]; exact ⟨_, rfl, hs⟩
    | done it' c1 =>
      simp only [h1, SRel] at ih; obtain ⟨c2, e2, hs⟩ := ih
      simp only [e2, SRel]; exact ⟨_, rfl, hs⟩
    | err er =>
      simp only [h1, SRel] at ih
      simp only [SRel]; intro hn; rw [ih hn]
    | panic m => simp [SRel]
  | .mk rest (.endInner ls), c₁, c₂, h => by
    simp only [step]
    split
    · exact ⟨_, rfl, h.set _ _⟩
    · exact ⟨_, rfl, h.popFrame⟩
  | .mk rest (.startWhile ws), c₁, c₂, h => by
    have he := evalE_sim ws.cond h
    simp only [step]
    cases h1 : evalE ws.cond c₁ with
    | ok p =>
      obtain ⟨v, c1⟩ := p
      simp only [h1, RRel] at he
      obtain ⟨c2, he2, hs⟩ := he
      simp only [he2]
      split
      · exact ⟨_, rfl, hs⟩
      · exact ⟨_, rfl, hs⟩
    | err er =>
      simp only [h1, RRel] at he
      simp only [SRel]; intro hn; rw [he hn]
    | panic m => simp [SRel]
  | .mk rest (.whileInner it ws), c₁, c₂, h => by
    have ih := step_sim it h
    simp only [step]
    cases h1 : step it c₁ with
    | yield r it' c1 =>
      simp only [h1, SRel] at ih; obtain ⟨c2, e2, hs⟩ := ih
      simp only [e2, SRel]; exact ⟨_, rfl, hs⟩
    | cont it' c1 =>
      simp only [h1, SRel] at ih; obtain ⟨c2, e2, hs⟩ := ih
      simp only [e2, SRel]; exact ⟨_, rfl, hs⟩
    | done it' c1 =>
      simp only [h1, SRel] at ih; obtain ⟨c2, e2, hs⟩ := ih
      simp only [e2, SRel]; exact ⟨_, rfl, hs⟩
    | err er =>
      simp only [h1, SRel] at ih
      simp only [SRel]; intro hn; rw [ih hn]
    | panic m => simp [SRel]

def NRel (r₁ r₂ : NextRes) : Prop :=
  match r₁ with
  | .row r it c₁ => ∃ c₂, r₂ = .row r it c₂ ∧ Sim c₁ c₂
  | .none it c₁ => ∃ c₂, r₂ = .none it c₂ ∧ Sim c₁ c₂
  | .err e => NonUn e → r₂ = .err e
  | .panic _ => True
  | .fuel => r₂ = .fuel

theorem nextRow_sim : ∀ (f : Nat) (it : It) {c₁ c₂ : Ctx}, Sim c₁ c₂ → NRel (nextRow f it c₁) (nextRow f it c₂)
  | 0, it, c₁, c₂, h => by simp [nextRow, NRel]
  | f+1, it, c₁, c₂, h => by
    have hs := step_sim it h
    simp only [nextRow]
    cases h1 : step it c₁ with
    | yield r it' c1 =>
      simp only [h1, SRel] at hs; obtain ⟨c2, e2, hs'⟩ := hs
      simp only [e2, NRel]; exact ⟨_, rfl, hs'⟩
    | done it' c1 =>
      simp only [h1, SRel] at hs; obtain ⟨c2, e2, hs'⟩ := hs
      simp only [e2, NRel]; exact ⟨_, rfl, hs'⟩
    | cont it' c1 =>
      simp only [h1, SRel] at hs; obtain ⟨c2, e2, hs'⟩ := hs
      simp only [e2]; exact nextRow_sim f it' hs'
    | err er =>
      simp only [h1, SRel] at hs
      simp only [NRel]; intro hn; rw [hs hn]
    | panic m => simp [NRel]

end Dtr

namespace Dtr

/-- the two output-index entries agree on whether (and which) virtual expression they hold -/
def OCompat : OIdx → OIdx → Prop
  | .virt e, .virt e' => e = e'
  | .virt _, _ => False
  | _, .virt _ => False
  | _, _ => True

def OCompatL : List OIdx → List OIdx → Prop
  | [], [] => True
  | a :: as, b :: bs => OCompat a b ∧ OCompatL as bs
  | _, _ => False

/-- two iterators in lock step: same statement iterator, row stack and previous row; contexts related -/
structure SimS (s₁ s₂ : RowIt) : Prop where
  it : s₁.it = s₂.it
  prev : s₁.prev = s₂.prev
  cache : s₁.cache = s₂.cache
  ctx : Sim s₁.ctx s₂.ctx
  oi : OCompatL s₁.outIdx s₂.outIdx

def GRRel (r₁ r₂ : GetRowRes) : Prop :=
  match r₁ with
  | .row ev s₁' => ∃ s₂', r₂ = .row ev s₂' ∧ SimS s₁' s₂'
  | .none s₁' => ∃ s₂', r₂ = .none s₂' ∧ SimS s₁' s₂'
  | .err e => NonUn e → r₂ = .err e
  | .panic _ => True
  | .fuel => r₂ = .fuel

/-- the part of `get_row` after the refill -/
def getRowTail (tc : TestCase) (s : RowIt) : GetRowRes :=
  match popRow tc s.cache with
  | .err _ => .panic "unreachable"
  | .panic m => .panic m
  | .ok (top, rest) =>
    let changed := changedFlags s.prev top.entries
    match genInputs tc top.entries changed with
    | .err _ => .panic "unreachable"
    | .panic m => .panic m
    | .ok inputs =>
      match genExpected tc top.entries top.xcols with
      | .err _ => .panic "unreachable"
      | .panic m => .panic m
      | .ok expected =>
        .row ⟨top.line, inputs, expected, top.upd⟩ { s with cache := rest, prev := some top.entries }

theorem getRow_eq (tc : TestCase) (fuel : Nat) (s : RowIt) :
    getRow tc fuel s =
      if s.cache.isEmpty then
        match nextRow fuel s.it s.ctx with
        | .row r it c => getRowTail tc { s with it := it, ctx := c, cache := [r] }
        | .none it c => .none { s with it := it, ctx := c }
        | .err e => .err e
        | .panic m => .panic m
        | .fuel => .fuel
      else getRowTail tc s := by
  unfold getRow getRowTail
  split
  · cases nextRow fuel s.it s.ctx <;> rfl
  · rfl

theorem getRowTail_sim (tc : TestCase) {s₁ s₂ : RowIt} (h : SimS s₁ s₂) :
    GRRel (getRowTail tc s₁) (getRowTail tc s₂) := by
  unfold getRowTail
  rw [← h.cache, ← h.prev]
  cases popRow tc s₁.cache with
  | err e => simp [GRRel]
  | panic m => simp [GRRel]
  | ok p =>
    obtain ⟨top, rest⟩ := p
    simp only
    cases genInputs tc top.entries (changedFlags s₁.prev top.entries) with
    | err e => simp [GRRel]
    | panic m => simp [GRRel]
    | ok inputs =>
      simp only
      cases genExpected tc top.entries top.xcols with
      | err e => simp [GRRel]
      | panic m => simp [GRRel]
      | ok expected =>
        simp only [GRRel]
        exact ⟨_, rfl, ⟨h.it, rfl, rfl, h.ctx, h.oi⟩⟩

theorem getRow_sim (tc : TestCase) (fuel : Nat) {s₁ s₂ : RowIt} (h : SimS s₁ s₂) :
    GRRel (getRow tc fuel s₁) (getRow tc fuel s₂) := by
  rw [getRow_eq, getRow_eq, ← h.cache, ← h.it]
  split
  · have hn := nextRow_sim fuel s₁.it h.ctx
    cases h1 : nextRow fuel s₁.it s₁.ctx with
    | row r it c1 =>
      simp only [h1, NRel] at hn; obtain ⟨c2, e2, hs⟩ := hn
      simp only [e2]
      exact getRowTail_sim tc ⟨rfl, h.prev, rfl, hs, h.oi⟩
    | none it c1 =>
      simp only [h1, NRel] at hn; obtain ⟨c2, e2, hs⟩ := hn
      simp only [e2, GRRel]
      exact ⟨_, rfl, ⟨rfl, h.prev, rfl, hs, h.oi⟩⟩
    | err er =>
      simp only [h1, NRel] at hn
      simp only [GRRel]; intro hnu; rw [hn hnu]
    | panic m => simp [GRRel]
    | fuel =>
      simp only [h1, NRel] at hn
      simp only [hn, GRRel]
  · exact getRowTail_sim tc h

end Dtr

namespace Dtr

/-- what the static driver's (empty) answer lets `extract_output_values` do, against any answer -/
theorem extractAll_sim (tc : TestCase) (outs : List OutEntry) :
    ∀ (eidx : List EIdx) (oi₁ oi₂ : List OIdx) (c₁ c₂ : Ctx) (vs₁ : List OutVal) (c₁' : Ctx),
      OCompatL oi₁ oi₂ → Sim c₁ c₂ →
      extractAll tc [] c₁ (eidx.zip oi₁) = .ok (vs₁, c₁') →
      match extractAll tc outs c₂ (eidx.zip oi₂) with
      | .ok (vs₂, c₂') => vs₂.length = vs₁.length ∧ Sim c₁' c₂'
      | .err _ => True
      | .panic _ => True
  | [], oi₁, oi₂, c₁, c₂, vs₁, c₁', _, hs, h => by
    simp only [List.zip_nil_left, extractAll, Res.ok.injEq, Prod.mk.injEq] at h ⊢
    obtain ⟨rfl, rfl⟩ := h
    exact ⟨rfl, hs⟩
  | i :: eidx, [], [], c₁, c₂, vs₁, c₁', _, hs, h => by
    simp only [List.zip_nil_right, extractAll, Res.ok.injEq, Prod.mk.injEq] at h ⊢
    obtain ⟨rfl, rfl⟩ := h
    exact ⟨rfl, hs⟩
  | i :: eidx, [], _ :: _, c₁, c₂, vs₁, c₁', hc, hs, h => by simp [OCompatL] at hc
  | i :: eidx, _ :: _, [], c₁, c₂, vs₁, c₁', hc, hs, h => by simp [OCompatL] at hc
  | i :: eidx, a :: oi₁, b :: oi₂, c₁, c₂, vs₁, c₁', hc, hs, h => by
    simp only [OCompatL] at hc
    obtain ⟨hab, hc'⟩ := hc
    simp only [List.zip_cons_cons, extractAll] at h ⊢
    -- the static side
    cases h1 : extractOne tc [] c₁ (i, a) with
    | err e => simp [h1] at h
    | panic m => simp [h1] at h
    | ok p1 =>
      obtain ⟨v1, c1⟩ := p1
      simp only [h1] at h
      cases h2 : extractAll tc [] c1 (eidx.zip oi₁) with
      | err e => simp [h2] at h
      | panic m => simp [h2] at h
      | ok p2 =>
        obtain ⟨vs, c1'⟩ := p2
        simp only [h2, Res.ok.injEq, Prod.mk.injEq] at h
        obtain ⟨rfl, rfl⟩ := h
        -- the dynamic side: the first entry
        have key : match extractOne tc outs c₂ (i, b) with
            | .ok (_, c2) => Sim c1 c2
            | .err _ => True
            | .panic _ => True := by
          cases a with
          | virt e =>
            cases b with
            | virt e' =>
              simp only [OCompat] at hab; subst hab
              simp only [extractOne] at h1 ⊢
              have he := evalE_sim e hs
              cases h3 : evalE e c₁ with
              | ok q =>
                obtain ⟨v, cq⟩ := q
                simp only [h3, Res.ok.injEq, Prod.mk.injEq] at h1
                simp only [h3, RRel] at he
                obtain ⟨c2, he2, hs2⟩ := he
                simp only [he2]
                rw [← h1.2]; exact hs2
              | err er => simp [h3] at h1
              | panic m => simp [h3] at h1
            | none => simp [OCompat] at hab
            | output n => simp [OCompat] at hab
          | none =>
            simp only [extractOne, Res.ok.injEq, Prod.mk.injEq] at h1
            cases b with
            | virt e' => simp [OCompat] at hab
            | none => simp only [extractOne]; rw [← h1.2]; exact hs
            | output n =>
              simp only [extractOne]
              cases tc.signals[i.sig]? with
              | none => trivial
              | some es =>
                cases outs[n]? with
                | none => trivial
                | some o =>
                  simp only
                  by_cases hes : (es == o.1) = true
                  · simp only [hes, if_true]; rw [← h1.2]; exact hs
                  · simp [hes]
          | output n =>
            simp only [extractOne] at h1
            split at h1
            · cases h1
            · simp at h1
        cases h4 : extractOne tc outs c₂ (i, b) with
        | err e => trivial
        | panic m => trivial
        | ok p4 =>
          obtain ⟨v2, c2⟩ := p4
          simp only [h4] at key
          have ih := extractAll_sim tc outs eidx oi₁ oi₂ c1 c2 vs c1' hc' key h2
          simp only
          cases h5 : extractAll tc outs c2 (eidx.zip oi₂) with
          | err e => trivial
          | panic m => trivial
          | ok p5 =>
            obtain ⟨vs2, c2'⟩ := p5
            simp only [h5] at ih
            simp only [List.length_cons]
            exact ⟨by omega, ih.2⟩

end Dtr
