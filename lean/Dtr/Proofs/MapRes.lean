import Dtr.Model.RowIter
/-! `mapRes` characterised by its elements -/
namespace Dtr

theorem mapRes_ok {α β ε : Type} (f : α → Res ε β) :
    ∀ (l : List α) (bs : List β), mapRes f l = .ok bs →
      bs.length = l.length ∧ ∀ (i : Nat) (h : i < l.length) (h' : i < bs.length), f l[i] = .ok bs[i]
  | [], bs, h => by
    simp only [mapRes] at h; cases h; simp
  | a :: as, bs, h => by
    simp only [mapRes] at h
    split at h
    · next b hb =>
      split at h
      · next bs' hbs =>
        cases h
        have ih := mapRes_ok f as bs' hbs
        refine ⟨by simp [ih.1], ?_⟩
        intro i hi hi'
        cases i with
        | zero => simpa using hb
        | succ i => simpa using ih.2 i (by simpa using hi) (by simpa using hi')
      · cases h
      · cases h
    · cases h
    · cases h

theorem mapRes_never_panics {α β ε : Type} (f : α → Res ε β) (l : List α)
    (h : ∀ a ∈ l, ∀ s, f a ≠ .panic s) : ∀ s, mapRes f l ≠ .panic s := by
  induction l with
  | nil => intro s; simp [mapRes]
  | cons a as ih =>
    intro s
    have ha := h a (by simp)
    have ih' := ih (fun x hx => h x (by simp [hx]))
    simp only [mapRes]
    cases hfa : f a with
    | ok b =>
      cases hm : mapRes f as with
      | ok bs => simp
      | err e => simp
      | panic s' => exact absurd hm (ih' s')
    | err e => simp
    | panic s' => exact absurd hfa (ha s')

end Dtr

namespace Dtr

theorem mapRes_all_ok {α β ε : Type} (f : α → Res ε β) (l : List α) (h : ∀ a ∈ l, ∃ b, f a = .ok b) :
    ∃ bs, mapRes f l = .ok bs := by
  induction l with
  | nil => exact ⟨[], rfl⟩
  | cons a as ih =>
    obtain ⟨b, hb⟩ := h a (by simp)
    obtain ⟨bs, hbs⟩ := ih (fun x hx => h x (by simp [hx]))
    exact ⟨b :: bs, by simp [mapRes, hb, hbs]⟩

end Dtr
