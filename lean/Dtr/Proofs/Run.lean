import Dtr.Proofs.Refine
/-! Deterministic runs of the machine: micro-step run `runAll`, and the run of repeated
`next_with_context` calls `runNext`; both follow `Steps`. -/
namespace Dtr
variable {W : Type} (D : Device W)

/-- the machine run micro-step by micro-step until the iterator is exhausted -/
def runAll : Nat → It → Sys W → Option (Sys W)
  | 0, _, _ => none
  | f+1, it, σ =>
    match step it σ.ctx with
    | .cont it' c' => runAll f it' { σ with ctx := c' }
    | .yield r it' c' => runAll f it' (σ.emit D r c')
    | .done _ c' => some { σ with ctx := c' }
    | .err _ => none
    | .panic _ => none

/-- what a caller does: `next_with_context` (with `sf` units of internal fuel) until it returns
`None`; after each yielded row the device reacts -/
def runNext (sf : Nat) : Nat → It → Sys W → Option (Sys W)
  | 0, _, _ => none
  | n+1, it, σ =>
    match nextRow sf it σ.ctx with
    | .row r it' c' => runNext sf n it' (σ.emit D r c')
    | .none _ c' => some { σ with ctx := c' }
    | _ => none

theorem Steps_runAll {it it' : It} {σ σ' : Sys W} (h : Steps D (it, σ) (it', σ')) :
    ∀ f out, runAll D f it' σ' = some out → ∃ f', runAll D f' it σ = some out := by
  generalize ha : (it, σ) = a at h
  generalize hb : (it', σ') = b at h
  induction h generalizing it σ with
  | refl => cases ha; cases hb; intro f out h; exact ⟨f, h⟩
  | head m _ ih =>
    cases ha
    intro f out hrun
    cases m with
    | cont hs =>
      obtain ⟨f', hf'⟩ := ih rfl hb f out hrun
      exact ⟨f' + 1, by simp [runAll, hs, hf']⟩
    | yield hs =>
      obtain ⟨f', hf'⟩ := ih rfl hb f out hrun
      exact ⟨f' + 1, by simp [runAll, hs, hf']⟩

theorem nextRow_mono : ∀ (f k : Nat) (it : It) (c : Ctx), nextRow f it c ≠ .fuel →
    nextRow (f + k) it c = nextRow f it c
  | 0, k, it, c, h => by simp [nextRow] at h
  | f+1, k, it, c, h => by
    have : f + 1 + k = (f + k) + 1 := by omega
    rw [this]
    simp only [nextRow] at h ⊢
    cases hs : step it c with
    | cont it' c' =>
      simp only [hs] at h ⊢
      exact nextRow_mono f k it' c' h
    | yield r it' c' => rfl
    | done it' c' => rfl
    | err e => rfl
    | panic m => rfl

theorem runNext_mono (sf : Nat) : ∀ (n : Nat) (it : It) (σ : Sys W) (out : Sys W) (k j : Nat),
    runNext D sf n it σ = some out → runNext D (sf + k) (n + j) it σ = some out
  | 0, it, σ, out, k, j, h => by simp [runNext] at h
  | n+1, it, σ, out, k, j, h => by
    have : n + 1 + j = (n + j) + 1 := by omega
    rw [this]
    simp only [runNext] at h ⊢
    have hne : nextRow sf it σ.ctx ≠ .fuel := by
      intro hf; rw [hf] at h; cases h
    rw [nextRow_mono sf k it σ.ctx hne]
    cases hn : nextRow sf it σ.ctx with
    | row r it' c' =>
      simp only [hn] at h ⊢
      exact runNext_mono sf n it' _ out k j h
    | none it' c' => simpa [hn] using h
    | err e => simp [hn] at h
    | panic m => simp [hn] at h
    | fuel => simp [hn] at h

theorem Sys.emit_ctx (σ : Sys W) (c : Ctx) (r : CRow) (c2 : Ctx) :
    ({ σ with ctx := c } : Sys W).emit D r c2 = σ.emit D r c2 := rfl

/-- a `cont` micro-step in front of a caller's run -/
theorem runNext_cont {it it' : It} {σ : Sys W} {c' : Ctx} (hs : step it σ.ctx = .cont it' c') :
    ∀ (sf n : Nat) (out : Sys W), runNext D sf n it' { σ with ctx := c' } = some out →
      runNext D (sf + 1) n it σ = some out
  | sf, 0, out, h => by simp [runNext] at h
  | sf, n+1, out, h => by
    simp only [runNext] at h ⊢
    have hstep : nextRow (sf + 1) it σ.ctx = nextRow sf it' c' := by simp only [nextRow, hs]
    rw [hstep]
    cases hn : nextRow sf it' c' with
    | row r it2 c2 =>
      simp only [hn, Sys.emit_ctx] at h ⊢
      have := runNext_mono D sf n it2 (σ.emit D r c2) out 1 0 h
      simpa using this
    | none it2 c2 => simpa [hn] using h
    | err e => simp [hn] at h
    | panic m => simp [hn] at h
    | fuel => simp [hn] at h

/-- the caller's run reaches the same final system state as the micro-step run -/
theorem runAll_runNext : ∀ (f : Nat) (it : It) (σ out : Sys W),
    runAll D f it σ = some out → runNext D f f it σ = some out
  | 0, it, σ, out, h => by simp [runAll] at h
  | f+1, it, σ, out, h => by
    simp only [runAll] at h
    cases hs : step it σ.ctx with
    | cont it' c' =>
      simp only [hs] at h
      have ih := runAll_runNext f it' { σ with ctx := c' } out h
      have h1 := runNext_cont D hs f f out ih
      have := runNext_mono D (f + 1) f it σ out 0 1 h1
      simpa using this
    | yield r it' c' =>
      simp only [hs] at h
      have ih := runAll_runNext f it' (σ.emit D r c') out h
      have hn : nextRow (f + 1) it σ.ctx = .row r it' c' := by simp [nextRow, hs]
      have := runNext_mono D f f it' (σ.emit D r c') out 1 0 ih
      simp only [Nat.add_zero] at this
      simp only [runNext, hn]
      exact this
    | done it' c' =>
      simp only [hs] at h
      have hn : nextRow (f + 1) it σ.ctx = .none it' c' := by simp [nextRow, hs]
      simp only [runNext, hn]
      exact h
    | err e => simp [hs] at h
    | panic m => simp [hs] at h

end Dtr
