import Dtr.Proofs.Frames
import Dtr.Spec.BigStep
/-! Stack discipline of the variable scopes along the big-step semantics -/
namespace Dtr
variable {W : Type} (D : Device W)

/-- the scope stack a context represents -/
def Ctx.scopes (c : Ctx) : Scopes.T Int64 := c.vars.abs

theorem evalE_vars {e : Expr} {c c' : Ctx} {v : Int64} (h : evalE e c = .ok (v, c')) :
    c'.vars = c.vars ∧ c'.alt = c.alt ∧ c'.outs = c.outs := by
  unfold evalE at h
  split at h
  · cases h; exact ⟨rfl, rfl, rfl⟩
  · cases h
  · cases h

theorem evalEntry_vars {d : DataEntry} {c c' : Ctx} {es} (h : evalEntry d c = .ok (es, c')) :
    c'.vars = c.vars ∧ c'.alt = c.alt ∧ c'.outs = c.outs := by
  cases d with
  | num n => simp [evalEntry] at h; obtain ⟨_, rfl⟩ := h; exact ⟨rfl, rfl, rfl⟩
  | x => simp [evalEntry] at h; obtain ⟨_, rfl⟩ := h; exact ⟨rfl, rfl, rfl⟩
  | z => simp [evalEntry] at h; obtain ⟨_, rfl⟩ := h; exact ⟨rfl, rfl, rfl⟩
  | c => simp [evalEntry] at h; obtain ⟨_, rfl⟩ := h; exact ⟨rfl, rfl, rfl⟩
  | expr e =>
    simp only [evalEntry] at h
    split at h
    · next v c1 he => cases h; exact evalE_vars he
    · cases h
    · cases h
  | bits k e =>
    simp only [evalEntry] at h
    split at h
    · next v c1 he => cases h; exact evalE_vars he
    · cases h
    · cases h

theorem evalRow_vars : ∀ {ds : List DataEntry} {c c' : Ctx} {es}, evalRow ds c = .ok (es, c') →
    c'.vars = c.vars ∧ c'.alt = c.alt ∧ c'.outs = c.outs
  | [], c, c', es, h => by simp [evalRow] at h; obtain ⟨_, rfl⟩ := h; exact ⟨rfl, rfl, rfl⟩
  | d :: ds, c, c', es, h => by
    simp only [evalRow] at h
    split at h
    · next es1 c1 h1 =>
      split at h
      · next rest c2 h2 =>
        cases h
        have a := evalEntry_vars h1
        have b := evalRow_vars h2
        exact ⟨b.1.trans a.1, b.2.1.trans a.2.1, b.2.2.trans a.2.2⟩
      · cases h
      · cases h
    · cases h
    · cases h

/-- a device that leaves the variable store alone (the real one only replaces the outputs) -/
def Device.KeepsVars (D : Device W) : Prop := ∀ w r c, (D.respond w r c).2.vars = c.vars

/-- what each of the four functions does to the scope stack -/
structure Discipline (fuel : Nat) : Prop where
  /-- a statement leaves every scope below the innermost one untouched, and the depth unchanged -/
  stmt : ∀ s (σ σ' : Sys W), σ.ctx.vars.Inv → execStmt D fuel s σ = some σ' →
    σ'.ctx.vars.Inv ∧ σ'.ctx.scopes.tail = σ.ctx.scopes.tail
  block : ∀ ss (σ σ' : Sys W), σ.ctx.vars.Inv → execBlock D fuel ss σ = some σ' →
    σ'.ctx.vars.Inv ∧ σ'.ctx.scopes.tail = σ.ctx.scopes.tail
  /-- a completed loop closes the scope it was entered with: what is left is exactly what lay below -/
  loop : ∀ var n body cur (σ σ' : Sys W) (b : List (String × Int64)) (bs : Scopes.T Int64), σ.ctx.vars.Inv →
    σ.ctx.scopes.tail = b :: bs → loopIter D fuel var n body cur σ = some σ' →
    σ'.ctx.vars.Inv ∧ σ'.ctx.scopes = b :: bs
  whil : ∀ cond body (σ σ' : Sys W), σ.ctx.vars.Inv → whileIter D fuel cond body σ = some σ' →
    σ'.ctx.vars.Inv ∧ σ'.ctx.scopes.tail = σ.ctx.scopes.tail

theorem scopes_set (c : Ctx) (k : String) (v : Int64) (h : c.vars.Inv) :
    (c.set k v).vars.Inv ∧ (c.set k v).scopes = Scopes.set c.scopes k v :=
  ⟨FMap.inv_set c.vars k v h, FMap.abs_set c.vars k v h⟩

theorem scopes_ne_nil (c : Ctx) : c.scopes ≠ [] := by
  unfold Ctx.scopes FMap.abs
  cases c.vars.frames <;> simp [FMap.scopesOf]

theorem set_tail (s : Scopes.T Int64) (k : String) (v : Int64) (h : s ≠ []) : (Scopes.set s k v).tail = s.tail := by
  cases s with
  | nil => exact absurd rfl h
  | cons sc rest => rfl

theorem discipline (hD : D.KeepsVars) : ∀ fuel, Discipline D fuel := by
  intro fuel
  induction fuel with
  | zero => constructor <;> intros <;> simp_all [execBlock, execStmt, loopIter, whileIter]
  | succ fuel ih =>
    constructor
    · -- stmt
      intro s σ σ' hinv h
      cases s with
      | letS name e =>
        simp only [execStmt] at h
        split at h
        · next v c' he =>
          cases h
          have hv := (evalE_vars he).1
          have hinv' : c'.vars.Inv := by rw [hv]; exact hinv
          obtain ⟨i2, s2⟩ := scopes_set c' name v hinv'
          refine ⟨i2, ?_⟩
          show (c'.set name v).scopes.tail = _
          rw [s2, set_tail _ _ _ (scopes_ne_nil c')]
          unfold Ctx.scopes; rw [hv]
        · cases h
      | row data line =>
        simp only [execStmt] at h
        split at h
        · next es c' he =>
          cases h
          have hv := (evalRow_vars he).1
          have hr : (D.respond σ.world { entries := es, line := line, upd := true } c').2.vars = σ.ctx.vars := (hD _ _ _).trans hv
          refine ⟨?_, ?_⟩
          · show (D.respond σ.world { entries := es, line := line, upd := true } c').2.vars.Inv
            rw [hr]; exact hinv
          · show (D.respond σ.world { entries := es, line := line, upd := true } c').2.scopes.tail = _
            unfold Ctx.scopes; rw [hr]
        · cases h
      | resetRandom =>
        simp only [execStmt] at h; cases h; exact ⟨hinv, rfl⟩
      | loop var max body =>
        simp only [execStmt] at h
        split at h
        · next n c' he =>
          have hv := (evalE_vars he).1
          have hinv' : c'.vars.Inv := by rw [hv]; exact hinv
          split at h
          · cases h
            refine ⟨by rw [hv]; exact hinv, ?_⟩
            unfold Ctx.scopes; rw [hv]
          · have hp : c'.pushFrame.vars.Inv := FMap.inv_push c'.vars hinv'
            obtain ⟨i2, s2⟩ := scopes_set c'.pushFrame var 0 hp
            have hps : c'.pushFrame.scopes = [] :: c'.scopes := FMap.abs_push c'.vars
            -- the stack below the loop's own scope is the whole stack before the loop
            obtain ⟨b, bs, hb⟩ : ∃ b bs, c'.scopes = b :: bs := by
              cases hc : c'.scopes with
              | nil => exact absurd hc (scopes_ne_nil c')
              | cons b bs => exact ⟨b, bs, rfl⟩
            have htail : (c'.pushFrame.set var 0).scopes.tail = b :: bs := by
              rw [s2, hps]; simp [Scopes.set, hb]
            obtain ⟨i3, s3⟩ := ih.loop var n body 0 _ σ' b bs i2 htail h
            refine ⟨i3, ?_⟩
            rw [s3]
            have : σ.ctx.scopes = c'.scopes := by unfold Ctx.scopes; rw [hv]
            rw [this, hb]
        · cases h
      | «while» cond body =>
        simp only [execStmt] at h
        exact ih.whil cond body σ σ' hinv h
    · -- block
      intro ss σ σ' hinv h
      cases ss with
      | nil => simp [execBlock] at h; subst h; exact ⟨hinv, rfl⟩
      | cons s ss' =>
        simp only [execBlock] at h
        split at h
        · cases h
        · next σ1 hs =>
          obtain ⟨i1, t1⟩ := ih.stmt s σ σ1 hinv hs
          obtain ⟨i2, t2⟩ := ih.block ss' σ1 σ' i1 h
          exact ⟨i2, t2.trans t1⟩
    · -- loop
      intro var n body cur σ σ' b bs hinv htail h
      simp only [loopIter] at h
      split at h
      · cases h
      · next σ2 hb =>
        obtain ⟨i2, t2⟩ := ih.block body σ σ2 hinv hb
        split at h
        · obtain ⟨i3, s3⟩ := scopes_set σ2.ctx var (satSucc cur) i2
          have : (σ2.ctx.set var (satSucc cur)).scopes.tail = b :: bs := by
            rw [s3, set_tail _ _ _ (scopes_ne_nil _), t2, htail]
          exact ih.loop var n body _ _ σ' b bs i3 this h
        · cases h
          refine ⟨FMap.inv_pop _ i2, ?_⟩
          show σ2.ctx.popFrame.scopes = _
          have hp : σ2.ctx.popFrame.scopes = Scopes.pop σ2.ctx.scopes := FMap.abs_pop σ2.ctx.vars
          rw [hp]
          have ht : σ2.ctx.scopes.tail = b :: bs := t2.trans htail
          cases hs : σ2.ctx.scopes with
          | nil => exact absurd hs (scopes_ne_nil _)
          | cons t rest =>
            rw [hs] at ht
            simp only [List.tail_cons] at ht
            subst ht; rfl
    · -- while
      intro cond body σ σ' hinv h
      simp only [whileIter] at h
      split at h
      · next v c' he =>
        have hv := (evalE_vars he).1
        split at h
        · cases h
          refine ⟨by rw [hv]; exact hinv, ?_⟩
          unfold Ctx.scopes; rw [hv]
        · split at h
          · cases h
          · next σ2 hb =>
            have hinv' : c'.vars.Inv := by rw [hv]; exact hinv
            obtain ⟨i2, t2⟩ := ih.block body { σ with ctx := c' } σ2 hinv' hb
            obtain ⟨i3, t3⟩ := ih.whil cond body σ2 σ' i2 h
            refine ⟨i3, t3.trans (t2.trans ?_)⟩
            simp only [Ctx.scopes, hv]
      · cases h

end Dtr
