import Dtr.Model.Parser
/-! `BinOpTree::add` — shape invariant, soundness and completeness of the insertion algorithm -/
namespace Dtr

namespace BTree

def addAll (t : BTree) (ps : List (BinOp × Expr)) : BTree := ps.foldl (fun t p => t.add p.1 p.2) t

/-- left-most atom -/
def first : BTree → Expr
  | .atom a => a
  | .node _ l _ => l.first

/-- the in-order sequence of (operator, operand) pairs after the first operand -/
def seq : BTree → List (BinOp × Expr)
  | .atom _ => []
  | .node o l r => l.seq ++ (o, r.first) :: r.seq

def rootLe (t : BTree) (p : Nat) : Prop := match t with | .atom _ => True | .node o _ _ => o.prec ≤ p
def rootLt (t : BTree) (p : Nat) : Prop := match t with | .atom _ => True | .node o _ _ => o.prec < p

/-- The shape that "this precedence, left-associative within a level" means for a tree over one
parenthesis-free chain: the left child's root binds at least as tight as the node (equal level goes
to the left: left associativity), the right child's root binds strictly tighter. -/
def OK : BTree → Prop
  | .atom _ => True
  | .node o l r => l.rootLe o.prec ∧ r.rootLt o.prec ∧ l.OK ∧ r.OK

theorem seq_le {t : BTree} (h : t.OK) {p} (hp : t.rootLe p) : ∀ q ∈ t.seq, q.1.prec ≤ p := by
  induction t generalizing p with
  | atom a => simp [seq]
  | node o l r ihl ihr =>
    obtain ⟨hl, hr, okl, okr⟩ := h
    simp only [rootLe] at hp
    intro q hq
    simp only [seq, List.mem_append, List.mem_cons] at hq
    rcases hq with hq | hq | hq
    · have := ihl okl (p := o.prec) hl q hq; omega
    · subst hq; simpa using hp
    · have : r.rootLe o.prec := by
        cases r with
        | atom _ => trivial
        | node o2 _ _ => simp only [rootLt] at hr; simp only [rootLe]; omega
      have := ihr okr this q hq; omega

theorem seq_lt {t : BTree} (h : t.OK) {p} (hp : t.rootLt p) : ∀ q ∈ t.seq, q.1.prec < p := by
  cases t with
  | atom a => simp [seq]
  | node o l r =>
    intro q hq
    have := seq_le h (p := o.prec) (by simp [rootLe]) q hq
    simp only [rootLt] at hp; omega

theorem addAll_node (o : BinOp) (l x : BTree) (ps : List (BinOp × Expr)) (h : ∀ q ∈ ps, q.1.prec < o.prec) :
    (BTree.node o l x).addAll ps = .node o l (x.addAll ps) := by
  induction ps generalizing x with
  | nil => rfl
  | cons p ps ih =>
    have hp : p.1.prec < o.prec := h p (by simp)
    simp only [addAll, List.foldl_cons, add, hp, if_true]
    exact ih _ (fun q hq => h q (by simp [hq]))

/-- completeness: every well-shaped tree is rebuilt from its in-order sequence -/
theorem build_complete (t : BTree) (h : t.OK) : (BTree.atom t.first).addAll t.seq = t := by
  induction t with
  | atom a => rfl
  | node o l r ihl ihr =>
    obtain ⟨hl, hr, okl, okr⟩ := h
    simp only [seq, first, addAll, List.foldl_append, List.foldl_cons]
    have h1 := ihl okl
    simp only [addAll] at h1
    rw [h1]
    have h2 : l.add o r.first = .node o l (.atom r.first) := by
      cases l with
      | atom b => rfl
      | node o' l' r' =>
        simp only [rootLe] at hl
        have : ¬ o.prec < o'.prec := by omega
        simp [add, this]
    rw [h2]
    have := addAll_node o l (.atom r.first) r.seq (seq_lt okr hr)
    simp only [addAll] at this
    rw [this]
    have h3 := ihr okr
    simp only [addAll] at h3
    rw [h3]

/-- soundness: `add` keeps the tree well-shaped and appends to the in-order sequence -/
theorem add_ok (t : BTree) (o : BinOp) (a : Expr) (h : t.OK) :
    (t.add o a).OK ∧ (t.add o a).first = t.first ∧ (t.add o a).seq = t.seq ++ [(o, a)] ∧
    (∀ p, t.rootLe p → o.prec ≤ p → (t.add o a).rootLe p) := by
  induction t with
  | atom b => simp [add, OK, rootLe, rootLt, first, seq]
  | node o' l r ihl ihr =>
    obtain ⟨hl, hr, okl, okr⟩ := h
    by_cases hlt : o.prec < o'.prec
    · obtain ⟨ok', f', s', le'⟩ := ihr okr
      simp only [add, hlt, if_true, OK, first, seq, f', s']
      refine ⟨⟨hl, ?_, okl, ok'⟩, trivial, by simp, ?_⟩
      · cases hr' : r.add o a with
        | atom _ => trivial
        | node o2 l2 r2 =>
          simp only [rootLt]
          cases r with
          | atom b =>
            simp only [add] at hr'
            cases hr'; exact hlt
          | node o3 l3 r3 =>
            simp only [rootLt] at hr
            have := le' (o'.prec - 1) (by simp only [rootLe]; omega) (by omega)
            rw [hr'] at this; simp only [rootLe] at this; omega
      · intro p hp _; simpa [rootLe] using hp
    · simp only [add, hlt, if_false, OK, first, seq, rootLe, rootLt]
      refine ⟨⟨by omega, trivial, ⟨hl, hr, okl, okr⟩, trivial⟩, trivial, by simp, ?_⟩
      intro p _ hop; exact hop

theorem addAll_ok (t : BTree) (ps : List (BinOp × Expr)) (h : t.OK) :
    (t.addAll ps).OK ∧ (t.addAll ps).first = t.first ∧ (t.addAll ps).seq = t.seq ++ ps := by
  induction ps generalizing t with
  | nil => simp [addAll, h]
  | cons p ps ih =>
    obtain ⟨ok1, f1, s1, _⟩ := add_ok t p.1 p.2 h
    obtain ⟨ok2, f2, s2⟩ := ih (t.add p.1 p.2) ok1
    simp only [addAll, List.foldl_cons] at *
    exact ⟨ok2, by rw [f2, f1], by rw [s2, s1]; simp⟩

/-- a well-shaped tree is determined by its first operand and in-order sequence -/
theorem ok_unique (t u : BTree) (ht : t.OK) (hu : u.OK) (hf : t.first = u.first) (hs : t.seq = u.seq) : t = u := by
  rw [← build_complete t ht, ← build_complete u hu, hf, hs]

end BTree
end Dtr
