import Dtr.Model.Eval
/-!
# `random` as if the drawn values had been written as literals  (C17, last clause)

`litG get e g`: the expression `e` with every call of `random` that an evaluation from generator state `g`
actually performs replaced by the literal it draws (calls in a branch of `ite` that is not taken stay as
they are — they are not evaluated).  The substituted expression evaluates to the same value from *any*
generator state and leaves that state alone.
-/
namespace Dtr

/-- the expression with the performed draws written as literals, and the generator state behind the evaluation -/
def litG (get : String → Option OutVal) : Expr → Rng → Expr × Rng
  | .num n, g => (.num n, g)
  | .var name, g => (.var name, g)
  | .un o e, g => ((.un o (litG get e g).1), (litG get e g).2)
  | .bin o l r, g =>
    ((.bin o (litG get l g).1 (litG get r (litG get l g).2).1), (litG get r (litG get l g).2).2)
  | .call name args, g =>
    if name = "random" then
      match args with
      | [a] =>
        match evalG get a g with
        | .ok (max, g1) => if max ≤ 1 then (.call name [(litG get a g).1], g1) else (.num (g1.draw max).1, (g1.draw max).2)
        | _ => (.call name [(litG get a g).1], g)
      | _ => (.call name args, g)
    else if name = "ite" then
      match args with
      | [t, a, b] =>
        match evalG get t g with
        | .ok (v, g1) =>
          if v = 0 then (.call name [(litG get t g).1, a, (litG get b g1).1], (litG get b g1).2)
          else (.call name [(litG get t g).1, (litG get a g1).1, b], (litG get a g1).2)
        | _ => (.call name [(litG get t g).1, a, b], g)
      | _ => (.call name args, g)
    else (.call name args, g)

/-- the substituted expression has the same value as the original evaluation, from any generator state, and
draws nothing; the second component of `litG` is the generator state behind the original evaluation -/
theorem litG_spec (get : String → Option OutVal) : ∀ (e : Expr) (g g' : Rng) (v : Int64),
    evalG get e g = .ok (v, g') →
    (litG get e g).2 = g' ∧ ∀ g0 : Rng, evalG get (litG get e g).1 g0 = .ok (v, g0)
  | .num n, g, g', v, h => by
    simp only [evalG, Res.ok.injEq, Prod.mk.injEq] at h
    obtain ⟨rfl, rfl⟩ := h
    exact ⟨rfl, fun g0 => by simp [litG, evalG]⟩
  | .var name, g, g', v, h => by
    simp only [evalG] at h
    cases hg : get name with
    | none => rw [hg] at h; cases h
    | some ov =>
      rw [hg] at h
      cases ov with
      | val n =>
        simp only [Res.ok.injEq, Prod.mk.injEq] at h
        obtain ⟨rfl, rfl⟩ := h
        exact ⟨rfl, fun g0 => by simp [litG, evalG, hg]⟩
      | z => cases h
      | x => cases h
  | .un o e, g, g', v, h => by
    simp only [evalG] at h
    cases he : evalG get e g with
    | ok p =>
      obtain ⟨a, g1⟩ := p
      rw [he] at h
      simp only [Res.ok.injEq, Prod.mk.injEq] at h
      obtain ⟨rfl, rfl⟩ := h
      obtain ⟨h1, h2⟩ := litG_spec get e g g1 a he
      exact ⟨by simp [litG, h1], fun g0 => by simp [litG, evalG, h2 g0]⟩
    | err x => rw [he] at h; cases h
    | panic s => rw [he] at h; cases h
  | .bin o l r, g, g', v, h => by
    simp only [evalG] at h
    cases hl : evalG get l g with
    | ok p =>
      obtain ⟨a, g1⟩ := p
      rw [hl] at h
      simp only at h
      cases hr : evalG get r g1 with
      | ok q =>
        obtain ⟨b, g2⟩ := q
        rw [hr] at h
        simp only at h
        cases ho : o.eval a b with
        | some w =>
          rw [ho] at h
          simp only [Res.ok.injEq, Prod.mk.injEq] at h
          obtain ⟨rfl, rfl⟩ := h
          obtain ⟨l1, l2⟩ := litG_spec get l g g1 a hl
          obtain ⟨r1, r2⟩ := litG_spec get r g1 g2 b hr
          refine ⟨by simp [litG, l1, r1], fun g0 => ?_⟩
          simp [litG, evalG, l1, l2 g0, r2 g0, ho]
        | none => rw [ho] at h; cases h
      | err x => rw [hr] at h; cases h
      | panic s => rw [hr] at h; cases h
    | err x => rw [hl] at h; cases h
    | panic s => rw [hl] at h; cases h
  | .call name args, g, g', v, h => by
    unfold evalG at h
    cases hf : funcArity name with
    | none => rw [hf] at h; cases h
    | some ar =>
      rw [hf] at h
      simp only at h
      by_cases hlen : (ar != args.length) = true
      · simp only [hlen, if_true] at h; cases h
      · have hlen' : (ar != args.length) = false := by simpa using hlen
        simp only [hlen', Bool.false_eq_true, if_false] at h
        by_cases hr : name = "random"
        · subst hr
          simp only [if_true] at h
          match args, h with
          | [a], h =>
            simp only at h
            cases ha : evalG get a g with
            | ok p =>
              obtain ⟨max, g1⟩ := p
              rw [ha] at h
              simp only at h
              by_cases hmax : max ≤ 1
              · simp only [hmax, if_true] at h; cases h
              · simp only [hmax, if_false, Res.ok.injEq] at h
                refine ⟨?_, fun g0 => ?_⟩
                · unfold litG
                  simp only [if_true, ha, hmax, if_false]
                  rw [h]
                · unfold litG
                  simp only [if_true, ha, hmax, if_false, evalG]
                  rw [h]
            | err x => rw [ha] at h; cases h
            | panic s => rw [ha] at h; cases h
          | [], h => cases h
          | _ :: _ :: _, h => cases h
        · simp only [hr, if_false] at h
          by_cases hi : name = "ite"
          · subst hi
            simp only [if_true] at h
            match args, h with
            | [t, a, b], h =>
              simp only at h
              cases ht : evalG get t g with
              | ok p =>
                obtain ⟨c, g1⟩ := p
                rw [ht] at h
                simp only at h
                obtain ⟨t1, t2⟩ := litG_spec get t g g1 c ht
                have hne : ("ite" = "random") = False := by decide
                by_cases hc : c = 0
                · simp only [hc, if_true] at h
                  obtain ⟨b1, b2⟩ := litG_spec get b g1 g' v h
                  refine ⟨?_, fun g0 => ?_⟩
                  · unfold litG
                    simp only [hne, if_false, if_true, ht, hc, b1]
                  · unfold litG
                    simp only [hne, if_false, if_true, ht, hc]
                    unfold evalG
                    have : funcArity "ite" = some 3 := by decide
                    simp only [this, List.length_cons, List.length_nil, bne_self_eq_false, Bool.false_eq_true,
                      if_false, hne, if_true, t2 g0, b2 g0, hc]
                · simp only [hc, if_false] at h
                  obtain ⟨a1, a2⟩ := litG_spec get a g1 g' v h
                  refine ⟨?_, fun g0 => ?_⟩
                  · unfold litG
                    simp only [hne, if_false, if_true, ht, hc, a1]
                  · unfold litG
                    simp only [hne, if_false, if_true, ht, hc]
                    unfold evalG
                    have : funcArity "ite" = some 3 := by decide
                    simp only [this, List.length_cons, List.length_nil, bne_self_eq_false, Bool.false_eq_true,
                      if_false, hne, if_true, t2 g0, hc, a2 g0]
              | err x => rw [ht] at h; cases h
              | panic s => rw [ht] at h; cases h
            | [], h => cases h
            | [_], h => cases h
            | [_, _], h => cases h
            | _ :: _ :: _ :: _ :: _, h => cases h
          · simp only [hi, if_false] at h; cases h

end Dtr
