import Dtr.Model.Lexer
/-! Scanners are stable under the insertion, at or after the end of their match, of any text that
starts with a character no token contains (a blank, or the `#` of a comment)  (C20) -/
namespace Dtr

/-- `w` inserted at character position `p` -/
def insL (s : Str) (p : Nat) (w : Str) : Str := s.take p ++ (w ++ s.drop p)

theorem insL_zero (s w : Str) : insL s 0 w = w ++ s := by simp [insL]
theorem insL_cons (c : Char) (s : Str) (p) (w : Str) : insL (c :: s) (p+1) w = c :: insL s p w := by simp [insL]
theorem insL_nil (p) (w : Str) : insL [] p w = w := by simp [insL]
theorem insL_length (s : Str) (p) (w : Str) : (insL s p w).length = s.length + w.length := by
  simp [insL]; omega

/-- characters that occur in the fixed spellings -/
def litChars : List Char := (literals.map (·.2)).flatten

/-- a character that no token contains -/
structure Stopper (x : Char) : Prop where
  idS : isIdStart x = false
  idC : isIdC x = false
  d1 : isDec1 x = false
  dec : isDec x = false
  oct : isOct x = false
  hex : isHex x = false
  bin : isBin x = false
  lit : ∀ a, a ∈ litChars → (a == x) = false
  misc : (x == '0') = false ∧ (x == 'x') = false ∧ (x == 'X') = false ∧ (x == 'b') = false ∧ (x == 'B') = false
  lead : ndLeadBytes.contains (utf8Lead x) = false

theorem blank_cases {b : Char} (hb : isBlank b = true) : b = ' ' ∨ b = '\t' ∨ b = '\r' ∨ b = '\x0c' := by
  simp only [isBlank, Bool.or_eq_true, beq_iff_eq] at hb
  rcases hb with ((h | h) | h) | h <;> simp [h]

theorem stopper_blank {b : Char} (hb : isBlank b = true) : Stopper b := by
  rcases blank_cases hb with rfl | rfl | rfl | rfl <;>
    exact ⟨by decide, by decide, by decide, by decide, by decide, by decide, by decide, by decide, by decide, by decide⟩

theorem stopper_hash : Stopper '#' :=
  ⟨by decide, by decide, by decide, by decide, by decide, by decide, by decide, by decide, by decide, by decide⟩

theorem blank_not_special {b : Char} (hb : isBlank b = true) : (b == '#') = false ∧ (b != '\n') = true := by
  rcases blank_cases hb with rfl | rfl | rfl | rfl <;> exact ⟨by decide, by decide⟩

theorem tw_ins (q : Char → Bool) (x : Char) (l : Str) (hx : q x = false) :
    ∀ (s : Str) (p : Nat), tw q s ≤ p → tw q (insL s p (x :: l)) = tw q s
  | [], p, _ => by simp [insL_nil, tw, List.takeWhile, hx]
  | c :: cs, p, h => by
    by_cases hc : q c = true
    · have h' : tw q (c :: cs) = tw q cs + 1 := by simp [tw, List.takeWhile, hc]
      cases p with
      | zero => omega
      | succ p =>
        rw [insL_cons]
        have := tw_ins q x l hx cs p (by omega)
        simp [tw, List.takeWhile, hc] at this ⊢
        exact this
    · have hc' : q c = false := by simpa using hc
      cases p with
      | zero => simp [insL_zero, tw, List.takeWhile, hx, hc']
      | succ p => simp [insL_cons, tw, List.takeWhile, hc']

/-- a scanner is stable if text starting with a stopper, inserted at or after the end of its match,
does not change the match -/
def StableSc (sc : Str → Nat) : Prop :=
  ∀ (s : Str) (p : Nat) (x : Char) (l : Str), Stopper x → sc s ≤ p → 1 ≤ p → sc (insL s p (x :: l)) = sc s

theorem stable_ident : StableSc scanIdent := by
  intro s p x l bf h hp
  obtain ⟨p, rfl⟩ : ∃ p', p = p' + 1 := ⟨p - 1, by omega⟩
  cases s with
  | nil => simp [insL_nil, scanIdent, bf.idS]
  | cons c cs =>
    rw [insL_cons]; simp only [scanIdent] at h ⊢
    split
    · next hc => simp [hc] at h; rw [tw_ins _ _ _ bf.idC cs p (by omega)]
    · rfl

theorem stable_dec : StableSc scanDec := by
  intro s p x l bf h hp
  obtain ⟨p, rfl⟩ : ∃ p', p = p' + 1 := ⟨p - 1, by omega⟩
  cases s with
  | nil => simp [insL_nil, scanDec, bf.d1]
  | cons c cs =>
    rw [insL_cons]; simp only [scanDec] at h ⊢
    split
    · next hc => simp [hc] at h; rw [tw_ins _ _ _ bf.dec cs p (by omega)]
    · rfl

theorem stable_oct : StableSc scanOct := by
  intro s p x l bf h hp
  obtain ⟨p, rfl⟩ : ∃ p', p = p' + 1 := ⟨p - 1, by omega⟩
  cases s with
  | nil => simp [insL_nil, scanOct, bf.misc.1]
  | cons c cs =>
    rw [insL_cons]; simp only [scanOct] at h ⊢
    split
    · next hc => simp [hc] at h; rw [tw_ins _ _ _ bf.oct cs p (by omega)]
    · rfl

/-- the shape shared by the `0x…` and `0b…` scanners -/
def scanPrefixed (x1 x2 : Char) (q : Char → Bool) : Str → Nat
  | c :: x :: h :: cs => if c == '0' && (x == x1 || x == x2) && q h then 3 + tw q cs else 0
  | _ => 0

theorem scanHex_eq : scanHex = scanPrefixed 'x' 'X' isHex := by
  funext s; unfold scanHex scanPrefixed; rfl
theorem scanBin_eq : scanBin = scanPrefixed 'b' 'B' isBin := by
  funext s; unfold scanBin scanPrefixed; rfl

/-- first character a stopper: no match -/
theorem scanPrefixed_stop0 (x1 x2 q) (x : Char) (t : Str) (h0 : (x == '0') = false) : scanPrefixed x1 x2 q (x :: t) = 0 := by
  match t with
  | [] | [_] => simp [scanPrefixed]
  | _ :: _ :: _ => simp [scanPrefixed, h0]

theorem scanPrefixed_stop1 (x1 x2 q) (c x : Char) (t : Str) (h1 : (x == x1) = false) (h2 : (x == x2) = false) :
    scanPrefixed x1 x2 q (c :: x :: t) = 0 := by
  match t with
  | [] => simp [scanPrefixed]
  | _ :: _ => simp [scanPrefixed, h1, h2]

theorem scanPrefixed_stop2 (x1 x2 q) (c y x : Char) (t : Str) (hq : q x = false) :
    scanPrefixed x1 x2 q (c :: y :: x :: t) = 0 := by
  simp [scanPrefixed, hq]

theorem stable_prefixed (x1 x2 : Char) (q : Char → Bool)
    (hx : ∀ x, Stopper x → (x == x1) = false ∧ (x == x2) = false ∧ q x = false) :
    StableSc (scanPrefixed x1 x2 q) := by
  intro s p x l bf h hp
  obtain ⟨hx1, hx2, hq⟩ := hx x bf
  have h0 := bf.misc.1
  obtain ⟨p, rfl⟩ : ∃ p', p = p' + 1 := ⟨p - 1, by omega⟩
  match s, p with
  | [], p => rw [insL_nil, scanPrefixed_stop0 _ _ _ _ _ h0]; simp [scanPrefixed]
  | [c], p =>
    have : insL [c] (p + 1) (x :: l) = c :: x :: l := by simp [insL]
    rw [this, scanPrefixed_stop1 _ _ _ _ _ _ hx1 hx2]; simp [scanPrefixed]
  | [c, y], 0 =>
    have : insL [c, y] (0 + 1) (x :: l) = c :: x :: (l ++ [y]) := by simp [insL]
    rw [this, scanPrefixed_stop1 _ _ _ _ _ _ hx1 hx2]; simp [scanPrefixed]
  | [c, y], p+1 =>
    have : insL [c, y] (p + 1 + 1) (x :: l) = c :: y :: x :: l := by simp [insL]
    rw [this, scanPrefixed_stop2 _ _ _ _ _ _ _ hq]; simp [scanPrefixed]
  | c :: y :: h' :: cs, 0 =>
    have e0 : scanPrefixed x1 x2 q (c :: y :: h' :: cs) = 0 := by
      simp only [scanPrefixed] at h ⊢
      split at h
      · omega
      · next hn => rw [if_neg hn]
    have : insL (c :: y :: h' :: cs) (0 + 1) (x :: l) = c :: x :: (l ++ y :: h' :: cs) := by simp [insL]
    rw [this, scanPrefixed_stop1 _ _ _ _ _ _ hx1 hx2, e0]
  | c :: y :: h' :: cs, 1 =>
    have e0 : scanPrefixed x1 x2 q (c :: y :: h' :: cs) = 0 := by
      simp only [scanPrefixed] at h ⊢
      split at h
      · omega
      · next hn => rw [if_neg hn]
    have : insL (c :: y :: h' :: cs) (1 + 1) (x :: l) = c :: y :: x :: (l ++ h' :: cs) := by simp [insL]
    rw [this, scanPrefixed_stop2 _ _ _ _ _ _ _ hq, e0]
  | c :: y :: h' :: cs, p+2 =>
    have e : insL (c :: y :: h' :: cs) (p + 2 + 1) (x :: l) = c :: y :: h' :: insL cs p (x :: l) := by simp [insL]
    rw [e]; simp only [scanPrefixed] at h ⊢
    split
    · next hc => simp [hc] at h; rw [tw_ins _ _ _ hq cs p (by omega)]
    · rfl

theorem stable_hex : StableSc scanHex := by
  rw [scanHex_eq]
  exact stable_prefixed _ _ _ (fun x bf => ⟨bf.misc.2.1, bf.misc.2.2.1, bf.hex⟩)

theorem stable_bin : StableSc scanBin := by
  rw [scanBin_eq]
  exact stable_prefixed _ _ _ (fun x bf => ⟨bf.misc.2.2.2.1, bf.misc.2.2.2.2, bf.bin⟩)

/-- a fixed spelling that does not contain `x` is unaffected by text starting with `x` inserted behind its match -/
theorem isPre_ins (x : Char) (l : Str) : ∀ (lit s : Str) (p : Nat), (∀ a ∈ lit, (a == x) = false) →
    (isPre lit s = true → lit.length ≤ p) → isPre lit (insL s p (x :: l)) = isPre lit s
  | [], s, p, _, _ => by simp [isPre]
  | a :: as, [], p, hl, _ => by
    have := hl a (by simp)
    simp [insL_nil, isPre, this]
  | a :: as, c :: cs, 0, hl, h => by
    have hab := hl a (by simp)
    rw [insL_zero]
    simp only [List.cons_append, isPre, hab, Bool.false_and]
    cases hm : (a == c && isPre as cs) with
    | false => rfl
    | true => have := h (by simpa [isPre] using hm); simp at this
  | a :: as, c :: cs, p+1, hl, h => by
    rw [insL_cons]
    simp only [isPre]
    by_cases hac : (a == c) = true
    · simp only [hac, Bool.true_and]
      exact isPre_ins x l as cs p (fun y hy => hl y (by simp [hy])) (fun hm => by
        have := h (by simp [isPre, hac, hm]); simpa using this)
    · have : (a == c) = false := by simpa using hac
      simp [this]

theorem stable_lit (lit : Str) (hl : ∀ x, Stopper x → ∀ a ∈ lit, (a == x) = false) : StableSc (scanLit lit) := by
  intro s p x l bf h hp
  unfold scanLit at h ⊢
  rw [isPre_ins x l lit s p (hl x bf) (fun hm => by simpa [hm] using h)]

theorem literal_chars_not_stopper (x : Char) (bf : Stopper x) : ∀ kl ∈ literals, ∀ a ∈ kl.2, (a == x) = false := by
  intro kl hkl a ha
  exact bf.lit a (by
    simp only [litChars, List.mem_flatten, List.mem_map]
    exact ⟨kl.2, ⟨kl, hkl, rfl⟩, ha⟩)

theorem scanners_stable : ∀ ks ∈ scanners, StableSc ks.2 := by
  intro ks h
  simp only [scanners, List.mem_append, List.mem_map, List.mem_cons, List.mem_nil_iff, or_false] at h
  rcases h with ⟨kl, hkl, rfl⟩ | rfl | rfl | rfl | rfl | rfl
  · exact stable_lit kl.2 (fun x bf => literal_chars_not_stopper x bf kl hkl)
  · exact stable_ident
  · exact stable_dec
  · exact stable_hex
  · exact stable_bin
  · exact stable_oct

end Dtr
