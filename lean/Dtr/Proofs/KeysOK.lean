import Dtr.Proofs.ScopeDiscipline
/-!
# Scopes hold every name at most once, and what follows from it  (C01: the `for` reading)
-/
namespace Dtr

abbrev Sco := List (String × Int64)

def keysOf (sc : Sco) : List String := sc.map (·.1)

theorem setIn_keys (k : String) (v : Int64) : ∀ (l l' : Sco), FMap.setIn k v l = some l' → keysOf l' = keysOf l
  | [], l', h => by simp [FMap.setIn] at h
  | (k', v') :: rest, l', h => by
    simp only [FMap.setIn] at h
    split at h
    · cases h; rfl
    · split at h
      · next rest' hr =>
        cases h
        have := setIn_keys k v rest rest' hr
        simp only [keysOf] at this ⊢
        simp [this]
      · cases h

theorem setIn_none (k : String) (v : Int64) : ∀ (l : Sco), FMap.setIn k v l = none → k ∉ keysOf l
  | [], _ => by simp [keysOf]
  | (k', v') :: rest, h => by
    simp only [FMap.setIn] at h
    split at h
    · cases h
    · next hk =>
      split at h
      · cases h
      · next hr =>
        have := setIn_none k v rest hr
        have hne : k' ≠ k := by simpa using hk
        simp only [keysOf, List.map_cons, List.mem_cons, not_or]
        exact ⟨fun e => hne e.symm, this⟩

theorem bind_nodup (k : String) (v : Int64) (sc : Sco) (h : (keysOf sc).Nodup) : (keysOf (Scopes.bind k v sc)).Nodup := by
  unfold Scopes.bind
  cases hs : FMap.setIn k v sc with
  | some sc' => simp only; rw [setIn_keys k v sc sc' hs]; exact h
  | none =>
    simp only [keysOf, List.map_append, List.map_cons, List.map_nil]
    have hn := setIn_none k v sc hs
    rw [List.nodup_append]
    refine ⟨h, by simp, ?_⟩
    intro a ha b hb
    simp only [List.mem_cons, List.mem_nil_iff, or_false] at hb
    subst hb
    intro e; subst e; exact hn ha

theorem inScope_cons_ne (k k' : String) (v' : Int64) (rest : Sco) (h : (k' == k) = false) :
    Scopes.inScope k ((k', v') :: rest) = match Scopes.inScope k rest with
      | some x => some x
      | none => none := by
  unfold Scopes.inScope
  simp only [List.reverse_cons, List.find?_append]
  cases hf : rest.reverse.find? (fun e => e.1 == k) with
  | some e => simp
  | none => simp [List.find?, h]

theorem inScope_none_of_not_mem (k : String) (l : Sco) (h : k ∉ keysOf l) : Scopes.inScope k l = none := by
  unfold Scopes.inScope
  simp only [Option.map_eq_none_iff, List.find?_eq_none, List.mem_reverse, beq_iff_eq]
  intro x hx e
  exact h (by simp only [keysOf, List.mem_map]; exact ⟨x, hx, e⟩)

/-- the binding of `k` in a scope with distinct names, after `k` was rebound there -/
theorem setIn_find (k : String) (v : Int64) : ∀ (l l' : Sco), FMap.setIn k v l = some l' → (keysOf l).Nodup →
    Scopes.inScope k l' = some v
  | [], l', h, _ => by simp [FMap.setIn] at h
  | (k', v') :: rest, l', h, hnd => by
    simp only [keysOf, List.map_cons, List.nodup_cons] at hnd
    simp only [FMap.setIn] at h
    split at h
    · next hk =>
      cases h
      have hkk : k' = k := by simpa using hk
      subst hkk
      unfold Scopes.inScope
      simp only [List.reverse_cons, List.find?_append]
      have : rest.reverse.find? (fun e => e.1 == k') = none := by
        simp only [List.find?_eq_none, List.mem_reverse, beq_iff_eq]
        intro x hx e
        exact hnd.1 (by simp only [List.mem_map]; exact ⟨x, hx, e⟩)
      simp [this, List.find?]
    · next hk =>
      split at h
      · next rest' hr =>
        cases h
        have hk' : (k' == k) = false := by simpa using hk
        rw [inScope_cons_ne k k' v' rest' hk', setIn_find k v rest rest' hr hnd.2]
      · cases h

theorem inScope_bind_self (k : String) (v : Int64) (sc : Sco) (h : (keysOf sc).Nodup) :
    Scopes.inScope k (Scopes.bind k v sc) = some v := by
  unfold Scopes.bind
  cases hs : FMap.setIn k v sc with
  | some sc' => exact setIn_find k v sc sc' hs h
  | none =>
    simp only
    unfold Scopes.inScope
    simp [List.reverse_append, List.find?]

/-- every scope of the stack holds each name at most once -/
def Scopes.KeysOK (s : Scopes.T Int64) : Prop := ∀ sc ∈ s, (keysOf sc).Nodup

theorem keysOK_set (s : Scopes.T Int64) (k : String) (v : Int64) (h : Scopes.KeysOK s) : Scopes.KeysOK (Scopes.set s k v) := by
  cases s with
  | nil =>
    intro sc hsc
    simp only [Scopes.set, List.mem_singleton] at hsc
    subst hsc; simp [keysOf]
  | cons sc rest =>
    intro x hx
    simp only [Scopes.set, List.mem_cons] at hx
    rcases hx with rfl | hx
    · exact bind_nodup k v sc (h sc (by simp))
    · exact h x (by simp [hx])

theorem keysOK_push (s : Scopes.T Int64) (h : Scopes.KeysOK s) : Scopes.KeysOK (Scopes.push s) := by
  intro x hx
  simp only [Scopes.push, List.mem_cons] at hx
  rcases hx with rfl | hx
  · simp [keysOf]
  · exact h x hx

theorem keysOK_pop (s : Scopes.T Int64) (h : Scopes.KeysOK s) : Scopes.KeysOK (Scopes.pop s) := by
  intro x hx
  match s, h, hx with
  | [], _, hx => simp [Scopes.pop] at hx; subst hx; simp [keysOf]
  | [_], _, hx => simp [Scopes.pop] at hx; subst hx; simp [keysOf]
  | _ :: b :: rest, h, hx => exact h x (by simp only [Scopes.pop] at hx; simp [hx])

/-- a variable just set looks up to the value it was set to -/
theorem get_set_self (c : Ctx) (k : String) (v : Int64) (hi : c.vars.Inv) (hk : Scopes.KeysOK c.scopes) :
    (c.set k v).get k = some (.val v) := by
  have hs := (scopes_set c k v hi).2
  have hg : (c.set k v).vars.get k = Scopes.lookup k (c.set k v).scopes := FMap.get_abs _ _
  rw [hs] at hg
  cases hc : c.scopes with
  | nil => exact absurd hc (scopes_ne_nil c)
  | cons sc rest =>
    rw [hc] at hg
    simp only [Scopes.set, Scopes.lookup, inScope_bind_self k v sc (hk sc (by simp [hc]))] at hg
    simp [Ctx.get, hg]

end Dtr

namespace Dtr
variable {W : Type} (D : Device W)

theorem keysOK_ctx_set (c : Ctx) (k : String) (v : Int64) (hi : c.vars.Inv) (hk : Scopes.KeysOK c.scopes) :
    Scopes.KeysOK (c.set k v).scopes := by
  rw [(scopes_set c k v hi).2]; exact keysOK_set _ k v hk

theorem keysOK_ctx_push (c : Ctx) (hk : Scopes.KeysOK c.scopes) : Scopes.KeysOK c.pushFrame.scopes := by
  have : c.pushFrame.scopes = Scopes.push c.scopes := FMap.abs_push c.vars
  rw [this]; exact keysOK_push _ hk

theorem keysOK_ctx_pop (c : Ctx) (hk : Scopes.KeysOK c.scopes) : Scopes.KeysOK c.popFrame.scopes := by
  have : c.popFrame.scopes = Scopes.pop c.scopes := FMap.abs_pop c.vars
  rw [this]; exact keysOK_pop _ hk

theorem keysOK_of_vars_eq {c c' : Ctx} (h : c'.vars = c.vars) (hk : Scopes.KeysOK c.scopes) : Scopes.KeysOK c'.scopes := by
  unfold Ctx.scopes at *; rw [h]; exact hk

/-- executing statements keeps every scope free of duplicate names -/
structure KDisc (fuel : Nat) : Prop where
  stmt : ∀ s (σ σ' : Sys W), σ.ctx.vars.Inv → Scopes.KeysOK σ.ctx.scopes → execStmt D fuel s σ = some σ' →
    Scopes.KeysOK σ'.ctx.scopes
  block : ∀ ss (σ σ' : Sys W), σ.ctx.vars.Inv → Scopes.KeysOK σ.ctx.scopes → execBlock D fuel ss σ = some σ' →
    Scopes.KeysOK σ'.ctx.scopes
  loop : ∀ var n body cur (σ σ' : Sys W), σ.ctx.vars.Inv → Scopes.KeysOK σ.ctx.scopes →
    loopIter D fuel var n body cur σ = some σ' → Scopes.KeysOK σ'.ctx.scopes
  whil : ∀ cond body (σ σ' : Sys W), σ.ctx.vars.Inv → Scopes.KeysOK σ.ctx.scopes →
    whileIter D fuel cond body σ = some σ' → Scopes.KeysOK σ'.ctx.scopes

theorem kdisc (hD : D.KeepsVars) : ∀ fuel, KDisc D fuel := by
  intro fuel
  induction fuel with
  | zero => constructor <;> intros <;> simp_all [execBlock, execStmt, loopIter, whileIter]
  | succ fuel ih =>
    have hdis := discipline D hD fuel
    constructor
    · intro s σ σ' hinv hk h
      cases s with
      | letS name e =>
        simp only [execStmt] at h
        split at h
        · next v c' he =>
          cases h
          have hv := (evalE_vars he).1
          exact keysOK_ctx_set c' name v (by rw [hv]; exact hinv) (keysOK_of_vars_eq hv hk)
        · cases h
      | row data line =>
        simp only [execStmt] at h
        split at h
        · next es c' he =>
          cases h
          have hv := (evalRow_vars he).1
          exact keysOK_of_vars_eq (c := σ.ctx) ((hD _ _ _).trans hv) hk
        · cases h
      | resetRandom => simp only [execStmt] at h; cases h; exact hk
      | loop var max body =>
        simp only [execStmt] at h
        split at h
        · next n c' he =>
          have hv := (evalE_vars he).1
          have hinv' : c'.vars.Inv := by rw [hv]; exact hinv
          have hk' := keysOK_of_vars_eq hv hk
          split at h
          · cases h; exact hk'
          · exact ih.loop var n body 0 _ σ' (scopes_set c'.pushFrame var 0 (FMap.inv_push c'.vars hinv')).1
              (keysOK_ctx_set _ _ _ (FMap.inv_push c'.vars hinv') (keysOK_ctx_push c' hk')) h
        · cases h
      | «while» cond body =>
        simp only [execStmt] at h
        exact ih.whil cond body σ σ' hinv hk h
    · intro ss σ σ' hinv hk h
      cases ss with
      | nil => simp [execBlock] at h; subst h; exact hk
      | cons s ss' =>
        simp only [execBlock] at h
        split at h
        · cases h
        · next σ1 hs =>
          exact ih.block ss' σ1 σ' (hdis.stmt s σ σ1 hinv hs).1 (ih.stmt s σ σ1 hinv hk hs) h
    · intro var n body cur σ σ' hinv hk h
      simp only [loopIter] at h
      split at h
      · cases h
      · next σ2 hb =>
        have i2 := (hdis.block body σ σ2 hinv hb).1
        have k2 := ih.block body σ σ2 hinv hk hb
        split at h
        · exact ih.loop var n body _ _ σ' (scopes_set σ2.ctx var (satSucc cur) i2).1
            (keysOK_ctx_set _ _ _ i2 k2) h
        · cases h; exact keysOK_ctx_pop σ2.ctx k2
    · intro cond body σ σ' hinv hk h
      simp only [whileIter] at h
      split at h
      · next v c' he =>
        have hv := (evalE_vars he).1
        have hinv' : c'.vars.Inv := by rw [hv]; exact hinv
        have hk' := keysOK_of_vars_eq hv hk
        split at h
        · cases h; exact hk'
        · split at h
          · cases h
          · next σ2 hb =>
            exact ih.whil cond body σ2 σ' (hdis.block body { σ with ctx := c' } σ2 hinv' hb).1
              (ih.block body { σ with ctx := c' } σ2 hinv' hk' hb) h
      · cases h

end Dtr

namespace Dtr
variable {W : Type} (D : Device W)

mutual
/-- the statement does not bind `var` in the scope it runs in (what it binds inside its own loops
does not count: those scopes are closed again) -/
def Stmt.NoAssign (var : String) : Stmt → Prop
  | .letS name _ => name ≠ var
  | .while _ body => Stmts.NoAssign var body
  | .row _ _ => True
  | .loop _ _ _ => True
  | .resetRandom => True
def Stmts.NoAssign (var : String) : List Stmt → Prop
  | [] => True
  | s :: ss => Stmt.NoAssign var s ∧ Stmts.NoAssign var ss
end

theorem setIn_inScope_ne (k name : String) (v : Int64) (hne : name ≠ k) : ∀ (l l' : Sco), FMap.setIn name v l = some l' →
    Scopes.inScope k l' = Scopes.inScope k l
  | [], l', h => by simp [FMap.setIn] at h
  | (k', v') :: rest, l', h => by
    simp only [FMap.setIn] at h
    split at h
    · next hk =>
      cases h
      have hkk : k' = name := by simpa using hk
      have hk' : (k' == k) = false := by rw [hkk]; simpa using hne
      rw [inScope_cons_ne k k' v rest hk', inScope_cons_ne k k' v' rest hk']
    · split at h
      · next rest' hr =>
        cases h
        have ih := setIn_inScope_ne k name v hne rest rest' hr
        unfold Scopes.inScope at ih ⊢
        simp only [List.reverse_cons, List.find?_append]
        cases h1 : rest'.reverse.find? (fun e => e.1 == k) <;> cases h2 : rest.reverse.find? (fun e => e.1 == k) <;>
          simp [h1, h2] at ih ⊢ <;> exact ih
      · cases h

theorem bind_inScope_ne (k name : String) (v : Int64) (hne : name ≠ k) (sc : Sco) :
    Scopes.inScope k (Scopes.bind name v sc) = Scopes.inScope k sc := by
  unfold Scopes.bind
  cases hs : FMap.setIn name v sc with
  | some sc' => exact setIn_inScope_ne k name v hne sc sc' hs
  | none =>
    simp only
    unfold Scopes.inScope
    have : ((name, v).1 == k) = false := by simpa using hne
    simp [List.reverse_append, List.find?, this]

theorem lookup_set_ne (k name : String) (v : Int64) (hne : name ≠ k) (s : Scopes.T Int64) (hs : s ≠ []) :
    Scopes.lookup k (Scopes.set s name v) = Scopes.lookup k s := by
  cases s with
  | nil => exact absurd rfl hs
  | cons sc rest => simp only [Scopes.set, Scopes.lookup, bind_inScope_ne k name v hne sc]

/-- what the variable store says about `var` -/
def Ctx.lk (c : Ctx) (var : String) : Option Int64 := Scopes.lookup var c.scopes

theorem lk_of_vars_eq {c c' : Ctx} (h : c'.vars = c.vars) (var : String) : c'.lk var = c.lk var := by
  unfold Ctx.lk Ctx.scopes; rw [h]

/-- statements that do not bind `var` at their own level leave its lookup alone -/
structure LKeep (var : String) (fuel : Nat) : Prop where
  stmt : ∀ s (σ σ' : Sys W), σ.ctx.vars.Inv → Stmt.NoAssign var s → execStmt D fuel s σ = some σ' →
    σ'.ctx.lk var = σ.ctx.lk var
  block : ∀ ss (σ σ' : Sys W), σ.ctx.vars.Inv → Stmts.NoAssign var ss → execBlock D fuel ss σ = some σ' →
    σ'.ctx.lk var = σ.ctx.lk var
  whil : ∀ cond body (σ σ' : Sys W), σ.ctx.vars.Inv → Stmts.NoAssign var body → whileIter D fuel cond body σ = some σ' →
    σ'.ctx.lk var = σ.ctx.lk var

theorem lkeep (hD : D.KeepsVars) (var : String) : ∀ fuel, LKeep D var fuel := by
  intro fuel
  induction fuel with
  | zero => constructor <;> intros <;> simp_all [execBlock, execStmt, whileIter]
  | succ fuel ih =>
    have hdis := discipline D hD fuel
    constructor
    · intro s σ σ' hinv hna h
      cases s with
      | letS name e =>
        simp only [Stmt.NoAssign] at hna
        simp only [execStmt] at h
        split at h
        · next v c' he =>
          cases h
          have hv := (evalE_vars he).1
          have hinv' : c'.vars.Inv := by rw [hv]; exact hinv
          show (c'.set name v).lk var = σ.ctx.lk var
          unfold Ctx.lk
          rw [(scopes_set c' name v hinv').2, lookup_set_ne var name v hna _ (scopes_ne_nil c')]
          unfold Ctx.scopes; rw [hv]
        · cases h
      | row data line =>
        simp only [execStmt] at h
        split at h
        · next es c' he =>
          cases h
          exact lk_of_vars_eq ((hD _ _ _).trans (evalRow_vars he).1) var
        · cases h
      | resetRandom => simp only [execStmt] at h; cases h; rfl
      | loop lv max body =>
        simp only [execStmt] at h
        split at h
        · next n c' he =>
          have hv := (evalE_vars he).1
          have hinv' : c'.vars.Inv := by rw [hv]; exact hinv
          split at h
          · cases h; exact lk_of_vars_eq hv var
          · -- the loop closes the scope it opened: the whole stack is as before
            have hp : c'.pushFrame.vars.Inv := FMap.inv_push c'.vars hinv'
            obtain ⟨i2, s2⟩ := scopes_set c'.pushFrame lv 0 hp
            have hps : c'.pushFrame.scopes = [] :: c'.scopes := FMap.abs_push c'.vars
            obtain ⟨b, bs, hb⟩ : ∃ b bs, c'.scopes = b :: bs := by
              cases hc : c'.scopes with
              | nil => exact absurd hc (scopes_ne_nil c')
              | cons b bs => exact ⟨b, bs, rfl⟩
            have htail : (c'.pushFrame.set lv 0).scopes.tail = b :: bs := by
              rw [s2, hps]; simp [Scopes.set, hb]
            obtain ⟨_, s3⟩ := hdis.loop lv n body 0 _ σ' b bs i2 htail h
            unfold Ctx.lk
            rw [s3, ← hb]
            unfold Ctx.scopes; rw [hv]
        · cases h
      | «while» cond body =>
        simp only [Stmt.NoAssign] at hna
        simp only [execStmt] at h
        exact ih.whil cond body σ σ' hinv hna h
    · intro ss σ σ' hinv hna h
      cases ss with
      | nil => simp [execBlock] at h; subst h; rfl
      | cons s ss' =>
        simp only [Stmts.NoAssign] at hna
        simp only [execBlock] at h
        split at h
        · cases h
        · next σ1 hs =>
          have h1 := ih.stmt s σ σ1 hinv hna.1 hs
          have h2 := ih.block ss' σ1 σ' (hdis.stmt s σ σ1 hinv hs).1 hna.2 h
          exact h2.trans h1
    · intro cond body σ σ' hinv hna h
      simp only [whileIter] at h
      split at h
      · next v c' he =>
        have hv := (evalE_vars he).1
        have hinv' : c'.vars.Inv := by rw [hv]; exact hinv
        split at h
        · cases h; exact lk_of_vars_eq hv var
        · split at h
          · cases h
          · next σ2 hb =>
            have h1 := ih.block body { σ with ctx := c' } σ2 hinv' hna hb
            have h2 := ih.whil cond body σ2 σ' (hdis.block body { σ with ctx := c' } σ2 hinv' hb).1 hna h
            exact h2.trans (h1.trans (lk_of_vars_eq hv var))
      · cases h

end Dtr

namespace Dtr

theorem lk_set_self (c : Ctx) (k : String) (v : Int64) (hi : c.vars.Inv) (hk : Scopes.KeysOK c.scopes) :
    (c.set k v).lk k = some v := by
  unfold Ctx.lk
  rw [(scopes_set c k v hi).2]
  cases hc : c.scopes with
  | nil => exact absurd hc (scopes_ne_nil c)
  | cons sc rest =>
    simp only [Scopes.set, Scopes.lookup, inScope_bind_self k v sc (hk sc (by simp [hc]))]

theorem get_of_lk (c : Ctx) (k : String) (v : Int64) (h : c.lk k = some v) : c.get k = some (.val v) := by
  have : c.vars.get k = some v := by rw [FMap.get_abs]; exact h
  simp [Ctx.get, this]

end Dtr
