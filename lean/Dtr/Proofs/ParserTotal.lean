import Dtr.Proofs.ParserLogic
/-! The parser never panics: one induction on fuel over all mutually recursive functions -/
namespace Dtr

variable {all : List ATok} {l0 : Nat} {X : Nat → Prop}

/-- cursor at least at `n` (the final `Eof` may have been consumed) -/
def K (all : List ATok) (l0 n : Nat) (st : PState) : Prop := Cursor all l0 st ∧ n ≤ st.pos

theorem unOp_ne_eol {k : Kind} {u : UnOp} (h : unOpOf (.sym k) = some u) : (ATok.sym k) ≠ .sym .Eol := by
  intro e; cases e; simp [unOpOf] at h

theorem binOp_ne_eol {t : ATok} {o : BinOp} (h : binOpOf t = some o) : t ≠ .sym .Eol := by
  intro e; subst e; simp [binOpOf] at h

theorem unOp_ne_eof {k : Kind} {u : UnOp} (h : unOpOf (.sym k) = some u) : (ATok.sym k) ≠ .sym .Eof := by
  intro e; cases e; simp [unOpOf] at h

theorem binOp_ne_eof {t : ATok} {o : BinOp} (h : binOpOf t = some o) : t ≠ .sym .Eof := by
  intro e; subst e; simp [binOpOf] at h

structure ExprOK (all : List ATok) (l0 : Nat) (X : Nat → Prop) (f : Nat) : Prop where
  expr : ∀ n, Triple (J all l0 X n) (parseExpr f) (fun _ st' => J all l0 X n st')
  chain : ∀ n t, Triple (J all l0 X n) (chain f t) (fun _ st' => J all l0 X n st')
  factor : ∀ n, Triple (J all l0 X n) (parseFactor f) (fun _ st' => J all l0 X (n + 1) st')
  args : ∀ n acc, Triple (fun st => J all l0 X n st ∧
        (all[st.pos]? = some (.sym .LParen) ∨ all[st.pos]? = some (.sym .Comma)))
      (parseArgs f acc) (fun _ st' => J all l0 X n st')

theorem exprOK (hall : all.getLast? = some (.sym .Eof)) (hX : Stable all X) : ∀ f, ExprOK all l0 X f := by
  intro f
  induction f with
  | zero =>
    exact ⟨fun _ => Triple.fuel, fun _ _ => Triple.fuel, fun _ => Triple.fuel, fun _ _ => Triple.fuel⟩
  | succ f ih =>
    refine ⟨?_, ?_, ?_, ?_⟩
    · -- parseExpr
      intro n
      simp only [parseExpr]
      refine Triple.bind (ih.factor n) (fun first => ?_)
      exact Triple.weaken (ih.chain (n + 1) _) (fun _ h => h) (fun _ _ h => h.mono (by omega))
    · -- chain
      intro n t
      simp only [chain]
      refine Triple.bind (spec_peek n) (fun tk => ?_)
      cases hb : binOpOf tk with
      | none => exact Triple.pure _ (fun st h => h.1)
      | some o =>
        simp only
        refine Triple.bind (spec_get_peeked hall hX n tk) (fun t' => ?_)
        refine Triple.bind (Triple.weaken (ih.factor (n + 1))
          (fun st h => ⟨h.2.1, h.2.2.1, h.2.2.2.2.1 (binOp_ne_eof hb), h.2.2.2.2.2 (binOp_ne_eol hb)⟩) (fun _ _ h => h)) (fun e => ?_)
        exact Triple.weaken (ih.chain (n + 1 + 1) _) (fun _ h => h) (fun _ _ h => h.mono (by omega))
    · -- parseFactor
      intro n
      simp only [parseFactor]
      refine Triple.bind (spec_peek n) (fun tk => ?_)
      cases tk with
      | num v =>
        simp only
        refine Triple.bind (Triple.weaken (spec_parseNumber hall hX n) (fun st h => h.1) (fun _ _ h => h)) (fun x => ?_)
        exact Triple.pure _ (fun st h => h)
      | ident name =>
        simp only
        refine Triple.bind (spec_curPos_keep _) (fun i => ?_)
        -- the precondition still knows that the next token is the identifier
        refine Triple.bind (P := fun st => (J all l0 X n st ∧ all[st.pos]? = some (.ident name)) ∧ i = st.pos)
          (Q := fun _ st' => J all l0 X (n + 1) st') ?_ (fun t' => ?_)
        · intro st hst
          have := spec_get_peeked (l0 := l0) hall hX n (.ident name) st hst.1
          cases hg : getTok st with
          | ok t2 st2 => rw [hg] at this; exact ⟨this.2.1, this.2.2.1, this.2.2.2.2.1 (by simp), this.2.2.2.2.2 (by simp)⟩
          | err a b => trivial
          | panic m => rw [hg] at this; exact this
          | fuel => trivial
        · refine Triple.bind (spec_at (n + 1) .LParen) (fun b => ?_)
          cases b with
          | true =>
            simp only [if_true]
            cases funcArity name with
            | none => exact Triple.fail _ _
            | some ar =>
              simp only
              refine Triple.bind (Triple.weaken (ih.args (n + 1) [])
                (fun st h => ⟨h.1, Or.inl (h.2.mp (by simp))⟩) (fun _ _ h => h)) (fun args => ?_)
              refine Triple.bind (spec_expect hall hX (n + 1) .RParen (by decide) (by decide)) (fun _ => ?_)
              split
              · refine Triple.bind (Triple.weaken (spec_peekPos (n + 1 + 1)) (fun st h => h.1) (fun _ _ h => h)) (fun j => ?_)
                exact Triple.fail _ _
              · exact Triple.pure _ (fun st h => h.1.mono (by omega))
          | false =>
            simp only [Bool.false_eq_true, if_false]
            refine Triple.bind (Triple.weaken (spec_recordRead (n + 1) name i) (fun st h => h.1) (fun _ _ h => h)) (fun _ => ?_)
            exact Triple.pure _ (fun st h => h)
      | sym k =>
        simp only
        cases hu : unOpOf (.sym k) with
        | some u =>
          simp only
          refine Triple.bind (spec_skip hall hX n (.sym k) (unOp_ne_eof hu) (unOp_ne_eol hu)) (fun _ => ?_)
          refine Triple.bind (Triple.weaken (ih.factor (n + 1)) (fun st h => h.1) (fun _ _ h => h)) (fun e => ?_)
          exact Triple.pure _ (fun st h => h.mono (by omega))
        | none =>
          simp only
          by_cases hk : k = .LParen
          · simp only [hk, if_true]
            refine Triple.bind (Triple.weaken (spec_skip hall hX n (.sym .LParen) (by simp) (by simp))
              (fun st h => ⟨h.1, hk ▸ h.2⟩) (fun _ _ h => h)) (fun _ => ?_)
            refine Triple.bind (Triple.weaken (ih.expr (n + 1)) (fun st h => h.1) (fun _ _ h => h)) (fun e => ?_)
            refine Triple.bind (spec_expect hall hX (n + 1) .RParen (by decide) (by decide)) (fun _ => ?_)
            exact Triple.pure _ (fun st h => h.1.mono (by omega))
          · simp only [hk, if_false]
            refine Triple.bind (Triple.weaken (spec_curPos_keep _) (fun st h => h.1) (fun _ _ h => h.1)) (fun i => ?_)
            refine Triple.bind (spec_get hall hX n) (fun _ => ?_)
            exact Triple.fail _ _
    · -- parseArgs
      intro n acc
      simp only [parseArgs]
      refine Triple.bind (P := fun st => J all l0 X n st ∧
          (all[st.pos]? = some (.sym .LParen) ∨ all[st.pos]? = some (.sym .Comma)))
        (Q := fun _ st' => J all l0 X (n + 1) st') ?_ (fun _ => ?_)
      · intro st ⟨hj, hat⟩
        rcases hat with hat | hat
        · have := spec_skip (l0 := l0) hall hX n (.sym .LParen) (by simp) (by simp) st ⟨hj, hat⟩
          cases hs : skipTok st with
          | ok a st2 => rw [hs] at this; exact this.1
          | err a b => trivial
          | panic m => rw [hs] at this; exact this
          | fuel => trivial
        · have := spec_skip (l0 := l0) hall hX n (.sym .Comma) (by simp) (by simp) st ⟨hj, hat⟩
          cases hs : skipTok st with
          | ok a st2 => rw [hs] at this; exact this.1
          | err a b => trivial
          | panic m => rw [hs] at this; exact this
          | fuel => trivial
      · refine Triple.bind (ih.expr (n + 1)) (fun e => ?_)
        refine Triple.bind (spec_at (n + 1) .Comma) (fun b => ?_)
        cases b with
        | true =>
          simp only [if_true]
          exact Triple.weaken (ih.args (n + 1) _) (fun st h => ⟨h.1, Or.inr (h.2.mp (by simp))⟩)
            (fun _ _ h => h.mono (by omega))
        | false =>
          simp only [Bool.false_eq_true, if_false]
          exact Triple.pure _ (fun st h => h.1.mono (by omega))

end Dtr

namespace Dtr
variable {all : List ATok} {l0 : Nat} {X : Nat → Prop}

/-- number of header columns an entry stands for -/
def entryWidth : DataEntry → Nat
  | .bits k _ => k
  | _ => 1

def rowWidth (d : List DataEntry) : Nat := (d.map entryWidth).sum

def bitsOK (d : List DataEntry) : Prop := ∀ e ∈ d, match e with | .bits k _ => k ≤ 64 | _ => True

/-- the row stops in front of its terminating `Eol` / `Eof` -/
def EndsRow (all : List ATok) (p : Nat) : Prop := all[p]? = some (.sym .Eol) ∨ all[p]? = some (.sym .Eof)

theorem rowWidth_append (d : List DataEntry) (e : DataEntry) : rowWidth (d ++ [e]) = rowWidth d + entryWidth e := by
  simp [rowWidth]

theorem bitsOK_append (d : List DataEntry) (e : DataEntry) (h : bitsOK d)
    (he : match e with | .bits k _ => k ≤ 64 | _ => True) : bitsOK (d ++ [e]) := by
  intro x hx
  simp only [List.mem_append, List.mem_cons, List.mem_nil_iff, or_false] at hx
  rcases hx with hx | rfl
  · exact h x hx
  · exact he

theorem clamp_le_64 (n : Int64) (h : ¬ n > 64) : n.toNatClampNeg ≤ 64 := by
  have : n ≤ 64 := Int64.not_lt.mp h
  have h2 := Int64.le_iff_toInt_le.mp this
  have : (64 : Int64).toInt = 64 := by decide
  rw [this] at h2
  show n.toInt.toNat ≤ 64
  omega

theorem rowLoop_ok (hall : all.getLast? = some (.sym .Eof)) (hX : Stable all X) (hdr : List String) :
    ∀ (f : Nat) (data : List DataEntry) (idx n : Nat), rowWidth data = idx → bitsOK data →
      Triple (J all l0 X n) (rowLoop hdr f data idx)
        (fun r st' => J all l0 X n st' ∧ EndsRow all st'.pos ∧ rowWidth r.1 = r.2 ∧ bitsOK r.1) := by
  intro f
  induction f with
  | zero => intro data idx n _ _; exact Triple.fuel
  | succ f ih =>
    intro data idx n hw hb
    have hE := exprOK (l0 := l0) hall hX f
    simp only [rowLoop]
    refine Triple.bind (spec_peek n) (fun tk => ?_)
    split
    · -- ( expr )
      refine Triple.bind (spec_skip hall hX n (.sym .LParen) (by simp) (by simp)) (fun _ => ?_)
      refine Triple.bind (Triple.weaken (hE.expr (n + 1)) (fun st h => h.1) (fun _ _ h => h)) (fun e => ?_)
      refine Triple.bind (spec_expect hall hX (n + 1) .RParen (by decide) (by decide)) (fun _ => ?_)
      exact Triple.weaken (ih (data ++ [.expr e]) (idx + 1) (n + 1 + 1)
        (by rw [rowWidth_append, hw]; rfl) (bitsOK_append _ _ hb trivial))
        (fun st h => h.1) (fun _ _ h => ⟨h.1.mono (by omega), h.2⟩)
    · -- bits ( k , expr )
      refine Triple.bind (spec_skip hall hX n (.sym .Bits) (by simp) (by simp)) (fun _ => ?_)
      refine Triple.bind (Triple.weaken (spec_expect hall hX (n + 1) .LParen (by decide) (by decide))
        (fun st h => h.1) (fun _ _ h => h)) (fun _ => ?_)
      refine Triple.bind (Triple.weaken (spec_peekPos (n + 1 + 1)) (fun st h => h.1) (fun _ _ h => h.1)) (fun at_ => ?_)
      refine Triple.bind (spec_parseNumber hall hX (n + 1 + 1)) (fun k => ?_)
      split
      · exact Triple.fail _ _
      · next hk =>
        refine Triple.bind (spec_expect hall hX (n + 1 + 1 + 1) .Comma (by decide) (by decide)) (fun _ => ?_)
        refine Triple.bind (Triple.weaken (hE.expr (n + 1 + 1 + 1 + 1)) (fun st h => h.1) (fun _ _ h => h)) (fun e => ?_)
        refine Triple.bind (spec_expect hall hX (n + 1 + 1 + 1 + 1) .RParen (by decide) (by decide)) (fun _ => ?_)
        exact Triple.weaken (ih (data ++ [.bits k.toNatClampNeg e]) (idx + k.toNatClampNeg) (n + 1 + 1 + 1 + 1 + 1)
          (by rw [rowWidth_append, hw]; rfl) (bitsOK_append _ _ hb (clamp_le_64 k hk)))
          (fun st h => h.1) (fun _ _ h => ⟨h.1.mono (by omega), h.2⟩)
    · -- identifier: C / X / Z
      next s =>
      refine Triple.bind (spec_curPos_keep _) (fun i => ?_)
      refine Triple.bind (P := fun st => (J all l0 X n st ∧ all[st.pos]? = some (.ident s)) ∧ i = st.pos)
        (Q := fun _ st' => J all l0 X (n + 1) st') ?_ (fun t' => ?_)
      · intro st hst
        have := spec_get_peeked (l0 := l0) hall hX n (.ident s) st hst.1
        cases hg : getTok st with
        | ok t2 st2 => rw [hg] at this; exact ⟨this.2.1, this.2.2.1, this.2.2.2.2.1 (by simp), this.2.2.2.2.2 (by simp)⟩
        | err a b => trivial
        | panic m => rw [hg] at this; exact this
        | fuel => trivial
      · split
        · -- C
          split
          · refine Triple.bind (spec_recordC (n + 1) _ i) (fun _ => ?_)
            exact Triple.weaken (ih (data ++ [.c]) (idx + 1) (n + 1)
              (by rw [rowWidth_append, hw]; rfl) (bitsOK_append _ _ hb trivial))
              (fun st h => h) (fun _ _ h => ⟨h.1.mono (by omega), h.2⟩)
          · exact Triple.weaken (ih (data ++ [.c]) (idx + 1) (n + 1)
              (by rw [rowWidth_append, hw]; rfl) (bitsOK_append _ _ hb trivial))
              (fun st h => h) (fun _ _ h => ⟨h.1.mono (by omega), h.2⟩)
        · split
          · exact Triple.weaken (ih (data ++ [.x]) (idx + 1) (n + 1)
              (by rw [rowWidth_append, hw]; rfl) (bitsOK_append _ _ hb trivial))
              (fun st h => h) (fun _ _ h => ⟨h.1.mono (by omega), h.2⟩)
          · split
            · exact Triple.weaken (ih (data ++ [.z]) (idx + 1) (n + 1)
                (by rw [rowWidth_append, hw]; rfl) (bitsOK_append _ _ hb trivial))
                (fun st h => h) (fun _ _ h => ⟨h.1.mono (by omega), h.2⟩)
            · exact Triple.fail _ _
    · -- number
      refine Triple.bind (Triple.weaken (spec_parseNumber hall hX n) (fun st h => h.1) (fun _ _ h => h)) (fun k => ?_)
      exact Triple.weaken (ih (data ++ [.num k]) (idx + 1) (n + 1)
        (by rw [rowWidth_append, hw]; rfl) (bitsOK_append _ _ hb trivial))
        (fun st h => h) (fun _ _ h => ⟨h.1.mono (by omega), h.2⟩)
    · -- Eol
      exact Triple.pure _ (fun st h => ⟨h.1, Or.inl h.2, hw, hb⟩)
    · -- Eof
      exact Triple.pure _ (fun st h => ⟨h.1, Or.inr h.2, hw, hb⟩)
    · -- anything else
      refine Triple.bind (Triple.weaken (spec_curPos_keep _) (fun st h => h.1) (fun _ _ h => h.1)) (fun i => ?_)
      refine Triple.bind (spec_get hall hX n) (fun _ => ?_)
      exact Triple.fail _ _

/-- `parse_data_row`: on success the row has exactly the header's width, stops in front of its
`Eol` / `Eof`, and holds no `bits` entry wider than 64 -/
theorem parseRow_ok (hall : all.getLast? = some (.sym .Eof)) (hX : Stable all X) (hdr : List String) (f n : Nat) :
    Triple (J all l0 X n) (parseRow hdr f)
      (fun data st' => J all l0 X n st' ∧ EndsRow all st'.pos ∧ rowWidth data = hdr.length ∧ bitsOK data) := by
  unfold parseRow
  refine Triple.bind (spec_peekPos n) (fun rowStart => ?_)
  refine Triple.bind (Triple.weaken (rowLoop_ok hall hX hdr f [] 0 n rfl (by intro e he; cases he))
    (fun st h => h.1) (fun _ _ h => h)) (fun r => ?_)
  obtain ⟨data, idx⟩ := r
  simp only
  refine Triple.bind (P := fun st => J all l0 X n st ∧ EndsRow all st.pos ∧ rowWidth data = idx ∧ bitsOK data)
    (Q := fun _ st' => J all l0 X n st' ∧ EndsRow all st'.pos ∧ rowWidth data = idx ∧ bitsOK data) ?_ (fun rowEnd => ?_)
  · intro st h
    have := spec_peekPos (all := all) (l0 := l0) (X := X) n st h.1
    cases hp : peekPos st with
    | ok a st2 =>
      rw [hp] at this
      -- peekPos does not change the state
      have hst : st2 = st := by
        simp only [peekPos] at hp
        split at hp
        · cases hp
        · cases hp; rfl
      subst hst; exact h
    | err a b => trivial
    | panic m => rw [hp] at this; exact this
    | fuel => trivial
  · split
    · exact Triple.fail _ _
    · next hne =>
      refine Triple.pure _ (fun st h => ⟨h.1, h.2.1, ?_, h.2.2.2⟩)
      have : idx = hdr.length := by simpa using hne
      rw [← this]; exact h.2.2.1

end Dtr

namespace Dtr
variable {all : List ATok} {l0 : Nat}

mutual
/-- every data row (at any depth) has the header's width, no `bits` wider than 64, and a line number
that is the header's line plus the number of `Eol` tokens before the row's first token -/
def Stmt.ok (all : List ATok) (l0 w : Nat) : Stmt → Prop
  | .row data line => rowWidth data = w ∧ bitsOK data ∧
      ∃ p, p ≤ all.length ∧ line = l0 + countEol (all.take p)
  | .loop _ _ body => Stmts.ok all l0 w body
  | .while _ body => Stmts.ok all l0 w body
  | .letS _ _ => True
  | .resetRandom => True
def Stmts.ok (all : List ATok) (l0 w : Nat) : List Stmt → Prop
  | [] => True
  | s :: ss => Stmt.ok all l0 w s ∧ Stmts.ok all l0 w ss
end

theorem Stmts.ok_append (w : Nat) : ∀ (a : List Stmt) (s : Stmt), Stmts.ok all l0 w a → Stmt.ok all l0 w s →
    Stmts.ok all l0 w (a ++ [s])
  | [], s, _, hs => by simp [Stmts.ok, hs]
  | x :: xs, s, ha, hs => by
    simp only [List.cons_append, Stmts.ok] at ha ⊢
    exact ⟨ha.1, Stmts.ok_append w xs s ha.2 hs⟩

/-- how a block ends: `end <kind>` consumed, or (top level) at the final `Eof` -/
def Closed (all : List ATok) (n : Nat) : Option Kind → Nat → Prop
  | some k, p => n + 2 ≤ p ∧ all[p - 2]? = some (.sym .End) ∧ all[p - 1]? = some (.sym k)
  | none, p => (1 ≤ p ∧ all[p - 1]? = some (.sym .Eof)) ∨ all[p]? = some (.sym .Eof)

def StmtPost (all : List ATok) (l0 w n : Nat) (endTok : Option Kind) (out : StmtOut) (st' : PState) : Prop :=
  K all l0 n st' ∧
  match out with
  | .closed => Closed all n endTok st'.pos
  | .pushed s => Stmt.ok all l0 w s ∧ st'.pos < all.length
  | .nothing => st'.pos < all.length

/-- a row parsed from position `p` on: afterwards the line counter is the header's line plus the
`Eol` tokens before `p` — no `Eol` is consumed inside a row -/
theorem parseRow_line (hall : all.getLast? = some (.sym .Eof)) (hdr : List String) (f n p : Nat) :
    Triple (fun st => JT all l0 n st ∧ st.pos = p) (parseRow hdr f)
      (fun data st' => JT all l0 n st' ∧ EndsRow all st'.pos ∧ rowWidth data = hdr.length ∧ bitsOK data ∧
        p ≤ all.length ∧ st'.line = l0 + countEol (all.take p)) := by
  by_cases hnp : n ≤ p
  · refine Triple.weaken (parseRow_ok (X := NoEolSince all p) hall (stable_noEol all p) hdr f p)
      (fun st h => ⟨h.1.1, by omega, h.1.2.2.1, by rw [h.2]; intro i h1 h2; omega⟩) ?_
    intro data st ⟨hj, he, hw, hb⟩
    obtain ⟨hc, hp, hlt, hx⟩ := hj
    refine ⟨⟨hc, by omega, hlt, trivial⟩, he, hw, hb, by omega, ?_⟩
    rw [hc.line, countEol_take_noEol all p st.pos hp hc.le hx]
  · intro st ⟨hj, hp⟩
    exfalso
    have := hj.2.1
    omega

/-- state-only operations keep the cursor and the line -/
theorem spec_modVars_line (n L : Nat) (g : FMap Unit → FMap Unit) (P : Prop) :
    Triple (fun st => (JT all l0 n st ∧ st.line = L) ∧ P) (modVars g)
      (fun _ st' => (JT all l0 n st' ∧ st'.line = L) ∧ P) := by
  intro st ⟨⟨hj, hl⟩, hp⟩
  obtain ⟨hc, hn, hlt, _⟩ := hj
  exact ⟨⟨⟨⟨hc.toks, hc.line, hc.le⟩, hn, hlt, trivial⟩, hl⟩, hp⟩

end Dtr
