import Dtr.Proofs.ParserEol
import Dtr.Model.RowIter
/-!
# A run depends on the statements only up to their `line` fields

`line` is only ever copied: from the statement into the row it yields, from the row into its
expansions, from there into the item handed out.  Erasing the lines of a program (`Stmts.erase`)
therefore commutes with every function of the interpreter: the erased program runs exactly as the
program does, with every `line` erased.  Two programs with the same erasure — such as a program and
the same program with blank lines inserted (`C20_blank_line_insert`) — hence yield the same items
except for `line`, make the same driver calls and end in the same way.
-/
namespace Dtr

def CRow.er (r : CRow) : CRow := { r with line := 0 }
def LoopState.er (ls : LoopState) : LoopState := { ls with stmts := Stmts.erase ls.stmts }
def WhileState.er (ws : WhileState) : WhileState := { ws with stmts := Stmts.erase ws.stmts }

mutual
def It.er : It → It
  | .mk rest st => .mk (Stmts.erase rest) st.er
def ItState.er : ItState → ItState
  | .iterate => .iterate
  | .startLoop ls => .startLoop ls.er
  | .startInner ls => .startInner ls.er
  | .inner it ls => .inner it.er ls.er
  | .endInner ls => .endInner ls.er
  | .startWhile ws => .startWhile ws.er
  | .whileInner it ws => .whileInner it.er ws.er
end

def StepRes.er : StepRes → StepRes
  | .yield r it c => .yield r.er it.er c
  | .done it c => .done it.er c
  | .cont it c => .cont it.er c
  | .err e => .err e
  | .panic m => .panic m

theorem step_er : ∀ (it : It) (c : Ctx), step it.er c = (step it c).er
  | .mk rest .iterate, c => by
    cases rest with
    | nil => simp [It.er, ItState.er, Stmts.erase, step, StepRes.er]
    | cons s rest' =>
      cases s with
      | letS name e =>
        simp only [It.er, ItState.er, Stmts.erase, Stmt.erase, step]
        cases evalE e c with
        | ok p => simp [StepRes.er, It.er, ItState.er]
        | err e => simp [StepRes.er]
        | panic m => simp [StepRes.er]
      | row data line =>
        simp only [It.er, ItState.er, Stmts.erase, Stmt.erase, step]
        cases evalRow data c with
        | ok p => simp [StepRes.er, It.er, ItState.er, CRow.er]
        | err e => simp [StepRes.er]
        | panic m => simp [StepRes.er]
      | loop var max body =>
        simp only [It.er, ItState.er, Stmts.erase, Stmt.erase, step]
        cases evalE max c with
        | ok p => simp [StepRes.er, It.er, ItState.er, LoopState.er]
        | err e => simp [StepRes.er]
        | panic m => simp [StepRes.er]
      | resetRandom => simp [It.er, ItState.er, Stmts.erase, Stmt.erase, step, StepRes.er]
      | «while» cond body =>
        simp [It.er, ItState.er, Stmts.erase, Stmt.erase, step, StepRes.er, WhileState.er]
  | .mk rest (.startLoop ls), c => by
    simp only [It.er, ItState.er, step, LoopState.er]
    split <;> simp [StepRes.er, It.er, ItState.er, LoopState.er]
  | .mk rest (.startInner ls), c => by
    simp [It.er, ItState.er, step, LoopState.er, StepRes.er]
  | .mk rest (.inner it ls), c => by
    have ih := step_er it c
    simp only [It.er, ItState.er, step, ih]
    cases step it c <;> simp [StepRes.er, It.er, ItState.er]
  | .mk rest (.endInner ls), c => by
    simp only [It.er, ItState.er, step, LoopState.er]
    split <;> simp [StepRes.er, It.er, ItState.er, LoopState.er]
  | .mk rest (.startWhile ws), c => by
    simp only [It.er, ItState.er, step, WhileState.er]
    cases evalE ws.cond c with
    | ok p =>
      simp only
      split <;> simp [StepRes.er, It.er, ItState.er, WhileState.er]
    | err e => simp [StepRes.er]
    | panic m => simp [StepRes.er]
  | .mk rest (.whileInner it ws), c => by
    have ih := step_er it c
    simp only [It.er, ItState.er, step, ih]
    cases step it c <;> simp [StepRes.er, It.er, ItState.er]

def NextRes.er : NextRes → NextRes
  | .row r it c => .row r.er it.er c
  | .none it c => .none it.er c
  | .err e => .err e
  | .panic m => .panic m
  | .fuel => .fuel

theorem nextRow_er : ∀ (f : Nat) (it : It) (c : Ctx), nextRow f it.er c = (nextRow f it c).er
  | 0, it, c => rfl
  | f+1, it, c => by
    simp only [nextRow, step_er]
    cases step it c with
    | yield r it' c' => simp [StepRes.er, NextRes.er]
    | done it' c' => simp [StepRes.er, NextRes.er]
    | cont it' c' => simp only [StepRes.er]; exact nextRow_er f it' c'
    | err e => simp [StepRes.er, NextRes.er]
    | panic m => simp [StepRes.er, NextRes.er]

/-! ### the row stack and `get_row` -/

def RowIt.er (s : RowIt) : RowIt := { s with it := s.it.er, cache := s.cache.map CRow.er }
def EvRow.er (r : EvRow) : EvRow := { r with line := 0 }

def GetRowRes.er : GetRowRes → GetRowRes
  | .row r s => .row r.er s.er
  | .none s => .none s.er
  | .err e => .err e
  | .panic m => .panic m
  | .fuel => .fuel

/-- a result about the row stack, with the lines erased -/
def erStack : Res IterErr (List CRow) → Res IterErr (List CRow)
  | .ok c => .ok (c.map CRow.er)
  | .err e => .err e
  | .panic m => .panic m

theorem expandX_er (tc : TestCase) : ∀ (f : Nat) (cache : List CRow),
    expandX tc f (cache.map CRow.er) = erStack (expandX tc f cache)
  | f, [] => by cases f <;> simp [expandX, erStack]
  | 0, r :: rs => by simp [expandX, erStack]
  | f+1, top :: rest => by
    simp only [List.map_cons, expandX, CRow.er]
    cases h : lastInputX tc top.entries with
    | none => simp [erStack, CRow.er]
    | some i =>
      simp only
      have := expandX_er tc f ({ top with entries := top.entries.set i (.num 0), xcols := i :: top.xcols } ::
        { top with entries := top.entries.set i (.num 1), xcols := i :: top.xcols } :: rest)
      simp only [List.map_cons, CRow.er] at this
      exact this

theorem expandC_er (tc : TestCase) : ∀ (cache : List CRow), expandC tc (cache.map CRow.er) = erStack (expandC tc cache)
  | [] => by simp [expandC, erStack]
  | top :: rest => by
    simp only [List.map_cons, expandC, CRow.er]
    split
    · simp [erStack, CRow.er]
    · split
      · simp [erStack]
      · simp [erStack, CRow.er]

def erPop : Res IterErr (CRow × List CRow) → Res IterErr (CRow × List CRow)
  | .ok (top, rest) => .ok (top.er, rest.map CRow.er)
  | .err e => .err e
  | .panic m => .panic m

theorem popRow_er (tc : TestCase) (cache : List CRow) : popRow tc (cache.map CRow.er) = erPop (popRow tc cache) := by
  unfold popRow
  have hlen : ((cache.map CRow.er).head?.map (·.entries.length)).getD 0 = (cache.head?.map (·.entries.length)).getD 0 := by
    cases cache <;> simp [CRow.er]
  rw [hlen, expandX_er]
  cases expandX tc ((cache.head?.map (·.entries.length)).getD 0 + 1) cache with
  | err e => simp [erStack, erPop]
  | panic m => simp [erStack, erPop]
  | ok c1 =>
    simp only [erStack, expandC_er]
    cases expandC tc c1 with
    | err e => simp [erStack, erPop]
    | panic m => simp [erStack, erPop]
    | ok c2 =>
      cases c2 with
      | nil => simp [erStack, erPop]
      | cons t r => simp [erStack, erPop]

theorem getRow_er (tc : TestCase) (fuel : Nat) (s : RowIt) : getRow tc fuel s.er = (getRow tc fuel s).er := by
  unfold getRow
  by_cases hemp : s.cache.isEmpty = true
  · have hemp' : s.er.cache.isEmpty = true := by simp [RowIt.er]; simpa using hemp
    simp only [hemp, hemp', if_true]
    have hn : nextRow fuel s.er.it s.er.ctx = (nextRow fuel s.it s.ctx).er := nextRow_er fuel s.it s.ctx
    rw [hn]
    cases nextRow fuel s.it s.ctx with
    | row r it c =>
      simp only [NextRes.er]
      have hp := popRow_er tc [r]
      simp only [List.map_cons, List.map_nil] at hp
      simp only [hp]
      cases popRow tc [r] with
      | err e => simp [erPop, GetRowRes.er]
      | panic m => simp [erPop, GetRowRes.er]
      | ok p =>
        obtain ⟨top, rest⟩ := p
        simp only [erPop, CRow.er, RowIt.er]
        cases genInputs tc top.entries (changedFlags s.prev top.entries) with
        | err e => simp [GetRowRes.er]
        | panic m => simp [GetRowRes.er]
        | ok ins =>
          simp only
          cases genExpected tc top.entries top.xcols with
          | err e => simp [GetRowRes.er]
          | panic m => simp [GetRowRes.er]
          | ok exps => simp [GetRowRes.er, EvRow.er, RowIt.er, CRow.er]
    | none it c => simp [NextRes.er, GetRowRes.er, RowIt.er]
    | err e => simp [NextRes.er, GetRowRes.er]
    | panic m => simp [NextRes.er, GetRowRes.er]
    | fuel => simp [NextRes.er, GetRowRes.er]
  · have hemp0 : s.cache.isEmpty = false := by simpa using hemp
    have hemp' : s.er.cache.isEmpty = false := by simp [RowIt.er]; simpa using hemp
    simp only [hemp0, hemp', Bool.false_eq_true, if_false]
    have hp := popRow_er tc s.cache
    have hc : s.er.cache = s.cache.map CRow.er := rfl
    rw [hc, hp]
    cases popRow tc s.cache with
    | err e => simp [erPop, GetRowRes.er]
    | panic m => simp [erPop, GetRowRes.er]
    | ok p =>
      obtain ⟨top, rest⟩ := p
      simp only [erPop, CRow.er, RowIt.er]
      cases genInputs tc top.entries (changedFlags s.prev top.entries) with
      | err e => simp [GetRowRes.er]
      | panic m => simp [GetRowRes.er]
      | ok ins =>
        simp only
        cases genExpected tc top.entries top.xcols with
        | err e => simp [GetRowRes.er]
        | panic m => simp [GetRowRes.er]
        | ok exps => simp [GetRowRes.er, EvRow.er, RowIt.er, CRow.er]

/-! ### `next`, the constructor, whole runs -/

def DataRow.er (r : DataRow) : DataRow := { r with line := 0 }

def Item.er : Item → Item
  | .row r => .row r.er
  | .err e => .err e

def NextOut.er {δ : Type} : NextOut δ → NextOut δ
  | .item i s d calls => .item i.er s.er d calls
  | .none s d => .none s.er d
  | .panic m calls => .panic m calls
  | .fuel => .fuel

theorem intoDataRow_er (r : EvRow) (vals : List OutVal) : intoDataRow r.er vals = (intoDataRow r vals).er := rfl

theorem next_er {δ : Type} (tc : TestCase) (drv : Driver δ) (fuel : Nat) (s : RowIt) (d : δ) :
    RowIt.next tc drv fuel s.er d = (RowIt.next tc drv fuel s d).er := by
  unfold RowIt.next
  rw [getRow_er]
  cases getRow tc fuel s with
  | err e => simp [GetRowRes.er, NextOut.er, Item.er]
  | panic m => simp [GetRowRes.er, NextOut.er]
  | fuel => simp [GetRowRes.er, NextOut.er]
  | none s' => simp [GetRowRes.er, NextOut.er]
  | row r s' =>
    simp only [GetRowRes.er]
    have hu : r.er.upd = r.upd := rfl
    have hi : r.er.inputs = r.inputs := rfl
    have hc : s'.er.ctx = s'.ctx := rfl
    have ho : s'.er.outIdx = s'.outIdx := rfl
    have hn : s'.er.numOut = s'.numOut := rfl
    simp only [hu, hi, hc, ho, hn]
    by_cases hupd : r.upd = true
    · simp only [hupd, if_true]
      cases hd : drv.rw d r.inputs with
      | mk d' resp =>
        cases resp with
        | fail e => simp [NextOut.er, Item.er]
        | ok outs =>
          simp only
          cases he : extractOutputs tc s'.outIdx s'.numOut outs (s'.ctx.setOutputs (outsOf outs)) with
          | mk res c2 =>
            cases res with
            | ok vals => simp [NextOut.er, Item.er, intoDataRow_er, RowIt.er]
            | err e => simp [NextOut.er, Item.er, RowIt.er]
            | panic m => simp [NextOut.er]
    · simp only [hupd, if_false, Bool.false_eq_true]
      cases hd : drv.wo d r.inputs with
      | mk d' resp =>
        cases resp with
        | some e => simp [NextOut.er, Item.er]
        | none => simp [NextOut.er, Item.er, intoDataRow_er]

/-- the test case with the lines of its statements erased -/
def TestCase.er (tc : TestCase) : TestCase := { tc with stmts := Stmts.erase tc.stmts }

def CtorRes.er {δ : Type} : CtorRes δ → CtorRes δ
  | .ok s d log => .ok s.er d log
  | .err e d log => .err e d log
  | .panic m => .panic m

/-! `next` looks at the test case only through its indices and signals -/

theorem isInputX_tc (tc : TestCase) (i : Nat) (e : REntry) : isInputX tc.er i e = isInputX tc i e := rfl
theorem isInputC_tc (tc : TestCase) (i : Nat) (e : REntry) : isInputC tc.er i e = isInputC tc i e := rfl

theorem lastInputXFrom_tc (tc : TestCase) : ∀ (es : List REntry) (i : Nat),
    lastInputXFrom tc.er es i = lastInputXFrom tc es i
  | [], _ => rfl
  | e :: es, i => by simp only [lastInputXFrom, lastInputXFrom_tc tc es (i + 1), isInputX_tc]; rfl

theorem hasInputCFrom_tc (tc : TestCase) : ∀ (es : List REntry) (i : Nat),
    hasInputCFrom tc.er es i = hasInputCFrom tc es i
  | [], _ => rfl
  | e :: es, i => by simp only [hasInputCFrom, hasInputCFrom_tc tc es (i + 1), isInputC_tc]

theorem expandX_tc (tc : TestCase) : ∀ (f : Nat) (c : List CRow), expandX tc.er f c = expandX tc f c
  | f, [] => by cases f <;> rfl
  | 0, _ :: _ => rfl
  | f+1, top :: rest => by
    simp only [expandX, lastInputX, lastInputXFrom_tc]
    cases lastInputXFrom tc top.entries 0 with
    | none => rfl
    | some i => exact expandX_tc tc f _

theorem clockLow_tc (tc : TestCase) (v : Int64) (es : List REntry) : clockLow tc.er v es = clockLow tc v es := rfl
theorem clockBlank_tc (tc : TestCase) (v : Int64) (es : List REntry) : clockBlank tc.er v es = clockBlank tc v es := rfl
theorem blankOutOfRange_tc (tc : TestCase) (n : Nat) : blankOutOfRange tc.er n = blankOutOfRange tc n := rfl

theorem expandC_tc (tc : TestCase) : ∀ (c : List CRow), expandC tc.er c = expandC tc c
  | [] => rfl
  | top :: rest => by
    simp only [expandC, hasInputCFrom_tc, clockLow_tc, clockBlank_tc, blankOutOfRange_tc]; rfl

theorem popRow_tc (tc : TestCase) (c : List CRow) : popRow tc.er c = popRow tc c := by
  unfold popRow
  rw [expandX_tc]
  cases expandX tc ((c.head?.map (·.entries.length)).getD 0 + 1) c with
  | err e => rfl
  | panic m => rfl
  | ok c1 => simp only [expandC_tc]

theorem getRow_tc (tc : TestCase) (fuel : Nat) (s : RowIt) : getRow tc.er fuel s = getRow tc fuel s := by
  unfold getRow
  have h1 : ∀ a b, genInputs tc.er a b = genInputs tc a b := fun _ _ => rfl
  have h2 : ∀ a, genExpected tc.er a = genExpected tc a := fun _ => rfl
  simp only [popRow_tc, h1, h2]

theorem extractOne_tc (tc : TestCase) (outs : List OutEntry) (c : Ctx) (p : EIdx × OIdx) :
    extractOne tc.er outs c p = extractOne tc outs c p := rfl

theorem extractAll_tc (tc : TestCase) (outs : List OutEntry) : ∀ (c : Ctx) (ps : List (EIdx × OIdx)),
    extractAll tc.er outs c ps = extractAll tc outs c ps
  | c, [] => rfl
  | c, p :: ps => by
    simp only [extractAll, extractOne_tc]
    cases extractOne tc outs c p with
    | ok q => obtain ⟨v, c1⟩ := q; simp only [extractAll_tc tc outs c1 ps]
    | err e => rfl
    | panic m => rfl

theorem extractOutputs_tc (tc : TestCase) (a : List OIdx) (b : Nat) (c : List OutEntry) (e : Ctx) :
    extractOutputs tc.er a b c e = extractOutputs tc a b c e := by
  unfold extractOutputs
  simp only [extractAll_tc]
  rfl

theorem next_tc_er {δ : Type} (tc : TestCase) (drv : Driver δ) (fuel : Nat) (s : RowIt) (d : δ) :
    RowIt.next tc.er drv fuel s d = RowIt.next tc drv fuel s d := by
  unfold RowIt.next
  simp only [getRow_tc, extractOutputs_tc]

theorem tryNew_er {δ : Type} (tc : TestCase) (drv : Driver δ) (d : δ) (rng : Rng) :
    tryNew tc.er drv d rng = (tryNew tc drv d rng).er := by
  unfold tryNew
  have h1 : defaultInputs tc.er = defaultInputs tc := rfl
  rw [h1]
  cases defaultInputs tc with
  | err e => simp [CtorRes.er]
  | panic m => simp [CtorRes.er]
  | ok inputs =>
    simp only
    cases hd : drv.rw d inputs with
    | mk d' resp =>
      cases resp with
      | fail e => simp [CtorRes.er]
      | ok outs =>
        simp only
        have h2 : buildOutIdx tc.er outs = buildOutIdx tc outs := rfl
        rw [h2]
        cases buildOutIdx tc outs with
        | err e => simp [CtorRes.er]
        | panic m => simp [CtorRes.er]
        | ok oi => simp [CtorRes.er, RowIt.er, TestCase.er, It.new, It.er, ItState.er]

/-- the items (with the driver calls made for each) of the first `n` calls of `next` -/
def runN {δ : Type} (tc : TestCase) (drv : Driver δ) (fuel : Nat) : Nat → RowIt → δ → List (Item × List Call)
  | 0, _, _ => []
  | n+1, s, d =>
    match RowIt.next tc drv fuel s d with
    | .item i s' d' calls => (i, calls) :: runN tc drv fuel n s' d'
    | _ => []

/-- how a run of `n` calls of `next` ends: exhausted, still going, panic, out of fuel -/
def endN {δ : Type} (tc : TestCase) (drv : Driver δ) (fuel : Nat) : Nat → RowIt → δ → Nat
  | 0, _, _ => 0
  | n+1, s, d =>
    match RowIt.next tc drv fuel s d with
    | .item _ s' d' _ => endN tc drv fuel n s' d'
    | .none _ _ => 1
    | .panic _ _ => 2
    | .fuel => 3

/-- **two programs that differ only in line numbers run alike**: from similar states, the same items —
inputs, outputs, expected values, errors — with the same driver calls, up to the `line` of each row -/
theorem runN_er {δ : Type} (tc tc' : TestCase) (htc : tc'.er = tc.er) (drv : Driver δ) (fuel : Nat) :
    ∀ (n : Nat) (s s' : RowIt) (d : δ), s'.er = s.er →
      (runN tc' drv fuel n s' d).map (fun p => (p.1.er, p.2)) = (runN tc drv fuel n s d).map (fun p => (p.1.er, p.2)) ∧
      endN tc' drv fuel n s' d = endN tc drv fuel n s d
  | 0, _, _, _, _ => ⟨rfl, rfl⟩
  | n+1, s, s', d, hs => by
    have key : (RowIt.next tc' drv fuel s' d).er = (RowIt.next tc drv fuel s d).er := by
      rw [← next_er, ← next_er, ← next_tc_er tc', ← next_tc_er tc, htc, hs]
    simp only [runN, endN]
    cases h1 : RowIt.next tc' drv fuel s' d <;> cases h2 : RowIt.next tc drv fuel s d <;>
      rw [h1, h2] at key <;> simp only [NextOut.er, NextOut.item.injEq, NextOut.none.injEq, reduceCtorEq] at key
    · obtain ⟨hi, hss, hd, hc⟩ := key
      subst hd; subst hc
      have ih := runN_er tc tc' htc drv fuel n _ _ (by assumption) hss
      simp only [List.map_cons, hi, ih.1, ih.2, and_self]
    all_goals simp

end Dtr
