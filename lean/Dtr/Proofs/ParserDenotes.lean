import Dtr.Spec.Grammar
/-!
# What the parser accepts is a phrase of the grammar, and what it returns is the tree the phrase denotes

`CT m D`: whenever `m` succeeds, the tokens it consumed — `u`, with `st.toks = u ++ st'.toks` — and
its result `a` satisfy `D u rem a`, where `rem = st'.toks` are the tokens left (so that `D` can speak
about the look-ahead).
-/
namespace Dtr

def CT {α : Type} (m : PM α) (D : List ATok → List ATok → α → Prop) : Prop :=
  ∀ st a st', m st = .ok a st' → ∃ u, st.toks = u ++ st'.toks ∧ D u st'.toks a

theorem CT.bind {α β : Type} {m : PM α} {f : α → PM β} {D1 : List ATok → List ATok → α → Prop}
    {D2 : α → List ATok → List ATok → β → Prop} (hm : CT m D1) (hf : ∀ a, CT (f a) (D2 a)) :
    CT (m >>= f) (fun u rem b => ∃ u1 a u2, u = u1 ++ u2 ∧ D1 u1 (u2 ++ rem) a ∧ D2 a u2 rem b) := by
  intro st b st2 h
  change PM.bind m f st = .ok b st2 at h
  unfold PM.bind at h
  cases hm1 : m st with
  | ok a st1 =>
    rw [hm1] at h
    obtain ⟨u1, e1, d1⟩ := hm st a st1 hm1
    obtain ⟨u2, e2, d2⟩ := hf a st1 b st2 h
    exact ⟨u1 ++ u2, by rw [e1, e2, List.append_assoc], u1, a, u2, rfl, by rw [← e2]; exact d1, d2⟩
  | err t l => rw [hm1] at h; cases h
  | panic s => rw [hm1] at h; cases h
  | fuel => rw [hm1] at h; cases h

theorem CT.pure {α : Type} (a : α) : CT (pure a : PM α) (fun u _ b => u = [] ∧ b = a) := by
  intro st b st' h
  change PM.pure a st = .ok b st' at h
  simp only [PM.pure, PRes.ok.injEq] at h
  obtain ⟨rfl, rfl⟩ := h
  exact ⟨[], rfl, rfl, rfl⟩

theorem CT.fail {α : Type} (t : String) (l : List Loc) (D : List ATok → List ATok → α → Prop) :
    CT (failP t l : PM α) D := by
  intro st a st' h; simp [failP] at h

theorem CT.fuel {α : Type} (D : List ATok → List ATok → α → Prop) : CT (fuelOut : PM α) D := by
  intro st a st' h; simp [fuelOut] at h

theorem CT.weaken {α : Type} {m : PM α} {D D' : List ATok → List ATok → α → Prop} (h : CT m D)
    (hd : ∀ u rem a, D u rem a → D' u rem a) : CT m D' := by
  intro st a st' hm
  obtain ⟨u, e, d⟩ := h st a st' hm
  exact ⟨u, e, hd u _ a d⟩

/-- operations that leave the tokens alone -/
theorem CT.keep {α : Type} (m : PM α) (hm : ∀ st a st', m st = .ok a st' → st'.toks = st.toks) :
    CT m (fun u _ _ => u = []) := by
  intro st a st' h
  exact ⟨[], by simp [hm st a st' h], rfl⟩

theorem ct_curPos : CT curPos (fun u _ _ => u = []) := CT.keep _ (fun st a st' h => by simp [curPos] at h; rw [h.2])
theorem ct_getLine : CT getLine (fun u _ _ => u = []) := CT.keep _ (fun st a st' h => by simp [getLine] at h; rw [h.2])
theorem ct_getVars : CT getVars (fun u _ _ => u = []) := CT.keep _ (fun st a st' h => by simp [getVars] at h; rw [h.2])
theorem ct_modVars (f : FMap Unit → FMap Unit) : CT (modVars f) (fun u _ _ => u = []) :=
  CT.keep _ (fun st a st' h => by simp [modVars] at h; rw [← h])
theorem ct_recordRead (n : String) (i : Nat) : CT (recordRead n i) (fun u _ _ => u = []) :=
  CT.keep _ (fun st a st' h => by
    unfold recordRead at h
    split at h
    · simp at h; rw [h]
    · split at h
      · simp at h; rw [h]
      · simp at h; rw [← h])
theorem ct_recordC (n : String) (i : Nat) : CT (recordC n i) (fun u _ _ => u = []) :=
  CT.keep _ (fun st a st' h => by
    unfold recordC at h
    split at h
    · simp at h; rw [h]
    · simp at h; rw [← h])
theorem ct_declareVirt (n : String) (a b : Nat) (e : Expr) :
    CT (declareVirt n a b e) (fun u _ o => u = [] ∧ o = .nothing) := by
  intro st o st' h
  unfold declareVirt at h
  split at h
  · cases h
  · simp only [PRes.ok.injEq] at h
    exact ⟨[], by rw [← h.2]; rfl, rfl, h.1.symm⟩

theorem ct_peekPos : CT peekPos (fun u _ _ => u = []) :=
  CT.keep _ (fun st a st' h => by
    unfold peekPos at h
    split at h
    · cases h
    · simp at h; rw [h.2])

theorem ct_get : CT getTok (fun u _ t => u = [t]) := by
  intro st t st' h
  unfold getTok at h
  cases hs : st.toks with
  | nil => rw [hs] at h; cases h
  | cons x xs =>
    rw [hs] at h
    simp only [PRes.ok.injEq] at h
    obtain ⟨rfl, rfl⟩ := h
    exact ⟨[x], rfl, rfl⟩

theorem ct_skip : CT skipTok (fun u _ _ => ∃ t, u = [t]) := by
  intro st a st' h
  unfold skipTok at h
  cases hg : getTok st with
  | ok t st1 =>
    rw [hg] at h
    simp only [PRes.ok.injEq] at h
    obtain ⟨u, e, d⟩ := ct_get st t st1 hg
    exact ⟨u, by rw [← h.2]; exact e, t, d⟩
  | err a b => rw [hg] at h; cases h
  | panic m => rw [hg] at h; cases h
  | fuel => rw [hg] at h; cases h

theorem ct_peek : CT peekTok (fun u rem t => u = [] ∧ rem.head? = some t) := by
  intro st t st' h
  unfold peekTok at h
  cases hs : st.toks with
  | nil => rw [hs] at h; cases h
  | cons x xs =>
    rw [hs] at h
    simp only [PRes.ok.injEq] at h
    obtain ⟨rfl, rfl⟩ := h
    exact ⟨[], by simp [hs], rfl, by rw [hs]; rfl⟩

theorem ct_at (k : Kind) : CT (atTok k) (fun u rem b => u = [] ∧ (b = true → rem.head? = some (.sym k))) := by
  unfold atTok
  refine (CT.bind ct_peek (fun t => CT.pure (t == ATok.sym k))).weaken ?_
  rintro u rem b ⟨u1, t, u2, rfl, ⟨rfl, hd⟩, rfl, rfl⟩
  refine ⟨rfl, fun hb => ?_⟩
  have : t = .sym k := by simpa using hb
  rw [← this]; simpa using hd

theorem ct_expect (k : Kind) : CT (expectTok k) (fun u _ _ => u = [.sym k]) := by
  unfold expectTok
  refine (CT.bind ct_curPos (fun i => CT.bind ct_get (fun t =>
    (show CT (if t = .sym k then (pure i : PM Nat) else failP "NotExpectedToken" [.tok i])
        (fun u _ _ => u = [] ∧ t = .sym k) from by
      by_cases ht : t = .sym k
      · simp only [ht, if_true]; exact (CT.pure i).weaken (fun u rem a h => ⟨h.1, trivial⟩)
      · simp only [ht, if_false]; exact CT.fail _ _ _)))).weaken ?_
  rintro u rem a ⟨u1, i, u2, rfl, rfl, u3, t, u4, rfl, rfl, rfl, rfl⟩
  rfl

theorem ct_expectIdent : CT expectIdent (fun u _ a => u = [.ident a.1]) := by
  unfold expectIdent
  refine (CT.bind ct_curPos (fun i => CT.bind ct_get (fun t =>
    (show CT (match t with
        | .ident s => (pure (s, i) : PM (String × Nat))
        | _ => failP "NotExpectedToken" [.tok i]) (fun u _ a => u = [] ∧ t = .ident a.1) from by
      cases t with
      | ident s => exact (CT.pure (s, i)).weaken (fun u rem a h => ⟨h.1, by rw [h.2]⟩)
      | sym k => exact CT.fail _ _ _
      | num v => exact CT.fail _ _ _)))).weaken ?_
  rintro u rem a ⟨u1, i, u2, rfl, rfl, u3, t, u4, rfl, rfl, rfl, rfl⟩
  rfl

theorem ct_parseNumber : CT parseNumber (fun u _ v => u = [.num (some v)]) := by
  unfold parseNumber
  refine (CT.bind ct_curPos (fun i => CT.bind ct_get (fun t =>
    (show CT (match t with
        | .num (some v) => (pure v : PM Int64)
        | .num none => failP "NumberParseError" [.tok i]
        | _ => failP "ExpectedNumber" [.tok i]) (fun u _ v => u = [] ∧ t = .num (some v)) from by
      cases t with
      | num v =>
        cases v with
        | some x => exact (CT.pure x).weaken (fun u rem a h => ⟨h.1, by rw [h.2]⟩)
        | none => exact CT.fail _ _ _
      | sym k => exact CT.fail _ _ _
      | ident s => exact CT.fail _ _ _)))).weaken ?_
  rintro u rem a ⟨u1, i, u2, rfl, rfl, u3, t, u4, rfl, rfl, rfl, rfl⟩
  rfl

theorem CT.bindFail {α β : Type} (m : PM α) (t : String) (l : α → List Loc) (D : List ATok → List ATok → β → Prop) :
    CT (m >>= fun x => (failP t (l x) : PM β)) D := by
  intro st b st2 h
  change PM.bind m _ st = .ok b st2 at h
  unfold PM.bind at h
  cases hm : m st <;> rw [hm] at h <;> simp [failP] at h

/-- consume one token and fail at it -/
theorem ct_getFail {β : Type} (tag : String) (D : List ATok → List ATok → β → Prop) :
    CT (do let i ← curPos; let _ ← getTok; failP tag [.tok i] : PM β) D := by
  intro st b st2 h
  simp only [bind, PM.bind, curPos, getTok, failP] at h
  split at h <;> simp at h

def foldAdd (t : BTree) (ps : List (BinOp × Expr)) : BTree := ps.foldl (fun t p => t.add p.1 p.2) t

structure ExprD (f : Nat) : Prop where
  expr : CT (parseExpr f) (fun u _ e => DExpr u e)
  chain : ∀ t, CT (chain f t) (fun u _ e => ∃ ps, DChain u ps ∧ e = (foldAdd t ps).toExpr)
  factor : CT (parseFactor f) (fun u _ e => DFactor u e)
  args : ∀ acc, CT (parseArgs f acc) (fun u _ r => ∃ t ts es, u = t :: ts ∧ DArgs ts es ∧ r = acc ++ es)

theorem head_cons_append {t tk : ATok} {a b : List ATok} (h : (t :: a ++ b).head? = some tk) : t = tk := by
  simpa using h

theorem exprD : ∀ f, ExprD f := by
  intro f
  induction f with
  | zero => exact ⟨CT.fuel _, fun _ => CT.fuel _, CT.fuel _, fun _ => CT.fuel _⟩
  | succ f ih =>
    refine ⟨?_, ?_, ?_, ?_⟩
    · -- parseExpr
      simp only [parseExpr]
      refine (CT.bind ih.factor (fun first => ih.chain (.atom first))).weaken ?_
      rintro u rem e ⟨u1, first, u2, rfl, hF, ps, hC, rfl⟩
      exact DExpr.chain u1 first u2 ps hF hC
    · -- chain
      intro t
      simp only [chain]
      refine (CT.bind (D2 := fun tk u rem e => (u ++ rem).head? = some tk →
          ∃ ps, DChain u ps ∧ e = (foldAdd t ps).toExpr) ct_peek (fun tk => ?_)).weaken ?_
      · cases hb : binOpOf tk with
        | none =>
          simp only
          refine (CT.pure _).weaken ?_
          rintro u rem e ⟨rfl, rfl⟩ _
          exact ⟨[], DChain.nil, rfl⟩
        | some o =>
          simp only
          refine (CT.bind ct_get (fun t' => CT.bind ih.factor (fun e => ih.chain (t.add o e)))).weaken ?_
          rintro u rem r ⟨u1, t', u2, rfl, rfl, u3, e, u4, rfl, hF, ps, hC, rfl⟩ hd
          have : t' = tk := by simpa using hd
          subst this
          exact ⟨(o, e) :: ps, DChain.cons t' o u3 e u4 ps hb hF hC, rfl⟩
      · rintro u rem e ⟨u1, tk, u2, rfl, ⟨rfl, hd⟩, h2⟩
        exact h2 (by simpa using hd)
    · -- parseFactor
      simp only [parseFactor]
      refine (CT.bind (D2 := fun tk u rem e => (u ++ rem).head? = some tk → DFactor u e) ct_peek (fun tk => ?_)).weaken ?_
      · cases tk with
        | num v =>
          simp only
          refine (CT.bind ct_parseNumber (fun n => CT.pure (Expr.num n))).weaken ?_
          rintro u rem e ⟨u1, n, u2, rfl, rfl, rfl, rfl⟩ _
          exact DFactor.num n
        | ident name =>
          simp only
          refine (CT.bind ct_curPos (fun i => CT.bind ct_get (fun t' => CT.bind (ct_at .LParen)
            (D2 := fun b u rem e => (b = true ∧ ∃ tA ts es, u = (tA :: ts) ++ [.sym .RParen] ∧ DArgs ts es ∧
                funcArity name = some es.length ∧ e = .call name es) ∨ (b = false ∧ u = [] ∧ e = .var name))
            (fun b => ?_)))).weaken ?_
          · cases b with
            | true =>
              simp only [if_true]
              cases hfa : funcArity name with
              | none => exact CT.fail _ _ _
              | some ar =>
                simp only
                refine (CT.bind (ih.args []) (fun args => CT.bind (ct_expect .RParen)
                  (D2 := fun _ u rem e => u = [] ∧ args.length = ar ∧ e = .call name args) (fun _ => ?_))).weaken ?_
                · cases hc : (args.length != ar) with
                  | true => simp only [if_true]; exact CT.bindFail _ _ _ _
                  | false =>
                    simp only [Bool.false_eq_true, if_false]
                    refine (CT.pure _).weaken ?_
                    rintro u rem e ⟨rfl, rfl⟩
                    exact ⟨rfl, by simpa using hc, rfl⟩
                · rintro u rem e ⟨u1, args, u2, rfl, ⟨tA, ts, es, rfl, hA, hargs⟩, u3, _, u4, rfl, rfl, rfl, hlen, rfl⟩
                  simp only [List.nil_append] at hargs
                  subst hargs
                  left
                  exact ⟨by simp, tA, ts, args, by simp, hA, by rw [hlen], rfl⟩
            | false =>
              simp only [Bool.false_eq_true, if_false]
              refine (CT.bind (ct_recordRead name i) (fun _ => CT.pure (Expr.var name))).weaken ?_
              rintro u rem e ⟨u1, _, u2, rfl, rfl, rfl, rfl⟩
              exact Or.inr ⟨by simp, rfl, rfl⟩
          · rintro u rem e ⟨u1, i, u2, rfl, rfl, u3, t', u4, rfl, rfl, u5, b, u6, rfl, ⟨rfl, hat⟩, hD⟩ hd
            have ht : t' = .ident name := by simpa using hd
            subst ht
            rcases hD with ⟨rfl, tA, ts, es, rfl, hA, hfa, rfl⟩ | ⟨rfl, rfl, rfl⟩
            · have hL : tA = .sym .LParen := by
                have := hat rfl
                simpa using this
              subst hL
              have := DFactor.call name ts es hfa hA
              simpa using this
            · simpa using DFactor.var name
        | sym k =>
          simp only
          cases hu : unOpOf (.sym k) with
          | some uo =>
            simp only
            refine (CT.bind ct_skip (fun _ => CT.bind ih.factor (fun e => CT.pure (Expr.un uo e)))).weaken ?_
            rintro u rem r ⟨u1, _, u2, rfl, ⟨t', rfl⟩, u3, e, u4, rfl, hF, rfl, rfl⟩ hd
            have : t' = .sym k := by simpa using hd
            subst this
            simpa using DFactor.un k uo u3 e hu hF
          | none =>
            simp only
            by_cases hk : k = .LParen
            · subst hk
              simp only [↓reduceIte]
              refine (CT.bind ct_skip (fun _ => CT.bind ih.expr (fun e => CT.bind (ct_expect .RParen)
                (fun _ => CT.pure e)))).weaken ?_
              rintro u rem r ⟨u1, _, u2, rfl, ⟨t', rfl⟩, u3, e, u4, rfl, hE, u5, _, u6, rfl, rfl, rfl, rfl⟩ hd
              have : t' = .sym .LParen := by simpa using hd
              subst this
              simpa using DFactor.paren u3 _ hE
            · simp only [hk, if_false]
              exact ct_getFail _ _
      · rintro u rem e ⟨u1, tk, u2, rfl, ⟨rfl, hd⟩, h2⟩
        exact h2 (by simpa using hd)
    · -- parseArgs
      intro acc
      simp only [parseArgs]
      refine (CT.bind ct_skip (fun _ => CT.bind ih.expr (fun e => CT.bind (ct_at .Comma)
        (D2 := fun b u rem r => (b = true ∧ ∃ t ts es, u = t :: ts ∧ DArgs ts es ∧ r = acc ++ [e] ++ es) ∨
          (b = false ∧ u = [] ∧ r = acc ++ [e])) (fun b => ?_)))).weaken ?_
      · cases b with
        | true =>
          simp only [if_true]
          refine (ih.args (acc ++ [e])).weaken ?_
          rintro u rem r ⟨t, ts, es, rfl, hA, rfl⟩
          exact Or.inl ⟨by simp, t, ts, es, rfl, hA, by simp⟩
        | false =>
          simp only [Bool.false_eq_true, if_false]
          refine (CT.pure _).weaken ?_
          rintro u rem r ⟨rfl, rfl⟩
          exact Or.inr ⟨by simp, rfl, rfl⟩
      · rintro u rem r ⟨u1, _, u2, rfl, ⟨t0, rfl⟩, u3, e, u4, rfl, hE, u5, b, u6, rfl, ⟨rfl, hat⟩, hD⟩
        rcases hD with ⟨rfl, t, ts, es, rfl, hA, rfl⟩ | ⟨rfl, rfl, rfl⟩
        · have hC : t = .sym .Comma := by
            have := hat rfl
            simpa using this
          subst hC
          refine ⟨t0, u3 ++ .sym .Comma :: ts, e :: es, by simp, DArgs.cons u3 e ts es hE hA, by simp⟩
        · exact ⟨t0, u3, [e], by simp, DArgs.one u3 e hE, rfl⟩

/-! ### rows -/

theorem rowLoopD (hdr : List String) : ∀ (f : Nat) (data : List DataEntry) (idx : Nat),
    CT (rowLoop hdr f data idx) (fun u _ r => ∃ ds, DRow u ds ∧ r.1 = data ++ ds) := by
  intro f
  induction f with
  | zero => intro data idx; exact CT.fuel _
  | succ f ih =>
    intro data idx
    have hE := exprD f
    simp only [rowLoop]
    refine (CT.bind (D2 := fun tk u rem r => (u ++ rem).head? = some tk → ∃ ds, DRow u ds ∧ r.1 = data ++ ds)
      ct_peek (fun tk => ?_)).weaken ?_
    · split
      · -- ( expr )
        refine (CT.bind ct_skip (fun _ => CT.bind hE.expr (fun e => CT.bind (ct_expect .RParen)
          (fun _ => ih (data ++ [.expr e]) (idx + 1))))).weaken ?_
        rintro u rem r ⟨u1, _, u2, rfl, ⟨t', rfl⟩, u3, e, u4, rfl, hX, u5, _, u6, rfl, rfl, ds, hR, hr⟩ hd
        have : t' = .sym .LParen := by simpa using hd
        subst this
        refine ⟨.expr e :: ds, ?_, by simp [hr]⟩
        have := DRow.cons _ _ _ _ (DEntry.expr u3 e hX) hR
        simpa using this
      · -- bits ( k , expr )
        refine (CT.bind ct_skip (fun _ => CT.bind (ct_expect .LParen) (fun _ => CT.bind ct_peekPos (fun at_ =>
          CT.bind ct_parseNumber (D2 := fun n u rem r => ∃ (te : List ATok) (e : Expr) (ds : List ATok × List DataEntry), u = .sym .Comma :: (te ++ .sym .RParen :: ds.1) ∧
              ¬ n > 64 ∧ DExpr te e ∧ DRow ds.1 ds.2 ∧ r.1 = data ++ [.bits n.toNatClampNeg e] ++ ds.2) (fun n => ?_))))).weaken ?_
        · by_cases hn : n > 64
          · simp only [hn, if_true]; exact CT.fail _ _ _
          · simp only [hn, if_false]
            refine (CT.bind (ct_expect .Comma) (fun _ => CT.bind hE.expr (fun e => CT.bind (ct_expect .RParen)
              (fun _ => ih (data ++ [.bits n.toNatClampNeg e]) (idx + n.toNatClampNeg))))).weaken ?_
            rintro u rem r ⟨u1, _, u2, rfl, rfl, u3, e, u4, rfl, hX, u5, _, u6, rfl, rfl, ds, hR, hr⟩
            exact ⟨u3, e, (u6, ds), by simp, by simp, hX, hR, hr⟩
        · rintro u rem r ⟨u1, _, u2, rfl, ⟨t', rfl⟩, u3, _, u4, rfl, rfl, u5, _, u6, rfl, rfl, u7, n, u8, rfl, rfl,
            te, e, ds, rfl, hn, hX, hR, hr⟩ hd
          have : t' = .sym .Bits := by simpa using hd
          subst this
          refine ⟨.bits n.toNatClampNeg e :: ds.2, ?_, by simp [hr]⟩
          have := DRow.cons _ _ _ _ (DEntry.bits n te e hn hX) hR
          simpa using this
      · -- identifier
        next s =>
        refine (CT.bind ct_curPos (fun i => CT.bind ct_get
          (D2 := fun _ u rem r => ∃ d, ((s = "c" ∨ s = "C") ∧ d = DataEntry.c ∨ (s = "x" ∨ s = "X") ∧ d = DataEntry.x ∨
            (s = "z" ∨ s = "Z") ∧ d = DataEntry.z) ∧ ∃ ds, DRow u ds ∧ r.1 = data ++ [d] ++ ds) (fun t' => ?_))).weaken ?_
        · by_cases h1 : s = "c" ∨ s = "C"
          · simp only [h1, if_true]
            cases hdr[idx]? with
            | some name =>
              simp only
              refine (CT.bind (ct_recordC name i) (fun _ => ih (data ++ [.c]) (idx + 1))).weaken ?_
              rintro u rem r ⟨u1, _, u2, rfl, rfl, ds, hR, hr⟩
              exact ⟨.c, by simp, ds, by simpa using hR, hr⟩
            | none =>
              refine (ih (data ++ [.c]) (idx + 1)).weaken ?_
              rintro u rem r ⟨ds, hR, hr⟩
              exact ⟨.c, by simp, ds, hR, hr⟩
          · simp only [h1, if_false]
            by_cases h2 : s = "x" ∨ s = "X"
            · simp only [h2, if_true]
              refine (ih (data ++ [.x]) (idx + 1)).weaken ?_
              rintro u rem r ⟨ds, hR, hr⟩
              exact ⟨.x, by simp, ds, hR, hr⟩
            · simp only [h2, if_false]
              by_cases h3 : s = "z" ∨ s = "Z"
              · simp only [h3, if_true]
                refine (ih (data ++ [.z]) (idx + 1)).weaken ?_
                rintro u rem r ⟨ds, hR, hr⟩
                exact ⟨.z, by simp, ds, hR, hr⟩
              · simp only [h3, if_false]; exact CT.fail _ _ _
        · rintro u rem r ⟨u1, i, u2, rfl, rfl, u3, t', u4, rfl, rfl, d, hd', ds, hR, hr⟩ hd
          have : t' = .ident s := by simpa using hd
          subst this
          have hE' : DEntry [.ident s] d := by
            rcases hd' with ⟨h, rfl⟩ | ⟨h, rfl⟩ | ⟨h, rfl⟩
            · exact DEntry.c s h
            · exact DEntry.x s h
            · exact DEntry.z s h
          refine ⟨d :: ds, ?_, by simp [hr]⟩
          have := DRow.cons _ _ _ _ hE' hR
          simpa using this
      · -- number
        refine (CT.bind ct_parseNumber (fun n => ih (data ++ [.num n]) (idx + 1))).weaken ?_
        rintro u rem r ⟨u1, n, u2, rfl, rfl, ds, hR, hr⟩ _
        refine ⟨.num n :: ds, ?_, by simp [hr]⟩
        have := DRow.cons _ _ _ _ (DEntry.num n) hR
        simpa using this
      · refine (CT.pure _).weaken ?_
        rintro u rem r ⟨rfl, rfl⟩ _
        exact ⟨[], DRow.nil, by simp⟩
      · refine (CT.pure _).weaken ?_
        rintro u rem r ⟨rfl, rfl⟩ _
        exact ⟨[], DRow.nil, by simp⟩
      · exact ct_getFail _ _
    · rintro u rem e ⟨u1, tk, u2, rfl, ⟨rfl, hd⟩, h2⟩
      exact h2 (by simpa using hd)

theorem parseRowD (hdr : List String) (f : Nat) : CT (parseRow hdr f) (fun u _ d => DRow u d) := by
  unfold parseRow
  refine (CT.bind ct_peekPos (fun a => CT.bind (rowLoopD hdr f [] 0)
    (D2 := fun r u rem d => u = [] ∧ d = r.1) (fun r => ?_))).weaken ?_
  · obtain ⟨data, idx⟩ := r
    simp only
    refine (CT.bind ct_peekPos (D2 := fun _ u rem d => u = [] ∧ d = data) (fun b => ?_)).weaken ?_
    · by_cases hi : (idx != hdr.length) = true
      · simp only [hi, if_true]; exact CT.fail _ _ _
      · simp only [hi, if_false]; exact CT.pure _
    · rintro u rem d ⟨u1, _, u2, rfl, rfl, rfl, rfl⟩
      exact ⟨rfl, rfl⟩
  · rintro u rem d ⟨u1, _, u2, rfl, rfl, u3, r, u4, rfl, ⟨ds, hR, hr⟩, rfl, rfl⟩
    simp only [List.nil_append] at hr
    rw [hr]; simpa using hR

/-! ### statements and blocks -/

/-- what one pass through `parse_stmt_block`'s `match` has consumed -/
def SD (e : Option Kind) (u rem : List ATok) : StmtOut → Prop
  | .pushed s => DStmt u (some s)
  | .nothing => (u = [] ∧ rem.head? = some (.sym .Eol)) ∨ DStmt u none
  | .closed => (∃ k, e = some k ∧ u = [.sym .End, .sym k]) ∨ (e = none ∧ u = [.sym .Eof])

/-- what a block is, by kind: a nested block up to its `end <kind>`, or the body of the test -/
def BD : Option Kind → List ATok → List Stmt → Prop
  | some k => DNested k
  | none => DTop

theorem BD.blank {e : Option Kind} {rest : List ATok} {b : List Stmt} (h : BD e rest b) : BD e (.sym .Eol :: rest) b := by
  cases e with
  | some k => exact DNested.blank k rest b h
  | none => exact DTop.blank rest b h

theorem BD.stmt {e : Option Kind} {ts : List ATok} {s : Stmt} {rest : List ATok} {b : List Stmt}
    (hs : DStmt ts (some s)) (h : BD e rest b) : BD e (ts ++ .sym .Eol :: rest) (s :: b) := by
  cases e with
  | some k => exact DNested.stmt k ts s rest b hs h
  | none => exact DTop.stmt ts s rest b hs h

theorem BD.decl {e : Option Kind} {ts : List ATok} {rest : List ATok} {b : List Stmt}
    (hs : DStmt ts none) (h : BD e rest b) : BD e (ts ++ .sym .Eol :: rest) b := by
  cases e with
  | some k => exact DNested.decl k ts rest b hs h
  | none => exact DTop.decl ts rest b hs h

structure BlockD (hdr : List String) (f : Nat) : Prop where
  stmt : ∀ e, CT (parseStmt hdr f e) (SD e)
  block : ∀ e acc, CT (parseBlock hdr f e acc) (fun u _ r => ∃ b, r = acc ++ b ∧ BD e u b)

theorem blockD (hdr : List String) : ∀ f, BlockD hdr f := by
  intro f
  induction f with
  | zero => exact ⟨fun _ => CT.fuel _, fun _ _ => CT.fuel _⟩
  | succ f ih =>
    have hE := exprD f
    refine ⟨?_, ?_⟩
    · -- parseStmt
      intro e
      simp only [parseStmt]
      refine (CT.bind (D2 := fun tk u rem out => (u ++ rem).head? = some tk → SD e u rem out) ct_peek (fun tk => ?_)).weaken ?_
      · cases hs : startsRow tk with
        | true =>
          simp only [if_true]
          refine (CT.bind (parseRowD hdr f) (fun data => CT.bind ct_getLine (fun line =>
            CT.pure (StmtOut.pushed (.row data line))))).weaken ?_
          rintro u rem out ⟨u1, data, u2, rfl, hR, u3, line, u4, rfl, rfl, rfl, rfl⟩ _
          simpa [SD] using DStmt.row u1 data line hR
        | false =>
          simp only [Bool.false_eq_true, if_false]
          split
          · -- loop
            refine (CT.bind ct_skip (fun _ => CT.bind (ct_expect .LParen) (fun _ => CT.bind ct_expectIdent
              (D2 := fun vi u _ out => ∃ te max tb body, u = .sym .Comma :: (te ++ .sym .RParen :: .sym .Eol :: tb) ∧
                DExpr te max ∧ DNested .Loop tb body ∧ out = StmtOut.pushed (.loop vi.1 max body)) (fun vi => ?_)))).weaken ?_
            · obtain ⟨v, vp⟩ := vi
              simp only
              refine (CT.bind (ct_expect .Comma) (fun _ => CT.bind hE.expr (fun max => CT.bind (ct_expect .RParen) (fun _ =>
                CT.bind (ct_expect .Eol) (fun _ => CT.bind (ct_modVars _) (fun _ =>
                CT.bind (ih.block (some .Loop) []) (fun inner => CT.bind (ct_modVars _) (fun _ =>
                CT.pure (StmtOut.pushed (.loop v max inner)))))))))).weaken ?_
              rintro u rem out ⟨u7, _, u8, rfl, rfl, u9, max, u10, rfl, hX, u11, _, u12, rfl, rfl, u13, _, u14, rfl, rfl,
                u15, _, u16, rfl, rfl, u17, inner, u18, rfl, ⟨b, hb, hB⟩, u19, _, u20, rfl, rfl, rfl, rfl⟩
              simp only [List.nil_append] at hb
              subst hb
              exact ⟨u9, max, u17, inner, by simp, hX, hB, rfl⟩
            · rintro u rem out ⟨u1, _, u2, rfl, ⟨t', rfl⟩, u3, _, u4, rfl, rfl, u5, vi, u6, rfl, rfl,
                te, max, tb, body, rfl, hX, hB, rfl⟩ hd
              have : t' = .sym .Loop := by simpa using hd
              subst this
              have := DStmt.loop vi.1 te max tb body hX hB
              simpa [SD] using this
          · -- repeat
            refine (CT.bind ct_skip (fun _ => CT.bind (ct_expect .LParen) (fun _ => CT.bind hE.expr (fun max =>
              CT.bind (ct_expect .RParen) (fun _ => CT.bind (ct_modVars _) (fun _ => CT.bind (parseRowD hdr f) (fun data =>
              CT.bind (ct_modVars _) (fun _ => CT.bind ct_getLine (fun line =>
              CT.pure (StmtOut.pushed (.loop "n" max [.row data line]))))))))))).weaken ?_
            rintro u rem out ⟨u1, _, u2, rfl, ⟨t', rfl⟩, u3, _, u4, rfl, rfl, u5, max, u6, rfl, hX, u7, _, u8, rfl, rfl,
              u9, _, u10, rfl, rfl, u11, data, u12, rfl, hR, u13, _, u14, rfl, rfl, u15, line, u16, rfl, rfl, rfl, rfl⟩ hd
            have : t' = .sym .Repeat := by simpa using hd
            subst this
            have := DStmt.repeat u5 max u11 data line hX hR
            simpa [SD] using this
          · -- let
            refine (CT.bind ct_skip (fun _ => CT.bind ct_expectIdent
              (D2 := fun vi u _ out => ∃ te ex, u = .sym .Equal :: (te ++ [.sym .Semi]) ∧ DExpr te ex ∧
                out = StmtOut.pushed (.letS vi.1 ex)) (fun vi => ?_))).weaken ?_
            · obtain ⟨v, vp⟩ := vi
              simp only
              refine (CT.bind (ct_expect .Equal) (fun _ => CT.bind hE.expr (fun ex => CT.bind (ct_expect .Semi) (fun _ =>
                CT.bind (ct_modVars _) (fun _ => CT.pure (StmtOut.pushed (.letS v ex))))))).weaken ?_
              rintro u rem out ⟨u5, _, u6, rfl, rfl, u7, ex, u8, rfl, hX, u9, _, u10, rfl, rfl, u11, _, u12, rfl, rfl, rfl, rfl⟩
              exact ⟨u7, ex, by simp, hX, rfl⟩
            · rintro u rem out ⟨u1, _, u2, rfl, ⟨t', rfl⟩, u3, vi, u4, rfl, rfl, te, ex, rfl, hX, rfl⟩ hd
              have : t' = .sym .Let := by simpa using hd
              subst this
              have := DStmt.letS vi.1 te ex hX
              simpa [SD] using this
          · -- resetRandom
            refine (CT.bind ct_skip (fun _ => CT.bind (ct_expect .Semi) (fun _ =>
              CT.pure (StmtOut.pushed .resetRandom)))).weaken ?_
            rintro u rem out ⟨u1, _, u2, rfl, ⟨t', rfl⟩, u3, _, u4, rfl, rfl, rfl, rfl⟩ hd
            have : t' = .sym .ResetRandom := by simpa using hd
            subst this
            simpa [SD] using DStmt.reset
          · -- while
            refine (CT.bind ct_skip (fun _ => CT.bind (ct_expect .LParen) (fun _ => CT.bind hE.expr (fun cond =>
              CT.bind (ct_expect .RParen) (fun _ => CT.bind (ct_expect .Eol) (fun _ =>
              CT.bind (ih.block (some .While) []) (fun inner =>
              CT.pure (StmtOut.pushed (.while cond inner))))))))).weaken ?_
            rintro u rem out ⟨u1, _, u2, rfl, ⟨t', rfl⟩, u3, _, u4, rfl, rfl, u5, cond, u6, rfl, hX, u7, _, u8, rfl, rfl,
              u9, _, u10, rfl, rfl, u11, inner, u12, rfl, ⟨b, hb, hB⟩, rfl, rfl⟩ hd
            have : t' = .sym .While := by simpa using hd
            subst this
            simp only [List.nil_append] at hb
            subst hb
            have := DStmt.while u5 cond u11 inner hX hB
            simpa [SD] using this
          · -- declare
            refine (CT.bind ct_peekPos (fun start => CT.bind ct_skip (fun _ => CT.bind ct_expectIdent
              (D2 := fun vi u _ out => ∃ te ex, u = .sym .Equal :: (te ++ [.sym .Semi]) ∧ DExpr te ex ∧
                out = StmtOut.nothing) (fun vi => ?_)))).weaken ?_
            · obtain ⟨v, vp⟩ := vi
              simp only
              refine (CT.bind (ct_expect .Equal) (fun _ => CT.bind ct_getVars (fun saved => CT.bind (ct_modVars _) (fun _ =>
                CT.bind hE.expr (fun ex => CT.bind (ct_modVars _) (fun _ => CT.bind (ct_expect .Semi) (fun _ =>
                CT.bind ct_peekPos (fun stop => ct_declareVirt v start stop ex)))))))).weaken ?_
              rintro u rem out ⟨u5, _, u6, rfl, rfl, u7, _, u8, rfl, rfl, u9, _, u10, rfl, rfl, u11, ex, u12, rfl, hX,
                u13, _, u14, rfl, rfl, u15, _, u16, rfl, rfl, u17, _, u18, rfl, rfl, rfl, rfl⟩
              exact ⟨u11, ex, by simp, hX, rfl⟩
            · rintro u rem out ⟨u0, _, u0', rfl, rfl, u1, _, u2, rfl, ⟨t', rfl⟩, u3, vi, u4, rfl, rfl, te, ex, rfl, hX, rfl⟩ hd
              have : t' = .sym .Declare := by simpa using hd
              subst this
              have := DStmt.declare vi.1 te ex hX
              simp only [SD]
              right
              simpa using this
          · -- end
            cases e with
            | some k =>
              simp only
              refine (CT.bind ct_skip (fun _ => CT.bind (ct_expect k) (fun _ => CT.pure StmtOut.closed))).weaken ?_
              rintro u rem out ⟨u1, _, u2, rfl, ⟨t', rfl⟩, u3, _, u4, rfl, rfl, rfl, rfl⟩ hd
              have : t' = .sym .End := by simpa using hd
              subst this
              simp [SD]
            | none => simp only; exact ct_getFail _ _
          · -- Eof
            refine (CT.bind ct_curPos (fun i => CT.bind ct_get
              (D2 := fun _ u rem out => u = [] ∧ e = none ∧ out = StmtOut.closed) (fun t' => ?_))).weaken ?_
            · cases e with
              | some k => simp only [Option.isSome_some, if_true]; exact CT.fail _ _ _
              | none =>
                simp only [Option.isSome_none, Bool.false_eq_true, if_false]
                refine (CT.pure _).weaken ?_
                rintro u rem out ⟨rfl, rfl⟩
                exact ⟨rfl, by simp, rfl⟩
            · rintro u rem out ⟨u1, i, u2, rfl, rfl, u3, t', u4, rfl, rfl, rfl, he, rfl⟩ hd
              have : t' = .sym .Eof := by simpa using hd
              subst this
              simp [SD, he]
          · -- Eol
            refine (CT.pure _).weaken ?_
            rintro u rem out ⟨rfl, rfl⟩ hd
            simp only [SD]
            left
            exact ⟨by simp, by simpa using hd⟩
          · -- other fixed spellings
            split
            · exact ct_getFail _ _
            · exact ct_getFail _ _
          · exact ct_getFail _ _
      · rintro u rem out ⟨u1, tk, u2, rfl, ⟨rfl, hd⟩, h2⟩
        exact h2 (by simpa using hd)
    · -- parseBlock
      intro e acc
      simp only [parseBlock]
      have cont : ∀ (b0 : List Stmt),
          CT (do
              if (← atTok .Eof) then
                if e.isSome then do
                  let i ← curPos
                  let _ ← getTok
                  failP "UnexpectedEof" [.tok i]
                else pure b0
              else if (← atTok .Eol) then do
                skipTok
                parseBlock hdr f e b0
              else do
                let i ← curPos
                let _ ← getTok
                failP "ExpectedNewLine" [.tok i])
            (fun u rem r => (e = none ∧ u = [] ∧ r = b0 ∧ rem.head? = some (.sym .Eof)) ∨
              ∃ rest b, u = .sym .Eol :: rest ∧ r = b0 ++ b ∧ BD e rest b) := by
        intro b0
        refine (CT.bind (ct_at .Eof) (D2 := fun x u _ r => (x = true ∧ e = none ∧ u = [] ∧ r = b0) ∨
          ∃ rest b, u = .sym .Eol :: rest ∧ r = b0 ++ b ∧ BD e rest b) (fun x => ?_)).weaken ?_
        · cases x with
          | true =>
            simp only [if_true]
            cases e with
            | some k => simp only [Option.isSome_some, if_true]; exact ct_getFail _ _
            | none =>
              simp only [Option.isSome_none, Bool.false_eq_true, if_false]
              refine (CT.pure _).weaken ?_
              rintro u rem r ⟨rfl, rfl⟩
              exact Or.inl ⟨by simp, by simp, rfl, rfl⟩
          | false =>
            simp only [Bool.false_eq_true, if_false]
            refine (CT.bind (ct_at .Eol) (D2 := fun y u _ r => y = true ∧
              ∃ t rest b, u = t :: rest ∧ r = b0 ++ b ∧ BD e rest b) (fun y => ?_)).weaken ?_
            · cases y with
              | true =>
                simp only [if_true]
                refine (CT.bind ct_skip (fun _ => ih.block e b0)).weaken ?_
                rintro u rem r ⟨u1, _, u2, rfl, ⟨t, rfl⟩, b, rfl, hB⟩
                exact ⟨by simp, t, u2, b, by simp, rfl, hB⟩
              | false =>
                simp only [Bool.false_eq_true, if_false]
                exact ct_getFail _ _
            · rintro u rem r ⟨u1, y, u2, rfl, ⟨rfl, hat⟩, hy, t, rest, b, rfl, rfl, hB⟩
              have ht : t = .sym .Eol := by
                have := hat hy
                simpa using this
              subst ht
              exact Or.inr ⟨rest, b, by simp, rfl, hB⟩
        · rintro u rem r ⟨u1, x, u2, rfl, ⟨rfl, hat⟩, h⟩
          rcases h with ⟨hx, he, rfl, hr⟩ | h
          · exact Or.inl ⟨he, rfl, hr, by simpa using hat hx⟩
          · exact Or.inr (by simpa using h)
      refine (CT.bind (ih.stmt e) (D2 := fun out u rem r =>
          match out with
          | .closed => u = [] ∧ r = acc
          | .pushed s => (e = none ∧ u = [] ∧ r = acc ++ [s] ∧ rem.head? = some (.sym .Eof)) ∨
              ∃ rest b, u = .sym .Eol :: rest ∧ r = acc ++ [s] ++ b ∧ BD e rest b
          | .nothing => (e = none ∧ u = [] ∧ r = acc ∧ rem.head? = some (.sym .Eof)) ∨
              ∃ rest b, u = .sym .Eol :: rest ∧ r = acc ++ b ∧ BD e rest b)
        (fun out => ?_)).weaken ?_
      · cases out with
        | closed => exact CT.pure acc
        | pushed s => exact cont (acc ++ [s])
        | nothing => exact cont acc
      · rintro u rem r ⟨u1, out, u2, rfl, hS, hC⟩
        cases out with
        | closed =>
          obtain ⟨rfl, rfl⟩ := hC
          refine ⟨[], by simp, ?_⟩
          simp only [SD] at hS
          rcases hS with ⟨k, rfl, hu⟩ | ⟨rfl, hu⟩
          · simp only [List.append_nil, hu]; exact DNested.close k
          · simp only [List.append_nil, hu]; exact DTop.eof
        | pushed s =>
          simp only [SD] at hS
          rcases hC with ⟨rfl, rfl, rfl, _⟩ | ⟨rest, b, rfl, rfl, hB⟩
          · refine ⟨[s], rfl, ?_⟩
            simp only [List.append_nil]
            exact DTop.lastStmt u1 s hS
          · exact ⟨s :: b, by simp, BD.stmt hS hB⟩
        | nothing =>
          simp only [SD] at hS
          rcases hC with ⟨rfl, rfl, rfl, hEof⟩ | ⟨rest, b, rfl, rfl, hB⟩
          · rcases hS with ⟨rfl, hd⟩ | hS
            · -- at an `Eol` the test for `Eof` is false
              simp only [List.nil_append] at hd
              rw [hd] at hEof; cases hEof
            · refine ⟨[], by simp, ?_⟩
              simp only [List.append_nil]
              exact DTop.lastDecl u1 hS
          · rcases hS with ⟨rfl, _⟩ | hS
            · exact ⟨b, rfl, by simpa using BD.blank hB⟩
            · exact ⟨b, rfl, BD.decl hS hB⟩

end Dtr
