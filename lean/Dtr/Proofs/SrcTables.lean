import Dtr.Model.Parser
import Dtr.Generated.Tables
/-!
# The model's finite tables against the tables translated from the source

`Dtr/Generated/Tables.lean` is regenerated from `/repo`'s working tree on every run
(`tools/gen_tables.py`).  The obligations below are re-checked by the kernel against what the source
says *now*: a changed spelling, a changed relative precedence, a changed function table break them.
They compare by spelling only (variant names do not matter) and precedences by their *order* only
(the numbers do not matter).  A table the translator could not read is `none` and its obligation
holds vacuously: the exhaustive table comparison through the hooks is then the only tie, as before.
-/
namespace Dtr

/-- the binary operator a fixed spelling denotes in the model: `literals`, then `binOpOf` -/
def binOpOfSpelling (s : String) : Option BinOp :=
  match literals.find? (fun kl => kl.2 == s.toList) with
  | some kl => binOpOf (.sym kl.1)
  | none => none

def allBinOps : List BinOp :=
  [.eq, .ne, .gt, .lt, .ge, .le, .or, .xor, .and, .shl, .shr, .add, .sub, .mul, .div, .rem]

/-- the model's fixed spellings are exactly the `#[token("…")]` attributes of the source -/
def tokenSpellingsOK : Bool :=
  match Src.tokenSpellings with
  | none => true
  | some t =>
    literals.all (fun kl => t.any (fun s => s.toList == kl.2)) &&
    t.all (fun s => literals.any (fun kl => kl.2 == s.toList)) &&
    t.length == literals.length

/-- every operator token of the source denotes an operator of the model, every operator of the model is
denoted by one, and the model's precedences are ordered exactly as the source's -/
def binopPrecedenceOK : Bool :=
  match Src.binopPrecedence with
  | none => true
  | some t =>
    t.all (fun e => (binOpOfSpelling e.1).isSome) &&
    allBinOps.all (fun o => t.any (fun e => binOpOfSpelling e.1 == some o)) &&
    t.all (fun a => t.all (fun b =>
      match binOpOfSpelling a.1, binOpOfSpelling b.1 with
      | some oa, some ob => (decide (oa.prec < ob.prec) == decide (a.2 < b.2)) && (decide (oa.prec = ob.prec) == decide (a.2 = b.2))
      | _, _ => false))

/-- the unary operator a fixed spelling denotes in the model -/
def unOpOfSpelling (s : String) : Option UnOp :=
  match literals.find? (fun kl => kl.2 == s.toList) with
  | some kl => unOpOf (.sym kl.1)
  | none => none

/-- the tokens the source maps to unary operators are the model's three, and no fixed spelling besides them is one -/
def unaryOperatorsOK : Bool :=
  match Src.unaryOperators with
  | none => true
  | some t =>
    t.all (fun s => (unOpOfSpelling s).isSome) &&
    literals.all (fun kl => (unOpOf (.sym kl.1)).isSome == t.any (fun s => s.toList == kl.2))

/-- the model's function table is the source's `FUNC_TABLE` -/
def funcTableOK : Bool :=
  match Src.funcTable with
  | none => true
  | some t =>
    t.all (fun e => funcArity e.1 == some e.2) &&
    ["random", "ite", "signExt"].all (fun n => t.any (fun e => e.1 == n)) &&
    t.length == 3

theorem tokenSpellings_from_source : tokenSpellingsOK = true := by decide +kernel
theorem binopPrecedence_from_source : binopPrecedenceOK = true := by decide +kernel
theorem funcTable_from_source : funcTableOK = true := by decide +kernel
theorem unaryOperators_from_source : unaryOperatorsOK = true := by decide +kernel

end Dtr
