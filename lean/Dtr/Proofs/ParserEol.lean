import Dtr.Model.Parser
/-!
# An extra `Eol` token behind an `Eol` (an inserted blank or comment-only line) does not change the parse

A relational pass over the parser model: two runs of the same function, on two states whose token
lists are related, have related outcomes — both succeed with results that are equal up to the `line`
fields (and related states), or neither succeeds.  (Nothing is claimed when a run is out of fuel;
`C09_terminates` rules that out for `parseTest`.)

Token-list relations:
* `TA`: the same tokens (the two runs differ in position, line counter and recorded token indices only);
* `TB`: the second list has one extra `Eol` somewhere ahead, directly behind an `Eol`;
* `TP`: the extra `Eol` is the very next token of the second run.
-/
namespace Dtr

mutual
/-- forget the line numbers -/
def Stmt.erase : Stmt → Stmt
  | .row d _ => .row d 0
  | .loop v m b => .loop v m (Stmts.erase b)
  | .while c b => .while c (Stmts.erase b)
  | .letS n e => .letS n e
  | .resetRandom => .resetRandom
def Stmts.erase : List Stmt → List Stmt
  | [] => []
  | s :: ss => s.erase :: Stmts.erase ss
end

theorem Stmts.erase_append : ∀ (a : List Stmt) (s : Stmt), Stmts.erase (a ++ [s]) = Stmts.erase a ++ [s.erase]
  | [], s => by simp [Stmts.erase]
  | x :: xs, s => by simp [Stmts.erase, Stmts.erase_append xs s]

def OutEq : StmtOut → StmtOut → Prop
  | .pushed s, .pushed s' => s.erase = s'.erase
  | .nothing, .nothing => True
  | .closed, .closed => True
  | _, _ => False

/-- everything but tokens, position and line that the parser's decisions depend on -/
structure Sim0 (st st' : PState) : Prop where
  vars : st'.vars = st.vars
  reads : st'.reads.map (·.1) = st.reads.map (·.1)
  expIn : st'.expIn.map (·.1) = st.expIn.map (·.1)
  virt : st'.virt.map (fun v => (v.1, v.2.2)) = st.virt.map (fun v => (v.1, v.2.2))

def Rel2 {α α' : Type} (r : PRes α) (r' : PRes α') (Q : α → α' → PState → PState → Prop) : Prop :=
  match r with
  | .fuel => True
  | .ok a s =>
    match r' with
    | .fuel => True
    | .ok a' s' => Q a a' s s'
    | _ => False
  | _ =>
    match r' with
    | .ok _ _ => False
    | _ => True

@[simp] theorem Rel2_ok_ok {α α'} (a : α) (a' : α') (s s') (Q) : Rel2 (.ok a s) (.ok a' s') Q = Q a a' s s' := rfl
@[simp] theorem Rel2_fuel_l {α α'} (r' : PRes α') (Q : α → α' → PState → PState → Prop) : Rel2 (.fuel : PRes α) r' Q = True := rfl
@[simp] theorem Rel2_fuel_r {α α'} (r : PRes α) (Q : α → α' → PState → PState → Prop) : Rel2 r (.fuel : PRes α') Q = True := by
  cases r <;> rfl
@[simp] theorem Rel2_err_err {α α'} (t l t' l') (Q : α → α' → PState → PState → Prop) :
    Rel2 (.err t l : PRes α) (.err t' l' : PRes α') Q = True := rfl
@[simp] theorem Rel2_panic_panic {α α'} (m m') (Q : α → α' → PState → PState → Prop) :
    Rel2 (.panic m : PRes α) (.panic m' : PRes α') Q = True := rfl
@[simp] theorem Rel2_err_panic {α α'} (t l m') (Q : α → α' → PState → PState → Prop) :
    Rel2 (.err t l : PRes α) (.panic m' : PRes α') Q = True := rfl
@[simp] theorem Rel2_panic_err {α α'} (m t' l') (Q : α → α' → PState → PState → Prop) :
    Rel2 (.panic m : PRes α) (.err t' l' : PRes α') Q = True := rfl

def RT {α α' : Type} (P : PState → PState → Prop) (m : PM α) (m' : PM α') (Q : α → α' → PState → PState → Prop) : Prop :=
  ∀ st st', P st st' → Rel2 (m st) (m' st') Q

theorem Rel2.mono {α α'} {r : PRes α} {r' : PRes α'} {Q Q' : α → α' → PState → PState → Prop}
    (h : Rel2 r r' Q) (hq : ∀ a a' s s', Q a a' s s' → Q' a a' s s') : Rel2 r r' Q' := by
  cases r <;> cases r' <;> simp_all [Rel2]

theorem RT.bind {α α' β β' : Type} {P} {Q : α → α' → PState → PState → Prop} {S : β → β' → PState → PState → Prop}
    {m : PM α} {m' : PM α'} {f : α → PM β} {f' : α' → PM β'}
    (hm : RT P m m' Q) (hf : ∀ a a', RT (Q a a') (f a) (f' a') S) : RT P (m >>= f) (m' >>= f') S := by
  intro st st' hp
  have := hm st st' hp
  show Rel2 (PM.bind m f st) (PM.bind m' f' st') S
  unfold PM.bind
  cases h : m st <;> cases h' : m' st' <;> simp_all [Rel2]
  · exact hf _ _ _ _ this
  · split <;> trivial

theorem RT.pure {α α' : Type} {P} {Q : α → α' → PState → PState → Prop} (a : α) (a' : α')
    (h : ∀ st st', P st st' → Q a a' st st') : RT P (pure a : PM α) (pure a' : PM α') Q :=
  fun st st' hp => h st st' hp

theorem RT.fail {α α' : Type} {P} {Q : α → α' → PState → PState → Prop} (t l t' l') :
    RT P (failP t l : PM α) (failP t' l' : PM α') Q := fun _ _ _ => trivial

theorem RT.fuelL {α α' : Type} {P} {Q : α → α' → PState → PState → Prop} (m' : PM α') :
    RT P (fuelOut : PM α) m' Q := fun _ _ _ => trivial

theorem RT.fuelR {α α' : Type} {P} {Q : α → α' → PState → PState → Prop} (m : PM α) :
    RT P m (fuelOut : PM α') Q := fun st st' _ => by simp [fuelOut]

theorem RT.weaken {α α' : Type} {P P'} {Q Q' : α → α' → PState → PState → Prop} {m : PM α} {m' : PM α'}
    (h : RT P m m' Q) (hp : ∀ st st', P' st st' → P st st') (hq : ∀ a a' s s', Q a a' s s' → Q' a a' s s') :
    RT P' m m' Q' := fun st st' hp' => (h st st' (hp st st' hp')).mono hq

/-- a fact that does not mention the states moves into the context -/
theorem RT.assume {α α' : Type} {P} {Q : α → α' → PState → PState → Prop} {m : PM α} {m' : PM α'} {A : Prop}
    (h : A → RT P m m' Q) : RT (fun st st' => P st st' ∧ A) m m' Q := fun st st' hp => h hp.2 st st' hp.1

/-! ### relations on the remaining tokens -/

structure TokRel (T : List ATok → List ATok → Prop) : Prop where
  head : ∀ {a b}, T a b → a.head? = b.head?
  step : ∀ {t ts ts'}, T (t :: ts) (t :: ts') → t ≠ .sym .Eol → T ts ts'

def TA (a b : List ATok) : Prop := b = a
def TB (a b : List ATok) : Prop :=
  ∃ pre suf, pre ≠ [] ∧ pre.getLast? = some (.sym .Eol) ∧ a = pre ++ suf ∧ b = pre ++ .sym .Eol :: suf
def TP (a b : List ATok) : Prop := b = .sym .Eol :: a

theorem tokRel_TA : TokRel TA := ⟨fun h => by rw [h], fun h _ => by simpa [TA] using h⟩

theorem TB.cons {t : ATok} {ts ts' : List ATok} (h : TB (t :: ts) (t :: ts')) :
    (t ≠ .sym .Eol → TB ts ts') ∧ (TB ts ts' ∨ TP ts ts') := by
  obtain ⟨pre, suf, hne, hl, ha, hb⟩ := h
  cases pre with
  | nil => exact absurd rfl hne
  | cons p pre' =>
    simp only [List.cons_append, List.cons.injEq] at ha hb
    obtain ⟨rfl, rfl⟩ := ha
    obtain ⟨_, rfl⟩ := hb
    cases pre' with
    | nil =>
      simp at hl
      subst hl
      exact ⟨fun h => absurd rfl h, Or.inr (by simp [TP])⟩
    | cons q pre'' =>
      have hl' : (q :: pre'').getLast? = some (.sym .Eol) := by simpa [List.getLast?_cons_cons] using hl
      have : TB (q :: pre'' ++ suf) (q :: pre'' ++ .sym .Eol :: suf) := ⟨q :: pre'', suf, by simp, hl', rfl, rfl⟩
      exact ⟨fun _ => this, Or.inl this⟩

theorem tokRel_TB : TokRel TB :=
  ⟨fun h => by
      obtain ⟨pre, suf, hne, _, ha, hb⟩ := h
      cases pre with
      | nil => exact absurd rfl hne
      | cons p pre' => rw [ha, hb]; rfl,
   fun h hne => (TB.cons h).1 hne⟩

/-- the relation on states: related tokens, similar otherwise -/
def R (T : List ATok → List ATok → Prop) (st st' : PState) : Prop := T st.toks st'.toks ∧ Sim0 st st'

variable {T : List ATok → List ATok → Prop}

/-! ### primitives -/

theorem heads {a b : List ATok} {t : ATok} (h : a.head? = b.head?) (ha : a.head? = some t) :
    ∃ ts ts', a = t :: ts ∧ b = t :: ts' := by
  cases a with
  | nil => simp at ha
  | cons x xs =>
    cases b with
    | nil => simp at h
    | cons y ys =>
      simp only [List.head?_cons, Option.some.injEq] at h ha
      subst ha; subst h
      exact ⟨xs, ys, rfl, rfl⟩

theorem r_peek (hT : TokRel T) :
    RT (R T) peekTok peekTok (fun t t' s s' => (R T s s' ∧ s.toks.head? = some t) ∧ t' = t) := by
  intro st st' h
  have hh := hT.head h.1
  unfold peekTok
  cases h1 : st.toks with
  | nil =>
    cases h2 : st'.toks with
    | nil => simp
    | cons y ys => rw [h1, h2] at hh; simp at hh
  | cons x xs =>
    cases h2 : st'.toks with
    | nil => rw [h1, h2] at hh; simp at hh
    | cons y ys =>
      rw [h1, h2] at hh
      simp only [List.head?_cons, Option.some.injEq] at hh
      simp only [Rel2_ok_ok]
      exact ⟨⟨h, by rw [h1]; rfl⟩, hh.symm⟩

theorem r_peekPos (hT : TokRel T) {P : PState → PState → Prop} (hP : ∀ s s', P s s' → R T s s') :
    RT P peekPos peekPos (fun _ _ s s' => P s s') := by
  intro st st' h0
  have h := hP _ _ h0
  have hh := hT.head h.1
  unfold peekPos
  cases h1 : st.toks with
  | nil =>
    cases h2 : st'.toks with
    | nil => simp
    | cons y ys => rw [h1, h2] at hh; simp at hh
  | cons x xs =>
    cases h2 : st'.toks with
    | nil => rw [h1, h2] at hh; simp at hh
    | cons y ys => simp only [Rel2_ok_ok]; exact h0

theorem r_curPos {P : PState → PState → Prop} : RT P curPos curPos (fun _ _ s s' => P s s') := fun _ _ h => h
theorem r_getLine {P : PState → PState → Prop} : RT P getLine getLine (fun _ _ s s' => P s s') := fun _ _ h => h

theorem sim0_get {st st' : PState} (h : Sim0 st st') (ts ts' : List ATok) (p p' l l' : Nat) :
    Sim0 { st with toks := ts, pos := p, line := l } { st' with toks := ts', pos := p', line := l' } :=
  ⟨h.vars, h.reads, h.expIn, h.virt⟩

/-- `get`: both runs see the same token; unless it is an `Eol` the states stay related -/
theorem r_get (hT : TokRel T) :
    RT (R T) getTok getTok (fun a a' s s' => (a ≠ .sym .Eol → R T s s') ∧ a' = a) := by
  intro st st' h
  have hh := hT.head h.1
  unfold getTok
  cases h1 : st.toks with
  | nil =>
    cases h2 : st'.toks with
    | nil => simp
    | cons y ys => rw [h1, h2] at hh; simp at hh
  | cons x xs =>
    cases h2 : st'.toks with
    | nil => rw [h1, h2] at hh; simp at hh
    | cons y ys =>
      rw [h1, h2] at hh
      simp only [List.head?_cons, Option.some.injEq] at hh
      subst hh
      simp only [Rel2_ok_ok, and_true]
      intro hne
      have hT' := h.1
      rw [h1, h2] at hT'
      exact ⟨hT.step hT' hne, sim0_get h.2 _ _ _ _ _ _⟩

/-- `get` of a token known (from a peek) not to be `Eol` -/
theorem r_get_known (hT : TokRel T) (t : ATok) (hne : t ≠ .sym .Eol) :
    RT (fun s s' => R T s s' ∧ s.toks.head? = some t) getTok getTok (fun _ _ s s' => R T s s') := by
  intro st st' ⟨h, hd⟩
  have := r_get hT st st' h
  obtain ⟨ts, ts', h1, h2⟩ := heads (hT.head h.1) hd
  simp only [getTok, h1, h2, Rel2_ok_ok, and_true] at this ⊢
  exact this hne

theorem r_skip_known (hT : TokRel T) (t : ATok) (hne : t ≠ .sym .Eol) :
    RT (fun s s' => R T s s' ∧ s.toks.head? = some t) skipTok skipTok (fun _ _ s s' => R T s s') := by
  intro st st' ⟨h, hd⟩
  have := r_get hT st st' h
  obtain ⟨ts, ts', h1, h2⟩ := heads (hT.head h.1) hd
  simp only [skipTok, getTok, h1, h2, Rel2_ok_ok, and_true] at this ⊢
  exact this hne

theorem r_at (hT : TokRel T) (k : Kind) :
    RT (R T) (atTok k) (atTok k) (fun b b' s s' => (R T s s' ∧ (b = true → s.toks.head? = some (.sym k))) ∧ b' = b) := by
  unfold atTok
  refine RT.bind (r_peek hT) (fun t t' => ?_)
  refine RT.pure _ _ ?_
  intro st st' ⟨⟨hr, hd⟩, ht⟩
  subst ht
  refine ⟨⟨hr, fun hb => ?_⟩, rfl⟩
  have : t' = .sym k := by simpa using hb
  rw [hd, this]

theorem r_expect (hT : TokRel T) (k : Kind) (hk : k ≠ .Eol) :
    RT (R T) (expectTok k) (expectTok k) (fun _ _ s s' => R T s s') := by
  unfold expectTok
  refine RT.bind r_curPos (fun i i' => ?_)
  refine RT.bind (r_get hT) (fun t t' => ?_)
  by_cases ht : t = .sym k
  · refine RT.weaken (P := fun s s' => R T s s' ∧ t' = t) (RT.assume (fun h => ?_))
      (fun st st' h => ⟨h.1 (by rw [ht]; simp [hk]), h.2⟩) (fun _ _ _ _ h => h)
    subst h
    simp only [ht, if_true]
    exact RT.pure _ _ (fun _ _ h => h)
  · refine RT.weaken (P := fun _ _ => t' = t) ?_ (fun st st' h => h.2) (fun _ _ _ _ h => h)
    intro st st' h
    subst h
    simp only [ht, if_false]
    trivial

theorem r_expectIdent (hT : TokRel T) :
    RT (R T) expectIdent expectIdent (fun a a' s s' => R T s s' ∧ a'.1 = a.1) := by
  unfold expectIdent
  refine RT.bind r_curPos (fun i i' => ?_)
  refine RT.bind (r_get hT) (fun t t' => ?_)
  intro st st' ⟨hr, ht⟩
  subst ht
  cases t' with
  | ident s => exact ⟨hr (by simp), rfl⟩
  | sym k => trivial
  | num v => trivial

theorem r_parseNumber (hT : TokRel T) :
    RT (R T) parseNumber parseNumber (fun a a' s s' => R T s s' ∧ a' = a) := by
  unfold parseNumber
  refine RT.bind r_curPos (fun i i' => ?_)
  refine RT.bind (r_get hT) (fun t t' => ?_)
  intro st st' ⟨hr, ht⟩
  subst ht
  cases t' with
  | num v =>
    cases v with
    | some x => exact ⟨hr (by simp), rfl⟩
    | none => trivial
  | sym k => trivial
  | ident s => trivial

/-- consume one token and fail at it -/
theorem r_getFail {α α' : Type} (hT : TokRel T) (tag tag' : String) (Q : α → α' → PState → PState → Prop) :
    RT (R T) (do let i ← curPos; let _ ← getTok; failP tag [.tok i] : PM α)
      (do let i ← curPos; let _ ← getTok; failP tag' [.tok i] : PM α') Q := by
  refine RT.bind r_curPos (fun i i' => ?_)
  refine RT.bind (r_get hT) (fun t t' => ?_)
  exact RT.fail _ _ _ _

theorem r_modVars (f : FMap Unit → FMap Unit) :
    RT (R T) (modVars f) (modVars f) (fun _ _ s s' => R T s s') := by
  intro st st' h
  simp only [modVars, Rel2_ok_ok]
  exact ⟨h.1, by simp only [h.2.vars], h.2.reads, h.2.expIn, h.2.virt⟩

theorem r_getVars : RT (R T) getVars getVars (fun a a' s s' => R T s s' ∧ a' = a) := by
  intro st st' h
  simp only [getVars, Rel2_ok_ok]
  exact ⟨h, h.2.vars⟩

theorem any_names {α : Type} (name : String) : ∀ (a b : List (String × α)), b.map (·.1) = a.map (·.1) →
    b.any (fun r => r.1 == name) = a.any (fun r => r.1 == name)
  | [], [], _ => rfl
  | [], _ :: _, h => by simp at h
  | _ :: _, [], h => by simp at h
  | x :: xs, y :: ys, h => by
    simp only [List.map_cons, List.cons.injEq] at h
    simp only [List.any_cons, h.1, any_names name xs ys h.2]

theorem r_recordRead (name : String) (i i' : Nat) :
    RT (R T) (recordRead name i) (recordRead name i') (fun _ _ s s' => R T s s') := by
  intro st st' h
  simp only [recordRead, h.2.vars, any_names name _ _ h.2.reads]
  split
  · exact h
  · split
    · exact h
    · simp only [Rel2_ok_ok]
      exact ⟨h.1, rfl, by simp [h.2.reads], h.2.expIn, h.2.virt⟩

theorem r_recordC (name : String) (i i' : Nat) :
    RT (R T) (recordC name i) (recordC name i') (fun _ _ s s' => R T s s') := by
  intro st st' h
  simp only [recordC, any_names name _ _ h.2.expIn]
  split
  · exact h
  · simp only [Rel2_ok_ok]
    exact ⟨h.1, h.2.vars, h.2.reads, by simp [h.2.expIn], h.2.virt⟩

theorem find_names (name : String) : ∀ (a b : List (String × (Nat × Nat) × Expr)),
    b.map (fun v => (v.1, v.2.2)) = a.map (fun v => (v.1, v.2.2)) →
    (b.find? (fun v => v.1 == name)).isSome = (a.find? (fun v => v.1 == name)).isSome
  | [], [], _ => rfl
  | [], _ :: _, h => by simp at h
  | _ :: _, [], h => by simp at h
  | x :: xs, y :: ys, h => by
    simp only [List.map_cons, List.cons.injEq, Prod.mk.injEq] at h
    simp only [List.find?_cons, h.1.1]
    split
    · rfl
    · exact find_names name xs ys h.2

theorem r_declareVirt (name : String) (a b a' b' : Nat) (e : Expr) :
    RT (R T) (declareVirt name a b e) (declareVirt name a' b' e) (fun o o' s s' => R T s s' ∧ OutEq o o') := by
  intro st st' h
  have := find_names name _ _ h.2.virt
  unfold declareVirt
  cases h1 : st.virt.find? (fun v => v.1 == name) <;> cases h2 : st'.virt.find? (fun v => v.1 == name) <;>
    simp [h1, h2] at this
  · simp only [Rel2_ok_ok]
    exact ⟨⟨h.1, h.2.vars, h.2.reads, h.2.expIn, by simp [h.2.virt]⟩, trivial⟩
  · simp

theorem RT.pre {α α' : Type} {P P'} {Q : α → α' → PState → PState → Prop} {m : PM α} {m' : PM α'}
    (h : RT P m m' Q) (hp : ∀ st st', P' st st' → P st st') : RT P' m m' Q :=
  h.weaken hp (fun _ _ _ _ h => h)

/-! ### expressions -/

def EqR (T : List ATok → List ATok → Prop) {α : Type} (a a' : α) (s s' : PState) : Prop := R T s s' ∧ a' = a

structure ExprR (T : List ATok → List ATok → Prop) (f : Nat) : Prop where
  expr : ∀ g, RT (R T) (parseExpr f) (parseExpr g) (EqR T)
  chain : ∀ g t, RT (R T) (chain f t) (chain g t) (EqR T)
  factor : ∀ g, RT (R T) (parseFactor f) (parseFactor g) (EqR T)
  args : ∀ g acc, RT (fun s s' => R T s s' ∧ (s.toks.head? = some (.sym .LParen) ∨ s.toks.head? = some (.sym .Comma)))
    (parseArgs f acc) (parseArgs g acc) (EqR T)

theorem unOp_ne_eol' {k : Kind} {u : UnOp} (h : unOpOf (.sym k) = some u) : (ATok.sym k) ≠ .sym .Eol := by
  intro e; cases e; simp [unOpOf] at h

theorem binOp_ne_eol' {t : ATok} {o : BinOp} (h : binOpOf t = some o) : t ≠ .sym .Eol := by
  intro e; subst e; simp [binOpOf] at h

theorem exprR (hT : TokRel T) : ∀ f, ExprR T f := by
  intro f
  induction f with
  | zero => exact ⟨fun _ => RT.fuelL _, fun _ _ => RT.fuelL _, fun _ => RT.fuelL _, fun _ _ => RT.fuelL _⟩
  | succ f ih =>
    refine ⟨?_, ?_, ?_, ?_⟩
    · -- parseExpr
      intro g
      cases g with
      | zero => exact RT.fuelR _
      | succ g =>
        simp only [parseExpr]
        refine RT.bind (ih.factor g) (fun first first' => ?_)
        refine RT.assume (fun h => ?_)
        subst h
        exact ih.chain g _
    · -- chain
      intro g t
      cases g with
      | zero => exact RT.fuelR _
      | succ g =>
        simp only [chain]
        refine RT.bind (r_peek hT) (fun tk tk' => ?_)
        refine RT.assume (fun h => ?_)
        subst h
        cases hb : binOpOf tk' with
        | none => exact RT.pure _ _ (fun _ _ h => ⟨h.1, rfl⟩)
        | some o =>
          simp only
          refine RT.bind (r_get_known hT tk' (binOp_ne_eol' hb)) (fun _ _ => ?_)
          refine RT.bind (ih.factor g) (fun e e' => ?_)
          refine RT.assume (fun h => ?_)
          subst h
          exact ih.chain g _
    · -- parseFactor
      intro g
      cases g with
      | zero => exact RT.fuelR _
      | succ g =>
        simp only [parseFactor]
        refine RT.bind (r_peek hT) (fun tk tk' => ?_)
        refine RT.assume (fun h => ?_)
        subst h
        cases tk' with
        | num v =>
          simp only
          refine RT.bind ((r_parseNumber hT).pre (fun _ _ h => h.1)) (fun x x' => ?_)
          refine RT.assume (fun h => ?_)
          subst h
          exact RT.pure _ _ (fun _ _ h => ⟨h, rfl⟩)
        | ident name =>
          simp only
          refine RT.bind r_curPos (fun i i' => ?_)
          refine RT.bind (r_get_known hT (.ident name) (by simp)) (fun _ _ => ?_)
          refine RT.bind (r_at hT .LParen) (fun b b' => ?_)
          refine RT.assume (fun h => ?_)
          subst h
          cases b' with
          | true =>
            simp only [if_true]
            cases funcArity name with
            | none => exact RT.fail _ _ _ _
            | some ar =>
              simp only
              refine RT.bind ((ih.args g []).pre (fun _ _ h => ⟨h.1, Or.inl (h.2 trivial)⟩)) (fun args args' => ?_)
              refine RT.assume (fun h => ?_)
              subst h
              refine RT.bind (r_expect hT .RParen (by decide)) (fun _ _ => ?_)
              cases hc : (args'.length != ar) with
              | true =>
                simp only [if_true]
                refine RT.bind (r_peekPos hT (fun _ _ h => h)) (fun j j' => ?_)
                exact RT.fail _ _ _ _
              | false =>
                simp only [Bool.false_eq_true, if_false]
                exact RT.pure _ _ (fun _ _ h => ⟨h, rfl⟩)
          | false =>
            simp only [Bool.false_eq_true, if_false]
            refine RT.bind ((r_recordRead name i i').pre (fun _ _ h => h.1)) (fun _ _ => ?_)
            exact RT.pure _ _ (fun _ _ h => ⟨h, rfl⟩)
        | sym k =>
          simp only
          cases hu : unOpOf (.sym k) with
          | some u =>
            simp only
            refine RT.bind (r_skip_known hT (.sym k) (unOp_ne_eol' hu)) (fun _ _ => ?_)
            refine RT.bind (ih.factor g) (fun e e' => ?_)
            refine RT.assume (fun h => ?_)
            subst h
            exact RT.pure _ _ (fun _ _ h => ⟨h, rfl⟩)
          | none =>
            simp only
            by_cases hk : k = .LParen
            · subst hk
              simp only [↓reduceIte]
              refine RT.bind (r_skip_known hT (.sym .LParen) (by simp)) (fun _ _ => ?_)
              refine RT.bind (ih.expr g) (fun e e' => ?_)
              refine RT.assume (fun h => ?_)
              subst h
              refine RT.bind (r_expect hT .RParen (by decide)) (fun _ _ => ?_)
              exact RT.pure _ _ (fun _ _ h => ⟨h, rfl⟩)
            · simp only [hk, if_false]
              exact (r_getFail hT _ _ _).pre (fun _ _ h => h.1)
    · -- parseArgs
      intro g acc
      cases g with
      | zero => exact RT.fuelR _
      | succ g =>
        simp only [parseArgs]
        refine RT.bind (Q := fun _ _ s s' => R T s s') ?_ (fun _ _ => ?_)
        · intro st st' ⟨h, hd⟩
          rcases hd with hd | hd
          · exact r_skip_known hT _ (by simp) st st' ⟨h, hd⟩
          · exact r_skip_known hT _ (by simp) st st' ⟨h, hd⟩
        · refine RT.bind (ih.expr g) (fun e e' => ?_)
          refine RT.assume (fun h => ?_)
          subst h
          refine RT.bind (r_at hT .Comma) (fun b b' => ?_)
          refine RT.assume (fun h => ?_)
          subst h
          cases b' with
          | true =>
            simp only [if_true]
            exact (ih.args g _).pre (fun _ _ h => ⟨h.1, Or.inr (h.2 trivial)⟩)
          | false =>
            simp only [Bool.false_eq_true, if_false]
            exact RT.pure _ _ (fun _ _ h => ⟨h.1, rfl⟩)

/-! ### rows -/

theorem rowLoopR (hT : TokRel T) (hdr : List String) : ∀ (f g : Nat) (data : List DataEntry) (idx : Nat),
    RT (R T) (rowLoop hdr f data idx) (rowLoop hdr g data idx) (EqR T) := by
  intro f
  induction f with
  | zero => intro g data idx; exact RT.fuelL _
  | succ f ih =>
    intro g data idx
    cases g with
    | zero => exact RT.fuelR _
    | succ g =>
      have hE := exprR hT f
      simp only [rowLoop]
      refine RT.bind (r_peek hT) (fun tk tk' => ?_)
      refine RT.assume (fun h => ?_)
      subst h
      split
      · -- ( expr )
        refine RT.bind (r_skip_known hT _ (by simp)) (fun _ _ => ?_)
        refine RT.bind (hE.expr g) (fun e e' => ?_)
        refine RT.assume (fun h => ?_)
        subst h
        refine RT.bind (r_expect hT .RParen (by decide)) (fun _ _ => ?_)
        exact ih g _ _
      · -- bits ( k , expr )
        refine RT.bind (r_skip_known hT _ (by simp)) (fun _ _ => ?_)
        refine RT.bind (r_expect hT .LParen (by decide)) (fun _ _ => ?_)
        refine RT.bind (r_peekPos hT (fun _ _ h => h)) (fun at_ at' => ?_)
        refine RT.bind (r_parseNumber hT) (fun n n' => ?_)
        refine RT.assume (fun h => ?_)
        subst h
        by_cases hn : n' > 64
        · simp only [hn, if_true]
          exact RT.fail _ _ _ _
        · simp only [hn, if_false]
          refine RT.bind (r_expect hT .Comma (by decide)) (fun _ _ => ?_)
          refine RT.bind (hE.expr g) (fun e e' => ?_)
          refine RT.assume (fun h => ?_)
          subst h
          refine RT.bind (r_expect hT .RParen (by decide)) (fun _ _ => ?_)
          exact ih g _ _
      · -- identifier: C / X / Z
        next s =>
        refine RT.bind r_curPos (fun i i' => ?_)
        refine RT.bind (r_get_known hT (.ident s) (by simp)) (fun _ _ => ?_)
        by_cases h1 : s = "c" ∨ s = "C"
        · simp only [h1, if_true]
          cases hdr[idx]? with
          | some name =>
            simp only
            refine RT.bind (r_recordC name i i') (fun _ _ => ?_)
            exact ih g _ _
          | none =>
            exact ih g _ _
        · simp only [h1, if_false]
          by_cases h2 : s = "x" ∨ s = "X"
          · simp only [h2, if_true]; exact ih g _ _
          · simp only [h2, if_false]
            by_cases h3 : s = "z" ∨ s = "Z"
            · simp only [h3, if_true]; exact ih g _ _
            · simp only [h3, if_false]; exact RT.fail _ _ _ _
      · -- number
        refine RT.bind ((r_parseNumber hT).pre (fun _ _ h => h.1)) (fun n n' => ?_)
        refine RT.assume (fun h => ?_)
        subst h
        exact ih g _ _
      · exact RT.pure _ _ (fun _ _ h => ⟨h.1, rfl⟩)
      · exact RT.pure _ _ (fun _ _ h => ⟨h.1, rfl⟩)
      · exact (r_getFail hT _ _ _).pre (fun _ _ h => h.1)

theorem parseRowR (hT : TokRel T) (hdr : List String) (f g : Nat) :
    RT (R T) (parseRow hdr f) (parseRow hdr g) (EqR T) := by
  unfold parseRow
  refine RT.bind (r_peekPos hT (fun _ _ h => h)) (fun a a' => ?_)
  refine RT.bind (rowLoopR hT hdr f g [] 0) (fun r r' => ?_)
  refine RT.assume (fun h => ?_)
  subst h
  obtain ⟨data, idx⟩ := r'
  simp only
  refine RT.bind (r_peekPos hT (fun _ _ h => h)) (fun b b' => ?_)
  by_cases hi : (idx != hdr.length) = true
  · simp only [hi, if_true]; exact RT.fail _ _ _ _
  · simp only [hi, if_false]; exact RT.pure _ _ (fun _ _ h => ⟨h, rfl⟩)

/-! ### statements and blocks -/

theorem RT.or {α α' : Type} {P1 P2} {Q : α → α' → PState → PState → Prop} {m : PM α} {m' : PM α'}
    (h1 : RT P1 m m' Q) (h2 : RT P2 m m' Q) : RT (fun s s' => P1 s s' ∨ P2 s s') m m' Q := by
  intro st st' h
  rcases h with h | h
  · exact h1 st st' h
  · exact h2 st st' h

/-- the token relations of a mode: `T` while the extra `Eol` is ahead, `TP'` when it is the next token of
the second run, `T2` once it has been passed -/
structure Modes (T TP' T2 : List ATok → List ATok → Prop) : Prop where
  hT : TokRel T
  hT2 : TokRel T2
  any2 : ∀ {t ts ts'}, T2 (t :: ts) (t :: ts') → T2 ts ts'
  eol : ∀ {ts ts'}, T (.sym .Eol :: ts) (.sym .Eol :: ts') → T ts ts' ∨ TP' ts ts'

section generic
variable {TP' T2 : List ATok → List ATok → Prop}

/-- related in the first or in the last mode -/
def RO (T T2 : List ATok → List ATok → Prop) (s s' : PState) : Prop := R T s s' ∨ R T2 s s'

theorem r_get_any2 (M : Modes T TP' T2) : RT (R T2) getTok getTok (fun a a' s s' => R T2 s s' ∧ a' = a) := by
  intro st st' h
  have hh := M.hT2.head h.1
  unfold getTok
  cases h1 : st.toks with
  | nil =>
    cases h2 : st'.toks with
    | nil => simp
    | cons y ys => rw [h1, h2] at hh; simp at hh
  | cons x xs =>
    cases h2 : st'.toks with
    | nil => rw [h1, h2] at hh; simp at hh
    | cons y ys =>
      rw [h1, h2] at hh
      simp only [List.head?_cons, Option.some.injEq] at hh
      subst hh
      simp only [Rel2_ok_ok, and_true]
      have hT' := h.1
      rw [h1, h2] at hT'
      exact ⟨M.any2 hT', sim0_get h.2 _ _ _ _ _ _⟩

theorem r_skip_any2 (M : Modes T TP' T2) : RT (R T2) skipTok skipTok (fun _ _ s s' => R T2 s s') := by
  intro st st' h
  have := r_get_any2 M st st' h
  unfold skipTok
  cases h1 : getTok st <;> cases h2 : getTok st' <;> simp_all [Rel2]
  all_goals (simp only [getTok] at h1 h2; split at h1 <;> split at h2 <;> simp_all)

/-- consuming an `Eol` in the first mode: the extra `Eol` may now be next -/
theorem r_skip_eol (M : Modes T TP' T2) :
    RT (fun s s' => R T s s' ∧ s.toks.head? = some (.sym .Eol)) skipTok skipTok
      (fun _ _ s s' => R T s s' ∨ R TP' s s') := by
  intro st st' ⟨h, hd⟩
  obtain ⟨ts, ts', h1, h2⟩ := heads (M.hT.head h.1) hd
  have hT' := h.1
  rw [h1, h2] at hT'
  simp only [skipTok, getTok, h1, h2, Rel2_ok_ok]
  rcases M.eol hT' with h' | h'
  · exact Or.inl ⟨h', sim0_get h.2 _ _ _ _ _ _⟩
  · exact Or.inr ⟨h', sim0_get h.2 _ _ _ _ _ _⟩

theorem r_expect_eol (M : Modes T TP' T2) :
    RT (R T) (expectTok .Eol) (expectTok .Eol) (fun _ _ s s' => R T s s' ∨ R TP' s s') := by
  intro st st' h
  have hh := M.hT.head h.1
  simp only [expectTok, bind, PM.bind, curPos, getTok]
  cases h1 : st.toks with
  | nil =>
    cases h2 : st'.toks with
    | nil => simp
    | cons y ys => rw [h1, h2] at hh; simp at hh
  | cons x xs =>
    cases h2 : st'.toks with
    | nil => rw [h1, h2] at hh; simp at hh
    | cons y ys =>
      rw [h1, h2] at hh
      simp only [List.head?_cons, Option.some.injEq] at hh
      subst hh
      simp only
      by_cases hx : x = .sym .Eol
      · subst hx
        simp only [if_true, pure, PM.pure, Rel2_ok_ok]
        have hT' := h.1
        rw [h1, h2] at hT'
        rcases M.eol hT' with h' | h'
        · exact Or.inl ⟨h', sim0_get h.2 _ _ _ _ _ _⟩
        · exact Or.inr ⟨h', sim0_get h.2 _ _ _ _ _ _⟩
      · simp only [hx, if_false, failP, Rel2_err_err]

theorem r_expect_any2 (M : Modes T TP' T2) (k : Kind) :
    RT (R T2) (expectTok k) (expectTok k) (fun _ _ s s' => R T2 s s') := by
  unfold expectTok
  refine RT.bind r_curPos (fun i i' => ?_)
  refine RT.bind (r_get_any2 M) (fun t t' => ?_)
  refine RT.assume (fun h => ?_)
  subst h
  by_cases ht : t' = .sym k
  · simp only [ht, if_true]; exact RT.pure _ _ (fun _ _ h => h)
  · simp only [ht, if_false]; exact RT.fail _ _ _ _

theorem r_modVars_or {T1 T3 : List ATok → List ATok → Prop} (fn : FMap Unit → FMap Unit) :
    RT (fun s s' => R T1 s s' ∨ R T3 s s') (modVars fn) (modVars fn) (fun _ _ s s' => R T1 s s' ∨ R T3 s s') :=
  RT.or ((r_modVars fn).weaken (fun _ _ h => h) (fun _ _ _ _ h => Or.inl h))
    ((r_modVars fn).weaken (fun _ _ h => h) (fun _ _ _ _ h => Or.inr h))

def BPost (T T2 : List ATok → List ATok → Prop) (b b' : List Stmt) (s s' : PState) : Prop :=
  RO T T2 s s' ∧ Stmts.erase b' = Stmts.erase b
def SPost (T T2 : List ATok → List ATok → Prop) (o o' : StmtOut) (s s' : PState) : Prop :=
  RO T T2 s s' ∧ OutEq o o'

structure BlockR (T TP' T2 : List ATok → List ATok → Prop) (hdr : List String) (f : Nat) : Prop where
  stmt : ∀ g e, (∀ k, e = some k → k ≠ .Eol) → RT (R T) (parseStmt hdr f e) (parseStmt hdr g e) (SPost T T2)
  block : ∀ g e acc acc', (∀ k, e = some k → k ≠ .Eol) → Stmts.erase acc' = Stmts.erase acc →
    RT (fun s s' => R T s s' ∨ R TP' s s') (parseBlock hdr f e acc) (parseBlock hdr g e acc') (BPost T T2)

theorem blockR (M : Modes T TP' T2) (hdr : List String)
    (hP : ∀ f g e acc acc', (∀ k, e = some k → k ≠ .Eol) → Stmts.erase acc' = Stmts.erase acc →
      RT (R TP') (parseBlock hdr f e acc) (parseBlock hdr g e acc') (fun b b' s s' => R T2 s s' ∧ Stmts.erase b' = Stmts.erase b))
    (hA : ∀ f g e acc acc', (∀ k, e = some k → k ≠ .Eol) → Stmts.erase acc' = Stmts.erase acc →
      RT (R T2) (parseBlock hdr f e acc) (parseBlock hdr g e acc') (fun b b' s s' => R T2 s s' ∧ Stmts.erase b' = Stmts.erase b)) :
    ∀ f, BlockR T TP' T2 hdr f := by
  intro f
  induction f with
  | zero => exact ⟨fun _ _ _ => RT.fuelL _, fun _ _ _ _ _ _ => RT.fuelL _⟩
  | succ f ih =>
    have hT := M.hT
    have hE := exprR hT f
    refine ⟨?_, ?_⟩
    · -- parseStmt
      intro g e he
      cases g with
      | zero => exact RT.fuelR _
      | succ g =>
        simp only [parseStmt]
        refine RT.bind (r_peek hT) (fun tk tk' => ?_)
        refine RT.assume (fun h => ?_)
        subst h
        cases hs : startsRow tk' with
        | true =>
          simp only [if_true]
          refine RT.bind ((parseRowR hT hdr f g).pre (fun _ _ h => h.1)) (fun data data' => ?_)
          refine RT.assume (fun h => ?_)
          subst h
          refine RT.bind r_getLine (fun line line' => ?_)
          exact RT.pure _ _ (fun _ _ h => ⟨Or.inl h, by simp [OutEq, Stmt.erase]⟩)
        | false =>
          simp only [Bool.false_eq_true, if_false]
          split
          · -- loop
            refine RT.bind (r_skip_known hT (.sym .Loop) (by simp)) (fun _ _ => ?_)
            refine RT.bind (r_expect hT .LParen (by decide)) (fun _ _ => ?_)
            refine RT.bind (r_expectIdent hT) (fun vi vi' => ?_)
            obtain ⟨v, vp⟩ := vi
            obtain ⟨v', vp'⟩ := vi'
            refine RT.assume (fun h => ?_)
            simp only at h
            subst h
            simp only
            refine RT.bind (r_expect hT .Comma (by decide)) (fun _ _ => ?_)
            refine RT.bind (hE.expr g) (fun max max' => ?_)
            refine RT.assume (fun h => ?_)
            subst h
            refine RT.bind (r_expect hT .RParen (by decide)) (fun _ _ => ?_)
            refine RT.bind (r_expect_eol M) (fun _ _ => ?_)
            refine RT.bind (r_modVars_or _) (fun _ _ => ?_)
            refine RT.bind (ih.block g (some .Loop) [] [] (by intro k hk; cases hk; decide) rfl) (fun inner inner' => ?_)
            refine RT.assume (fun h => ?_)
            refine RT.bind (r_modVars_or _) (fun _ _ => ?_)
            exact RT.pure _ _ (fun _ _ hr => ⟨hr, by simp [OutEq, Stmt.erase, h]⟩)
          · -- repeat
            refine RT.bind (r_skip_known hT (.sym .Repeat) (by simp)) (fun _ _ => ?_)
            refine RT.bind (r_expect hT .LParen (by decide)) (fun _ _ => ?_)
            refine RT.bind (hE.expr g) (fun max max' => ?_)
            refine RT.assume (fun h => ?_)
            subst h
            refine RT.bind (r_expect hT .RParen (by decide)) (fun _ _ => ?_)
            refine RT.bind (r_modVars _) (fun _ _ => ?_)
            refine RT.bind (parseRowR hT hdr f g) (fun data data' => ?_)
            refine RT.assume (fun h => ?_)
            subst h
            refine RT.bind (r_modVars _) (fun _ _ => ?_)
            refine RT.bind r_getLine (fun line line' => ?_)
            exact RT.pure _ _ (fun _ _ h => ⟨Or.inl h, by simp [OutEq, Stmt.erase, Stmts.erase]⟩)
          · -- let
            refine RT.bind (r_skip_known hT (.sym .Let) (by simp)) (fun _ _ => ?_)
            refine RT.bind (r_expectIdent hT) (fun vi vi' => ?_)
            obtain ⟨v, vp⟩ := vi
            obtain ⟨v', vp'⟩ := vi'
            refine RT.assume (fun h => ?_)
            simp only at h
            subst h
            simp only
            refine RT.bind (r_expect hT .Equal (by decide)) (fun _ _ => ?_)
            refine RT.bind (hE.expr g) (fun ex ex' => ?_)
            refine RT.assume (fun h => ?_)
            subst h
            refine RT.bind (r_expect hT .Semi (by decide)) (fun _ _ => ?_)
            refine RT.bind (r_modVars _) (fun _ _ => ?_)
            exact RT.pure _ _ (fun _ _ h => ⟨Or.inl h, by simp [OutEq]⟩)
          · -- resetRandom
            refine RT.bind (r_skip_known hT (.sym .ResetRandom) (by simp)) (fun _ _ => ?_)
            refine RT.bind (r_expect hT .Semi (by decide)) (fun _ _ => ?_)
            exact RT.pure _ _ (fun _ _ h => ⟨Or.inl h, by simp [OutEq]⟩)
          · -- while
            refine RT.bind (r_skip_known hT (.sym .While) (by simp)) (fun _ _ => ?_)
            refine RT.bind (r_expect hT .LParen (by decide)) (fun _ _ => ?_)
            refine RT.bind (hE.expr g) (fun cond cond' => ?_)
            refine RT.assume (fun h => ?_)
            subst h
            refine RT.bind (r_expect hT .RParen (by decide)) (fun _ _ => ?_)
            refine RT.bind (r_expect_eol M) (fun _ _ => ?_)
            refine RT.bind (ih.block g (some .While) [] [] (by intro k hk; cases hk; decide) rfl) (fun inner inner' => ?_)
            refine RT.assume (fun h => ?_)
            exact RT.pure _ _ (fun _ _ hr => ⟨hr, by simp [OutEq, Stmt.erase, h]⟩)
          · -- declare
            refine RT.bind (r_peekPos hT (fun _ _ h => h.1)) (fun start start' => ?_)
            refine RT.bind (r_skip_known hT (.sym .Declare) (by simp)) (fun _ _ => ?_)
            refine RT.bind (r_expectIdent hT) (fun vi vi' => ?_)
            obtain ⟨v, vp⟩ := vi
            obtain ⟨v', vp'⟩ := vi'
            refine RT.assume (fun h => ?_)
            simp only at h
            subst h
            simp only
            refine RT.bind (r_expect hT .Equal (by decide)) (fun _ _ => ?_)
            refine RT.bind r_getVars (fun saved saved' => ?_)
            refine RT.assume (fun h => ?_)
            subst h
            refine RT.bind (r_modVars _) (fun _ _ => ?_)
            refine RT.bind (hE.expr g) (fun ex ex' => ?_)
            refine RT.assume (fun h => ?_)
            subst h
            refine RT.bind (r_modVars _) (fun _ _ => ?_)
            refine RT.bind (r_expect hT .Semi (by decide)) (fun _ _ => ?_)
            refine RT.bind (r_peekPos hT (fun _ _ h => h)) (fun stop stop' => ?_)
            exact (r_declareVirt _ _ _ _ _ _).weaken (fun _ _ h => h) (fun _ _ _ _ h => ⟨Or.inl h.1, h.2⟩)
          · -- end
            cases e with
            | some k =>
              simp only
              refine RT.bind (r_skip_known hT (.sym .End) (by simp)) (fun _ _ => ?_)
              refine RT.bind (r_expect hT k (he k rfl)) (fun _ _ => ?_)
              exact RT.pure _ _ (fun _ _ h => ⟨Or.inl h, trivial⟩)
            | none =>
              simp only
              exact (r_getFail hT _ _ _).pre (fun _ _ h => h.1)
          · -- Eof
            refine RT.bind r_curPos (fun i i' => ?_)
            refine RT.bind (r_get_known hT (.sym .Eof) (by simp)) (fun _ _ => ?_)
            cases e with
            | some k => simp only [Option.isSome_some, if_true]; exact RT.fail _ _ _ _
            | none =>
              simp only [Option.isSome_none, Bool.false_eq_true, if_false]
              exact RT.pure _ _ (fun _ _ h => ⟨Or.inl h, trivial⟩)
          · -- Eol
            exact RT.pure _ _ (fun _ _ h => ⟨Or.inl h.1, trivial⟩)
          · -- other fixed spellings
            next k _ _ _ _ _ _ _ _ _ =>
            by_cases hu : unsupported k = true
            · simp only [hu, if_true]; exact (r_getFail hT _ _ _).pre (fun _ _ h => h.1)
            · simp only [hu, if_false]; exact (r_getFail hT _ _ _).pre (fun _ _ h => h.1)
          · exact (r_getFail hT _ _ _).pre (fun _ _ h => h.1)
    · -- parseBlock
      intro g e acc acc' he hacc
      refine RT.or ?_ ((hP (f + 1) g e acc acc' he hacc).weaken (fun _ _ h => h) (fun _ _ _ _ h => ⟨Or.inr h.1, h.2⟩))
      cases g with
      | zero => exact RT.fuelR _
      | succ g =>
        simp only [parseBlock]
        refine RT.bind (ih.stmt g e he) (fun out out' => ?_)
        refine RT.assume (fun ho => ?_)
        have cont : ∀ (b b' : List Stmt), Stmts.erase b' = Stmts.erase b →
            RT (RO T T2)
              (do
                if (← atTok .Eof) then
                  if e.isSome then do
                    let i ← curPos
                    let _ ← getTok
                    failP "UnexpectedEof" [.tok i]
                  else pure b
                else if (← atTok .Eol) then do
                  skipTok
                  parseBlock hdr f e b
                else do
                  let i ← curPos
                  let _ ← getTok
                  failP "ExpectedNewLine" [.tok i])
              (do
                if (← atTok .Eof) then
                  if e.isSome then do
                    let i ← curPos
                    let _ ← getTok
                    failP "UnexpectedEof" [.tok i]
                  else pure b'
                else if (← atTok .Eol) then do
                  skipTok
                  parseBlock hdr g e b'
                else do
                  let i ← curPos
                  let _ ← getTok
                  failP "ExpectedNewLine" [.tok i])
              (BPost T T2) := by
          intro b b' hb
          refine RT.or ?_ ?_
          · -- still in front of the extra Eol
            refine RT.bind (r_at hT .Eof) (fun x x' => ?_)
            refine RT.assume (fun h => ?_)
            subst h
            cases x' with
            | true =>
              simp only [if_true]
              cases e with
              | some k => simp only [Option.isSome_some, if_true]; exact (r_getFail hT _ _ _).pre (fun _ _ h => h.1)
              | none =>
                simp only [Option.isSome_none, Bool.false_eq_true, if_false]
                exact RT.pure _ _ (fun _ _ h => ⟨Or.inl h.1, hb⟩)
            | false =>
              simp only [Bool.false_eq_true, if_false]
              refine RT.bind ((r_at hT .Eol).pre (fun _ _ h => h.1)) (fun y y' => ?_)
              refine RT.assume (fun h => ?_)
              subst h
              cases y' with
              | true =>
                simp only [if_true]
                refine RT.bind ((r_skip_eol M).pre (fun _ _ h => ⟨h.1, h.2 trivial⟩)) (fun _ _ => ?_)
                exact ih.block g e b b' he hb
              | false =>
                simp only [Bool.false_eq_true, if_false]
                exact (r_getFail hT _ _ _).pre (fun _ _ h => h.1)
          · -- behind it
            refine RT.bind (r_at M.hT2 .Eof) (fun x x' => ?_)
            refine RT.assume (fun h => ?_)
            subst h
            cases x' with
            | true =>
              simp only [if_true]
              cases e with
              | some k => simp only [Option.isSome_some, if_true]; exact (r_getFail M.hT2 _ _ _).pre (fun _ _ h => h.1)
              | none =>
                simp only [Option.isSome_none, Bool.false_eq_true, if_false]
                exact RT.pure _ _ (fun _ _ h => ⟨Or.inr h.1, hb⟩)
            | false =>
              simp only [Bool.false_eq_true, if_false]
              refine RT.bind ((r_at M.hT2 .Eol).pre (fun _ _ h => h.1)) (fun y y' => ?_)
              refine RT.assume (fun h => ?_)
              subst h
              cases y' with
              | true =>
                simp only [if_true]
                refine RT.bind ((r_skip_any2 M).pre (fun _ _ h => h.1)) (fun _ _ => ?_)
                exact (hA f g e b b' he hb).weaken (fun _ _ h => h) (fun _ _ _ _ h => ⟨Or.inr h.1, h.2⟩)
              | false =>
                simp only [Bool.false_eq_true, if_false]
                exact (r_getFail M.hT2 _ _ _).pre (fun _ _ h => h.1)
        cases out with
        | closed =>
          cases out' with
          | closed => exact RT.pure _ _ (fun _ _ h => ⟨h, hacc⟩)
          | pushed s' => exact absurd ho (by simp [OutEq])
          | nothing => exact absurd ho (by simp [OutEq])
        | pushed s =>
          cases out' with
          | pushed s' =>
            have : s.erase = s'.erase := ho
            exact cont (acc ++ [s]) (acc' ++ [s']) (by rw [Stmts.erase_append, Stmts.erase_append, hacc, this])
          | closed => exact absurd ho (by simp [OutEq])
          | nothing => exact absurd ho (by simp [OutEq])
        | nothing =>
          cases out' with
          | nothing => exact cont acc acc' hacc
          | closed => exact absurd ho (by simp [OutEq])
          | pushed s' => exact absurd ho (by simp [OutEq])

end generic

/-! ### the two instances -/

def TF (_ _ : List ATok) : Prop := False

theorem modesA : Modes TA TF TF :=
  ⟨tokRel_TA, ⟨fun h => h.elim, fun h _ => h.elim⟩, fun h => h.elim, fun h => Or.inl (by simpa [TA] using h)⟩

theorem modesB : Modes TB TP TA :=
  ⟨tokRel_TB, tokRel_TA, fun h => by simpa [TA] using h, fun h => (TB.cons h).2⟩

/-- the same tokens at another position and line: the same parse up to line numbers -/
theorem blockA (hdr : List String) (f g : Nat) (e : Option Kind) (acc acc' : List Stmt)
    (he : ∀ k, e = some k → k ≠ .Eol) (hacc : Stmts.erase acc' = Stmts.erase acc) :
    RT (R TA) (parseBlock hdr f e acc) (parseBlock hdr g e acc')
      (fun b b' s s' => R TA s s' ∧ Stmts.erase b' = Stmts.erase b) := by
  have := (blockR modesA hdr (fun _ _ _ _ _ _ _ st st' h => h.1.elim) (fun _ _ _ _ _ _ _ st st' h => h.1.elim) f).block
    g e acc acc' he hacc
  refine this.weaken (fun _ _ h => Or.inl h) ?_
  intro b b' s s' ⟨hr, hb⟩
  rcases hr with hr | hr
  · exact ⟨hr, hb⟩
  · exact hr.1.elim

/-- an `Eol` in front of a block iteration costs one turn of the loop and nothing else -/
theorem parseBlock_eol (hdr : List String) (g : Nat) (e : Option Kind) (acc : List Stmt) (st : PState)
    (ts : List ATok) (h : st.toks = .sym .Eol :: ts) :
    parseBlock hdr (g + 2) e acc st =
      parseBlock hdr (g + 1) e acc { st with toks := ts, pos := st.pos + 1, line := st.line + 1 } := by
  conv => lhs; unfold parseBlock
  simp [parseStmt, bind, PM.bind, peekTok, h, startsRow, pure, PM.pure, atTok, skipTok, getTok]

theorem blockP (hdr : List String) (f g : Nat) (e : Option Kind) (acc acc' : List Stmt)
    (he : ∀ k, e = some k → k ≠ .Eol) (hacc : Stmts.erase acc' = Stmts.erase acc) :
    RT (R TP) (parseBlock hdr f e acc) (parseBlock hdr g e acc')
      (fun b b' s s' => R TA s s' ∧ Stmts.erase b' = Stmts.erase b) := by
  intro st st' h
  cases g with
  | zero => simp [parseBlock, fuelOut]
  | succ g =>
    cases g with
    | zero =>
      have : parseBlock hdr 1 e acc' st' = .fuel := by
        simp [parseBlock, parseStmt, bind, PM.bind, fuelOut]
      rw [this]; simp
    | succ g =>
      have ht : st'.toks = .sym .Eol :: st.toks := h.1
      rw [parseBlock_eol hdr g e acc' st' st.toks ht]
      exact blockA hdr f (g + 1) e acc acc' he hacc st _ ⟨rfl, h.2.vars, h.2.reads, h.2.expIn, h.2.virt⟩

/-- **one extra `Eol` directly behind an `Eol`, or at the very start, anywhere in the token list**: the
block parses to the same statements up to line numbers, with the same recorded names — or neither run succeeds -/
theorem blockB (hdr : List String) (f g : Nat) (e : Option Kind) (acc acc' : List Stmt)
    (he : ∀ k, e = some k → k ≠ .Eol) (hacc : Stmts.erase acc' = Stmts.erase acc) :
    RT (fun s s' => R TB s s' ∨ R TP s s') (parseBlock hdr f e acc) (parseBlock hdr g e acc')
      (fun b b' s s' => Sim0 s s' ∧ Stmts.erase b' = Stmts.erase b) := by
  have := (blockR modesB hdr (fun f g e acc acc' he h => blockP hdr f g e acc acc' he h)
    (fun f g e acc acc' he h => blockA hdr f g e acc acc' he h) f).block g e acc acc' he hacc
  refine this.weaken (fun _ _ h => h) ?_
  intro b b' s s' ⟨hr, hb⟩
  rcases hr with hr | hr
  · exact ⟨hr.2, hb⟩
  · exact ⟨hr.2, hb⟩

end Dtr
