import Dtr.Proofs.RowInv
import Dtr.Model.AfterError
import Dtr.Proofs.AfterErrorBasic
/-!
# The run invariant holds behind every item  (continuing after error items)

`Model/AfterError` gives the state the code is left in when an item is an error.  Here:

* `rngAfter_of_ok`: where an evaluation succeeds, `rngAfter` is the generator `evalG` returns (the two
  descriptions agree wherever both speak);
* `stepPost_keeps`, `nextRowPost_inv`: a failing turn leaves the variables alone and the statement
  iterator in a well-formed state of the same depth — the machine invariant `MInv` survives;
* `nextC_inv`: from a state satisfying `RInv`, `nextC` is not a panic and `RInv` holds in the state
  behind *every* item — row, driver error, malformed answer, evaluation error — and behind the end;
* `nextC_obs`: `nextC` and `next` return the same item, driver state and calls.
-/
namespace Dtr

theorem rngAfter_of_ok (get : String → Option OutVal) : ∀ (e : Expr) (g g' : Rng) (v : Int64),
    evalG get e g = .ok (v, g') → rngAfter get e g = g'
  | .num n, g, g', v, h => by
    simp only [evalG, Res.ok.injEq, Prod.mk.injEq] at h
    simp [rngAfter, h.2]
  | .var s, g, g', v, h => by
    simp only [evalG] at h
    split at h
    · cases h
    · simp only [Res.ok.injEq, Prod.mk.injEq] at h; simp [rngAfter, h.2]
    · cases h
  | .un o e, g, g', v, h => by
    simp only [evalG] at h
    simp only [rngAfter]
    cases h1 : evalG get e g with
    | ok p =>
      obtain ⟨a, g1⟩ := p
      simp only [h1, Res.ok.injEq, Prod.mk.injEq] at h
      rw [rngAfter_of_ok get e g g1 a h1]; exact h.2
    | err er => simp [h1] at h
    | panic m => simp [h1] at h
  | .bin o l r, g, g', v, h => by
    simp only [evalG] at h
    simp only [rngAfter]
    cases h1 : evalG get l g with
    | ok p =>
      obtain ⟨a, g1⟩ := p
      simp only [h1] at h ⊢
      cases h2 : evalG get r g1 with
      | ok q =>
        obtain ⟨b, g2⟩ := q
        simp only [h2] at h
        rw [rngAfter_of_ok get r g1 g2 b h2]
        cases h3 : o.eval a b with
        | none => simp [h3] at h
        | some x => simp only [h3, Res.ok.injEq, Prod.mk.injEq] at h; exact h.2
      | err er => simp [h2] at h
      | panic m => simp [h2] at h
    | err er => simp [h1] at h
    | panic m => simp [h1] at h
  | .call name args, g, g', v, h => by
    unfold evalG at h
    unfold rngAfter
    cases ha : funcArity name with
    | none => simp [ha] at h
    | some ar =>
      simp only [ha] at h ⊢
      split at h
      · cases h
      · next hne =>
        simp only [hne, if_false]
        split at h
        · next hr =>
          simp only [hr, if_true]
          split at h
          · next a =>
            simp only
            cases h1 : evalG get a g with
            | ok p =>
              obtain ⟨mx, g1⟩ := p
              simp only [h1] at h ⊢
              split at h
              · cases h
              · next hm =>
                simp only [hm, if_false]
                simp only [Res.ok.injEq] at h
                rw [h]; simp
            | err er => simp [h1] at h
            | panic m => simp [h1] at h
          · cases h
        · next hr =>
          simp only [hr, if_false]
          split at h
          · next hi =>
            simp only [hi, if_true]
            split at h
            · next t a b =>
              simp only
              cases h1 : evalG get t g with
              | ok p =>
                obtain ⟨x, g1⟩ := p
                simp only [h1] at h ⊢
                split at h
                · next hx => simp only [hx, if_true]; exact rngAfter_of_ok get b g1 g' v h
                · next hx => simp only [hx, if_false]; exact rngAfter_of_ok get a g1 g' v h
              | err er => simp [h1] at h
              | panic m => simp [h1] at h
            · cases h
          · cases h

/-- a failing turn: the statement iterator stays well-formed, keeps its depth and its loop
counters' scopes, and the variables are untouched -/
theorem stepPost_keeps (w : Nat) (isIn : Nat → Bool) : (it : It) → (c : Ctx) → (fs : Scopes.T Int64) → (e : ExprErr) →
    step it c = .err e → It.SWF w isIn it → VarsOK it fs →
    It.SWF w isIn (stepPost it c).1 ∧ VarsOK (stepPost it c).1 fs ∧ depth (stepPost it c).1 = depth it ∧
    (stepPost it c).2.vars = c.vars
  | .mk rest .iterate, c, fs, e, h, hs, _ => by
    simp only [It.SWF, ItState.SWF, and_true] at hs
    cases rest with
    | nil => simp [step] at h
    | cons s rest' =>
      simp only [Stmts.SWF] at hs
      cases s with
      | letS name ex =>
        simp only [stepPost]
        exact ⟨by simp [It.SWF, ItState.SWF, hs.2], by simp [VarsOK], by simp [depth], rfl⟩
      | row data line =>
        simp only [stepPost]
        exact ⟨by simp [It.SWF, ItState.SWF, hs.2], by simp [VarsOK], by simp [depth], (rowAfter_fields data c).1⟩
      | loop var max body =>
        simp only [stepPost]
        exact ⟨by simp [It.SWF, ItState.SWF, hs.2], by simp [VarsOK], by simp [depth], rfl⟩
      | resetRandom => simp [step] at h
      | «while» cond body => simp [step] at h
  | .mk rest (.startLoop ls), c, fs, e, h, _, _ => by
    simp only [step] at h
    split at h <;> cases h
  | .mk rest (.startInner ls), c, fs, e, h, _, _ => by simp [step] at h
  | .mk rest (.inner it ls), c, fs, e, h, hs, hv => by
    simp only [step] at h
    simp only [It.SWF, ItState.SWF] at hs
    simp only [VarsOK] at hv
    cases hst : step it c with
    | yield r it' c' => simp [hst] at h
    | cont it' c' => simp [hst] at h
    | done it' c' => simp [hst] at h
    | panic m => simp [hst] at h
    | err e' =>
      have ih := stepPost_keeps w isIn it c fs e' hst hs.2.1 hv.1
      simp only [stepPost]
      refine ⟨by simp [It.SWF, ItState.SWF, hs.1, ih.1, hs.2.2], ?_, by simp [depth, ih.2.2.1], ih.2.2.2⟩
      simp only [VarsOK]
      refine ⟨ih.2.1, ?_⟩
      rw [ih.2.2.1]; exact hv.2
  | .mk rest (.endInner ls), c, fs, e, h, _, _ => by
    simp only [step] at h
    split at h <;> cases h
  | .mk rest (.startWhile ws), c, fs, e, h, hs, _ => by
    simp only [stepPost]
    exact ⟨hs, by simp [VarsOK], by simp [depth], rfl⟩
  | .mk rest (.whileInner it ws), c, fs, e, h, hs, hv => by
    simp only [step] at h
    simp only [It.SWF, ItState.SWF] at hs
    simp only [VarsOK] at hv
    cases hst : step it c with
    | yield r it' c' => simp [hst] at h
    | cont it' c' => simp [hst] at h
    | done it' c' => simp [hst] at h
    | panic m => simp [hst] at h
    | err e' =>
      have ih := stepPost_keeps w isIn it c fs e' hst hs.2.1 hv
      simp only [stepPost]
      exact ⟨by simp [It.SWF, ItState.SWF, hs.1, ih.1, hs.2.2], by simpa [VarsOK] using ih.2.1, by simp [depth, ih.2.2.1],
        ih.2.2.2⟩

/-- the machine invariant survives a failing turn -/
theorem stepPost_minv (w : Nat) (isIn : Nat → Bool) (it : It) (c : Ctx) (e : ExprErr) (h : step it c = .err e)
    (hm : MInv w isIn it c) : MInv w isIn (stepPost it c).1 (stepPost it c).2 := by
  obtain ⟨a, b, d, hv⟩ := stepPost_keeps w isIn it c c.vars.abs e h hm.swf hm.vok
  exact ⟨a, by rw [hv]; exact hm.inv, by rw [hv]; exact b, by rw [hv, d]; exact hm.dep⟩

/-- … and a failing `next_with_context` -/
theorem nextRowPost_inv (w : Nat) (isIn : Nat → Bool) : ∀ (f : Nat) (it : It) (c : Ctx) (e : ExprErr), MInv w isIn it c →
    nextRow f it c = .err e → MInv w isIn (nextRowPost f it c).1 (nextRowPost f it c).2
  | 0, it, c, e, _, h => by simp [nextRow] at h
  | f+1, it, c, e, hm, h => by
    have hs := step_inv w isIn it c hm.swf hm.inv hm.vok hm.dep
    simp only [nextRow] at h
    simp only [nextRowPost]
    cases hst : step it c with
    | yield r it' c' => simp [hst] at h
    | done it' c' => simp [hst] at h
    | panic m => simp [hst] at h
    | cont it' c' =>
      rw [hst] at hs
      simp only [hst] at h ⊢
      exact nextRowPost_inv w isIn f it' c' e hs.minv h
    | err e' =>
      simp only
      exact stepPost_minv w isIn it c e' hst hm

variable (tc : TestCase)

/-- `get_row` fails only while refilling an empty row stack -/
theorem getRow_err_inv (fuel : Nat) (s : RowIt) (e : ExprErr) (h : getRow tc fuel s = .err e) :
    s.cache = [] ∧ nextRow fuel s.it s.ctx = .err e := by
  unfold getRow at h
  cases hc : s.cache with
  | nil =>
    simp only [hc, List.isEmpty_nil, if_true] at h
    cases hn : nextRow fuel s.it s.ctx with
    | row r it c =>
      exfalso
      simp only [hn] at h
      revert h
      cases popRow tc [r] with
      | err _ => simp
      | panic _ => simp
      | ok p =>
        obtain ⟨top, rest⟩ := p
        simp only
        cases genInputs tc top.entries (changedFlags s.prev top.entries) with
        | err _ => simp
        | panic _ => simp
        | ok ins =>
          simp only
          cases genExpected tc top.entries top.xcols <;> simp
    | none it c => simp [hn] at h
    | err e' => simp only [hn, GetRowRes.err.injEq] at h; subst h; exact ⟨rfl, rfl⟩
    | panic m => simp [hn] at h
    | fuel => simp [hn] at h
  | cons r rest =>
    exfalso
    simp only [hc, List.isEmpty_cons, Bool.false_eq_true, if_false] at h
    revert h
    cases popRow tc (r :: rest) with
    | err _ => simp
    | panic _ => simp
    | ok p =>
      obtain ⟨top, rest'⟩ := p
      simp only
      cases genInputs tc top.entries (changedFlags s.prev top.entries) with
      | err _ => simp
      | panic _ => simp
      | ok ins =>
        simp only
        cases genExpected tc top.entries top.xcols <;> simp

/-- the iterator invariant behind an evaluation error -/
theorem afterEvalErr_inv (w : Nat) (fuel : Nat) (s : RowIt) (e : ExprErr) (h : RInv tc w s)
    (he : getRow tc fuel s = .err e) : RInv tc w (s.afterEvalErr fuel) := by
  obtain ⟨_, hn⟩ := getRow_err_inv tc fuel s e he
  have hm := nextRowPost_inv w (entryIsInput tc) fuel s.it s.ctx e h.m hn
  exact ⟨hm, h.cache, h.prev, h.oi⟩

theorem extractCtxAfter_vars (oi : List OIdx) (numOut : Nat) (outs : List OutEntry) (c : Ctx) :
    (extractCtxAfter tc oi numOut outs c).vars = c.vars := by
  unfold extractCtxAfter
  split <;> rfl

/-- what holds behind an item of `nextC` -/
def NxPostC {δ : Type} (w : Nat) : NextOut δ → Prop
  | .item _ s' _ _ => RInv tc w s'
  | .none s' _ => RInv tc w s'
  | .fuel => True
  | .panic _ _ => False

/-- **One `next()`, whatever it returns**: on a well-formed test, from a state satisfying the
invariant, `nextC` is not a panic and the invariant holds again behind the item — also behind an
error item of any kind. -/
theorem nextC_inv {δ : Type} (w : Nat) (hw : tc.WF w) (drv : Driver δ) (fuel : Nat) (s : RowIt) (d : δ)
    (h : RInv tc w s) : NxPostC tc w (RowIt.nextC tc drv fuel s d) := by
  have hg := getRow_inv tc w hw fuel s h
  unfold RowIt.nextC
  cases hgr : getRow tc fuel s with
  | err e => exact afterEvalErr_inv tc w fuel s e h hgr
  | panic m => rw [hgr] at hg; exact hg.elim
  | fuel => simp [NxPostC]
  | none s' => rw [hgr] at hg; exact hg
  | row r s' =>
    rw [hgr] at hg
    simp only [GPost] at hg
    simp only
    split
    · cases hd : drv.rw d r.inputs with
      | mk d' resp =>
        cases resp with
        | fail e => exact hg
        | ok outs =>
          simp only
          have hoi : ∀ o ∈ s'.outIdx, o.OK s'.numOut := by
            intro o ho
            have := hg.oi o ho
            cases o <;> simpa [OIdx.OK] using this
          cases hx : extractOutputs tc s'.outIdx s'.numOut outs (s'.ctx.setOutputs (outsOf outs)) with
          | mk res c2 =>
            cases res with
            | err e =>
              simp only [NxPostC]
              have hv := extractCtxAfter_vars tc s'.outIdx s'.numOut outs (s'.ctx.setOutputs (outsOf outs))
              refine ⟨⟨hg.m.swf, ?_, ?_, ?_⟩, hg.cache, hg.prev, hg.oi⟩
              · simp only; rw [hv]; exact hg.m.inv
              · simp only; rw [hv]; exact hg.m.vok
              · simp only; rw [hv]; exact hg.m.dep
            | panic m => exact absurd hx (extractOutputs_no_panic tc w hw _ _ _ _ hoi m c2)
            | ok vals =>
              simp only [NxPostC]
              have hv := C18_io_keeps_variables tc s'.outIdx s'.numOut outs s'.ctx c2 vals hx
              refine ⟨⟨hg.m.swf, ?_, ?_, ?_⟩, hg.cache, hg.prev, hg.oi⟩
              · simp only; rw [hv.1]; exact hg.m.inv
              · simp only; rw [hv.1]; exact hg.m.vok
              · simp only; rw [hv.1]; exact hg.m.dep
    · cases hd : drv.wo d r.inputs with
      | mk d' resp =>
        cases resp with
        | some e => exact hg
        | none => exact hg

/-- what a caller and the device observe of one `next()` -/
def NextOut.obs {δ : Type} : NextOut δ → Option (Option Item × δ × List Call)
  | .item i _ d calls => some (some i, d, calls)
  | .none _ d => some (Option.none, d, [])
  | .panic _ _ => Option.none
  | .fuel => Option.none

/-- `nextC` is `next` as far as the item, the driver and the calls go -/
theorem nextC_obs {δ : Type} (drv : Driver δ) (fuel : Nat) (s : RowIt) (d : δ) :
    (RowIt.nextC tc drv fuel s d).obs = (RowIt.next tc drv fuel s d).obs := by
  unfold RowIt.nextC RowIt.next
  cases getRow tc fuel s with
  | err e => rfl
  | panic m => rfl
  | fuel => rfl
  | none s' => rfl
  | row r s' =>
    simp only
    split
    · cases drv.rw d r.inputs with
      | mk d' resp =>
        cases resp with
        | fail e => rfl
        | ok outs =>
          simp only
          cases extractOutputs tc s'.outIdx s'.numOut outs (s'.ctx.setOutputs (outsOf outs)) with
          | mk res c2 => cases res <;> rfl
    · cases drv.wo d r.inputs with
      | mk d' resp => cases resp <;> rfl

/-- … and returns the very same thing, state included, when the item is a row or the end -/
theorem nextC_eq_next_of_row {δ : Type} (drv : Driver δ) (fuel : Nat) (s : RowIt) (d : δ) :
    (∀ r s' d' calls, RowIt.next tc drv fuel s d = .item (.row r) s' d' calls →
      RowIt.nextC tc drv fuel s d = .item (.row r) s' d' calls) ∧
    (∀ s' d', RowIt.next tc drv fuel s d = .none s' d' → RowIt.nextC tc drv fuel s d = .none s' d') := by
  unfold RowIt.nextC RowIt.next
  cases getRow tc fuel s with
  | err e => simp
  | panic m => simp
  | fuel => simp
  | none s' => simp
  | row r s' =>
    simp only
    split
    · cases drv.rw d r.inputs with
      | mk d' resp =>
        cases resp with
        | fail e => simp
        | ok outs =>
          simp only
          cases extractOutputs tc s'.outIdx s'.numOut outs (s'.ctx.setOutputs (outsOf outs)) with
          | mk res c2 => cases res <;> simp
    · cases drv.wo d r.inputs with
      | mk d' resp => cases resp <;> simp

end Dtr
