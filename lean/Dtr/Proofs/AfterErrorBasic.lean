import Dtr.Proofs.ScopeDiscipline
import Dtr.Model.AfterError
/-! What a failing evaluation leaves alone: everything but the generator. -/
namespace Dtr

theorem afterEval_fields (c : Ctx) (e : Expr) :
    (c.afterEval e).vars = c.vars ∧ (c.afterEval e).alt = c.alt ∧ (c.afterEval e).outs = c.outs := ⟨rfl, rfl, rfl⟩

theorem entryAfter_fields (d : DataEntry) (c : Ctx) :
    (entryAfter d c).vars = c.vars ∧ (entryAfter d c).alt = c.alt ∧ (entryAfter d c).outs = c.outs := by
  cases d <;> exact ⟨rfl, rfl, rfl⟩

theorem rowAfter_fields : ∀ (ds : List DataEntry) (c : Ctx),
    (rowAfter ds c).vars = c.vars ∧ (rowAfter ds c).alt = c.alt ∧ (rowAfter ds c).outs = c.outs
  | [], c => ⟨rfl, rfl, rfl⟩
  | d :: ds, c => by
    simp only [rowAfter]
    cases h : evalEntry d c with
    | ok p =>
      obtain ⟨es, c1⟩ := p
      have a := evalEntry_vars h
      have b := rowAfter_fields ds c1
      exact ⟨b.1.trans a.1, b.2.1.trans a.2.1, b.2.2.trans a.2.2⟩
    | err e => exact entryAfter_fields d c
    | panic m => exact entryAfter_fields d c

/-- a failing turn of the statement iterator touches nothing but the generator -/
theorem stepPost_fields : (it : It) → (c : Ctx) →
    (stepPost it c).2.vars = c.vars ∧ (stepPost it c).2.alt = c.alt ∧ (stepPost it c).2.outs = c.outs
  | .mk rest .iterate, c => by
    cases rest with
    | nil => exact ⟨rfl, rfl, rfl⟩
    | cons s rest' =>
      cases s with
      | letS name e => exact ⟨rfl, rfl, rfl⟩
      | row data line => exact rowAfter_fields data c
      | loop var max body => exact ⟨rfl, rfl, rfl⟩
      | resetRandom => exact ⟨rfl, rfl, rfl⟩
      | «while» cond body => exact ⟨rfl, rfl, rfl⟩
  | .mk rest (.startLoop ls), c => ⟨rfl, rfl, rfl⟩
  | .mk rest (.startInner ls), c => ⟨rfl, rfl, rfl⟩
  | .mk rest (.inner it ls), c => by simpa [stepPost] using stepPost_fields it c
  | .mk rest (.endInner ls), c => ⟨rfl, rfl, rfl⟩
  | .mk rest (.startWhile ws), c => ⟨rfl, rfl, rfl⟩
  | .mk rest (.whileInner it ws), c => by simpa [stepPost] using stepPost_fields it c

end Dtr
