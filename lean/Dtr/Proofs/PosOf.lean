import Dtr.Model.Bind
/-! `posOf` (`Iterator::position`) -/
namespace Dtr

theorem posOf_map {α β : Type} (p : β → Bool) (f : α → β) (l : List α) :
    posOf p (l.map f) = posOf (fun a => p (f a)) l := by
  induction l with
  | nil => rfl
  | cons a as ih => simp [posOf, ih]

theorem posOf_some {α : Type} (p : α → Bool) : ∀ (l : List α) (n : Nat), posOf p l = some n →
    ∃ h : n < l.length, p l[n] = true ∧ l.find? p = some l[n]
  | [], n, h => by simp [posOf] at h
  | a :: as, n, h => by
    simp only [posOf] at h
    by_cases hp : p a = true
    · simp only [hp, if_true, Option.some.injEq] at h
      subst h
      exact ⟨by simp, by simpa using hp, by simp [List.find?, hp]⟩
    · simp only [hp, Bool.false_eq_true, if_false, Option.map_eq_some_iff] at h
      obtain ⟨m, hm, rfl⟩ := h
      obtain ⟨hlt, hpm, hf⟩ := posOf_some p as m hm
      refine ⟨by simp; omega, by simpa using hpm, ?_⟩
      have : p a = false := by simpa using hp
      simp [List.find?, this, hf]

theorem posOf_none {α : Type} (p : α → Bool) : ∀ (l : List α), posOf p l = none → l.find? p = none
  | [], _ => rfl
  | a :: as, h => by
    simp only [posOf] at h
    by_cases hp : p a = true
    · simp [hp] at h
    · have hpa : p a = false := by simpa using hp
      simp only [hpa, Bool.false_eq_true, if_false, Option.map_eq_none_iff] at h
      simp [List.find?, hpa, posOf_none p as h]

end Dtr
