import Dtr.Model.Parser
/-!
# The parser terminates, and the locations of its errors are usable

A third pass over the parser model, with a triple `GT T P m Q` that — unlike `Triple` — does *not*
allow the "out of fuel" outcome and constrains the error outcome:

* from a state satisfying `P`, `m` does **not** run out of fuel;
* if it succeeds, `Q` holds;
* if it fails, every location of the error is usable (`LocOK T`): token indices exist (`< T`,
  the number of tokens) and a range does not run backwards.

`G T n st`: the state is a cursor into a list of `T` tokens (`pos + remaining = T`), at least at
`n`, and every recorded `declare` range is usable.  Fuel is a bound on the *depth* of the recursion;
each level either consumes a token before it descends or descends into a function that needs
strictly less, so `2 * remaining + c` is enough (`c` = 1, 2, 3 by function).
-/
namespace Dtr

/-- a location names tokens that exist, and a range does not run backwards -/
def LocOK (T : Nat) : Loc → Prop
  | .tok i => i < T
  | .range i j => i ≤ j ∧ j < T
  | .inputEnd => True

def PRes.GSat {α : Type} (T : Nat) (r : PRes α) (Q : α → PState → Prop) : Prop :=
  match r with
  | .ok a st => Q a st
  | .err _ l => ∀ loc ∈ l, LocOK T loc
  | .panic _ => True
  | .fuel => False

def GT {α : Type} (T : Nat) (P : PState → Prop) (m : PM α) (Q : α → PState → Prop) : Prop :=
  ∀ st, P st → (m st).GSat T Q

variable {T : Nat}

theorem PRes.GSat.mono {α : Type} {r : PRes α} {Q Q' : α → PState → Prop} (h : r.GSat T Q)
    (hq : ∀ a st, Q a st → Q' a st) : r.GSat T Q' := by
  cases r with
  | ok a st => exact hq a st h
  | err t l => exact h
  | panic s => trivial
  | fuel => exact h

theorem GT.bind {α β : Type} {P : PState → Prop} {Q : α → PState → Prop} {R : β → PState → Prop}
    {m : PM α} {f : α → PM β} (hm : GT T P m Q) (hf : ∀ a, GT T (Q a) (f a) R) :
    GT T P (m >>= f) R := by
  intro st hp
  have := hm st hp
  show (PM.bind m f st).GSat T R
  unfold PM.bind
  cases h : m st with
  | ok a st' => rw [h] at this; exact hf a st' this
  | err t l => rw [h] at this; exact this
  | panic s => trivial
  | fuel => rw [h] at this; exact this

theorem GT.pure {α : Type} {P : PState → Prop} {Q : α → PState → Prop} (a : α) (h : ∀ st, P st → Q a st) :
    GT T P (pure a : PM α) Q := fun st hp => h st hp

theorem GT.fail {α : Type} {P : PState → Prop} {Q : α → PState → Prop} (t : String) (l : List Loc)
    (h : ∀ st, P st → ∀ loc ∈ l, LocOK T loc) : GT T P (failP t l : PM α) Q := fun st hp => h st hp

theorem GT.weaken {α : Type} {P P' : PState → Prop} {Q Q' : α → PState → Prop} {m : PM α}
    (h : GT T P m Q) (hp : ∀ st, P' st → P st) (hq : ∀ a st, Q a st → Q' a st) : GT T P' m Q' :=
  fun st hp' => (h st (hp st hp')).mono hq

/-- a fact that does not mention the state moves into the context -/
theorem GT.assume {α : Type} {P : PState → Prop} {Q : α → PState → Prop} {m : PM α} {A : Prop}
    (h : A → GT T P m Q) : GT T (fun st => P st ∧ A) m Q := fun st hp => h hp.2 st hp.1

structure G (T n : Nat) (st : PState) : Prop where
  len : st.pos + st.toks.length = T
  lo : n ≤ st.pos
  virt : ∀ v ∈ st.virt, v.2.1.1 ≤ v.2.1.2 ∧ v.2.1.2 < T
  reads : ∀ r ∈ st.reads, r.2 < T
  expIn : ∀ r ∈ st.expIn, r.2 < T

theorem G.mono {n m : Nat} {st : PState} (h : G T n st) (hm : m ≤ n) : G T m st :=
  ⟨h.len, Nat.le_trans hm h.lo, h.virt, h.reads, h.expIn⟩

theorem G.lt {n : Nat} {st : PState} (h : G T (n + 1) st) : n < T := by
  have := h.len; have := h.lo; omega

/-! ### primitives -/

theorem g_get (n : Nat) : GT T (G T n) getTok (fun _ st' => G T (n + 1) st') := by
  intro st h
  unfold getTok
  cases ht : st.toks with
  | nil => intro loc hl; simp at hl; subst hl; trivial
  | cons t ts =>
    have h1 := h.len; have h2 := h.lo
    rw [ht] at h1
    simp only [List.length_cons] at h1
    exact ⟨by simp only; omega, by simp only; omega, h.virt, h.reads, h.expIn⟩

theorem g_peek (n : Nat) : GT T (G T n) peekTok (fun _ st' => G T n st') := by
  intro st h
  unfold peekTok
  cases ht : st.toks with
  | nil => trivial
  | cons t ts => exact h

theorem g_peekPos (n : Nat) : GT T (G T n) peekPos (fun p st' => G T p st' ∧ (n ≤ p ∧ p < T)) := by
  intro st h
  unfold peekPos
  cases ht : st.toks with
  | nil => trivial
  | cons t ts =>
    have h1 := h.len; have h2 := h.lo
    rw [ht] at h1
    simp only [List.length_cons] at h1
    exact ⟨⟨h.len, Nat.le_refl _, h.virt, h.reads, h.expIn⟩, h.lo, by omega⟩

theorem g_curPos (n : Nat) : GT T (G T n) curPos (fun i st' => G T i st' ∧ n ≤ i) :=
  fun st h => ⟨⟨h.len, Nat.le_refl _, h.virt, h.reads, h.expIn⟩, h.lo⟩

theorem g_getLine (n : Nat) : GT T (G T n) getLine (fun _ st' => G T n st') := fun _ h => h

theorem g_skip (n : Nat) : GT T (G T n) skipTok (fun _ st' => G T (n + 1) st') := by
  intro st h
  have := g_get n st h
  unfold skipTok
  cases hg : getTok st with
  | ok t st' => rw [hg] at this; exact this
  | err a b => trivial
  | panic m => trivial
  | fuel => trivial

theorem g_at (n : Nat) (k : Kind) : GT T (G T n) (atTok k) (fun _ st' => G T n st') := by
  unfold atTok
  refine GT.bind (g_peek n) (fun t => ?_)
  exact GT.pure _ (fun _ h => h)

theorem g_expect (n : Nat) (k : Kind) : GT T (G T n) (expectTok k) (fun _ st' => G T (n + 1) st') := by
  unfold expectTok
  refine GT.bind (g_curPos n) (fun i => ?_)
  refine GT.assume (fun hi => ?_)
  refine GT.bind (g_get i) (fun t => ?_)
  split
  · exact GT.pure _ (fun _ h => h.mono (by omega))
  · exact GT.fail _ _ (fun _ h loc hl => by simp at hl; subst hl; exact h.lt)

theorem g_expectIdent (n : Nat) : GT T (G T n) expectIdent (fun _ st' => G T (n + 1) st') := by
  unfold expectIdent
  refine GT.bind (g_curPos n) (fun i => ?_)
  refine GT.assume (fun hi => ?_)
  refine GT.bind (g_get i) (fun t => ?_)
  cases t with
  | ident s => exact GT.pure _ (fun _ h => h.mono (by omega))
  | sym k => exact GT.fail _ _ (fun _ h loc hl => by simp at hl; subst hl; exact h.lt)
  | num v => exact GT.fail _ _ (fun _ h loc hl => by simp at hl; subst hl; exact h.lt)

theorem g_parseNumber (n : Nat) : GT T (G T n) parseNumber (fun _ st' => G T (n + 1) st') := by
  unfold parseNumber
  refine GT.bind (g_curPos n) (fun i => ?_)
  refine GT.assume (fun hi => ?_)
  refine GT.bind (g_get i) (fun t => ?_)
  cases t with
  | num v =>
    cases v with
    | some x => exact GT.pure _ (fun _ h => h.mono (by omega))
    | none => exact GT.fail _ _ (fun _ h loc hl => by simp at hl; subst hl; exact h.lt)
  | sym k => exact GT.fail _ _ (fun _ h loc hl => by simp at hl; subst hl; exact h.lt)
  | ident s => exact GT.fail _ _ (fun _ h loc hl => by simp at hl; subst hl; exact h.lt)

/-- consume one token and fail at it -/
theorem g_getFail {α : Type} (n : Nat) (tag : String) (Q : α → PState → Prop) :
    GT T (G T n) (do let i ← curPos; let _ ← getTok; failP tag [.tok i] : PM α) Q := by
  refine GT.bind (g_curPos n) (fun i => ?_)
  refine GT.assume (fun hi => ?_)
  refine GT.bind (g_get i) (fun t => ?_)
  exact GT.fail _ _ (fun _ h loc hl => by simp at hl; subst hl; exact h.lt)

/-- operations on the recorded sets and the variable table keep the cursor and the `declare` ranges -/
theorem g_frame {α : Type} (n : Nat) (m : PM α)
    (hm : ∀ st, ∃ a st', m st = .ok a st' ∧ st'.toks = st.toks ∧ st'.pos = st.pos ∧ st'.virt = st.virt ∧
      st'.reads = st.reads ∧ st'.expIn = st.expIn) :
    GT T (G T n) m (fun _ st' => G T n st') := by
  intro st h
  obtain ⟨a, st', hr, ht, hp, hv, hrd, hei⟩ := hm st
  rw [hr]
  exact ⟨by rw [ht, hp]; exact h.len, by rw [hp]; exact h.lo, by rw [hv]; exact h.virt,
    by rw [hrd]; exact h.reads, by rw [hei]; exact h.expIn⟩

theorem g_modVars (n : Nat) (f : FMap Unit → FMap Unit) : GT T (G T n) (modVars f) (fun _ st' => G T n st') :=
  g_frame n _ (fun st => ⟨(), _, rfl, rfl, rfl, rfl, rfl, rfl⟩)

theorem g_getVars (n : Nat) : GT T (G T n) getVars (fun _ st' => G T n st') :=
  g_frame n _ (fun st => ⟨_, _, rfl, rfl, rfl, rfl, rfl, rfl⟩)

/-- the token index recorded for a read or a `C` is that of a token just consumed -/
theorem g_recordRead (i : Nat) (name : String) :
    GT T (G T (i + 1)) (recordRead name i) (fun _ st' => G T (i + 1) st') := by
  intro st h
  unfold recordRead
  split
  · exact h
  · split
    · exact h
    · refine ⟨h.len, h.lo, h.virt, ?_, h.expIn⟩
      intro r hr
      simp only [List.mem_append, List.mem_cons, List.mem_nil_iff, or_false] at hr
      rcases hr with hr | rfl
      · exact h.reads r hr
      · exact h.lt

theorem g_recordC (i : Nat) (name : String) :
    GT T (G T (i + 1)) (recordC name i) (fun _ st' => G T (i + 1) st') := by
  intro st h
  unfold recordC
  split
  · exact h
  · refine ⟨h.len, h.lo, h.virt, h.reads, ?_⟩
    intro r hr
    simp only [List.mem_append, List.mem_cons, List.mem_nil_iff, or_false] at hr
    rcases hr with hr | rfl
    · exact h.expIn r hr
    · exact h.lt

theorem g_declareVirt (n : Nat) (name : String) (start stop : Nat) (e : Expr) (h1 : start ≤ stop) (h2 : stop < T) :
    GT T (G T n) (declareVirt name start stop e) (fun _ st' => G T n st') := by
  intro st h
  unfold declareVirt
  cases hf : st.virt.find? (fun v => v.1 == name) with
  | some prev =>
    have hm := List.mem_of_find?_eq_some hf
    intro loc hl
    simp only [List.mem_cons, List.mem_nil_iff, or_false] at hl
    rcases hl with rfl | rfl
    · exact h.virt prev hm
    · exact ⟨h1, h2⟩
  | none =>
    refine ⟨h.len, h.lo, ?_, h.reads, h.expIn⟩
    intro v hv
    simp only [List.mem_append, List.mem_cons, List.mem_nil_iff, or_false] at hv
    rcases hv with hv | rfl
    · exact h.virt v hv
    · exact ⟨h1, h2⟩

/-- from a spec relative to the position `p` and the number `L` of remaining tokens at entry to the
form used at call sites -/
theorem GT.ofBase {α : Type} {m : PM α} {c f : Nat}
    (h : ∀ p L, p + L = T → 2 * L + c ≤ f → GT T (G T p) m (fun _ st' => G T p st')) :
    ∀ n, GT T (fun st => G T n st ∧ 2 * st.toks.length + c ≤ f) m (fun _ st' => G T n st') := by
  intro n st ⟨hg, hf⟩
  exact (h st.pos st.toks.length hg.len hf st ⟨hg.len, Nat.le_refl _, hg.virt, hg.reads, hg.expIn⟩).mono
    (fun a st' h' => h'.mono hg.lo)

/-! ### expressions -/

structure ExprF (T f : Nat) : Prop where
  expr : ∀ n, GT T (fun st => G T n st ∧ 2 * st.toks.length + 2 ≤ f) (parseExpr f) (fun _ st' => G T n st')
  chain : ∀ t n, GT T (fun st => G T n st ∧ 2 * st.toks.length + 1 ≤ f) (chain f t) (fun _ st' => G T n st')
  factor : ∀ n, GT T (fun st => G T n st ∧ 2 * st.toks.length + 1 ≤ f) (parseFactor f) (fun _ st' => G T n st')
  args : ∀ acc n, GT T (fun st => G T n st ∧ 2 * st.toks.length + 1 ≤ f) (parseArgs f acc) (fun _ st' => G T n st')

/-- the fuel condition of a call made `k` tokens into a function that was entered at `p` with `L` left -/
theorem fuelAt {p L k c c' f : Nat} {st : PState} (hT : p + L = T) (hf : 2 * L + c ≤ f + 1)
    (h : G T (p + k) st) (hc : c' + 1 ≤ c + 2 * k) : 2 * st.toks.length + c' ≤ f := by
  have := h.len; have := h.lo; omega

theorem exprF : ∀ f, ExprF T f := by
  intro f
  induction f with
  | zero =>
    refine ⟨fun n st h => ?_, fun t n st h => ?_, fun n st h => ?_, fun acc n st h => ?_⟩ <;>
      (have := h.2; omega)
  | succ f ih =>
    refine ⟨GT.ofBase ?_, fun t => GT.ofBase ?_, GT.ofBase ?_, fun acc => GT.ofBase ?_⟩
    · -- parseExpr
      intro p L hT hf
      simp only [parseExpr]
      refine GT.bind (GT.weaken (ih.factor p) (fun st h => ⟨h, fuelAt (k := 0) hT hf h (by omega)⟩) (fun _ _ h => h))
        (fun first => ?_)
      exact GT.weaken (ih.chain _ p) (fun st h => ⟨h, fuelAt (k := 0) hT hf h (by omega)⟩) (fun _ _ h => h)
    · -- chain
      intro p L hT hf
      simp only [chain]
      refine GT.bind (g_peek p) (fun tk => ?_)
      cases hb : binOpOf tk with
      | none => exact GT.pure _ (fun st h => h)
      | some o =>
        simp only
        refine GT.bind (g_get p) (fun _ => ?_)
        refine GT.bind (GT.weaken (ih.factor (p + 1)) (fun st h => ⟨h, fuelAt (k := 1) hT hf h (by omega)⟩)
          (fun _ _ h => h)) (fun e => ?_)
        exact GT.weaken (ih.chain _ (p + 1)) (fun st h => ⟨h, fuelAt (k := 1) hT hf h (by omega)⟩)
          (fun _ _ h => h.mono (by omega))
    · -- parseFactor
      intro p L hT hf
      simp only [parseFactor]
      refine GT.bind (g_peek p) (fun tk => ?_)
      cases tk with
      | num v =>
        simp only
        refine GT.bind (g_parseNumber p) (fun x => ?_)
        exact GT.pure _ (fun st h => h.mono (by omega))
      | ident name =>
        simp only
        refine GT.bind (g_curPos p) (fun i => ?_)
        refine GT.assume (fun hi => ?_)
        refine GT.bind (g_get i) (fun _ => ?_)
        refine GT.bind (g_at (i + 1) .LParen) (fun b => ?_)
        cases b with
        | true =>
          simp only [if_true]
          cases funcArity name with
          | none => exact GT.fail _ _ (fun _ h loc hl => by simp at hl; subst hl; exact h.lt)
          | some ar =>
            simp only
            refine GT.bind (GT.weaken (ih.args [] (i + 1))
              (fun st h => ⟨h, fuelAt (k := 1) hT hf (h.mono (by omega)) (by omega)⟩) (fun _ _ h => h)) (fun args => ?_)
            refine GT.bind (g_expect (i + 1) .RParen) (fun _ => ?_)
            split
            · refine GT.bind (g_peekPos (i + 1 + 1)) (fun j => ?_)
              refine GT.assume (fun hj => ?_)
              exact GT.fail _ _ (fun st h loc hl => by simp at hl; subst hl; exact ⟨by omega, hj.2⟩)
            · exact GT.pure _ (fun st h => h.mono (by omega))
        | false =>
          simp only [Bool.false_eq_true, if_false]
          refine GT.bind (g_recordRead i name) (fun _ => ?_)
          exact GT.pure _ (fun st h => h.mono (by omega))
      | sym k =>
        simp only
        cases hu : unOpOf (.sym k) with
        | some u =>
          simp only
          refine GT.bind (g_skip p) (fun _ => ?_)
          refine GT.bind (GT.weaken (ih.factor (p + 1)) (fun st h => ⟨h, fuelAt (k := 1) hT hf h (by omega)⟩)
            (fun _ _ h => h)) (fun e => ?_)
          exact GT.pure _ (fun st h => h.mono (by omega))
        | none =>
          simp only
          by_cases hk : k = .LParen
          · simp only [hk, if_true]
            refine GT.bind (g_skip p) (fun _ => ?_)
            refine GT.bind (GT.weaken (ih.expr (p + 1)) (fun st h => ⟨h, fuelAt (k := 1) hT hf h (by omega)⟩)
              (fun _ _ h => h)) (fun e => ?_)
            refine GT.bind (g_expect (p + 1) .RParen) (fun _ => ?_)
            exact GT.pure _ (fun st h => h.mono (by omega))
          · simp only [hk, if_false]
            exact g_getFail p _ _
    · -- parseArgs
      intro p L hT hf
      simp only [parseArgs]
      refine GT.bind (g_skip p) (fun _ => ?_)
      refine GT.bind (GT.weaken (ih.expr (p + 1)) (fun st h => ⟨h, fuelAt (k := 1) hT hf h (by omega)⟩)
        (fun _ _ h => h)) (fun e => ?_)
      refine GT.bind (g_at (p + 1) .Comma) (fun b => ?_)
      cases b with
      | true =>
        simp only [if_true]
        exact GT.weaken (ih.args _ (p + 1)) (fun st h => ⟨h, fuelAt (k := 1) hT hf h (by omega)⟩)
          (fun _ _ h => h.mono (by omega))
      | false =>
        simp only [Bool.false_eq_true, if_false]
        exact GT.pure _ (fun st h => h.mono (by omega))

/-! ### rows -/

theorem rowLoopF (hdr : List String) : ∀ (f : Nat) (data : List DataEntry) (idx n : Nat),
    GT T (fun st => G T n st ∧ 2 * st.toks.length + 1 ≤ f) (rowLoop hdr f data idx) (fun _ st' => G T n st') := by
  intro f
  induction f with
  | zero => intro data idx n st h; have := h.2; omega
  | succ f ih =>
    intro data idx
    refine GT.ofBase ?_
    intro p L hT hf
    have hE := exprF (T := T) f
    simp only [rowLoop]
    refine GT.bind (g_peek p) (fun tk => ?_)
    split
    · -- ( expr )
      refine GT.bind (g_skip p) (fun _ => ?_)
      refine GT.bind (GT.weaken (hE.expr (p + 1)) (fun st h => ⟨h, fuelAt (k := 1) hT hf h (by omega)⟩)
        (fun _ _ h => h)) (fun e => ?_)
      refine GT.bind (g_expect (p + 1) .RParen) (fun _ => ?_)
      exact GT.weaken (ih _ _ (p + 1 + 1)) (fun st h => ⟨h, fuelAt (k := 2) hT hf h (by omega)⟩)
        (fun _ _ h => h.mono (by omega))
    · -- bits ( k , expr )
      refine GT.bind (g_skip p) (fun _ => ?_)
      refine GT.bind (g_expect (p + 1) .LParen) (fun _ => ?_)
      refine GT.bind (g_peekPos (p + 1 + 1)) (fun at_ => ?_)
      refine GT.assume (fun hat => ?_)
      refine GT.bind (g_parseNumber at_) (fun k => ?_)
      split
      · exact GT.fail _ _ (fun _ h loc hl => by simp at hl; subst hl; exact h.lt)
      · refine GT.bind (g_expect (at_ + 1) .Comma) (fun _ => ?_)
        refine GT.bind (GT.weaken (hE.expr (at_ + 1 + 1))
          (fun st h => ⟨h, fuelAt (k := 1) hT hf (h.mono (by omega)) (by omega)⟩) (fun _ _ h => h)) (fun e => ?_)
        refine GT.bind (g_expect (at_ + 1 + 1) .RParen) (fun _ => ?_)
        exact GT.weaken (ih _ _ (at_ + 1 + 1 + 1))
          (fun st h => ⟨h, fuelAt (k := 1) hT hf (h.mono (by omega)) (by omega)⟩) (fun _ _ h => h.mono (by omega))
    · -- identifier: C / X / Z
      refine GT.bind (g_curPos p) (fun i => ?_)
      refine GT.assume (fun hi => ?_)
      refine GT.bind (g_get i) (fun _ => ?_)
      have next : ∀ d x, GT T (G T (i + 1)) (rowLoop hdr f d x) (fun _ st' => G T p st') := fun d x =>
        GT.weaken (ih d x (i + 1)) (fun st h => ⟨h, fuelAt (k := 1) hT hf (h.mono (by omega)) (by omega)⟩)
          (fun _ _ h => h.mono (by omega))
      split
      · split
        · refine GT.bind (g_recordC i _) (fun _ => ?_)
          exact next _ _
        · exact next _ _
      · split
        · exact next _ _
        · split
          · exact next _ _
          · exact GT.fail _ _ (fun _ h loc hl => by simp at hl; subst hl; exact h.lt)
    · -- number
      refine GT.bind (g_parseNumber p) (fun k => ?_)
      exact GT.weaken (ih _ _ (p + 1)) (fun st h => ⟨h, fuelAt (k := 1) hT hf h (by omega)⟩)
        (fun _ _ h => h.mono (by omega))
    · exact GT.pure _ (fun st h => h)
    · exact GT.pure _ (fun st h => h)
    · exact g_getFail p _ _

theorem parseRowF (hdr : List String) (f : Nat) :
    ∀ n, GT T (fun st => G T n st ∧ 2 * st.toks.length + 1 ≤ f) (parseRow hdr f) (fun _ st' => G T n st') := by
  refine GT.ofBase ?_
  intro p L hT hf
  unfold parseRow
  refine GT.bind (g_peekPos p) (fun rowStart => ?_)
  refine GT.assume (fun hs => ?_)
  refine GT.bind (GT.weaken (rowLoopF hdr f [] 0 rowStart)
    (fun st h => ⟨h, by have := h.len; have := h.lo; omega⟩) (fun _ _ h => h)) (fun r => ?_)
  obtain ⟨data, idx⟩ := r
  simp only
  refine GT.bind (g_peekPos rowStart) (fun rowEnd => ?_)
  refine GT.assume (fun he => ?_)
  split
  · exact GT.fail _ _ (fun _ h loc hl => by simp at hl; subst hl; exact ⟨he.1, he.2⟩)
  · exact GT.pure _ (fun st h => h.mono (by omega))

/-! ### statements and blocks -/

structure BlockF (T : Nat) (hdr : List String) (f : Nat) : Prop where
  stmt : ∀ endTok n, GT T (fun st => G T n st ∧ 2 * st.toks.length + 2 ≤ f) (parseStmt hdr f endTok)
    (fun _ st' => G T n st')
  block : ∀ endTok acc n, GT T (fun st => G T n st ∧ 2 * st.toks.length + 3 ≤ f) (parseBlock hdr f endTok acc)
    (fun _ st' => G T n st')

theorem blockF (hdr : List String) : ∀ f, BlockF T hdr f := by
  intro f
  induction f with
  | zero => refine ⟨fun e n st h => ?_, fun e acc n st h => ?_⟩ <;> (have := h.2; omega)
  | succ f ih =>
    have hE := exprF (T := T) f
    refine ⟨fun endTok => GT.ofBase ?_, fun endTok acc => GT.ofBase ?_⟩
    · -- parseStmt
      intro p L hT hf
      have expr : ∀ k, GT T (G T (p + (k + 1))) (parseExpr f) (fun _ st' => G T (p + (k + 1)) st') := fun k =>
        GT.weaken (hE.expr (p + (k + 1))) (fun st h => ⟨h, fuelAt (k := k + 1) hT hf h (by omega)⟩) (fun _ _ h => h)
      have row : ∀ k, GT T (G T (p + k)) (parseRow hdr f) (fun _ st' => G T (p + k) st') := fun k =>
        GT.weaken (parseRowF hdr f (p + k)) (fun st h => ⟨h, fuelAt (k := k) hT hf h (by omega)⟩) (fun _ _ h => h)
      have block : ∀ k e, GT T (G T (p + (k + 1))) (parseBlock hdr f e []) (fun _ st' => G T (p + (k + 1)) st') :=
        fun k e => GT.weaken (ih.block e [] (p + (k + 1)))
          (fun st h => ⟨h, fuelAt (k := k + 1) hT hf h (by omega)⟩) (fun _ _ h => h)
      simp only [parseStmt]
      refine GT.bind (g_peek p) (fun tk => ?_)
      split
      · -- a data row
        refine GT.bind (row 0) (fun data => ?_)
        refine GT.bind (g_getLine _) (fun line => ?_)
        exact GT.pure _ (fun st h => h)
      · split
        · -- loop
          refine GT.bind (g_skip p) (fun _ => ?_)
          refine GT.bind (g_expect (p + 1) .LParen) (fun _ => ?_)
          refine GT.bind (g_expectIdent (p + 1 + 1)) (fun vi => ?_)
          obtain ⟨v, _⟩ := vi
          simp only
          refine GT.bind (g_expect (p + 1 + 1 + 1) .Comma) (fun _ => ?_)
          refine GT.bind (expr 3) (fun max => ?_)
          refine GT.bind (g_expect (p + (3 + 1)) .RParen) (fun _ => ?_)
          refine GT.bind (g_expect (p + (3 + 1) + 1) .Eol) (fun _ => ?_)
          refine GT.bind (g_modVars _ _) (fun _ => ?_)
          refine GT.bind (block 5 _) (fun inner => ?_)
          refine GT.bind (g_modVars _ _) (fun _ => ?_)
          exact GT.pure _ (fun st h => h.mono (by omega))
        · -- repeat
          refine GT.bind (g_skip p) (fun _ => ?_)
          refine GT.bind (g_expect (p + 1) .LParen) (fun _ => ?_)
          refine GT.bind (expr 1) (fun max => ?_)
          refine GT.bind (g_expect (p + (1 + 1)) .RParen) (fun _ => ?_)
          refine GT.bind (g_modVars _ _) (fun _ => ?_)
          refine GT.bind (row 3) (fun data => ?_)
          refine GT.bind (g_modVars _ _) (fun _ => ?_)
          refine GT.bind (g_getLine _) (fun line => ?_)
          exact GT.pure _ (fun st h => h.mono (by omega))
        · -- let
          refine GT.bind (g_skip p) (fun _ => ?_)
          refine GT.bind (g_expectIdent (p + 1)) (fun vi => ?_)
          obtain ⟨name, _⟩ := vi
          simp only
          refine GT.bind (g_expect (p + 1 + 1) .Equal) (fun _ => ?_)
          refine GT.bind (expr 2) (fun e => ?_)
          refine GT.bind (g_expect (p + (2 + 1)) .Semi) (fun _ => ?_)
          refine GT.bind (g_modVars _ _) (fun _ => ?_)
          exact GT.pure _ (fun st h => h.mono (by omega))
        · -- resetRandom
          refine GT.bind (g_skip p) (fun _ => ?_)
          refine GT.bind (g_expect (p + 1) .Semi) (fun _ => ?_)
          exact GT.pure _ (fun st h => h.mono (by omega))
        · -- while
          refine GT.bind (g_skip p) (fun _ => ?_)
          refine GT.bind (g_expect (p + 1) .LParen) (fun _ => ?_)
          refine GT.bind (expr 1) (fun cond => ?_)
          refine GT.bind (g_expect (p + (1 + 1)) .RParen) (fun _ => ?_)
          refine GT.bind (g_expect (p + (1 + 1) + 1) .Eol) (fun _ => ?_)
          refine GT.bind (block 3 _) (fun inner => ?_)
          exact GT.pure _ (fun st h => h.mono (by omega))
        · -- declare
          refine GT.bind (g_peekPos p) (fun start => ?_)
          refine GT.assume (fun hs => ?_)
          refine GT.bind (g_skip start) (fun _ => ?_)
          refine GT.bind (g_expectIdent (start + 1)) (fun vi => ?_)
          obtain ⟨name, _⟩ := vi
          simp only
          refine GT.bind (g_expect (start + 1 + 1) .Equal) (fun _ => ?_)
          refine GT.bind (g_getVars _) (fun saved => ?_)
          refine GT.bind (g_modVars _ _) (fun _ => ?_)
          refine GT.bind (GT.weaken (hE.expr (start + 1 + 1 + 1))
            (fun st h => ⟨h, fuelAt (k := 3) hT hf (h.mono (by omega)) (by omega)⟩) (fun _ _ h => h)) (fun e => ?_)
          refine GT.bind (g_modVars _ _) (fun _ => ?_)
          refine GT.bind (g_expect (start + 1 + 1 + 1) .Semi) (fun _ => ?_)
          refine GT.bind (g_peekPos (start + 1 + 1 + 1 + 1)) (fun stop => ?_)
          refine GT.assume (fun he => ?_)
          exact GT.weaken (g_declareVirt stop name start stop e (by omega) he.2) (fun _ h => h)
            (fun _ _ h => h.mono (by omega))
        · -- end
          split
          · refine GT.bind (g_skip p) (fun _ => ?_)
            refine GT.bind (g_expect (p + 1) _) (fun _ => ?_)
            exact GT.pure _ (fun st h => h.mono (by omega))
          · exact g_getFail p _ _
        · -- Eof
          refine GT.bind (g_curPos p) (fun i => ?_)
          refine GT.assume (fun hi => ?_)
          refine GT.bind (g_get i) (fun _ => ?_)
          split
          · exact GT.fail _ _ (fun _ h loc hl => by simp at hl; subst hl; exact h.lt)
          · exact GT.pure _ (fun st h => h.mono (by omega))
        · -- Eol
          exact GT.pure _ (fun st h => h)
        · split
          · exact g_getFail p _ _
          · exact g_getFail p _ _
        · exact g_getFail p _ _
    · -- parseBlock
      intro p L hT hf
      simp only [parseBlock]
      refine GT.bind (GT.weaken (ih.stmt endTok p) (fun st h => ⟨h, fuelAt (k := 0) hT hf h (by omega)⟩)
        (fun _ _ h => h)) (fun out => ?_)
      have cont : ∀ (block' : List Stmt),
          GT T (G T p)
            (do
              if (← atTok .Eof) then
                if endTok.isSome then do
                  let i ← curPos
                  let _ ← getTok
                  failP "UnexpectedEof" [.tok i]
                else pure block'
              else if (← atTok .Eol) then do
                skipTok
                parseBlock hdr f endTok block'
              else do
                let i ← curPos
                let _ ← getTok
                failP "ExpectedNewLine" [.tok i])
            (fun _ st' => G T p st') := by
        intro block'
        refine GT.bind (g_at p .Eof) (fun b => ?_)
        cases b with
        | true =>
          simp only [if_true]
          split
          · exact g_getFail p _ _
          · exact GT.pure _ (fun st h => h)
        | false =>
          simp only [Bool.false_eq_true, if_false]
          refine GT.bind (g_at p .Eol) (fun b2 => ?_)
          cases b2 with
          | true =>
            simp only [if_true]
            refine GT.bind (g_skip p) (fun _ => ?_)
            exact GT.weaken (ih.block endTok block' (p + 1))
              (fun st h => ⟨h, fuelAt (k := 1) hT hf h (by omega)⟩) (fun _ _ h => h.mono (by omega))
          | false =>
            simp only [Bool.false_eq_true, if_false]
            exact g_getFail p _ _
      cases out with
      | closed => exact GT.pure _ (fun st h => h)
      | pushed s => exact cont _
      | nothing => exact cont _

/-- **The body parser does not run out of fuel**, and the locations of any error it returns are usable -/
theorem parseBody_gsat (hdr : List String) (line : Nat) (atoks : List ATok) :
    (parseBody hdr line atoks).GSat atoks.length (fun _ st' => G atoks.length 0 st') := by
  unfold parseBody
  refine (blockF (T := atoks.length) hdr (parseFuel atoks.length)).block none [] 0 _
    ⟨⟨?_, Nat.zero_le _, ?_, ?_, ?_⟩, ?_⟩
  · simp
  · intro v hv; cases hv
  · intro v hv; cases hv
  · intro v hv; cases hv
  · simp only [parseFuel]; omega

end Dtr
