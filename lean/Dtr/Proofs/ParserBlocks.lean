import Dtr.Proofs.ParserTotal
/-! Statements and blocks: no panic, block closure, row widths and line numbers -/
namespace Dtr
variable {all : List ATok} {l0 : Nat}

theorem closed_lt (hall : all.getLast? = some (.sym .Eof)) (n : Nat) (k : Kind) (hk : k ≠ .Eof) (p : Nat) (hp : p ≤ all.length)
    (h : Closed all n (some k) p) : p < all.length := by
  obtain ⟨h2, _, hk'⟩ := h
  by_cases hlt : p < all.length
  · exact hlt
  · exfalso
    have hpe : p = all.length := by omega
    have : all.getLast? = some (.sym k) := by
      rw [List.getLast?_eq_getElem?, ← hpe]; exact hk'
    rw [hall] at this
    have := Option.some.inj this
    cases this
    exact hk rfl

theorem spec_declareVirt (n : Nat) (name : String) (a b : Nat) (e : Expr) :
    Triple (JT all l0 n) (declareVirt name a b e) (fun out st' => JT all l0 n st' ∧ out = .nothing) := by
  intro st h
  unfold declareVirt
  split
  · trivial
  · obtain ⟨hc, hn, hlt, _⟩ := h
    exact ⟨⟨⟨hc.toks, hc.line, hc.le⟩, hn, hlt, trivial⟩, rfl⟩

/-! uniform-bound versions of the primitive specifications -/
theorem expN (hall : all.getLast? = some (.sym .Eof)) (n : Nat) (k : Kind) (hk : k ≠ .Eof) :
    Triple (JT all l0 n) (expectTok k) (fun _ st' => JT all l0 n st') :=
  Triple.weaken (spec_expect_any hall n k hk) (fun _ h => h) (fun _ _ h => h.1.mono (by omega))

theorem identN (hall : all.getLast? = some (.sym .Eof)) (n : Nat) :
    Triple (JT all l0 n) expectIdent (fun _ st' => JT all l0 n st') :=
  Triple.weaken (spec_expectIdent hall (stable_true all) n) (fun _ h => h) (fun _ _ h => h.mono (by omega))

theorem skipN (hall : all.getLast? = some (.sym .Eof)) (n : Nat) (t : ATok) (hne : t ≠ .sym .Eof) :
    Triple (fun st => JT all l0 n st ∧ all[st.pos]? = some t) skipTok (fun _ st' => JT all l0 n st') :=
  Triple.weaken (spec_skip_any hall n t hne) (fun _ h => h) (fun _ _ h => h.1.mono (by omega))

/-- `peek_span` does not change the state: any further precondition survives -/
theorem spec_peekPos_keep (n : Nat) (P : PState → Prop) :
    Triple (fun st => JT all l0 n st ∧ P st) peekPos (fun p st' => (JT all l0 n st' ∧ P st') ∧ p = st'.pos) := by
  intro st h
  obtain ⟨t, rest, ht, _⟩ := h.1.tok
  simp only [peekPos, ht, PRes.Sat]
  exact ⟨h, trivial⟩

theorem getFail (hall : all.getLast? = some (.sym .Eof)) (n : Nat) {α : Type} (tag : String) (locs : Nat → List Loc)
    (Q : α → PState → Prop) :
    Triple (JT all l0 n) (do let i ← curPos; let _ ← getTok; failP tag (locs i) : PM α) Q := by
  refine Triple.bind (spec_curPos_keep _) (fun i => ?_)
  refine Triple.bind (Triple.weaken (spec_get hall (stable_true all) n) (fun st h => h.1) (fun _ _ h => h)) (fun _ => ?_)
  exact Triple.fail _ _

structure BlockOK (all : List ATok) (l0 : Nat) (hdr : List String) (f : Nat) : Prop where
  stmt : ∀ n endTok, (∀ k, endTok = some k → k ≠ .Eof) →
    Triple (JT all l0 n) (parseStmt hdr f endTok) (StmtPost all l0 hdr.length n endTok)
  block : ∀ n endTok acc, (∀ k, endTok = some k → k ≠ .Eof) → Stmts.ok all l0 hdr.length acc →
    Triple (JT all l0 n) (parseBlock hdr f endTok acc)
      (fun b st' => K all l0 n st' ∧ Stmts.ok all l0 hdr.length b ∧ Closed all n endTok st'.pos)

theorem JT.toK {n : Nat} {st : PState} (h : JT all l0 n st) : K all l0 n st := ⟨h.1, h.2.1⟩

theorem blockOK (hall : all.getLast? = some (.sym .Eof)) (hdr : List String) : ∀ f, BlockOK all l0 hdr f := by
  intro f
  induction f with
  | zero => exact ⟨fun _ _ _ => Triple.fuel, fun _ _ _ _ _ => Triple.fuel⟩
  | succ f ih =>
    have hE := exprOK (l0 := l0) hall (stable_true all) f
    refine ⟨?_, ?_⟩
    · -- parseStmt
      intro n endTok hend
      simp only [parseStmt]
      refine Triple.bind (spec_peek n) (fun tk => ?_)
      split
      · -- a data row
        intro st h
        have key : ∀ p, Triple (fun st => JT all l0 n st ∧ st.pos = p)
            (do let data ← parseRow hdr f; let line ← getLine; pure (StmtOut.pushed (.row data line)))
            (StmtPost all l0 hdr.length n endTok) := by
          intro p
          refine Triple.bind (parseRow_line hall hdr f n p) (fun data => ?_)
          refine Triple.bind (spec_getLine_keep _) (fun line => ?_)
          refine Triple.pure _ ?_
          intro st ⟨⟨hj, _, hw, hb, hp, hl⟩, hline⟩
          exact ⟨⟨hj.1, hj.2.1⟩, ⟨hw, hb, p, hp, by rw [hline, hl]⟩, hj.2.2.1⟩
        exact key st.pos st ⟨h.1, rfl⟩
      · split
        · -- loop
          refine Triple.bind (skipN hall n (.sym .Loop) (by simp)) (fun _ => ?_)
          refine Triple.bind (expN hall n .LParen (by decide)) (fun _ => ?_)
          refine Triple.bind (identN hall n) (fun vi => ?_)
          obtain ⟨v, _⟩ := vi
          simp only
          refine Triple.bind (expN hall n .Comma (by decide)) (fun _ => ?_)
          refine Triple.bind (hE.expr n) (fun max => ?_)
          refine Triple.bind (expN hall n .RParen (by decide)) (fun _ => ?_)
          refine Triple.bind (expN hall n .Eol (by decide)) (fun _ => ?_)
          refine Triple.bind (spec_modVars n _) (fun _ => ?_)
          refine Triple.bind (ih.block n (some .Loop) [] (by intro k hk; cases hk; decide) trivial) (fun inner => ?_)
          refine Triple.bind (P := fun st => K all l0 n st ∧ Stmts.ok all l0 hdr.length inner ∧ Closed all n (some .Loop) st.pos)
            (Q := fun _ st' => K all l0 n st' ∧ Stmts.ok all l0 hdr.length inner ∧ Closed all n (some .Loop) st'.pos) ?_ (fun _ => ?_)
          · intro st ⟨hk, ho, hc⟩
            exact ⟨⟨⟨hk.1.toks, hk.1.line, hk.1.le⟩, hk.2⟩, ho, hc⟩
          · refine Triple.pure _ ?_
            intro st ⟨hk, ho, hc⟩
            exact ⟨hk, ho, closed_lt hall n .Loop (by decide) st.pos hk.1.le hc⟩
        · -- repeat
          refine Triple.bind (skipN hall n (.sym .Repeat) (by simp)) (fun _ => ?_)
          refine Triple.bind (expN hall n .LParen (by decide)) (fun _ => ?_)
          refine Triple.bind (hE.expr n) (fun max => ?_)
          refine Triple.bind (expN hall n .RParen (by decide)) (fun _ => ?_)
          refine Triple.bind (spec_modVars n _) (fun _ => ?_)
          intro st h
          have key : ∀ p, Triple (fun st => JT all l0 n st ∧ st.pos = p)
              (do let data ← parseRow hdr f; modVars FMap.popFrame; let line ← getLine
                  pure (StmtOut.pushed (.loop "n" max [.row data line])))
              (StmtPost all l0 hdr.length n endTok) := by
            intro p
            refine Triple.bind (parseRow_line hall hdr f n p) (fun data => ?_)
            refine Triple.bind (P := fun st => JT all l0 n st ∧ EndsRow all st.pos ∧ rowWidth data = hdr.length ∧
                bitsOK data ∧ p ≤ all.length ∧ st.line = l0 + countEol (all.take p))
              (Q := fun _ st' => JT all l0 n st' ∧ rowWidth data = hdr.length ∧
                bitsOK data ∧ p ≤ all.length ∧ st'.line = l0 + countEol (all.take p)) ?_ (fun _ => ?_)
            · intro st ⟨hj, _, hw, hb, hp, hl⟩
              obtain ⟨hc, hn, hlt, _⟩ := hj
              exact ⟨⟨⟨hc.toks, hc.line, hc.le⟩, hn, hlt, trivial⟩, hw, hb, hp, hl⟩
            · refine Triple.bind (spec_getLine_keep _) (fun line => ?_)
              refine Triple.pure _ ?_
              intro st ⟨⟨hj, hw, hb, hp, hl⟩, hline⟩
              exact ⟨⟨hj.1, hj.2.1⟩, ⟨⟨hw, hb, p, hp, by rw [hline, hl]⟩, trivial⟩, hj.2.2.1⟩
          exact key st.pos st ⟨h, rfl⟩
        · -- let
          refine Triple.bind (skipN hall n (.sym .Let) (by simp)) (fun _ => ?_)
          refine Triple.bind (identN hall n) (fun vi => ?_)
          obtain ⟨name, _⟩ := vi
          simp only
          refine Triple.bind (expN hall n .Equal (by decide)) (fun _ => ?_)
          refine Triple.bind (hE.expr n) (fun e => ?_)
          refine Triple.bind (expN hall n .Semi (by decide)) (fun _ => ?_)
          refine Triple.bind (spec_modVars n _) (fun _ => ?_)
          exact Triple.pure _ (fun st hj => ⟨⟨hj.1, hj.2.1⟩, trivial, hj.2.2.1⟩)
        · -- resetRandom
          refine Triple.bind (skipN hall n (.sym .ResetRandom) (by simp)) (fun _ => ?_)
          refine Triple.bind (expN hall n .Semi (by decide)) (fun _ => ?_)
          exact Triple.pure _ (fun st hj => ⟨⟨hj.1, hj.2.1⟩, trivial, hj.2.2.1⟩)
        · -- while
          refine Triple.bind (skipN hall n (.sym .While) (by simp)) (fun _ => ?_)
          refine Triple.bind (expN hall n .LParen (by decide)) (fun _ => ?_)
          refine Triple.bind (hE.expr n) (fun cond => ?_)
          refine Triple.bind (expN hall n .RParen (by decide)) (fun _ => ?_)
          refine Triple.bind (expN hall n .Eol (by decide)) (fun _ => ?_)
          refine Triple.bind (ih.block n (some .While) [] (by intro k hk; cases hk; decide) trivial) (fun inner => ?_)
          refine Triple.pure _ ?_
          intro st ⟨hk, ho, hc⟩
          exact ⟨hk, ho, closed_lt hall n .While (by decide) st.pos hk.1.le hc⟩
        · -- declare
          refine Triple.bind (spec_peekPos_keep n _) (fun start => ?_)
          refine Triple.bind (Triple.weaken (skipN hall n (.sym .Declare) (by simp)) (fun st h => h.1) (fun _ _ h => h)) (fun _ => ?_)
          · refine Triple.bind (identN hall n) (fun vi => ?_)
            obtain ⟨name, _⟩ := vi
            simp only
            refine Triple.bind (expN hall n .Equal (by decide)) (fun _ => ?_)
            refine Triple.bind (spec_getVars n) (fun saved => ?_)
            refine Triple.bind (spec_modVars n _) (fun _ => ?_)
            refine Triple.bind (hE.expr n) (fun e => ?_)
            refine Triple.bind (spec_modVars n _) (fun _ => ?_)
            refine Triple.bind (expN hall n .Semi (by decide)) (fun _ => ?_)
            refine Triple.bind (Triple.weaken (spec_peekPos n) (fun st h => h) (fun _ _ h => h.1)) (fun stop => ?_)
            refine Triple.weaken (spec_declareVirt n name start stop e) (fun _ h => h) ?_
            intro out st ⟨hj, ho⟩
            subst ho
            exact ⟨⟨hj.1, hj.2.1⟩, hj.2.2.1⟩
        · -- end
          split
          · next k =>
            intro st h
            have key : ∀ p, Triple (fun st => (JT all l0 n st ∧ all[st.pos]? = some (.sym .End)) ∧ st.pos = p)
                (do skipTok; let _ ← expectTok k; pure StmtOut.closed) (StmtPost all l0 hdr.length n (some k)) := by
              intro p
              refine Triple.bind (spec_skip_at hall n p (.sym .End) (by simp)) (fun _ => ?_)
              refine Triple.bind (Triple.weaken (Triple.frame (all[p]? = some (.sym .End))
                  (spec_expect_at hall (n + 1) (p + 1) k (hend k rfl)))
                (fun st h => ⟨⟨h.1, h.2.1⟩, h.2.2⟩) (fun _ _ h => h)) (fun _ => ?_)
              refine Triple.pure _ ?_
              intro st ⟨⟨hj, hpos, hk⟩, he⟩
              refine ⟨⟨hj.1, by have := hj.2.1; omega⟩, ?_⟩
              show Closed all n (some k) st.pos
              rw [hpos]
              exact ⟨by have := hj.2.1; omega, by simpa using he, by simpa using hk⟩
            exact key st.pos st ⟨h, rfl⟩
          · exact Triple.weaken (getFail hall n _ (fun i => [.tok i]) _) (fun st h => h.1) (fun _ _ h => h)
        · -- Eof
          refine Triple.bind (spec_curPos_keep _) (fun i => ?_)
          refine Triple.bind (Triple.weaken (spec_get_peeked hall (stable_true all) n (.sym .Eof))
            (fun st h => h.1) (fun _ _ h => h)) (fun _ => ?_)
          split
          · exact Triple.fail _ _
          · next hs =>
            refine Triple.pure _ ?_
            intro st ⟨_, hc, hn, hat, _⟩
            refine ⟨⟨hc, by omega⟩, ?_⟩
            have : endTok = none := by cases endTok <;> simp_all
            subst this
            exact Or.inl ⟨by omega, hat⟩
        · -- Eol: an empty line
          exact Triple.pure _ (fun st h => ⟨⟨h.1.1, h.1.2.1⟩, h.1.2.2.1⟩)
        · -- any other fixed-spelling token
          split
          · exact Triple.weaken (getFail hall n _ (fun i => [.tok i]) _) (fun st h => h.1) (fun _ _ h => h)
          · exact Triple.weaken (getFail hall n _ (fun i => [.tok i]) _) (fun st h => h.1) (fun _ _ h => h)
        · exact Triple.weaken (getFail hall n _ (fun i => [.tok i]) _) (fun st h => h.1) (fun _ _ h => h)
    · -- parseBlock
      intro n endTok acc hend hacc
      simp only [parseBlock]
      refine Triple.bind (ih.stmt n endTok hend) (fun out => ?_)
      -- what the statement left us with
      have cont : ∀ (block' : List Stmt), Stmts.ok all l0 hdr.length block' →
          Triple (JT all l0 n)
            (do
              if (← atTok .Eof) then
                if endTok.isSome then do
                  let i ← curPos
                  let _ ← getTok
                  failP "UnexpectedEof" [.tok i]
                else pure block'
              else if (← atTok .Eol) then do
                skipTok
                parseBlock hdr f endTok block'
              else do
                let i ← curPos
                let _ ← getTok
                failP "ExpectedNewLine" [.tok i])
            (fun b st' => K all l0 n st' ∧ Stmts.ok all l0 hdr.length b ∧ Closed all n endTok st'.pos) := by
        intro block' hb'
        refine Triple.bind (spec_at n .Eof) (fun b => ?_)
        cases b with
        | true =>
          simp only [if_true]
          split
          · exact Triple.weaken (getFail hall n _ (fun i => [.tok i]) _) (fun st h => h.1) (fun _ _ h => h)
          · next hs =>
            refine Triple.pure _ ?_
            intro st ⟨hj, hat⟩
            have : endTok = none := by cases endTok <;> simp_all
            subst this
            exact ⟨⟨hj.1, hj.2.1⟩, hb', Or.inr (hat.mp trivial)⟩
        | false =>
          simp only [Bool.false_eq_true, if_false]
          refine Triple.bind (Triple.weaken (spec_at n .Eol) (fun st h => h.1) (fun _ _ h => h)) (fun b2 => ?_)
          cases b2 with
          | true =>
            simp only [if_true]
            refine Triple.bind (Triple.weaken (skipN hall n (.sym .Eol) (by simp))
              (fun st h => ⟨h.1, h.2.mp trivial⟩) (fun _ _ h => h)) (fun _ => ?_)
            exact ih.block n endTok block' hend hb'
          | false =>
            simp only [Bool.false_eq_true, if_false]
            exact Triple.weaken (getFail hall n _ (fun i => [.tok i]) _) (fun st h => h.1) (fun _ _ h => h)
      cases out with
      | closed =>
        refine Triple.pure _ ?_
        intro st ⟨hk, hc⟩
        exact ⟨hk, hacc, hc⟩
      | pushed s =>
        intro st ⟨hk, hs, hlt⟩
        exact cont (acc ++ [s]) (Stmts.ok_append hdr.length acc s hacc hs) st ⟨hk.1, hk.2, hlt, trivial⟩
      | nothing =>
        intro st ⟨hk, hlt⟩
        exact cont acc hacc st ⟨hk.1, hk.2, hlt, trivial⟩

end Dtr
