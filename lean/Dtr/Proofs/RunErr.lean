import Dtr.Proofs.Run
import Dtr.Proofs.RefineErr
/-! Runs of the machine that end in an evaluation error: micro-step run `runAllE`, and the run of
repeated `next_with_context` calls `runNextE`; both follow `Steps`. -/
namespace Dtr
variable {W : Type} (D : Device W)

/-- the machine run micro-step by micro-step until a turn returns an evaluation error -/
def runAllE : Nat → It → Sys W → Option (ExprErr × Sys W)
  | 0, _, _ => none
  | f+1, it, σ =>
    match step it σ.ctx with
    | .cont it' c' => runAllE f it' { σ with ctx := c' }
    | .yield r it' c' => runAllE f it' (σ.emit D r c')
    | .done _ _ => none
    | .err e => some (e, σ)
    | .panic _ => none

/-- what a caller does: `next_with_context` until it returns an error; after each yielded row the
device reacts.  The result: the error and the system state (with the log of yielded rows) it was met in. -/
def runNextE (sf : Nat) : Nat → It → Sys W → Option (ExprErr × Sys W)
  | 0, _, _ => none
  | n+1, it, σ =>
    match nextRow sf it σ.ctx with
    | .row r it' c' => runNextE sf n it' (σ.emit D r c')
    | .err e => some (e, σ)
    | _ => none

theorem Steps_runAllE {it it' : It} {σ σ' : Sys W} (h : Steps D (it, σ) (it', σ')) :
    ∀ f out, runAllE D f it' σ' = some out → ∃ f', runAllE D f' it σ = some out := by
  generalize ha : (it, σ) = a at h
  generalize hb : (it', σ') = b at h
  induction h generalizing it σ with
  | refl => cases ha; cases hb; intro f out h; exact ⟨f, h⟩
  | head m _ ih =>
    cases ha
    intro f out hrun
    cases m with
    | cont hs =>
      obtain ⟨f', hf'⟩ := ih rfl hb f out hrun
      exact ⟨f' + 1, by simp [runAllE, hs, hf']⟩
    | yield hs =>
      obtain ⟨f', hf'⟩ := ih rfl hb f out hrun
      exact ⟨f' + 1, by simp [runAllE, hs, hf']⟩

theorem runNextE_mono (sf : Nat) : ∀ (n : Nat) (it : It) (σ : Sys W) (out : ExprErr × Sys W) (k j : Nat),
    runNextE D sf n it σ = some out → runNextE D (sf + k) (n + j) it σ = some out
  | 0, it, σ, out, k, j, h => by simp [runNextE] at h
  | n+1, it, σ, out, k, j, h => by
    have : n + 1 + j = (n + j) + 1 := by omega
    rw [this]
    simp only [runNextE] at h ⊢
    have hne : nextRow sf it σ.ctx ≠ .fuel := by
      intro hf; rw [hf] at h; cases h
    rw [nextRow_mono sf k it σ.ctx hne]
    cases hn : nextRow sf it σ.ctx with
    | row r it' c' =>
      simp only [hn] at h ⊢
      exact runNextE_mono sf n it' _ out k j h
    | none it' c' => simp [hn] at h
    | err e => simpa [hn] using h
    | panic m => simp [hn] at h
    | fuel => simp [hn] at h

theorem runNextE_cont {it it' : It} {σ : Sys W} {c' : Ctx} (hs : step it σ.ctx = .cont it' c') :
    ∀ (sf n : Nat) (e : ExprErr) (σe : Sys W), runNextE D sf n it' { σ with ctx := c' } = some (e, σe) →
      ∃ σe', runNextE D (sf + 1) n it σ = some (e, σe') ∧ σe'.log = σe.log ∧ σe'.world = σe.world
  | sf, 0, e, σe, h => by simp [runNextE] at h
  | sf, n+1, e, σe, h => by
    simp only [runNextE] at h ⊢
    have hstep : nextRow (sf + 1) it σ.ctx = nextRow sf it' c' := by simp only [nextRow, hs]
    rw [hstep]
    cases hn : nextRow sf it' c' with
    | row r it2 c2 =>
      simp only [hn, Sys.emit_ctx] at h ⊢
      have := runNextE_mono D sf n it2 (σ.emit D r c2) (e, σe) 1 0 h
      exact ⟨σe, by simpa using this, rfl, rfl⟩
    | none it2 c2 => simp [hn] at h
    | err e' =>
      simp only [hn, Option.some.injEq, Prod.mk.injEq] at h ⊢
      obtain ⟨rfl, rfl⟩ := h
      exact ⟨σ, ⟨rfl, rfl⟩, rfl, rfl⟩
    | panic m => simp [hn] at h
    | fuel => simp [hn] at h

/-- the caller's run meets the same error, after the same rows and device reactions, as the micro-step
run (the variable context may be behind by the `cont` turns of the last, failing call — an error item
carries no context) -/
theorem runAllE_runNextE : ∀ (f : Nat) (it : It) (σ : Sys W) (e : ExprErr) (σe : Sys W),
    runAllE D f it σ = some (e, σe) →
    ∃ σe', runNextE D f f it σ = some (e, σe') ∧ σe'.log = σe.log ∧ σe'.world = σe.world
  | 0, it, σ, e, σe, h => by simp [runAllE] at h
  | f+1, it, σ, e, σe, h => by
    simp only [runAllE] at h
    cases hs : step it σ.ctx with
    | cont it' c' =>
      simp only [hs] at h
      obtain ⟨σ1, ih, hl, hw⟩ := runAllE_runNextE f it' { σ with ctx := c' } e σe h
      obtain ⟨σ2, h1, hl2, hw2⟩ := runNextE_cont D hs f f e σ1 ih
      have := runNextE_mono D (f + 1) f it σ (e, σ2) 0 1 h1
      exact ⟨σ2, by simpa using this, hl2.trans hl, hw2.trans hw⟩
    | yield r it' c' =>
      simp only [hs] at h
      obtain ⟨σ1, ih, hl, hw⟩ := runAllE_runNextE f it' (σ.emit D r c') e σe h
      have hn : nextRow (f + 1) it σ.ctx = .row r it' c' := by simp [nextRow, hs]
      have := runNextE_mono D f f it' (σ.emit D r c') (e, σ1) 1 0 ih
      simp only [Nat.add_zero] at this
      refine ⟨σ1, ?_, hl, hw⟩
      simp only [runNextE, hn]
      exact this
    | done it' c' => simp [hs] at h
    | err e' =>
      simp only [hs, Option.some.injEq, Prod.mk.injEq] at h
      obtain ⟨rfl, rfl⟩ := h
      have hn : nextRow (f + 1) it σ.ctx = .err e' := by simp [nextRow, hs]
      exact ⟨σ, by simp only [runNextE, hn], rfl, rfl⟩
    | panic m => simp [hs] at h

end Dtr
