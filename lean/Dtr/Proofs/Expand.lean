import Dtr.Spec.Expand
/-! The lazy LIFO expansion equals its recursive specification -/
namespace Dtr

variable (tc : TestCase)

theorem lastX_none_iff : ∀ (es : List REntry) (i : Nat),
    lastInputXFrom tc es i = none ↔ numInputXFrom tc es i = 0
  | [], i => by simp [lastInputXFrom, numInputXFrom]
  | e :: es, i => by
    simp only [lastInputXFrom, numInputXFrom]
    have ih := lastX_none_iff es (i + 1)
    cases h : lastInputXFrom tc es (i + 1) with
    | some j =>
      have : numInputXFrom tc es (i + 1) ≠ 0 := fun h0 => by rw [ih.mpr h0] at h; cases h
      simp; omega
    | none =>
      have h0 := ih.mp h
      by_cases hx : isInputX tc i e = true <;> simp [hx, h0]

theorem numX_le_length : ∀ (es : List REntry) (i : Nat), numInputXFrom tc es i ≤ es.length
  | [], i => by simp [numInputXFrom]
  | e :: es, i => by
    simp only [numInputXFrom, List.length_cons]
    have := numX_le_length es (i + 1)
    split <;> omega

/-- setting the right-most input `X` to a number removes exactly that `X` -/
theorem lastX_some : ∀ (es : List REntry) (i j : Nat) (v : Int64), lastInputXFrom tc es i = some j →
    i ≤ j ∧ j - i < es.length ∧ numInputXFrom tc (es.set (j - i) (.num v)) i + 1 = numInputXFrom tc es i
  | [], i, j, v, h => by simp [lastInputXFrom] at h
  | e :: es, i, j, v, h => by
    simp only [lastInputXFrom] at h
    cases h' : lastInputXFrom tc es (i + 1) with
    | some j' =>
      rw [h'] at h; cases h
      obtain ⟨h1, h2, h3⟩ := lastX_some es (i + 1) j v h'
      refine ⟨by omega, by simp; omega, ?_⟩
      have : j - i = (j - (i + 1)) + 1 := by omega
      rw [this]
      simp only [List.set_cons_succ, numInputXFrom]
      omega
    | none =>
      rw [h'] at h
      by_cases hx : isInputX tc i e = true
      · simp only [hx, if_true, Option.some.injEq] at h
        subst h
        have h0 := (lastX_none_iff tc es (i + 1)).mp h'
        have hnv : isInputX tc i (.num v) = false := by simp [isInputX]
        refine ⟨Nat.le_refl _, by simp, ?_⟩
        simp only [Nat.sub_self, List.set_cons_zero, numInputXFrom, hx, hnv, h0]
        simp
      · simp [hx] at h

theorem expandX_fuel : ∀ (k : Nat) (top : CRow) (rest : List CRow) (f f' : Nat),
    numInputX tc top.entries ≤ k → k < f → k < f' →
    expandX tc f (top :: rest) = expandX tc f' (top :: rest)
  | k, top, rest, f+1, f'+1, hk, hf, hf' => by
    simp only [expandX]
    cases h : lastInputX tc top.entries with
    | none => rfl
    | some i =>
      simp only
      obtain ⟨_, h2, h3⟩ := lastX_some tc top.entries 0 i 0 h
      simp only [Nat.sub_zero] at h2 h3
      have hk1 : 1 ≤ k := by unfold numInputX at hk; omega
      have hk' : numInputX tc (top.entries.set i (.num 0)) ≤ k - 1 := by unfold numInputX at *; omega
      exact expandX_fuel (k - 1) _ _ f f' hk' (by omega) (by omega)
  | k, top, rest, 0, _, _, hf, _ => by omega
  | k, top, rest, _+1, 0, _, _, hf' => by omega

/-- one unfolding of `popRow` on a top row that still has an input `X` -/
theorem popRow_split (top : CRow) (rest : List CRow) (i : Nat) (h : lastInputX tc top.entries = some i) :
    popRow tc (top :: rest) =
      popRow tc ({ top with entries := top.entries.set i (.num 0), xcols := i :: top.xcols } ::
                 { top with entries := top.entries.set i (.num 1), xcols := i :: top.xcols } :: rest) := by
  obtain ⟨_, h2, h3⟩ := lastX_some tc top.entries 0 i 0 h
  simp only [Nat.sub_zero] at h2 h3
  have hle := numX_le_length tc (top.entries.set i (.num 0)) 0
  have hle2 := numX_le_length tc top.entries 0
  simp only [List.length_set] at hle
  unfold popRow
  simp only [List.head?_cons, Option.map_some, Option.getD_some, List.length_set]
  have : expandX tc (top.entries.length + 1) (top :: rest) =
      expandX tc top.entries.length ({ top with entries := top.entries.set i (.num 0), xcols := i :: top.xcols } ::
                 { top with entries := top.entries.set i (.num 1), xcols := i :: top.xcols } :: rest) := by
    simp only [expandX, h]
  rw [this]
  rw [expandX_fuel tc (numInputX tc (top.entries.set i (.num 0))) _ _ top.entries.length (top.entries.length + 1)
    (Nat.le_refl _) (by unfold numInputX; omega) (by unfold numInputX; omega)]

/-- a row with neither `X` nor `C` in input columns is popped as it is -/
theorem popRow_plain (top : CRow) (rest : List CRow) (hx : lastInputX tc top.entries = none)
    (hc : hasInputCFrom tc top.entries 0 = false) : popRow tc (top :: rest) = .ok (top, rest) := by
  unfold popRow
  simp only [List.head?_cons, Option.map_some, Option.getD_some, expandX, hx, expandC, hc]
  rfl

/-- clock rows contain no input `C` -/
theorem clock_no_C (f : Nat → REntry → REntry)
    (hf : ∀ i e, isInputC tc i (f i e) = false) :
    ∀ (es : List REntry) (i : Nat), hasInputCFrom tc (mapIdxFrom f es i) i = false
  | [], i => rfl
  | e :: es, i => by simp [mapIdxFrom, hasInputCFrom, hf, clock_no_C f hf es (i + 1)]

/-- clock rows of a row without input `X` contain no input `X` -/
theorem clock_no_X (f : Nat → REntry → REntry)
    (hf : ∀ i e, isInputX tc i e = false → isInputX tc i (f i e) = false) :
    ∀ (es : List REntry) (i : Nat), lastInputXFrom tc es i = none → lastInputXFrom tc (mapIdxFrom f es i) i = none
  | [], i, _ => rfl
  | e :: es, i, h => by
    simp only [lastInputXFrom] at h
    cases h' : lastInputXFrom tc es (i + 1) with
    | some j => rw [h'] at h; cases h
    | none =>
      rw [h'] at h
      have he : isInputX tc i e = false := by
        by_cases hx : isInputX tc i e = true
        · simp [hx] at h
        · simpa using hx
      simp [mapIdxFrom, lastInputXFrom, clock_no_X f hf es (i + 1) h', hf i e he]

theorem low_props (v : Int64) :
    (∀ i e, isInputC tc i ((fun i e => if isInputC tc i e then REntry.num v else e) i e) = false) ∧
    (∀ i e, isInputX tc i e = false → isInputX tc i ((fun i e => if isInputC tc i e then REntry.num v else e) i e) = false) := by
  constructor
  · intro i e
    cases e <;> cases hI : entryIsInput tc i <;> simp [isInputC, hI]
  · intro i e
    cases e <;> cases hI : entryIsInput tc i <;> simp [isInputC, isInputX, hI]

theorem blank_props (v : Int64) :
    (∀ i e, isInputC tc i ((fun i e => if isInputC tc i e then REntry.num v else if isPureExp tc i then REntry.x else e) i e) = false) ∧
    (∀ i e, isInputX tc i e = false →
      isInputX tc i ((fun i e => if isInputC tc i e then REntry.num v else if isPureExp tc i then REntry.x else e) i e) = false) := by
  constructor
  · intro i e
    cases e <;> cases hI : entryIsInput tc i <;> cases hA : tc.expIdx.any (fun e => e.indexes i) <;>
      simp [isInputC, isPureExp, hI, hA]
  · intro i e
    cases e <;> cases hI : entryIsInput tc i <;> cases hA : tc.expIdx.any (fun e => e.indexes i) <;>
      simp [isInputC, isInputX, isPureExp, hI, hA]

/-- draining a row without input `X`: its clock triple, then the rest -/
theorem drain_triple (r : CRow) (rest : List CRow) (f : Nat) (out : List CRow)
    (hx : lastInputX tc r.entries = none) (hwf : blankOutOfRange tc r.entries.length = false)
    (hrest : drain tc f rest = some out) :
    drain tc (f + (tripleOf tc r).length) (r :: rest) = some (tripleOf tc r ++ out) := by
  by_cases hc : hasInputCFrom tc r.entries 0 = true
  · -- clock triple
    have hpop : popRow tc (r :: rest) = .ok (⟨clockBlank tc 0 r.entries, r.line, false, r.xcols⟩,
        ⟨clockBlank tc 1 r.entries, r.line, false, r.xcols⟩ :: ⟨clockLow tc 0 r.entries, r.line, r.upd, r.xcols⟩ :: rest) := by
      unfold popRow
      simp only [List.head?_cons, Option.map_some, Option.getD_some, expandX, hx, expandC, hc, hwf]
      rfl
    have hb1 := popRow_plain tc ⟨clockBlank tc 1 r.entries, r.line, false, r.xcols⟩ (⟨clockLow tc 0 r.entries, r.line, r.upd, r.xcols⟩ :: rest)
      (clock_no_X tc _ (blank_props tc 1).2 r.entries 0 hx) (clock_no_C tc _ (blank_props tc 1).1 r.entries 0)
    have hb0 := popRow_plain tc ⟨clockLow tc 0 r.entries, r.line, r.upd, r.xcols⟩ rest
      (clock_no_X tc _ (low_props tc 0).2 r.entries 0 hx) (clock_no_C tc _ (low_props tc 0).1 r.entries 0)
    simp only [tripleOf, hc, if_true, List.length_cons, List.length_nil]
    show drain tc (f + 2 + 1) (r :: rest) = _
    simp only [drain, hpop, hb1, hb0, hrest]
    rfl
  · have hc' : hasInputCFrom tc r.entries 0 = false := by simpa using hc
    simp only [tripleOf, hc', Bool.false_eq_true, if_false, List.length_cons, List.length_nil]
    simp only [drain, popRow_plain tc r rest hx hc', hrest]
    rfl

/-- **The lazy LIFO algorithm equals the recursive specification.** -/
theorem drain_cons : ∀ (k : Nat) (r : CRow) (rest : List CRow) (f : Nat) (out : List CRow),
    numInputX tc r.entries ≤ k → blankOutOfRange tc r.entries.length = false →
    drain tc f rest = some out →
    drain tc (f + (expR tc k r).length) (r :: rest) = some (expR tc k r ++ out)
  | 0, r, rest, f, out, hk, hwf, hrest => by
    have hx : lastInputX tc r.entries = none :=
      (lastX_none_iff tc r.entries 0).mpr (by unfold numInputX at hk; omega)
    simpa [expR] using drain_triple tc r rest f out hx hwf hrest
  | k+1, r, rest, f, out, hk, hwf, hrest => by
    cases h : lastInputX tc r.entries with
    | none => simpa [expR, h] using drain_triple tc r rest f out h hwf hrest
    | some i =>
      obtain ⟨_, h2, h3⟩ := lastX_some tc r.entries 0 i 0 h
      obtain ⟨_, _, h3'⟩ := lastX_some tc r.entries 0 i 1 h
      simp only [Nat.sub_zero] at h2 h3 h3'
      have hk0 : numInputX tc (r.entries.set i (.num 0)) ≤ k := by unfold numInputX at *; omega
      have hk1 : numInputX tc (r.entries.set i (.num 1)) ≤ k := by unfold numInputX at *; omega
      -- the 1-variant sits under the 0-variant
      have ih1 := drain_cons k { r with entries := r.entries.set i (.num 1), xcols := i :: r.xcols } rest f out hk1
        (by simpa using hwf) hrest
      have ih0 := drain_cons k { r with entries := r.entries.set i (.num 0), xcols := i :: r.xcols }
        ({ r with entries := r.entries.set i (.num 1), xcols := i :: r.xcols } :: rest) _ _ hk0 (by simpa using hwf) ih1
      simp only [expR, h, List.length_append, List.append_assoc]
      have hsplit : ∀ g, drain tc g (r :: rest) =
          drain tc g ({ r with entries := r.entries.set i (.num 0), xcols := i :: r.xcols } :: { r with entries := r.entries.set i (.num 1), xcols := i :: r.xcols } :: rest) := by
        intro g
        cases g with
        | zero => rfl
        | succ g => simp only [drain, popRow_split tc r rest i h]
      rw [hsplit]
      have : f + ((expR tc k { r with entries := r.entries.set i (.num 0), xcols := i :: r.xcols }).length +
            (expR tc k { r with entries := r.entries.set i (.num 1), xcols := i :: r.xcols }).length) =
          f + (expR tc k { r with entries := r.entries.set i (.num 1), xcols := i :: r.xcols }).length +
            (expR tc k { r with entries := r.entries.set i (.num 0), xcols := i :: r.xcols }).length := by omega
      rw [this]
      exact ih0

end Dtr

namespace Dtr
variable (tc : TestCase)

theorem mapIdxFrom_getElem? (f : Nat → REntry → REntry) : ∀ (es : List REntry) (i j : Nat),
    (mapIdxFrom f es i)[j]? = es[j]?.map (f (i + j))
  | [], i, j => by simp [mapIdxFrom]
  | e :: es, i, 0 => by simp [mapIdxFrom]
  | e :: es, i, j+1 => by
    simp only [mapIdxFrom, List.getElem?_cons_succ]
    rw [mapIdxFrom_getElem? f es (i + 1) j]
    congr 2; omega

theorem mapIdxFrom_length (f : Nat → REntry → REntry) : ∀ (es : List REntry) (i : Nat),
    (mapIdxFrom f es i).length = es.length
  | [], i => rfl
  | e :: es, i => by simp [mapIdxFrom, mapIdxFrom_length f es (i + 1)]

/-- the right-most input `X` really is an `X` in an input column -/
theorem lastX_some_is : ∀ (es : List REntry) (i j : Nat), lastInputXFrom tc es i = some j →
    es[j - i]? = some .x ∧ entryIsInput tc j = true
  | [], i, j, h => by simp [lastInputXFrom] at h
  | e :: es, i, j, h => by
    simp only [lastInputXFrom] at h
    cases h' : lastInputXFrom tc es (i + 1) with
    | some j' =>
      rw [h'] at h; cases h
      obtain ⟨h1, h2⟩ := lastX_some_is es (i + 1) j h'
      obtain ⟨hij, _, _⟩ := lastX_some tc es (i + 1) j 0 h'
      have : j - i = (j - (i + 1)) + 1 := by omega
      rw [this]; exact ⟨by simpa using h1, h2⟩
    | none =>
      rw [h'] at h
      by_cases hx : isInputX tc i e = true
      · simp only [hx, if_true, Option.some.injEq] at h
        subst h
        simp only [isInputX, Bool.and_eq_true, beq_iff_eq] at hx
        simp [hx.1, hx.2]
      · simp [hx] at h

/-- replacing an `X` by a number does not change whether the row has a `C` in an input column -/
theorem hasC_set : ∀ (es : List REntry) (i n : Nat) (v : Int64), es[n]? = some .x →
    hasInputCFrom tc (es.set n (.num v)) i = hasInputCFrom tc es i
  | [], i, n, v, h => by simp at h
  | e :: es, i, 0, v, h => by
    simp only [List.getElem?_cons_zero, Option.some.injEq] at h
    subst h
    have h1 : (REntry.num v == REntry.c) = false := by simp
    have h2 : (REntry.x == REntry.c) = false := by decide
    simp [hasInputCFrom, isInputC, h1, h2]
  | e :: es, i, n+1, v, h => by
    simp only [List.getElem?_cons_succ] at h
    simp [hasInputCFrom, hasC_set es (i + 1) n v h]

theorem tripleOf_length (r : CRow) :
    (tripleOf tc r).length = if hasInputCFrom tc r.entries 0 then 3 else 1 := by
  unfold tripleOf; split <;> simp

/-- one row (or clock triple) per assignment: `2^k` of them for `k` input `X`s -/
theorem expR_length : ∀ (k : Nat) (r : CRow), numInputX tc r.entries = k →
    (expR tc k r).length = 2 ^ k * (if hasInputCFrom tc r.entries 0 then 3 else 1)
  | 0, r, _ => by simp [expR, tripleOf_length]
  | k+1, r, hk => by
    cases h : lastInputX tc r.entries with
    | none =>
      have := (lastX_none_iff tc r.entries 0).mp h
      unfold numInputX at hk; omega
    | some i =>
      obtain ⟨_, h2, h3⟩ := lastX_some tc r.entries 0 i 0 h
      obtain ⟨_, _, h3'⟩ := lastX_some tc r.entries 0 i 1 h
      obtain ⟨hx, _⟩ := lastX_some_is tc r.entries 0 i h
      simp only [Nat.sub_zero] at h2 h3 h3' hx
      have e0 := expR_length k { r with entries := r.entries.set i (.num 0), xcols := i :: r.xcols } (by unfold numInputX at *; simp only; omega)
      have e1 := expR_length k { r with entries := r.entries.set i (.num 1), xcols := i :: r.xcols } (by unfold numInputX at *; simp only; omega)
      simp only [expR, h, List.length_append, e0, e1, hasC_set tc r.entries 0 i _ hx]
      rw [Nat.pow_succ]; split <;> omega

end Dtr
