import Dtr.Model.Parser
import Dtr.Proofs.ExprWF
import Dtr.Spec.Grammar
/-!
# The expression parser, forwards  (C08)

`Proofs/ParserDenotes` shows: what `parse_expr` accepts is a phrase of the grammar and the result is its denotation.
Here is the converse, by direct computation with the parser's definition: every phrase of the grammar, followed by a
token that cannot continue an expression, is accepted and gives its denotation (`cE`, with `cF`/`cC`/`cA` for factors,
operator chains and argument lists — structural recursion over the derivation); and the round trip for a concrete
printer: the fully parenthesised rendering of any well-formed expression parses back to that expression (`rt_expr`).
Fuel is bounded by the number of tokens.
-/
namespace Dtr
namespace RoundTrip

def tokOfBin : BinOp → ATok
  | .add => .sym .Plus | .sub => .sym .Minus | .mul => .sym .Times | .div => .sym .Divide | .rem => .sym .Reminder
  | .xor => .sym .Xor | .and => .sym .And | .or => .sym .Or | .shl => .sym .ShiftLeft | .shr => .sym .ShiftRight
  | .eq => .sym .Equal | .ne => .sym .NotEqual | .le => .sym .LessThanOrEqual | .ge => .sym .GreaterThanOrEqual
  | .lt => .sym .LessThan | .gt => .sym .GreaterThan

def tokOfUn : UnOp → ATok
  | .neg => .sym .Minus | .lnot => .sym .LogicalNot | .bnot => .sym .BinaryNot

theorem binOpOf_tokOfBin (o : BinOp) : binOpOf (tokOfBin o) = some o := by cases o <;> rfl
theorem unOpOf_tokOfUn (u : UnOp) : unOpOf (tokOfUn u) = some u := by cases u <;> rfl

mutual
/-- the fully parenthesised rendering of an expression as abstract tokens -/
def render : Expr → List ATok
  | .num n => [.num (some n)]
  | .var x => [.ident x]
  | .un u e => tokOfUn u :: .sym .LParen :: (render e ++ [.sym .RParen])
  | .bin o l r => .sym .LParen :: (render l ++ (.sym .RParen :: tokOfBin o :: .sym .LParen :: (render r ++ [.sym .RParen])))
  | .call f args => .ident f :: .sym .LParen :: (renderArgs args ++ [.sym .RParen])
/-- arguments, separated by commas -/
def renderArgs : List Expr → List ATok
  | [] => []
  | [a] => render a
  | a :: b :: rest => render a ++ (.sym .Comma :: renderArgs (b :: rest))
end

mutual
def sz : Expr → Nat
  | .num _ => 1
  | .var _ => 1
  | .un _ e => 1 + sz e
  | .bin _ l r => 1 + sz l + sz r
  | .call _ args => 1 + szL args
def szL : List Expr → Nat
  | [] => 0
  | a :: as => sz a + 1 + szL as
end

/-- what may follow an expression: a token that is neither a binary operator nor `(` -/
def Stop (rest : List ATok) : Prop := ∃ t ts, rest = t :: ts ∧ binOpOf t = none ∧ t ≠ .sym .LParen
/-- what may follow a factor: any token but `(` -/
def FStop (rest : List ATok) : Prop := ∃ t ts, rest = t :: ts ∧ t ≠ .sym .LParen
theorem Stop.f {rest} (h : Stop rest) : FStop rest := by
  obtain ⟨t, ts, h1, _, h3⟩ := h; exact ⟨t, ts, h1, h3⟩

theorem bind_ok {α β} {m : PM α} {f : α → PM β} {st st' : PState} {a : α} (h : m st = .ok a st') :
    (m >>= f) st = f a st' := by
  show PM.bind m f st = _
  simp only [PM.bind, h]

theorem pure_ok {α} (a : α) (st : PState) : (pure a : PM α) st = .ok a st := rfl

/-- the state after consuming the first token -/
def adv (st : PState) (t : ATok) (ts : List ATok) : PState :=
  { st with toks := ts, pos := st.pos + 1, line := if t = .sym .Eol then st.line + 1 else st.line }

theorem peek_eq {st : PState} {t ts} (h : st.toks = t :: ts) : peekTok st = .ok t st := by
  simp only [peekTok, h]
theorem get_eq {st : PState} {t ts} (h : st.toks = t :: ts) : getTok st = .ok t (adv st t ts) := by
  simp only [getTok, h, adv]
theorem skip_eq {st : PState} {t ts} (h : st.toks = t :: ts) : skipTok st = .ok () (adv st t ts) := by
  simp only [skipTok, get_eq h]
theorem at_eq {st : PState} {t ts} (k : Kind) (h : st.toks = t :: ts) : atTok k st = .ok (t == .sym k) st := by
  show (peekTok >>= fun t => pure (t == .sym k)) st = _
  rw [bind_ok (peek_eq h)]; rfl
theorem expect_eq {st : PState} {ts} (k : Kind) (h : st.toks = .sym k :: ts) :
    expectTok k st = .ok st.pos (adv st (.sym k) ts) := by
  show (curPos >>= fun i => getTok >>= fun t => if t = .sym k then pure i else failP "NotExpectedToken" [.tok i]) st = _
  rw [bind_ok (show curPos st = .ok st.pos st from rfl), bind_ok (get_eq h)]
  simp only [if_true]; rfl
@[simp] theorem adv_toks (st t ts) : (adv st t ts).toks = ts := rfl

theorem number_eq {st : PState} {n ts} (h : st.toks = .num (some n) :: ts) :
    parseNumber st = .ok n (adv st (.num (some n)) ts) := by
  show (curPos >>= fun i => getTok >>= fun t => (match t with
    | .num (some v) => pure v
    | .num none => failP "NumberParseError" [.tok i]
    | _ => failP "ExpectedNumber" [.tok i] : PM Int64)) st = _
  rw [bind_ok (show curPos st = .ok st.pos st from rfl), bind_ok (get_eq h)]
  rfl

theorem recordRead_toks (name : String) (i : Nat) (st : PState) : ∃ st', recordRead name i st = .ok () st' ∧ st'.toks = st.toks := by
  unfold recordRead
  split
  · exact ⟨st, rfl, rfl⟩
  · split
    · exact ⟨st, rfl, rfl⟩
    · exact ⟨_, rfl, rfl⟩

/-- the end of a chain: at a token that is no binary operator the tree built so far is returned -/
theorem chain_stop {f : Nat} {t : BTree} {st : PState} {rest} (h : st.toks = rest) (hs : Stop rest) :
    chain (f + 1) t st = .ok t.toExpr st := by
  obtain ⟨tk, ts, rfl, hb, _⟩ := hs
  rw [chain, bind_ok (peek_eq h)]
  simp only [hb]
  rfl

/-- a parenthesised expression read as a factor, given the round trip of the expression inside -/
theorem paren_factor {e : Expr} {u : List ATok} {f : Nat}
    (ihE : ∀ (st : PState) rest, st.toks = u ++ rest → Stop rest →
      ∃ st', parseExpr f st = .ok e st' ∧ st'.toks = rest)
    {st : PState} {rest} (h : st.toks = .sym .LParen :: (u ++ (.sym .RParen :: rest))) :
    ∃ st', parseFactor (f + 1) st = .ok e st' ∧ st'.toks = rest := by
  rw [parseFactor, bind_ok (peek_eq h)]
  simp only [unOpOf, if_true]
  rw [bind_ok (skip_eq h)]
  obtain ⟨s1, h1, t1⟩ := ihE (adv st (.sym .LParen) (u ++ (.sym .RParen :: rest))) (.sym .RParen :: rest) rfl ⟨_, _, rfl, rfl, by simp⟩
  rw [bind_ok h1, bind_ok (expect_eq .RParen t1)]
  exact ⟨_, rfl, rfl⟩

/-- an expression that is a single factor followed by a stop token -/
theorem expr_of_factor {e : Expr} {f : Nat} {st : PState} {rest}
    (hF : ∃ st', parseFactor (f + 1) st = .ok e st' ∧ st'.toks = rest) (hs : Stop rest) :
    ∃ st', parseExpr (f + 2) st = .ok e st' ∧ st'.toks = rest := by
  obtain ⟨s1, h1, t1⟩ := hF
  rw [parseExpr, bind_ok h1, chain_stop t1 hs]
  exact ⟨_, rfl, t1⟩

theorem num_factor {n : Int64} {f : Nat} {st : PState} {rest} (h : st.toks = .num (some n) :: rest) :
    ∃ st', parseFactor (f + 1) st = .ok (.num n) st' ∧ st'.toks = rest := by
  rw [parseFactor, bind_ok (peek_eq h)]
  simp only
  rw [bind_ok (number_eq h)]
  exact ⟨_, rfl, rfl⟩

theorem var_factor {x : String} {f : Nat} {st : PState} {rest} (h : st.toks = .ident x :: rest) (hs : FStop rest) :
    ∃ st', parseFactor (f + 1) st = .ok (.var x) st' ∧ st'.toks = rest := by
  obtain ⟨tk, ts, rfl, hne⟩ := hs
  rw [parseFactor, bind_ok (peek_eq h)]
  simp only
  rw [bind_ok (show curPos st = .ok st.pos st from rfl), bind_ok (get_eq h),
    bind_ok (at_eq .LParen (show (adv st (.ident x) (tk :: ts)).toks = tk :: ts from rfl))]
  have : (tk == ATok.sym .LParen) = false := by simpa using hne
  simp only [this]
  obtain ⟨s1, h1, t1⟩ := recordRead_toks x st.pos (adv st (.ident x) (tk :: ts))
  simp only [Bool.false_eq_true, if_false]
  rw [bind_ok h1]
  exact ⟨_, rfl, t1⟩

/-- a unary operator in front of a factor -/
theorem un_any {k : Kind} {u : UnOp} {e : Expr} {ts : List ATok} {f : Nat} {st : PState} {rest}
    (hu : unOpOf (.sym k) = some u)
    (ihF : ∀ (st : PState), st.toks = ts ++ rest → ∃ st', parseFactor f st = .ok e st' ∧ st'.toks = rest)
    (h : st.toks = .sym k :: (ts ++ rest)) :
    ∃ st', parseFactor (f + 1) st = .ok (.un u e) st' ∧ st'.toks = rest := by
  rw [parseFactor, bind_ok (peek_eq h)]
  obtain ⟨s1, h1, t1⟩ := ihF (adv st (.sym k) (ts ++ rest)) rfl
  simp only [hu]
  rw [bind_ok (skip_eq h), bind_ok h1]
  exact ⟨_, rfl, t1⟩

theorem un_factor {u : UnOp} {e : Expr} {f : Nat} {st : PState} {rest}
    (ihE : ∀ (st : PState) rest, st.toks = render e ++ rest → Stop rest →
      ∃ st', parseExpr f st = .ok e st' ∧ st'.toks = rest)
    (h : st.toks = tokOfUn u :: .sym .LParen :: (render e ++ (.sym .RParen :: rest))) :
    ∃ st', parseFactor (f + 2) st = .ok (.un u e) st' ∧ st'.toks = rest := by
  have hu : unOpOf (tokOfUn u) = some u := unOpOf_tokOfUn u
  cases u <;> exact un_any (ts := .sym .LParen :: (render e ++ [.sym .RParen])) hu
    (fun st hst => paren_factor ihE (by simpa using hst)) (by simpa [tokOfUn] using h)

theorem call_factor {name : String} {args : List Expr} {ta : List ATok} {f : Nat} {st : PState} {rest}
    (har : funcArity name = some args.length)
    (ihA : ∀ (st : PState) (t0 : ATok), st.toks = t0 :: (ta ++ (.sym .RParen :: rest)) →
      ∃ st', parseArgs f [] st = .ok args st' ∧ st'.toks = .sym .RParen :: rest)
    (h : st.toks = .ident name :: .sym .LParen :: (ta ++ (.sym .RParen :: rest))) :
    ∃ st', parseFactor (f + 1) st = .ok (.call name args) st' ∧ st'.toks = rest := by
  rw [parseFactor, bind_ok (peek_eq h)]
  simp only
  rw [bind_ok (show curPos st = .ok st.pos st from rfl), bind_ok (get_eq h),
    bind_ok (at_eq .LParen (show (adv st (.ident name) (.sym .LParen :: (ta ++ (.sym .RParen :: rest)))).toks = _ from rfl))]
  simp only [beq_self_eq_true, if_true, har]
  obtain ⟨s1, h1, t1⟩ := ihA (adv st (.ident name) (.sym .LParen :: (ta ++ (.sym .RParen :: rest)))) _ rfl
  rw [bind_ok h1, bind_ok (expect_eq .RParen t1)]
  simp only [bne_self_eq_false, Bool.false_eq_true, if_false]
  exact ⟨_, rfl, rfl⟩

/-- `( L ) o ( R )` followed by a stop token -/
theorem bin_expr {o : BinOp} {l r : Expr} {f : Nat} {st : PState} {rest}
    (ihL : ∀ (st : PState) rest, st.toks = render l ++ rest → Stop rest → ∃ st', parseExpr (f + 1) st = .ok l st' ∧ st'.toks = rest)
    (ihR : ∀ (st : PState) rest, st.toks = render r ++ rest → Stop rest → ∃ st', parseExpr f st = .ok r st' ∧ st'.toks = rest)
    (h : st.toks = render (.bin o l r) ++ rest) (hs : Stop rest) :
    ∃ st', parseExpr (f + 3) st = .ok (.bin o l r) st' ∧ st'.toks = rest := by
  simp only [render, List.cons_append, List.append_assoc] at h
  obtain ⟨s1, h1, t1⟩ := paren_factor (f := f + 1) (e := l) ihL (st := st)
    (rest := tokOfBin o :: .sym .LParen :: (render r ++ (.sym .RParen :: rest))) h
  rw [parseExpr, bind_ok h1, chain, bind_ok (peek_eq t1)]
  simp only [binOpOf_tokOfBin]
  rw [bind_ok (get_eq t1)]
  obtain ⟨s2, h2, t2⟩ := paren_factor (f := f) (e := r) ihR
    (st := adv s1 (tokOfBin o) (.sym .LParen :: (render r ++ (.sym .RParen :: rest)))) (rest := rest) rfl
  rw [bind_ok h2, chain_stop t2 hs]
  exact ⟨_, rfl, t2⟩

theorem args_one {a : Expr} {ua : List ATok} {f : Nat} {acc : List Expr} {st : PState} {t0 : ATok} {rest}
    (ihE : ∀ (st : PState) rest, st.toks = ua ++ rest → Stop rest → ∃ st', parseExpr f st = .ok a st' ∧ st'.toks = rest)
    (h : st.toks = t0 :: (ua ++ (.sym .RParen :: rest))) :
    ∃ st', parseArgs (f + 1) acc st = .ok (acc ++ [a]) st' ∧ st'.toks = .sym .RParen :: rest := by
  obtain ⟨s1, h1, t1⟩ := ihE (adv st t0 (ua ++ (.sym .RParen :: rest))) (.sym .RParen :: rest) rfl ⟨_, _, rfl, rfl, by simp⟩
  rw [parseArgs, bind_ok (skip_eq h), bind_ok h1, bind_ok (at_eq .Comma t1)]
  simp only [show (ATok.sym Kind.RParen == ATok.sym Kind.Comma) = false from by decide, Bool.false_eq_true, if_false]
  exact ⟨_, rfl, t1⟩

theorem args_cons {a : Expr} {more : List Expr} {ua um : List ATok} {f : Nat} {acc : List Expr} {st : PState} {t0 : ATok} {rest}
    (ihE : ∀ (st : PState) rest, st.toks = ua ++ rest → Stop rest → ∃ st', parseExpr f st = .ok a st' ∧ st'.toks = rest)
    (ihA : ∀ (acc : List Expr) (st : PState) (t0 : ATok), st.toks = t0 :: (um ++ (.sym .RParen :: rest)) →
      ∃ st', parseArgs f acc st = .ok (acc ++ more) st' ∧ st'.toks = .sym .RParen :: rest)
    (h : st.toks = t0 :: (ua ++ (.sym .Comma :: (um ++ (.sym .RParen :: rest))))) :
    ∃ st', parseArgs (f + 1) acc st = .ok (acc ++ a :: more) st' ∧ st'.toks = .sym .RParen :: rest := by
  obtain ⟨s1, h1, t1⟩ := ihE (adv st t0 (ua ++ (.sym .Comma :: (um ++ (.sym .RParen :: rest)))))
    (.sym .Comma :: (um ++ (.sym .RParen :: rest))) rfl ⟨_, _, rfl, rfl, by simp⟩
  rw [parseArgs, bind_ok (skip_eq h), bind_ok h1, bind_ok (at_eq .Comma t1)]
  simp only [beq_self_eq_true, if_true]
  obtain ⟨s2, h2, t2⟩ := ihA (acc ++ [a]) s1 _ t1
  rw [h2]
  exact ⟨_, by simp, t2⟩

theorem sz_pos : ∀ e : Expr, 1 ≤ sz e
  | .num _ => by simp [sz]
  | .var _ => by simp [sz]
  | .un _ _ => by simp [sz]
  | .bin _ _ _ => by simp [sz]; omega
  | .call _ _ => by simp [sz]

mutual
/-- **Round trip of expressions**: the parser reads the fully parenthesised rendering of any well-formed expression
back as that expression, consuming exactly the rendering. -/
theorem rt_expr : (e : Expr) → e.WF → ∀ (f : Nat), 3 * sz e ≤ f → ∀ (st : PState) (rest : List ATok),
    st.toks = render e ++ rest → Stop rest → ∃ st', parseExpr f st = .ok e st' ∧ st'.toks = rest
  | .num n, _, f, hf, st, rest, h, hs => by
    obtain ⟨g, rfl⟩ : ∃ g, f = g + 2 := ⟨f - 2, by simp [sz] at hf; omega⟩
    exact expr_of_factor (num_factor h) hs
  | .var x, _, f, hf, st, rest, h, hs => by
    obtain ⟨g, rfl⟩ : ∃ g, f = g + 2 := ⟨f - 2, by simp [sz] at hf; omega⟩
    exact expr_of_factor (var_factor h hs.f) hs
  | .un u e, hw, f, hf, st, rest, h, hs => by
    simp only [Expr.WF] at hw
    simp only [sz] at hf
    obtain ⟨k, rfl⟩ : ∃ k, f = k + 3 := ⟨f - 3, by omega⟩
    have ih := rt_expr e hw k (by omega)
    simp only [render, List.cons_append, List.append_assoc] at h
    exact expr_of_factor (f := k + 1) (un_factor ih h) hs
  | .bin o l r, hw, f, hf, st, rest, h, hs => by
    simp only [Expr.WF] at hw
    simp only [sz] at hf
    obtain ⟨k, rfl⟩ : ∃ k, f = k + 3 := ⟨f - 3, by omega⟩
    exact bin_expr (rt_expr l hw.1 (k + 1) (by omega)) (rt_expr r hw.2 k (by omega)) h hs
  | .call name args, hw, f, hf, st, rest, h, hs => by
    simp only [Expr.WF] at hw
    simp only [sz] at hf
    obtain ⟨g, rfl⟩ : ∃ g, f = g + 2 := ⟨f - 2, by omega⟩
    have hne : args ≠ [] := by
      intro he
      have := hw.1
      simp only [he, List.length_nil, funcArity] at this
      split at this <;> (try split at this) <;> (try split at this) <;> simp at this
    have ihA := rt_args args hw.2 hne g (by omega) rest
    simp only [render, List.cons_append, List.append_assoc] at h
    exact expr_of_factor (call_factor hw.1 (fun st t0 hh => by simpa using ihA [] st t0 hh) h) hs
theorem rt_args : (args : List Expr) → Expr.WFList args → args ≠ [] → ∀ (f : Nat), 3 * szL args ≤ f → ∀ (rest : List ATok)
    (acc : List Expr) (st : PState) (t0 : ATok), st.toks = t0 :: (renderArgs args ++ (.sym .RParen :: rest)) →
    ∃ st', parseArgs f acc st = .ok (acc ++ args) st' ∧ st'.toks = .sym .RParen :: rest
  | [], _, hne, _, _, _, _, _, _, _ => absurd rfl hne
  | [a], hw, _, f, hf, rest, acc, st, t0, h => by
    simp only [Expr.WFList] at hw
    simp only [szL] at hf
    obtain ⟨g, rfl⟩ : ∃ g, f = g + 1 := ⟨f - 1, by omega⟩
    simp only [renderArgs] at h
    exact args_one (rt_expr a hw.1 g (by omega)) h
  | a :: b :: more, hw, _, f, hf, rest, acc, st, t0, h => by
    simp only [Expr.WFList] at hw
    have hf' : 3 * (sz a + 1 + szL (b :: more)) ≤ f := by simpa only [szL] using hf
    obtain ⟨g, rfl⟩ : ∃ g, f = g + 1 := ⟨f - 1, by omega⟩
    simp only [renderArgs, List.append_assoc, List.cons_append] at h
    exact args_cons (rt_expr a hw.1 g (by omega))
      (rt_args (b :: more) (by simp only [Expr.WFList]; exact hw.2) (by simp) g (by omega) rest) h
end

/-! ## Completeness: every phrase of the grammar is accepted, with its denotation -/

theorem chain_follow {tc ps rest} (hc : DChain tc ps) (hs : Stop rest) : FStop (tc ++ rest) := by
  cases hc with
  | nil => simpa using hs.f
  | cons t o ts e rest' ps' hb _ _ =>
    refine ⟨t, ts ++ (rest' ++ rest), by simp, ?_⟩
    intro he; subst he; simp [binOpOf] at hb

mutual
theorem cF : ∀ {ts e}, DFactor ts e → ∀ (f : Nat) (st : PState) (rest : List ATok), 2 * ts.length ≤ f →
    st.toks = ts ++ rest → FStop rest → ∃ st', parseFactor f st = .ok e st' ∧ st'.toks = rest
  | _, _, .num v, f, st, rest, hf, h, _ => by
    obtain ⟨g, rfl⟩ : ∃ g, f = g + 1 := ⟨f - 1, by simp at hf; omega⟩
    exact num_factor (by simpa using h)
  | _, _, .var x, f, st, rest, hf, h, hs => by
    obtain ⟨g, rfl⟩ : ∃ g, f = g + 1 := ⟨f - 1, by simp at hf; omega⟩
    exact var_factor (by simpa using h) hs
  | _, _, .call name ta args har ha, f, st, rest, hf, h, _ => by
    simp only [List.length_cons, List.length_append, List.length_nil] at hf
    obtain ⟨g, rfl⟩ : ∃ g, f = g + 1 := ⟨f - 1, by omega⟩
    exact call_factor (ta := ta) har (fun st t0 hh => by simpa using cA ha g st rest [] t0 (by omega) hh)
      (by simpa using h)
  | _, _, .un k u ts e hu hfac, f, st, rest, hf, h, hs => by
    simp only [List.length_cons] at hf
    obtain ⟨g, rfl⟩ : ∃ g, f = g + 1 := ⟨f - 1, by omega⟩
    exact un_any hu (fun st hst => cF hfac g st rest (by omega) hst hs) (by simpa using h)
  | _, _, .paren ts e he, f, st, rest, hf, h, _ => by
    simp only [List.length_cons, List.length_append, List.length_nil] at hf
    obtain ⟨g, rfl⟩ : ∃ g, f = g + 1 := ⟨f - 1, by omega⟩
    exact paren_factor (u := ts) (fun st rest hst hs => cE he g st rest (by omega) hst hs) (by simpa using h)
theorem cE : ∀ {ts e}, DExpr ts e → ∀ (f : Nat) (st : PState) (rest : List ATok), 2 * ts.length + 2 ≤ f →
    st.toks = ts ++ rest → Stop rest → ∃ st', parseExpr f st = .ok e st' ∧ st'.toks = rest
  | _, _, .chain ts0 e0 tc ps hfac hc, f, st, rest, hf, h, hs => by
    simp only [List.length_append] at hf
    obtain ⟨g, rfl⟩ : ∃ g, f = g + 1 := ⟨f - 1, by omega⟩
    obtain ⟨s1, h1, t1⟩ := cF hfac g st (tc ++ rest) (by omega) (by simpa using h) (chain_follow hc hs)
    obtain ⟨s2, h2, t2⟩ := cC hc g s1 rest (.atom e0) (by omega) t1 hs
    rw [parseExpr, bind_ok h1, h2]
    exact ⟨_, rfl, t2⟩
theorem cC : ∀ {ts ps}, DChain ts ps → ∀ (f : Nat) (st : PState) (rest : List ATok) (t : BTree), 2 * ts.length + 1 ≤ f →
    st.toks = ts ++ rest → Stop rest →
    ∃ st', chain f t st = .ok ((ps.foldl (fun t p => t.add p.1 p.2) t).toExpr) st' ∧ st'.toks = rest
  | _, _, .nil, f, st, rest, t, hf, h, hs => by
    obtain ⟨g, rfl⟩ : ∃ g, f = g + 1 := ⟨f - 1, by omega⟩
    rw [chain_stop (by simpa using h) hs]
    exact ⟨_, rfl, by simpa using h⟩
  | _, _, .cons tk o ts e tc ps hb hfac hc, f, st, rest, t, hf, h, hs => by
    simp only [List.length_cons, List.length_append] at hf
    obtain ⟨g, rfl⟩ : ∃ g, f = g + 1 := ⟨f - 1, by omega⟩
    have h' : st.toks = tk :: (ts ++ (tc ++ rest)) := by simpa using h
    obtain ⟨s1, h1, t1⟩ := cF hfac g (adv st tk (ts ++ (tc ++ rest))) (tc ++ rest) (by omega) rfl (chain_follow hc hs)
    obtain ⟨s2, h2, t2⟩ := cC hc g s1 rest (t.add o e) (by omega) t1 hs
    rw [chain, bind_ok (peek_eq h')]
    simp only [hb]
    rw [bind_ok (get_eq h'), bind_ok h1, h2]
    exact ⟨_, rfl, t2⟩
theorem cA : ∀ {ts es}, DArgs ts es → ∀ (f : Nat) (st : PState) (rest : List ATok) (acc : List Expr) (t0 : ATok),
    2 * ts.length + 3 ≤ f → st.toks = t0 :: (ts ++ (.sym .RParen :: rest)) →
    ∃ st', parseArgs f acc st = .ok (acc ++ es) st' ∧ st'.toks = .sym .RParen :: rest
  | _, _, .one ts e he, f, st, rest, acc, t0, hf, h => by
    obtain ⟨g, rfl⟩ : ∃ g, f = g + 1 := ⟨f - 1, by omega⟩
    exact args_one (ua := ts) (fun st rest hst hs => cE he g st rest (by omega) hst hs) h
  | _, _, .cons ts e tr es he ha, f, st, rest, acc, t0, hf, h => by
    simp only [List.length_cons, List.length_append] at hf
    obtain ⟨g, rfl⟩ : ∃ g, f = g + 1 := ⟨f - 1, by omega⟩
    exact args_cons (ua := ts) (um := tr) (fun st rest hst hs => cE he g st rest (by omega) hst hs)
      (fun acc st t0 hst => cA ha g st rest acc t0 (by omega) hst) (by simpa using h)
end

end RoundTrip
end Dtr
