import Dtr.Proofs.MachineInv
import Dtr.Proofs.Expand
import Dtr.Proofs.MapRes
import Dtr.Proofs.StaticSim
import Dtr.Props.C18
/-! `DataRowIterator` never panics on a well-formed test  (C10) -/
namespace Dtr

/-- the machine part of the invariant -/
structure MInv (w : Nat) (isIn : Nat → Bool) (it : It) (c : Ctx) : Prop where
  swf : It.SWF w isIn it
  inv : c.vars.Inv
  vok : VarsOK it c.vars.abs
  dep : depth it < c.vars.abs.length

theorem Good.minv {w isIn it c it' c'} (h : Good w isIn it c it' c') : MInv w isIn it' c' :=
  ⟨h.1, h.2.1, h.2.2.1, h.2.2.2.1⟩

def NPost (w : Nat) (isIn : Nat → Bool) : NextRes → Prop
  | .row r it' c' => RowOK w isIn r ∧ r.upd = true ∧ MInv w isIn it' c'
  | .none it' c' => MInv w isIn it' c'
  | .err _ => True
  | .fuel => True
  | .panic _ => False

theorem nextRow_inv (w : Nat) (isIn : Nat → Bool) : ∀ (f : Nat) (it : It) (c : Ctx), MInv w isIn it c →
    NPost w isIn (nextRow f it c)
  | 0, it, c, _ => by simp [nextRow, NPost]
  | f+1, it, c, h => by
    have hs := step_inv w isIn it c h.swf h.inv h.vok h.dep
    simp only [nextRow]
    cases hst : step it c with
    | yield r it' c' => rw [hst] at hs; exact ⟨hs.1, hs.2.1, hs.2.2.minv⟩
    | done it' c' => rw [hst] at hs; exact hs.2.minv
    | cont it' c' => rw [hst] at hs; exact nextRow_inv w isIn f it' c' hs.minv
    | err e => simp [NPost]
    | panic m => rw [hst] at hs; exact hs.elim

variable (tc : TestCase)

/-- no `X` left in an input column -/
theorem lastX_none_getElem : ∀ (es : List REntry) (i j : Nat), lastInputXFrom tc es i = none →
    es[j]? = some .x → entryIsInput tc (i + j) = false
  | [], i, j, _, h => by simp at h
  | e :: es, i, j, hn, h => by
    simp only [lastInputXFrom] at hn
    cases h' : lastInputXFrom tc es (i + 1) with
    | some k => rw [h'] at hn; cases hn
    | none =>
      rw [h'] at hn
      cases j with
      | zero =>
        simp only [List.getElem?_cons_zero, Option.some.injEq] at h
        subst h
        by_cases hx : isInputX tc i .x = true
        · simp [hx] at hn
        · simpa [isInputX] using hx
      | succ j =>
        simp only [List.getElem?_cons_succ] at h
        have := lastX_none_getElem es (i + 1) j h' h
        have e : i + 1 + j = i + (j + 1) := by omega
        rw [e] at this; exact this

/-- no `C` left in an input column -/
theorem hasC_false_getElem : ∀ (es : List REntry) (i j : Nat), hasInputCFrom tc es i = false →
    es[j]? = some .c → entryIsInput tc (i + j) = false
  | [], i, j, _, h => by simp at h
  | e :: es, i, j, hn, h => by
    simp only [hasInputCFrom, Bool.or_eq_false_iff] at hn
    cases j with
    | zero =>
      simp only [List.getElem?_cons_zero, Option.some.injEq] at h
      subst h
      simpa [isInputC] using hn.1
    | succ j =>
      simp only [List.getElem?_cons_succ] at h
      have := hasC_false_getElem es (i + 1) j hn.2 h
      have e : i + 1 + j = i + (j + 1) := by omega
      rw [e] at this; exact this

/-- what parsing, binding and the signal list guarantee about a bound test; `w` is the header width -/
structure TestCase.WF (w : Nat) : Prop where
  inSig : ∀ i ∈ tc.inIdx, ∃ s, tc.signals[i.sig]? = some s ∧ s.default? ≠ none
  inCol : ∀ i ∈ tc.inIdx, ∀ col sig, i = .entry col sig → col < w
  expSig : ∀ i ∈ tc.expIdx, ∃ s, tc.signals[i.sig]? = some s
  expCol : ∀ i ∈ tc.expIdx, ∀ col sig, i = .entry col sig → col < w
  reads : ∀ r ∈ tc.reads, r < tc.signals.length
  virt : ∀ s ∈ tc.signals, ∀ e, s.typ = .virt e → e.WF
  stmts : Stmts.SWF w (entryIsInput tc) tc.stmts

abbrev ROK (w : Nat) (r : CRow) : Prop := RowOK w (entryIsInput tc) r

theorem rowOK_set (w : Nat) (top : CRow) (i : Nat) (v : Int64) (h : ROK tc w top) :
    ROK tc w { top with entries := top.entries.set i (.num v), xcols := i :: top.xcols } := by
  refine ⟨by simpa using h.1, ?_⟩
  intro j hj
  simp only at hj
  by_cases hij : i = j
  · subst hij
    by_cases hlt : i < top.entries.length
    · simp [List.getElem?_set_self hlt] at hj
    · rw [List.getElem?_eq_none (by simp; omega)] at hj; cases hj
  · rw [List.getElem?_set_ne hij] at hj
    exact h.2 j hj

/-- `popRow` on a stack of well-shaped rows: never a panic, and the popped row has neither `X` nor `C`
left in an input column -/
theorem popRow_ok (w : Nat) (hw : tc.WF w) : ∀ (k : Nat) (top : CRow) (rest : List CRow),
    numInputX tc top.entries = k → ROK tc w top → (∀ r ∈ rest, ROK tc w r) →
    ∃ top' rest', popRow tc (top :: rest) = .ok (top', rest') ∧ ROK tc w top' ∧ (∀ r ∈ rest', ROK tc w r) ∧
      lastInputX tc top'.entries = none ∧ hasInputCFrom tc top'.entries 0 = false := by
  intro k
  induction k with
  | zero =>
    intro top rest hk ht hr
    have hx : lastInputX tc top.entries = none := (lastX_none_iff tc top.entries 0).mpr hk
    by_cases hc : hasInputCFrom tc top.entries 0 = false
    · exact ⟨top, rest, popRow_plain tc top rest hx hc, ht, hr, hx, hc⟩
    · have hc' : hasInputCFrom tc top.entries 0 = true := by simpa using hc
      have hb : blankOutOfRange tc top.entries.length = false := by
        simp only [blankOutOfRange, List.any_eq_false]
        intro i hi
        cases i with
        | dflt s => simp
        | entry col sig =>
          have := hw.expCol _ hi col sig rfl
          simp [ht.1]; omega
      have hpop : popRow tc (top :: rest) = .ok (⟨clockBlank tc 0 top.entries, top.line, false, top.xcols⟩,
          ⟨clockBlank tc 1 top.entries, top.line, false, top.xcols⟩ :: ⟨clockLow tc 0 top.entries, top.line, top.upd, top.xcols⟩ :: rest) := by
        unfold popRow
        simp only [List.head?_cons, Option.map_some, Option.getD_some, expandX, hx, expandC, hc', hb]
        rfl
      have hblank : ∀ v, ROK tc w ⟨clockBlank tc v top.entries, top.line, false, top.xcols⟩ ∧
          lastInputX tc (clockBlank tc v top.entries) = none ∧ hasInputCFrom tc (clockBlank tc v top.entries) 0 = false := by
        intro v
        refine ⟨⟨by simp [clockBlank, mapIdxFrom_length, ht.1], ?_⟩, ?_, ?_⟩
        · intro j hj
          simp only [clockBlank, mapIdxFrom_getElem?] at hj
          cases he : top.entries[j]? with
          | none => simp [he] at hj
          | some e =>
            simp only [he, Option.map_some, Nat.zero_add, Option.some.injEq] at hj
            split at hj
            · cases hj
            · split at hj
              · cases hj
              · subst hj; exact ht.2 j he
        · exact clock_no_X tc _ (blank_props tc v).2 top.entries 0 hx
        · exact clock_no_C tc _ (blank_props tc v).1 top.entries 0
      have hlow : ROK tc w ⟨clockLow tc 0 top.entries, top.line, top.upd, top.xcols⟩ := by
        refine ⟨by simp [clockLow, mapIdxFrom_length, ht.1], ?_⟩
        intro j hj
        simp only [clockLow, mapIdxFrom_getElem?] at hj
        cases he : top.entries[j]? with
        | none => simp [he] at hj
        | some e =>
          simp only [he, Option.map_some, Nat.zero_add, Option.some.injEq] at hj
          split at hj
          · cases hj
          · subst hj; exact ht.2 j he
      refine ⟨_, _, hpop, (hblank 0).1, ?_, (hblank 0).2.1, (hblank 0).2.2⟩
      intro r hr'
      simp only [List.mem_cons] at hr'
      rcases hr' with rfl | rfl | hr'
      · exact (hblank 1).1
      · exact hlow
      · exact hr r hr'
  | succ k ih =>
    intro top rest hk ht hr
    have hne : lastInputX tc top.entries ≠ none := by
      intro h0; have := (lastX_none_iff tc top.entries 0).mp h0
      unfold numInputX at hk; omega
    cases hx : lastInputX tc top.entries with
    | none => exact absurd hx hne
    | some i =>
      obtain ⟨_, h2, h3⟩ := lastX_some tc top.entries 0 i 0 hx
      simp only [Nat.sub_zero] at h2 h3
      rw [popRow_split tc top rest i hx]
      apply ih
      · unfold numInputX at hk ⊢; simp only; omega
      · exact rowOK_set tc w top i 0 ht
      · intro r hr'
        simp only [List.mem_cons] at hr'
        rcases hr' with rfl | hr'
        · exact rowOK_set tc w top i 1 ht
        · exact hr r hr'

theorem mapRes_never_errs {α β ε : Type} (f : α → Res ε β) (l : List α)
    (h : ∀ a ∈ l, ∀ e, f a ≠ .err e) : ∀ e, mapRes f l ≠ .err e := by
  induction l with
  | nil => intro e; simp [mapRes]
  | cons a as ih =>
    intro e
    have ha := h a (by simp)
    have ih' := ih (fun x hx => h x (by simp [hx]))
    simp only [mapRes]
    cases hfa : f a with
    | ok b =>
      cases hm : mapRes f as with
      | ok bs => simp
      | err e' => exact absurd hm (ih' e')
      | panic s' => simp
    | err e' => exact absurd hfa (ha e')
    | panic s' => simp

theorem changedFlags_length (w : Nat) (prev : Option (List REntry)) (es : List REntry) (he : es.length = w)
    (hp : ∀ p, prev = some p → p.length = w) : (changedFlags prev es).length = w := by
  cases prev with
  | none => simp [changedFlags, he]
  | some p => simp [changedFlags, he, hp p rfl]

/-- one input entry is produced without panic or error -/
theorem inputFor_ok (w : Nat) (hw : tc.WF w) (es : List REntry) (ch : List Bool) (hes : es.length = w) (hch : ch.length = w)
    (hx : lastInputX tc es = none) (hc : hasInputCFrom tc es 0 = false) (i : EIdx) (hi : i ∈ tc.inIdx) :
    ∃ r, inputFor tc es ch i = .ok r := by
  obtain ⟨s, hs, hd⟩ := hw.inSig i hi
  cases i with
  | dflt sig =>
    simp only [EIdx.sig] at hs
    simp only [inputFor, hs]
    cases hdv : s.default? with
    | none => exact absurd hdv hd
    | some v => exact ⟨_, rfl⟩
  | entry col sig =>
    simp only [EIdx.sig] at hs
    have hcol := hw.inCol _ hi col sig rfl
    have hin : entryIsInput tc col = true := by
      simp only [entryIsInput, List.any_eq_true]
      exact ⟨_, hi, by simp [EIdx.indexes]⟩
    simp only [inputFor, hs]
    have hlt : col < es.length := by omega
    have hlc : col < ch.length := by omega
    rw [List.getElem?_eq_getElem hlt, List.getElem?_eq_getElem hlc]
    cases he : es[col] with
    | num n => exact ⟨_, rfl⟩
    | z => exact ⟨_, rfl⟩
    | x =>
      have := lastX_none_getElem tc es 0 col hx (by rw [List.getElem?_eq_getElem hlt, he])
      simp [hin] at this
    | c =>
      have := hasC_false_getElem tc es 0 col hc (by rw [List.getElem?_eq_getElem hlt, he])
      simp [hin] at this

theorem expectedFor_ok (w : Nat) (hw : tc.WF w) (es : List REntry) (hes : es.length = w)
    (hok : ∀ (j : Nat), es[j]? = some REntry.c → entryIsInput tc j = true)
    (hc : hasInputCFrom tc es 0 = false) (xcols : List Nat) (i : EIdx) (hi : i ∈ tc.expIdx) :
    ∃ r, expectedFor tc es xcols i = .ok r := by
  obtain ⟨s, hs⟩ := hw.expSig i hi
  cases i with
  | dflt sig =>
    simp only [EIdx.sig] at hs
    simp only [expectedFor, hs]; exact ⟨_, rfl⟩
  | entry col sig =>
    simp only [EIdx.sig] at hs
    have hcol := hw.expCol _ hi col sig rfl
    simp only [expectedFor, hs]
    split
    · exact ⟨_, rfl⟩
    have hlt : col < es.length := by omega
    rw [List.getElem?_eq_getElem hlt]
    cases he : es[col] with
    | num n => exact ⟨_, rfl⟩
    | z => exact ⟨_, rfl⟩
    | x => exact ⟨_, rfl⟩
    | c =>
      have h1 := hok col (by rw [List.getElem?_eq_getElem hlt, he])
      have h2 := hasC_false_getElem tc es 0 col hc (by rw [List.getElem?_eq_getElem hlt, he])
      simp [h1] at h2

end Dtr

namespace Dtr
variable (tc : TestCase)

/-- the invariant of a `DataRowIterator` over a well-formed test -/
structure RInv (w : Nat) (s : RowIt) : Prop where
  m : MInv w (entryIsInput tc) s.it s.ctx
  cache : ∀ r ∈ s.cache, ROK tc w r
  prev : ∀ p, s.prev = some p → p.length = w
  oi : ∀ o ∈ s.outIdx, match o with
    | .output n => n < s.numOut
    | .virt e => e.WF
    | .none => True

def GPost (w : Nat) : GetRowRes → Prop
  | .row _ s' => RInv tc w s'
  | .none s' => RInv tc w s'
  | .err _ => True
  | .fuel => True
  | .panic _ => False

theorem getRowTail_inv (w : Nat) (hw : tc.WF w) (s : RowIt) (h : RInv tc w s) (hne : s.cache ≠ []) :
    GPost tc w (getRowTail tc s) := by
  cases hc : s.cache with
  | nil => exact absurd hc hne
  | cons top rest =>
    have hcache := h.cache
    rw [hc] at hcache
    obtain ⟨top', rest', hpop, ht', hr', hx, hcc⟩ := popRow_ok tc w hw _ top rest rfl (hcache top (by simp))
      (fun r hr => hcache r (by simp [hr]))
    unfold getRowTail
    rw [hc, hpop]
    simp only
    have hchl := changedFlags_length w s.prev top'.entries ht'.1 h.prev
    -- inputs
    have hin : ∃ ins, genInputs tc top'.entries (changedFlags s.prev top'.entries) = .ok ins := by
      unfold genInputs
      exact mapRes_all_ok _ _ (fun i hi => inputFor_ok tc w hw _ _ ht'.1 hchl hx hcc i hi)
    obtain ⟨ins, hins⟩ := hin
    rw [hins]
    simp only
    have hex : ∃ exps, genExpected tc top'.entries top'.xcols = .ok exps := by
      unfold genExpected
      exact mapRes_all_ok _ _ (fun i hi => expectedFor_ok tc w hw _ ht'.1 ht'.2 hcc _ i hi)
    obtain ⟨exps, hexps⟩ := hex
    rw [hexps]
    simp only [GPost]
    exact ⟨h.m, hr', by intro p hp; simp only [Option.some.injEq] at hp; rw [← hp]; exact ht'.1, h.oi⟩

theorem getRow_inv (w : Nat) (hw : tc.WF w) (fuel : Nat) (s : RowIt) (h : RInv tc w s) :
    GPost tc w (getRow tc fuel s) := by
  rw [getRow_eq]
  split
  · next hemp =>
    have hn := nextRow_inv w (entryIsInput tc) fuel s.it s.ctx h.m
    cases hnr : nextRow fuel s.it s.ctx with
    | row r it c =>
      rw [hnr] at hn
      simp only
      apply getRowTail_inv tc w hw
      · exact ⟨hn.2.2, by intro r' hr'; simp only [List.mem_singleton] at hr'; rw [hr']; exact hn.1, h.prev, h.oi⟩
      · simp
    | none it c =>
      rw [hnr] at hn
      simp only [GPost]
      exact ⟨hn, h.cache, h.prev, h.oi⟩
    | err e => simp [GPost]
    | panic m => rw [hnr] at hn; exact hn.elim
    | fuel => simp [GPost]
  · next hemp =>
    apply getRowTail_inv tc w hw s h
    intro he; simp [he] at hemp

end Dtr

namespace Dtr
variable (tc : TestCase)

def OIdx.OK (numOut : Nat) : OIdx → Prop
  | .output n => n < numOut
  | .virt e => e.WF
  | .none => True

theorem extractOne_no_panic (w : Nat) (hw : tc.WF w) (outs : List OutEntry) (c : Ctx) (p : EIdx × OIdx)
    (h1 : p.1 ∈ tc.expIdx) (h2 : p.2.OK outs.length) (m : String) : extractOne tc outs c p ≠ .panic m := by
  obtain ⟨s, hs⟩ := hw.expSig p.1 h1
  unfold extractOne
  cases hp : p.2 with
  | none => simp
  | output n =>
    rw [hp] at h2
    simp only [OIdx.OK] at h2
    simp only [hs, List.getElem?_eq_getElem h2]
    split <;> simp
  | virt e =>
    rw [hp] at h2
    simp only [OIdx.OK] at h2
    simp only
    cases he : evalE e c with
    | ok q => simp
    | err er => simp
    | panic m' => exact absurd he (evalE_no_panic e c m' h2)

theorem extractAll_no_panic (w : Nat) (hw : tc.WF w) (outs : List OutEntry) : ∀ (ps : List (EIdx × OIdx)) (c : Ctx),
    (∀ p ∈ ps, p.1 ∈ tc.expIdx ∧ p.2.OK outs.length) → ∀ m, extractAll tc outs c ps ≠ .panic m
  | [], c, _, m => by simp [extractAll]
  | p :: ps, c, h, m => by
    have hp := h p (by simp)
    simp only [extractAll]
    cases h1 : extractOne tc outs c p with
    | ok q =>
      obtain ⟨v, c1⟩ := q
      simp only
      cases h2 : extractAll tc outs c1 ps with
      | ok r => simp
      | err e => simp
      | panic m' => exact absurd h2 (extractAll_no_panic w hw outs ps c1 (fun x hx => h x (by simp [hx])) m')
    | err e => simp
    | panic m' => exact absurd h1 (extractOne_no_panic tc w hw outs c p hp.1 hp.2 m')

theorem extractOutputs_no_panic (w : Nat) (hw : tc.WF w) (oi : List OIdx) (numOut : Nat) (outs : List OutEntry) (c : Ctx)
    (hoi : ∀ o ∈ oi, o.OK numOut) (m : String) (c' : Ctx) : extractOutputs tc oi numOut outs c ≠ (.panic m, c') := by
  unfold extractOutputs
  by_cases hl : (outs.length != numOut) = true
  · simp [hl]
  · simp only [hl, if_false]
    have hlen : outs.length = numOut := by simpa using hl
    cases h1 : extractAll tc outs c.swapVars (tc.expIdx.zip oi) with
    | ok r => simp
    | err e => simp
    | panic m' =>
      exact absurd h1 (extractAll_no_panic tc w hw outs _ _ (fun p hp => by
        have := List.of_mem_zip hp
        exact ⟨this.1, hlen ▸ hoi p.2 this.2⟩) m')

def NxPost {δ : Type} (w : Nat) : NextOut δ → Prop
  | .item (.row _) s' _ _ => RInv tc w s'
  | .item (.err _) _ _ _ => True
  | .none s' _ => RInv tc w s'
  | .fuel => True
  | .panic _ _ => False

/-- **One `next()`**: on a well-formed test, from a state satisfying the invariant, whatever the driver does,
`next` is not a panic, and after a row (or the end) the invariant holds again. -/
theorem next_inv {δ : Type} (w : Nat) (hw : tc.WF w) (drv : Driver δ) (fuel : Nat) (s : RowIt) (d : δ)
    (h : RInv tc w s) : NxPost tc w (RowIt.next tc drv fuel s d) := by
  have hg := getRow_inv tc w hw fuel s h
  unfold RowIt.next
  cases hgr : getRow tc fuel s with
  | err e => simp [NxPost]
  | panic m => rw [hgr] at hg; exact hg.elim
  | fuel => simp [NxPost]
  | none s' => rw [hgr] at hg; exact hg
  | row r s' =>
    rw [hgr] at hg
    simp only [GPost] at hg
    simp only
    split
    · -- checked row
      cases hd : drv.rw d r.inputs with
      | mk d' resp =>
        cases resp with
        | fail e => simp [NxPost]
        | ok outs =>
          simp only
          have hoi : ∀ o ∈ s'.outIdx, o.OK s'.numOut := by
            intro o ho
            have := hg.oi o ho
            cases o <;> simpa [OIdx.OK] using this
          cases hx : extractOutputs tc s'.outIdx s'.numOut outs (s'.ctx.setOutputs (outsOf outs)) with
          | mk res c2 =>
            cases res with
            | err e => simp [NxPost]
            | panic m => exact absurd hx (extractOutputs_no_panic tc w hw _ _ _ _ hoi m c2)
            | ok vals =>
              simp only [NxPost]
              have hv := C18_io_keeps_variables tc s'.outIdx s'.numOut outs s'.ctx c2 vals hx
              refine ⟨⟨hg.m.swf, ?_, ?_, ?_⟩, hg.cache, hg.prev, hg.oi⟩
              · simp only; rw [hv.1]; exact hg.m.inv
              · simp only; rw [hv.1]; exact hg.m.vok
              · simp only; rw [hv.1]; exact hg.m.dep
    · -- unchecked row
      cases hd : drv.wo d r.inputs with
      | mk d' resp =>
        cases resp with
        | some e => simp [NxPost]
        | none => exact hg

end Dtr

namespace Dtr
variable (tc : TestCase)

theorem posOf_lt {α : Type} (p : α → Bool) : ∀ (l : List α) (n : Nat), posOf p l = some n → n < l.length
  | [], n, h => by simp [posOf] at h
  | a :: as, n, h => by
    simp only [posOf] at h
    split at h
    · cases h; simp
    · cases hp : posOf p as with
      | none => simp [hp] at h
      | some k =>
        simp only [hp, Option.map_some, Option.some.injEq] at h
        have := posOf_lt p as k hp
        simp; omega

def CPost {δ : Type} (w : Nat) : CtorRes δ → Prop
  | .ok s _ _ => RInv tc w s
  | .err _ _ _ => True
  | .panic _ => False

theorem oidxFor_ok (w : Nat) (hw : tc.WF w) (outs : List OutEntry) (i : EIdx) (hi : i ∈ tc.expIdx) :
    ∃ o, oidxFor tc outs i = .ok (o, i.sig) ∧ o.OK outs.length := by
  obtain ⟨s, hs⟩ := hw.expSig i hi
  have hmem : s ∈ tc.signals := List.mem_of_getElem? hs
  simp only [oidxFor, hs]
  cases ht : s.typ with
  | virt e => exact ⟨.virt e, rfl, hw.virt s hmem e ht⟩
  | input d =>
    simp only
    cases hp : posOf (fun (o : OutEntry) => o.1 == s) outs with
    | none => exact ⟨.none, rfl, trivial⟩
    | some n => exact ⟨.output n, rfl, posOf_lt _ _ _ hp⟩
  | output =>
    simp only
    cases hp : posOf (fun (o : OutEntry) => o.1 == s) outs with
    | none => exact ⟨.none, rfl, trivial⟩
    | some n => exact ⟨.output n, rfl, posOf_lt _ _ _ hp⟩
  | bidir d =>
    simp only
    cases hp : posOf (fun (o : OutEntry) => o.1 == s) outs with
    | none => exact ⟨.none, rfl, trivial⟩
    | some n => exact ⟨.output n, rfl, posOf_lt _ _ _ hp⟩

theorem mapRes_oidx_ok (w : Nat) (hw : tc.WF w) (outs : List OutEntry) : ∀ (l : List EIdx), (∀ i ∈ l, i ∈ tc.expIdx) →
    ∃ ps, mapRes (oidxFor tc outs) l = .ok ps ∧ ∀ p ∈ ps, p.1.OK outs.length
  | [], _ => ⟨[], rfl, by simp⟩
  | i :: l, h => by
    obtain ⟨o, ho, hok⟩ := oidxFor_ok tc w hw outs i (h i (by simp))
    obtain ⟨ps, hps, hall⟩ := mapRes_oidx_ok w hw outs l (fun x hx => h x (by simp [hx]))
    refine ⟨(o, i.sig) :: ps, by simp [mapRes, ho, hps], ?_⟩
    intro p hp
    simp only [List.mem_cons] at hp
    rcases hp with rfl | hp
    · exact hok
    · exact hall p hp

theorem buildOutIdx_ok (w : Nat) (hw : tc.WF w) (outs : List OutEntry) :
    (∀ m, buildOutIdx tc outs ≠ .panic m) ∧ ∀ oi, buildOutIdx tc outs = .ok oi → ∀ o ∈ oi, o.OK outs.length := by
  obtain ⟨ps, hps, hall⟩ := mapRes_oidx_ok tc w hw outs tc.expIdx (fun _ h => h)
  have hmiss : ∀ found, ∃ ms, mapRes (missingFor tc found) tc.reads = .ok ms := by
    intro found
    apply mapRes_all_ok
    intro r hr
    simp only [missingFor]
    split
    · exact ⟨_, rfl⟩
    · have := hw.reads r hr
      rw [List.getElem?_eq_getElem this]; exact ⟨_, rfl⟩
  unfold buildOutIdx
  simp only [hps]
  constructor
  · intro m
    split
    · simp
    · next m' heq => obtain ⟨ms, hms⟩ := hmiss _; rw [hms] at heq; cases heq
    · split <;> simp
  · intro oi h
    split at h
    · cases h
    · cases h
    · split at h
      · simp only [Res.ok.injEq] at h
        subst h
        intro o ho
        obtain ⟨p, hp, rfl⟩ := List.mem_map.1 ho
        exact hall p hp
      · cases h

/-- **The constructor**: on a well-formed test `try_new` is not a panic whatever the driver answers, and a
successfully constructed iterator satisfies the invariant. -/
theorem ctor_inv {δ : Type} (w : Nat) (hw : tc.WF w) (drv : Driver δ) (d : δ) (rng : Rng) :
    CPost tc w (tryNew tc drv d rng) := by
  have hdef : ∃ ins, defaultInputs tc = .ok ins := by
    unfold defaultInputs
    apply mapRes_all_ok
    intro i hi
    obtain ⟨s, hs, hd⟩ := hw.inSig i hi
    simp only [defaultFor, hs]
    cases hdv : s.default? with
    | none => exact absurd hdv hd
    | some v => exact ⟨_, rfl⟩
  obtain ⟨ins, hins⟩ := hdef
  unfold tryNew
  simp only [hins]
  cases hd : drv.rw d ins with
  | mk d' resp =>
    cases resp with
    | fail e => simp [CPost]
    | ok outs =>
      simp only
      have hb := buildOutIdx_ok tc w hw outs
      cases hbo : buildOutIdx tc outs with
      | err e => simp [CPost]
      | panic m => exact absurd hbo (hb.1 m)
      | ok oi =>
        simp only [CPost]
        refine ⟨⟨?_, ?_, ?_, ?_⟩, by simp, by simp, ?_⟩
        · simp [It.new, It.SWF, ItState.SWF, hw.stmts]
        · simp [FMap.Inv, FMap.InvL]
        · simp [It.new, VarsOK]
        · simp [It.new, depth, FMap.abs, FMap.scopesOf]
        · intro o ho
          have := hb.2 oi hbo o ho
          cases o <;> simpa [OIdx.OK] using this

end Dtr
