import Dtr.Spec.BigStep
/-! The resumable iterator refines the big-step semantics -/
namespace Dtr
variable {W : Type} (D : Device W)

theorem Steps.trans {a b c : It × Sys W} (h1 : Steps D a b) (h2 : Steps D b c) : Steps D a c := by
  induction h1 with
  | refl => exact h2
  | head m _ ih => exact .head m (ih h2)

theorem Steps.single {a b : It × Sys W} (m : Micro D a b) : Steps D a b := .head m (.refl _)

theorem Steps.cont1 {it it' : It} {c c' : Ctx} {w : W} {l b}
    (hs : step it c = .cont it' c') (h : Steps D (it', ⟨c', w, l⟩) b) : Steps D (it, ⟨c, w, l⟩) b :=
  .head (.cont hs) h
theorem Steps.cont0 {it it' : It} {c c' : Ctx} {w : W} {l}
    (hs : step it c = .cont it' c') : Steps D (it, ⟨c, w, l⟩) (it', ⟨c', w, l⟩) :=
  .single D (.cont hs)

/-- a run of the inner iterator lifts through the enclosing `IterateInner` state -/
theorem lift_inner {it it' : It} {σ σ' : Sys W} (rest ls)
    (h : Steps D (it, σ) (it', σ')) :
    Steps D (.mk rest (.inner it ls), σ) (.mk rest (.inner it' ls), σ') := by
  generalize ha : (it, σ) = a at h
  generalize hb : (it', σ') = b at h
  induction h generalizing it σ with
  | refl => cases ha; cases hb; exact .refl _
  | head m _ ih =>
    cases ha
    cases m with
    | cont hs => exact .head (.cont (by simp [step, hs])) (ih rfl hb)
    | yield hs => exact .head (.yield (by simp [step, hs])) (ih rfl hb)

theorem lift_while {it it' : It} {σ σ' : Sys W} (rest ws)
    (h : Steps D (it, σ) (it', σ')) :
    Steps D (.mk rest (.whileInner it ws), σ) (.mk rest (.whileInner it' ws), σ') := by
  generalize ha : (it, σ) = a at h
  generalize hb : (it', σ') = b at h
  induction h generalizing it σ with
  | refl => cases ha; cases hb; exact .refl _
  | head m _ ih =>
    cases ha
    cases m with
    | cont hs => exact .head (.cont (by simp [step, hs])) (ih rfl hb)
    | yield hs => exact .head (.yield (by simp [step, hs])) (ih rfl hb)

/-- what the four mutually recursive big-step functions promise about the machine, at a given fuel -/
structure Sound (fuel : Nat) : Prop where
  block : ∀ ss rest (σ σ' : Sys W), execBlock D fuel ss σ = some σ' →
    Steps D (.mk (ss ++ rest) .iterate, σ) (.mk rest .iterate, σ')
  stmt : ∀ s rest (σ σ' : Sys W), execStmt D fuel s σ = some σ' →
    Steps D (.mk (s :: rest) .iterate, σ) (.mk rest .iterate, σ')
  loop : ∀ var n body cur rest (σ σ' : Sys W), loopIter D fuel var n body cur σ = some σ' →
    Steps D (.mk rest (.startInner ⟨var, n, body, cur⟩), σ) (.mk rest .iterate, σ')
  whil : ∀ cond body rest (σ σ' : Sys W), whileIter D fuel cond body σ = some σ' →
    Steps D (.mk rest (.startWhile ⟨cond, body⟩), σ) (.mk rest .iterate, σ')

theorem sound : ∀ fuel, Sound D fuel := by
  intro fuel
  induction fuel with
  | zero =>
    constructor <;> intros <;> simp_all [execBlock, execStmt, loopIter, whileIter]
  | succ fuel ih =>
    constructor
    · -- block
      intro ss rest σ σ' h
      cases ss with
      | nil => simp [execBlock] at h; subst h; exact .refl _
      | cons s ss' =>
        simp only [execBlock] at h
        split at h
        · cases h
        · next σ1 hs => exact (ih.stmt s (ss' ++ rest) σ σ1 hs).trans D (ih.block ss' rest σ1 σ' h)
    · -- stmt
      intro s rest σ σ' h
      obtain ⟨c, w, l⟩ := σ
      cases s with
      | letS name e =>
        simp only [execStmt] at h
        split at h
        · next v c' he => cases h; exact .cont0 D (by simp [step, he])
        · cases h
      | row data line =>
        simp only [execStmt] at h
        split at h
        · next es c' he => cases h; exact .single D (.yield (by simp [step, he]))
        · cases h
      | resetRandom =>
        simp only [execStmt] at h; cases h; exact .cont0 D (by simp [step])
      | loop var max body =>
        simp only [execStmt] at h
        split at h
        · next n c' he =>
          refine .cont1 D (it' := .mk rest (.startLoop ⟨var, n, body, 0⟩)) (c' := c') (by simp [step, he]) ?_
          split at h
          · next hn => cases h; exact .cont0 D (by simp [step, hn])
          · next hn =>
            refine .cont1 D (it' := .mk rest (.startInner ⟨var, n, body, 0⟩)) (c' := c'.pushFrame.set var 0) (by simp [step, hn]) ?_
            exact ih.loop var n body 0 rest _ _ h
        · cases h
      | «while» cond body =>
        simp only [execStmt] at h
        refine .cont1 D (it' := .mk rest (.startWhile ⟨cond, body⟩)) (c' := c) (by simp [step]) ?_
        exact ih.whil cond body rest _ _ h
    · -- loop
      intro var n body cur rest σ σ' h
      simp only [loopIter] at h
      split at h
      · cases h
      · next σ2 hb =>
        obtain ⟨c, w, l⟩ := σ
        obtain ⟨c2, w2, l2⟩ := σ2
        have hbody := ih.block body [] _ _ hb
        simp only [List.append_nil] at hbody
        refine .cont1 D (it' := .mk rest (.inner (.mk body .iterate) ⟨var, n, body, cur⟩)) (c' := c) (by simp [step]) ?_
        refine (lift_inner D rest ⟨var, n, body, cur⟩ hbody).trans D ?_
        refine .cont1 D (it' := .mk rest (.endInner ⟨var, n, body, cur⟩)) (c' := c2) (by simp [step]) ?_
        simp only at h
        split at h
        · next hlt =>
          refine .cont1 D (it' := .mk rest (.startInner ⟨var, n, body, satSucc cur⟩)) (c' := c2.set var (satSucc cur)) (by simp [step, hlt]) ?_
          exact ih.loop var n body (satSucc cur) rest _ _ h
        · next hlt =>
          cases h
          exact .cont0 D (by simp [step, hlt])
    · -- while
      intro cond body rest σ σ' h
      obtain ⟨c, w, l⟩ := σ
      simp only [whileIter] at h
      split at h
      · next v c' he =>
        split at h
        · next hv => cases h; exact .cont0 D (by simp [step, he, hv])
        · next hv =>
          split at h
          · cases h
          · next σ2 hb =>
            obtain ⟨c2, w2, l2⟩ := σ2
            have hbody := ih.block body [] _ _ hb
            simp only [List.append_nil] at hbody
            refine .cont1 D (it' := .mk rest (.whileInner (.mk body .iterate) ⟨cond, body⟩)) (c' := c') (by simp [step, he, hv]) ?_
            refine (lift_while D rest ⟨cond, body⟩ hbody).trans D ?_
            refine .cont1 D (it' := .mk rest (.startWhile ⟨cond, body⟩)) (c' := c2) (by simp [step]) ?_
            exact ih.whil cond body rest _ _ h
      · cases h

end Dtr
