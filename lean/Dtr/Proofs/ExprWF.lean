import Dtr.Model.RowIter
/-! Well-formed expressions never reach a panic site of `Expr::eval`  (C10) -/
namespace Dtr

mutual
/-- every call names a table function and has its arity — what `parse_factor` guarantees -/
def Expr.WF : Expr → Prop
  | .num _ => True
  | .var _ => True
  | .un _ e => e.WF
  | .bin _ l r => l.WF ∧ r.WF
  | .call name args => funcArity name = some args.length ∧ Expr.WFList args
def Expr.WFList : List Expr → Prop
  | [] => True
  | e :: es => e.WF ∧ Expr.WFList es
end

theorem Expr.WFList_append : ∀ (a b : List Expr), Expr.WFList a → Expr.WFList b → Expr.WFList (a ++ b)
  | [], b, _, hb => hb
  | e :: es, b, ha, hb => by
    simp only [List.cons_append, Expr.WFList] at ha ⊢
    exact ⟨ha.1, Expr.WFList_append es b ha.2 hb⟩

theorem evalG_no_panic (get : String → Option OutVal) : ∀ (e : Expr) (g : Rng) (m : String), e.WF → evalG get e g ≠ .panic m
  | .num n, g, m, _ => by simp [evalG]
  | .var s, g, m, _ => by
    simp only [evalG]
    split <;> simp
  | .un o e, g, m, h => by
    simp only [Expr.WF] at h
    have ih := evalG_no_panic get e g
    simp only [evalG]
    cases h1 : evalG get e g with
    | ok p => simp
    | err er => simp
    | panic m' => exact absurd h1 (ih m' h)
  | .bin o l r, g, m, h => by
    simp only [Expr.WF] at h
    simp only [evalG]
    cases h1 : evalG get l g with
    | ok p =>
      obtain ⟨a, g1⟩ := p
      simp only
      cases h2 : evalG get r g1 with
      | ok q =>
        obtain ⟨b, g2⟩ := q
        simp only
        cases o.eval a b <;> simp
      | err er => simp
      | panic m' => exact absurd h2 (evalG_no_panic get r g1 m' h.2)
    | err er => simp
    | panic m' => exact absurd h1 (evalG_no_panic get l g m' h.1)
  | .call name args, g, m, h => by
    simp only [Expr.WF] at h
    obtain ⟨har, hargs⟩ := h
    unfold evalG
    simp only [har, bne_self_eq_false, Bool.false_eq_true, if_false]
    by_cases hr : name = "random"
    · subst hr
      simp only [if_true]
      have : args.length = 1 := by simpa [funcArity] using har.symm
      match args, this, hargs with
      | [a], _, hargs =>
        simp only [Expr.WFList] at hargs
        simp only
        cases h1 : evalG get a g with
        | ok p =>
          obtain ⟨mx, g1⟩ := p
          simp only
          split <;> simp
        | err er => simp
        | panic m' => exact absurd h1 (evalG_no_panic get a g m' hargs.1)
    · simp only [hr, if_false]
      by_cases hi : name = "ite"
      · subst hi
        simp only [if_true]
        have : args.length = 3 := by simpa [funcArity] using har.symm
        match args, this, hargs with
        | [t, a, b], _, hargs =>
          simp only [Expr.WFList] at hargs
          simp only
          cases h1 : evalG get t g with
          | ok p =>
            obtain ⟨v, g1⟩ := p
            simp only
            split
            · exact evalG_no_panic get b g1 m hargs.2.2.1
            · exact evalG_no_panic get a g1 m hargs.2.1
          | err er => simp
          | panic m' => exact absurd h1 (evalG_no_panic get t g m' hargs.1)
      · simp [hi]

theorem evalE_no_panic (e : Expr) (c : Ctx) (m : String) (h : e.WF) : evalE e c ≠ .panic m := by
  unfold evalE
  cases h1 : evalG c.get e c.rng with
  | ok p => simp
  | err er => simp
  | panic m' => exact absurd h1 (evalG_no_panic c.get e c.rng m' h)

/-- well-formed row entry -/
def DataEntry.WF : DataEntry → Prop
  | .expr e => e.WF
  | .bits _ e => e.WF
  | _ => True

/-- number of columns an entry expands to -/
def DataEntry.width : DataEntry → Nat
  | .bits k _ => k
  | _ => 1

def rowW (d : List DataEntry) : Nat := (d.map DataEntry.width).sum

theorem evalEntry_spec (d : DataEntry) (c : Ctx) (h : d.WF) :
    (∀ m, evalEntry d c ≠ .panic m) ∧
    ∀ es c', evalEntry d c = .ok (es, c') → es.length = d.width ∧
      (∀ (j : Nat), es[j]? = some REntry.c → d = DataEntry.c) := by
  cases d with
  | num n => simp [evalEntry, DataEntry.width]; intro j hj; cases j <;> simp at hj
  | x => simp [evalEntry, DataEntry.width]; intro j hj; cases j <;> simp at hj
  | z => simp [evalEntry, DataEntry.width]; intro j hj; cases j <;> simp at hj
  | c => simp [evalEntry, DataEntry.width]
  | expr e =>
    simp only [DataEntry.WF] at h
    simp only [evalEntry]
    cases h1 : evalE e c with
    | ok p =>
      obtain ⟨v, c1⟩ := p
      simp [DataEntry.width]; intro j hj; cases j <;> simp at hj
    | err er => simp
    | panic m' => exact absurd h1 (evalE_no_panic e c m' h)
  | bits k e =>
    simp only [DataEntry.WF] at h
    simp only [evalEntry]
    cases h1 : evalE e c with
    | ok p =>
      obtain ⟨v, c1⟩ := p
      simp only [ne_eq, reduceCtorEq, not_false_eq_true, implies_true, Res.ok.injEq, Prod.mk.injEq, true_and]
      rintro es c' ⟨rfl, _⟩
      refine ⟨by simp [DataEntry.width], ?_⟩
      intro j hj
      simp only [List.getElem?_map] at hj
      cases hx : (List.range k).reverse[j]? with
      | none => simp [hx] at hj
      | some n => simp [hx, bitOf] at hj
    | err er => simp
    | panic m' => exact absurd h1 (evalE_no_panic e c m' h)

/-- expanded columns of the `C` entries of a row, counted from `i` -/
def cCols : List DataEntry → Nat → List Nat
  | [], _ => []
  | d :: ds, i => (match d with | .c => [i] | _ => []) ++ cCols ds (i + d.width)

theorem evalRow_spec : ∀ (ds : List DataEntry) (c : Ctx), (∀ d ∈ ds, d.WF) →
    (∀ m, evalRow ds c ≠ .panic m) ∧
    ∀ es c', evalRow ds c = .ok (es, c') → es.length = rowW ds ∧
      ∀ (i j : Nat), es[j]? = some REntry.c → (i + j) ∈ cCols ds i
  | [], c, _ => by
    simp [evalRow, rowW]
  | d :: ds, c, h => by
    have hd := evalEntry_spec d c (h d (by simp))
    simp only [evalRow]
    cases h1 : evalEntry d c with
    | ok p =>
      obtain ⟨es1, c1⟩ := p
      have hr := evalRow_spec ds c1 (fun x hx => h x (by simp [hx]))
      have hd2 := hd.2 es1 c1 h1
      simp only
      cases h2 : evalRow ds c1 with
      | ok q =>
        obtain ⟨rest, c2⟩ := q
        have hr2 := hr.2 rest c2 h2
        simp only [ne_eq, reduceCtorEq, not_false_eq_true, implies_true, Res.ok.injEq, Prod.mk.injEq, true_and]
        rintro es c' ⟨rfl, _⟩
        refine ⟨by simp [rowW, hd2.1, hr2.1], ?_⟩
        intro i j hj
        simp only [cCols, List.mem_append]
        by_cases hlt : j < es1.length
        · rw [List.getElem?_append_left hlt] at hj
          have := hd2.2 j hj
          subst this
          left
          have : j = 0 := by simp [DataEntry.width] at hd2; omega
          simp [this]
        · rw [List.getElem?_append_right (by omega)] at hj
          right
          have := hr2.2 (i + d.width) (j - es1.length) hj
          have e : i + d.width + (j - es1.length) = i + j := by rw [← hd2.1]; omega
          rw [e] at this; exact this
      | err er => simp
      | panic m' => exact absurd h2 (hr.1 m')
    | err er => simp
    | panic m' => exact absurd h1 (hd.1 m')

end Dtr
