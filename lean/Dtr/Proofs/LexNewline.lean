import Dtr.Proofs.LexLines
/-!
# Lexing is compositional at line starts

What the body lexer makes of the text up to and including a newline does not depend on what follows
that newline (`best_indep`); hence, for `L` empty or ending in a newline, the tokens of `L ++ R` are
the tokens of `L` — a list that is empty or ends in an `Eol` — followed by the tokens of `R`
(`lex_lines`).  An inserted blank or comment-only line therefore adds exactly one `Eol` token,
directly behind an `Eol` or at the very start (`lex_insert_line`).
-/
namespace Dtr

theorem tw_stop (q : Char → Bool) (x : Char) (hq : q x = false) : ∀ (A B : Str), tw q (A ++ x :: B) = tw q A
  | [], B => by simp [tw, List.takeWhile, hq]
  | c :: A, B => by
    have := tw_stop q x hq A B
    simp only [tw, List.cons_append, List.takeWhile] at this ⊢
    split
    · simp [this]
    · rfl

/-- the value of a scanner on a text does not depend on what follows the first newline -/
def Indep (sc : Str → Nat) : Prop := ∀ (A B1 B2 : Str), sc (A ++ '\n' :: B1) = sc (A ++ '\n' :: B2)

theorem indep_run (g q : Char → Bool) (hq : q '\n' = false) (hg : g '\n' = false)
    (sc : Str → Nat) (hsc : ∀ c cs, sc (c :: cs) = if g c then 1 + tw q cs else 0) : Indep sc := by
  intro A B1 B2
  cases A with
  | nil => simp [hsc, hg]
  | cons c A => simp only [List.cons_append, hsc, tw_stop q '\n' hq]

theorem indep_ident : Indep scanIdent := indep_run isIdStart isIdC (by decide) (by decide) _ (fun _ _ => rfl)
theorem indep_dec : Indep scanDec := indep_run isDec1 isDec (by decide) (by decide) _ (fun _ _ => rfl)
theorem indep_oct : Indep scanOct :=
  indep_run (· == '0') isOct (by decide) (by decide) _ (fun _ _ => rfl)

theorem prefixed_nl0 (x1 x2 : Char) (q : Char → Bool) (B : Str) : scanPrefixed x1 x2 q ('\n' :: B) = 0 := by
  match B with
  | [] => rfl
  | [_] => rfl
  | _ :: _ :: _ => simp [scanPrefixed]

theorem prefixed_nl1 (x1 x2 : Char) (q : Char → Bool) (hx1 : x1 ≠ '\n') (hx2 : x2 ≠ '\n') (c : Char) (B : Str) :
    scanPrefixed x1 x2 q (c :: '\n' :: B) = 0 := by
  match B with
  | [] => rfl
  | _ :: _ =>
    have h1 : ('\n' == x1) = false := by simp; exact fun e => hx1 e.symm
    have h2 : ('\n' == x2) = false := by simp; exact fun e => hx2 e.symm
    simp [scanPrefixed, h1, h2]

theorem indep_prefixed (x1 x2 : Char) (q : Char → Bool) (hq : q '\n' = false) (hx1 : x1 ≠ '\n') (hx2 : x2 ≠ '\n') :
    Indep (scanPrefixed x1 x2 q) := by
  intro A B1 B2
  match A with
  | [] => simp only [List.nil_append, prefixed_nl0]
  | [c] => simp only [List.cons_append, List.nil_append, prefixed_nl1 x1 x2 q hx1 hx2]
  | [c, y] => simp [scanPrefixed, hq]
  | c :: y :: h :: A => simp only [List.cons_append, scanPrefixed, tw_stop q '\n' hq]

theorem isPre_indep_ne : ∀ (lit A B1 B2 : Str), (∀ a ∈ lit, a ≠ '\n') → isPre lit (A ++ '\n' :: B1) = isPre lit (A ++ '\n' :: B2)
  | [], _, _, _, _ => by simp [isPre]
  | a :: as, [], B1, B2, h => by
    have : (a == '\n') = false := by simpa using h a (by simp)
    simp [isPre, this]
  | a :: as, c :: A, B1, B2, h => by
    simp only [List.cons_append, isPre]
    rw [isPre_indep_ne as A B1 B2 (fun x hx => h x (by simp [hx]))]

theorem indep_lit : ∀ kl ∈ literals, Indep (scanLit kl.2) := by
  intro kl hkl A B1 B2
  rcases literals_nl kl hkl with ⟨_, hl⟩ | ⟨_, _, hl⟩
  · rw [hl]
    cases A with
    | nil => simp [scanLit, isPre]
    | cons c A => simp [scanLit, isPre]
  · simp only [scanLit, isPre_indep_ne kl.2 A B1 B2 hl]

theorem scanners_indep : ∀ ks ∈ scanners, Indep ks.2 := by
  intro ks h
  simp only [scanners, List.mem_append, List.mem_map, List.mem_cons, List.mem_nil_iff, or_false] at h
  rcases h with ⟨kl, hkl, rfl⟩ | rfl | rfl | rfl | rfl | rfl
  · exact indep_lit kl hkl
  · exact indep_ident
  · exact indep_dec
  · rw [scanHex_eq]; exact indep_prefixed _ _ _ (by decide) (by decide) (by decide)
  · rw [scanBin_eq]; exact indep_prefixed _ _ _ (by decide) (by decide) (by decide)
  · exact indep_oct

theorem best0_indep (A B1 B2 : Str) : best0 (A ++ '\n' :: B1) = best0 (A ++ '\n' :: B2) := by
  have hv : vals (A ++ '\n' :: B1) = vals (A ++ '\n' :: B2) := by
    simp only [vals]
    apply List.map_congr_left
    intro ks hks
    rw [scanners_indep ks hks A B1 B2]
  simp [best0, hv]

/-- a newline-free prefix of length `n` of a text whose character at `A.length` is a newline -/
theorem le_of_no_nl (A B : Str) (n : Nat) (h : ∀ ch ∈ (A ++ '\n' :: B).take n, ch ≠ '\n') : n ≤ A.length := by
  rcases Nat.lt_or_ge A.length n with hlt | hge
  · exfalso
    have : '\n' ∈ (A ++ '\n' :: B).take n := by
      rw [List.mem_take_iff_getElem]
      refine ⟨A.length, by simp; omega, ?_⟩
      simp
    exact h _ this rfl
  · exact hge

/-- the match of the winning scanner ends in front of the first newline, unless it is the `Eol` token -/
theorem best0_le_nl (A B : Str) : (best0 (A ++ '\n' :: B)).1 = .Eol ∨ (best0 (A ++ '\n' :: B)).2 ≤ A.length := by
  rcases best0_cases (A ++ '\n' :: B) with he | ⟨ks, hks, hv⟩
  · right; rw [he]; simp
  · rcases scanners_nl ks hks (A ++ '\n' :: B) with ⟨hk, _⟩ | ⟨_, hno, _⟩
    · left; rw [hv, hk]
    · right; rw [hv]; exact le_of_no_nl A B _ hno

theorem best_indep (A B1 B2 : Str) : best (A ++ '\n' :: B1) = best (A ++ '\n' :: B2) := by
  have h0 := best0_indep A B1 B2
  simp only [best, h0]
  congr 1
  -- the quirk looks at the character behind the match, which is in `A` or is the newline
  unfold keywordQuirk
  split
  · next hk =>
    rcases best0_le_nl A B2 with he | hle
    · rw [he] at hk; simp [isKeyword] at hk
    · have hd : ∀ B, (A ++ '\n' :: B).drop (best0 (A ++ '\n' :: B2)).2 =
          A.drop (best0 (A ++ '\n' :: B2)).2 ++ '\n' :: B := by
        intro B; rw [List.drop_append_of_le_length hle]
      rw [hd B1, hd B2]
      cases A.drop (best0 (A ++ '\n' :: B2)).2 with
      | nil => rfl
      | cons c cs => rfl
  · rfl

theorem tokLen_indep (A B1 B2 : Str) : tokLen (A ++ '\n' :: B1) = tokLen (A ++ '\n' :: B2) := by
  simp only [tokLen, best_indep A B1 B2]

theorem best_nl (B : Str) : best ('\n' :: B) = (.Eol, 1) := by
  have hb := best_indep [] B []
  simp only [List.nil_append] at hb
  rw [hb]
  decide +kernel

/-- a token that starts in a newline-free `A` (non-empty) followed by a newline ends in `A` -/
theorem tokLen_le_nl (c : Char) (A B : Str) (hc : c ≠ '\n') :
    tokLen (c :: (A ++ '\n' :: B)) ≤ (c :: A).length := by
  have key := best0_le_nl (c :: A) B
  simp only [List.cons_append] at key
  rcases key with he | hle
  · -- the `Eol` scanner does not match at a character other than the newline
    exfalso
    rcases best0_cases (c :: (A ++ '\n' :: B)) with h0 | ⟨ks, hks, hv⟩
    · rw [h0] at he; cases he
    · rcases scanners_nl ks hks (c :: (A ++ '\n' :: B)) with ⟨hk, hn⟩ | ⟨hk, _, _⟩
      · have hz : ks.2 (c :: (A ++ '\n' :: B)) = 0 := by
          rw [hn]
          split
          · next heq => simp only [List.cons.injEq] at heq; exact absurd heq.1 hc
          · rfl
        rcases pick_acc_or_gt (vals (c :: (A ++ '\n' :: B))) (.Error, 0) with h0 | h0
        · have : best0 (c :: (A ++ '\n' :: B)) = (.Error, 0) := h0
          rw [this] at he; cases he
        · have : 0 < (best0 (c :: (A ++ '\n' :: B))).2 := h0
          rw [hv, hz] at this; simp at this
      · rw [hv] at he; exact hk he
  · simp only [tokLen, best, List.length_cons] at hle ⊢
    omega

theorem comLen_eq_tw (s : Str) : comLen s = tw (· != '\n') s := rfl

theorem tw_le' (q : Char → Bool) (s : Str) : tw q s ≤ s.length := (List.takeWhile_sublist q).length_le

theorem getLast_cons_ne {α : Type} (x : α) : ∀ (xs : List α), xs ≠ [] → (x :: xs).getLast? = xs.getLast?
  | [], h => absurd rfl h
  | _ :: _, _ => by simp [List.getLast?_cons_cons]

/-- a non-empty text ending in a newline is the newline alone or has the shape `c :: (A ++ "\n")` -/
theorem ends_nl_shape (c : Char) (L' : Str) (h : (c :: L').getLast? = some '\n') :
    (L' = [] ∧ c = '\n') ∨ ∃ A, L' = A ++ ['\n'] := by
  cases L' with
  | nil => left; simpa using h
  | cons d ds =>
    right
    have h' : (d :: ds).getLast? = some '\n' := by rw [← getLast_cons_ne c (d :: ds) (by simp)]; exact h
    have hne : (d :: ds) ≠ [] := by simp
    have hg : (d :: ds).getLast hne = '\n' := by
      have := List.getLast?_eq_some_getLast hne
      rw [h'] at this
      exact (Option.some.inj this).symm
    refine ⟨(d :: ds).dropLast, ?_⟩
    have := List.dropLast_concat_getLast hne
    rw [hg] at this
    exact this.symm

/-- **Lexing is compositional at line starts**: for `L` empty or ending in a newline there is a token
list `TL` — empty for empty `L`, otherwise ending in an `Eol` token — such that the tokens of `L ++ R`
are `TL` followed by the tokens of `R`, whatever `R` is. -/
theorem lex_lines : ∀ (n : Nat) (L : Str), L.length ≤ n → (L = [] ∨ L.getLast? = some '\n') →
    ∃ TL : List (Kind × Str), (L = [] → TL = []) ∧ (L ≠ [] → ∃ t, TL.getLast? = some (.Eol, t)) ∧
      ∀ (R : Str) (f : Nat), (L ++ R).length ≤ f → lexKT f (L ++ R) = TL ++ lexKT f R := by
  intro n
  induction n with
  | zero =>
    intro L hl _
    have : L = [] := by cases L <;> simp_all
    subst this
    exact ⟨[], fun _ => rfl, fun h => absurd rfl h, fun R f _ => by simp⟩
  | succ n ih =>
    intro L hl hL
    cases L with
    | nil => exact ⟨[], fun _ => rfl, fun h => absurd rfl h, fun R f _ => by simp⟩
    | cons c L' =>
      have hlast : (c :: L').getLast? = some '\n' := by
        rcases hL with h | h
        · cases h
        · exact h
      simp only [List.length_cons] at hl
      by_cases hb : isBlank c = true
      · -- a blank: skipped
        have hc : c ≠ '\n' := by intro e; subst e; simp [isBlank] at hb
        rcases ends_nl_shape c L' hlast with ⟨_, he⟩ | ⟨A, hA⟩
        · exact absurd he hc
        · have hne : L' ≠ [] := by rw [hA]; simp
          have hl' : L'.getLast? = some '\n' := by rw [hA]; simp
          obtain ⟨TL, _, h2, h3⟩ := ih L' (by omega) (Or.inr hl')
          refine ⟨TL, (fun h => by cases h), fun _ => h2 hne, ?_⟩
          intro R f hf
          obtain ⟨f', rfl⟩ : ∃ f', f = f' + 1 := ⟨f - 1, by simp at hf; omega⟩
          simp only [List.cons_append, lexKT, hb, if_true]
          simp only [List.cons_append, List.length_cons] at hf
          rw [h3 R f' (by omega), lexKT_fuel f' R (by simp at hf; omega)]
      · by_cases hh : (c == '#') = true
        · -- a comment: skipped up to its newline
          have hc : c ≠ '\n' := by intro e; subst e; simp at hh
          rcases ends_nl_shape c L' hlast with ⟨_, he⟩ | ⟨A, hA⟩
          · exact absurd he hc
          · subst hA
            have hcl : ∀ R, comLen (A ++ '\n' :: R) = tw (· != '\n') A := fun R => by
              rw [comLen_eq_tw]; exact tw_stop _ '\n' (by decide) A R
            have hk : tw (· != '\n') A ≤ A.length := tw_le' _ A
            let L2 := (A ++ ['\n']).drop (tw (· != '\n') A)
            have hL2len : L2.length = A.length + 1 - tw (· != '\n') A := by simp [L2]
            have hL2ne : L2 ≠ [] := by
              intro e; have := congrArg List.length e; rw [hL2len] at this; simp at this; omega
            have hL2last : L2.getLast? = some '\n' := by
              simp only [L2]; rw [List.getLast?_drop]; simp; omega
            obtain ⟨TL, _, h2, h3⟩ := ih L2 (by rw [hL2len]; simp at hl; omega) (Or.inr hL2last)
            refine ⟨TL, (fun h => by cases h), fun _ => h2 hL2ne, ?_⟩
            intro R f hf
            obtain ⟨f', rfl⟩ : ∃ f', f = f' + 1 := ⟨f - 1, by simp at hf; omega⟩
            simp only [List.cons_append, List.length_cons, List.length_append] at hf
            have e1 : (A ++ ['\n'] ++ R) = A ++ '\n' :: R := by simp
            simp only [List.cons_append, lexKT, hb, hh, if_true, if_false, Bool.false_eq_true]
            rw [e1, hcl R]
            have e2 : (A ++ '\n' :: R).drop (tw (· != '\n') A) = L2 ++ R := by
              simp only [L2]
              rw [← e1, List.drop_append_of_le_length (by simp; omega)]
            rw [e2, h3 R f' (by rw [List.length_append, hL2len]; simp at hf ⊢; omega),
              lexKT_fuel f' R (by simp at hf; omega)]
        · -- a token
          by_cases hc : c = '\n'
          · subst hc
            have hL' : L' = [] ∨ L'.getLast? = some '\n' := by
              cases L' with
              | nil => left; rfl
              | cons d ds => right; rw [← getLast_cons_ne '\n' (d :: ds) (by simp)]; exact hlast
            obtain ⟨TL, h1, h2, h3⟩ := ih L' (by omega) hL'
            refine ⟨(.Eol, ['\n']) :: TL, (fun h => by cases h), fun _ => ?_, ?_⟩
            · by_cases hn : L' = []
              · rw [h1 hn]; exact ⟨_, rfl⟩
              · obtain ⟨t, ht⟩ := h2 hn
                have : TL ≠ [] := by intro e; rw [e] at ht; cases ht
                exact ⟨t, by rw [getLast_cons_ne _ TL this]; exact ht⟩
            · intro R f hf
              obtain ⟨f', rfl⟩ : ∃ f', f = f' + 1 := ⟨f - 1, by simp at hf; omega⟩
              simp only [List.cons_append, List.length_cons] at hf
              simp only [List.cons_append, lexKT, hb, hh, if_false, Bool.false_eq_true, tokLen, best_nl]
              simp only [Nat.max_self, List.take_succ_cons, List.take_zero, List.drop_succ_cons, List.drop_zero,
                List.cons.injEq, true_and]
              rw [h3 R f' (by omega), lexKT_fuel f' R (by simp at hf; omega)]
          · rcases ends_nl_shape c L' hlast with ⟨_, he⟩ | ⟨A, hA⟩
            · exact absurd he hc
            · subst hA
              -- the token and its length do not depend on what follows the newline
              let n0 := tokLen (c :: (A ++ '\n' :: []))
              have hn0 : ∀ R, tokLen (c :: (A ++ '\n' :: R)) = n0 := fun R => tokLen_indep (c :: A) R []
              have hk0 : ∀ R, (best (c :: (A ++ '\n' :: R))).1 = (best (c :: (A ++ '\n' :: []))).1 := fun R => by
                have := best_indep (c :: A) R []
                simp only [List.cons_append] at this
                rw [this]
              have hle : n0 ≤ A.length + 1 := by
                have := tokLen_le_nl c A [] hc
                simpa using this
              have hpos : 1 ≤ n0 := by simp only [n0, tokLen]; omega
              let L2 := (c :: (A ++ ['\n'])).drop n0
              have hL2len : L2.length = A.length + 2 - n0 := by simp [L2]
              have hL2ne : L2 ≠ [] := by
                intro e; have := congrArg List.length e; rw [hL2len] at this; simp at this; omega
              have hL2last : L2.getLast? = some '\n' := by
                simp only [L2]; rw [List.getLast?_drop]
                have : ¬ (c :: (A ++ ['\n'])).length ≤ n0 := by simp; omega
                rw [if_neg this]; exact hlast
              obtain ⟨TL, _, h2, h3⟩ := ih L2 (by rw [hL2len]; simp at hl; omega) (Or.inr hL2last)
              refine ⟨((best (c :: (A ++ '\n' :: []))).1, (c :: (A ++ ['\n'])).take n0) :: TL,
                (fun h => by cases h), fun _ => ?_, ?_⟩
              · obtain ⟨t, ht⟩ := h2 hL2ne
                have : TL ≠ [] := by intro e; rw [e] at ht; cases ht
                exact ⟨t, by rw [getLast_cons_ne _ TL this]; exact ht⟩
              · intro R f hf
                obtain ⟨f', rfl⟩ : ∃ f', f = f' + 1 := ⟨f - 1, by simp at hf; omega⟩
                simp only [List.cons_append, List.length_cons, List.length_append] at hf
                have e1 : (A ++ ['\n'] ++ R) = A ++ '\n' :: R := by simp
                simp only [List.cons_append, lexKT, hb, hh, if_false, Bool.false_eq_true]
                rw [e1, hn0 R, hk0 R]
                have e2 : (c :: (A ++ '\n' :: R)).drop n0 = L2 ++ R := by
                  simp only [L2]
                  rw [← e1, ← List.cons_append, ← List.cons_append,
                    List.drop_append_of_le_length (by simp; omega)]
                have e3 : (c :: (A ++ '\n' :: R)).take n0 = (c :: (A ++ ['\n'])).take n0 := by
                  rw [← e1, ← List.cons_append, ← List.cons_append,
                    List.take_append_of_le_length (by simp; omega)]
                rw [e2, e3, h3 R f' (by rw [List.length_append, hL2len]; simp at hf ⊢; omega),
                  lexKT_fuel f' R (by simp at hf; omega)]

end Dtr
