import Dtr.Proofs.MachineInv
/-!
# What an accepted body looks like, part 2: expressions, `C` columns, virtual signals  (C10)

A second, cursor-free pass over the parser: every expression it returns is well-formed (calls name a
table function at its arity), every `C` entry's header column is recorded in `expected_inputs`, and
every declared virtual signal's expression is well-formed.  The recorded sets only grow.
-/
namespace Dtr

/-- the recorded `C` columns only grow; every virtual signal in `b` was in `a` or is well-formed -/
def PState.le (a b : PState) : Prop :=
  (∀ n, n ∈ a.expIn.map (·.1) → n ∈ b.expIn.map (·.1)) ∧ (∀ v ∈ b.virt, v ∈ a.virt ∨ v.2.2.WF) ∧
  ((a.virt.map (·.1)).Nodup → (b.virt.map (·.1)).Nodup)

theorem PState.le_refl (a : PState) : a.le a := ⟨fun _ h => h, fun v h => Or.inl h, fun h => h⟩

theorem PState.le_trans {a b c : PState} (h1 : a.le b) (h2 : b.le c) : a.le c :=
  ⟨fun n h => h2.1 n (h1.1 n h), fun v h => by
    rcases h2.2.1 v h with h | h
    · exact h1.2.1 v h
    · exact Or.inr h, fun h => h2.2.2 (h1.2.2 h)⟩

theorem PState.le_of_eq {a b : PState} (h1 : b.expIn = a.expIn) (h2 : b.virt = a.virt) : a.le b :=
  ⟨fun n h => by rw [h1]; exact h, fun v h => by rw [h2] at h; exact Or.inl h, fun h => by rw [h2]; exact h⟩

/-- partial-correctness triple that also says the state only grew -/
def MT {α : Type} (P : PState → Prop) (m : PM α) (Q : α → PState → Prop) : Prop :=
  ∀ st, P st → ∀ a st', m st = .ok a st' → st.le st' ∧ Q a st'

def Mono (X : PState → Prop) : Prop := ∀ st st', X st → st.le st' → X st'

theorem MT.bind {α β : Type} {P : PState → Prop} {Q : α → PState → Prop} {R : β → PState → Prop}
    {m : PM α} {f : α → PM β} (hm : MT P m Q) (hf : ∀ a, MT (Q a) (f a) R) : MT P (m >>= f) R := by
  intro st hp b st2 h
  have h' : PM.bind m f st = .ok b st2 := h
  unfold PM.bind at h'
  cases h1 : m st with
  | ok a st1 =>
    rw [h1] at h'
    obtain ⟨l1, q1⟩ := hm st hp a st1 h1
    obtain ⟨l2, r2⟩ := hf a st1 q1 b st2 h'
    exact ⟨PState.le_trans l1 l2, r2⟩
  | err t l => rw [h1] at h'; cases h'
  | panic s => rw [h1] at h'; cases h'
  | fuel => rw [h1] at h'; cases h'

theorem MT.pure {α : Type} {P : PState → Prop} {Q : α → PState → Prop} (a : α) (h : ∀ st, P st → Q a st) :
    MT P (pure a) Q := by
  intro st hp b st' he
  have : PM.pure a st = .ok b st' := he
  simp only [PM.pure, PRes.ok.injEq] at this
  obtain ⟨rfl, rfl⟩ := this
  exact ⟨PState.le_refl _, h _ hp⟩

theorem MT.fail {α : Type} {P : PState → Prop} {Q : α → PState → Prop} (t : String) (l : List Loc) :
    MT P (failP t l : PM α) Q := by
  intro st _ b st' he; simp [failP] at he

theorem MT.fuel {α : Type} {P : PState → Prop} {Q : α → PState → Prop} : MT P (fuelOut : PM α) Q := by
  intro st _ b st' he; simp [fuelOut] at he

theorem MT.weaken {α : Type} {P P' : PState → Prop} {Q Q' : α → PState → Prop} {m : PM α} (h : MT P m Q)
    (hp : ∀ st, P' st → P st) (hq : ∀ a st, Q a st → Q' a st) : MT P' m Q' := by
  intro st hp' a st' he
  obtain ⟨l, q⟩ := h st (hp st hp') a st' he
  exact ⟨l, hq a st' q⟩

/-- a pure fact rides along -/
theorem MT.frame {α : Type} {P : PState → Prop} {Q : α → PState → Prop} {m : PM α} (F : Prop) (h : MT P m Q) :
    MT (fun st => P st ∧ F) m (fun a st => Q a st ∧ F) := by
  intro st hp a st' he
  obtain ⟨l, q⟩ := h st hp.1 a st' he
  exact ⟨l, q, hp.2⟩

/-- a monotone state predicate rides along -/
theorem MT.frameMono {α : Type} {P : PState → Prop} {Q : α → PState → Prop} {m : PM α} (X : PState → Prop)
    (hX : Mono X) (h : MT P m Q) : MT (fun st => P st ∧ X st) m (fun a st => Q a st ∧ X st) := by
  intro st hp a st' he
  obtain ⟨l, q⟩ := h st hp.1 a st' he
  exact ⟨l, q, hX st st' hp.2 l⟩

/-- an operation that touches neither `expIn` nor `virt` -/
def Keeps {α : Type} (m : PM α) : Prop := ∀ st a st', m st = .ok a st' → st'.expIn = st.expIn ∧ st'.virt = st.virt

theorem Keeps.mt {α : Type} {m : PM α} (hk : Keeps m) (P : PState → Prop) (hP : Mono P) :
    MT P m (fun _ st => P st) := by
  intro st hp a st' he
  obtain ⟨h1, h2⟩ := hk st a st' he
  have l := PState.le_of_eq h1 h2
  exact ⟨l, hP st st' hp l⟩

theorem Keeps.bind {α β : Type} {m : PM α} {f : α → PM β} (hm : Keeps m) (hf : ∀ a, Keeps (f a)) : Keeps (m >>= f) := by
  intro st b st2 h
  have h' : PM.bind m f st = .ok b st2 := h
  unfold PM.bind at h'
  cases h1 : m st with
  | ok a st1 =>
    rw [h1] at h'
    obtain ⟨a1, a2⟩ := hm st a st1 h1
    obtain ⟨b1, b2⟩ := hf a st1 b st2 h'
    exact ⟨b1.trans a1, b2.trans a2⟩
  | err t l => rw [h1] at h'; cases h'
  | panic s => rw [h1] at h'; cases h'
  | fuel => rw [h1] at h'; cases h'

theorem Keeps.pure {α : Type} (a : α) : Keeps (pure a : PM α) := by
  intro st b st' he
  have : PM.pure a st = .ok b st' := he
  simp only [PM.pure, PRes.ok.injEq] at this
  obtain ⟨_, rfl⟩ := this; exact ⟨rfl, rfl⟩

theorem Keeps.fail {α : Type} (t l) : Keeps (failP t l : PM α) := by
  intro st b st' he; simp [failP] at he

theorem keeps_curPos : Keeps curPos := by
  intro st a st' h; simp only [curPos, PRes.ok.injEq] at h; obtain ⟨_, rfl⟩ := h; exact ⟨rfl, rfl⟩
theorem keeps_getLine : Keeps getLine := by
  intro st a st' h; simp only [getLine, PRes.ok.injEq] at h; obtain ⟨_, rfl⟩ := h; exact ⟨rfl, rfl⟩
theorem keeps_getTok : Keeps getTok := by
  intro st a st' h
  simp only [getTok] at h
  split at h
  · cases h
  · simp only [PRes.ok.injEq] at h; obtain ⟨_, rfl⟩ := h; exact ⟨rfl, rfl⟩
theorem keeps_peekTok : Keeps peekTok := by
  intro st a st' h
  simp only [peekTok] at h
  split at h
  · cases h
  · simp only [PRes.ok.injEq] at h; obtain ⟨_, rfl⟩ := h; exact ⟨rfl, rfl⟩
theorem keeps_peekPos : Keeps peekPos := by
  intro st a st' h
  simp only [peekPos] at h
  split at h
  · cases h
  · simp only [PRes.ok.injEq] at h; obtain ⟨_, rfl⟩ := h; exact ⟨rfl, rfl⟩
theorem keeps_skipTok : Keeps skipTok := by
  intro st a st' h
  simp only [skipTok] at h
  cases hg : getTok st with
  | ok t st1 =>
    rw [hg] at h
    simp only [PRes.ok.injEq] at h; obtain ⟨_, rfl⟩ := h
    exact keeps_getTok st t st1 hg
  | err a b => rw [hg] at h; cases h
  | panic m => rw [hg] at h; cases h
  | fuel => rw [hg] at h; cases h
theorem keeps_atTok (k : Kind) : Keeps (atTok k) := by
  unfold atTok; exact Keeps.bind keeps_peekTok (fun _ => Keeps.pure _)
theorem keeps_expectTok (k : Kind) : Keeps (expectTok k) := by
  unfold expectTok
  refine Keeps.bind keeps_curPos (fun i => Keeps.bind keeps_getTok (fun t => ?_))
  split
  · exact Keeps.pure _
  · exact Keeps.fail _ _
theorem keeps_expectIdent : Keeps expectIdent := by
  unfold expectIdent
  refine Keeps.bind keeps_curPos (fun i => Keeps.bind keeps_getTok (fun t => ?_))
  split
  · exact Keeps.pure _
  · exact Keeps.fail _ _
theorem keeps_parseNumber : Keeps parseNumber := by
  unfold parseNumber
  refine Keeps.bind keeps_curPos (fun i => Keeps.bind keeps_getTok (fun t => ?_))
  split
  · exact Keeps.pure _
  · exact Keeps.fail _ _
  · exact Keeps.fail _ _
theorem keeps_modVars (f) : Keeps (modVars f) := by
  intro st a st' h; simp only [modVars, PRes.ok.injEq] at h; obtain ⟨_, rfl⟩ := h; exact ⟨rfl, rfl⟩
theorem keeps_getVars : Keeps getVars := by
  intro st a st' h; simp only [getVars, PRes.ok.injEq] at h; obtain ⟨_, rfl⟩ := h; exact ⟨rfl, rfl⟩
theorem keeps_recordRead (n i) : Keeps (recordRead n i) := by
  intro st a st' h
  simp only [recordRead] at h
  split at h
  · simp only [PRes.ok.injEq] at h; obtain ⟨_, rfl⟩ := h; exact ⟨rfl, rfl⟩
  · split at h
    · simp only [PRes.ok.injEq] at h; obtain ⟨_, rfl⟩ := h; exact ⟨rfl, rfl⟩
    · simp only [PRes.ok.injEq] at h; obtain ⟨_, rfl⟩ := h; exact ⟨rfl, rfl⟩

/-- all atoms of a chain tree are well-formed -/
def BTree.WF : BTree → Prop
  | .atom e => e.WF
  | .node _ l r => l.WF ∧ r.WF

end Dtr

namespace Dtr

theorem MT.assume {α : Type} {P : PState → Prop} {Q : α → PState → Prop} {m : PM α} {F : Prop}
    (h : F → MT P m Q) : MT (fun st => P st ∧ F) m Q := fun st hp => h hp.2 st hp.1

theorem BTree.add_wf : ∀ (t : BTree) (o : BinOp) (e : Expr), t.WF → e.WF → (t.add o e).WF
  | .atom b, o, e, ht, he => by simp only [BTree.add, BTree.WF]; exact ⟨ht, he⟩
  | .node o' l r, o, e, ht, he => by
    simp only [BTree.WF] at ht
    simp only [BTree.add]
    split
    · simp only [BTree.WF]; exact ⟨ht.1, BTree.add_wf r o e ht.2 he⟩
    · simp only [BTree.WF]; exact ⟨ht, he⟩

theorem BTree.toExpr_wf : ∀ (t : BTree), t.WF → t.toExpr.WF
  | .atom e, h => h
  | .node o l r, h => by
    simp only [BTree.WF] at h
    simp only [BTree.toExpr, Expr.WF]
    exact ⟨BTree.toExpr_wf l h.1, BTree.toExpr_wf r h.2⟩

/-- the four expression parsers return well-formed expressions and touch neither recorded set -/
structure EWF (f : Nat) : Prop where
  expr : ∀ P, Mono P → MT P (parseExpr f) (fun e st => P st ∧ e.WF)
  chain : ∀ P, Mono P → ∀ t, t.WF → MT P (chain f t) (fun e st => P st ∧ e.WF)
  factor : ∀ P, Mono P → MT P (parseFactor f) (fun e st => P st ∧ e.WF)
  args : ∀ P, Mono P → ∀ acc, Expr.WFList acc → MT P (parseArgs f acc) (fun as st => P st ∧ Expr.WFList as)

theorem ewf : ∀ f, EWF f := by
  intro f
  induction f with
  | zero => exact ⟨fun _ _ => MT.fuel, fun _ _ _ _ => MT.fuel, fun _ _ => MT.fuel, fun _ _ _ _ => MT.fuel⟩
  | succ f ih =>
    refine ⟨?_, ?_, ?_, ?_⟩
    · intro P hP
      simp only [parseExpr]
      refine MT.bind (ih.factor P hP) (fun first => ?_)
      exact MT.assume (fun hw => ih.chain P hP (.atom first) hw)
    · intro P hP t ht
      simp only [chain]
      refine MT.bind (keeps_peekTok.mt P hP) (fun tk => ?_)
      cases hb : binOpOf tk with
      | none => exact MT.pure _ (fun st h => ⟨h, BTree.toExpr_wf t ht⟩)
      | some o =>
        simp only
        refine MT.bind (keeps_getTok.mt P hP) (fun _ => ?_)
        refine MT.bind (ih.factor P hP) (fun e => ?_)
        exact MT.assume (fun hw => ih.chain P hP _ (BTree.add_wf t o e ht hw))
    · intro P hP
      simp only [parseFactor]
      refine MT.bind (keeps_peekTok.mt P hP) (fun tk => ?_)
      cases tk with
      | num v =>
        simp only
        refine MT.bind (keeps_parseNumber.mt P hP) (fun n => ?_)
        exact MT.pure _ (fun st h => ⟨h, trivial⟩)
      | ident name =>
        simp only
        refine MT.bind (keeps_curPos.mt P hP) (fun i => ?_)
        refine MT.bind (keeps_getTok.mt P hP) (fun _ => ?_)
        refine MT.bind ((keeps_atTok .LParen).mt P hP) (fun b => ?_)
        cases b with
        | true =>
          simp only [if_true]
          cases hfa : funcArity name with
          | none => exact MT.fail _ _
          | some ar =>
            simp only
            refine MT.bind (ih.args P hP [] trivial) (fun args => ?_)
            refine MT.assume (fun hargs => ?_)
            refine MT.bind ((keeps_expectTok .RParen).mt P hP) (fun _ => ?_)
            by_cases hl : (args.length != ar) = true
            · simp only [hl, if_true]
              refine MT.bind (keeps_peekPos.mt P hP) (fun j => ?_)
              exact MT.fail _ _
            · simp only [hl, if_false]
              have : args.length = ar := by simpa using hl
              exact MT.pure _ (fun st h => ⟨h, by simp only [Expr.WF]; exact ⟨by rw [this]; exact hfa, hargs⟩⟩)
        | false =>
          simp only [Bool.false_eq_true, if_false]
          refine MT.bind ((keeps_recordRead name i).mt P hP) (fun _ => ?_)
          exact MT.pure _ (fun st h => ⟨h, trivial⟩)
      | sym k =>
        simp only
        cases hu : unOpOf (.sym k) with
        | some u =>
          simp only
          refine MT.bind (keeps_skipTok.mt P hP) (fun _ => ?_)
          refine MT.bind (ih.factor P hP) (fun e => ?_)
          exact MT.pure _ (fun st h => ⟨h.1, h.2⟩)
        | none =>
          simp only
          by_cases hk : k = .LParen
          · simp only [hk, if_true]
            refine MT.bind (keeps_skipTok.mt P hP) (fun _ => ?_)
            refine MT.bind (ih.expr P hP) (fun e => ?_)
            refine MT.assume (fun hw => ?_)
            refine MT.bind ((keeps_expectTok .RParen).mt P hP) (fun _ => ?_)
            exact MT.pure _ (fun st h => ⟨h, hw⟩)
          · simp only [hk, if_false]
            refine MT.bind (keeps_curPos.mt P hP) (fun i => ?_)
            refine MT.bind (keeps_getTok.mt P hP) (fun _ => ?_)
            exact MT.fail _ _
    · intro P hP acc hacc
      simp only [parseArgs]
      refine MT.bind (keeps_skipTok.mt P hP) (fun _ => ?_)
      refine MT.bind (ih.expr P hP) (fun e => ?_)
      refine MT.assume (fun hw => ?_)
      refine MT.bind ((keeps_atTok .Comma).mt P hP) (fun b => ?_)
      have hacc' : Expr.WFList (acc ++ [e]) := Expr.WFList_append acc [e] hacc ⟨hw, trivial⟩
      cases b with
      | true => simp only [if_true]; exact ih.args P hP _ hacc'
      | false =>
        simp only [Bool.false_eq_true, if_false]
        exact MT.pure _ (fun st h => ⟨h, hacc'⟩)

end Dtr

namespace Dtr

/-- column `j` of the header is recorded in `expected_inputs` -/
def recB (hdr : List String) (E : List (String × Nat)) (j : Nat) : Bool :=
  match hdr[j]? with
  | some n => E.any (fun r => r.1 == n)
  | none => false

theorem recB_mono (hdr : List String) {a b : PState} (h : a.le b) (j : Nat) (hj : recB hdr a.expIn j = true) :
    recB hdr b.expIn j = true := by
  unfold recB at hj ⊢
  cases hh : hdr[j]? with
  | none => simp [hh] at hj
  | some n =>
    simp only [hh, List.any_eq_true, beq_iff_eq] at hj ⊢
    obtain ⟨r, hr, hrn⟩ := hj
    have := h.1 n (by simp only [List.mem_map]; exact ⟨r, hr, hrn⟩)
    simp only [List.mem_map] at this
    obtain ⟨r', hr', hrn'⟩ := this
    exact ⟨r', hr', hrn'⟩

mutual
theorem Stmt.SWF_mono (w : Nat) (f g : Nat → Bool) (h : ∀ j, f j = true → g j = true) :
    ∀ (s : Stmt), Stmt.SWF w f s → Stmt.SWF w g s
  | .letS _ _, hs => hs
  | .row data _, hs => by
    simp only [Stmt.SWF] at hs ⊢
    exact ⟨hs.1, hs.2.1, fun j hj => h j (hs.2.2 j hj)⟩
  | .loop _ _ body, hs => by
    simp only [Stmt.SWF] at hs ⊢
    exact ⟨hs.1, Stmts.SWF_mono w f g h body hs.2⟩
  | .while _ body, hs => by
    simp only [Stmt.SWF] at hs ⊢
    exact ⟨hs.1, Stmts.SWF_mono w f g h body hs.2⟩
  | .resetRandom, _ => trivial
theorem Stmts.SWF_mono (w : Nat) (f g : Nat → Bool) (h : ∀ j, f j = true → g j = true) :
    ∀ (ss : List Stmt), Stmts.SWF w f ss → Stmts.SWF w g ss
  | [], _ => trivial
  | s :: ss, hs => by
    simp only [Stmts.SWF] at hs ⊢
    exact ⟨Stmt.SWF_mono w f g h s hs.1, Stmts.SWF_mono w f g h ss hs.2⟩
end

theorem Stmts.SWF_append (w : Nat) (f : Nat → Bool) : ∀ (a : List Stmt) (s : Stmt), Stmts.SWF w f a → Stmt.SWF w f s →
    Stmts.SWF w f (a ++ [s])
  | [], s, _, hs => by simp [Stmts.SWF, hs]
  | x :: xs, s, ha, hs => by
    simp only [List.cons_append, Stmts.SWF] at ha ⊢
    exact ⟨ha.1, Stmts.SWF_append w f xs s ha.2 hs⟩

theorem cCols_append : ∀ (a : List DataEntry) (d : DataEntry) (i : Nat),
    cCols (a ++ [d]) i = cCols a i ++ (match d with | .c => [i + rowW a] | _ => [])
  | [], d, i => by cases d <;> simp [cCols, rowW]
  | x :: xs, d, i => by
    simp only [List.cons_append, cCols, cCols_append xs d (i + x.width), List.append_assoc]
    congr 2
    cases d <;> simp [rowW] <;> omega

theorem rowW_append (a : List DataEntry) (d : DataEntry) : rowW (a ++ [d]) = rowW a + d.width := by
  simp [rowW]

theorem cCols_lt : ∀ (a : List DataEntry) (i j : Nat), j ∈ cCols a i → j < i + rowW a
  | [], i, j, h => by simp [cCols] at h
  | d :: ds, i, j, h => by
    simp only [cCols, List.mem_append] at h
    have hw : rowW (d :: ds) = d.width + rowW ds := by simp [rowW]
    rcases h with h | h
    · cases d <;> simp at h
      subst h; simp [hw, DataEntry.width]; omega
    · have := cCols_lt ds (i + d.width) j h
      omega

theorem mono_and {X Y : PState → Prop} (hx : Mono X) (hy : Mono Y) : Mono (fun st => X st ∧ Y st) :=
  fun st st' h l => ⟨hx st st' h.1 l, hy st st' h.2 l⟩

/-- the `C` entries of `data` sit in recorded columns -/
def CR (hdr : List String) (data : List DataEntry) (st : PState) : Prop :=
  ∀ j ∈ cCols data 0, j < hdr.length → recB hdr st.expIn j = true

theorem mono_CR (hdr : List String) (data : List DataEntry) : Mono (CR hdr data) :=
  fun _ _ h l j hj hlt => recB_mono hdr l j (h j hj hlt)

theorem mt_recordC (P : PState → Prop) (hP : Mono P) (name : String) (i : Nat) :
    MT P (recordC name i) (fun _ st => P st ∧ st.expIn.any (fun r => r.1 == name) = true) := by
  intro st hp a st' he
  simp only [recordC] at he
  split at he
  · next hany =>
    simp only [PRes.ok.injEq] at he; obtain ⟨_, rfl⟩ := he
    exact ⟨PState.le_refl _, hp, hany⟩
  · simp only [PRes.ok.injEq] at he; obtain ⟨_, rfl⟩ := he
    have l : st.le { st with expIn := st.expIn ++ [(name, i)] } :=
      ⟨fun n hn => by simp only [List.map_append, List.mem_append]; exact Or.inl hn, fun v hv => Or.inl hv, fun h => h⟩
    exact ⟨l, hP _ _ hp l, by simp⟩

theorem rowLoop_wf (hdr : List String) (P : PState → Prop) (hP : Mono P) : ∀ (f : Nat) (data : List DataEntry) (idx : Nat),
    idx = rowW data → (∀ d ∈ data, d.WF) →
    MT (fun st => P st ∧ CR hdr data st) (rowLoop hdr f data idx)
      (fun r st => P st ∧ CR hdr r.1 st ∧ (∀ d ∈ r.1, d.WF) ∧ r.2 = rowW r.1)
  | 0, _, _, _, _ => MT.fuel
  | f+1, data, idx, hidx, hwf => by
    have hPC := mono_and hP (mono_CR hdr data)
    have ih := rowLoop_wf hdr P hP f
    -- appending an entry that is not `C`
    have app : ∀ (d : DataEntry), d.WF → (∀ st, CR hdr data st → CR hdr (data ++ [d]) st) →
        MT (fun st => P st ∧ CR hdr data st) (rowLoop hdr f (data ++ [d]) (idx + d.width))
          (fun r st => P st ∧ CR hdr r.1 st ∧ (∀ d ∈ r.1, d.WF) ∧ r.2 = rowW r.1) := by
      intro d hd hcr
      refine MT.weaken (ih (data ++ [d]) (idx + d.width) (by rw [rowW_append, hidx]) ?_) (fun st h => ⟨h.1, hcr st h.2⟩)
        (fun _ _ h => h)
      intro x hx
      simp only [List.mem_append, List.mem_cons, List.mem_nil_iff, or_false] at hx
      rcases hx with hx | rfl
      · exact hwf x hx
      · exact hd
    have notc : ∀ (d : DataEntry), (match d with | .c => False | _ => True) → ∀ st, CR hdr data st → CR hdr (data ++ [d]) st := by
      intro d hd st h j hj
      rw [cCols_append] at hj
      cases d <;> simp at hd <;> simp at hj <;> exact h j hj
    simp only [rowLoop]
    refine MT.bind (keeps_peekTok.mt _ hPC) (fun tk => ?_)
    split
    · -- ( expr )
      refine MT.bind (keeps_skipTok.mt _ hPC) (fun _ => ?_)
      refine MT.bind ((ewf f).expr _ hPC) (fun e => ?_)
      refine MT.assume (fun hw => ?_)
      refine MT.bind ((keeps_expectTok .RParen).mt _ hPC) (fun _ => ?_)
      exact app (.expr e) hw (notc _ trivial)
    · -- bits(n, e)
      refine MT.bind (keeps_skipTok.mt _ hPC) (fun _ => ?_)
      refine MT.bind ((keeps_expectTok .LParen).mt _ hPC) (fun _ => ?_)
      refine MT.bind (keeps_peekPos.mt _ hPC) (fun at_ => ?_)
      refine MT.bind (keeps_parseNumber.mt _ hPC) (fun n => ?_)
      split
      · exact MT.fail _ _
      · refine MT.bind ((keeps_expectTok .Comma).mt _ hPC) (fun _ => ?_)
        refine MT.bind ((ewf f).expr _ hPC) (fun e => ?_)
        refine MT.assume (fun hw => ?_)
        refine MT.bind ((keeps_expectTok .RParen).mt _ hPC) (fun _ => ?_)
        exact app (.bits n.toNatClampNeg e) hw (notc _ trivial)
    · -- identifier: C, X, Z
      next s =>
      refine MT.bind (keeps_curPos.mt _ hPC) (fun i => ?_)
      refine MT.bind (keeps_getTok.mt _ hPC) (fun _ => ?_)
      split
      · -- C
        have hwf' : ∀ x ∈ data ++ [DataEntry.c], x.WF := by
          intro x hx
          simp only [List.mem_append, List.mem_cons, List.mem_nil_iff, or_false] at hx
          rcases hx with hx | rfl
          · exact hwf x hx
          · trivial
        have hnext := ih (data ++ [.c]) (idx + 1) (by rw [rowW_append, hidx]; rfl) hwf'
        cases hh : hdr[idx]? with
        | some name =>
          simp only
          refine MT.bind (mt_recordC _ hPC name i) (fun _ => ?_)
          refine MT.weaken hnext (fun st h => ⟨h.1.1, ?_⟩) (fun _ _ h => h)
          intro j hj hlt
          rw [cCols_append] at hj
          simp only [List.mem_append, List.mem_cons, List.mem_nil_iff, or_false, Nat.zero_add] at hj
          rcases hj with hj | rfl
          · exact h.1.2 j hj hlt
          · rw [← hidx]; simp only [recB, hh]; exact h.2
        | none =>
          simp only
          refine MT.weaken hnext (fun st h => ⟨h.1, ?_⟩) (fun _ _ h => h)
          intro j hj hlt
          rw [cCols_append] at hj
          simp only [List.mem_append, List.mem_cons, List.mem_nil_iff, or_false, Nat.zero_add] at hj
          rcases hj with hj | rfl
          · exact h.2 j hj hlt
          · rw [← hidx] at hlt
            have := List.getElem?_eq_none_iff.1 hh
            omega
      · split
        · exact app .x trivial (notc _ trivial)
        · split
          · exact app .z trivial (notc _ trivial)
          · exact MT.fail _ _
    · -- number
      refine MT.bind (keeps_parseNumber.mt _ hPC) (fun n => ?_)
      exact app (.num n) trivial (notc _ trivial)
    · exact MT.pure _ (fun st h => ⟨h.1, h.2, hwf, hidx⟩)
    · exact MT.pure _ (fun st h => ⟨h.1, h.2, hwf, hidx⟩)
    · refine MT.bind (keeps_curPos.mt _ hPC) (fun i => ?_)
      refine MT.bind (keeps_getTok.mt _ hPC) (fun _ => ?_)
      exact MT.fail _ _

end Dtr

namespace Dtr

theorem parseRow_wf (hdr : List String) (P : PState → Prop) (hP : Mono P) (f : Nat) :
    MT P (parseRow hdr f)
      (fun data st => P st ∧ CR hdr data st ∧ (∀ d ∈ data, d.WF) ∧ rowW data = hdr.length) := by
  simp only [parseRow]
  refine MT.bind (keeps_peekPos.mt P hP) (fun rowStart => ?_)
  refine MT.bind (MT.weaken (rowLoop_wf hdr P hP f [] 0 rfl (by simp))
    (fun st h => ⟨h, by intro j hj; simp [cCols] at hj⟩) (fun _ _ h => h)) (fun r => ?_)
  obtain ⟨data, idx⟩ := r
  simp only
  refine MT.assume (F := idx = rowW data) (P := fun st => P st ∧ CR hdr data st ∧ ∀ d ∈ data, d.WF) ?_ |>.weaken
    (fun st h => ⟨⟨h.1, h.2.1, h.2.2.1⟩, h.2.2.2⟩) (fun _ _ h => h)
  intro hidx
  have hm : Mono (fun st => P st ∧ CR hdr data st ∧ ∀ d ∈ data, d.WF) :=
    fun st st' h l => ⟨hP st st' h.1 l, mono_CR hdr data st st' h.2.1 l, h.2.2⟩
  refine MT.bind (keeps_peekPos.mt _ hm) (fun rowEnd => ?_)
  by_cases hne : (idx != hdr.length) = true
  · simp only [hne, if_true]; exact MT.fail _ _
  · simp only [hne, if_false]
    have : idx = hdr.length := by simpa using hne
    exact MT.pure _ (fun st h => ⟨h.1, h.2.1, h.2.2, by rw [← hidx, this]⟩)

theorem row_swf (hdr : List String) (data : List DataEntry) (line : Nat) (st : PState)
    (h : CR hdr data st ∧ (∀ d ∈ data, d.WF) ∧ rowW data = hdr.length) :
    Stmt.SWF hdr.length (recB hdr st.expIn) (.row data line) := by
  simp only [Stmt.SWF]
  refine ⟨h.2.1, h.2.2, fun j hj => h.1 j hj ?_⟩
  have := cCols_lt data 0 j hj
  omega

theorem mt_declareVirt (P : PState → Prop) (hP : Mono P) (name : String) (a b : Nat) (e : Expr) (he : e.WF) :
    MT P (declareVirt name a b e) (fun out st => P st ∧ out = .nothing) := by
  intro st hp out st' h
  simp only [declareVirt] at h
  split at h
  · cases h
  · next hfind =>
    simp only [PRes.ok.injEq] at h
    obtain ⟨rfl, rfl⟩ := h
    have hnew : name ∉ st.virt.map (·.1) := by
      intro hm
      simp only [List.mem_map] at hm
      obtain ⟨v, hv, hvn⟩ := hm
      have := List.find?_eq_none.1 hfind v hv
      simp [hvn] at this
    have l : st.le { st with virt := st.virt ++ [(name, (a, b), e)] } :=
      ⟨fun n hn => hn, fun v hv => by
        simp only [List.mem_append, List.mem_cons, List.mem_nil_iff, or_false] at hv
        rcases hv with hv | rfl
        · exact Or.inl hv
        · exact Or.inr he, fun hnd => by
        simp only [List.map_append, List.map_cons, List.map_nil]
        rw [List.nodup_append]
        refine ⟨hnd, by simp, ?_⟩
        intro x hx y hy
        simp only [List.mem_cons, List.mem_nil_iff, or_false] at hy
        subst hy
        intro e'; subst e'; exact hnew hx⟩
    exact ⟨l, hP _ _ hp l, rfl⟩

/-- the statements parsed so far are well-formed relative to the columns recorded so far -/
def SB (hdr : List String) (ss : List Stmt) (st : PState) : Prop := Stmts.SWF hdr.length (recB hdr st.expIn) ss

theorem mono_SB (hdr : List String) (ss : List Stmt) : Mono (SB hdr ss) :=
  fun _ _ h l => Stmts.SWF_mono _ _ _ (fun j hj => recB_mono hdr l j hj) ss h

def OutWF (hdr : List String) (out : StmtOut) (st : PState) : Prop :=
  match out with
  | .pushed s => Stmt.SWF hdr.length (recB hdr st.expIn) s
  | _ => True

structure BWF (hdr : List String) (f : Nat) : Prop where
  block : ∀ P, Mono P → ∀ endTok acc, MT (fun st => P st ∧ SB hdr acc st) (parseBlock hdr f endTok acc)
    (fun ss st => P st ∧ SB hdr ss st)
  stmt : ∀ P, Mono P → ∀ endTok, MT P (parseStmt hdr f endTok) (fun out st => P st ∧ OutWF hdr out st)

theorem bwf (hdr : List String) : ∀ f, BWF hdr f := by
  intro f
  induction f with
  | zero => exact ⟨fun _ _ _ _ => MT.fuel, fun _ _ _ => MT.fuel⟩
  | succ f ih =>
    refine ⟨?_, ?_⟩
    · -- parseBlock
      intro P hP endTok acc
      simp only [parseBlock]
      have hPS := mono_and hP (mono_SB hdr acc)
      refine MT.bind (ih.stmt _ hPS endTok) (fun out => ?_)
      have cont : ∀ (block' : List Stmt),
          MT (fun st => P st ∧ SB hdr block' st)
            (do
              if (← atTok .Eof) then
                if endTok.isSome then do
                  let i ← curPos
                  let _ ← getTok
                  failP "UnexpectedEof" [.tok i]
                else pure block'
              else if (← atTok .Eol) then do
                skipTok
                parseBlock hdr f endTok block'
              else do
                let i ← curPos
                let _ ← getTok
                failP "ExpectedNewLine" [.tok i])
            (fun ss st => P st ∧ SB hdr ss st) := by
        intro block'
        have hPB := mono_and hP (mono_SB hdr block')
        refine MT.bind ((keeps_atTok .Eof).mt _ hPB) (fun b => ?_)
        cases b with
        | true =>
          simp only [if_true]
          split
          · refine MT.bind (keeps_curPos.mt _ hPB) (fun i => ?_)
            refine MT.bind (keeps_getTok.mt _ hPB) (fun _ => ?_)
            exact MT.fail _ _
          · exact MT.pure _ (fun st h => h)
        | false =>
          simp only [Bool.false_eq_true, if_false]
          refine MT.bind ((keeps_atTok .Eol).mt _ hPB) (fun b2 => ?_)
          cases b2 with
          | true =>
            simp only [if_true]
            refine MT.bind (keeps_skipTok.mt _ hPB) (fun _ => ?_)
            exact ih.block P hP endTok block'
          | false =>
            simp only [Bool.false_eq_true, if_false]
            refine MT.bind (keeps_curPos.mt _ hPB) (fun i => ?_)
            refine MT.bind (keeps_getTok.mt _ hPB) (fun _ => ?_)
            exact MT.fail _ _
      cases out with
      | closed => exact MT.pure _ (fun st h => h.1)
      | pushed s =>
        exact MT.weaken (cont (acc ++ [s]))
          (fun st h => ⟨h.1.1, Stmts.SWF_append _ _ acc s h.1.2 h.2⟩) (fun _ _ h => h)
      | nothing => exact MT.weaken (cont acc) (fun st h => h.1) (fun _ _ h => h)
    · -- parseStmt
      intro P hP endTok
      simp only [parseStmt]
      refine MT.bind (keeps_peekTok.mt P hP) (fun tk => ?_)
      split
      · -- a data row
        refine MT.bind (parseRow_wf hdr P hP f) (fun data => ?_)
        have hm : Mono (fun st => P st ∧ CR hdr data st ∧ (∀ d ∈ data, d.WF) ∧ rowW data = hdr.length) :=
          fun st st' h l => ⟨hP st st' h.1 l, mono_CR hdr data st st' h.2.1 l, h.2.2⟩
        refine MT.bind (keeps_getLine.mt _ hm) (fun line => ?_)
        exact MT.pure _ (fun st h => ⟨h.1, row_swf hdr data line st h.2⟩)
      · split
        · -- loop
          refine MT.bind (keeps_skipTok.mt P hP) (fun _ => ?_)
          refine MT.bind ((keeps_expectTok .LParen).mt P hP) (fun _ => ?_)
          refine MT.bind (keeps_expectIdent.mt P hP) (fun vi => ?_)
          refine MT.bind ((keeps_expectTok .Comma).mt P hP) (fun _ => ?_)
          refine MT.bind ((ewf f).expr P hP) (fun max => ?_)
          refine MT.assume (fun hmax => ?_)
          refine MT.bind ((keeps_expectTok .RParen).mt P hP) (fun _ => ?_)
          refine MT.bind ((keeps_expectTok .Eol).mt P hP) (fun _ => ?_)
          refine MT.bind ((keeps_modVars _).mt P hP) (fun _ => ?_)
          refine MT.bind (MT.weaken (ih.block P hP (some .Loop) []) (fun st h => ⟨h, trivial⟩) (fun _ _ h => h)) (fun inner => ?_)
          have hPI := mono_and hP (mono_SB hdr inner)
          refine MT.bind ((keeps_modVars _).mt _ hPI) (fun _ => ?_)
          exact MT.pure _ (fun st h => ⟨h.1, by simp only [OutWF, Stmt.SWF]; exact ⟨hmax, h.2⟩⟩)
        · -- repeat
          refine MT.bind (keeps_skipTok.mt P hP) (fun _ => ?_)
          refine MT.bind ((keeps_expectTok .LParen).mt P hP) (fun _ => ?_)
          refine MT.bind ((ewf f).expr P hP) (fun max => ?_)
          refine MT.assume (fun hmax => ?_)
          refine MT.bind ((keeps_expectTok .RParen).mt P hP) (fun _ => ?_)
          refine MT.bind ((keeps_modVars _).mt P hP) (fun _ => ?_)
          refine MT.bind (parseRow_wf hdr P hP f) (fun data => ?_)
          have hm : Mono (fun st => P st ∧ CR hdr data st ∧ (∀ d ∈ data, d.WF) ∧ rowW data = hdr.length) :=
            fun st st' h l => ⟨hP st st' h.1 l, mono_CR hdr data st st' h.2.1 l, h.2.2⟩
          refine MT.bind ((keeps_modVars _).mt _ hm) (fun _ => ?_)
          refine MT.bind (keeps_getLine.mt _ hm) (fun line => ?_)
          exact MT.pure _ (fun st h => ⟨h.1, by
            simp only [OutWF, Stmt.SWF, Stmts.SWF, and_true]
            exact ⟨hmax, by simpa [Stmt.SWF] using row_swf hdr data line st h.2⟩⟩)
        · -- let
          refine MT.bind (keeps_skipTok.mt P hP) (fun _ => ?_)
          refine MT.bind (keeps_expectIdent.mt P hP) (fun ni => ?_)
          refine MT.bind ((keeps_expectTok .Equal).mt P hP) (fun _ => ?_)
          refine MT.bind ((ewf f).expr P hP) (fun e => ?_)
          refine MT.assume (fun he => ?_)
          refine MT.bind ((keeps_expectTok .Semi).mt P hP) (fun _ => ?_)
          refine MT.bind ((keeps_modVars _).mt P hP) (fun _ => ?_)
          exact MT.pure _ (fun st h => ⟨h, by simp only [OutWF, Stmt.SWF]; exact he⟩)
        · -- resetRandom
          refine MT.bind (keeps_skipTok.mt P hP) (fun _ => ?_)
          refine MT.bind ((keeps_expectTok .Semi).mt P hP) (fun _ => ?_)
          exact MT.pure _ (fun st h => ⟨h, by simp [OutWF, Stmt.SWF]⟩)
        · -- while
          refine MT.bind (keeps_skipTok.mt P hP) (fun _ => ?_)
          refine MT.bind ((keeps_expectTok .LParen).mt P hP) (fun _ => ?_)
          refine MT.bind ((ewf f).expr P hP) (fun cond => ?_)
          refine MT.assume (fun hcond => ?_)
          refine MT.bind ((keeps_expectTok .RParen).mt P hP) (fun _ => ?_)
          refine MT.bind ((keeps_expectTok .Eol).mt P hP) (fun _ => ?_)
          refine MT.bind (MT.weaken (ih.block P hP (some .While) []) (fun st h => ⟨h, trivial⟩) (fun _ _ h => h)) (fun inner => ?_)
          exact MT.pure _ (fun st h => ⟨h.1, by simp only [OutWF, Stmt.SWF]; exact ⟨hcond, h.2⟩⟩)
        · -- declare
          refine MT.bind (keeps_peekPos.mt P hP) (fun start => ?_)
          refine MT.bind (keeps_skipTok.mt P hP) (fun _ => ?_)
          refine MT.bind (keeps_expectIdent.mt P hP) (fun ni => ?_)
          refine MT.bind ((keeps_expectTok .Equal).mt P hP) (fun _ => ?_)
          refine MT.bind (keeps_getVars.mt P hP) (fun saved => ?_)
          refine MT.bind ((keeps_modVars _).mt P hP) (fun _ => ?_)
          refine MT.bind ((ewf f).expr P hP) (fun e => ?_)
          refine MT.assume (fun he => ?_)
          refine MT.bind ((keeps_modVars _).mt P hP) (fun _ => ?_)
          refine MT.bind ((keeps_expectTok .Semi).mt P hP) (fun _ => ?_)
          refine MT.bind (keeps_peekPos.mt P hP) (fun stop => ?_)
          exact MT.weaken (mt_declareVirt P hP _ start stop e he) (fun _ h => h) (fun out st h => ⟨h.1, by
            rw [h.2]; trivial⟩)
        · -- end
          split
          · refine MT.bind (keeps_skipTok.mt P hP) (fun _ => ?_)
            refine MT.bind ((keeps_expectTok _).mt P hP) (fun _ => ?_)
            exact MT.pure _ (fun st h => ⟨h, trivial⟩)
          · refine MT.bind (keeps_curPos.mt P hP) (fun i => ?_)
            refine MT.bind (keeps_getTok.mt P hP) (fun _ => ?_)
            exact MT.fail _ _
        · -- Eof
          refine MT.bind (keeps_curPos.mt P hP) (fun i => ?_)
          refine MT.bind (keeps_getTok.mt P hP) (fun _ => ?_)
          split
          · exact MT.fail _ _
          · exact MT.pure _ (fun st h => ⟨h, trivial⟩)
        · exact MT.pure _ (fun st h => ⟨h, trivial⟩)
        · split
          · refine MT.bind (keeps_curPos.mt P hP) (fun i => ?_)
            refine MT.bind (keeps_getTok.mt P hP) (fun _ => ?_)
            exact MT.fail _ _
          · refine MT.bind (keeps_curPos.mt P hP) (fun i => ?_)
            refine MT.bind (keeps_getTok.mt P hP) (fun _ => ?_)
            exact MT.fail _ _
        · refine MT.bind (keeps_curPos.mt P hP) (fun i => ?_)
          refine MT.bind (keeps_getTok.mt P hP) (fun _ => ?_)
          exact MT.fail _ _

end Dtr
