import Dtr.Model.Parser
/-! Renderings of one number in the radices the lexer knows all denote that number (C20) -/
namespace Dtr

/-- digit character for `d < 16`; `up` chooses the letter case -/
def digitChar (up : Bool) (d : Nat) : Char :=
  if d < 10 then Char.ofNat ('0'.toNat + d)
  else if up then Char.ofNat ('A'.toNat + (d - 10)) else Char.ofNat ('a'.toNat + (d - 10))

theorem digitVal_digitChar (up : Bool) : ∀ d : Fin 16, digitVal (digitChar up d.val) = d.val := by
  cases up <;> decide

/-- most significant digit first -/
def digitsOf (r : Nat) : Nat → Nat → List Nat
  | 0, _ => []
  | f+1, n => if n < r then [n] else digitsOf r f (n / r) ++ [n % r]

theorem digitsOf_lt (r : Nat) (hr : 2 ≤ r) : ∀ f n, ∀ d ∈ digitsOf r f n, d < r
  | 0, _, d, h => by simp [digitsOf] at h
  | f+1, n, d, h => by
    simp only [digitsOf] at h
    split at h
    · simp at h; omega
    · rcases List.mem_append.1 h with h | h
      · exact digitsOf_lt r hr f _ d h
      · simp at h; rw [h]; exact Nat.mod_lt _ (by omega)

theorem natOfDigits_append (r : Nat) (a : Str) (c : Char) :
    natOfDigits r (a ++ [c]) = natOfDigits r a * r + digitVal c := by
  simp [natOfDigits, List.foldl_append]

/-- the standard rendering of `n` in radix `r` (letter case `up`) -/
def render (up : Bool) (r n : Nat) : Str := (digitsOf r (n + 1) n).map (digitChar up)

theorem natOfDigits_digits (up : Bool) (r : Nat) (hr : 2 ≤ r) (hr' : r ≤ 16) :
    ∀ f n, n < f → natOfDigits r ((digitsOf r f n).map (digitChar up)) = n
  | 0, _, h => by omega
  | f+1, n, h => by
    simp only [digitsOf]
    split
    · next hn =>
      have := digitVal_digitChar up ⟨n, by omega⟩
      simp only at this
      simp [natOfDigits, this]
    · next hn =>
      have hdiv : n / r < f := by
        have : n / r < n := Nat.div_lt_self (by omega) (by omega)
        omega
      rw [List.map_append, List.map_cons, List.map_nil, natOfDigits_append,
        natOfDigits_digits up r hr hr' f (n / r) hdiv]
      have := digitVal_digitChar up ⟨n % r, by have := Nat.mod_lt n (show 0 < r by omega); omega⟩
      simp only at this
      rw [this]
      exact Nat.div_add_mod' n r

theorem natOfDigits_render (up : Bool) (r n : Nat) (hr : 2 ≤ r) (hr' : r ≤ 16) :
    natOfDigits r (render up r n) = n :=
  natOfDigits_digits up r hr hr' (n + 1) n (by omega)

/-- leading zeros do not change the value -/
theorem natOfDigits_zero (r : Nat) (s : Str) : natOfDigits r ('0' :: s) = natOfDigits r s := by
  have : digitVal '0' = 0 := by decide
  simp [natOfDigits, this]

end Dtr
