import Dtr.Proofs.Expand
/-! The recursive expansion specification equals the closed form "bit `t` of `j`"  (C05) -/
namespace Dtr
variable (tc : TestCase)

/-- assignment number `j`: walking the row from the left, the `t`-th `X` in an input column gets
bit `t` of `j` -/
def assignFrom : List REntry → Nat → Nat → List REntry
  | [], _, _ => []
  | e :: es, c, j =>
    if isInputX tc c e then .num (Int64.ofNat (j % 2)) :: assignFrom es (c + 1) (j / 2)
    else e :: assignFrom es (c + 1) j

theorem assignFrom_noX : ∀ (es : List REntry) (c j : Nat), numInputXFrom tc es c = 0 → assignFrom tc es c j = es
  | [], c, j, _ => rfl
  | e :: es, c, j, h => by
    simp only [numInputXFrom] at h
    have hx : isInputX tc c e = false := by
      by_cases hx : isInputX tc c e = true
      · simp [hx] at h
      · simpa using hx
    have h0 : numInputXFrom tc es (c + 1) = 0 := by simp [hx] at h; exact h
    simp [assignFrom, hx, assignFrom_noX es (c + 1) j h0]

/-- fixing the right-most input `X` to `b` and numbering the remaining ones with `j` is assignment
number `j + b·2^m` of the original row, `m` being the number of input `X`s in front of it -/
theorem assignFrom_split : ∀ (es : List REntry) (c i j b : Nat), lastInputXFrom tc es c = some i → b < 2 →
    j < 2 ^ (numInputXFrom tc es c - 1) →
    assignFrom tc es c (j + b * 2 ^ (numInputXFrom tc es c - 1)) =
      assignFrom tc (es.set (i - c) (.num (Int64.ofNat b))) c j
  | [], c, i, j, b, h, _, _ => by simp [lastInputXFrom] at h
  | e :: es, c, i, j, b, h, hb, hj => by
    simp only [lastInputXFrom] at h
    cases h' : lastInputXFrom tc es (c + 1) with
    | some i' =>
      rw [h'] at h; cases h
      obtain ⟨hle, _, _⟩ := lastX_some tc es (c + 1) i 0 h'
      have hpos : 0 < numInputXFrom tc es (c + 1) := by
        rcases Nat.eq_zero_or_pos (numInputXFrom tc es (c + 1)) with h0 | h0
        · rw [(lastX_none_iff tc es (c + 1)).mpr h0] at h'; cases h'
        · exact h0
      have hset : (e :: es).set (i - c) (.num (Int64.ofNat b)) = e :: es.set (i - (c + 1)) (.num (Int64.ofNat b)) := by
        have : i - c = (i - (c + 1)) + 1 := by omega
        rw [this]; rfl
      rw [hset]
      by_cases hx : isInputX tc c e = true
      · have hm : numInputXFrom tc (e :: es) c - 1 = (numInputXFrom tc es (c + 1) - 1) + 1 := by
          simp only [numInputXFrom, hx, if_true]; omega
        rw [hm] at hj ⊢
        simp only [assignFrom, hx, if_true]
        generalize hP : 2 ^ (numInputXFrom tc es (c + 1) - 1) = P at hj ⊢
        have hpow : 2 ^ (numInputXFrom tc es (c + 1) - 1 + 1) = P * 2 := by rw [Nat.pow_succ, hP]
        rw [hpow] at hj ⊢
        have hb' : b = 0 ∨ b = 1 := by omega
        have e1 : (j + b * (P * 2)) % 2 = j % 2 := by
          rcases hb' with rfl | rfl <;> omega
        have e2 : (j + b * (P * 2)) / 2 = j / 2 + b * P := by
          rcases hb' with rfl | rfl <;> omega
        rw [e1, e2]
        congr 1
        have := assignFrom_split es (c + 1) i (j / 2) b h' hb (by rw [hP]; omega)
        rw [hP] at this; exact this
      · have hx' : isInputX tc c e = false := by simpa using hx
        have hm : numInputXFrom tc (e :: es) c = numInputXFrom tc es (c + 1) := by
          simp [numInputXFrom, hx']
        rw [hm] at hj ⊢
        simp only [assignFrom, hx', Bool.false_eq_true, if_false]
        congr 1
        exact assignFrom_split es (c + 1) i j b h' hb hj
    | none =>
      rw [h'] at h
      have h0 := (lastX_none_iff tc es (c + 1)).mp h'
      by_cases hx : isInputX tc c e = true
      · simp only [hx, if_true, Option.some.injEq] at h
        subst h
        have hm : numInputXFrom tc (e :: es) c - 1 = 0 := by simp [numInputXFrom, hx, h0]
        rw [hm] at hj ⊢
        have hj0 : j = 0 := by simpa using hj
        subst hj0
        have hnv : isInputX tc c (.num (Int64.ofNat b)) = false := by simp [isInputX]
        simp only [Nat.sub_self, List.set_cons_zero, assignFrom, hx, hnv, if_true, Bool.false_eq_true, if_false,
          Nat.zero_add, Nat.pow_zero, Nat.mul_one]
        have hb2 : b % 2 = b := Nat.mod_eq_of_lt hb
        rw [hb2, assignFrom_noX tc es (c + 1) _ h0, assignFrom_noX tc es (c + 1) _ h0]
      · simp [hx] at h

theorem flatMap_congr' {α β : Type} (l : List α) (f g : α → List β) (h : ∀ a ∈ l, f a = g a) : l.flatMap f = l.flatMap g := by
  induction l with
  | nil => rfl
  | cons a l ih =>
    simp only [List.flatMap_cons]
    rw [h a (by simp), ih (fun x hx => h x (by simp [hx]))]

theorem range_two_pow_succ (k : Nat) : List.range (2 ^ (k + 1)) = List.range (2 ^ k) ++ (List.range (2 ^ k)).map (· + 2 ^ k) := by
  have : 2 ^ (k + 1) = 2 ^ k + 2 ^ k := by rw [Nat.pow_succ]; omega
  rw [this, List.range_add]
  congr 1
  apply List.map_congr_left
  intro a _; omega

/-- the input columns that hold `X`, in increasing order, columns counted from `c` -/
def inputXColsFrom (tc : TestCase) : List REntry → Nat → List Nat
  | [], _ => []
  | e :: es, c => if isInputX tc c e then c :: inputXColsFrom tc es (c + 1) else inputXColsFrom tc es (c + 1)

theorem inputXCols_none : ∀ (es : List REntry) (c : Nat), numInputXFrom tc es c = 0 → inputXColsFrom tc es c = []
  | [], c, _ => rfl
  | e :: es, c, h => by
    simp only [numInputXFrom] at h
    by_cases hx : isInputX tc c e = true
    · simp [hx] at h
    · have hx' : isInputX tc c e = false := by simpa using hx
      simp only [hx', Bool.false_eq_true, if_false, Nat.zero_add] at h
      simp only [inputXColsFrom, hx', Bool.false_eq_true, if_false]
      exact inputXCols_none es (c + 1) h

/-- taking the right-most input `X` away removes the last of the `X` columns -/
theorem inputXCols_set_last : ∀ (es : List REntry) (c i : Nat) (v : Int64), lastInputXFrom tc es c = some i →
    inputXColsFrom tc es c = inputXColsFrom tc (es.set (i - c) (.num v)) c ++ [i]
  | [], c, i, v, h => by simp [lastInputXFrom] at h
  | e :: es, c, i, v, h => by
    simp only [lastInputXFrom] at h
    cases h' : lastInputXFrom tc es (c + 1) with
    | some j =>
      rw [h'] at h; cases h
      obtain ⟨h1, _, _⟩ := lastX_some tc es (c + 1) i v h'
      have ih := inputXCols_set_last es (c + 1) i v h'
      have : i - c = (i - (c + 1)) + 1 := by omega
      rw [this]
      simp only [List.set_cons_succ, inputXColsFrom]
      split
      · rw [ih]; rfl
      · exact ih
    | none =>
      rw [h'] at h
      by_cases hx : isInputX tc c e = true
      · simp only [hx, if_true, Option.some.injEq] at h
        subst h
        have h0 := (lastX_none_iff tc es (c + 1)).mp h'
        have hnv : isInputX tc c (.num v) = false := by simp [isInputX]
        simp only [Nat.sub_self, List.set_cons_zero, inputXColsFrom, hx, hnv, if_true, Bool.false_eq_true, if_false,
          inputXCols_none tc es (c + 1) h0]
        rfl
      · simp [hx] at h

/-- **Closed form of the expansion**: a row with `k` `X`s in input columns stands for its `2^k`
assignments in numerical order, assignment `j` giving the `t`-th such column from the left bit `t`
of `j` (so the left-most varies fastest, `0` before `1`), each executed as its clock triple. -/
theorem expR_closed : ∀ (k : Nat) (r : CRow), numInputX tc r.entries = k →
    expR tc k r = (List.range (2 ^ k)).flatMap (fun j => tripleOf tc
      { r with entries := assignFrom tc r.entries 0 j, xcols := inputXColsFrom tc r.entries 0 ++ r.xcols })
  | 0, r, h => by
    simp only [expR, Nat.pow_zero, List.range_one, List.flatMap_cons, List.flatMap_nil, List.append_nil]
    rw [assignFrom_noX tc r.entries 0 0 h, inputXCols_none tc r.entries 0 h]
    rfl
  | k+1, r, h => by
    have hne : lastInputX tc r.entries ≠ none := by
      intro h0; have := (lastX_none_iff tc r.entries 0).mp h0
      unfold numInputX at h; omega
    cases hx : lastInputX tc r.entries with
    | none => exact absurd hx hne
    | some i =>
      obtain ⟨_, _, h3⟩ := lastX_some tc r.entries 0 i 0 hx
      obtain ⟨_, _, h3'⟩ := lastX_some tc r.entries 0 i 1 hx
      simp only [Nat.sub_zero] at h3 h3'
      have hk0 : numInputX tc (r.entries.set i (.num 0)) = k := by unfold numInputX at h ⊢; omega
      have hk1 : numInputX tc (r.entries.set i (.num 1)) = k := by unfold numInputX at h ⊢; omega
      simp only [expR, hx]
      rw [expR_closed k _ hk0, expR_closed k _ hk1, range_two_pow_succ, List.flatMap_append, List.flatMap_map]
      have hm : numInputXFrom tc r.entries 0 - 1 = k := by unfold numInputX at h; omega
      congr 1
      · apply flatMap_congr'
        intro j hj
        have hj' : j < 2 ^ k := List.mem_range.1 hj
        have := assignFrom_split tc r.entries 0 i j 0 hx (by omega) (by rw [hm]; exact hj')
        simp only [Nat.zero_mul, Nat.add_zero, Nat.sub_zero] at this
        have hxc := inputXCols_set_last tc r.entries 0 i 0 hx
        simp only [Nat.sub_zero] at hxc
        simp only
        rw [this, hxc, List.append_assoc]; rfl
      · apply flatMap_congr'
        intro j hj
        have hj' : j < 2 ^ k := List.mem_range.1 hj
        have := assignFrom_split tc r.entries 0 i j 1 hx (by omega) (by rw [hm]; exact hj')
        simp only [Nat.one_mul, Nat.sub_zero, hm] at this
        have hxc := inputXCols_set_last tc r.entries 0 i 1 hx
        simp only [Nat.sub_zero] at hxc
        simp only
        rw [this, hxc, List.append_assoc]; rfl

end Dtr
