import Dtr.Spec.BigStepResume
import Dtr.Proofs.Refine
/-! The resumable iterator refines the sequential reading *from every state* (`execIt`) -/
namespace Dtr
variable {W : Type} (D : Device W)

theorem afterPass_sound (fuel : Nat) (ls : LoopState) (rest : List Stmt) (σ2 σ' : Sys W)
    (h : afterPass D fuel ls σ2 = some σ') :
    Steps D (.mk rest (.endInner ls), σ2) (.mk rest .iterate, σ') := by
  obtain ⟨c2, w2, l2⟩ := σ2
  obtain ⟨var, n, body, cur⟩ := ls
  unfold afterPass at h
  simp only at h
  split at h
  · next hlt =>
    refine .cont1 D (it' := .mk rest (.startInner ⟨var, n, body, satSucc cur⟩)) (c' := c2.set var (satSucc cur)) (by simp [step, hlt]) ?_
    exact (sound D fuel).loop var n body (satSucc cur) rest _ _ h
  · next hlt =>
    cases h
    exact .cont0 D (by simp [step, hlt])

mutual
theorem resume_sound (fuel : Nat) : (it : It) → (σ σ' : Sys W) → execIt D fuel it σ = some σ' →
    Steps D (it, σ) (.mk [] .iterate, σ')
  | .mk rest st, σ, σ', h => by
    simp only [execIt] at h
    split at h
    · next σ1 hs =>
      have h1 := state_sound fuel st rest σ σ1 hs
      have h2 := (sound D fuel).block rest [] σ1 σ' h
      simp only [List.append_nil] at h2
      exact h1.trans D h2
    · cases h
theorem state_sound (fuel : Nat) : (st : ItState) → (rest : List Stmt) → (σ σ1 : Sys W) → execState D fuel st σ = some σ1 →
    Steps D (.mk rest st, σ) (.mk rest .iterate, σ1)
  | .iterate, rest, σ, σ1, h => by
    simp only [execState, Option.some.injEq] at h; subst h; exact .refl _
  | .startLoop ls, rest, σ, σ1, h => by
    obtain ⟨c, w, l⟩ := σ
    obtain ⟨var, n, body, cur⟩ := ls
    simp only [execState] at h
    split at h
    · next hn => cases h; exact .cont0 D (by simp [step, hn])
    · next hn =>
      refine .cont1 D (it' := .mk rest (.startInner ⟨var, n, body, cur⟩)) (c' := c.pushFrame.set var 0) (by simp [step, hn]) ?_
      exact (sound D fuel).loop var n body cur rest _ _ h
  | .startInner ls, rest, σ, σ1, h => by
    obtain ⟨var, n, body, cur⟩ := ls
    simp only [execState] at h
    exact (sound D fuel).loop var n body cur rest _ _ h
  | .inner it ls, rest, σ, σ1, h => by
    simp only [execState] at h
    split at h
    · next σ2 hi =>
      have h1 := resume_sound fuel it σ σ2 hi
      obtain ⟨c2, w2, l2⟩ := σ2
      refine (lift_inner D rest ls h1).trans D ?_
      refine .cont1 D (it' := .mk rest (.endInner ls)) (c' := c2) (by simp [step]) ?_
      exact afterPass_sound D fuel ls rest _ _ h
    · cases h
  | .endInner ls, rest, σ, σ1, h => by
    simp only [execState] at h
    exact afterPass_sound D fuel ls rest _ _ h
  | .startWhile ws, rest, σ, σ1, h => by
    obtain ⟨cond, body⟩ := ws
    simp only [execState] at h
    exact (sound D fuel).whil cond body rest _ _ h
  | .whileInner it ws, rest, σ, σ1, h => by
    simp only [execState] at h
    split at h
    · next σ2 hi =>
      have h1 := resume_sound fuel it σ σ2 hi
      obtain ⟨c2, w2, l2⟩ := σ2
      obtain ⟨cond, body⟩ := ws
      refine (lift_while D rest ⟨cond, body⟩ h1).trans D ?_
      refine .cont1 D (it' := .mk rest (.startWhile ⟨cond, body⟩)) (c' := c2) (by simp [step]) ?_
      exact (sound D fuel).whil cond body rest _ _ h
    · cases h
end

end Dtr
