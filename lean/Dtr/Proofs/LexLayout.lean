import Dtr.Proofs.LexStable
/-! Inserting a blank at a token boundary leaves the token sequence unchanged (C20) -/
namespace Dtr

theorem pick_ge (l : List (Kind × Nat)) (acc : Kind × Nat) :
    acc.2 ≤ (pick l acc).2 ∧ ∀ kn ∈ l, kn.2 ≤ (pick l acc).2 := by
  induction l generalizing acc with
  | nil => simp [pick]
  | cons a l ih =>
    simp only [pick, List.foldl_cons]
    by_cases hlt : acc.2 < a.2
    · simp only [hlt, if_true]
      have := ih a; simp only [pick] at this
      refine ⟨by omega, ?_⟩
      intro kn hkn; rcases List.mem_cons.1 hkn with rfl | hkn
      · exact this.1
      · exact this.2 kn hkn
    · simp only [hlt, if_false]
      have := ih acc; simp only [pick] at this
      refine ⟨this.1, ?_⟩
      intro kn hkn; rcases List.mem_cons.1 hkn with rfl | hkn
      · omega
      · exact this.2 kn hkn

theorem pick_mem (l : List (Kind × Nat)) (acc : Kind × Nat) : pick l acc = acc ∨ pick l acc ∈ l := by
  induction l generalizing acc with
  | nil => simp [pick]
  | cons a l ih =>
    simp only [pick, List.foldl_cons]
    by_cases hlt : acc.2 < a.2
    · simp only [hlt, if_true]
      rcases ih a with h | h <;> simp only [pick] at h
      · right; rw [h]; simp
      · right; simp [h]
    · simp only [hlt, if_false]
      rcases ih acc with h | h <;> simp only [pick] at h
      · left; exact h
      · right; simp [h]

theorem tw_le (q) (s : Str) : tw q s ≤ s.length := (List.takeWhile_sublist q).length_le

theorem scanPrefixed_le (x1 x2 q) (s : Str) : scanPrefixed x1 x2 q s ≤ s.length := by
  match s with
  | [] | [_] | [_, _] => simp [scanPrefixed]
  | c :: x :: h :: cs => simp only [scanPrefixed]; split <;> simp; have := tw_le q cs; omega

theorem isPre_length : ∀ (lit s : Str), isPre lit s = true → lit.length ≤ s.length
  | [], _, _ => by simp
  | _ :: _, [], h => by simp [isPre] at h
  | a :: as, c :: cs, h => by
    simp only [isPre, Bool.and_eq_true] at h
    have := isPre_length as cs h.2
    simp; omega

theorem scanners_le : ∀ ks ∈ scanners, ∀ s : Str, ks.2 s ≤ s.length := by
  intro ks h s
  simp only [scanners, List.mem_append, List.mem_map, List.mem_cons, List.mem_nil_iff, or_false] at h
  rcases h with ⟨kl, _, rfl⟩ | rfl | rfl | rfl | rfl | rfl
  · simp only [scanLit]; split
    · next hp => exact isPre_length _ _ hp
    · omega
  · cases s with
    | nil => simp [scanIdent]
    | cons c cs => simp only [scanIdent]; split <;> simp; have := tw_le isIdC cs; omega
  · cases s with
    | nil => simp [scanDec]
    | cons c cs => simp only [scanDec]; split <;> simp; have := tw_le isDec cs; omega
  · rw [scanHex_eq]; exact scanPrefixed_le _ _ _ s
  · rw [scanBin_eq]; exact scanPrefixed_le _ _ _ s
  · cases s with
    | nil => simp [scanOct]
    | cons c cs => simp only [scanOct]; split <;> simp; have := tw_le isOct cs; omega

theorem best0_le (s : Str) : (best0 s).2 ≤ s.length := by
  rcases pick_mem (vals s) (.Error, 0) with h | h
  · simp [best0, h]
  · simp only [vals, List.mem_map] at h
    obtain ⟨ks, hks, he⟩ := h
    have := scanners_le ks hks s
    simp only [best0, vals]; rw [← he]; exact this

theorem best0_ins (s : Str) (p : Nat) (x : Char) (l : Str) (bf : Stopper x) (h : (best0 s).2 ≤ p) (hp : 1 ≤ p) :
    best0 (insL s p (x :: l)) = best0 s := by
  have hv : vals (insL s p (x :: l)) = vals s := by
    simp only [vals]
    apply List.map_congr_left
    intro ks hks
    have hle : ks.2 s ≤ (best0 s).2 :=
      (pick_ge (vals s) (.Error, 0)).2 (ks.1, ks.2 s) (by simp only [vals, List.mem_map]; exact ⟨ks, hks, rfl⟩)
    rw [scanners_stable ks hks s p x l bf (by omega) hp]
  simp [best0, hv]

theorem drop_ins : ∀ (s : Str) (n p : Nat) (w : Str), n ≤ p → n ≤ s.length →
    (insL s p w).drop n = insL (s.drop n) (p - n) w
  | s, 0, p, w, _, _ => by simp
  | [], n+1, p, w, _, h => by simp at h
  | c :: cs, n+1, p+1, w, h, hl => by
    rw [insL_cons]; simp only [List.drop_succ_cons]
    have := drop_ins cs n p w (by omega) (by simpa using hl)
    rw [this]; congr 1; omega

theorem take_ins : ∀ (s : Str) (n p : Nat) (w : Str), n ≤ p → n ≤ s.length → (insL s p w).take n = s.take n
  | s, 0, p, w, _, _ => by simp
  | [], n+1, p, w, _, hl => by simp at hl
  | c :: cs, n+1, 0, w, h, _ => by omega
  | c :: cs, n+1, p+1, w, h, hl => by
    rw [insL_cons]; simp only [List.take_succ_cons]
    rw [take_ins cs n p w (by omega) (by simpa using hl)]

/-- the automaton quirk is not triggered at the head of `s` -/
def NoQuirkHead (s : Str) : Prop := (best s).1 = (best0 s).1

theorem quirk_ins (s : Str) (k : Kind) (n p : Nat) (x : Char) (l : Str) (bf : Stopper x) (hn : n ≤ p)
    (hl : n ≤ s.length) (hq : keywordQuirk s k n = k) : keywordQuirk (insL s p (x :: l)) k n = k := by
  have hl' : utf8Lead x ∉ ndLeadBytes := by simpa using bf.lead
  unfold keywordQuirk at hq ⊢
  split
  · next hk =>
    simp only [hk, if_true] at hq
    rw [drop_ins s n p _ hn hl]
    cases hd : s.drop n with
    | nil => simp [insL_nil, bf.idC, hl']
    | cons c cs =>
      rw [hd] at hq
      cases hpn : p - n with
      | zero => simp [insL_zero, bf.idC, hl']
      | succ m => rw [insL_cons]; exact hq
  · rfl

theorem best_ins (s : Str) (p : Nat) (x : Char) (l : Str) (bf : Stopper x) (h : (best s).2 ≤ p) (hp : 1 ≤ p)
    (hq : NoQuirkHead s) : best (insL s p (x :: l)) = best s := by
  have h0 : best0 (insL s p (x :: l)) = best0 s := best0_ins s p x l bf (by simpa [best] using h) hp
  have hq' : keywordQuirk s (best0 s).1 (best0 s).2 = (best0 s).1 := by simpa [NoQuirkHead, best] using hq
  simp only [best, h0]
  rw [quirk_ins s _ _ p x l bf (by simpa [best] using h) (best0_le s) hq']
  rw [hq']

/-- kinds and texts of all tokens (`lexBody` without the byte offsets) -/
def lexKT : Nat → Str → List (Kind × Str)
  | 0, _ => [(.Eof, [])]
  | _+1, [] => [(.Eof, [])]
  | f+1, c :: cs =>
    if isBlank c then lexKT f cs
    else if c == '#' then lexKT f (cs.drop (comLen cs))
    else ((best (c :: cs)).1, (c :: cs).take (tokLen (c :: cs))) :: lexKT f ((c :: cs).drop (tokLen (c :: cs)))

theorem lexBody_kt : ∀ (f off : Nat) (s : Str), (lexBody f off s).map (fun t => (t.kind, t.text)) = lexKT f s
  | 0, off, s => by simp [lexBody, lexKT]
  | f+1, off, [] => by simp [lexBody, lexKT]
  | f+1, off, c :: cs => by
    simp only [lexBody, lexKT]
    split
    · exact lexBody_kt f _ cs
    · split
      · exact lexBody_kt f _ _
      · simp only [List.map_cons]; rw [lexBody_kt f _ _]

/-- `p` is a position the lexer passes through between tokens, and no token on the way to it (nor the
one that starts at it... see `Clean`) needs the quirk -/
def Boundary : Nat → Str → Nat → Prop
  | _, _, 0 => True
  | 0, _, _+1 => False
  | _+1, [], _+1 => False
  | f+1, c :: cs, p+1 =>
    if isBlank c then Boundary f cs p
    else if c == '#' then comLen cs + 1 ≤ p + 1 ∧ Boundary f (cs.drop (comLen cs)) (p - comLen cs)
    else tokLen (c :: cs) ≤ p + 1 ∧ Boundary f ((c :: cs).drop (tokLen (c :: cs))) (p + 1 - tokLen (c :: cs))

instance Boundary.dec : (f : Nat) → (s : Str) → (p : Nat) → Decidable (Boundary f s p)
  | f, s, 0 => isTrue (by cases f <;> cases s <;> simp [Boundary])
  | 0, s, p+1 => isFalse (by simp [Boundary])
  | f+1, [], p+1 => isFalse (by simp [Boundary])
  | f+1, c :: cs, p+1 =>
    if hb : isBlank c = true then
      have := Boundary.dec f cs p
      decidable_of_iff (Boundary f cs p) (by simp [Boundary, hb])
    else if hh : (c == '#') = true then
      have := Boundary.dec f (cs.drop (comLen cs)) (p - comLen cs)
      decidable_of_iff (comLen cs + 1 ≤ p + 1 ∧ Boundary f (cs.drop (comLen cs)) (p - comLen cs))
        (by simp only [Boundary, hb, hh, if_true, if_false, Bool.false_eq_true])
    else
      have := Boundary.dec f ((c :: cs).drop (tokLen (c :: cs))) (p + 1 - tokLen (c :: cs))
      decidable_of_iff (tokLen (c :: cs) ≤ p + 1 ∧
          Boundary f ((c :: cs).drop (tokLen (c :: cs))) (p + 1 - tokLen (c :: cs)))
        (by simp only [Boundary, hb, hh, if_false, Bool.false_eq_true])

/-- the lexer never takes the keyword-quirk branch on `s` -/
def Clean : Nat → Str → Prop
  | 0, _ => True
  | _+1, [] => True
  | f+1, c :: cs =>
    if isBlank c then Clean f cs
    else if c == '#' then Clean f (cs.drop (comLen cs))
    else NoQuirkHead (c :: cs) ∧ Clean f ((c :: cs).drop (tokLen (c :: cs)))

theorem tokLen_le (c : Char) (cs : Str) : tokLen (c :: cs) ≤ (c :: cs).length := by
  have := best0_le (c :: cs); simp only [tokLen, best, List.length_cons] at *; omega

theorem lexKT_fuel : ∀ (f : Nat) (s : Str), s.length ≤ f → lexKT (f+1) s = lexKT f s := by
  intro f
  induction f with
  | zero => intro s h; have : s = [] := by cases s <;> simp_all
            subst this; simp [lexKT]
  | succ f ih =>
    intro s h
    cases s with
    | nil => simp [lexKT]
    | cons c cs =>
      have hpos : 1 ≤ tokLen (c :: cs) := by simp [tokLen]; omega
      have htl := tokLen_le c cs
      simp only [List.length_cons] at h htl
      rw [lexKT, lexKT]
      rw [ih cs (by omega), ih (cs.drop (comLen cs)) (by simp; omega),
          ih ((c :: cs).drop (tokLen (c :: cs))) (by simp only [List.length_drop, List.length_cons]; omega)]

theorem lexKT_fuel_add (k : Nat) : ∀ (f : Nat) (s : Str), s.length ≤ f → lexKT (f+k) s = lexKT f s := by
  induction k with
  | zero => intro f s _; rfl
  | succ k ih => intro f s h; rw [← Nat.add_assoc, lexKT_fuel (f+k) s (by omega), ih f s h]

theorem comLen_append (w rest : Str) (hw : ∀ a ∈ w, (a != '\n') = true) :
    comLen (w ++ rest) = w.length + comLen rest := by
  simp only [comLen]
  rw [List.takeWhile_append_of_pos (by simpa using hw)]
  simp

/-- newline-free text inserted exactly at the end of a run of non-newline characters joins the run -/
theorem com_ins_eq (w : Str) (hw : ∀ a ∈ w, (a != '\n') = true) : ∀ (s : Str),
    (insL s (comLen s) w).drop (comLen (insL s (comLen s) w)) = s.drop (comLen s)
  | [] => by
    rw [insL_nil]
    have : comLen w = w.length := by
      have := comLen_append w [] hw
      simpa [comLen] using this
    rw [this]; simp [comLen]
  | c :: cs => by
    by_cases hc : (c != '\n') = true
    · have h1 : comLen (c :: cs) = comLen cs + 1 := by simp [comLen, List.takeWhile, hc]
      rw [h1, insL_cons]
      have h2 : comLen (c :: insL cs (comLen cs) w) = comLen (insL cs (comLen cs) w) + 1 := by
        simp [comLen, List.takeWhile, hc]
      rw [h2]; simp only [List.drop_succ_cons]; exact com_ins_eq w hw cs
    · have hc' : (c != '\n') = false := by simpa using hc
      have h1 : comLen (c :: cs) = 0 := by simp [comLen, List.takeWhile, hc']
      rw [h1, insL_zero]
      have h2 : comLen (w ++ c :: cs) = w.length := by
        rw [comLen_append w _ hw]; simp [comLen, List.takeWhile, hc']
      rw [h2]; simp

/-- text inserted strictly after the end of the run leaves the run alone -/
theorem com_ins_gt (w : Str) : ∀ (s : Str) (p : Nat), comLen s < p → comLen s < s.length →
    comLen (insL s p w) = comLen s
  | [], p, _, h => by simp [comLen] at h
  | c :: cs, 0, h, _ => by omega
  | c :: cs, p+1, h, hl => by
    rw [insL_cons]
    by_cases hc : (c != '\n') = true
    · have h1 : comLen (c :: cs) = comLen cs + 1 := by simp [comLen, List.takeWhile, hc]
      have h2 : comLen (c :: insL cs p w) = comLen (insL cs p w) + 1 := by simp [comLen, List.takeWhile, hc]
      rw [h1, h2, com_ins_gt w cs p (by omega) (by simp at hl; omega)]
    · have hc' : (c != '\n') = false := by simpa using hc
      simp [comLen, List.takeWhile, hc']

theorem comLen_le (s : Str) : comLen s ≤ s.length := (List.takeWhile_sublist _).length_le

/-- the lexer skips `w` in front of `rest` -/
def Skips (w rest : Str) : Prop := ∀ f, rest.length ≤ f → lexKT (f + w.length) (w ++ rest) = lexKT f rest

/-- Kinds and texts are unchanged by inserting, at a boundary, a newline-free text that starts with
a character no token contains and that the lexer skips in front of what follows the boundary. -/
theorem lex_insL (x : Char) (l : Str) (bf : Stopper x) (hw : ∀ a ∈ x :: l, (a != '\n') = true) :
    ∀ (f : Nat) (s : Str) (p : Nat), Boundary f s p → Clean f s → s.length ≤ f → Skips (x :: l) (s.drop p) →
      lexKT (f + (x :: l).length) (insL s p (x :: l)) = lexKT f s := by
  intro f
  induction f with
  | zero =>
    intro s p hB _ hl hS
    have : s = [] := by cases s <;> simp_all
    subst this
    cases p with
    | zero => have := hS 0 (by simp); simpa [insL_nil] using this
    | succ p => simp [Boundary] at hB
  | succ f ih =>
    intro s p hB hC hl hS
    cases p with
    | zero => rw [insL_zero]; exact hS (f+1) (by simpa using hl)
    | succ p =>
      cases s with
      | nil => simp [Boundary] at hB
      | cons c cs =>
        rw [insL_cons]
        simp only [Boundary] at hB
        simp only [Clean] at hC
        simp only [List.drop_succ_cons] at hS
        have hfu : f + 1 + (x :: l).length = (f + (x :: l).length) + 1 := by omega
        rw [hfu]
        by_cases hc : isBlank c = true
        · simp only [hc, if_true] at hB hC
          have := ih cs p hB hC (by simpa using hl) hS
          simp only [lexKT, hc, if_true]; exact this
        · by_cases hh : (c == '#') = true
          · simp only [hc, hh, if_true, if_false, Bool.false_eq_true] at hB hC
            obtain ⟨hlen, hB'⟩ := hB
            simp only [lexKT, hc, hh, if_true, if_false, Bool.false_eq_true]
            by_cases hpe : p = comLen cs
            · subst hpe
              rw [com_ins_eq _ hw cs, lexKT_fuel_add _ f _ (by simp at hl ⊢; omega)]
            · have hgt : comLen cs < p := by omega
              have hne : cs.drop (comLen cs) ≠ [] := by
                intro he; rw [he] at hB'
                obtain ⟨k, hk⟩ : ∃ k, p - comLen cs = k + 1 := ⟨p - comLen cs - 1, by omega⟩
                rw [hk] at hB'; cases f <;> simp [Boundary] at hB'
              have hlt : comLen cs < cs.length := by
                rcases Nat.lt_or_ge (comLen cs) cs.length with h | h
                · exact h
                · exact absurd (List.drop_of_length_le h) hne
              rw [com_ins_gt _ cs p hgt hlt, drop_ins cs (comLen cs) p _ (by omega) (comLen_le cs)]
              refine ih (cs.drop (comLen cs)) (p - comLen cs) hB' hC (by simp at hl ⊢; omega) ?_
              rw [List.drop_drop]
              have : comLen cs + (p - comLen cs) = p := by omega
              rw [this]; exact hS
          · simp only [hc, hh, if_false, Bool.false_eq_true] at hB hC
            obtain ⟨hlen, hB'⟩ := hB
            obtain ⟨hq, hC'⟩ := hC
            have hbest : best (c :: insL cs p (x :: l)) = best (c :: cs) := by
              rw [← insL_cons]; exact best_ins (c :: cs) (p+1) x l bf (by simp only [tokLen] at hlen; omega) (by omega) hq
            have htl : tokLen (c :: insL cs p (x :: l)) = tokLen (c :: cs) := by simp [tokLen, hbest]
            have hd : (c :: insL cs p (x :: l)).drop (tokLen (c :: cs)) =
                insL ((c :: cs).drop (tokLen (c :: cs))) (p + 1 - tokLen (c :: cs)) (x :: l) := by
              rw [← insL_cons]; exact drop_ins _ _ _ _ hlen (tokLen_le c cs)
            have ht : (c :: insL cs p (x :: l)).take (tokLen (c :: cs)) = (c :: cs).take (tokLen (c :: cs)) := by
              rw [← insL_cons]; exact take_ins _ _ _ _ hlen (tokLen_le c cs)
            have hpos : 1 ≤ tokLen (c :: cs) := by simp [tokLen]; omega
            have := ih ((c :: cs).drop (tokLen (c :: cs))) (p + 1 - tokLen (c :: cs)) hB' hC'
              (by simp only [List.length_drop, List.length_cons] at hl ⊢; omega) (by
                rw [List.drop_drop]
                have : tokLen (c :: cs) + (p + 1 - tokLen (c :: cs)) = p + 1 := by omega
                rw [this]; simpa using hS)
            simp only [lexKT, hc, hh, if_false, Bool.false_eq_true, hbest, htl, hd, ht, this]

/-- any run of blanks is skipped in front of anything -/
theorem skips_blanks : ∀ (w : Str), (∀ b ∈ w, isBlank b = true) → ∀ rest, Skips w rest
  | [], _, rest => by intro f _; simp
  | b :: w, hw, rest => by
    intro f hf
    have hb := hw b (by simp)
    have := skips_blanks w (fun a ha => hw a (by simp [ha])) rest f hf
    simp only [List.length_cons, List.cons_append]
    rw [← Nat.add_assoc, lexKT]; simp only [hb, if_true]; exact this

/-- a comment is skipped in front of a newline or the end of the text -/
theorem skips_comment (txt rest : Str) (ht : ∀ a ∈ txt, (a != '\n') = true)
    (hr : rest = [] ∨ ∃ r, rest = '\n' :: r) : Skips ('#' :: txt) rest := by
  intro f hf
  have hc : comLen (txt ++ rest) = txt.length := by
    rw [comLen_append txt _ ht]
    rcases hr with rfl | ⟨r, rfl⟩ <;> simp [comLen, List.takeWhile]
  simp only [List.length_cons, List.cons_append]
  rw [← Nat.add_assoc, lexKT]
  have h1 : isBlank '#' = false := by decide
  simp only [h1, Bool.false_eq_true, if_false, beq_self_eq_true, if_true, hc, List.drop_left']
  exact lexKT_fuel_add _ f rest hf

end Dtr
