import Dtr.Proofs.LexLayout
/-! A text without `Error` tokens never triggers the keyword quirk of the automaton -/
namespace Dtr

theorem pick_zero (l : List (Kind × Nat)) (acc : Kind × Nat) (h : ∀ kn ∈ l, kn.2 = 0) : pick l acc = acc := by
  induction l generalizing acc with
  | nil => simp [pick]
  | cons a l ih =>
    simp only [pick, List.foldl_cons]
    have ha := h a (by simp)
    have : ¬ acc.2 < a.2 := by omega
    simp only [this, if_false]
    exact ih acc (fun kn hkn => h kn (by simp [hkn]))

theorem litChars_ascii : ∀ a ∈ litChars, a.toNat < 128 := by decide

theorem nd_lead_hi : ∀ x ∈ ndLeadBytes, 128 ≤ x := by decide

theorem hi_of_lead {c : Char} (h : ndLeadBytes.contains (utf8Lead c) = true) : 128 ≤ c.toNat := by
  have hm : utf8Lead c ∈ ndLeadBytes := by simpa using h
  have := nd_lead_hi _ hm
  unfold utf8Lead at this
  simp only at this
  split at this
  · omega
  · omega

theorem beq_false_of_toNat {a c : Char} (h : a.toNat ≠ c.toNat) : (a == c) = false := by
  simp only [beq_eq_false_iff_ne, ne_eq]
  intro e; exact h (by rw [e])

theorem scanners_zero_hi : ∀ ks ∈ scanners, ∀ (c : Char) (cs : Str), 128 ≤ c.toNat → ks.2 (c :: cs) = 0 := by
  intro ks h c cs hc
  have h0 : (c == '0') = false := beq_false_of_toNat (by simp; omega)
  simp only [scanners, List.mem_append, List.mem_map, List.mem_cons, List.mem_nil_iff, or_false] at h
  rcases h with ⟨kl, hkl, rfl⟩ | rfl | rfl | rfl | rfl | rfl
  · simp only [scanLit]
    cases hl : kl.2 with
    | nil => simp
    | cons a as =>
      have ha : a.toNat < 128 := litChars_ascii a (by
        simp only [litChars, List.mem_flatten, List.mem_map]
        exact ⟨kl.2, ⟨kl, hkl, rfl⟩, by simp [hl]⟩)
      have : (a == c) = false := beq_false_of_toNat (by omega)
      simp [isPre, this]
  · have : isIdStart c = false := by
      simp only [isIdStart, Bool.or_eq_false_iff, Bool.and_eq_false_iff, decide_eq_false_iff_not]
      refine ⟨⟨?_, ?_⟩, ?_⟩
      · right; simp; omega
      · right; simp; omega
      · exact beq_false_of_toNat (by simp; omega)
    simp [scanIdent, this]
  · have : isDec1 c = false := by
      simp only [isDec1, Bool.and_eq_false_iff, decide_eq_false_iff_not]
      right; simp; omega
    simp [scanDec, this]
  · cases cs with
    | nil => simp [scanHex]
    | cons x cs => cases cs with
      | nil => simp [scanHex]
      | cons h cs => simp [scanHex, h0]
  · cases cs with
    | nil => simp [scanBin]
    | cons x cs => cases cs with
      | nil => simp [scanBin]
      | cons h cs => simp [scanBin, h0]
  · simp [scanOct, h0]

theorem best_hi (c : Char) (cs : Str) (hc : 128 ≤ c.toNat) : best (c :: cs) = (.Error, 0) := by
  have h0 : best0 (c :: cs) = (.Error, 0) := by
    simp only [best0]
    apply pick_zero
    intro kn hkn
    simp only [vals, List.mem_map] at hkn
    obtain ⟨ks, hks, rfl⟩ := hkn
    exact scanners_zero_hi ks hks c cs hc
  simp [best, h0, keywordQuirk, isKeyword]

theorem best0_zero (s : Str) (h : (best0 s).2 = 0) : (best0 s).1 = .Error := by
  have hg := pick_ge (vals s) (.Error, 0)
  have : pick (vals s) (.Error, 0) = (.Error, 0) := by
    apply pick_zero
    intro kn hkn
    have := hg.2 kn hkn
    simp only [best0] at h
    omega
  simp [best0, this]

theorem clean_of_noError : ∀ (f : Nat) (s : Str), s.length ≤ f → (∀ t ∈ lexKT f s, t.1 ≠ .Error) → Clean f s := by
  intro f
  induction f with
  | zero => intro s _ _; simp [Clean]
  | succ f ih =>
    intro s hl hne
    cases s with
    | nil => simp [Clean]
    | cons c cs =>
      have htl := tokLen_le c cs
      have hpos : 1 ≤ tokLen (c :: cs) := by simp [tokLen]; omega
      simp only [List.length_cons] at hl htl
      simp only [Clean]
      simp only [lexKT] at hne
      split
      · next hb => simp only [hb, if_true] at hne; exact ih cs (by omega) hne
      · next hb =>
        split
        · next hh =>
          simp only [hb, hh, if_true, if_false] at hne
          exact ih _ (by simp; omega) hne
        · next hh =>
          simp only [hb, hh, if_false] at hne
          have hrest : Clean f ((c :: cs).drop (tokLen (c :: cs))) :=
            ih _ (by simp only [List.length_drop, List.length_cons]; omega) (fun t ht => hne t (by simp [ht]))
          refine ⟨?_, hrest⟩
          -- suppose the quirk fired: the next character is an `Error` token
          unfold NoQuirkHead
          simp only [best, keywordQuirk]
          split
          · next hk =>
            cases hd : (c :: cs).drop (best0 (c :: cs)).2 with
            | nil => rfl
            | cons c' rest =>
              simp only
              split
              · next hq =>
                exfalso
                simp only [Bool.and_eq_true, Bool.not_eq_true'] at hq
                have hhi := hi_of_lead hq.2
                have hn1 : 1 ≤ (best0 (c :: cs)).2 := by
                  rcases Nat.eq_zero_or_pos (best0 (c :: cs)).2 with h0 | h0
                  · have := best0_zero _ h0; rw [this] at hk; simp [isKeyword] at hk
                  · exact h0
                have htk : tokLen (c :: cs) = (best0 (c :: cs)).2 := by simp only [tokLen, best]; omega
                have hnb : isBlank c' = false := by
                  cases hbl : isBlank c' with
                  | false => rfl
                  | true =>
                    rcases blank_cases hbl with rfl | rfl | rfl | rfl <;> simp at hhi
                have hnh : (c' == '#') = false := beq_false_of_toNat (by simp; omega)
                have hf : 1 ≤ f := by
                  have : ((c :: cs).drop (best0 (c :: cs)).2).length = (c' :: rest).length := by rw [hd]
                  simp only [List.length_drop, List.length_cons] at this
                  omega
                obtain ⟨f', rfl⟩ : ∃ f', f = f' + 1 := ⟨f - 1, by omega⟩
                have hmem : (Kind.Error, (c' :: rest).take (tokLen (c' :: rest))) ∈
                    lexKT (f' + 1) ((c :: cs).drop (tokLen (c :: cs))) := by
                  rw [htk, hd]
                  simp only [lexKT, hnb, hnh, Bool.false_eq_true, if_false, best_hi c' rest hhi]
                  simp
                exact hne _ (by simp only [Bool.false_eq_true, if_false]; exact List.mem_cons_of_mem _ hmem) rfl
              · rfl
          · rfl

end Dtr
