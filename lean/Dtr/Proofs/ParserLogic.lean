import Dtr.Model.Parser
/-!
# A small Hoare logic for the parser monad, and the specifications of its primitives

`Triple P m Q`: from a state satisfying `P`, `m` does not panic, and if it succeeds the result and
the new state satisfy `Q` (errors and running out of fuel are allowed outcomes).
-/
namespace Dtr

def PRes.Sat {α : Type} (r : PRes α) (Q : α → PState → Prop) : Prop :=
  match r with
  | .ok a st => Q a st
  | .err _ _ => True
  | .panic _ => False
  | .fuel => True

def Triple {α : Type} (P : PState → Prop) (m : PM α) (Q : α → PState → Prop) : Prop :=
  ∀ st, P st → (m st).Sat Q

theorem Triple.bind {α β : Type} {P : PState → Prop} {Q : α → PState → Prop} {R : β → PState → Prop}
    {m : PM α} {f : α → PM β} (hm : Triple P m Q) (hf : ∀ a, Triple (Q a) (f a) R) :
    Triple P (m >>= f) R := by
  intro st hp
  have := hm st hp
  show (PM.bind m f st).Sat R
  unfold PM.bind
  cases h : m st with
  | ok a st' => rw [h] at this; exact hf a st' this
  | err t l => trivial
  | panic s => rw [h] at this; exact this
  | fuel => trivial

theorem Triple.pure {α : Type} {P : PState → Prop} {Q : α → PState → Prop} (a : α) (h : ∀ st, P st → Q a st) :
    Triple P (pure a : PM α) Q := fun st hp => h st hp

theorem Triple.fail {α : Type} {P : PState → Prop} {Q : α → PState → Prop} (t : String) (l : List Loc) :
    Triple P (failP t l : PM α) Q := fun _ _ => trivial

theorem Triple.fuel {α : Type} {P : PState → Prop} {Q : α → PState → Prop} : Triple P (fuelOut : PM α) Q :=
  fun _ _ => trivial

theorem Triple.weaken {α : Type} {P P' : PState → Prop} {Q Q' : α → PState → Prop} {m : PM α}
    (h : Triple P m Q) (hp : ∀ st, P' st → P st) (hq : ∀ a st, Q a st → Q' a st) : Triple P' m Q' := by
  intro st hp'
  have := h st (hp st hp')
  cases hm : m st with
  | ok a st' => rw [hm] at this; exact hq a st' this
  | err t l => trivial
  | panic s => rw [hm] at this; exact this
  | fuel => trivial

/-- a fact that does not mention the state survives any command -/
theorem Triple.frame {α : Type} {P : PState → Prop} {Q : α → PState → Prop} {m : PM α} (A : Prop)
    (h : Triple P m Q) : Triple (fun st => P st ∧ A) m (fun a st' => Q a st' ∧ A) := by
  intro st ⟨hp, ha⟩
  have := h st hp
  cases hm : m st with
  | ok a st' => rw [hm] at this; exact ⟨this, ha⟩
  | err t l => trivial
  | panic s => rw [hm] at this; exact this
  | fuel => trivial

/-- number of `Eol` tokens -/
def countEol : List ATok → Nat
  | [] => 0
  | t :: ts => (if t = .sym .Eol then 1 else 0) + countEol ts

theorem countEol_append (a b : List ATok) : countEol (a ++ b) = countEol a + countEol b := by
  induction a with
  | nil => simp [countEol]
  | cons t ts ih => simp [countEol, ih]; omega

/-- The parser state is a cursor into the fixed token list `all` (which ends in `Eof`): the remaining
tokens are `all` from `pos` on, and the line counter is the header's line plus the `Eol` tokens
consumed so far. -/
structure Cursor (all : List ATok) (l0 : Nat) (st : PState) : Prop where
  toks : st.toks = all.drop st.pos
  line : st.line = l0 + countEol (all.take st.pos)
  le : st.pos ≤ all.length

/-- A ghost predicate on cursor positions that survives the consumption of any token other than `Eol`
(e.g. "no `Eol` was consumed since position `m`"). -/
structure Stable (all : List ATok) (X : Nat → Prop) : Prop where
  step : ∀ p, X p → all[p]? ≠ some (.sym .Eol) → X (p + 1)

theorem stable_true (all : List ATok) : Stable all (fun _ => True) := ⟨fun _ _ _ => trivial⟩

/-- cursor, at least at `n`, `Eof` not yet consumed, ghost predicate `X` holds at the position -/
def J (all : List ATok) (l0 : Nat) (X : Nat → Prop) (n : Nat) (st : PState) : Prop :=
  Cursor all l0 st ∧ n ≤ st.pos ∧ st.pos < all.length ∧ X st.pos

variable {all : List ATok} {l0 : Nat} {X : Nat → Prop}

theorem J.tok {n : Nat} {st : PState} (h : J all l0 X n st) : ∃ t rest, st.toks = t :: rest ∧ all[st.pos]? = some t := by
  obtain ⟨hc, _, hlt, _⟩ := h
  have : all.drop st.pos = all[st.pos] :: all.drop (st.pos + 1) := (List.drop_eq_getElem_cons hlt)
  exact ⟨all[st.pos], all.drop (st.pos + 1), by rw [hc.toks, this], by simp [hlt]⟩

theorem J.mono {n m : Nat} {st : PState} (h : J all l0 X n st) (hm : m ≤ n) : J all l0 X m st :=
  ⟨h.1, Nat.le_trans hm h.2.1, h.2.2⟩

/-- `get`: one token consumed; unless it was the final `Eof`, `Eof` is still ahead; the ghost
predicate survives unless the token was `Eol` -/
theorem spec_get (hall : all.getLast? = some (.sym .Eof)) (hX : Stable all X) (n : Nat) :
    Triple (J all l0 X n) getTok (fun t st' =>
      Cursor all l0 st' ∧ n + 1 ≤ st'.pos ∧ all[st'.pos - 1]? = some t ∧ (t ≠ .sym .Eof → st'.pos < all.length) ∧
      (t ≠ .sym .Eol → X st'.pos)) := by
  intro st h
  obtain ⟨t, rest, ht, hat⟩ := h.tok
  obtain ⟨hc, hn, hlt, hx⟩ := h
  simp only [getTok, ht, PRes.Sat]
  have hdrop : all.drop (st.pos + 1) = rest := by
    have : all.drop st.pos = all[st.pos] :: all.drop (st.pos + 1) := List.drop_eq_getElem_cons hlt
    rw [← hc.toks, ht] at this
    exact (List.cons.inj this).2.symm
  have hget : all[st.pos] = t := by
    have := hat; simp [hlt] at this; exact this
  refine ⟨⟨by simp [hdrop], ?_, by simp; omega⟩, by simp; omega, by simpa using hat, ?_, ?_⟩
  · simp only
    have : all.take (st.pos + 1) = all.take st.pos ++ [t] := by
      rw [List.take_add_one, List.getElem?_eq_getElem hlt, hget]; rfl
    rw [this, countEol_append, hc.line]
    simp [countEol]; split <;> omega
  · intro hne
    show st.pos + 1 < all.length
    by_cases hlast : st.pos + 1 = all.length
    · exfalso
      have : all.getLast? = some t := by
        rw [List.getLast?_eq_getElem?]
        have : all.length - 1 = st.pos := by omega
        rw [this]; exact hat
      rw [hall] at this
      exact hne (Option.some.inj this).symm
    · omega
  · intro hne
    show X (st.pos + 1)
    exact hX.step st.pos hx (by rw [hat]; intro e; exact hne (Option.some.inj e))

theorem spec_peek (n : Nat) :
    Triple (J all l0 X n) peekTok (fun t st' => J all l0 X n st' ∧ all[st'.pos]? = some t) := by
  intro st h
  obtain ⟨t, rest, ht, hat⟩ := h.tok
  simp only [peekTok, ht, PRes.Sat]
  exact ⟨h, hat⟩

theorem spec_peekPos (n : Nat) : Triple (J all l0 X n) peekPos (fun p st' => J all l0 X n st' ∧ p = st'.pos) := by
  intro st h
  obtain ⟨t, rest, ht, _⟩ := h.tok
  simp only [peekPos, ht, PRes.Sat]
  exact ⟨h, trivial⟩

theorem spec_at (n : Nat) (k : Kind) :
    Triple (J all l0 X n) (atTok k) (fun b st' => J all l0 X n st' ∧ (b = true ↔ all[st'.pos]? = some (.sym k))) := by
  unfold atTok
  refine Triple.bind (spec_peek n) (fun t => ?_)
  refine Triple.pure _ ?_
  intro st ⟨hj, hat⟩
  refine ⟨hj, ?_⟩
  rw [hat]; simp

/-- state-only operations keep the cursor -/
theorem spec_frame {α : Type} (n : Nat) (m : PM α)
    (hm : ∀ st, ∃ a st', m st = .ok a st' ∧ st'.toks = st.toks ∧ st'.pos = st.pos ∧ st'.line = st.line) :
    Triple (J all l0 X n) m (fun _ st' => J all l0 X n st') := by
  intro st h
  obtain ⟨a, st', hr, ht, hp, hl⟩ := hm st
  rw [hr]
  simp only [PRes.Sat]
  obtain ⟨hc, hn, hlt, hx⟩ := h
  exact ⟨⟨by rw [ht, hp]; exact hc.toks, by rw [hl, hp]; exact hc.line, by rw [hp]; exact hc.le⟩,
    by rw [hp]; exact hn, by rw [hp]; exact hlt, by rw [hp]; exact hx⟩

/-- reading the cursor position or the line changes nothing: any precondition survives -/
theorem spec_curPos_keep (P : PState → Prop) : Triple P curPos (fun p st' => P st' ∧ p = st'.pos) :=
  fun st h => ⟨h, rfl⟩

theorem spec_getLine_keep (P : PState → Prop) : Triple P getLine (fun l st' => P st' ∧ l = st'.line) :=
  fun st h => ⟨h, rfl⟩

theorem spec_modVars (n : Nat) (f : FMap Unit → FMap Unit) :
    Triple (J all l0 X n) (modVars f) (fun _ st' => J all l0 X n st') :=
  spec_frame n _ (fun st => ⟨(), _, rfl, rfl, rfl, rfl⟩)

theorem spec_getVars (n : Nat) : Triple (J all l0 X n) getVars (fun _ st' => J all l0 X n st') :=
  spec_frame n _ (fun st => ⟨_, _, rfl, rfl, rfl, rfl⟩)

theorem spec_recordRead (n : Nat) (name : String) (i : Nat) :
    Triple (J all l0 X n) (recordRead name i) (fun _ st' => J all l0 X n st') :=
  spec_frame n _ (fun st => by
    unfold recordRead
    split
    · exact ⟨(), _, rfl, rfl, rfl, rfl⟩
    · split
      · exact ⟨(), _, rfl, rfl, rfl, rfl⟩
      · exact ⟨(), _, rfl, rfl, rfl, rfl⟩)

theorem spec_recordC (n : Nat) (name : String) (i : Nat) :
    Triple (J all l0 X n) (recordC name i) (fun _ st' => J all l0 X n st') :=
  spec_frame n _ (fun st => by
    unfold recordC
    split
    · exact ⟨(), _, rfl, rfl, rfl, rfl⟩
    · exact ⟨(), _, rfl, rfl, rfl, rfl⟩)

/-- `get` right after a peek: the token consumed is the token peeked -/
theorem spec_get_peeked (hall : all.getLast? = some (.sym .Eof)) (hX : Stable all X) (n : Nat) (t : ATok) :
    Triple (fun st => J all l0 X n st ∧ all[st.pos]? = some t) getTok
      (fun t' st' => t' = t ∧ Cursor all l0 st' ∧ n + 1 ≤ st'.pos ∧ all[st'.pos - 1]? = some t ∧
        (t ≠ .sym .Eof → st'.pos < all.length) ∧ (t ≠ .sym .Eol → X st'.pos)) := by
  intro st ⟨h, hat⟩
  have hg := spec_get (l0 := l0) hall hX n st h
  cases hgt : getTok st with
  | ok t' st' =>
    rw [hgt] at hg
    simp only [PRes.Sat] at hg ⊢
    obtain ⟨hc, hn, hat', hne', hx'⟩ := hg
    have hpos : st'.pos = st.pos + 1 := by
      simp only [getTok] at hgt
      split at hgt
      · cases hgt
      · cases hgt; rfl
    have : t' = t := by
      rw [hpos] at hat'; simp at hat'; rw [hat] at hat'; exact (Option.some.inj hat').symm
    subst this
    exact ⟨rfl, hc, hn, hat', hne', hx'⟩
  | err tg l => trivial
  | panic s => rw [hgt] at hg; exact hg.elim
  | fuel => trivial

/-- `skip` after a peek that saw a token other than `Eof` and `Eol` -/
theorem spec_skip (hall : all.getLast? = some (.sym .Eof)) (hX : Stable all X) (n : Nat) (t : ATok)
    (hne : t ≠ .sym .Eof) (hnl : t ≠ .sym .Eol) :
    Triple (fun st => J all l0 X n st ∧ all[st.pos]? = some t) skipTok
      (fun _ st' => J all l0 X (n + 1) st' ∧ all[st'.pos - 1]? = some t) := by
  intro st hst
  have hg := spec_get_peeked (l0 := l0) hall hX n t st hst
  unfold skipTok
  cases hgt : getTok st with
  | ok t' st' =>
    rw [hgt] at hg
    simp only [PRes.Sat] at hg ⊢
    obtain ⟨_, hc, hn, hat', hne', hx'⟩ := hg
    exact ⟨⟨hc, hn, hne' hne, hx' hnl⟩, hat'⟩
  | err tg l =>
    obtain ⟨t0, rest, ht, _⟩ := hst.1.tok
    simp [getTok, ht] at hgt
  | panic s => rw [hgt] at hg; exact hg.elim
  | fuel => simp [getTok] at hgt; split at hgt <;> cases hgt

/-- `expect(kind)` for a kind other than `Eof` and `Eol`: on success that kind was consumed and `Eof` is still ahead -/
theorem spec_expect (hall : all.getLast? = some (.sym .Eof)) (hX : Stable all X) (n : Nat) (k : Kind)
    (hk : k ≠ .Eof) (hl : k ≠ .Eol) :
    Triple (J all l0 X n) (expectTok k) (fun _ st' => J all l0 X (n + 1) st' ∧ all[st'.pos - 1]? = some (.sym k)) := by
  unfold expectTok
  refine Triple.bind (spec_curPos_keep _) (fun i => ?_)
  refine Triple.bind (Triple.weaken (spec_get hall hX n) (fun st h => h.1) (fun _ _ h => h)) (fun t => ?_)
  by_cases ht : t = .sym k
  · simp only [ht, if_true]
    refine Triple.pure _ ?_
    intro st ⟨hc, hn, hat, hne, hx⟩
    exact ⟨⟨hc, hn, hne (by simp [hk]), hx (by simp [hl])⟩, hat⟩
  · simp only [ht, if_false]
    exact Triple.fail _ _

theorem spec_expectIdent (hall : all.getLast? = some (.sym .Eof)) (hX : Stable all X) (n : Nat) :
    Triple (J all l0 X n) expectIdent (fun _ st' => J all l0 X (n + 1) st') := by
  unfold expectIdent
  refine Triple.bind (spec_curPos_keep _) (fun i => ?_)
  refine Triple.bind (Triple.weaken (spec_get hall hX n) (fun st h => h.1) (fun _ _ h => h)) (fun t => ?_)
  cases t with
  | ident s =>
    refine Triple.pure _ ?_
    intro st ⟨hc, hn, _, hne, hx⟩
    exact ⟨hc, hn, hne (by simp), hx (by simp)⟩
  | sym k => exact Triple.fail _ _
  | num v => exact Triple.fail _ _

theorem spec_parseNumber (hall : all.getLast? = some (.sym .Eof)) (hX : Stable all X) (n : Nat) :
    Triple (J all l0 X n) parseNumber (fun _ st' => J all l0 X (n + 1) st') := by
  unfold parseNumber
  refine Triple.bind (spec_curPos_keep _) (fun i => ?_)
  refine Triple.bind (Triple.weaken (spec_get hall hX n) (fun st h => h.1) (fun _ _ h => h)) (fun t => ?_)
  cases t with
  | num v =>
    cases v with
    | some x =>
      refine Triple.pure _ ?_
      intro st ⟨hc, hn, _, hne, hx⟩
      exact ⟨hc, hn, hne (by simp), hx (by simp)⟩
    | none => exact Triple.fail _ _
  | sym k => exact Triple.fail _ _
  | ident s => exact Triple.fail _ _

end Dtr

namespace Dtr
variable {all : List ATok} {l0 : Nat} {X : Nat → Prop}

/-- choose a ghost value from the state the command starts in -/
theorem Triple.ghost {α : Type} {P : PState → Prop} {m : PM α} {Q : Nat → α → PState → Prop}
    (h : ∀ p, Triple (fun st => P st ∧ st.pos = p) m (Q p)) : Triple P m (fun a st' => ∃ p, Q p a st') := by
  intro st hp
  have := h st.pos st ⟨hp, rfl⟩
  cases hm : m st with
  | ok a st' => rw [hm] at this; exact ⟨st.pos, this⟩
  | err t l => trivial
  | panic s => rw [hm] at this; exact this
  | fuel => trivial

/-- "no `Eol` token was consumed since position `m`" -/
def NoEolSince (all : List ATok) (m : Nat) (p : Nat) : Prop := ∀ i, m ≤ i → i < p → all[i]? ≠ some (.sym .Eol)

theorem stable_noEol (all : List ATok) (m : Nat) : Stable all (NoEolSince all m) := by
  refine ⟨fun p hx hne i hmi hi => ?_⟩
  by_cases h : i < p
  · exact hx i hmi h
  · have : i = p := by omega
    subst this; exact hne

theorem countEol_take_noEol (all : List ATok) (m : Nat) : ∀ (p : Nat), m ≤ p → p ≤ all.length → NoEolSince all m p →
    countEol (all.take p) = countEol (all.take m) := by
  intro p
  induction p with
  | zero => intro hm _ _; have : m = 0 := by omega
            subst this; rfl
  | succ p ih =>
    intro hm hp hne
    by_cases hmp : m = p + 1
    · subst hmp; rfl
    · have hlt : p < all.length := by omega
      have ih' := ih (by omega) (by omega) (fun i h1 h2 => hne i h1 (by omega))
      have : all.take (p + 1) = all.take p ++ [all[p]] := by
        rw [List.take_add_one, List.getElem?_eq_getElem hlt]; rfl
      rw [this, countEol_append, ih']
      have hn := hne p (by omega) (by omega)
      rw [List.getElem?_eq_getElem hlt] at hn
      have : all[p] ≠ .sym .Eol := fun e => hn (by rw [e])
      simp [countEol, this]

end Dtr

namespace Dtr
variable {all : List ATok} {l0 : Nat}

/-- the invariant without a ghost predicate -/
abbrev JT (all : List ATok) (l0 n : Nat) : PState → Prop := J all l0 (fun _ => True) n

theorem spec_skip_any (hall : all.getLast? = some (.sym .Eof)) (n : Nat) (t : ATok) (hne : t ≠ .sym .Eof) :
    Triple (fun st => JT all l0 n st ∧ all[st.pos]? = some t) skipTok
      (fun _ st' => JT all l0 (n + 1) st' ∧ all[st'.pos - 1]? = some t) := by
  intro st hst
  have hg := spec_get_peeked (l0 := l0) hall (stable_true all) n t st hst
  unfold skipTok
  cases hgt : getTok st with
  | ok t' st' =>
    rw [hgt] at hg
    simp only [PRes.Sat] at hg ⊢
    obtain ⟨_, hc, hn, hat', hne', _⟩ := hg
    exact ⟨⟨hc, hn, hne' hne, trivial⟩, hat'⟩
  | err tg l =>
    obtain ⟨t0, rest, ht, _⟩ := hst.1.tok
    simp [getTok, ht] at hgt
  | panic s => rw [hgt] at hg; exact hg.elim
  | fuel => simp [getTok] at hgt; split at hgt <;> cases hgt

theorem spec_expect_any (hall : all.getLast? = some (.sym .Eof)) (n : Nat) (k : Kind) (hk : k ≠ .Eof) :
    Triple (JT all l0 n) (expectTok k) (fun _ st' => JT all l0 (n + 1) st' ∧ all[st'.pos - 1]? = some (.sym k)) := by
  unfold expectTok
  refine Triple.bind (spec_curPos_keep _) (fun i => ?_)
  refine Triple.bind (Triple.weaken (spec_get hall (stable_true all) n) (fun st h => h.1) (fun _ _ h => h)) (fun t => ?_)
  by_cases ht : t = .sym k
  · simp only [ht, if_true]
    refine Triple.pure _ ?_
    intro st ⟨hc, hn, hat, hne, _⟩
    exact ⟨⟨hc, hn, hne (by simp [hk]), trivial⟩, hat⟩
  · simp only [ht, if_false]
    exact Triple.fail _ _

end Dtr

namespace Dtr
variable {all : List ATok} {l0 : Nat}

theorem getTok_pos {st st' : PState} {t : ATok} (h : getTok st = .ok t st') : st'.pos = st.pos + 1 := by
  unfold getTok at h
  cases hs : st.toks with
  | nil => simp [hs] at h
  | cons x xs => simp only [hs] at h; cases h; rfl

theorem skipTok_pos {st st' : PState} {a : Unit} (h : skipTok st = .ok a st') : st'.pos = st.pos + 1 := by
  unfold skipTok at h
  cases hg : getTok st with
  | ok t st1 => simp only [hg] at h; cases h; exact getTok_pos hg
  | err a b => simp [hg] at h
  | panic m => simp [hg] at h
  | fuel => simp [hg] at h

theorem expectTok_pos {k : Kind} {st st' : PState} {a : Nat} (h : expectTok k st = .ok a st') :
    st'.pos = st.pos + 1 := by
  simp only [expectTok, bind, PM.bind, curPos] at h
  cases hg : getTok st with
  | ok t st1 =>
    simp only [hg] at h
    by_cases ht : t = .sym k
    · simp only [ht, if_true, pure, PM.pure] at h
      cases h; exact getTok_pos hg
    · simp [ht, failP] at h
  | err a b => simp [hg] at h
  | panic m => simp [hg] at h
  | fuel => simp [hg] at h

/-- exact-position variants: where the cursor was, where it is, and what was consumed -/
theorem spec_skip_at (hall : all.getLast? = some (.sym .Eof)) (n p : Nat) (t : ATok) (hne : t ≠ .sym .Eof) :
    Triple (fun st => (JT all l0 n st ∧ all[st.pos]? = some t) ∧ st.pos = p) skipTok
      (fun _ st' => JT all l0 (n + 1) st' ∧ st'.pos = p + 1 ∧ all[p]? = some t) := by
  intro st ⟨hst, hp⟩
  have := spec_skip_any (l0 := l0) hall n t hne st hst
  cases hs : skipTok st with
  | ok a st' =>
    rw [hs] at this
    have hpos := skipTok_pos hs
    exact ⟨this.1, by rw [hpos, hp], by rw [← hp]; exact hst.2⟩
  | err a b => trivial
  | panic m => rw [hs] at this; exact this
  | fuel => trivial

theorem spec_expect_at (hall : all.getLast? = some (.sym .Eof)) (n p : Nat) (k : Kind) (hk : k ≠ .Eof) :
    Triple (fun st => JT all l0 n st ∧ st.pos = p) (expectTok k)
      (fun _ st' => JT all l0 (n + 1) st' ∧ st'.pos = p + 1 ∧ all[p]? = some (.sym k)) := by
  intro st ⟨hst, hp⟩
  have := spec_expect_any (l0 := l0) hall n k hk st hst
  cases hs : expectTok k st with
  | ok a st' =>
    rw [hs] at this
    have hpos := expectTok_pos hs
    have h2 := this.2
    rw [hpos] at h2
    simp at h2
    exact ⟨this.1, by rw [hpos, hp], by rw [← hp]; exact h2⟩
  | err a b => trivial
  | panic m => rw [hs] at this; exact this
  | fuel => trivial

end Dtr
