import Dtr.Proofs.LexLayout
/-!
# One `Eol` token per newline character  (C19)

Every `\n` of a body text becomes exactly one `Eol` token, no other token (nor a comment, nor an
`Error` character) contains one; hence the number of `Eol` tokens in front of a token is the number
of newline characters in front of its first character.
-/
namespace Dtr

def kEol (k : Kind) : Nat := if k = .Eol then 1 else 0

def sumEol : List (Kind × Nat) → Nat
  | [] => 0
  | t :: ts => kEol t.1 + sumEol ts

theorem sumEol_append (a b : List (Kind × Nat)) : sumEol (a ++ b) = sumEol a + sumEol b := by
  induction a with
  | nil => simp [sumEol]
  | cons t ts ih => simp [sumEol, ih]; omega

/-- kinds of all tokens with the character offset at which each starts -/
def lexKP : Nat → Nat → Str → List (Kind × Nat)
  | 0, off, _ => [(.Eof, off)]
  | _+1, off, [] => [(.Eof, off)]
  | f+1, off, c :: cs =>
    if isBlank c then lexKP f (off + 1) cs
    else if c == '#' then lexKP f (off + 1 + comLen cs) (cs.drop (comLen cs))
    else ((best (c :: cs)).1, off) :: lexKP f (off + tokLen (c :: cs)) ((c :: cs).drop (tokLen (c :: cs)))

theorem lexKP_kinds : ∀ (f off : Nat) (s : Str), (lexKP f off s).map (·.1) = (lexKT f s).map (·.1)
  | 0, off, s => by simp [lexKP, lexKT]
  | f+1, off, [] => by simp [lexKP, lexKT]
  | f+1, off, c :: cs => by
    simp only [lexKP, lexKT]
    split
    · exact lexKP_kinds f _ cs
    · split
      · exact lexKP_kinds f _ _
      · simp only [List.map_cons]; rw [lexKP_kinds f _ _]

def nlCount (s : Str) : Nat := s.count '\n'

theorem isPre_take : ∀ (lit s : Str), isPre lit s = true → s.take lit.length = lit
  | [], s, _ => by simp
  | a :: as, [], h => by simp [isPre] at h
  | a :: as, c :: cs, h => by
    simp only [isPre, Bool.and_eq_true, beq_iff_eq] at h
    simp [h.1, isPre_take as cs h.2]

/-- what the fixed spellings look like with respect to the newline -/
theorem literals_nl : ∀ kl ∈ literals, (kl.1 = .Eol ∧ kl.2 = ['\n']) ∨ (kl.1 ≠ .Eol ∧ kl.2 ≠ [] ∧ ∀ ch ∈ kl.2, ch ≠ '\n') := by
  decide

theorem takeWhile_all {q : Char → Bool} : ∀ (s : Str) (c : Char), c ∈ s.takeWhile q → q c = true
  | [], c, h => by simp at h
  | x :: xs, c, h => by
    simp only [List.takeWhile] at h
    split at h
    · next hq =>
      simp only [List.mem_cons] at h
      rcases h with rfl | h
      · exact hq
      · exact takeWhile_all xs c h
    · simp at h

theorem take_tw' (q : Char → Bool) : ∀ (s : Str), s.take (tw q s) = s.takeWhile q
  | [] => rfl
  | c :: cs => by
    simp only [tw, List.takeWhile]
    split
    · simp only [List.length_cons, List.take_succ_cons]; rw [← tw, take_tw' q cs]
    · simp

/-- a scanner of the shape "guard on the first character, then a run of `q`" matches no newline -/
theorem run_no_nl (q : Char → Bool) (hq : q '\n' = false) (c : Char) (cs : Str) (hc : c ≠ '\n') :
    ∀ ch ∈ (c :: cs).take (1 + tw q cs), ch ≠ '\n' := by
  intro ch hch
  have : (c :: cs).take (1 + tw q cs) = c :: cs.takeWhile q := by
    rw [Nat.add_comm]; simp [List.take_succ_cons, take_tw']
  rw [this] at hch
  simp only [List.mem_cons] at hch
  rcases hch with rfl | hch
  · exact hc
  · intro e; subst e
    have := takeWhile_all cs '\n' hch
    rw [hq] at this; cases this

theorem prefixed_no_nl (x1 x2 : Char) (q : Char → Bool) (hq : q '\n' = false) (hx1 : x1 ≠ '\n') (hx2 : x2 ≠ '\n')
    (s : Str) : ∀ ch ∈ s.take (scanPrefixed x1 x2 q s), ch ≠ '\n' := by
  match s with
  | [] => simp [scanPrefixed]
  | [_] => simp [scanPrefixed]
  | [_, _] => simp [scanPrefixed]
  | c :: x :: h :: cs =>
    simp only [scanPrefixed]
    split
    · next hg =>
      simp only [Bool.and_eq_true, Bool.or_eq_true, beq_iff_eq] at hg
      intro ch hch
      have : (c :: x :: h :: cs).take (3 + tw q cs) = c :: x :: h :: cs.takeWhile q := by
        rw [Nat.add_comm]; simp [List.take_succ_cons, take_tw']
      rw [this] at hch
      simp only [List.mem_cons] at hch
      rcases hch with rfl | rfl | rfl | hch
      · rw [hg.1.1]; decide
      · rcases hg.1.2 with h' | h' <;> rw [h'] <;> assumption
      · intro e; rw [e, hq] at hg; cases hg.2
      · intro e; subst e
        have := takeWhile_all cs '\n' hch
        rw [hq] at this; cases this
    · simp

/-- every scanner but the one for `Eol` matches a newline-free prefix; the `Eol` scanner matches
exactly a leading newline -/
theorem scanners_nl : ∀ ks ∈ scanners, ∀ s : Str,
    (ks.1 = .Eol ∧ ks.2 s = (match s with | '\n' :: _ => 1 | _ => 0)) ∨
    (ks.1 ≠ .Eol ∧ (∀ ch ∈ s.take (ks.2 s), ch ≠ '\n') ∧ (∀ cs, ks.2 ('\n' :: cs) = 0)) := by
  intro ks h s
  simp only [scanners, List.mem_append, List.mem_map, List.mem_cons, List.mem_nil_iff, or_false] at h
  rcases h with ⟨kl, hkl, rfl⟩ | rfl | rfl | rfl | rfl | rfl
  · rcases literals_nl kl hkl with ⟨hk, hl⟩ | ⟨hk, hne, hl⟩
    · left
      refine ⟨hk, ?_⟩
      simp only [scanLit, hl]
      match s with
      | [] => simp [isPre]
      | c :: cs =>
        by_cases hc : c = '\n'
        · subst hc; simp [isPre]
        · have : ('\n' == c) = false := by simpa using fun e => hc e.symm
          simp only [isPre, this, Bool.false_and, Bool.false_eq_true, if_false]
          split
          · next heq => simp only [List.cons.injEq] at heq; exact absurd heq.1 hc
          · rfl
    · right
      refine ⟨hk, ?_, ?_⟩
      · simp only [scanLit]
        split
        · next hp => rw [isPre_take _ _ hp]; exact hl
        · simp
      · intro cs
        simp only [scanLit]
        cases hl2 : kl.2 with
        | nil => exact absurd hl2 hne
        | cons a as =>
          have : (a == '\n') = false := by simpa using hl a (by simp [hl2])
          simp [isPre, this]
  · right
    refine ⟨by decide, ?_, by intro cs; simp [scanIdent, isIdStart]⟩
    cases s with
    | nil => simp [scanIdent]
    | cons c cs =>
      simp only [scanIdent]
      split
      · next hc => exact run_no_nl isIdC (by decide) c cs (by intro e; subst e; simp [isIdStart] at hc)
      · simp
  · right
    refine ⟨by decide, ?_, by intro cs; simp [scanDec, isDec1]⟩
    cases s with
    | nil => simp [scanDec]
    | cons c cs =>
      simp only [scanDec]
      split
      · next hc => exact run_no_nl isDec (by decide) c cs (by intro e; subst e; simp [isDec1] at hc)
      · simp
  · right
    rw [scanHex_eq]
    exact ⟨by decide, prefixed_no_nl _ _ _ (by decide) (by decide) (by decide) s, by intro cs; cases cs with
      | nil => simp [scanPrefixed]
      | cons a t => cases t <;> simp [scanPrefixed]⟩
  · right
    rw [scanBin_eq]
    exact ⟨by decide, prefixed_no_nl _ _ _ (by decide) (by decide) (by decide) s, by intro cs; cases cs with
      | nil => simp [scanPrefixed]
      | cons a t => cases t <;> simp [scanPrefixed]⟩
  · right
    refine ⟨by decide, ?_, by intro cs; simp [scanOct]⟩
    cases s with
    | nil => simp [scanOct]
    | cons c cs =>
      simp only [scanOct]
      split
      · next hc =>
        have : c = '0' := by simpa using hc
        exact run_no_nl isOct (by decide) c cs (by rw [this]; decide)
      · simp

theorem eol_scanner_mem : (Kind.Eol, scanLit ['\n']) ∈ scanners := by
  simp only [scanners, List.mem_append, List.mem_map]
  left
  exact ⟨(.Eol, "\n".toList), by simp [literals], rfl⟩

theorem keywordQuirk_ne_eol (s : Str) (k : Kind) (n : Nat) (h : k ≠ .Eol) : keywordQuirk s k n ≠ .Eol := by
  unfold keywordQuirk
  split
  · split
    · split
      · decide
      · exact h
    · exact h
  · exact h

theorem best0_cases (s : Str) : best0 s = (.Error, 0) ∨ ∃ ks ∈ scanners, best0 s = (ks.1, ks.2 s) := by
  rcases pick_mem (vals s) (.Error, 0) with h | h
  · exact Or.inl h
  · right
    simp only [vals, List.mem_map] at h
    obtain ⟨ks, hks, hv⟩ := h
    exact ⟨ks, hks, by simp only [best0, vals]; exact hv.symm⟩

theorem best0_ge (s : Str) : ∀ ks ∈ scanners, ks.2 s ≤ (best0 s).2 := by
  intro ks hks
  exact (pick_ge (vals s) (.Error, 0)).2 (ks.1, ks.2 s) (by simp only [vals, List.mem_map]; exact ⟨ks, hks, rfl⟩)

theorem pick_acc_or_gt : ∀ (l : List (Kind × Nat)) (acc : Kind × Nat), pick l acc = acc ∨ acc.2 < (pick l acc).2 := by
  intro l
  induction l with
  | nil => intro acc; simp [pick]
  | cons a l ih =>
    intro acc
    simp only [pick, List.foldl_cons]
    by_cases hlt : acc.2 < a.2
    · simp only [hlt, if_true]
      rcases ih a with h | h <;> simp only [pick] at h
      · right; rw [h]; exact hlt
      · right; omega
    · simp only [hlt, if_false]; exact ih acc

/-- the token (or error character) at the head of a non-blank, non-comment position contains a
newline exactly when it is the `Eol` token, which is exactly one newline -/
theorem tok_newlines (c : Char) (cs : Str) :
    nlCount ((c :: cs).take (tokLen (c :: cs))) = kEol (best (c :: cs)).1 := by
  have hge := best0_ge (c :: cs)
  have hmem := best0_cases (c :: cs)
  by_cases hc : c = '\n'
  · subst hc
    -- the `Eol` scanner gives 1, every other scanner 0
    have hle := hge _ eol_scanner_mem
    have h1 : scanLit ['\n'] ('\n' :: cs) = 1 := by simp [scanLit, isPre]
    simp only [h1] at hle
    have hb : best0 ('\n' :: cs) = (.Eol, 1) := by
      rcases hmem with he | ⟨ks, hks, hv⟩
      · rw [he] at hle; simp at hle
      · rcases scanners_nl ks hks ('\n' :: cs) with ⟨hk, hn⟩ | ⟨_, _, hz⟩
        · simp only at hn
          rw [hv, hk, hn]
        · rw [hv, hz cs] at hle; simp at hle
    simp [tokLen, best, hb, keywordQuirk, isKeyword, kEol, nlCount]
  · -- the head is not a newline: no newline in the token, and the kind is not `Eol`
    have hkind : (best0 (c :: cs)).1 ≠ .Eol ∧ ∀ ch ∈ (c :: cs).take (best0 (c :: cs)).2, ch ≠ '\n' := by
      rcases hmem with he | ⟨ks, hks, hv⟩
      · rw [he]; exact ⟨by decide, by simp⟩
      · rcases scanners_nl ks hks (c :: cs) with ⟨hk, hn⟩ | ⟨hk, hno, _⟩
        · -- the Eol scanner matches nothing here, so it cannot be the winner
          have hz : ks.2 (c :: cs) = 0 := by
            rw [hn]
            split
            · next heq => simp only [List.cons.injEq] at heq; exact absurd heq.1 hc
            · rfl
          exfalso
          rcases pick_acc_or_gt (vals (c :: cs)) (.Error, 0) with h0 | h0
          · have : best0 (c :: cs) = (.Error, 0) := h0
            rw [this] at hv
            have := congrArg Prod.fst hv
            simp only at this
            rw [hk] at this; cases this
          · have : 0 < (best0 (c :: cs)).2 := h0
            rw [hv, hz] at this; simp at this
        · rw [hv]; exact ⟨hk, hno⟩
    have hk2 : (best (c :: cs)).1 ≠ .Eol := by
      simp only [best]; exact keywordQuirk_ne_eol _ _ _ hkind.1
    have hnone : ∀ ch ∈ (c :: cs).take (tokLen (c :: cs)), ch ≠ '\n' := by
      intro ch hch
      simp only [tokLen, best] at hch
      by_cases hz : (best0 (c :: cs)).2 = 0
      · rw [hz] at hch
        simp at hch
        rw [hch]; exact hc
      · have : max 1 (best0 (c :: cs)).2 = (best0 (c :: cs)).2 := by omega
        rw [this] at hch
        exact hkind.2 ch hch
    simp only [kEol, hk2, if_false, nlCount]
    exact List.count_eq_zero.mpr (fun hm => hnone '\n' hm rfl)

end Dtr

namespace Dtr

theorem nlCount_append (a b : Str) : nlCount (a ++ b) = nlCount a + nlCount b := by
  simp [nlCount, List.count_append]

theorem nlCount_takeWhile (s : Str) : nlCount (s.take (comLen s)) = 0 := by
  unfold comLen nlCount
  have : s.take (s.takeWhile (· != '\n')).length = s.takeWhile (· != '\n') := take_tw' (· != '\n') s
  rw [this]
  apply List.count_eq_zero.mpr
  intro hm
  have := takeWhile_all s '\n' hm
  simp at this

/-- **Eol tokens count newlines**: for every token of a body text, the number of `Eol` tokens in
front of it is the number of newline characters in front of its first character. -/
theorem lexKP_lines : ∀ (f off : Nat) (s : Str) (i : Nat) (k : Kind) (c : Nat),
    (lexKP f off s)[i]? = some (k, c) →
      off ≤ c ∧ sumEol ((lexKP f off s).take i) = nlCount (s.take (c - off))
  | 0, off, s, i, k, c, h => by
    simp only [lexKP] at h ⊢
    cases i with
    | zero => simp at h; simp [h.2, sumEol, nlCount]
    | succ i => simp at h
  | f+1, off, [], i, k, c, h => by
    simp only [lexKP] at h ⊢
    cases i with
    | zero => simp at h; simp [h.2, sumEol, nlCount]
    | succ i => simp at h
  | f+1, off, c0 :: cs, i, k, c, h => by
    simp only [lexKP] at h ⊢
    by_cases hb : isBlank c0 = true
    · simp only [hb, if_true] at h ⊢
      obtain ⟨h1, h2⟩ := lexKP_lines f (off + 1) cs i k c h
      refine ⟨by omega, ?_⟩
      have e : c - off = (c - (off + 1)) + 1 := by omega
      rw [h2, e, List.take_succ_cons]
      have hne : c0 ≠ '\n' := by intro e'; subst e'; simp [isBlank] at hb
      simp [nlCount, List.count_cons, hne]
    · by_cases hh : (c0 == '#') = true
      · simp only [hb, hh, if_true, if_false, Bool.false_eq_true] at h ⊢
        obtain ⟨h1, h2⟩ := lexKP_lines f (off + 1 + comLen cs) (cs.drop (comLen cs)) i k c h
        refine ⟨by omega, ?_⟩
        have e : c - off = (comLen cs + (c - (off + 1 + comLen cs))) + 1 := by omega
        rw [h2, e, List.take_succ_cons, List.take_add]
        have hne : c0 ≠ '\n' := by
          have : c0 = '#' := by simpa using hh
          rw [this]; decide
        have := nlCount_takeWhile cs
        simp only [nlCount, List.count_cons, List.count_append] at this ⊢
        simp [hne, this]
      · simp only [hb, hh, if_false, Bool.false_eq_true] at h ⊢
        cases i with
        | zero =>
          simp only [List.getElem?_cons_zero, Option.some.injEq, Prod.mk.injEq] at h
          refine ⟨by omega, ?_⟩
          rw [← h.2]; simp [sumEol, nlCount]
        | succ i =>
          simp only [List.getElem?_cons_succ] at h
          obtain ⟨h1, h2⟩ := lexKP_lines f (off + tokLen (c0 :: cs)) ((c0 :: cs).drop (tokLen (c0 :: cs))) i k c h
          refine ⟨by omega, ?_⟩
          have e : c - off = tokLen (c0 :: cs) + (c - (off + tokLen (c0 :: cs))) := by omega
          rw [List.take_succ_cons, e, List.take_add, nlCount_append, tok_newlines c0 cs]
          simp only [sumEol, h2]

end Dtr
