/-!
# Abstract syntax and values  (src/expr.rs, src/stmt.rs, src/value.rs, src/lib.rs)
-/
namespace Dtr

/-- `expr::BinOp` -/
inductive BinOp where
  | eq | ne | gt | lt | ge | le | or | xor | and | shl | shr | add | sub | mul | div | rem
  deriving DecidableEq, Repr, Inhabited

/-- `expr::UnaryOp` -/
inductive UnOp where
  | neg | lnot | bnot
  deriving DecidableEq, Repr, Inhabited

/-- `expr::Expr` -/
inductive Expr where
  | num (n : Int64)
  | var (s : String)
  | bin (o : BinOp) (l r : Expr)
  | un (o : UnOp) (e : Expr)
  | call (f : String) (args : List Expr)
  deriving Repr, Inhabited

mutual
def Expr.beq : Expr → Expr → Bool
  | .num a, .num b => a == b
  | .var a, .var b => a == b
  | .bin o l r, .bin o' l' r' => o == o' && Expr.beq l l' && Expr.beq r r'
  | .un o e, .un o' e' => o == o' && Expr.beq e e'
  | .call f as, .call g bs => f == g && Expr.beqList as bs
  | _, _ => false
def Expr.beqList : List Expr → List Expr → Bool
  | [], [] => true
  | a :: as, b :: bs => Expr.beq a b && Expr.beqList as bs
  | _, _ => false
end

instance : BEq Expr := ⟨Expr.beq⟩

/-- `stmt::DataEntry` as it stands in the program text -/
inductive DataEntry where
  | num (n : Int64)
  | expr (e : Expr)
  | bits (k : Nat) (e : Expr)
  | x | z | c
  deriving Repr, Inhabited

/-- `stmt::Stmt` -/
inductive Stmt where
  | letS (name : String) (e : Expr)
  | row (data : List DataEntry) (line : Nat)
  | loop (var : String) (max : Expr) (body : List Stmt)
  | while (cond : Expr) (body : List Stmt)
  | resetRandom
  deriving Repr, Inhabited

/-- a `DataEntry` after `DataEntry::eval`: only `Number`, `X`, `Z`, `C` remain -/
inductive REntry where
  | num (n : Int64) | x | z | c
  deriving DecidableEq, Repr, Inhabited

/-- `value::InputValue` -/
inductive InVal where
  | val (n : Int64) | z
  deriving DecidableEq, Repr, Inhabited

/-- `value::OutputValue` -/
inductive OutVal where
  | val (n : Int64) | z | x
  deriving DecidableEq, Repr, Inhabited

/-- `value::ExpectedValue` -/
inductive ExpVal where
  | val (n : Int64) | z | x
  deriving DecidableEq, Repr, Inhabited

/-- `SignalType` -/
inductive SigType where
  | input (d : InVal)
  | output
  | bidir (d : InVal)
  | virt (e : Expr)
  deriving Repr, Inhabited

/-- `Signal` -/
structure Signal where
  name : String
  bits : Nat
  typ : SigType
  deriving Repr, Inhabited

def SigType.beq : SigType → SigType → Bool
  | .input a, .input b => a == b
  | .output, .output => true
  | .bidir a, .bidir b => a == b
  | .virt a, .virt b => a == b
  | _, _ => false

instance : BEq SigType := ⟨SigType.beq⟩

/-- derived `PartialEq` of `Signal`: all three fields -/
def Signal.beq (a b : Signal) : Bool := a.name == b.name && a.bits == b.bits && a.typ == b.typ
instance : BEq Signal := ⟨Signal.beq⟩

def Signal.isInput (s : Signal) : Bool :=
  match s.typ with | .input _ | .bidir _ => true | _ => false
def Signal.isOutput (s : Signal) : Bool :=
  match s.typ with | .output | .bidir _ => true | _ => false
def Signal.isVirtual (s : Signal) : Bool :=
  match s.typ with | .virt _ => true | _ => false
def Signal.default? (s : Signal) : Option InVal :=
  match s.typ with | .input d | .bidir d => some d | _ => none

/-- `ExpectedValue::check` -/
def ExpVal.check (e : ExpVal) (o : OutVal) : Bool :=
  match e with
  | .val n => (match o with | .val m => n == m | _ => false)
  | .z => (match o with | .z => true | _ => false)
  | .x => true

/-- outcome of a computation of the code that may fail with an error value or panic -/
inductive Res (ε α : Type) where
  | ok (a : α)
  | err (e : ε)
  | panic (site : String)
  deriving Repr, Inhabited

end Dtr
