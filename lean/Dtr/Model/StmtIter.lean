import Dtr.Model.Eval
/-!
# The resumable statement iterator  (src/stmt.rs: `StmtIterator::next_with_context`)

The seven-state machine of the code; a boxed nested iterator is a nested value.  `step` is one turn
of the code's `loop { match &mut self.inner_state { … } }`; `nextRow` iterates it until a row is
yielded, the iterator is exhausted or an error occurs.
-/
namespace Dtr

/-- `DataEntries` -/
structure CRow where
  entries : List REntry
  line : Nat
  upd : Bool
  /-- the input columns whose `X` was expanded to give this row (`expand_x`): for the expected side they still hold the
  row's `X` (fix F23) -/
  xcols : List Nat := []
  deriving DecidableEq, Repr, Inhabited

structure LoopState where
  var : String
  max : Int64
  stmts : List Stmt
  /-- the loop's own counter: the value the variable is set to at the start of the current pass -/
  cur : Int64 := 0
  deriving Repr, Inhabited

structure WhileState where
  cond : Expr
  stmts : List Stmt
  deriving Repr, Inhabited

mutual
/-- `StmtIterator`: the remaining statements (`stmt_iter`) and the state -/
inductive It where
  | mk (rest : List Stmt) (st : ItState)
/-- `StmtIteratorState` -/
inductive ItState where
  | iterate
  | startLoop (ls : LoopState)
  | startInner (ls : LoopState)
  | inner (it : It) (ls : LoopState)
  | endInner (ls : LoopState)
  | startWhile (ws : WhileState)
  | whileInner (it : It) (ws : WhileState)
end

instance : Inhabited It := ⟨.mk [] .iterate⟩

/-- `StmtIterator::new` -/
def It.new (stmts : List Stmt) : It := .mk stmts .iterate

inductive StepRes where
  | yield (r : CRow) (it : It) (c : Ctx)
  | done (it : It) (c : Ctx)
  | cont (it : It) (c : Ctx)
  | err (e : ExprErr)
  | panic (site : String)

/-- `prev_value.saturating_add(1)` -/
def satSucc (v : Int64) : Int64 := if v = Int64.maxValue then v else v + 1

/-- one turn of the `loop` in `next_with_context` -/
def step : It → Ctx → StepRes
  | .mk rest .iterate, c =>
    match rest with
    | [] => .done (.mk [] .iterate) c
    | s :: rest' =>
      match s with
      | .letS name e =>
        match evalE e c with
        | .ok (v, c') => .cont (.mk rest' .iterate) (c'.set name v)
        | .err er => .err er
        | .panic m => .panic m
      | .row data line =>
        match evalRow data c with
        | .ok (es, c') => .yield { entries := es, line := line, upd := true } (.mk rest' .iterate) c'
        | .err er => .err er
        | .panic m => .panic m
      | .loop var max body =>
        match evalE max c with
        | .ok (v, c') => .cont (.mk rest' (.startLoop ⟨var, v, body, 0⟩)) c'
        | .err er => .err er
        | .panic m => .panic m
      | .resetRandom => .cont (.mk rest' .iterate) c.resetRandom
      | .while cond body => .cont (.mk rest' (.startWhile ⟨cond, body⟩)) c
  | .mk rest (.startLoop ls), c =>
    if ls.max ≤ 0 then .cont (.mk rest .iterate) c
    else .cont (.mk rest (.startInner ls)) (c.pushFrame.set ls.var 0)
  | .mk rest (.startInner ls), c =>
    .cont (.mk rest (.inner (.mk ls.stmts .iterate) ls)) c
  | .mk rest (.inner it ls), c =>
    match step it c with
    | .yield r it' c' => .yield r (.mk rest (.inner it' ls)) c'
    | .cont it' c' => .cont (.mk rest (.inner it' ls)) c'
    | .done _ c' => .cont (.mk rest (.endInner ls)) c'
    | .err e => .err e
    | .panic m => .panic m
  | .mk rest (.endInner ls), c =>
    -- the counter is the loop's own: what the body did to the variable of that name does not matter
    if satSucc ls.cur < ls.max then
      .cont (.mk rest (.startInner { ls with cur := satSucc ls.cur })) (c.set ls.var (satSucc ls.cur))
    else .cont (.mk rest .iterate) c.popFrame
  | .mk rest (.startWhile ws), c =>
    match evalE ws.cond c with
    | .ok (v, c') =>
      if v = 0 then .cont (.mk rest .iterate) c'
      else .cont (.mk rest (.whileInner (.mk ws.stmts .iterate) ws)) c'
    | .err er => .err er
    | .panic m => .panic m
  | .mk rest (.whileInner it ws), c =>
    match step it c with
    | .yield r it' c' => .yield r (.mk rest (.whileInner it' ws)) c'
    | .cont it' c' => .cont (.mk rest (.whileInner it' ws)) c'
    | .done _ c' => .cont (.mk rest (.startWhile ws)) c'
    | .err e => .err e
    | .panic m => .panic m

inductive NextRes where
  | row (r : CRow) (it : It) (c : Ctx)
  | none (it : It) (c : Ctx)
  | err (e : ExprErr)
  | panic (site : String)
  | fuel

/-- `next_with_context`: `step` until something is returned -/
def nextRow : Nat → It → Ctx → NextRes
  | 0, _, _ => .fuel
  | f+1, it, c =>
    match step it c with
    | .yield r it' c' => .row r it' c'
    | .done it' c' => .none it' c'
    | .cont it' c' => nextRow f it' c'
    | .err e => .err e
    | .panic m => .panic m

end Dtr
