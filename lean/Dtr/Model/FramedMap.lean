/-!
# `FramedMap` / `FramedSet`  (src/framed_map.rs)

`values` is the flat vector in push order (oldest first), `frames` the `frame_stack` with the
innermost frame's start offset at the head.
-/
namespace Dtr

structure FMap (α : Type) where
  values : List (String × α) := []
  frames : List Nat := []
  deriving Repr, Inhabited

namespace FMap
variable {α : Type}

def empty : FMap α := {}

/-- `push_frame` -/
def pushFrame (m : FMap α) : FMap α := { m with frames := m.values.length :: m.frames }

/-- `pop_frame`: `frame_stack.pop().unwrap_or(0)`, then truncate -/
def popFrame (m : FMap α) : FMap α :=
  match m.frames with
  | [] => { values := [], frames := [] }
  | n :: fs => { values := m.values.take n, frames := fs }

/-- replace the value of the first entry for `k`, if any -/
def setIn (k : String) (v : α) : List (String × α) → Option (List (String × α))
  | [] => none
  | (k', v') :: rest =>
    if k' == k then some ((k', v) :: rest)
    else match setIn k v rest with
      | some rest' => some ((k', v') :: rest')
      | none => none

/-- `set`: overwrite within the innermost frame, else push -/
def set (m : FMap α) (k : String) (v : α) : FMap α :=
  let start := m.frames.headD 0
  match setIn k v (m.values.drop start) with
  | some tail' => { m with values := m.values.take start ++ tail' }
  | none => { m with values := m.values ++ [(k, v)] }

/-- `get`: scan from the back -/
def get (m : FMap α) (k : String) : Option α :=
  (m.values.reverse.find? (fun e => e.1 == k)).map (·.2)

def contains (m : FMap α) (k : String) : Bool := (m.get k).isSome

/-- `flatten`: scanning from the back, the first occurrence of each key wins; the result is a
`HashMap` in the code, here an association list in that scan order -/
def flatten (m : FMap α) : List (String × α) :=
  m.values.reverse.foldl (fun acc e => if acc.any (fun a => a.1 == e.1) then acc else acc ++ [e]) []

end FMap
end Dtr
