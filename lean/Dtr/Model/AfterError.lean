import Dtr.Model.RowIter
/-!
# The state an error item leaves behind  (`?` in src/stmt.rs, src/expr.rs, src/data_row_iterator.rs)

`step`, `nextRow`, `getRow` and `RowIt.next` return an evaluation error *without* a state: everything
proved about them speaks about runs up to the first such item.  The code, however, is left in a
definite state when `?` returns early, and a caller may go on calling `next()`:

* the expression evaluator has performed the `random` draws that precede the failing
  sub-expression (`rngAfter`) — the variables are untouched;
* the statement iterator has already taken the failing statement from `stmt_iter`
  (`self.stmt_iter.next()` comes before `expr.eval(ctx)?`), so a failing `let`, data row or loop
  header is *skipped*; a failing `while` condition leaves the state `StartWhile`, so it is evaluated
  again; nested iterators stay where they are (`stepPost`);
* `get_row` returns before touching the row stack or `prev`;
* `extract_output_values` swaps the variable stores back also when an entry fails; the draws of the
  virtual signals evaluated before the failing one have happened (`extractRngAfter`).

This module gives those states (`RowIt.nextC` = `next` with the state of the code behind *every*
item) so that the run can be continued — in the correspondence check and in the theorems
(`Proofs/AfterError`: the run invariant holds behind every item, error items included).
Nothing here changes the functions the other theorems are about: `nextC` returns the same item,
driver state and calls as `next` (`nextC_obs`).
-/
namespace Dtr

/-- the generator after an evaluation attempt, successful or not: the draws in front of the failing
sub-expression have been made (`Expr::eval` evaluates left to right and stops at the first `?`) -/
def rngAfter (get : String → Option OutVal) : Expr → Rng → Rng
  | .num _, g => g
  | .var _, g => g
  | .un _ e, g => rngAfter get e g
  | .bin _ l r, g =>
    match evalG get l g with
    | .ok (_, g1) => rngAfter get r g1
    | _ => rngAfter get l g
  | .call name args, g =>
    match funcArity name with
    | none => g
    | some ar =>
      if ar != args.length then g
      else if name = "random" then
        match args with
        | [a] =>
          match evalG get a g with
          | .ok (max, g1) => if max ≤ 1 then g1 else (g1.draw max).2
          | _ => rngAfter get a g
        | _ => g
      else if name = "ite" then
        match args with
        | [t, a, b] =>
          match evalG get t g with
          | .ok (v, g1) => if v = 0 then rngAfter get b g1 else rngAfter get a g1
          | _ => rngAfter get t g
        | _ => g
      else g

/-- the context after an evaluation attempt -/
def Ctx.afterEval (c : Ctx) (e : Expr) : Ctx := { c with rng := rngAfter c.get e c.rng }

/-- the context after the attempt to evaluate one row entry -/
def entryAfter : DataEntry → Ctx → Ctx
  | .expr e, c => c.afterEval e
  | .bits _ e, c => c.afterEval e
  | _, c => c

/-- the context after the attempt to evaluate a row: entries are evaluated in order up to and
including the first that fails -/
def rowAfter : List DataEntry → Ctx → Ctx
  | [], c => c
  | d :: ds, c =>
    match evalEntry d c with
    | .ok (_, c1) => rowAfter ds c1
    | _ => entryAfter d c

/-- the state the code is in after a turn of `next_with_context` that returned an error
(for a turn that did not, the state is returned unchanged and is not used) -/
def stepPost : It → Ctx → It × Ctx
  | .mk rest .iterate, c =>
    match rest with
    | [] => (.mk [] .iterate, c)
    | s :: rest' =>
      match s with
      | .letS _ e => (.mk rest' .iterate, c.afterEval e)
      | .row data _ => (.mk rest' .iterate, rowAfter data c)
      | .loop _ max _ => (.mk rest' .iterate, c.afterEval max)
      | .resetRandom => (.mk rest .iterate, c)
      | .while _ _ => (.mk rest .iterate, c)
  | .mk rest (.startLoop ls), c => (.mk rest (.startLoop ls), c)
  | .mk rest (.startInner ls), c => (.mk rest (.startInner ls), c)
  | .mk rest (.inner it ls), c =>
    let (it', c') := stepPost it c
    (.mk rest (.inner it' ls), c')
  | .mk rest (.endInner ls), c => (.mk rest (.endInner ls), c)
  | .mk rest (.startWhile ws), c => (.mk rest (.startWhile ws), c.afterEval ws.cond)
  | .mk rest (.whileInner it ws), c =>
    let (it', c') := stepPost it c
    (.mk rest (.whileInner it' ws), c')

/-- the state after a `next_with_context` that returned an error: the turns before the failing one
have been made, then `stepPost` -/
def nextRowPost : Nat → It → Ctx → It × Ctx
  | 0, it, c => (it, c)
  | f+1, it, c =>
    match step it c with
    | .cont it' c' => nextRowPost f it' c'
    | .err _ => stepPost it c
    | _ => (it, c)

/-- the iterator after a `next()` whose `get_row` returned an error: only the statement iterator and
the generator have moved (the row stack was empty and stays so, `prev` is kept) -/
def RowIt.afterEvalErr (fuel : Nat) (s : RowIt) : RowIt :=
  let p := nextRowPost fuel s.it s.ctx
  { s with it := p.1, ctx := p.2 }

/-- the generator after `extract_output_values` failed at some entry: the virtual signals in front of
it have been evaluated (in the swapped context `c`), the failing one partly -/
def extractRngAfter (tc : TestCase) (outs : List OutEntry) : Ctx → List (EIdx × OIdx) → Rng
  | c, [] => c.rng
  | c, p :: ps =>
    match extractOne tc outs c p with
    | .ok (_, c1) => extractRngAfter tc outs c1 ps
    | _ =>
      match p.2 with
      | .virt e => (c.afterEval e).rng
      | _ => c.rng

/-- the context after `extract_output_values` returned an error: stores swapped back, generator advanced -/
def extractCtxAfter (tc : TestCase) (oi : List OIdx) (numOut : Nat) (outs : List OutEntry) (c : Ctx) : Ctx :=
  if outs.length != numOut then c
  else { c with rng := extractRngAfter tc outs c.swapVars (tc.expIdx.zip oi) }

/-- `<DataRowIterator as Iterator>::next` with the state the code is in behind *every* item.
Same item, same driver state, same calls as `RowIt.next`; the iterator state differs behind an
evaluation error (`next` returns the old state there) and behind an error found in an answer
(`next` does not advance the generator there). -/
def RowIt.nextC {δ} (tc : TestCase) (drv : Driver δ) (fuel : Nat) (s : RowIt) (d : δ) : NextOut δ :=
  match getRow tc fuel s with
  | .err e => .item (.err (.expr e)) (s.afterEvalErr fuel) d []
  | .panic m => .panic m []
  | .fuel => .fuel
  | .none s' => .none s' d
  | .row r s' =>
    if r.upd then
      match drv.rw d r.inputs with
      | (d', .fail e) => .item (.err (.driver e)) s' d' [⟨.readWrite, r.inputs, .fail e⟩]
      | (d', .ok outs) =>
        let call : Call := ⟨.readWrite, r.inputs, .ok outs⟩
        let c1 := s'.ctx.setOutputs (outsOf outs)
        match extractOutputs tc s'.outIdx s'.numOut outs c1 with
        | (.ok vals, c2) => .item (.row (intoDataRow r vals)) { s' with ctx := c2 } d' [call]
        | (.err e, _) => .item (.err e) { s' with ctx := extractCtxAfter tc s'.outIdx s'.numOut outs c1 } d' [call]
        | (.panic m, _) => .panic m [call]
    else
      match drv.wo d r.inputs with
      | (d', some e) => .item (.err (.driver e)) s' d' [⟨.writeOnly, r.inputs, .fail e⟩]
      | (d', none) => .item (.row (intoDataRow r [])) s' d' [⟨.writeOnly, r.inputs, .ok []⟩]

end Dtr
