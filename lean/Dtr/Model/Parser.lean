import Dtr.Model.Ast
import Dtr.Model.FramedMap
import Dtr.Model.Lexer
/-!
# Parser  (src/parser/{mod,stmt,expr,binoptree}.rs, `ParsedTestCase::parse`)

The recursive descent of the code over *abstract tokens*: the four integer kinds collapse into
`num v` (value computed with the code's radix rule; `none` when it does not fit in an `i64`),
identifiers carry their text, everything else is `sym kind`.  The parser never sees a span: locations
are token indices (`Loc`), decorated into byte spans afterwards (`decorate`).  Every `loop` of the
code is a fuel-indexed recursion; `PRes.fuel` is the "ran out of fuel" outcome.
-/
namespace Dtr

/-- abstract token -/
inductive ATok where
  | sym (k : Kind)
  | ident (s : String)
  | num (v : Option Int64)
  deriving DecidableEq, Repr, Inhabited

def digitVal (c : Char) : Nat :=
  if isDec c then c.toNat - '0'.toNat
  else if 'a'.toNat ≤ c.toNat && c.toNat ≤ 'f'.toNat then c.toNat - 'a'.toNat + 10
  else c.toNat - 'A'.toNat + 10

def natOfDigits (radix : Nat) (s : Str) : Nat := s.foldl (fun n c => n * radix + digitVal c) 0

/-- `i64::from_str_radix` on a non-empty string of valid digits: overflow is the only error -/
def parseRadix (radix : Nat) (s : Str) : Option Int64 :=
  let n := natOfDigits radix s
  if n < 2 ^ 63 then some (Int64.ofNat n) else none

def absTok (t : Tok) : ATok :=
  match t.kind with
  | .Ident => .ident (String.ofList t.text)
  | .DecInt => .num (parseRadix 10 t.text)
  | .HexInt => .num (parseRadix 16 (t.text.drop 2))
  | .OctInt => .num (parseRadix 8 t.text)
  | .BinInt => .num (parseRadix 2 (t.text.drop 2))
  | k => .sym k

/-- `BinOp::precedence` -/
def BinOp.prec : BinOp → Nat
  | .eq | .ne => 8
  | .gt | .lt | .ge | .le => 7
  | .or => 6
  | .xor => 5
  | .and => 4
  | .shl | .shr => 3
  | .add | .sub => 2
  | .mul | .div | .rem => 1

/-- `is_binary_op` followed by `From<TokenKind> for BinOp` -/
def binOpOf : ATok → Option BinOp
  | .sym .Plus => some .add
  | .sym .Minus => some .sub
  | .sym .Times => some .mul
  | .sym .Divide => some .div
  | .sym .Reminder => some .rem
  | .sym .Xor => some .xor
  | .sym .And => some .and
  | .sym .Or => some .or
  | .sym .ShiftLeft => some .shl
  | .sym .ShiftRight => some .shr
  | .sym .Equal => some .eq
  | .sym .NotEqual => some .ne
  | .sym .LessThanOrEqual => some .le
  | .sym .GreaterThanOrEqual => some .ge
  | .sym .LessThan => some .lt
  | .sym .GreaterThan => some .gt
  | _ => none

def unOpOf : ATok → Option UnOp
  | .sym .Minus => some .neg
  | .sym .LogicalNot => some .lnot
  | .sym .BinaryNot => some .bnot
  | _ => none

/-- `FUNC_TABLE`: name ↦ number of arguments -/
def funcArity (name : String) : Option Nat :=
  if name = "random" then some 1
  else if name = "ite" then some 3
  else if name = "signExt" then some 2
  else none

/-- `BinOpTree` -/
inductive BTree where
  | atom (e : Expr)
  | node (o : BinOp) (l r : BTree)
  deriving Repr, Inhabited

/-- `BinOpTree::add` -/
def BTree.add : BTree → BinOp → Expr → BTree
  | .node o' l r, o, a =>
    if o.prec < o'.prec then .node o' l (r.add o a) else .node o (.node o' l r) (.atom a)
  | .atom b, o, a => .node o (.atom b) (.atom a)

/-- `From<BinOpTree> for Expr` -/
def BTree.toExpr : BTree → Expr
  | .atom e => e
  | .node o l r => .bin o l.toExpr r.toExpr

/-- a location in the token stream, turned into a byte span by `decorate` -/
inductive Loc where
  | tok (i : Nat)          -- the span of token `i`
  | range (i j : Nat)      -- from the start of token `i` to the start of token `j`
  | inputEnd               -- `len..len`
  deriving DecidableEq, Repr, Inhabited

structure PState where
  toks : List ATok
  pos : Nat := 0
  line : Nat := 1
  /-- `expected_inputs`: header name ↦ token index of the first `C` in that column -/
  expIn : List (String × Nat) := []
  /-- `expected_outputs`: name ↦ token index of the first read -/
  reads : List (String × Nat) := []
  /-- `virtual_signals`: name, (first token, token after the `;`), expression — in declaration order -/
  virt : List (String × (Nat × Nat) × Expr) := []
  vars : FMap Unit := {}
  deriving Repr, Inhabited

inductive PRes (α : Type) where
  | ok (a : α) (st : PState)
  | err (tag : String) (locs : List Loc)
  | panic (site : String)
  | fuel
  deriving Repr, Inhabited

def PM (α : Type) := PState → PRes α

@[inline] def PM.pure {α} (a : α) : PM α := fun st => .ok a st
@[inline] def PM.bind {α β} (m : PM α) (f : α → PM β) : PM β := fun st =>
  match m st with
  | .ok a st' => f a st'
  | .err t l => .err t l
  | .panic s => .panic s
  | .fuel => .fuel

instance : Monad PM where
  pure := PM.pure
  bind := PM.bind

def failP {α} (tag : String) (locs : List Loc) : PM α := fun _ => .err tag locs
def panicP {α} (site : String) : PM α := fun _ => .panic site
def fuelOut {α} : PM α := fun _ => .fuel

/-- index of the next token -/
def curPos : PM Nat := fun st => .ok st.pos st
def getLine : PM Nat := fun st => .ok st.line st

/-- `Parser::get` -/
def getTok : PM ATok := fun st =>
  match st.toks with
  | [] => .err "UnexpectedEof" [.inputEnd]
  | t :: ts =>
    .ok t { st with toks := ts, pos := st.pos + 1,
                    line := if t = .sym .Eol then st.line + 1 else st.line }

/-- `Parser::peek` -/
def peekTok : PM ATok := fun st =>
  match st.toks with
  | [] => .panic "peek should not be called after EOF is found"
  | t :: _ => .ok t st

/-- `peek_span().start`, as a token index -/
def peekPos : PM Nat := fun st =>
  match st.toks with
  | [] => .panic "peek should not be called after EOF is found"
  | _ :: _ => .ok st.pos st

/-- `Parser::skip` -/
def skipTok : PM Unit := fun st =>
  match getTok st with
  | .ok _ st' => .ok () st'
  | _ => .panic "skip should not be called after EOF is found"

def atTok (k : Kind) : PM Bool := do
  let t ← peekTok
  pure (t == .sym k)

/-- `Parser::expect` for a fixed-spelling kind; returns the index of the consumed token -/
def expectTok (k : Kind) : PM Nat := do
  let i ← curPos
  let t ← getTok
  if t = .sym k then pure i else failP "NotExpectedToken" [.tok i]

/-- `expect(TokenKind::Ident)` followed by `text` -/
def expectIdent : PM (String × Nat) := do
  let i ← curPos
  let t ← getTok
  match t with
  | .ident s => pure (s, i)
  | _ => failP "NotExpectedToken" [.tok i]

/-- `parse_number` -/
def parseNumber : PM Int64 := do
  let i ← curPos
  let t ← getTok
  match t with
  | .num (some v) => pure v
  | .num none => failP "NumberParseError" [.tok i]
  | _ => failP "ExpectedNumber" [.tok i]

def modVars (f : FMap Unit → FMap Unit) : PM Unit := fun st => .ok () { st with vars := f st.vars }
def getVars : PM (FMap Unit) := fun st => .ok st.vars st

/-- `if !self.vars.contains(name) { self.expected_outputs.entry(name).or_insert(span) }` -/
def recordRead (name : String) (i : Nat) : PM Unit := fun st =>
  if st.vars.contains name then .ok () st
  else if st.reads.any (fun r => r.1 == name) then .ok () st
  else .ok () { st with reads := st.reads ++ [(name, i)] }

/-- `self.expected_inputs.entry(name).or_insert(span)` -/
def recordC (name : String) (i : Nat) : PM Unit := fun st =>
  if st.expIn.any (fun r => r.1 == name) then .ok () st
  else .ok () { st with expIn := st.expIn ++ [(name, i)] }

mutual
/-- `parse_expr` -/
def parseExpr : Nat → PM Expr
  | 0 => fuelOut
  | f+1 => do
    let first ← parseFactor f
    chain f (.atom first)
/-- the `while self.peek().is_binary_op()` loop of `parse_expr` -/
def chain : Nat → BTree → PM Expr
  | 0, _ => fuelOut
  | f+1, t => do
    let tk ← peekTok
    match binOpOf tk with
    | some o => do
      let _ ← getTok
      let e ← parseFactor f
      chain f (t.add o e)
    | none => pure t.toExpr
/-- `parse_factor` -/
def parseFactor : Nat → PM Expr
  | 0 => fuelOut
  | f+1 => do
    let tk ← peekTok
    match tk with
    | .num _ => do
      let n ← parseNumber
      pure (.num n)
    | .ident name => do
      let i ← curPos
      let _ ← getTok
      if (← atTok .LParen) then
        match funcArity name with
        | none => failP "FunctionNotFound" [.tok i]
        | some ar => do
          let args ← parseArgs f []
          let _ ← expectTok .RParen
          if args.length != ar then do
            let j ← peekPos
            failP "WrongNumberOfArguments" [.range i j]
          else pure (.call name args)
      else do
        recordRead name i
        pure (.var name)
    | .sym k =>
      match unOpOf (.sym k) with
      | some u => do
        skipTok
        let e ← parseFactor f
        pure (.un u e)
      | none =>
        if k = .LParen then do
          skipTok
          let e ← parseExpr f
          let _ ← expectTok .RParen
          pure e
        else do
          let i ← curPos
          let _ ← getTok
          failP "UnexpectedToken" [.tok i]
/-- the argument loop of a function call: `loop { skip; args.push(parse_expr); if !at(Comma) break }` -/
def parseArgs : Nat → List Expr → PM (List Expr)
  | 0, _ => fuelOut
  | f+1, acc => do
    skipTok
    let e ← parseExpr f
    if (← atTok .Comma) then parseArgs f (acc ++ [e]) else pure (acc ++ [e])
end

/-- the `loop` of `parse_data_row`; `idx` is `signal_index` -/
def rowLoop (hdr : List String) : Nat → List DataEntry → Nat → PM (List DataEntry × Nat)
  | 0, _, _ => fuelOut
  | f+1, data, idx => do
    let tk ← peekTok
    match tk with
    | .sym .LParen => do
      skipTok
      let e ← parseExpr f
      let _ ← expectTok .RParen
      rowLoop hdr f (data ++ [.expr e]) (idx + 1)
    | .sym .Bits => do
      skipTok
      let _ ← expectTok .LParen
      let at_ ← peekPos
      let n ← parseNumber
      if n > 64 then failP "TooManyBits" [.tok at_]
      else do
        let _ ← expectTok .Comma
        let e ← parseExpr f
        let _ ← expectTok .RParen
        rowLoop hdr f (data ++ [.bits n.toNatClampNeg e]) (idx + n.toNatClampNeg)
    | .ident s => do
      let i ← curPos
      let _ ← getTok
      if s = "c" ∨ s = "C" then do
        match hdr[idx]? with
        | some name => recordC name i
        | none => pure ()
        rowLoop hdr f (data ++ [.c]) (idx + 1)
      else if s = "x" ∨ s = "X" then rowLoop hdr f (data ++ [.x]) (idx + 1)
      else if s = "z" ∨ s = "Z" then rowLoop hdr f (data ++ [.z]) (idx + 1)
      else failP "ExpectedCXZ" [.tok i]
    | .num _ => do
      let n ← parseNumber
      rowLoop hdr f (data ++ [.num n]) (idx + 1)
    | .sym .Eol => pure (data, idx)
    | .sym .Eof => pure (data, idx)
    | _ => do
      let i ← curPos
      let _ ← getTok
      failP "UnexpectedToken" [.tok i]

/-- `parse_data_row` -/
def parseRow (hdr : List String) (f : Nat) : PM (List DataEntry) := do
  let rowStart ← peekPos
  let (data, idx) ← rowLoop hdr f [] 0
  let rowEnd ← peekPos
  if idx != hdr.length then failP "DataRowWithWrongNumberOfSignals" [.range rowStart rowEnd]
  else pure data

def startsRow : ATok → Bool
  | .sym .LParen | .sym .Bits | .ident _ | .num _ => true
  | _ => false

def unsupported : Kind → Bool
  | .Program | .Init | .Memory | .Def | .Call => true
  | _ => false

/-- what one pass through the `match self.peek()` of `parse_stmt_block` does -/
inductive StmtOut where
  | pushed (s : Stmt)      -- a statement was appended to the block
  | nothing                -- `declare`, or an empty line
  | closed                 -- `break`: the block is complete (`end <kind>`, or `Eof` at top level)

/-- `self.virtual_signals.insert(name, (span, expr))`, an error if the name was there already -/
def declareVirt (name : String) (start stop : Nat) (e : Expr) : PM StmtOut := fun st =>
  match st.virt.find? (fun v => v.1 == name) with
  | some prev => .err "DuplicateVirtualSignal" [.range prev.2.1.1 prev.2.1.2, .range start stop]
  | none => .ok .nothing { st with virt := st.virt ++ [(name, (start, stop), e)] }

mutual
/-- `parse_stmt_block`: the `loop` -/
def parseBlock (hdr : List String) : Nat → Option Kind → List Stmt → PM (List Stmt)
  | 0, _, _ => fuelOut
  | f+1, endTok, block => do
    let out ← parseStmt hdr f endTok
    match out with
    | .closed => pure block
    | other =>
      let block := match other with | .pushed s => block ++ [s] | _ => block
      if (← atTok .Eof) then
        if endTok.isSome then do
          let i ← curPos
          let _ ← getTok
          failP "UnexpectedEof" [.tok i]
        else pure block
      else if (← atTok .Eol) then do
        skipTok
        parseBlock hdr f endTok block
      else do
        let i ← curPos
        let _ ← getTok
        failP "ExpectedNewLine" [.tok i]
/-- the `match self.peek()` of `parse_stmt_block` -/
def parseStmt (hdr : List String) : Nat → Option Kind → PM StmtOut
  | 0, _ => fuelOut
  | f+1, endTok => do
    let tk ← peekTok
    if startsRow tk then do
      let data ← parseRow hdr f
      let line ← getLine
      pure (.pushed (.row data line))
    else match tk with
    | .sym .Loop => do
      skipTok
      let _ ← expectTok .LParen
      let (v, _) ← expectIdent
      let _ ← expectTok .Comma
      let max ← parseExpr f
      let _ ← expectTok .RParen
      let _ ← expectTok .Eol
      modVars (fun m => (m.pushFrame).set v ())
      let inner ← parseBlock hdr f (some .Loop) []
      modVars FMap.popFrame
      pure (.pushed (.loop v max inner))
    | .sym .Repeat => do
      skipTok
      let _ ← expectTok .LParen
      let max ← parseExpr f
      let _ ← expectTok .RParen
      modVars (fun m => (m.pushFrame).set "n" ())
      let data ← parseRow hdr f
      modVars FMap.popFrame
      let line ← getLine
      pure (.pushed (.loop "n" max [.row data line]))
    | .sym .Let => do
      skipTok
      let (name, _) ← expectIdent
      let _ ← expectTok .Equal
      let e ← parseExpr f
      let _ ← expectTok .Semi
      modVars (fun m => m.set name ())
      pure (.pushed (.letS name e))
    | .sym .ResetRandom => do
      skipTok
      let _ ← expectTok .Semi
      pure (.pushed .resetRandom)
    | .sym .While => do
      skipTok
      let _ ← expectTok .LParen
      let cond ← parseExpr f
      let _ ← expectTok .RParen
      let _ ← expectTok .Eol
      let inner ← parseBlock hdr f (some .While) []
      pure (.pushed (.while cond inner))
    | .sym .Declare => do
      let start ← peekPos
      skipTok
      let (name, _) ← expectIdent
      let _ ← expectTok .Equal
      let saved ← getVars
      modVars (fun _ => FMap.empty)
      let e ← parseExpr f
      modVars (fun _ => saved)
      let _ ← expectTok .Semi
      let stop ← peekPos
      declareVirt name start stop e
    | .sym .End =>
      match endTok with
      | some k => do
        skipTok
        let _ ← expectTok k
        pure .closed
      | none => do
        let i ← curPos
        let _ ← getTok
        failP "UnexpectedEndAtTopLevel" [.tok i]
    | .sym .Eof => do
      let i ← curPos
      let _ ← getTok
      if endTok.isSome then failP "UnexpectedEof" [.tok i] else pure .closed
    | .sym .Eol => pure .nothing
    | .sym k =>
      if unsupported k then do
        let i ← curPos
        let _ ← getTok
        failP "UnsupportedStatement" [.tok i]
      else do
        let i ← curPos
        let _ ← getTok
        failP "UnknownToken" [.tok i]
    | _ => do
      let i ← curPos
      let _ ← getTok
      failP "UnknownToken" [.tok i]
end

/-- `ParsedTestCase` (spans as byte offsets) -/
structure Parsed where
  stmts : List Stmt
  signals : List String
  sigSpans : List (Nat × Nat)
  expIn : List (String × (Nat × Nat))
  reads : List (String × (Nat × Nat))
  virt : List (String × (Nat × Nat) × Expr)
  deriving Repr, Inhabited

inductive ParseOut where
  | ok (p : Parsed)
  | err (tag : String) (spans : List (Nat × Nat))
  | panic (site : String)
  | fuel
  deriving Repr, Inhabited

def tokSpan (toks : List Tok) (i : Nat) : Nat × Nat :=
  match toks[i]? with
  | some t => (t.s, t.e)
  | none => (0, 0)

/-- token-index locations to byte spans -/
def decorate (toks : List Tok) (len : Nat) : Loc → Nat × Nat
  | .tok i => tokSpan toks i
  | .range i j => ((tokSpan toks i).1, (tokSpan toks j).1)
  | .inputEnd => (len, len)

/-- fuel that is always enough for a token list of this length -/
def parseFuel (n : Nat) : Nat := 4 * n + 16

/-- run the body parser over abstract tokens; `line` is the header parser's line counter -/
def parseBody (hdr : List String) (line : Nat) (atoks : List ATok) : PRes (List Stmt) :=
  parseBlock hdr (parseFuel atoks.length) none [] { toks := atoks, line := line }

/-- `ParsedTestCase::parse` -/
def parseTest (s : Str) : ParseOut :=
  match parseHeaderAll s with
  | .err spans => .err "Header" spans
  | .ok names line off rest =>
    let toks := lexBodyAll off rest
    let len := utf8Len s
    let hdr := names.map (·.1)
    match parseBody hdr line (toks.map absTok) with
    | .ok stmts st =>
      .ok { stmts := stmts, signals := hdr, sigSpans := names.map (·.2),
            expIn := st.expIn.map (fun (n, i) => (n, tokSpan toks i)),
            reads := st.reads.map (fun (n, i) => (n, tokSpan toks i)),
            virt := st.virt.map (fun (n, (i, j), e) => (n, ((tokSpan toks i).1, (tokSpan toks j).1), e)) }
    | .err tag locs => .err tag (locs.map (decorate toks len))
    | .panic s => .panic s
    | .fuel => .fuel

end Dtr
