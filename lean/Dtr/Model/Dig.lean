import Dtr.Model.Bind
/-!
# Loading a `.dig` document  (src/dig.rs, `dig::File::load_test*` of src/lib.rs)

Everything after XML parsing, over the DOM that roxmltree built (which the hook dumps and the driver
reads back): the text → DOM step is trusted.
-/
namespace Dtr

/-- the DOM: elements, text nodes, anything else (comments, processing instructions) -/
inductive Xml where
  | elem (tag : String) (attrs : List (String × String)) (children : List Xml)
  | text (s : String)
  | other
  deriving Repr, Inhabited

namespace Xml

def tag : Xml → String
  | .elem t _ _ => t
  | _ => ""

def children : Xml → List Xml
  | .elem _ _ cs => cs
  | _ => []

def isElem : Xml → Bool
  | .elem .. => true
  | _ => false

/-- `Node::descendants`: the node itself, then its descendants in document order -/
def descendants : Xml → List Xml
  | .elem t a cs => .elem t a cs :: descList cs
  | n => [n]
where descList : List Xml → List Xml
  | [] => []
  | c :: cs => descendants c ++ descList cs

/-- the text children of an element, in document order -/
def textsOf : List Xml → List String
  | [] => []
  | .text s :: cs => s :: textsOf cs
  | _ :: cs => textsOf cs

/-- `char_data`: the character data of an element — all of its text, also behind a comment or a processing
instruction (which `Node::text` would stop at; fix F18); `none` if it has no text at all — an empty text node (an
empty CDATA section) is no text either (fix F20) -/
def text? : Xml → Option String
  | .elem _ _ cs =>
    let d := (textsOf cs).foldl (· ++ ·) ""
    if d.toList.isEmpty then none else some d
  | .text s => some s
  | .other => none

def firstElemChild (n : Xml) : Option Xml := n.children.find? isElem
def lastElemChild (n : Xml) : Option Xml := n.children.reverse.find? isElem

def attr? (n : Xml) (k : String) : Option String :=
  match n with
  | .elem _ attrs _ => (attrs.find? (fun a => a.1 == k)).map (·.2)
  | _ => none

end Xml

/-- `visual_elements` -/
def visualElements (doc : Xml) (names : List String) : List Xml :=
  doc.descendants.filter fun n =>
    n.tag == "visualElement" &&
    match n.children.find? (fun d => d.tag == "elementName") with
    | none => false
    | some nameNode =>
      match nameNode.text? with
      | some name => names.contains name
      | none => false

/-- `attrib`: the value of the element's own attribute entry with that key — `elementAttributes` is a child of the
element and the entries are its children (entries nested inside a value are not looked at; fix F19); the value is the
entry's last element, unless the key is the only element of the entry: a key is not its own value (fix F21) -/
def attrib (node : Xml) (label : String) : Option Xml :=
  match node.children.find? (fun d => d.tag == "elementAttributes") with
  | none => none
  | some attribs =>
    let entries := attribs.children.filter (fun d => d.tag == "entry")
    match entries.find? (fun entry =>
      match entry.firstElemChild with
      | none => false
      | some s => s.tag == "string" && s.text? == some label) with
    | none => none
    | some entry => if (entry.children.filter Xml.isElem).length ≤ 1 then none else entry.lastElemChild

def allDigits (s : List Char) : Bool := !s.isEmpty && s.all (fun c => '0'.toNat ≤ c.toNat && c.toNat ≤ '9'.toNat)

def natOfDec (s : List Char) : Nat := s.foldl (fun n c => n * 10 + (c.toNat - '0'.toNat)) 0

/-- `str::parse::<usize>` (64 bit) -/
def parseUsize (s : String) : Option Nat :=
  let cs := match s.toList with | '+' :: rest => rest | cs => cs
  if allDigits cs && natOfDec cs < 2 ^ 64 then some (natOfDec cs) else none

/-- `str::parse::<i64>` -/
def parseI64 (s : String) : Option Int64 :=
  match s.toList with
  | '-' :: rest =>
    if allDigits rest && natOfDec rest ≤ 2 ^ 63 then some (Int64.ofInt (-(natOfDec rest : Int))) else none
  | cs =>
    let cs := match cs with | '+' :: rest => rest | cs => cs
    if allDigits cs && natOfDec cs < 2 ^ 63 then some (Int64.ofNat (natOfDec cs)) else none

/-- `extract_signal_data` -/
def extractSignalData (node : Xml) : Option (String × Nat) :=
  match attrib node "Label" with
  | none => none
  | some l =>
    match l.text? with
    | none => none
    | some label =>
      let bits := match attrib node "Bits" with
        | none => 1
        | some b => match b.text? with
          | none => 1
          | some t => (parseUsize t).getD 1
      some (label, bits)

/-- `extract_input_data` -/
def extractInputData (node : Xml) : InVal :=
  match attrib node "InDefault" with
  | none => .val 0
  | some d =>
    if d.attr? "z" == some "true" then .z
    else match d.attr? "v" with
      | none => .val 0
      | some v => match parseI64 v with
        | some n => .val n
        | none => .val 0

structure TestDesc where
  name : String
  source : String
  deriving Repr, Inhabited

/-- the `filter_map` over the `Testcase` elements -/
def extractTest (node : Xml) : Option TestDesc :=
  let name? : Option String :=
    match attrib node "Label" with
    | some l => some (l.text?.getD "")      -- `text().unwrap_or("")`: an empty label is the label ""
    | none => some "(unnamed)"
  match name? with
  | none => none
  | some name =>
    match attrib node "Testdata" with
    | none => none
    | some td =>
      if td.tag != "testData" then none
      else match td.firstElemChild with
        | none => none
        | some ds =>
          if ds.tag != "dataString" then none
          else some ⟨name, ds.text?.getD ""⟩    -- an empty `dataString` is the source ""

/-- `dig::File` -/
structure DigFile where
  signals : List Signal
  tests : List TestDesc
  deriving Repr, Inhabited

inductive DigErr where
  | emptyTest
  | missingSignals (names : List String)
  deriving Repr, Inhabited

/-- header names of a test source (`HeaderParser::new(source).parse()`) -/
def headerNames (src : String) : Option (List String) :=
  match parseHeaderAll src.toList with
  | .ok names _ _ _ => some (names.map (·.1))
  | .err _ => none

/-- `name.strip_suffix("_out")` -/
def stripOut (name : String) : Option String :=
  let cs := name.toList
  if cs.length ≥ 4 && cs.drop (cs.length - 4) == "_out".toList then some (String.ofList (cs.take (cs.length - 4)))
  else none

/-- the classification loop over all header names of all tests: (bidirectional, plain names) -/
def classifyNames (signals : List Signal) : List String → List String × List String
  | [] => ([], [])
  | name :: rest =>
    let (bi, plain) := classifyNames signals rest
    match stripOut name with
    | some stripped =>
      if !(signals.any (fun s => s.name == name)) && signals.any (fun s => s.name == stripped && s.isInput)
      then (stripped :: bi, plain)
      else (bi, name :: plain)
    | none => (bi, name :: plain)

/-- turn the first signal called `name` into a bidirectional one (it must be an input) -/
def makeBidirectional (name : String) : List Signal → Res DigErr (List Signal)
  | [] => .panic "We already checked that all test signals appear in the circuit"
  | s :: rest =>
    if s.name == name then
      match s.typ with
      | .input d => .ok ({ s with typ := .bidir d } :: rest)
      | _ => .panic "By definition we know that there will be an input signal"
    else match makeBidirectional name rest with
      | .ok rest' => .ok (s :: rest')
      | .err e => .err e
      | .panic m => .panic m

/-- the set of collected names, each once (a `HashSet` in the code; the order is irrelevant) -/
def dedupNames : List String → List String
  | [] => []
  | a :: as => if as.contains a then dedupNames as else a :: dedupNames as

def makeAllBidirectional : List String → List Signal → Res DigErr (List Signal)
  | [], sigs => .ok sigs
  | n :: ns, sigs =>
    match makeBidirectional n sigs with
    | .ok sigs' => makeAllBidirectional ns sigs'
    | .err e => .err e
    | .panic m => .panic m

/-- the `In` / `Clock` pins, in document order -/
def digInputs (doc : Xml) : List Signal :=
  (visualElements doc ["In", "Clock"]).filterMap (fun node =>
    match extractSignalData node with
    | some (n, b) => some ({ name := n, bits := b, typ := .input (extractInputData node) } : Signal)
    | none => none)

/-- the `Out` pins, in document order -/
def digOutputs (doc : Xml) : List Signal :=
  ((visualElements doc ["Out"]).filterMap extractSignalData).map
    (fun (n, b) => ({ name := n, bits := b, typ := .output } : Signal))

def digTests (doc : Xml) : List TestDesc := (visualElements doc ["Testcase"]).filterMap extractTest

/-- names of the virtual signals a test source declares (`ParsedTestCase::declared_names` of the parsed source; none
if the source does not parse) -/
def declaredNames (src : String) : List String :=
  match parseTest src.toList with
  | .ok p => p.virt.map (·.1)
  | _ => []

/-- the header names of one test that must be pins of the circuit: not the `_out` side of a bidirectional signal,
and not a virtual signal the test declares itself -/
def pinNamesOf (signals : List Signal) (t : TestDesc) (names : List String) : List String :=
  (classifyNames signals names).2.filter (fun n => !((declaredNames t.source).contains n))

/-- the second half of `dig::File::parse`: header scan, missing-signal check, bidirectional rewrite -/
def digAssemble (inputs outputs : List Signal) (tests : List TestDesc) : Res DigErr DigFile :=
  let signals := inputs ++ outputs
  match tests.mapM (fun t => headerNames t.source) with
  | none => .err .emptyTest
  | some hdrs =>
    let cl := classifyNames signals hdrs.flatten
    let missing := (((tests.zip hdrs).map (fun p => pinNamesOf signals p.1 p.2)).flatten).filter
      (fun n => !(signals.any (fun s => s.name == n)))
    if !missing.isEmpty then .err (.missingSignals missing)
    else
      match makeAllBidirectional (dedupNames cl.1) signals with
      | .ok sigs => .ok ⟨sigs, tests⟩
      | .err e => .err e
      | .panic m => .panic m

/-- `dig::File::parse`, after the XML has been parsed -/
def digParse (doc : Xml) : Res DigErr DigFile := digAssemble (digInputs doc) (digOutputs doc) (digTests doc)

inductive LoadRes where
  | ok (tc : TestCase)
  | indexOutOfBounds
  | notFound
  | parseErr (spans : List (Nat × Nat))
  | bindErr
  | panic (site : String)
  deriving Repr, Inhabited

/-- parse a source text and bind the result to the file's signals -/
def loadSource (signals : List Signal) (source : String) : LoadRes :=
  match parseTest source.toList with
  | .err _ spans => .parseErr spans
  | .panic m => .panic m
  | .fuel => .panic "fuel"
  | .ok p =>
    match withSignals p signals with
    | .ok tc => .ok tc
    | .err _ => .bindErr
    | .panic m => .panic m

/-- `dig::File::load_test` -/
def loadTest (f : DigFile) (n : Nat) : LoadRes :=
  match f.tests[n]? with
  | none => .indexOutOfBounds
  | some t => loadSource f.signals t.source

/-- `dig::File::load_test_by_name` -/
def loadTestByName (f : DigFile) (name : String) : LoadRes :=
  match posOf (fun (t : TestDesc) => t.name == name) f.tests with
  | some n => loadTest f n
  | none => .notFound

end Dtr
