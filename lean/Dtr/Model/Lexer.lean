import Dtr.Generated.Nd
/-!
# Lexers  (src/lexer/token.rs, src/lexer/mod.rs, `HeaderParser::parse` of src/parser/mod.rs)

The logos-generated code is not modelled; the model is written from the `#[token]` / `#[regex]`
attributes: one scanner per token kind (`scan k s` = length of the longest prefix of `s` that is a
token of kind `k`, `0` if none), the longest scan wins, the earlier kind wins ties (keywords before
`Ident`).  Text is `List Char`; spans are byte offsets (running sums of `Char.utf8Size`).
-/
namespace Dtr

abbrev Str := List Char

/-- `lexer::TokenKind` (without the skipped `WS` and `Comment`) -/
inductive Kind where
  | Comma | Semi | Plus | Minus | Times | Divide | Reminder | LogicalNot | BinaryNot | Xor | And | Or
  | ShiftLeft | ShiftRight | Equal | NotEqual | LessThanOrEqual | GreaterThanOrEqual | LessThan | GreaterThan
  | LParen | RParen
  | End | Loop | Repeat | Bits | Let | ResetRandom | While | Declare | Program | Init | Memory | Def | Call
  | Ident | DecInt | HexInt | BinInt | OctInt
  | Eol | Eof | Error
  deriving DecidableEq, Repr, Inhabited

def isBlank (c : Char) : Bool := c == ' ' || c == '\t' || c == '\r' || c == '\x0c'

/-- Unicode `Nd`, which is what `\d` means in a logos regex over `str` -/
def isNd (c : Char) : Bool := ndRanges.any (fun r => r.1 ≤ c.toNat && c.toNat ≤ r.2)

def isIdStart (c : Char) : Bool :=
  ('a'.toNat ≤ c.toNat && c.toNat ≤ 'z'.toNat) || ('A'.toNat ≤ c.toNat && c.toNat ≤ 'Z'.toNat) || c == '_'
def isIdC (c : Char) : Bool := isIdStart c || isNd c
def isDec (c : Char) : Bool := '0'.toNat ≤ c.toNat && c.toNat ≤ '9'.toNat
def isDec1 (c : Char) : Bool := '1'.toNat ≤ c.toNat && c.toNat ≤ '9'.toNat
def isOct (c : Char) : Bool := '0'.toNat ≤ c.toNat && c.toNat ≤ '7'.toNat
def isBin (c : Char) : Bool := c == '0' || c == '1'
def isHex (c : Char) : Bool :=
  isDec c || ('a'.toNat ≤ c.toNat && c.toNat ≤ 'f'.toNat) || ('A'.toNat ≤ c.toNat && c.toNat ≤ 'F'.toNat)

/-- length of the longest prefix all of whose characters satisfy `q` -/
def tw (q : Char → Bool) (s : Str) : Nat := (s.takeWhile q).length

def scanIdent : Str → Nat
  | [] => 0
  | c :: cs => if isIdStart c then 1 + tw isIdC cs else 0

def scanDec : Str → Nat
  | [] => 0
  | c :: cs => if isDec1 c then 1 + tw isDec cs else 0

def scanOct : Str → Nat
  | [] => 0
  | c :: cs => if c == '0' then 1 + tw isOct cs else 0

def scanHex : Str → Nat
  | c :: x :: h :: cs => if c == '0' && (x == 'x' || x == 'X') && isHex h then 3 + tw isHex cs else 0
  | _ => 0

def scanBin : Str → Nat
  | c :: x :: h :: cs => if c == '0' && (x == 'b' || x == 'B') && isBin h then 3 + tw isBin cs else 0
  | _ => 0

def isPre : Str → Str → Bool
  | [], _ => true
  | _ :: _, [] => false
  | a :: as, b :: bs => a == b && isPre as bs

def scanLit (lit : Str) (s : Str) : Nat := if isPre lit s then lit.length else 0

/-- the fixed spellings, in priority order -/
def literals : List (Kind × Str) :=
  [(.End, "end".toList), (.Loop, "loop".toList), (.Repeat, "repeat".toList), (.Bits, "bits".toList),
   (.Let, "let".toList), (.ResetRandom, "resetRandom".toList), (.While, "while".toList),
   (.Declare, "declare".toList), (.Program, "program".toList), (.Init, "init".toList),
   (.Memory, "memory".toList), (.Def, "def".toList), (.Call, "call".toList),
   (.ShiftLeft, "<<".toList), (.ShiftRight, ">>".toList), (.NotEqual, "!=".toList),
   (.LessThanOrEqual, "<=".toList), (.GreaterThanOrEqual, ">=".toList),
   (.Comma, ",".toList), (.Semi, ";".toList), (.Plus, "+".toList), (.Minus, "-".toList),
   (.Times, "*".toList), (.Divide, "/".toList), (.Reminder, "%".toList), (.LogicalNot, "!".toList),
   (.BinaryNot, "~".toList), (.Xor, "^".toList), (.And, "&".toList), (.Or, "|".toList),
   (.Equal, "=".toList), (.LessThan, "<".toList), (.GreaterThan, ">".toList),
   (.LParen, "(".toList), (.RParen, ")".toList), (.Eol, "\n".toList)]

/-- all scanners in priority order: fixed spellings first (so that keywords beat `Ident` on ties) -/
def scanners : List (Kind × (Str → Nat)) :=
  literals.map (fun kl => (kl.1, scanLit kl.2)) ++
  [(.Ident, scanIdent), (.DecInt, scanDec), (.HexInt, scanHex), (.BinInt, scanBin), (.OctInt, scanOct)]

def pick (l : List (Kind × Nat)) (acc : Kind × Nat) : Kind × Nat :=
  l.foldl (fun acc kn => if acc.2 < kn.2 then kn else acc) acc

def vals (s : Str) : List (Kind × Nat) := scanners.map (fun ks => (ks.1, ks.2 s))

/-- longest match, earlier kind on ties; `(Error, 0)` when nothing matches -/
def best0 (s : Str) : Kind × Nat := pick (vals s) (.Error, 0)

/-- first byte of the UTF-8 encoding -/
def utf8Lead (c : Char) : Nat :=
  let v := c.toNat
  if v < 0x80 then v else if v < 0x800 then 0xC0 + v / 64 else if v < 0x10000 then 0xE0 + v / 4096
  else 0xF0 + v / 262144

def isKeyword : Kind → Bool
  | .End | .Loop | .Repeat | .Bits | .Let | .ResetRandom | .While | .Declare | .Program | .Init | .Memory
  | .Def | .Call => true
  | _ => false

/-- A property of the logos-generated automaton, found by the token-dump correspondence: when a
keyword is followed by a character that does not continue an identifier but whose first UTF-8 byte
is also the first byte of some `Nd` character, the automaton has already left the keyword's
accepting state along the identifier pattern and reports `Ident` (same span) instead of the
keyword.  (Such a character is itself an `Error` token, so the text is rejected either way.) -/
def keywordQuirk (s : Str) (k : Kind) (n : Nat) : Kind :=
  if isKeyword k then
    match s.drop n with
    | c :: _ => if !(isIdC c) && ndLeadBytes.contains (utf8Lead c) then .Ident else k
    | [] => k
  else k

/-- what the lexer recognises at the head of `s`: kind and length in characters -/
def best (s : Str) : Kind × Nat := (keywordQuirk s (best0 s).1 (best0 s).2, (best0 s).2)

/-- length (in characters) of the token or error character at the head of a non-empty, non-blank,
non-comment position -/
def tokLen (s : Str) : Nat := max 1 (best s).2

/-- number of characters of a comment after its `#` (up to, not including, the newline) -/
def comLen (cs : Str) : Nat := (cs.takeWhile (· != '\n')).length

def utf8Len (s : Str) : Nat := s.foldl (fun n c => n + c.utf8Size) 0

structure Tok where
  kind : Kind
  text : Str
  s : Nat
  e : Nat
  deriving Repr, Inhabited

/-- body lexer (`TokenIter`): all tokens of `s`, which starts at byte offset `off`, then one `Eof`.
`fuel` bounds the number of steps; `s.length` is always enough. -/
def lexBody : Nat → Nat → Str → List Tok
  | 0, off, _ => [⟨.Eof, [], off, off⟩]
  | _+1, off, [] => [⟨.Eof, [], off, off⟩]
  | f+1, off, c :: cs =>
    if isBlank c then lexBody f (off + c.utf8Size) cs
    else if c == '#' then lexBody f (off + c.utf8Size + utf8Len (cs.take (comLen cs))) (cs.drop (comLen cs))
    else
      let n := tokLen (c :: cs)
      let t := (c :: cs).take n
      ⟨(best (c :: cs)).1, t, off, off + utf8Len t⟩ :: lexBody f (off + utf8Len t) ((c :: cs).drop n)

def lexBodyAll (off : Nat) (s : Str) : List Tok := lexBody (s.length + 1) off s

/-- characters that end a header name: `[^ \t\r\f\n]+` -/
def isHdrName (c : Char) : Bool := !(isBlank c) && c != '\n'

inductive HdrRes where
  /-- names with spans, line counter after the header, byte offset and text of the remaining input -/
  | ok (names : List (String × Nat × Nat)) (line : Nat) (off : Nat) (rest : Str)
  /-- parse error with its spans -/
  | err (at_ : List (Nat × Nat))
  deriving Repr, Inhabited

/-- `HeaderParser::parse` over the header lexer: skip blank lines, collect the names of the first
non-empty line (duplicates are an error), stop after its newline; end of input first is an error. -/
def parseHeader : Nat → Nat → Nat → List (String × Nat × Nat) → Str → HdrRes
  | 0, off, _, _, _ => .err [(off, off)]
  | _+1, off, _, _, [] => .err [(off, off)]
  | f+1, off, line, acc, c :: cs =>
    if isBlank c then parseHeader f (off + c.utf8Size) line acc cs
    else if c == '\n' then
      if acc.isEmpty then parseHeader f (off + c.utf8Size) (line + 1) acc cs
      else .ok acc (line + 1) (off + c.utf8Size) cs
    else
      let n := tw isHdrName (c :: cs)
      let t := (c :: cs).take n
      let name := String.ofList t
      let e := off + utf8Len t
      match acc.find? (fun x => x.1 == name) with
      | some prev => .err [(prev.2.1, prev.2.2), (off, e)]
      | none => parseHeader f e line (acc ++ [(name, off, e)]) ((c :: cs).drop n)

def parseHeaderAll (s : Str) : HdrRes := parseHeader (s.length + 1) 0 1 [] s

end Dtr
