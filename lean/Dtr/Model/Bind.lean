import Dtr.Model.Parser
/-!
# Binding a parsed test to a signal list  (src/parsed_test_case.rs: `with_signals`)
-/
namespace Dtr

/-- `EntryIndex` -/
inductive EIdx where
  | entry (col : Nat) (sig : Nat)
  | dflt (sig : Nat)
  deriving DecidableEq, Repr, Inhabited

def EIdx.sig : EIdx → Nat
  | .entry _ s => s
  | .dflt s => s

/-- `EntryIndex::indexes` -/
def EIdx.indexes (i : EIdx) (col : Nat) : Bool :=
  match i with
  | .entry c _ => c == col
  | .dflt _ => false

/-- `TestCase` -/
structure TestCase where
  stmts : List Stmt
  signals : List Signal
  inIdx : List EIdx
  expIdx : List EIdx
  reads : List Nat
  deriving Repr, Inhabited

/-- position of the first element satisfying `p` (`Iterator::position`) -/
def posOf {α : Type} (p : α → Bool) : List α → Option Nat
  | [] => none
  | a :: as => if p a then some 0 else (posOf p as).map (· + 1)

/-- `check_duplicate_signals` -/
def checkDuplicates (virt : List String) : List Signal → List String → Option String
  | [], seen => (virt.find? (fun v => seen.contains v)).map (fun v => "SignalIsVirtual " ++ v)
  | s :: rest, seen =>
    if seen.contains s.name then some ("DuplicateSignal " ++ s.name)
    else checkDuplicates virt rest (seen ++ [s.name])

/-- the index a signal gets from looking its column up by name in the header -/
def idxOf (hdr : List String) (name : String) (sig : Nat) : EIdx :=
  match posOf (fun n => n == name) hdr with
  | some col => .entry col sig
  | none => .dflt sig

/-- one round of the `for` of `build_indices`: contributions of signal number `i` -/
def indicesFor (hdr : List String) (i : Nat) (s : Signal) : List EIdx × List EIdx :=
  let ins := match s.typ with
    | .input _ | .bidir _ => [idxOf hdr s.name i]
    | _ => []
  let exps := match s.typ with
    | .input _ => []
    | .bidir _ => [idxOf hdr (s.name ++ "_out") i]
    | .output | .virt _ => [idxOf hdr s.name i]
  (ins, exps)

/-- `build_indices` -/
def buildIndices (hdr : List String) : Nat → List Signal → List EIdx × List EIdx
  | _, [] => ([], [])
  | i, s :: rest =>
    let (a, b) := indicesFor hdr i s
    let (as, bs) := buildIndices hdr (i + 1) rest
    (a ++ as, b ++ bs)

/-- header columns that no index refers to (`check_missing_signals`) -/
def missingColumns (hdr : List String) (idx : List EIdx) : List String :=
  (hdr.zipIdx.filter (fun (_, col) => !(idx.any (fun e => e.indexes col)))).map (·.1)

/-- `check_and_consume_expected_inputs`: the first recorded `C` column that is not an input -/
def badExpectedInput (signals : List Signal) (expIn : List String) : Option String :=
  expIn.find? (fun name => !(signals.any (fun s => s.name == name && s.isInput)))

/-- `build_read_outputs` -/
def buildReads (signals : List Signal) : List String → Res String (List Nat)
  | [] => .ok []
  | name :: rest =>
    match posOf (fun s => s.name == name && s.isOutput) signals with
    | none => .err ("NotAnOutput/UnknownVariableOrSignal " ++ name)
    | some i =>
      match buildReads signals rest with
      | .ok is => .ok (i :: is)
      | .err e => .err e
      | .panic s => .panic s

/-- `ParsedTestCase::with_signals` -/
def withSignals (p : Parsed) (sigs : List Signal) : Res String TestCase :=
  match checkDuplicates (p.virt.map (·.1)) sigs [] with
  | some e => .err e
  | none =>
    let signals := sigs ++ p.virt.map (fun (n, _, e) => { name := n, bits := 64, typ := .virt e })
    let (inIdx, expIdx) := buildIndices p.signals 0 signals
    match missingColumns p.signals (inIdx ++ expIdx) with
    | _ :: _ => .err "UnknownSignals"
    | [] =>
      match badExpectedInput signals (p.expIn.map (·.1)) with
      | some n => .err ("NotAnInput/UnknownVariableOrSignal " ++ n)
      | none =>
        match buildReads signals (p.reads.map (·.1)) with
        | .err e => .err e
        | .panic s => .panic s
        | .ok reads =>
          .ok { stmts := p.stmts, signals := signals, inIdx := inIdx, expIdx := expIdx, reads := reads }

end Dtr
