import Dtr.Model.Bind
import Dtr.Model.StmtIter
/-!
# `DataRowIterator`  (src/data_row_iterator.rs, `try_iter_static` of src/static_test.rs)

The driver is a parameter: any state machine with the two trait methods.  Every call is appended
to a ghost log so that protocol properties are statements about that log.
-/
namespace Dtr

/-- `InputEntry`; the signal is given by its index in `TestCase.signals` -/
structure InEntry where
  sig : Nat
  value : InVal
  changed : Bool
  deriving DecidableEq, Repr, Inhabited

/-- `ExpectedEntry` -/
structure ExpEntry where
  sig : Nat
  value : ExpVal
  deriving DecidableEq, Repr, Inhabited

/-- `OutputResultEntry` -/
structure OutResult where
  sig : Nat
  output : OutVal
  expected : ExpVal
  deriving DecidableEq, Repr, Inhabited

/-- `OutputResultEntry::check` -/
def OutResult.check (e : OutResult) : Bool := e.expected.check e.output

/-- `OutputResultEntry::is_checked` -/
def OutResult.isChecked (e : OutResult) : Bool := e.expected != .x

/-- `DataRow` -/
structure DataRow where
  inputs : List InEntry
  outputs : List OutResult
  line : Nat
  deriving DecidableEq, Repr, Inhabited

/-- `DataRow::failing_outputs` -/
def DataRow.failingOutputs (r : DataRow) : List OutResult := r.outputs.filter (fun e => !e.check)

/-- `OutputEntry` as returned by a driver: it carries a whole `Signal` -/
abbrev OutEntry := Signal × OutVal

/-- what a driver call returns: its outputs, or an error (identified by a number) -/
inductive DrvResp where
  | ok (outs : List OutEntry)
  | fail (e : Nat)
  deriving Repr, Inhabited

inductive CallKind where
  | readWrite      -- `write_input_and_read_output`
  | writeOnly      -- `write_input`
  deriving DecidableEq, Repr, Inhabited

/-- a `TestDriver`: a state machine with the two trait methods -/
structure Driver (δ : Type) where
  rw : δ → List InEntry → δ × DrvResp
  wo : δ → List InEntry → δ × Option Nat

/-- the provided `write_input`: forward to the other method and discard the outputs -/
def Driver.defaultWo {δ} (rw : δ → List InEntry → δ × DrvResp) : δ → List InEntry → δ × Option Nat :=
  fun d ins => match rw d ins with
    | (d', .ok _) => (d', none)
    | (d', .fail e) => (d', some e)

/-- entry of the ghost call log -/
structure Call where
  kind : CallKind
  inputs : List InEntry
  resp : DrvResp
  deriving Repr, Inhabited

/-- `OutputEntryIndex` -/
inductive OIdx where
  | none
  | output (n : Nat)
  | virt (e : Expr)
  deriving Repr, Inhabited

/-- `IterationError` / `RuntimeErrorKind` -/
inductive IterErr where
  | driver (e : Nat)
  | wrongNumberOfOutputs (expected got : Nat)
  | wrongOutputOrder
  | missingOutputs (names : List String)
  | expr (e : ExprErr)
  deriving Repr, Inhabited

/-- `bit_mask` -/
def bitMask (bits : Nat) : Int64 :=
  if bits < 64 then Int64.ofNat (2 ^ bits - 1) else -1

/-- `DataRowIterator` + `DataRowIteratorTestData` (the test case itself is a separate parameter) -/
structure RowIt where
  it : It
  outIdx : List OIdx := []
  /-- number of outputs in the driver's first answer -/
  numOut : Nat := 0
  prev : Option (List REntry) := none
  /-- the row stack, top at the head -/
  cache : List CRow := []
  ctx : Ctx
  deriving Inhabited

/-- sequential `map` that stops at the first failure -/
def mapRes {α β ε : Type} (f : α → Res ε β) : List α → Res ε (List β)
  | [] => .ok []
  | a :: as =>
    match f a with
    | .ok b =>
      match mapRes f as with
      | .ok bs => .ok (b :: bs)
      | .err e => .err e
      | .panic s => .panic s
    | .err e => .err e
    | .panic s => .panic s

/-- one entry of `generate_default_input_entries` -/
def defaultFor (tc : TestCase) (i : EIdx) : Res IterErr InEntry :=
  match tc.signals[i.sig]? with
  | none => .panic "index out of bounds: signals"
  | some s =>
    match s.default? with
    | none => .panic "called `Option::unwrap()` on a `None` value (default_value)"
    | some v => .ok ⟨i.sig, v, false⟩

/-- `generate_default_input_entries` -/
def defaultInputs (tc : TestCase) : Res IterErr (List InEntry) := mapRes (defaultFor tc) tc.inIdx

/-- one round of the first loop of `build_output_indices`: the output index of an expected entry,
paired with its signal index -/
def oidxFor (tc : TestCase) (outs : List OutEntry) (i : EIdx) : Res IterErr (OIdx × Nat) :=
  match tc.signals[i.sig]? with
  | none => .panic "index out of bounds: signals"
  | some s =>
    match s.typ with
    | .virt e => .ok (OIdx.virt e, i.sig)
    | _ =>
      match posOf (fun (o : OutEntry) => o.1 == s) outs with
      | some n => .ok (OIdx.output n, i.sig)
      | none => .ok (OIdx.none, i.sig)

/-- the name of a read output that the driver's first answer does not supply -/
def missingFor (tc : TestCase) (found : List Nat) (r : Nat) : Res IterErr (Option String) :=
  if found.contains r then .ok none
  else match tc.signals[r]? with
    | none => .panic "index out of bounds: signals"
    | some s => .ok (some s.name)

/-- `build_output_indices`: the index list, or the names of the read outputs the driver does not supply -/
def buildOutIdx (tc : TestCase) (outs : List OutEntry) : Res IterErr (List OIdx) :=
  match mapRes (oidxFor tc outs) tc.expIdx with
  | .err e => .err e
  | .panic s => .panic s
  | .ok pairs =>
    let found := (pairs.filter (fun p => match p.1 with | .output _ => true | _ => false)).map (·.2)
    match mapRes (missingFor tc found) tc.reads with
    | .err e => .err e
    | .panic s => .panic s
    | .ok ms =>
      match ms.filterMap id with
      | [] => .ok (pairs.map (·.1))
      | missing => .err (.missingOutputs missing)

def outsOf (outs : List OutEntry) : List (String × OutVal) := outs.map (fun o => (o.1.name, o.2))

inductive CtorRes (δ : Type) where
  | ok (s : RowIt) (d : δ) (log : List Call)
  | err (e : IterErr) (d : δ) (log : List Call)
  | panic (site : String)

/-- `DataRowIterator::try_new` -/
def tryNew {δ} (tc : TestCase) (drv : Driver δ) (d : δ) (rng : Rng) : CtorRes δ :=
  match defaultInputs tc with
  | .err e => .err e d []
  | .panic s => .panic s
  | .ok inputs =>
    match drv.rw d inputs with
    | (d', .fail e) => .err (.driver e) d' [⟨.readWrite, inputs, .fail e⟩]
    | (d', .ok outs) =>
      let log := [⟨.readWrite, inputs, .ok outs⟩]
      match buildOutIdx tc outs with
      | .err e => .err e d' log
      | .panic s => .panic s
      | .ok oi => .ok { it := It.new tc.stmts, outIdx := oi, numOut := outs.length, ctx := { rng := rng, outs := outsOf outs } } d' log

/-- `entry_is_input` -/
def entryIsInput (tc : TestCase) (col : Nat) : Bool := tc.inIdx.any (fun e => e.indexes col)

/-- `f` applied to every entry together with its column number, starting at column `i` -/
def mapIdxFrom (f : Nat → REntry → REntry) : List REntry → Nat → List REntry
  | [], _ => []
  | e :: es, i => f i e :: mapIdxFrom f es (i + 1)

def isInputX (tc : TestCase) (i : Nat) (e : REntry) : Bool := e == .x && entryIsInput tc i
def isInputC (tc : TestCase) (i : Nat) (e : REntry) : Bool := e == .c && entryIsInput tc i

/-- column of an expected index that is not also an input column (the columns `expand_c` blanks) -/
def isPureExp (tc : TestCase) (i : Nat) : Bool := tc.expIdx.any (fun e => e.indexes i) && !entryIsInput tc i

/-- position of the right-most `X` in an input column (`.enumerate().rev().find_map(..)`), columns
counted from `i` -/
def lastInputXFrom (tc : TestCase) : List REntry → Nat → Option Nat
  | [], _ => none
  | e :: es, i =>
    match lastInputXFrom tc es (i + 1) with
    | some j => some j
    | none => if isInputX tc i e then some i else none

def lastInputX (tc : TestCase) (entries : List REntry) : Option Nat := lastInputXFrom tc entries 0

/-- `expand_x`: split the top of the stack on its right-most input `X` until it has none -/
def expandX (tc : TestCase) : Nat → List CRow → Res IterErr (List CRow)
  | _, [] => .panic "cache should be refilled before calling expand_x"
  | 0, cache => .ok cache
  | f+1, top :: rest =>
    match lastInputX tc top.entries with
    | none => .ok (top :: rest)
    | some i =>
      expandX tc f ({ top with entries := top.entries.set i (.num 0), xcols := i :: top.xcols } ::
                    { top with entries := top.entries.set i (.num 1), xcols := i :: top.xcols } :: rest)

def hasInputCFrom (tc : TestCase) : List REntry → Nat → Bool
  | [], _ => false
  | e :: es, i => isInputC tc i e || hasInputCFrom tc es (i + 1)

/-- the entries of a clock row: every input `C` becomes `v` (`for &i in &c_indices { … = Number(v) }`) -/
def clockLow (tc : TestCase) (v : Int64) (es : List REntry) : List REntry :=
  mapIdxFrom (fun i e => if isInputC tc i e then .num v else e) es 0

/-- the entries of an unchecked clock row: additionally the pure expected columns are blanked -/
def clockBlank (tc : TestCase) (v : Int64) (es : List REntry) : List REntry :=
  mapIdxFrom (fun i e => if isInputC tc i e then .num v else if isPureExp tc i then .x else e) es 0

/-- does blanking index past the end of the row (`row_result.entries[*entry_index] = X`)? -/
def blankOutOfRange (tc : TestCase) (len : Nat) : Bool :=
  tc.expIdx.any (fun i => match i with
    | .entry col _ => !(entryIsInput tc col) && col ≥ len
    | .dflt _ => false)

/-- `expand_c`: the three loops of the code written as their pointwise effect -/
def expandC (tc : TestCase) : List CRow → Res IterErr (List CRow)
  | [] => .panic "cache should be refilled before calling expand_c"
  | top :: rest =>
    if !(hasInputCFrom tc top.entries 0) then .ok (top :: rest)
    else if blankOutOfRange tc top.entries.length then .panic "index out of bounds: entries"
    else
      .ok (⟨clockBlank tc 0 top.entries, top.line, false, top.xcols⟩ :: ⟨clockBlank tc 1 top.entries, top.line, false, top.xcols⟩ ::
           ⟨clockLow tc 0 top.entries, top.line, top.upd, top.xcols⟩ :: rest)

/-- the part of `get_row` that works on the row stack: `expand_x`, `expand_c`, `pop` -/
def popRow (tc : TestCase) (cache : List CRow) : Res IterErr (CRow × List CRow) :=
  match expandX tc ((cache.head?.map (·.entries.length)).getD 0 + 1) cache with
  | .err e => .err e
  | .panic m => .panic m
  | .ok cache1 =>
    match expandC tc cache1 with
    | .err e => .err e
    | .panic m => .panic m
    | .ok [] => .panic "called `Option::unwrap()` on a `None` value (cache.pop)"
    | .ok (top :: rest) => .ok (top, rest)

/-- `check_changed_entries` -/
def changedFlags (prev : Option (List REntry)) (entries : List REntry) : List Bool :=
  match prev with
  | some p => (entries.zip p).map (fun (n, o) => n != o)
  | none => entries.map (fun _ => true)

/-- one entry of `generate_input_entries` -/
def inputFor (tc : TestCase) (entries : List REntry) (changed : List Bool) (i : EIdx) : Res IterErr InEntry :=
  match i with
  | .entry col sig =>
    match tc.signals[sig]? with
    | none => .panic "index out of bounds: signals"
    | some s =>
      match entries[col]? with
      | none => .panic "index out of bounds: entries"
      | some (.num n) =>
        match changed[col]? with
        | none => .panic "index out of bounds: changed"
        | some ch => .ok ⟨sig, .val (n &&& bitMask s.bits), ch⟩
      | some .z =>
        match changed[col]? with
        | none => .panic "index out of bounds: changed"
        | some ch => .ok ⟨sig, .z, ch⟩
      | some _ => .panic "internal error: entered unreachable code (input entry)"
  | .dflt sig =>
    match tc.signals[sig]? with
    | none => .panic "index out of bounds: signals"
    | some s =>
      match s.default? with
      | none => .panic "called `Option::unwrap()` on a `None` value (default_value)"
      | some v => .ok ⟨sig, v, false⟩

/-- `generate_input_entries` -/
def genInputs (tc : TestCase) (entries : List REntry) (changed : List Bool) : Res IterErr (List InEntry) :=
  mapRes (inputFor tc entries changed) tc.inIdx

/-- one entry of `generate_expected_entries`; a column whose `X` was expanded for the input side (`xcols`) still holds
the row's `X` for the expected side -/
def expectedFor (tc : TestCase) (entries : List REntry) (xcols : List Nat) (i : EIdx) : Res IterErr ExpEntry :=
  match i with
  | .entry col sig =>
    match tc.signals[sig]? with
    | none => .panic "index out of bounds: signals"
    | some s =>
      if xcols.contains col then .ok ⟨sig, .x⟩ else
      match entries[col]? with
      | none => .panic "index out of bounds: entries"
      | some (.num n) => .ok ⟨sig, .val (n &&& bitMask s.bits)⟩
      | some .z => .ok ⟨sig, .z⟩
      | some .x => .ok ⟨sig, .x⟩
      | some .c => .panic "internal error: entered unreachable code (expected entry)"
  | .dflt sig =>
    match tc.signals[sig]? with
    | none => .panic "index out of bounds: signals"
    | some _ => .ok ⟨sig, .x⟩

/-- `generate_expected_entries` -/
def genExpected (tc : TestCase) (entries : List REntry) (xcols : List Nat) : Res IterErr (List ExpEntry) :=
  mapRes (expectedFor tc entries xcols) tc.expIdx

/-- `EvaluatedRow` -/
structure EvRow where
  line : Nat
  inputs : List InEntry
  expected : List ExpEntry
  upd : Bool
  deriving Repr, Inhabited

inductive GetRowRes where
  | row (r : EvRow) (s : RowIt)
  | none (s : RowIt)
  | err (e : ExprErr)
  | panic (site : String)
  | fuel

/-- `get_row`; `fuel` bounds the statement iterator's internal steps -/
def getRow (tc : TestCase) (fuel : Nat) (s : RowIt) : GetRowRes :=
  let refill : Res (Option ExprErr) (RowIt) × Bool :=
    if s.cache.isEmpty then
      match nextRow fuel s.it s.ctx with
      | .row r it c => (.ok { s with it := it, ctx := c, cache := [r] }, false)
      | .none it c => (.ok { s with it := it, ctx := c }, true)
      | .err e => (.err (some e), false)
      | .panic m => (.panic m, false)
      | .fuel => (.err none, false)
    else (.ok s, false)
  match refill with
  | (.err (some e), _) => .err e
  | (.err none, _) => .fuel
  | (.panic m, _) => .panic m
  | (.ok s, true) => .none s
  | (.ok s, false) =>
    match popRow tc s.cache with
    | .err _ => .panic "unreachable"
    | .panic m => .panic m
    | .ok (top, rest) =>
      let changed := changedFlags s.prev top.entries
      match genInputs tc top.entries changed with
      | .err _ => .panic "unreachable"
      | .panic m => .panic m
      | .ok inputs =>
        match genExpected tc top.entries top.xcols with
        | .err _ => .panic "unreachable"
        | .panic m => .panic m
        | .ok expected =>
          .row ⟨top.line, inputs, expected, top.upd⟩ { s with cache := rest, prev := some top.entries }

/-- the per-entry part of `extract_output_values` (between the two `swap_vars`) -/
def extractOne (tc : TestCase) (outs : List OutEntry) (c : Ctx) (p : EIdx × OIdx) : Res IterErr (OutVal × Ctx) :=
  match p.2 with
  | .output n =>
    match tc.signals[p.1.sig]? with
    | none => .panic "index out of bounds: signals"
    | some es =>
      match outs[n]? with
      | none => .panic "index out of bounds: outputs"
      | some o => if es == o.1 then .ok (o.2, c) else .err .wrongOutputOrder
  | .virt e =>
    match evalE e c with
    | .ok (v, c') => .ok (.val v, c')
    | .err er => .err (.expr er)
    | .panic m => .panic m
  | .none => .ok (.x, c)

def extractAll (tc : TestCase) (outs : List OutEntry) : Ctx → List (EIdx × OIdx) → Res IterErr (List OutVal × Ctx)
  | c, [] => .ok ([], c)
  | c, p :: ps =>
    match extractOne tc outs c p with
    | .ok (v, c1) =>
      match extractAll tc outs c1 ps with
      | .ok (vs, c2) => .ok (v :: vs, c2)
      | .err e => .err e
      | .panic m => .panic m
    | .err e => .err e
    | .panic m => .panic m

/-- `extract_output_values`; the context comes back with only its generator possibly advanced.
On an error the code returns after the second `swap_vars` as well. -/
def extractOutputs (tc : TestCase) (oi : List OIdx) (numOut : Nat) (outs : List OutEntry) (c : Ctx) :
    Res IterErr (List OutVal) × Ctx :=
  if outs.length != numOut then (.err (.wrongNumberOfOutputs numOut outs.length), c)
  else
    match extractAll tc outs c.swapVars (tc.expIdx.zip oi) with
    | .ok (vs, c') => (.ok vs, c'.swapVars)
    | .err e => (.err e, c)      -- the caller stops at the first error item; the context is not used again
    | .panic m => (.panic m, c)

/-- `into_data_row` -/
def intoDataRow (r : EvRow) (vals : List OutVal) : DataRow :=
  { inputs := r.inputs,
    outputs := (r.expected.zip vals).map (fun (e, v) => ⟨e.sig, v, e.value⟩),
    line := r.line }

inductive Item where
  | row (r : DataRow)
  | err (e : IterErr)
  deriving Repr, Inhabited

inductive NextOut (δ : Type) where
  | item (i : Item) (s : RowIt) (d : δ) (calls : List Call)
  | none (s : RowIt) (d : δ)
  /-- a panic, after these driver calls had been made -/
  | panic (site : String) (calls : List Call)
  | fuel

/-- `<DataRowIterator as Iterator>::next` -/
def RowIt.next {δ} (tc : TestCase) (drv : Driver δ) (fuel : Nat) (s : RowIt) (d : δ) : NextOut δ :=
  match getRow tc fuel s with
  | .err e => .item (.err (.expr e)) s d []
  | .panic m => .panic m []
  | .fuel => .fuel
  | .none s' => .none s' d
  | .row r s' =>
    if r.upd then
      match drv.rw d r.inputs with
      | (d', .fail e) => .item (.err (.driver e)) s' d' [⟨.readWrite, r.inputs, .fail e⟩]
      | (d', .ok outs) =>
        let call : Call := ⟨.readWrite, r.inputs, .ok outs⟩
        let c1 := s'.ctx.setOutputs (outsOf outs)
        match extractOutputs tc s'.outIdx s'.numOut outs c1 with
        | (.ok vals, c2) => .item (.row (intoDataRow r vals)) { s' with ctx := c2 } d' [call]
        | (.err e, c2) => .item (.err e) { s' with ctx := c2 } d' [call]
        | (.panic m, _) => .panic m [call]
    else
      match drv.wo d r.inputs with
      | (d', some e) => .item (.err (.driver e)) s' d' [⟨.writeOnly, r.inputs, .fail e⟩]
      | (d', none) => .item (.row (intoDataRow r [])) s' d' [⟨.writeOnly, r.inputs, .ok []⟩]

/-- `DataRowIterator::vars` (a `HashMap` in the code; here in `flatten`'s scan order) -/
def RowIt.vars (s : RowIt) : List (String × Int64) := s.ctx.vars.flatten

/-- the zero-sized `static_test::Driver`: always answers with no outputs -/
def staticDriver : Driver Unit :=
  { rw := fun _ _ => ((), .ok []), wo := Driver.defaultWo (fun _ _ => ((), .ok [])) }

inductive StaticCtor where
  | ok (s : RowIt)
  | notStatic (reads : List Nat)
  | panic (site : String)

/-- `TestCase::try_iter_static` -/
def tryIterStatic (tc : TestCase) (rng : Rng) : StaticCtor :=
  if !tc.reads.isEmpty then .notStatic tc.reads
  else match tryNew tc staticDriver () rng with
    | .ok s _ _ => .ok s
    | .err _ _ _ => .panic "There shouldn't be any possible errors here"
    | .panic m => .panic m

end Dtr
