import Dtr.Model.Parser
/-!
# Evaluation  (src/expr.rs, src/eval_context.rs)
-/
namespace Dtr

/-- The random number generator as an external component with a recorded contract: the value it
delivers is a function `f` of the sequence of bounds requested since the last (re)seed, `hist`.
`resetRandom` re-seeds, i.e. empties `hist`.  (rand's `StdRng` + `gen_range` behave like this:
the generator state is a function of the seed and of what was sampled since seeding.) -/
structure Rng where
  f : List Int64 → Int64
  hist : List Int64 := []
  /-- ghost: number of values drawn since the context was created -/
  total : Nat := 0

instance : Inhabited Rng := ⟨{ f := fun _ => 0 }⟩

def Rng.draw (r : Rng) (bound : Int64) : Int64 × Rng :=
  (r.f (r.hist ++ [bound]), { r with hist := r.hist ++ [bound], total := r.total + 1 })

def Rng.reset (r : Rng) : Rng := { r with hist := [] }

/-- `EvalContext` -/
structure Ctx where
  vars : FMap Int64 := {}
  alt : FMap Int64 := {}
  /-- the `outputs` map, as the list it was collected from (on duplicate names the last wins) -/
  outs : List (String × OutVal) := []
  rng : Rng
  deriving Inhabited

namespace Ctx
def pushFrame (c : Ctx) : Ctx := { c with vars := c.vars.pushFrame }
def popFrame (c : Ctx) : Ctx := { c with vars := c.vars.popFrame }
def set (c : Ctx) (k : String) (v : Int64) : Ctx := { c with vars := c.vars.set k v }
def outOf (c : Ctx) (k : String) : Option OutVal := (c.outs.reverse.find? (fun e => e.1 == k)).map (·.2)
/-- `EvalContext::get`: variables first, then outputs -/
def get (c : Ctx) (k : String) : Option OutVal :=
  match c.vars.get k with
  | some n => some (.val n)
  | none => c.outOf k
def setOutputs (c : Ctx) (outs : List (String × OutVal)) : Ctx := { c with outs := outs }
def resetRandom (c : Ctx) : Ctx := { c with rng := c.rng.reset }
def swapVars (c : Ctx) : Ctx := { c with vars := c.alt, alt := c.vars }
end Ctx

/-- `ExprErrorKind` -/
inductive ExprErr where
  | unexpectedValue (name : String) (v : OutVal)
  | unassigned (name : String)
  | divZero
  | emptyRange (n : Int64)
  | notImplemented
  deriving DecidableEq, Repr, Inhabited

def b2i (b : Bool) : Int64 := if b then 1 else 0

/-- `BinOp::eval`; `none` is `DivisionByZero` -/
def BinOp.eval (o : BinOp) (l r : Int64) : Option Int64 :=
  match o with
  | .eq => some (b2i (l == r))
  | .ne => some (b2i (l != r))
  | .gt => some (b2i (decide (l > r)))
  | .lt => some (b2i (decide (l < r)))
  | .ge => some (b2i (decide (l ≥ r)))
  | .le => some (b2i (decide (l ≤ r)))
  | .or => some (l ||| r)
  | .xor => some (l ^^^ r)
  | .and => some (l &&& r)
  | .shl => some (l <<< r)
  | .shr => some (l >>> r)
  | .add => some (l + r)
  | .sub => some (l - r)
  | .mul => some (l * r)
  | .div => if r = 0 then none else some (l / r)
  | .rem => if r = 0 then none else some (l % r)

/-- `UnaryOp::eval` -/
def UnOp.eval (o : UnOp) (v : Int64) : Int64 :=
  match o with
  | .neg => -v
  | .lnot => b2i (v == 0)
  | .bnot => ~~~v

abbrev EvRes := Res ExprErr (Int64 × Ctx)

/-- `Expr::eval` over an arbitrary name lookup `get` (the `EvalContext::get` of the moment) and the
generator, which is the only thing an evaluation changes (it sits behind a `RefCell`). -/
def evalG (get : String → Option OutVal) : Expr → Rng → Res ExprErr (Int64 × Rng)
  | .num n, g => .ok (n, g)
  | .var name, g =>
    match get name with
    | none => .err (.unassigned name)
    | some (.val n) => .ok (n, g)
    | some v => .err (.unexpectedValue name v)
  | .un o e, g =>
    match evalG get e g with
    | .ok (v, g') => .ok (o.eval v, g')
    | .err e => .err e
    | .panic s => .panic s
  | .bin o l r, g =>
    match evalG get l g with
    | .ok (a, g1) =>
      match evalG get r g1 with
      | .ok (b, g2) =>
        match o.eval a b with
        | some v => .ok (v, g2)
        | none => .err .divZero
      | .err e => .err e
      | .panic s => .panic s
    | .err e => .err e
    | .panic s => .panic s
  | .call name args, g =>
    match funcArity name with
    | none => .panic "Function not found. This should have been found at parse time"
    | some ar =>
      if ar != args.length then .panic "wrong number of arguments. This should have been found at parse time"
      else if name = "random" then
        match args with
        | [a] =>
          match evalG get a g with
          | .ok (max, g1) =>
            if max ≤ 1 then .err (.emptyRange max)
            else .ok (g1.draw max)
          | .err e => .err e
          | .panic s => .panic s
        | _ => .panic "args index"
      else if name = "ite" then
        match args with
        | [t, a, b] =>
          match evalG get t g with
          | .ok (v, g1) => if v = 0 then evalG get b g1 else evalG get a g1
          | .err e => .err e
          | .panic s => .panic s
        | _ => .panic "args index"
      else .err .notImplemented

/-- `Expr::eval` in an `EvalContext` -/
def evalE (e : Expr) (c : Ctx) : EvRes :=
  match evalG c.get e c.rng with
  | .ok (v, g) => .ok (v, { c with rng := g })
  | .err e => .err e
  | .panic s => .panic s

/-- bit `n` of `v`, as the entry `bits(k, e)` produces it -/
def bitOf (v : Int64) (n : Nat) : REntry := .num ((v >>> Int64.ofNat n) &&& 1)

/-- `DataEntry::eval` -/
def evalEntry : DataEntry → Ctx → Res ExprErr (List REntry × Ctx)
  | .num n, c => .ok ([.num n], c)
  | .x, c => .ok ([.x], c)
  | .z, c => .ok ([.z], c)
  | .c, c => .ok ([.c], c)
  | .expr e, c =>
    match evalE e c with
    | .ok (v, c') => .ok ([.num v], c')
    | .err e => .err e
    | .panic s => .panic s
  | .bits k e, c =>
    match evalE e c with
    | .ok (v, c') => .ok ((List.range k).reverse.map (bitOf v), c')
    | .err e => .err e
    | .panic s => .panic s

/-- the `for entry in data { entries.extend(entry.eval(ctx)?) }` of `next_with_context` -/
def evalRow : List DataEntry → Ctx → Res ExprErr (List REntry × Ctx)
  | [], c => .ok ([], c)
  | d :: ds, c =>
    match evalEntry d c with
    | .ok (es, c1) =>
      match evalRow ds c1 with
      | .ok (rest, c2) => .ok (es ++ rest, c2)
      | .err e => .err e
      | .panic s => .panic s
    | .err e => .err e
    | .panic s => .panic s

end Dtr
