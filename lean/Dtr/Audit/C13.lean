import Dtr.Props.C13
#print axioms Dtr.C13_ctor_error_passthrough
#print axioms Dtr.C13_row_error_passthrough
#print axioms Dtr.C13_driver_errors_are_the_drivers
#print axioms Dtr.C13_wrong_length
#print axioms Dtr.C13_wrong_order
#print axioms Dtr.C13_no_misattribution
#print axioms Dtr.C13_prefix_determinacy
