import Dtr.Props.C05
#print axioms Dtr.C05_drain_eq_spec
#print axioms Dtr.C05_drain_single
#print axioms Dtr.C05_count
#print axioms Dtr.C05_triple_columns
#print axioms Dtr.C05_no_clock
#print axioms Dtr.C05_split
#print axioms Dtr.C05_expected_not_expanded
#print axioms Dtr.C05_get_row_pops
#print axioms Dtr.C05_closed_form
#print axioms Dtr.C05_expansion_survives_errors
#print axioms Dtr.C05_expanded_x_expected_x
#print axioms Dtr.C05_expansion_remembers_x
