import Dtr.Props.C17
#print axioms Dtr.C17_random
#print axioms Dtr.C17_range
#print axioms Dtr.C17_empty_range
#print axioms Dtr.C17_history_grows
#print axioms Dtr.C17_ite_no_draw
#print axioms Dtr.C17_reset_replays
#print axioms Dtr.C17_reset_stmt
#print axioms Dtr.C17_as_literal
#print axioms Dtr.C17_as_if_literals
#print axioms Dtr.C17_failed_eval_history
#print axioms Dtr.C17_empty_range_no_draw
