import Dtr.Props.C01
#print axioms Dtr.C01_machine_refines_bigstep
#print axioms Dtr.C01_loop_refines
#print axioms Dtr.C01_while_refines
#print axioms Dtr.C01_next_yields_exactly
#print axioms Dtr.C01_loop_nonpositive
#print axioms Dtr.C01_loop_entry
#print axioms Dtr.C01_bits_msb_first
#print axioms Dtr.C01_entry_single
#print axioms Dtr.C01_framedmap_refines_scopes
#print axioms Dtr.C01_scopes_restored
#print axioms Dtr.C01_for_loop
#print axioms Dtr.C01_loop_is_for
#print axioms Dtr.ForRun_count
#print axioms Dtr.C01_error_refines
#print axioms Dtr.C01_next_yields_then_error
