import Dtr.Props.C03
#print axioms Dtr.C03_check_table
#print axioms Dtr.C03_is_checked
#print axioms Dtr.C03_failing_outputs
#print axioms Dtr.C03_failing_outputs_sublist
#print axioms Dtr.C03_attribution
#print axioms Dtr.C03_row_elementwise
