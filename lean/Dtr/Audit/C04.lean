import Dtr.Props.C04
#print axioms Dtr.C04_lookup_order
#print axioms Dtr.C04_var_eval
#print axioms Dtr.C04_outs_after_ctor
#print axioms Dtr.C04_outs_invariant
#print axioms Dtr.C04_missing_output_ctor
#print axioms Dtr.C04_outs_behind_error
#print axioms Dtr.C04_outs_behind_eval_error
