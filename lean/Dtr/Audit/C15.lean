import Dtr.Props.C15
#print axioms Dtr.C15_static_iff_reads
#print axioms Dtr.C15_static_ctor_ok
#print axioms Dtr.C15_ctor_sim
#print axioms Dtr.C15_next_none
#print axioms Dtr.C15_next_eval_error
#print axioms Dtr.C15_next_row
#print axioms Dtr.C15_static_eq_dynamic
#print axioms Dtr.C15_model_is_a_function
#print axioms Dtr.C15_lock_step_behind_error
#print axioms Dtr.rngAfter_mono
#print axioms Dtr.C15_static_eq_dynamic_continued
