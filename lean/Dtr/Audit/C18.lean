import Dtr.Props.C18
#print axioms Dtr.C18_vars_is_flatten
#print axioms Dtr.C18_flatten_innermost
#print axioms Dtr.C18_io_keeps_variables
#print axioms Dtr.C18_vars_after_row
#print axioms Dtr.C18_expansion_keeps_context
#print axioms Dtr.C18_vars_behind_io_error
#print axioms Dtr.C18_eval_error_keeps_variables
