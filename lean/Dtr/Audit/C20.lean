import Dtr.Props.C20
#print axioms Dtr.C20_blank_insert
#print axioms Dtr.C20_comment_insert
#print axioms Dtr.C20_insert_keeps_texts
#print axioms Dtr.C20_radix
#print axioms Dtr.C20_radix_leading_zero
#print axioms Dtr.C20_radix_case
#print axioms Dtr.C20_parse_factors
#print axioms Dtr.C20_bind_ignores_spans
#print axioms Dtr.C20_blank_line_insert
#print axioms Dtr.C20_bind_up_to_lines
#print axioms Dtr.C20_run_ignores_lines
#print axioms Dtr.C20_header_blanks
#print axioms Dtr.C20_token_spellings_from_source
