import Dtr.Props.C02
#print axioms Dtr.C02_ctor_one_call
#print axioms Dtr.C02_ctor_defaults
#print axioms Dtr.C02_next_calls
#print axioms Dtr.C02_call_kind
#print axioms Dtr.C02_quiescent_after_none
#print axioms Dtr.C02_default_write_input
#print axioms Dtr.C02_next_calls_continued
#print axioms Dtr.C02_continued_run
#print axioms Dtr.C02_quiescent_after_none_continued
