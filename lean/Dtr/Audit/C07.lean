import Dtr.Props.C07
#print axioms Dtr.C07_mask
#print axioms Dtr.C07_mask_range
#print axioms Dtr.C07_mask64
#print axioms Dtr.C07_input_site
#print axioms Dtr.C07_expected_site
#print axioms Dtr.C07_vectors
#print axioms Dtr.C07_virtual_64
