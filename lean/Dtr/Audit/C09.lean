import Dtr.Props.C09
#print axioms Dtr.C09_body_no_panic
#print axioms Dtr.C09_no_panic
#print axioms Dtr.C09_header_total
