import Dtr.Props.C09
#print axioms Dtr.C09_body_no_panic
#print axioms Dtr.C09_no_panic
#print axioms Dtr.C09_header_total
#print axioms Dtr.C09_terminates
#print axioms Dtr.C09_total
#print axioms Dtr.C09_error_spans_valid
#print axioms Dtr.C09_parsed_spans_valid
