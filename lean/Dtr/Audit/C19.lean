import Dtr.Props.C19
#print axioms Dtr.C19_row_line_tokens
#print axioms Dtr.C19_row_line_unfold
#print axioms Dtr.C19_header_line
#print axioms Dtr.C19_expansion_keeps_line
#print axioms Dtr.C19_yield_keeps_line
#print axioms Dtr.C19_data_row_line
#print axioms Dtr.C19_tokens_count_newlines
#print axioms Dtr.C19_source_line
