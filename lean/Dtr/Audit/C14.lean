import Dtr.Props.C14
#print axioms Dtr.C14_virtual_value
#print axioms Dtr.C14_blind_to_variables
#print axioms Dtr.C14_spare_store_invariant
#print axioms Dtr.C14_zx_is_error
#print axioms Dtr.C14_index_is_virtual
#print axioms Dtr.C14_spare_store_behind_error
