import Dtr.Props.C16
#print axioms Dtr.C16_no_panic
#print axioms Dtr.C16_bidirectional_only_if
#print axioms Dtr.C16_assemble
#print axioms Dtr.C16_load_test
#print axioms Dtr.C16_load_by_name
#print axioms Dtr.C16_text_ignores_comments
#print axioms Dtr.C16_signals_kept
#print axioms Dtr.C16_bidirectional_iff
#print axioms Dtr.C16_bidir_names
#print axioms Dtr.C16_errors
#print axioms Dtr.C16_attrib_own_entry
#print axioms Dtr.C16_text_ignores_empty_nodes
#print axioms Dtr.C16_missing_iff
