import Dtr.Props.C11
#print axioms Dtr.C11_bind_iff
#print axioms Dtr.C11_never_panics
