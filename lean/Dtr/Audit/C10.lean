import Dtr.Props.C10
#print axioms Dtr.C10_parsed_wf
#print axioms Dtr.C10_accepted_wf
#print axioms Dtr.C10_ctor_no_panic
#print axioms Dtr.C10_next_no_panic
#print axioms Dtr.C10_run_no_panic
#print axioms Dtr.C10_static_no_panic
#print axioms Dtr.C10_accepted_never_panics
#print axioms Dtr.C10_named_conditions
#print axioms Dtr.C10_eval_error_is_item
#print axioms Dtr.C10_next_no_panic_any_item
#print axioms Dtr.C10_run_no_panic_continued
#print axioms Dtr.C10_continued_same_items
#print axioms Dtr.C10_failed_statement_is_skipped
#print axioms Dtr.C10_failed_while_is_retried
#print axioms Dtr.C10_eval_error_keeps_rows
#print axioms Dtr.C10_accepted_never_panics_continued
#print axioms Dtr.rngAfter_of_ok
