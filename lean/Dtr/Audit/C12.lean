import Dtr.Props.C12
import Dtr.Props.C10
#print axioms Dtr.C12_accepted_shape
#print axioms Dtr.C12_block_terminated
#print axioms Dtr.C12_truncated_block_rejected
#print axioms Dtr.C12_big_literal_rejected
#print axioms Dtr.C12_function_table
#print axioms Dtr.C12_header_names_distinct
#print axioms Dtr.C12_header_needs_newline
#print axioms Dtr.C12_calls_and_declarations
#print axioms Dtr.C12_accepted_in_grammar
#print axioms Dtr.C12_block_in_grammar
#print axioms Dtr.C12_function_table_from_source
