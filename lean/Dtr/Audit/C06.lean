import Dtr.Props.C06
#print axioms Dtr.C06_input_binding
#print axioms Dtr.C06_expected_binding
#print axioms Dtr.C06_vectors_complete
#print axioms Dtr.C06_defaults
#print axioms Dtr.C06_changed_sound
#print axioms Dtr.C06_first_row_all_changed
#print axioms Dtr.C06_prev_is_last_row
#print axioms Dtr.C06_prev_behind_every_item
