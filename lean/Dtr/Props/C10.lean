import Dtr.Proofs.RowInv
import Dtr.Proofs.AfterError
import Dtr.Proofs.ParserWF
import Dtr.Props.C12
import Dtr.Props.C11
import Dtr.Props.C15
/-!
# C10 — running an accepted test never panics; runtime problems are error items

`accepted ⇒ well-formed ⇒ no panic`, for every driver history:

* `C10_parsed_wf`, `C10_accepted_wf`: whatever `ParsedTestCase::parse` and `with_signals` accept is a
  well-formed test (`TestCase.WF`): index ranges, defaults, row widths, function table and arity,
  every `C` in an input column, well-formed virtual expressions;
* `C10_ctor_no_panic`, `C10_next_no_panic`, `C10_run_no_panic`, `C10_static_no_panic`: on a well-formed
  test the constructor, every `next()` — whatever the driver returns, including `Z`/`X`, errors and
  answers of any shape — and `try_iter_static` have no `.panic` outcome (the model has one for every
  `unwrap`/`expect`/`unreachable!`/index of the code);
* `C10_named_conditions`: division by zero, an unassigned variable, an empty `random` range and an
  unimplemented function are `err` results of evaluation, i.e. error items.

`C10_run_no_panic` is the caller-stops-at-the-first-error-item reading: the invariant is re-established
after every row item and after the end.  `C10_run_no_panic_continued` drops that restriction: with the
state the code is really left in behind an error item (`Model/AfterError`: `RowIt.nextC`), the invariant
holds behind *every* item, so a caller may go on calling `next()` after any error item — evaluation
error, driver error, malformed answer — for ever, without a panic.  Termination is not claimed: a
`while` that never yields makes `next()` loop in code and model alike (`fuel` in the model).
-/
namespace Dtr

/-- **What the parser accepts** (second, cursor-free pass over the parser): the statements are
well-formed relative to the recorded `C` columns, and every declared virtual expression is well-formed. -/
theorem C10_parsed_wf (s : Str) (p : Parsed) (h : parseTest s = .ok p) :
    p.signals.Nodup ∧
    Stmts.SWF p.signals.length (recB p.signals (p.expIn.map (fun e => (e.1, 0)))) p.stmts ∧
    (∀ v ∈ p.virt, v.2.2.WF) ∧ (p.virt.map (·.1)).Nodup := by
  unfold parseTest at h
  cases hh : parseHeaderAll s with
  | err spans => simp [hh] at h
  | ok names line off rest =>
    have hnd := C12_header_names_distinct s names line off rest hh
    simp only [hh] at h
    unfold parseBody at h
    split at h
    · next b st hp =>
      simp only [ParseOut.ok.injEq] at h
      subst h
      have hb := (bwf (names.map (·.1)) _).block (fun _ => True) (fun _ _ _ _ => trivial) none []
        _ ⟨trivial, trivial⟩ b st hp
      obtain ⟨hle, _, hsb⟩ := hb
      refine ⟨hnd, ?_, ?_, ?_⟩
      · simp only
        refine Stmts.SWF_mono _ _ _ ?_ b hsb
        intro j hj
        unfold recB at hj ⊢
        cases hx : (names.map (·.1))[j]? with
        | none => simp [hx] at hj
        | some n =>
          simp only [hx, List.any_eq_true, beq_iff_eq] at hj ⊢
          obtain ⟨r, hr, hrn⟩ := hj
          exact ⟨(r.1, 0), by simp only [List.mem_map]; exact ⟨(r.1, _), ⟨r, hr, rfl⟩, rfl⟩, hrn⟩
      · intro v hv
        simp only [List.mem_map] at hv
        obtain ⟨x, hx, rfl⟩ := hv
        rcases hle.2.1 x hx with h0 | h0
        · simp at h0
        · exact h0
      · have := hle.2.2 (by simp)
        simpa [List.map_map, Function.comp_def] using this
    · cases h
    · cases h
    · cases h

/-- **C12, from the same pass**: in an accepted program every function call names a function of the
table with its number of arguments, in every expression wherever it stands (rows, bounds,
conditions, `let`s, declarations), and no name is declared twice. -/
theorem C12_calls_and_declarations (s : Str) (p : Parsed) (h : parseTest s = .ok p) :
    Stmts.SWF p.signals.length (fun _ => true) p.stmts ∧ (∀ v ∈ p.virt, v.2.2.WF) ∧ (p.virt.map (·.1)).Nodup := by
  obtain ⟨_, hs, hv, hn⟩ := C10_parsed_wf s p h
  exact ⟨Stmts.SWF_mono _ _ _ (fun _ _ => rfl) p.stmts hs, hv, hn⟩

theorem buildReads_lt (signals : List Signal) : ∀ (names : List String) (is : List Nat),
    buildReads signals names = .ok is → ∀ r ∈ is, r < signals.length
  | [], is, h, r, hr => by simp [buildReads] at h; subst h; simp at hr
  | n :: rest, is, h, r, hr => by
    simp only [buildReads] at h
    cases hp : posOf (fun s => s.name == n && s.isOutput) signals with
    | none => simp [hp] at h
    | some i =>
      simp only [hp] at h
      cases hb : buildReads signals rest with
      | err e => simp [hb] at h
      | panic m => simp [hb] at h
      | ok is' =>
        simp only [hb, Res.ok.injEq] at h
        subst h
        simp only [List.mem_cons] at hr
        rcases hr with rfl | hr
        · exact posOf_lt _ _ _ hp
        · exact buildReads_lt signals rest is' hb r hr

theorem idxOf_col (hdr : List String) (name : String) (sig col sig' : Nat) (h : idxOf hdr name sig = .entry col sig') :
    col < hdr.length := by
  unfold idxOf at h
  cases hp : posOf (fun n => n == name) hdr with
  | none => simp [hp] at h
  | some c =>
    simp only [hp, EIdx.entry.injEq] at h
    rw [← h.1]; exact posOf_lt _ _ _ hp

/-- **What binding accepts**: a parsed test that binds to a signal list (whose own virtual signals,
if the caller supplied any, are well-formed) is a well-formed test. -/
theorem C10_accepted_wf (s : Str) (p : Parsed) (sigs : List Signal) (tc : TestCase)
    (hp : parseTest s = .ok p) (hb : withSignals p sigs = .ok tc)
    (hsv : ∀ sg ∈ sigs, ∀ e, sg.typ = .virt e → e.WF) : tc.WF p.signals.length := by
  obtain ⟨hnd, hswf, hvirt, _⟩ := C10_parsed_wf s p hp
  unfold withSignals at hb
  cases hd : checkDuplicates (p.virt.map (·.1)) sigs [] with
  | some e => simp [hd] at hb
  | none =>
    simp only [hd] at hb
    generalize hsig : sigs ++ p.virt.map (fun (x : String × (Nat × Nat) × Expr) => match x with
      | (n, _, e) => ({ name := n, bits := 64, typ := .virt e } : Signal)) = signals at hb
    cases hm : missingColumns p.signals ((buildIndices p.signals 0 signals).1 ++ (buildIndices p.signals 0 signals).2) with
    | cons a as => simp [hm] at hb
    | nil =>
      simp only [hm] at hb
      cases hbe : badExpectedInput signals (p.expIn.map (·.1)) with
      | some n => simp [hbe] at hb
      | none =>
        simp only [hbe] at hb
        cases hr : buildReads signals (p.reads.map (·.1)) with
        | err e => simp [hr] at hb
        | panic m => simp [hr] at hb
        | ok reads =>
          simp only [hr, Res.ok.injEq] at hb
          subst hb
          have hin := (C06_input_binding p.signals 0 signals).2
          have hex := (C06_expected_binding p.signals 0 signals).2
          refine ⟨?_, ?_, ?_, ?_, ?_, ?_, ?_⟩
          · intro i hi
            obtain ⟨sg, h1, _, h3, _⟩ := hin i hi
            refine ⟨sg, by simpa using h1, ?_⟩
            unfold Signal.isInput at h3
            unfold Signal.default?
            cases ht : sg.typ <;> simp [ht] at h3 ⊢
          · intro i hi col sig he
            obtain ⟨sg, _, _, _, h4⟩ := hin i hi
            rw [he] at h4
            exact idxOf_col _ _ _ _ _ h4.symm
          · intro i hi
            obtain ⟨sg, h1, _, _, _⟩ := hex i hi
            exact ⟨sg, by simpa using h1⟩
          · intro i hi col sig he
            obtain ⟨sg, _, _, _, h4⟩ := hex i hi
            rw [he] at h4
            exact idxOf_col _ _ _ _ _ h4.symm
          · exact buildReads_lt signals _ reads hr
          · intro sg hsg e he
            rw [← hsig] at hsg
            simp only [List.mem_append, List.mem_map] at hsg
            rcases hsg with hsg | ⟨v, hv, rfl⟩
            · exact hsv sg hsg e he
            · obtain ⟨n, sp, e'⟩ := v
              simp only [SigType.virt.injEq] at he
              subst he
              exact hvirt _ hv
          · -- every recorded `C` column is an input column of the bound test
            refine Stmts.SWF_mono _ _ _ ?_ p.stmts hswf
            intro j hj
            unfold recB at hj
            cases hx : p.signals[j]? with
            | none => simp [hx] at hj
            | some n =>
              simp only [hx, List.any_eq_true, beq_iff_eq, List.mem_map] at hj
              obtain ⟨r, ⟨e, he, rfl⟩, hrn⟩ := hj
              simp only at hrn
              -- the name is that of an input-capable signal
              have hfind := hbe
              unfold badExpectedInput at hfind
              rw [List.find?_eq_none] at hfind
              have hname : signals.any (fun sg => sg.name == e.1 && sg.isInput) = true := by
                have := hfind e.1 (by simp only [List.mem_map]; exact ⟨e, he, rfl⟩)
                simpa using this
              simp only [List.any_eq_true, Bool.and_eq_true, beq_iff_eq] at hname
              obtain ⟨sg, hsg, hsn, hsi⟩ := hname
              obtain ⟨i, hi⟩ := List.getElem?_of_mem hsg
              have hmem := input_index_mem p.signals 0 signals i sg hi hsi
              have hpos := posOf_nodup p.signals hnd j n hx
              have hidx : idxOf p.signals sg.name (0 + i) = .entry j (0 + i) := by
                unfold idxOf; rw [hsn, hrn, hpos]
              rw [hidx] at hmem
              simp only [entryIsInput, List.any_eq_true]
              exact ⟨_, hmem, by simp [EIdx.indexes]⟩

end Dtr

namespace Dtr

/-- **The constructor never panics** on a well-formed test, whatever the driver answers, and what
it constructs satisfies the run invariant. -/
theorem C10_ctor_no_panic {δ : Type} (tc : TestCase) (w : Nat) (hw : tc.WF w) (drv : Driver δ) (d : δ) (rng : Rng) :
    (∀ m, tryNew tc drv d rng ≠ .panic m) ∧
    ∀ s d' log, tryNew tc drv d rng = .ok s d' log → RInv tc w s := by
  have h := ctor_inv tc w hw drv d rng
  constructor
  · intro m hm; rw [hm] at h; exact h
  · intro s d' log hs; rw [hs] at h; exact h

/-- **One `next()` never panics**: from any state satisfying the invariant, for every driver and
every answer it gives (values, `Z`, `X`, errors, answers of the wrong shape), `next` returns a row,
an error item or the end — and after a row or the end the invariant holds again. -/
theorem C10_next_no_panic {δ : Type} (tc : TestCase) (w : Nat) (hw : tc.WF w) (drv : Driver δ) (fuel : Nat)
    (s : RowIt) (d : δ) (h : RInv tc w s) :
    (∀ m calls, RowIt.next tc drv fuel s d ≠ .panic m calls) ∧
    (∀ r s' d' calls, RowIt.next tc drv fuel s d = .item (.row r) s' d' calls → RInv tc w s') ∧
    (∀ s' d', RowIt.next tc drv fuel s d = .none s' d' → RInv tc w s') := by
  have hn := next_inv tc w hw drv fuel s d h
  refine ⟨?_, ?_, ?_⟩
  · intro m calls hm; rw [hm] at hn; exact hn
  · intro r s' d' calls hr; rw [hr] at hn; exact hn
  · intro s' d' hr; rw [hr] at hn; exact hn

/-- a run of `n` calls of `next()`, continued as long as rows come (and past the end), has no panic -/
def NoPanicRun {δ : Type} (tc : TestCase) (drv : Driver δ) (fuel : Nat) : Nat → RowIt → δ → Prop
  | 0, _, _ => True
  | n+1, s, d =>
    match RowIt.next tc drv fuel s d with
    | .panic _ _ => False
    | .item (.row _) s' d' _ => NoPanicRun tc drv fuel n s' d'
    | .none s' d' => NoPanicRun tc drv fuel n s' d'
    | _ => True

/-- **A whole run never panics**: for every number of `next()` calls, every driver and every history. -/
theorem C10_run_no_panic {δ : Type} (tc : TestCase) (w : Nat) (hw : tc.WF w) (drv : Driver δ) (fuel : Nat) :
    ∀ (n : Nat) (s : RowIt) (d : δ), RInv tc w s → NoPanicRun tc drv fuel n s d
  | 0, _, _, _ => trivial
  | n+1, s, d, h => by
    have hn := next_inv tc w hw drv fuel s d h
    simp only [NoPanicRun]
    cases hx : RowIt.next tc drv fuel s d with
    | panic m c => rw [hx] at hn; exact hn
    | fuel => trivial
    | none s' d' => rw [hx] at hn; exact C10_run_no_panic tc w hw drv fuel n s' d' hn
    | item i s' d' c =>
      cases i with
      | err e => trivial
      | row r => rw [hx] at hn; exact C10_run_no_panic tc w hw drv fuel n s' d' hn

/-- a run of `n` calls of `next()` that goes on behind *every* item — error items included — has no panic -/
def NoPanicRunC {δ : Type} (tc : TestCase) (drv : Driver δ) (fuel : Nat) : Nat → RowIt → δ → Prop
  | 0, _, _ => True
  | n+1, s, d =>
    match RowIt.nextC tc drv fuel s d with
    | .panic _ _ => False
    | .item _ s' d' _ => NoPanicRunC tc drv fuel n s' d'
    | .none s' d' => NoPanicRunC tc drv fuel n s' d'
    | .fuel => True

/-- **One `next()` never panics and re-establishes the invariant behind whatever it returns** — a row, the
end, or an error item of any kind (the state behind an error item is the one the code is left in). -/
theorem C10_next_no_panic_any_item {δ : Type} (tc : TestCase) (w : Nat) (hw : tc.WF w) (drv : Driver δ) (fuel : Nat)
    (s : RowIt) (d : δ) (h : RInv tc w s) :
    (∀ m calls, RowIt.nextC tc drv fuel s d ≠ .panic m calls) ∧
    (∀ i s' d' calls, RowIt.nextC tc drv fuel s d = .item i s' d' calls → RInv tc w s') ∧
    (∀ s' d', RowIt.nextC tc drv fuel s d = .none s' d' → RInv tc w s') := by
  have hn := nextC_inv tc w hw drv fuel s d h
  refine ⟨?_, ?_, ?_⟩
  · intro m calls hm; rw [hm] at hn; exact hn
  · intro i s' d' calls hr; rw [hr] at hn; exact hn
  · intro s' d' hr; rw [hr] at hn; exact hn

/-- **A run that is continued behind error items never panics**: for every number of `next()` calls, every
driver and every history, whatever items — rows or errors — come in between. -/
theorem C10_run_no_panic_continued {δ : Type} (tc : TestCase) (w : Nat) (hw : tc.WF w) (drv : Driver δ) (fuel : Nat) :
    ∀ (n : Nat) (s : RowIt) (d : δ), RInv tc w s → NoPanicRunC tc drv fuel n s d
  | 0, _, _, _ => trivial
  | n+1, s, d, h => by
    have hn := nextC_inv tc w hw drv fuel s d h
    simp only [NoPanicRunC]
    cases hx : RowIt.nextC tc drv fuel s d with
    | panic m c => rw [hx] at hn; exact hn
    | fuel => trivial
    | none s' d' => rw [hx] at hn; exact C10_run_no_panic_continued tc w hw drv fuel n s' d' hn
    | item i s' d' c => rw [hx] at hn; exact C10_run_no_panic_continued tc w hw drv fuel n s' d' hn

/-- the continued run shows the caller and the device what `next` shows them: same item, same driver
state, same calls; and where the item is a row or the end, the same iterator state -/
theorem C10_continued_same_items {δ : Type} (tc : TestCase) (drv : Driver δ) (fuel : Nat) (s : RowIt) (d : δ) :
    (RowIt.nextC tc drv fuel s d).obs = (RowIt.next tc drv fuel s d).obs ∧
    (∀ r s' d' calls, RowIt.next tc drv fuel s d = .item (.row r) s' d' calls →
      RowIt.nextC tc drv fuel s d = .item (.row r) s' d' calls) ∧
    (∀ s' d', RowIt.next tc drv fuel s d = .none s' d' → RowIt.nextC tc drv fuel s d = .none s' d') :=
  ⟨nextC_obs tc drv fuel s d, (nextC_eq_next_of_row tc drv fuel s d).1, (nextC_eq_next_of_row tc drv fuel s d).2⟩

/-- **What an evaluation error leaves behind**: a `let`, a data row or a loop header that cannot be evaluated is
skipped — the statement iterator stands behind it, in the same block, no scope opened —, the variables are
untouched, and the row stack and the remembered previous row are as before. -/
theorem C10_failed_statement_is_skipped (s : Stmt) (rest : List Stmt) (c : Ctx) (e : ExprErr)
    (h : step (.mk (s :: rest) .iterate) c = .err e) :
    (stepPost (.mk (s :: rest) .iterate) c).1 = .mk rest .iterate ∧
    (stepPost (.mk (s :: rest) .iterate) c).2.vars = c.vars ∧
    (stepPost (.mk (s :: rest) .iterate) c).2.outs = c.outs := by
  cases s with
  | letS name ex => exact ⟨rfl, rfl, rfl⟩
  | row data line => exact ⟨rfl, (rowAfter_fields data c).1, (rowAfter_fields data c).2.2⟩
  | loop var max body => exact ⟨rfl, rfl, rfl⟩
  | resetRandom => simp [step] at h
  | «while» cond body => simp [step] at h

/-- a `while` whose condition cannot be evaluated stays where it is: the condition is evaluated again by the
next call -/
theorem C10_failed_while_is_retried (rest : List Stmt) (ws : WhileState) (c : Ctx) :
    (stepPost (.mk rest (.startWhile ws)) c).1 = .mk rest (.startWhile ws) := rfl

/-- behind an evaluation error only the statement iterator and the generator have moved -/
theorem C10_eval_error_keeps_rows (fuel : Nat) (s : RowIt) :
    (s.afterEvalErr fuel).cache = s.cache ∧ (s.afterEvalErr fuel).prev = s.prev ∧
    (s.afterEvalErr fuel).outIdx = s.outIdx ∧ (s.afterEvalErr fuel).numOut = s.numOut := ⟨rfl, rfl, rfl, rfl⟩

/-- **End to end, continued**: whatever `ParsedTestCase::parse` and `with_signals` accept can be constructed and
iterated for any number of steps against any driver, going on behind every error item, without a panic. -/
theorem C10_accepted_never_panics_continued {δ : Type} (src : Str) (p : Parsed) (sigs : List Signal) (tc : TestCase)
    (hp : parseTest src = .ok p) (hb : withSignals p sigs = .ok tc)
    (hsv : ∀ sg ∈ sigs, ∀ e, sg.typ = .virt e → e.WF)
    (drv : Driver δ) (d : δ) (rng : Rng) (fuel : Nat) :
    ∀ s d' log, tryNew tc drv d rng = .ok s d' log → ∀ n, NoPanicRunC tc drv fuel n s d' := by
  have hw := C10_accepted_wf src p sigs tc hp hb hsv
  have hc := C10_ctor_no_panic tc _ hw drv d rng
  intro s d' log hs n
  exact C10_run_no_panic_continued tc _ hw drv fuel n s d' (hc.2 s d' log hs)

/-- **`try_iter_static` never panics** on a well-formed test: its `expect("There shouldn't be any
possible errors here")` is justified. -/
theorem C10_static_no_panic (tc : TestCase) (w : Nat) (hw : tc.WF w) (rng : Rng) (m : String) :
    tryIterStatic tc rng ≠ .panic m := by
  unfold tryIterStatic
  split
  · simp
  · next hr =>
    have hre : tc.reads = [] := by simpa using hr
    have hc := ctor_inv tc w hw staticDriver () rng
    cases hx : tryNew tc staticDriver () rng with
    | ok s d log => simp
    | panic m' => rw [hx] at hc; exact hc.elim
    | err e d log =>
      exfalso
      -- the static driver never fails and there is no read to miss
      unfold tryNew at hx
      cases hd : defaultInputs tc with
      | err e' =>
        have : ∀ e'', defaultInputs tc ≠ .err e'' := by
          unfold defaultInputs
          apply mapRes_never_errs
          intro i _ e''
          unfold defaultFor
          split
          · simp
          · split <;> simp
        exact this e' hd
      | panic m' => simp [hd] at hx
      | ok ins =>
        simp only [hd, staticDriver] at hx
        have hb := buildOutIdx_ok tc w hw []
        cases hbo : buildOutIdx tc [] with
        | ok oi => simp [hbo] at hx
        | panic m' => exact hb.1 m' hbo
        | err e' =>
          unfold buildOutIdx at hbo
          cases hp : mapRes (oidxFor tc []) tc.expIdx with
          | err e2 =>
            have : ∀ e'', mapRes (oidxFor tc []) tc.expIdx ≠ .err e'' := by
              apply mapRes_never_errs
              intro i _ e''
              unfold oidxFor
              split
              · simp
              · split
                · simp
                · split <;> simp
            exact this e2 hp
          | panic m' => simp [hp] at hbo
          | ok ps => simp [hp, hre, mapRes] at hbo

/-- **End to end**: whatever `ParsedTestCase::parse` and `with_signals` accept can be constructed,
iterated for any number of steps against any driver, and iterated statically, without a panic. -/
theorem C10_accepted_never_panics {δ : Type} (src : Str) (p : Parsed) (sigs : List Signal) (tc : TestCase)
    (hp : parseTest src = .ok p) (hb : withSignals p sigs = .ok tc)
    (hsv : ∀ sg ∈ sigs, ∀ e, sg.typ = .virt e → e.WF)
    (drv : Driver δ) (d : δ) (rng : Rng) (fuel : Nat) :
    (∀ m, tryNew tc drv d rng ≠ .panic m) ∧
    (∀ s d' log, tryNew tc drv d rng = .ok s d' log → ∀ n, NoPanicRun tc drv fuel n s d') ∧
    (∀ m, tryIterStatic tc rng ≠ .panic m) ∧
    (∀ s, tryIterStatic tc rng = .ok s → ∀ n, NoPanicRun tc staticDriver fuel n s ()) := by
  have hw := C10_accepted_wf src p sigs tc hp hb hsv
  have hc := C10_ctor_no_panic tc _ hw drv d rng
  refine ⟨hc.1, ?_, fun m => C10_static_no_panic tc _ hw rng m, ?_⟩
  · intro s d' log hs n
    exact C10_run_no_panic tc _ hw drv fuel n s d' (hc.2 s d' log hs)
  · intro s hs n
    unfold tryIterStatic at hs
    split at hs
    · cases hs
    · have hcs := C10_ctor_no_panic tc _ hw staticDriver () rng
      cases hx : tryNew tc staticDriver () rng with
      | ok s' d' log =>
        rw [hx] at hs
        simp only [StaticCtor.ok.injEq] at hs
        subst hs
        exact C10_run_no_panic tc _ hw staticDriver fuel n s' () (hcs.2 s' d' log hx)
      | err e d' log => rw [hx] at hs; cases hs
      | panic m => rw [hx] at hs; cases hs

/-- the same for the static iterator: iterated without a driver for any number of steps, going on behind every error
item, it never panics -/
theorem C10_static_never_panics_continued (src : Str) (p : Parsed) (sigs : List Signal) (tc : TestCase)
    (hp : parseTest src = .ok p) (hb : withSignals p sigs = .ok tc)
    (hsv : ∀ sg ∈ sigs, ∀ e, sg.typ = .virt e → e.WF) (rng : Rng) (fuel : Nat) :
    ∀ s, tryIterStatic tc rng = .ok s → ∀ n, NoPanicRunC tc staticDriver fuel n s () := by
  have hw := C10_accepted_wf src p sigs tc hp hb hsv
  intro s hs n
  unfold tryIterStatic at hs
  split at hs
  · cases hs
  · have hcs := C10_ctor_no_panic tc _ hw staticDriver () rng
    cases hx : tryNew tc staticDriver () rng with
    | ok s' d' log =>
      rw [hx] at hs
      simp only [StaticCtor.ok.injEq] at hs
      subst hs
      exact C10_run_no_panic_continued tc _ hw staticDriver fuel n s' () (hcs.2 s' d' log hx)
    | err e d' log => rw [hx] at hs; cases hs
    | panic m => rw [hx] at hs; cases hs

/-- **The named conditions are error results of evaluation**, never panics: division and remainder
by zero, a name that is neither a variable in scope nor an output, a `Z`/`X` value, an empty
`random` range, a function that is not implemented. -/
theorem C10_named_conditions (get : String → Option OutVal) (g g1 g2 : Rng) (l r a b : Expr) (x : Int64) (name : String) :
    (evalG get l g = .ok (x, g1) → evalG get r g1 = .ok (0, g2) →
      evalG get (.bin .div l r) g = .err .divZero ∧ evalG get (.bin .rem l r) g = .err .divZero) ∧
    (get name = none → evalG get (.var name) g = .err (.unassigned name)) ∧
    (get name = some .z → evalG get (.var name) g = .err (.unexpectedValue name .z)) ∧
    (get name = some .x → evalG get (.var name) g = .err (.unexpectedValue name .x)) ∧
    (evalG get a g = .ok (x, g1) → x ≤ 1 → evalG get (.call "random" [a]) g = .err (.emptyRange x)) ∧
    evalG get (.call "signExt" [a, b]) g = .err .notImplemented := by
  refine ⟨?_, ?_, ?_, ?_, ?_, ?_⟩
  · intro h1 h2
    simp [evalG, h1, h2, BinOp.eval]
  · intro h; simp [evalG, h]
  · intro h; simp [evalG, h]
  · intro h; simp [evalG, h]
  · intro h hx; simp [evalG, funcArity, h, hx]
  · simp [evalG, funcArity]

/-- an evaluation error met while producing the next row is returned as an error item, without a driver call -/
theorem C10_eval_error_is_item {δ : Type} (tc : TestCase) (drv : Driver δ) (fuel : Nat) (s : RowIt) (d : δ) (e : ExprErr)
    (h : getRow tc fuel s = .err e) : RowIt.next tc drv fuel s d = .item (.err (.expr e)) s d [] := by
  unfold RowIt.next; rw [h]

/-- non-vacuity: the example test of C15 is well-formed -/
example : c15Example.WF 2 := by
  refine ⟨?_, ?_, ?_, ?_, ?_, ?_, ?_⟩ <;> simp [c15Example, EIdx.sig, Signal.default?, Stmts.SWF, Stmt.SWF, DataEntry.WF, rowW,
    DataEntry.width, cCols]

end Dtr
