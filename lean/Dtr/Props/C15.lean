import Dtr.Proofs.StaticSim
import Dtr.Proofs.StaticSimAfter
/-!
# C15 — deterministic and re-runnable; static iteration equals any dynamic run

The model is a pure function of (source text, signal list, driver responses, generator): parsing the
same text twice, iterating twice, or interleaving iterators cannot differ *in the model*; what could
make them differ lives in the Rust runtime (`HashMap` iteration order — F13 —, shared mutable state)
and is what the correspondence check's repeated-parse / re-run / interleaving suites look at.

What is proved here is the static clause: `try_iter_static` refuses exactly the tests that read
outputs, and otherwise the static iterator (the dynamic iterator over a driver that answers
nothing) and a dynamic run over *any* driver proceed in lock step: same `get_row` results, hence same
inputs, expected values and line numbers, for as long as the static run yields rows, and the same
end.  The one way they can differ is a static "unassigned name" error where the dynamic run finds
an output of that name — known finding KF1 (a `let` in a `while` body that never runs).
-/
namespace Dtr

/-- `StaticDataRow` -/
structure StaticRow where
  inputs : List InEntry
  expected : List ExpEntry
  line : Nat
  deriving DecidableEq, Repr

/-- `From<DataRow> for StaticDataRow` -/
def DataRow.toStatic (r : DataRow) : StaticRow :=
  ⟨r.inputs, r.outputs.map (fun o => ⟨o.sig, o.expected⟩), r.line⟩

/-- **Static iff no reads**: `try_iter_static` answers "not static" exactly when the program reads an output. -/
theorem C15_static_iff_reads (tc : TestCase) (rng : Rng) :
    (∃ r, tryIterStatic tc rng = .notStatic r) ↔ tc.reads ≠ [] := by
  unfold tryIterStatic
  cases h : tc.reads with
  | nil =>
    simp only [List.isEmpty_nil, Bool.not_true, Bool.false_eq_true, if_false, ne_eq, not_true_eq_false, iff_false]
    rintro ⟨r, hr⟩
    cases hn : tryNew tc staticDriver () rng <;> simp [hn] at hr
  | cons a as => simp

/-- …and when it does not, the constructor cannot fail for want of an output (no read to miss):
given the index facts that binding establishes, it succeeds. -/
theorem C15_static_ctor_ok (tc : TestCase) (rng : Rng) (hr : tc.reads = [])
    (hin : ∃ ins, defaultInputs tc = .ok ins) (hexp : ∀ i ∈ tc.expIdx, i.sig < tc.signals.length) :
    ∃ s, tryIterStatic tc rng = .ok s := by
  obtain ⟨ins, hins⟩ := hin
  obtain ⟨pairs, hp⟩ := mapRes_all_ok (oidxFor tc []) tc.expIdx (by
    intro i hi
    have := hexp i hi
    simp only [oidxFor, List.getElem?_eq_getElem this]
    cases (tc.signals[i.sig]).typ <;> simp [posOf])
  have hb : ∃ oi, buildOutIdx tc [] = .ok oi := by
    simp [buildOutIdx, hp, hr, mapRes]
  obtain ⟨oi, hoi⟩ := hb
  simp [tryIterStatic, hr, tryNew, hins, staticDriver, hoi]

theorem mapRes_oidx_compat (tc : TestCase) (o₁ o₂ : List OutEntry) :
    ∀ (l : List EIdx) (ps₁ ps₂ : List (OIdx × Nat)),
      mapRes (oidxFor tc o₁) l = .ok ps₁ → mapRes (oidxFor tc o₂) l = .ok ps₂ →
      OCompatL (ps₁.map (·.1)) (ps₂.map (·.1))
  | [], ps₁, ps₂, h1, h2 => by
    simp only [mapRes, Res.ok.injEq] at h1 h2
    subst h1; subst h2; simp [OCompatL]
  | i :: l, ps₁, ps₂, h1, h2 => by
    simp only [mapRes] at h1 h2
    cases ha : oidxFor tc o₁ i with
    | err e => simp [ha] at h1
    | panic m => simp [ha] at h1
    | ok a =>
      cases hb : oidxFor tc o₂ i with
      | err e => simp [hb] at h2
      | panic m => simp [hb] at h2
      | ok b =>
        simp only [ha] at h1
        simp only [hb] at h2
        cases h3 : mapRes (oidxFor tc o₁) l with
        | err e => simp [h3] at h1
        | panic m => simp [h3] at h1
        | ok as =>
          cases h4 : mapRes (oidxFor tc o₂) l with
          | err e => simp [h4] at h2
          | panic m => simp [h4] at h2
          | ok bs =>
            simp only [h3, Res.ok.injEq] at h1
            simp only [h4, Res.ok.injEq] at h2
            subst h1; subst h2
            simp only [List.map_cons, OCompatL]
            refine ⟨?_, mapRes_oidx_compat tc o₁ o₂ l as bs h3 h4⟩
            -- the first entries: virtual iff the signal is virtual, with its expression
            simp only [oidxFor] at ha hb
            cases hs : tc.signals[i.sig]? with
            | none => simp [hs] at ha
            | some s =>
              simp only [hs] at ha hb
              cases ht : s.typ with
              | virt e =>
                simp only [ht, Res.ok.injEq] at ha hb
                subst ha; subst hb; simp [OCompat]
              | input d =>
                simp only [ht] at ha hb
                split at ha <;> split at hb <;>
                  (simp only [Res.ok.injEq] at ha hb; subst ha; subst hb; simp [OCompat])
              | output =>
                simp only [ht] at ha hb
                split at ha <;> split at hb <;>
                  (simp only [Res.ok.injEq] at ha hb; subst ha; subst hb; simp [OCompat])
              | bidir d =>
                simp only [ht] at ha hb
                split at ha <;> split at hb <;>
                  (simp only [Res.ok.injEq] at ha hb; subst ha; subst hb; simp [OCompat])

theorem buildOutIdx_compat (tc : TestCase) (o₁ o₂ : List OutEntry) (oi₁ oi₂ : List OIdx)
    (h1 : buildOutIdx tc o₁ = .ok oi₁) (h2 : buildOutIdx tc o₂ = .ok oi₂) : OCompatL oi₁ oi₂ := by
  unfold buildOutIdx at h1 h2
  cases hp1 : mapRes (oidxFor tc o₁) tc.expIdx with
  | err e => simp [hp1] at h1
  | panic m => simp [hp1] at h1
  | ok ps₁ =>
    cases hp2 : mapRes (oidxFor tc o₂) tc.expIdx with
    | err e => simp [hp2] at h2
    | panic m => simp [hp2] at h2
    | ok ps₂ =>
      have hc := mapRes_oidx_compat tc o₁ o₂ tc.expIdx ps₁ ps₂ hp1 hp2
      simp only [hp1] at h1
      simp only [hp2] at h2
      split at h1
      · cases h1
      · cases h1
      · split at h1
        · split at h2
          · cases h2
          · cases h2
          · split at h2
            · cases h1; cases h2; exact hc
            · cases h2
        · cases h1

/-- **The two constructors start in lock step**: the static iterator and any dynamic iterator over
the same test (same generator) are related. -/
theorem C15_ctor_sim {δ : Type} (tc : TestCase) (drv : Driver δ) (d d' : δ) (rng : Rng) (s₁ s₂ : RowIt) (log : List Call)
    (h1 : tryIterStatic tc rng = .ok s₁) (h2 : tryNew tc drv d rng = .ok s₂ d' log) : SimS s₁ s₂ := by
  unfold tryIterStatic at h1
  split at h1
  · cases h1
  · unfold tryNew at h1 h2
    cases hd : defaultInputs tc with
    | err e => simp [hd] at h2
    | panic m => simp [hd] at h2
    | ok ins =>
      simp only [hd] at h1 h2
      simp only [staticDriver] at h1
      cases hb1 : buildOutIdx tc [] with
      | err e => simp [hb1] at h1
      | panic m => simp [hb1] at h1
      | ok oi₁ =>
        simp only [hb1] at h1
        cases h1
        cases hr : drv.rw d ins with
        | mk d2 resp =>
          cases resp with
          | fail e => simp [hr] at h2
          | ok outs =>
            simp only [hr] at h2
            cases hb2 : buildOutIdx tc outs with
            | err e => simp [hb2] at h2
            | panic m => simp [hb2] at h2
            | ok oi₂ =>
              simp only [hb2, CtorRes.ok.injEq] at h2
              obtain ⟨rfl, _, _⟩ := h2
              exact ⟨rfl, rfl, rfl, ⟨rfl, rfl, rfl, rfl⟩, buildOutIdx_compat tc [] outs oi₁ oi₂ hb1 hb2⟩

end Dtr

namespace Dtr

theorem zip_static (exp : List ExpEntry) : ∀ (v₁ v₂ : List OutVal), v₁.length = v₂.length →
    ((exp.zip v₁).map (fun (e, v) => (⟨e.sig, v, e.value⟩ : OutResult))).map (fun o => (⟨o.sig, o.expected⟩ : ExpEntry)) =
    ((exp.zip v₂).map (fun (e, v) => (⟨e.sig, v, e.value⟩ : OutResult))).map (fun o => (⟨o.sig, o.expected⟩ : ExpEntry)) := by
  induction exp with
  | nil => intro v₁ v₂ _; simp
  | cons e es ih =>
    intro v₁ v₂ h
    cases v₁ with
    | nil => cases v₂ with
      | nil => simp
      | cons b bs => simp at h
    | cons a as => cases v₂ with
      | nil => simp at h
      | cons b bs =>
        simp only [List.zip_cons_cons, List.map_cons, List.cons.injEq, true_and]
        exact ih as bs (by simpa using h)

theorem toStatic_intoDataRow (ev : EvRow) (v₁ v₂ : List OutVal) (h : v₁.length = v₂.length) :
    (intoDataRow ev v₁).toStatic = (intoDataRow ev v₂).toStatic := by
  simp only [DataRow.toStatic, intoDataRow, StaticRow.mk.injEq, true_and, and_true]
  exact zip_static ev.expected v₁ v₂ h

theorem extractOutputs_sim (tc : TestCase) (oi₁ oi₂ : List OIdx) (n₁ n₂ : Nat) (outs : List OutEntry)
    (c₁ c₂ : Ctx) (vals₁ : List OutVal) (c₁' : Ctx) (hc : OCompatL oi₁ oi₂) (hs : Sim c₁ c₂)
    (h1 : extractOutputs tc oi₁ n₁ [] c₁ = (.ok vals₁, c₁')) :
    match extractOutputs tc oi₂ n₂ outs c₂ with
    | (.ok vals₂, c₂') => vals₂.length = vals₁.length ∧ Sim c₁' c₂'
    | (.err _, _) => True
    | (.panic _, _) => True := by
  unfold extractOutputs at h1
  by_cases hl1 : (([] : List OutEntry).length != n₁) = true
  · simp only [hl1, if_true] at h1; cases h1
  · simp only [hl1, if_false] at h1
    cases hxa : extractAll tc [] c₁.swapVars (tc.expIdx.zip oi₁) with
    | err e => simp [hxa] at h1
    | panic m => simp [hxa] at h1
    | ok p =>
      obtain ⟨vs₁, c1'⟩ := p
      simp only [hxa, Prod.mk.injEq, Res.ok.injEq] at h1
      obtain ⟨rfl, rfl⟩ := h1
      unfold extractOutputs
      by_cases hl2 : (outs.length != n₂) = true
      · simp only [hl2, if_true]
      · simp only [hl2, if_false]
        have hk := extractAll_sim tc outs tc.expIdx oi₁ oi₂ _ _ _ c1' hc hs.swapVars hxa
        cases hxb : extractAll tc outs c₂.swapVars (tc.expIdx.zip oi₂) with
        | err e => simp
        | panic m => simp
        | ok q =>
          obtain ⟨vs₂, c2'⟩ := q
          simp only [hxb] at hk
          exact ⟨hk.1, hk.2.swapVars⟩

/-- **End of the run**: when the static iterator is exhausted, so is the dynamic one (no call made). -/
theorem C15_next_none {δ : Type} (tc : TestCase) (drv : Driver δ) (fuel : Nat) (s₁ s₂ s₁' : RowIt) (d : δ) (u : Unit)
    (h : SimS s₁ s₂) (h1 : RowIt.next tc staticDriver fuel s₁ () = .none s₁' u) :
    ∃ s₂', RowIt.next tc drv fuel s₂ d = .none s₂' d ∧ SimS s₁' s₂' := by
  have hg := getRow_sim tc fuel h
  unfold RowIt.next at h1 ⊢
  cases hr : getRow tc fuel s₁ with
  | none s1 =>
    simp only [hr, NextOut.none.injEq] at h1
    simp only [hr, GRRel] at hg
    obtain ⟨s2, e2, hs⟩ := hg
    simp only [e2]
    exact ⟨s2, rfl, h1.1 ▸ hs⟩
  | err e => simp [hr] at h1
  | panic m => simp [hr] at h1
  | fuel => simp [hr] at h1
  | row ev s1 =>
    simp only [hr] at h1
    split at h1
    · simp only [staticDriver] at h1
      split at h1 <;> cases h1
    · simp only [staticDriver, Driver.defaultWo] at h1
      cases h1

/-- **An evaluation error before the driver is called** — other than "unassigned name" — is the same
error in the dynamic run, again before any call. -/
theorem C15_next_eval_error {δ : Type} (tc : TestCase) (drv : Driver δ) (fuel : Nat) (s₁ s₂ : RowIt) (d : δ)
    (e : ExprErr) (h : SimS s₁ s₂) (h1 : getRow tc fuel s₁ = .err e) (hn : ∀ n, e ≠ .unassigned n) :
    RowIt.next tc drv fuel s₂ d = .item (.err (.expr e)) s₂ d [] := by
  have hg := getRow_sim tc fuel h
  simp only [h1, GRRel] at hg
  unfold RowIt.next
  rw [hg hn]

/-- **Lock step also behind an evaluation error.**  When the static iterator and a dynamic iterator in lock step meet an
evaluation error before the driver is called — any error but "unassigned name" —, both return that error item without a
call, and the states the two are left in (`RowIt.nextC`, `Model/AfterError`: the failing statement skipped, the draws in
front of the failing sub-expression made) are in lock step again.  So the rows that follow — if the callers go on — are
again the same, by `C15_next_row`, `C15_next_none` and this theorem. -/
theorem C15_lock_step_behind_error {δ : Type} (tc : TestCase) (drv : Driver δ) (fuel : Nat) (s₁ s₂ : RowIt) (d : δ)
    (e : ExprErr) (h : SimS s₁ s₂) (h1 : getRow tc fuel s₁ = .err e) (hn : ∀ n, e ≠ .unassigned n) :
    RowIt.nextC tc staticDriver fuel s₁ () = .item (.err (.expr e)) (s₁.afterEvalErr fuel) () [] ∧
    RowIt.nextC tc drv fuel s₂ d = .item (.err (.expr e)) (s₂.afterEvalErr fuel) d [] ∧
    SimS (s₁.afterEvalErr fuel) (s₂.afterEvalErr fuel) := by
  have hg := getRow_sim tc fuel h
  simp only [h1, GRRel] at hg
  refine ⟨?_, ?_, afterEvalErr_sim tc fuel h e h1 hn⟩
  · unfold RowIt.nextC; rw [h1]
  · unfold RowIt.nextC; rw [hg hn]

/-- **A row of the static run**: the dynamic iterator pops the very same evaluated row (so it hands
the driver the same inputs), and if the driver's answer lets it return a row at all, that row has
the same inputs, expected values and line, and the two iterators are in lock step again. -/
theorem C15_next_row {δ : Type} (tc : TestCase) (drv : Driver δ) (fuel : Nat) (s₁ s₂ s₁' : RowIt) (d : δ) (u : Unit)
    (r₁ : DataRow) (calls₁ : List Call)
    (h : SimS s₁ s₂) (h1 : RowIt.next tc staticDriver fuel s₁ () = .item (.row r₁) s₁' u calls₁) :
    ∃ ev s₁g s₂g, getRow tc fuel s₁ = .row ev s₁g ∧ getRow tc fuel s₂ = .row ev s₂g ∧
      ev.inputs = r₁.inputs ∧ ev.line = r₁.line ∧
      match RowIt.next tc drv fuel s₂ d with
      | .item (.row r₂) s₂' _ _ => r₂.toStatic = r₁.toStatic ∧ SimS s₁' s₂'
      | .item (.err _) _ _ calls => calls.length = 1
      | .panic _ calls => calls.length = 1
      | .none _ _ => False
      | .fuel => False := by
  have hg := getRow_sim tc fuel h
  unfold RowIt.next at h1
  cases hr : getRow tc fuel s₁ with
  | none s1 => simp [hr] at h1
  | err e => simp [hr] at h1
  | panic m => simp [hr] at h1
  | fuel => simp [hr] at h1
  | row ev s1 =>
    simp only [hr, GRRel] at hg
    obtain ⟨s2, e2, hs⟩ := hg
    refine ⟨ev, s1, s2, rfl, e2, ?_⟩
    simp only [hr] at h1
    unfold RowIt.next
    simp only [e2]
    by_cases hu : ev.upd = true
    · simp only [hu, if_true] at h1 ⊢
      simp only [staticDriver] at h1
      -- the static side: empty answer
      cases hx : extractOutputs tc s1.outIdx s1.numOut [] (s1.ctx.setOutputs (outsOf [])) with
      | mk res c2 =>
        simp only [hx] at h1
        cases res with
        | err e => simp at h1
        | panic m => simp at h1
        | ok vals₁ =>
          simp only [NextOut.item.injEq, Item.row.injEq] at h1
          obtain ⟨hr1, hs1, _, _⟩ := h1
          subst hr1; subst hs1
          refine ⟨rfl, rfl, ?_⟩
          cases hd : drv.rw d ev.inputs with
          | mk d' resp =>
            cases resp with
            | fail e => simp
            | ok outs =>
              simp only
              have hsim : Sim (s1.ctx.setOutputs (outsOf [])) (s2.ctx.setOutputs (outsOf outs)) :=
                ⟨hs.ctx.vars, hs.ctx.alt, hs.ctx.rng, rfl⟩
              have hk := extractOutputs_sim tc s1.outIdx s2.outIdx s1.numOut s2.numOut outs _ _ vals₁ c2 hs.oi hsim hx
              cases hy : extractOutputs tc s2.outIdx s2.numOut outs (s2.ctx.setOutputs (outsOf outs)) with
              | mk res2 c2' =>
                simp only [hy] at hk
                cases res2 with
                | err e => simp
                | panic m => simp
                | ok vals₂ =>
                  simp only at hk ⊢
                  exact ⟨toStatic_intoDataRow ev vals₂ vals₁ hk.1,
                    ⟨hs.it, hs.prev, hs.cache, hk.2, hs.oi⟩⟩
    · have hu' : ev.upd = false := by simpa using hu
      simp only [hu', Bool.false_eq_true, if_false] at h1 ⊢
      simp only [staticDriver, Driver.defaultWo, NextOut.item.injEq, Item.row.injEq] at h1
      obtain ⟨hr1, hs1, _, _⟩ := h1
      subst hr1; subst hs1
      refine ⟨rfl, rfl, ?_⟩
      cases hd : drv.wo d ev.inputs with
      | mk d' resp =>
        cases resp with
        | some e => simp
        | none => exact ⟨rfl, hs⟩

/-- the first `n` items of a run, if they are all rows; with the state after them -/
def rowsN {δ : Type} (tc : TestCase) (drv : Driver δ) (fuel : Nat) : Nat → RowIt → δ → Option (List DataRow × RowIt × δ)
  | 0, s, d => some ([], s, d)
  | n+1, s, d =>
    match RowIt.next tc drv fuel s d with
    | .item (.row r) s' d' _ =>
      match rowsN tc drv fuel n s' d' with
      | some (rs, s'', d'') => some (r :: rs, s'', d'')
      | none => none
    | _ => none

/-- **Static = dynamic, run level**: if the first `n` items of the static run and of a dynamic run
(any driver) are all rows, they are the same rows as far as a static row can tell (inputs, expected
values, line), and the two iterators are still in lock step afterwards — so the next item compares
the same way, and the static run ends exactly where the dynamic one does (`C15_next_none`). -/
theorem C15_static_eq_dynamic {δ : Type} (tc : TestCase) (drv : Driver δ) (fuel : Nat) :
    ∀ (n : Nat) (s₁ s₂ : RowIt) (d : δ) (rs₁ rs₂ : List DataRow) (s₁' s₂' : RowIt) (d' : δ) (u : Unit),
      SimS s₁ s₂ →
      rowsN tc staticDriver fuel n s₁ () = some (rs₁, s₁', u) →
      rowsN tc drv fuel n s₂ d = some (rs₂, s₂', d') →
      rs₂.map DataRow.toStatic = rs₁.map DataRow.toStatic ∧ SimS s₁' s₂'
  | 0, s₁, s₂, d, rs₁, rs₂, s₁', s₂', d', u, h, h1, h2 => by
    simp only [rowsN, Option.some.injEq, Prod.mk.injEq] at h1 h2
    obtain ⟨rfl, rfl, _⟩ := h1
    obtain ⟨rfl, rfl, _⟩ := h2
    exact ⟨rfl, h⟩
  | n+1, s₁, s₂, d, rs₁, rs₂, s₁', s₂', d', u, h, h1, h2 => by
    simp only [rowsN] at h1 h2
    cases hn1 : RowIt.next tc staticDriver fuel s₁ () with
    | none a b => simp [hn1] at h1
    | panic a b => simp [hn1] at h1
    | fuel => simp [hn1] at h1
    | item i a b calls =>
      cases i with
      | err e => simp [hn1] at h1
      | row r₁ =>
        simp only [hn1] at h1
        cases hn2 : RowIt.next tc drv fuel s₂ d with
        | none a2 b2 => simp [hn2] at h2
        | panic a2 b2 => simp [hn2] at h2
        | fuel => simp [hn2] at h2
        | item i2 a2 b2 calls2 =>
          cases i2 with
          | err e => simp [hn2] at h2
          | row r₂ =>
            simp only [hn2] at h2
            obtain ⟨ev, s1g, s2g, _, _, _, _, hm⟩ := C15_next_row tc drv fuel s₁ s₂ a d b r₁ calls h hn1
            simp only [hn2] at hm
            cases hr1 : rowsN tc staticDriver fuel n a b with
            | none => simp [hr1] at h1
            | some t1 =>
              obtain ⟨rs1, s1e, u1⟩ := t1
              simp only [hr1, Option.some.injEq, Prod.mk.injEq] at h1
              cases hr2 : rowsN tc drv fuel n a2 b2 with
              | none => simp [hr2] at h2
              | some t2 =>
                obtain ⟨rs2, s2e, d2⟩ := t2
                simp only [hr2, Option.some.injEq, Prod.mk.injEq] at h2
                obtain ⟨rfl, rfl, _⟩ := h1
                obtain ⟨rfl, rfl, _⟩ := h2
                have ih := C15_static_eq_dynamic tc drv fuel n a a2 b2 rs1 rs2 _ _ d2 u1 hm.2
                  (by cases b; exact hr1) hr2
                exact ⟨by simp [hm.1, ih.1], ih.2⟩

/-! ### static = dynamic for runs that go on behind evaluation errors -/

/-- an item of a continued run as far as a static row can tell: a row, or an evaluation error met before any call -/
inductive CItem where
  | row (r : StaticRow)
  | evalErr (e : ExprErr)

/-- the first `n` items of a run that goes on behind evaluation errors (`RowIt.nextC`); `none` as soon as anything else
happens (the end, an error item of the IO step, `fuel`) -/
def itemsC {δ : Type} (tc : TestCase) (drv : Driver δ) (fuel : Nat) : Nat → RowIt → δ → Option (List CItem × RowIt × δ)
  | 0, s, d => some ([], s, d)
  | n+1, s, d =>
    match RowIt.nextC tc drv fuel s d with
    | .item (.row r) s' d' _ =>
      match itemsC tc drv fuel n s' d' with
      | some (is, s'', d'') => some (.row r.toStatic :: is, s'', d'')
      | none => none
    | .item (.err (.expr e)) s' d' [] =>
      match itemsC tc drv fuel n s' d' with
      | some (is, s'', d'') => some (.evalErr e :: is, s'', d'')
      | none => none
    | _ => none

theorem next_of_nextC_row {δ : Type} (tc : TestCase) (drv : Driver δ) (fuel : Nat) (s s' : RowIt) (d d' : δ) (r : DataRow)
    (calls : List Call) (h : RowIt.nextC tc drv fuel s d = .item (.row r) s' d' calls) :
    RowIt.next tc drv fuel s d = .item (.row r) s' d' calls := by
  have hobs := nextC_obs tc drv fuel s d
  rw [h] at hobs
  cases hn : RowIt.next tc drv fuel s d with
  | item i s2 d2 c2 =>
    rw [hn] at hobs
    simp only [NextOut.obs, Option.some.injEq, Prod.mk.injEq] at hobs
    obtain ⟨hi, hd, hc⟩ := hobs
    subst hi; subst hd; subst hc
    have := (nextC_eq_next_of_row tc drv fuel s d).1 r s2 d' calls hn
    rw [h] at this
    simp only [NextOut.item.injEq, true_and, and_true] at this
    rw [this]
  | none s2 d2 => rw [hn] at hobs; simp [NextOut.obs] at hobs
  | panic m c => rw [hn] at hobs; simp [NextOut.obs] at hobs
  | fuel => rw [hn] at hobs; simp [NextOut.obs] at hobs

theorem getRow_of_nextC_evalErr {δ : Type} (tc : TestCase) (drv : Driver δ) (fuel : Nat) (s s' : RowIt) (d d' : δ) (e : ExprErr)
    (h : RowIt.nextC tc drv fuel s d = .item (.err (.expr e)) s' d' []) :
    getRow tc fuel s = .err e ∧ s' = s.afterEvalErr fuel ∧ d' = d := by
  unfold RowIt.nextC at h
  split at h
  · next e1 hg =>
    simp only [NextOut.item.injEq, Item.err.injEq, IterErr.expr.injEq, and_true] at h
    obtain ⟨he, hs, hd⟩ := h
    subst he
    exact ⟨hg, hs.symm, hd.symm⟩
  · cases h
  · cases h
  · cases h
  · split at h
    · split at h
      · simp at h
      · simp only at h
        split at h <;> simp at h
    · split at h <;> simp at h

/-- **Static = dynamic, for runs continued behind evaluation errors.**  If the first `n` items of the static run and of
a dynamic run (any driver), both going on behind evaluation errors, are rows and evaluation errors — none of them
"unassigned name" in the static run (known finding KF1) —, they are the same items in the same order: the same rows as
far as a static row can tell, the same errors at the same places; and the two iterators are in lock step afterwards. -/
theorem C15_static_eq_dynamic_continued {δ : Type} (tc : TestCase) (drv : Driver δ) (fuel : Nat) :
    ∀ (n : Nat) (s₁ s₂ : RowIt) (d : δ) (is₁ is₂ : List CItem) (s₁' s₂' : RowIt) (d' : δ) (u : Unit),
      SimS s₁ s₂ →
      itemsC tc staticDriver fuel n s₁ () = some (is₁, s₁', u) →
      itemsC tc drv fuel n s₂ d = some (is₂, s₂', d') →
      (∀ e, CItem.evalErr e ∈ is₁ → ∀ x, e ≠ .unassigned x) →
      (is₂.map (fun i => match i with | .row r => (some r, none) | .evalErr e => (none, some e)) =
       is₁.map (fun i => match i with | .row r => (some r, none) | .evalErr e => (none, some e))) ∧ SimS s₁' s₂'
  | 0, s₁, s₂, d, is₁, is₂, s₁', s₂', d', u, h, h1, h2, _ => by
    simp only [itemsC, Option.some.injEq, Prod.mk.injEq] at h1 h2
    obtain ⟨rfl, rfl, _⟩ := h1
    obtain ⟨rfl, rfl, _⟩ := h2
    exact ⟨rfl, h⟩
  | n+1, s₁, s₂, d, is₁, is₂, s₁', s₂', d', u, h, h1, h2, hne => by
    simp only [itemsC] at h1 h2
    cases hn1 : RowIt.nextC tc staticDriver fuel s₁ () with
    | none a b => simp [hn1] at h1
    | panic a b => simp [hn1] at h1
    | fuel => simp [hn1] at h1
    | item i a b calls =>
      cases i with
      | row r₁ =>
        simp only [hn1] at h1
        have hnx := next_of_nextC_row tc staticDriver fuel s₁ a () b r₁ calls hn1
        obtain ⟨ev, s1g, s2g, _, _, _, _, hm⟩ := C15_next_row tc drv fuel s₁ s₂ a d b r₁ calls h hnx
        cases hr1 : itemsC tc staticDriver fuel n a b with
        | none => simp [hr1] at h1
        | some t1 =>
          obtain ⟨rs1, s1e, u1⟩ := t1
          simp only [hr1, Option.some.injEq, Prod.mk.injEq] at h1
          obtain ⟨rfl, rfl, _⟩ := h1
          cases hn2 : RowIt.nextC tc drv fuel s₂ d with
          | none a2 b2 => simp [hn2] at h2
          | panic a2 b2 => simp [hn2] at h2
          | fuel => simp [hn2] at h2
          | item i2 a2 b2 calls2 =>
            cases i2 with
            | row r₂ =>
              simp only [hn2] at h2
              have hnx2 := next_of_nextC_row tc drv fuel s₂ a2 d b2 r₂ calls2 hn2
              simp only [hnx2] at hm
              cases hr2 : itemsC tc drv fuel n a2 b2 with
              | none => simp [hr2] at h2
              | some t2 =>
                obtain ⟨rs2, s2e, d2⟩ := t2
                simp only [hr2, Option.some.injEq, Prod.mk.injEq] at h2
                obtain ⟨rfl, rfl, _⟩ := h2
                have ih := C15_static_eq_dynamic_continued tc drv fuel n a a2 b2 rs1 rs2 _ _ d2 u1 hm.2
                  (by cases b; exact hr1) hr2 (fun e he => hne e (List.mem_cons_of_mem _ he))
                exact ⟨by simp [hm.1, ih.1], ih.2⟩
            | err e2 =>
              -- the dynamic item is an error: it can only be one of the IO step (a call was made), which ends `itemsC`
              exfalso
              have hobs := nextC_obs tc drv fuel s₂ d
              rw [hn2] at hobs
              cases hnn : RowIt.next tc drv fuel s₂ d with
              | item i3 s3 d3 c3 =>
                rw [hnn] at hobs hm
                simp only [NextOut.obs, Option.some.injEq, Prod.mk.injEq] at hobs
                obtain ⟨hi, _, hc⟩ := hobs
                subst hi; subst hc
                simp only at hm
                -- one call was made: not an evaluation error item
                simp only [hn2] at h2
                cases e2 with
                | expr ee =>
                  cases calls2 with
                  | nil => simp at hm
                  | cons c cs => simp at h2
                | driver x => simp at h2
                | wrongNumberOfOutputs x y => simp at h2
                | wrongOutputOrder => simp at h2
                | missingOutputs x => simp at h2
              | none s3 d3 => rw [hnn] at hm; exact hm
              | panic m c => rw [hnn] at hobs; simp [NextOut.obs] at hobs
              | fuel => rw [hnn] at hm; exact hm
      | err e₁ =>
        -- an error item of the static run that `itemsC` goes on behind: an evaluation error, no call
        cases e₁ with
        | expr ee =>
          cases calls with
          | cons c cs => simp [hn1] at h1
          | nil =>
            simp only [hn1] at h1
            obtain ⟨hg, hs, hu⟩ := getRow_of_nextC_evalErr tc staticDriver fuel s₁ a () b ee hn1
            cases hr1 : itemsC tc staticDriver fuel n a b with
            | none => simp [hr1] at h1
            | some t1 =>
              obtain ⟨rs1, s1e, u1⟩ := t1
              simp only [hr1, Option.some.injEq, Prod.mk.injEq] at h1
              obtain ⟨rfl, rfl, _⟩ := h1
              have hun : ∀ x, ee ≠ .unassigned x := hne ee (List.mem_cons_self ..)
              obtain ⟨_, hd2, hsim⟩ := C15_lock_step_behind_error tc drv fuel s₁ s₂ d ee h hg hun
              simp only [hd2] at h2
              cases hr2 : itemsC tc drv fuel n (s₂.afterEvalErr fuel) d with
              | none => simp [hr2] at h2
              | some t2 =>
                obtain ⟨rs2, s2e, d2⟩ := t2
                simp only [hr2, Option.some.injEq, Prod.mk.injEq] at h2
                obtain ⟨rfl, rfl, _⟩ := h2
                subst hs
                have ih := C15_static_eq_dynamic_continued tc drv fuel n _ _ d rs1 rs2 _ _ d2 u1 hsim
                  (by cases b; exact hr1) hr2 (fun e he => hne e (List.mem_cons_of_mem _ he))
                exact ⟨by simp [ih.1], ih.2⟩
        | driver x => simp [hn1] at h1
        | wrongNumberOfOutputs x y => simp [hn1] at h1
        | wrongOutputOrder => simp [hn1] at h1
        | missingOutputs x => simp [hn1] at h1

/-- **Determinism of the model**: parsing, binding and every step of a run are functions — the same
text, signal list, iterator state, driver state and responses give the same result; an iterator
owns all of its run state (`RowIt`), the test is only read.  (Stated for the record: in Lean this is
`rfl`; for the Rust code it is what the repeated-parse, re-run and interleaving suites check.) -/
theorem C15_model_is_a_function {δ : Type} (src : Str) (sigs : List Signal) (tc : TestCase) (drv : Driver δ)
    (fuel : Nat) (s : RowIt) (d : δ) :
    parseTest src = parseTest src ∧ (∀ p, withSignals p sigs = withSignals p sigs) ∧
    RowIt.next tc drv fuel s d = RowIt.next tc drv fuel s d := ⟨rfl, fun _ => rfl, rfl⟩

end Dtr

namespace Dtr

/-- non-vacuity: a concrete static test; both constructors succeed and one step yields a row -/
def c15Example : TestCase :=
  { stmts := [.row [.num 1, .x] 2], signals := [⟨"A", 1, .input (.val 0)⟩, ⟨"Q", 1, .output⟩],
    inIdx := [.entry 0 0], expIdx := [.entry 1 1], reads := [] }

example : ∃ s r s' c, tryIterStatic c15Example { f := fun _ => 0 } = .ok s ∧
    RowIt.next c15Example staticDriver 10 s () = .item (.row r) s' () c ∧ r.line = 2 :=
  ⟨_, _, _, _, rfl, rfl, rfl⟩

end Dtr
