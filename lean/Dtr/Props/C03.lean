import Dtr.Proofs.BEq
import Dtr.Proofs.PosOf
import Dtr.Proofs.MapRes
/-!
# C03 — outputs are attributed to the right signal and verdicts follow the X/Z rules
-/
namespace Dtr

/-- **Decision table of `check`**, for all 64-bit values (no modulo anywhere). -/
theorem C03_check_table (e : ExpVal) (o : OutVal) :
    e.check o = true ↔ e = .x ∨ (e = .z ∧ o = .z) ∨ ∃ n, e = .val n ∧ o = .val n := by
  cases e <;> cases o <;> simp [ExpVal.check]
  exact eq_comm

/-- `is_checked()` is false exactly for expected `X`. -/
theorem C03_is_checked (e : OutResult) : e.isChecked = false ↔ e.expected = .x := by
  cases h : e.expected <;> simp [OutResult.isChecked, h]

/-- `failing_outputs()` is exactly the set of entries that do not pass. -/
theorem C03_failing_outputs (r : DataRow) (e : OutResult) :
    e ∈ r.failingOutputs ↔ e ∈ r.outputs ∧ e.expected.check e.output = false := by
  simp [DataRow.failingOutputs, OutResult.check]

/-- the order is that of the row -/
theorem C03_failing_outputs_sublist (r : DataRow) : r.failingOutputs.Sublist r.outputs := by
  simp [DataRow.failingOutputs]

/-- **Attribution.** Let the constructor have learnt the output index `oi` of an expected entry
whose signal `s` is not virtual from the first answer `first`, and let `outs` be a later answer with
the same layout (same signals in the same order — any subset of the signals, any order).  Then the
value extracted for that entry is the value `outs` carries for the signal `s` itself
(`find?` on the answer), or `X` if the layout does not contain `s`.  The statement is about signals,
not about positions. -/
theorem C03_attribution (tc : TestCase) (first outs : List OutEntry) (c : Ctx) (i : EIdx) (s : Signal)
    (oi : OIdx) (k : Nat)
    (hs : tc.signals[i.sig]? = some s) (hnv : s.isVirtual = false)
    (hoi : oidxFor tc first i = .ok (oi, k))
    (hlay : outs.map (·.1) = first.map (·.1)) :
    extractOne tc outs c (i, oi) = .ok (((outs.find? (fun o => o.1 == s)).map (·.2)).getD .x, c) := by
  have hpos : posOf (fun (o : OutEntry) => o.1 == s) outs = posOf (fun (o : OutEntry) => o.1 == s) first := by
    have h1 := posOf_map (fun (x : Signal) => x == s) (fun (o : OutEntry) => o.1) outs
    have h2 := posOf_map (fun (x : Signal) => x == s) (fun (o : OutEntry) => o.1) first
    rw [← h1, ← h2, hlay]
  simp only [oidxFor, hs] at hoi
  have hty : ∀ e, s.typ ≠ .virt e := by
    intro e he; simp [Signal.isVirtual, he] at hnv
  split at hoi
  · next e he => exact absurd he (hty e)
  · split at hoi
    · next n hn =>
      cases hoi
      obtain ⟨hlt, hp, hf⟩ := posOf_some _ outs n (hpos ▸ hn)
      have hget : outs[n]? = some outs[n] := List.getElem?_eq_getElem hlt
      have heq : outs[n].1 = s := (Signal.beq_iff _ _).mp hp
      simp only [extractOne, hs, hget, hf, Option.map_some, Option.getD_some]
      have : (s == outs[n].1) = true := by rw [heq]; exact (Signal.beq_iff s s).mpr rfl
      simp [this]
    · next hn =>
      cases hoi
      have hf := posOf_none _ outs (hpos ▸ hn)
      simp [extractOne, hf]

/-- all values of a checked row are produced entry by entry by `extractOne` -/
theorem C03_row_elementwise (tc : TestCase) (outs : List OutEntry) :
    ∀ (ps : List (EIdx × OIdx)) (c c' : Ctx) (vs : List OutVal), extractAll tc outs c ps = .ok (vs, c') →
      vs.length = ps.length ∧
      ∀ (j : Nat) (h : j < ps.length) (h' : j < vs.length), ∃ cj cj', extractOne tc outs cj ps[j] = .ok (vs[j], cj')
  | [], c, c', vs, h => by simp only [extractAll] at h; cases h; simp
  | p :: ps, c, c', vs, h => by
    simp only [extractAll] at h
    split at h
    · next v c1 h1 =>
      split at h
      · next vs' c2 h2 =>
        cases h
        have ih := C03_row_elementwise tc outs ps c1 c' vs' h2
        refine ⟨by simp [ih.1], ?_⟩
        intro j hj hj'
        cases j with
        | zero => exact ⟨c, c1, by simpa using h1⟩
        | succ j =>
          obtain ⟨cj, cj', hh⟩ := ih.2 j (by simpa using hj) (by simpa using hj')
          exact ⟨cj, cj', by simpa using hh⟩
      · cases h
      · cases h
    · cases h
    · cases h

/-! Non-vacuity -/
example : (ExpVal.val (-5)).check (.val (-5)) = true ∧ (ExpVal.z).check .x = false ∧ (ExpVal.x).check .z = true := by
  decide

end Dtr
