import Dtr.Proofs.Prec
import Dtr.Proofs.SrcTables
import Dtr.Proofs.ParserDenotes
import Dtr.Proofs.RoundTrip
import Dtr.Model.Eval
/-!
# C08 — expressions: C-like precedence, 64-bit two's-complement arithmetic, lazy `ite`
-/
namespace Dtr

/-- **The nine-level order of the statement** (1 = tightest binary level; unary operators bind
tighter than all of them because they are parsed inside `parse_factor`). The quantifier of this
clause *is* this finite table. -/
theorem C08_precedence_table :
    (BinOp.mul.prec = 1 ∧ BinOp.div.prec = 1 ∧ BinOp.rem.prec = 1) ∧
    (BinOp.add.prec = 2 ∧ BinOp.sub.prec = 2) ∧
    (BinOp.shl.prec = 3 ∧ BinOp.shr.prec = 3) ∧
    BinOp.and.prec = 4 ∧ BinOp.xor.prec = 5 ∧ BinOp.or.prec = 6 ∧
    (BinOp.lt.prec = 7 ∧ BinOp.gt.prec = 7 ∧ BinOp.le.prec = 7 ∧ BinOp.ge.prec = 7) ∧
    (BinOp.eq.prec = 8 ∧ BinOp.ne.prec = 8) := by decide

/-- **Chain soundness.** The tree `parse_expr` builds for a parenthesis-free chain
`e₀ o₁ e₁ … oₙ eₙ` is well-shaped (tighter operators below looser ones, equal levels nested to the
left) and its in-order reading is the chain itself. -/
theorem C08_chain_sound (e0 : Expr) (ps : List (BinOp × Expr)) :
    ((BTree.atom e0).addAll ps).OK ∧ ((BTree.atom e0).addAll ps).first = e0 ∧
    ((BTree.atom e0).addAll ps).seq = ps := by
  have := BTree.addAll_ok (.atom e0) ps trivial
  simpa [BTree.first, BTree.seq] using this

/-- **Chain completeness.** Every well-shaped tree is what the algorithm builds from its in-order
reading; hence the algorithm's result is *the* well-shaped tree over the chain. -/
theorem C08_chain_complete (t : BTree) (h : t.OK) : (BTree.atom t.first).addAll t.seq = t :=
  BTree.build_complete t h

theorem C08_chain_unique (t : BTree) (h : t.OK) (e0 : Expr) (ps : List (BinOp × Expr))
    (hf : t.first = e0) (hs : t.seq = ps) : (BTree.atom e0).addAll ps = t := by
  subst hf; subst hs; exact BTree.build_complete t h

/-! ## Arithmetic: each operator against its meaning over the integers -/

theorem C08_add (a b : Int64) : BinOp.add.eval a b = some (a + b) ∧ (a + b).toInt = (a.toInt + b.toInt).bmod (2 ^ 64) :=
  ⟨rfl, Int64.toInt_add a b⟩
theorem C08_sub (a b : Int64) : BinOp.sub.eval a b = some (a - b) ∧ (a - b).toInt = (a.toInt - b.toInt).bmod (2 ^ 64) :=
  ⟨rfl, Int64.toInt_sub a b⟩
theorem C08_mul (a b : Int64) : BinOp.mul.eval a b = some (a * b) ∧ (a * b).toInt = (a.toInt * b.toInt).bmod (2 ^ 64) :=
  ⟨rfl, Int64.toInt_mul a b⟩
theorem C08_neg (a : Int64) : (UnOp.neg.eval a).toInt = (-a.toInt).bmod (2 ^ 64) := Int64.toInt_neg a
theorem C08_bnot (a : Int64) : (UnOp.bnot.eval a).toInt = (-a.toInt - 1).bmod (2 ^ 64) := Int64.toInt_not a
theorem C08_lnot (a : Int64) : UnOp.lnot.eval a = if a = 0 then 1 else 0 := by
  simp [UnOp.eval, b2i]

/-- `/` truncates toward zero (`Int.tdiv`); only `MIN / -1` wraps; a zero divisor is an error. -/
theorem C08_div (a b : Int64) :
    (b = 0 → BinOp.div.eval a b = none) ∧
    (b ≠ 0 → BinOp.div.eval a b = some (a / b) ∧ (a / b).toInt = (a.toInt.tdiv b.toInt).bmod (2 ^ 64)) := by
  constructor
  · intro h; simp [BinOp.eval, h]
  · intro h; exact ⟨by simp [BinOp.eval, h], Int64.toInt_div a b⟩

/-- `%` is the remainder of truncating division (`Int.tmod`, sign of the dividend); a zero divisor is an error. -/
theorem C08_rem (a b : Int64) :
    (b = 0 → BinOp.rem.eval a b = none) ∧
    (b ≠ 0 → BinOp.rem.eval a b = some (a % b) ∧ (a % b).toInt = a.toInt.tmod b.toInt) := by
  constructor
  · intro h; simp [BinOp.eval, h]
  · intro h; exact ⟨by simp [BinOp.eval, h], Int64.toInt_mod a b⟩

/-- the shift count actually used: the low six bits of the count -/
def shiftCount (b : Int64) : Nat := (b.toInt % 64).toNat

theorem shiftCount_lt (b : Int64) : shiftCount b < 64 := by
  unfold shiftCount
  have h1 : 0 ≤ b.toInt % 64 := Int.emod_nonneg _ (by decide)
  have h2 : b.toInt % 64 < 64 := Int.emod_lt_of_pos _ (by decide)
  omega

theorem smod64_toNat (b : Int64) : (b.toBitVec.smod 64).toNat = shiftCount b := by
  have h := @BitVec.toInt_smod 64 b.toBitVec 64
  have h64 : (64 : BitVec 64).toInt = 64 := by decide
  rw [h64, Int64.toInt_toBitVec, Int.fmod_eq_emod_of_nonneg _ (by decide)] at h
  have h1 : 0 ≤ b.toInt % 64 := Int.emod_nonneg _ (by decide)
  have h2 : b.toInt % 64 < 64 := Int.emod_lt_of_pos _ (by decide)
  have hc := BitVec.toInt_eq_toNat_cond (b.toBitVec.smod 64)
  rw [h] at hc
  unfold shiftCount
  split at hc <;> omega

/-- `<<` shifts by the low six bits of the count, discarding what leaves the word. -/
theorem C08_shl (a b : Int64) :
    BinOp.shl.eval a b = some (a <<< b) ∧ (a <<< b).toBitVec = a.toBitVec <<< shiftCount b := by
  refine ⟨rfl, ?_⟩
  rw [Int64.toBitVec_shiftLeft, ← smod64_toNat]
  rfl

/-- `>>` is arithmetic: floor division by `2^k`, `k` the low six bits of the count. -/
theorem C08_shr (a b : Int64) :
    BinOp.shr.eval a b = some (a >>> b) ∧ (a >>> b).toInt = a.toInt / ((2 ^ shiftCount b : Nat) : Int) := by
  refine ⟨rfl, ?_⟩
  rw [← Int64.toInt_toBitVec, Int64.toBitVec_shiftRight, BitVec.toInt_sshiftRight', smod64_toNat,
    Int.shiftRight_eq_div_pow, Int64.toInt_toBitVec]

/-- comparisons yield 1 or 0, comparing as signed 64-bit integers -/
theorem C08_compare (a b : Int64) :
    BinOp.lt.eval a b = some (if a.toInt < b.toInt then 1 else 0) ∧
    BinOp.gt.eval a b = some (if b.toInt < a.toInt then 1 else 0) ∧
    BinOp.le.eval a b = some (if a.toInt ≤ b.toInt then 1 else 0) ∧
    BinOp.ge.eval a b = some (if b.toInt ≤ a.toInt then 1 else 0) ∧
    BinOp.eq.eval a b = some (if a = b then 1 else 0) ∧
    BinOp.ne.eval a b = some (if a = b then 0 else 1) := by
  simp only [BinOp.eval, b2i, GT.gt, GE.ge, Int64.lt_iff_toInt_lt, Int64.le_iff_toInt_le]
  refine ⟨by simp, by simp, by simp, by simp, by simp, ?_⟩
  by_cases h : a = b <;> simp [h]

/-- bitwise operators act on the two's-complement bit patterns -/
theorem C08_bitwise (a b : Int64) :
    BinOp.and.eval a b = some (a &&& b) ∧ BinOp.or.eval a b = some (a ||| b) ∧ BinOp.xor.eval a b = some (a ^^^ b) ∧
    (a &&& b).toBitVec = a.toBitVec &&& b.toBitVec ∧ (a ||| b).toBitVec = a.toBitVec ||| b.toBitVec ∧
    (a ^^^ b).toBitVec = a.toBitVec ^^^ b.toBitVec :=
  ⟨rfl, rfl, rfl, Int64.toBitVec_and a b, Int64.toBitVec_or a b, Int64.toBitVec_xor a b⟩

/-- evaluation of a binary node: left operand first, then the right one, then the operator -/
theorem C08_bin_order (get : String → Option OutVal) (o : BinOp) (l r : Expr) (g : Rng) :
    evalG get (.bin o l r) g =
      match evalG get l g with
      | .ok (a, g1) =>
        (match evalG get r g1 with
         | .ok (b, g2) => (match o.eval a b with | some v => .ok (v, g2) | none => .err .divZero)
         | .err e => .err e
         | .panic s => .panic s)
      | .err e => .err e
      | .panic s => .panic s := by
  simp only [evalG]
  cases evalG get l g with
  | ok p =>
    obtain ⟨a, g1⟩ := p
    cases evalG get r g1 with
    | ok q => obtain ⟨b, g2⟩ := q; cases o.eval a b <;> rfl
    | err e => rfl
    | panic s => rfl
  | err e => rfl
  | panic s => rfl

/-- **`ite` is lazy**: the condition is evaluated, then only the selected branch — errors and random
draws of the other branch do not occur. -/
theorem C08_ite_lazy (get : String → Option OutVal) (c a b : Expr) (g : Rng) :
    evalG get (.call "ite" [c, a, b]) g =
      match evalG get c g with
      | .ok (v, g1) => if v = 0 then evalG get b g1 else evalG get a g1
      | .err e => .err e
      | .panic s => .panic s := by
  simp [evalG, funcArity]
  cases evalG get c g with
  | ok p => obtain ⟨v, g1⟩ := p; rfl
  | err e => rfl
  | panic s => rfl

/-! ## Literals -/

/-- positional value: Horner's rule, most significant digit first -/
theorem C08_literal_horner (radix : Nat) (s : Str) (c : Char) :
    natOfDigits radix (s ++ [c]) = natOfDigits radix s * radix + digitVal c := by
  simp [natOfDigits, List.foldl_append]

/-- a literal denotes its numeral, and is an error iff it does not fit in 63 bits -/
theorem C08_literal_value (radix : Nat) (s : Str) :
    (natOfDigits radix s < 2 ^ 63 → ∃ v, parseRadix radix s = some v ∧ v.toInt = natOfDigits radix s) ∧
    (2 ^ 63 ≤ natOfDigits radix s → parseRadix radix s = none) := by
  constructor
  · intro h
    refine ⟨Int64.ofNat (natOfDigits radix s), by simp [parseRadix, h], ?_⟩
    rw [← Int64.toInt_toBitVec, Int64.toBitVec_ofNat', BitVec.toInt_eq_toNat_cond, BitVec.toNat_ofNat]
    have : natOfDigits radix s % 2 ^ 64 = natOfDigits radix s := Nat.mod_eq_of_lt (by omega)
    rw [this]
    have : 2 * natOfDigits radix s < 2 ^ 64 := by omega
    rw [if_pos this]
  · intro h
    have : ¬ natOfDigits radix s < 2 ^ 63 := by omega
    simp [parseRadix, this]

/-- the radix is chosen by the token kind; the `0x` / `0b` prefix is dropped -/
theorem C08_literal_radix (text : Str) (s e : Nat) :
    absTok ⟨.DecInt, text, s, e⟩ = .num (parseRadix 10 text) ∧
    absTok ⟨.HexInt, text, s, e⟩ = .num (parseRadix 16 (text.drop 2)) ∧
    absTok ⟨.BinInt, text, s, e⟩ = .num (parseRadix 2 (text.drop 2)) ∧
    absTok ⟨.OctInt, text, s, e⟩ = .num (parseRadix 8 text) := ⟨rfl, rfl, rfl, rfl⟩

/-! Non-vacuity -/
example : ((BTree.atom (.num 1)).addAll [(.add, .num 2), (.mul, .num 3), (.add, .num 4)]).toExpr =
    .bin .add (.bin .add (.num 1) (.bin .mul (.num 2) (.num 3))) (.num 4) := by
  simp [BTree.addAll, BTree.add, BTree.toExpr, BinOp.prec]
example : BinOp.div.eval Int64.minValue (-1) = some Int64.minValue := by decide
example : BinOp.shl.eval 1 64 = some 1 ∧ BinOp.shr.eval (-16) 66 = some (-4) := by decide
example : parseRadix 16 "7fffffffffffffff".toList = some Int64.maxValue ∧ parseRadix 10 "9223372036854775808".toList = none := by
  decide

/-- **The parsed expression is the tree its tokens denote**: whenever `parse_expr` succeeds, the tokens it
consumed are a phrase `factor (op factor)*` of the grammar and the result is the tree `BTree.add` builds from that
in-order sequence (`C08_chain_sound` / `_complete` / `_unique` say which tree that is: the only one with that
sequence in which precedence decreases towards the root and equal levels lean to the left); parentheses, unary
operators and function arguments recurse into phrases of the same grammar. -/
theorem C08_parse_denotes (fuel : Nat) (st : PState) (e : Expr) (st' : PState) (h : parseExpr fuel st = .ok e st') :
    ∃ u, st.toks = u ++ st'.toks ∧ DExpr u e :=
  (exprD fuel).expr st e st' h

/-- non-vacuity, and the grammar at work: `1 + 2 * 3` denotes `1 + (2 * 3)` -/
example : DExpr [.num (some 1), .sym .Plus, .num (some 2), .sym .Times, .num (some 3)]
    (.bin .add (.num 1) (.bin .mul (.num 2) (.num 3))) := by
  have h := DExpr.chain [.num (some 1)] (.num 1) [.sym .Plus, .num (some 2), .sym .Times, .num (some 3)]
    [(.add, .num 2), (.mul, .num 3)] (DFactor.num 1)
    (DChain.cons (.sym .Plus) .add [.num (some 2)] (.num 2) [.sym .Times, .num (some 3)] [(.mul, .num 3)] (by decide)
      (DFactor.num 2)
      (by
        have := DChain.cons (.sym .Times) .mul [.num (some 3)] (.num 3) [] [] (by decide) (DFactor.num 3) DChain.nil
        simpa using this))
  simpa [BTree.add, BTree.toExpr, BinOp.prec] using h

/-- **Every phrase of the grammar is accepted, with its denotation** — the converse of `C08_parse_denotes`: if the
tokens `u` are an expression of the grammar denoting `e` and are followed by a token that cannot continue an expression
(neither a binary operator nor `(`), `parse_expr` consumes exactly `u` and returns `e`; `2·|u| + 2` levels of recursion
suffice.  Together: the expression parser accepts exactly the language of `Spec/Grammar.lean` and computes its
denotation — the tree that `C08_chain_sound`/`_complete`/`_unique` characterise by precedence and left associativity. -/
theorem C08_parse_complete (u : List ATok) (e : Expr) (h : DExpr u e) (fuel : Nat) (st : PState) (rest : List ATok)
    (hf : 2 * u.length + 2 ≤ fuel) (hst : st.toks = u ++ rest) (hs : RoundTrip.Stop rest) :
    ∃ st', parseExpr fuel st = .ok e st' ∧ st'.toks = rest :=
  RoundTrip.cE h fuel st rest hf hst hs

/-- **The grammar is unambiguous**: a token list denotes at most one expression (both denotations are what the
deterministic parser returns on it). -/
theorem C08_grammar_unambiguous (u : List ATok) (e e' : Expr) (h : DExpr u e) (h' : DExpr u e') : e = e' := by
  have hs : RoundTrip.Stop [.sym .Eof] := ⟨_, _, rfl, rfl, by simp⟩
  obtain ⟨s1, h1, _⟩ := C08_parse_complete u e h (2 * u.length + 2) { toks := u ++ [.sym .Eof] } [.sym .Eof] (Nat.le_refl _) rfl hs
  obtain ⟨s2, h2, _⟩ := C08_parse_complete u e' h' (2 * u.length + 2) { toks := u ++ [.sym .Eof] } [.sym .Eof] (Nat.le_refl _) rfl hs
  rw [h1] at h2
  cases h2
  rfl

/-- **Round trip**: `parse (render e) = e` — the fully parenthesised rendering of any expression whose calls name table
functions at their arity is read back as that very expression, consuming exactly the rendering. -/
theorem C08_parse_render (e : Expr) (hw : e.WF) (fuel : Nat) (st : PState) (rest : List ATok)
    (hf : 3 * RoundTrip.sz e ≤ fuel) (hst : st.toks = RoundTrip.render e ++ rest) (hs : RoundTrip.Stop rest) :
    ∃ st', parseExpr fuel st = .ok e st' ∧ st'.toks = rest :=
  RoundTrip.rt_expr e hw fuel hf st rest hst hs

/-- non-vacuity: a rendering, and a well-formed expression with every kind of node -/
example : RoundTrip.render (.bin .add (.num 1) (.un .neg (.var "a"))) =
    [.sym .LParen, .num (some 1), .sym .RParen, .sym .Plus, .sym .LParen, .sym .Minus, .sym .LParen, .ident "a", .sym .RParen, .sym .RParen] := by
  rfl
example : Expr.WF (.call "ite" [.bin .lt (.var "a") (.num 2), .un .bnot (.num 0), .call "random" [.num 8]]) := by
  simp [Expr.WF, Expr.WFList, funcArity]

/-- **The precedence table is the source's** (`Dtr/Generated/Tables.lean`, regenerated from `/repo` on every run by
`tools/gen_tables.py`): every operator token of `src/lexer/token.rs` that `From<TokenKind> for BinOp` maps denotes an
operator of the model, every operator of the model is denoted by one, and the model's precedences are ordered exactly
as the numbers of `BinOp::precedence` in `src/parser/binoptree.rs`.  (Vacuous when the translator does not recognise
the source's shape; then the table dump through the hooks is the tie.) -/
theorem C08_precedence_from_source : binopPrecedenceOK = true := binopPrecedence_from_source

/-- likewise the unary operators: the tokens `From<TokenKind> for UnaryOp` maps are exactly the model's `-`, `!`, `~` -/
theorem C08_unary_from_source : unaryOperatorsOK = true := unaryOperators_from_source

end Dtr
