import Dtr.Proofs.ParserBlocks
/-!
# C09 — parsing is total: any text gives a test or a located error, never a panic
-/
namespace Dtr

/-- the body lexer always ends its output with one `Eof` token -/
theorem lexBody_last : ∀ (f off : Nat) (s : Str), ∃ o, (lexBody f off s).getLast? = some ⟨.Eof, [], o, o⟩
  | 0, off, s => ⟨off, by simp [lexBody]⟩
  | f+1, off, [] => ⟨off, by simp [lexBody]⟩
  | f+1, off, c :: cs => by
    simp only [lexBody]
    split
    · exact lexBody_last f _ _
    · split
      · exact lexBody_last f _ _
      · obtain ⟨o, ho⟩ := lexBody_last f (off + utf8Len ((c :: cs).take (tokLen (c :: cs)))) ((c :: cs).drop (tokLen (c :: cs)))
        refine ⟨o, ?_⟩
        rw [List.getLast?_cons]
        simp only [ho, Option.getD_some]

theorem absToks_last (off : Nat) (s : Str) : ((lexBodyAll off s).map absTok).getLast? = some (.sym .Eof) := by
  obtain ⟨o, ho⟩ := lexBody_last (s.length + 1) off s
  unfold lexBodyAll
  rw [List.getLast?_map, ho]
  rfl

/-- the initial parser state is a valid cursor at position 0 -/
theorem init_cursor (all : List ATok) (line : Nat) (h : all.getLast? = some (.sym .Eof)) :
    JT all line 0 { toks := all, line := line } := by
  have hne : all ≠ [] := by intro e; rw [e] at h; cases h
  refine ⟨⟨by simp, by simp [countEol], by simp⟩, Nat.le_refl _, ?_, trivial⟩
  show 0 < all.length
  exact List.length_pos_iff.mpr hne

/-- **The body parser never panics**, for every token list the lexer can produce (any list ending
in `Eof`), every header, every line offset and *every* amount of fuel. -/
theorem C09_body_no_panic (hdr : List String) (line fuel : Nat) (atoks : List ATok)
    (h : atoks.getLast? = some (.sym .Eof)) (m : String) :
    parseBlock hdr fuel none [] { toks := atoks, line := line } ≠ .panic m := by
  have := (blockOK (l0 := line) h hdr fuel).block 0 none [] (by intro k hk; cases hk) trivial _ (init_cursor atoks line h)
  intro hp
  rw [hp] at this
  exact this

/-- **Parsing any string never panics**: `ParsedTestCase::parse` returns a parsed test, a parse
error, or (in the model only) "out of fuel" — never a panic.  (That the fuel `parseFuel` is always
enough is checked by the correspondence run on every case; see the evidence.) -/
theorem C09_no_panic (s : Str) (m : String) : parseTest s ≠ .panic m := by
  unfold parseTest
  cases hh : parseHeaderAll s with
  | err spans => simp
  | ok names line off rest =>
    simp only
    have hl := absToks_last off rest
    unfold parseBody
    cases hp : parseBlock (names.map (·.1)) (parseFuel ((lexBodyAll off rest).map absTok).length) none []
        { toks := (lexBodyAll off rest).map absTok, line := line } with
    | ok b st => simp
    | err t l => simp
    | fuel => simp
    | panic m' => exact absurd hp (C09_body_no_panic _ _ _ _ hl m')

/-- the header lexer/parser has no panic outcome at all -/
theorem C09_header_total (s : Str) : (∃ names line off rest, parseHeaderAll s = .ok names line off rest) ∨
    ∃ spans, parseHeaderAll s = .err spans := by
  cases h : parseHeaderAll s with
  | ok names line off rest => exact Or.inl ⟨names, line, off, rest, rfl⟩
  | err spans => exact Or.inr ⟨spans, rfl⟩

end Dtr
