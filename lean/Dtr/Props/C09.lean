import Dtr.Proofs.ParserBlocks
import Dtr.Proofs.ParserFuel
import Dtr.Proofs.Spans
/-!
# C09 — parsing is total: any text gives a test or a located error, never a panic
-/
namespace Dtr

/-- the body lexer always ends its output with one `Eof` token -/
theorem lexBody_last : ∀ (f off : Nat) (s : Str), ∃ o, (lexBody f off s).getLast? = some ⟨.Eof, [], o, o⟩
  | 0, off, s => ⟨off, by simp [lexBody]⟩
  | f+1, off, [] => ⟨off, by simp [lexBody]⟩
  | f+1, off, c :: cs => by
    simp only [lexBody]
    split
    · exact lexBody_last f _ _
    · split
      · exact lexBody_last f _ _
      · obtain ⟨o, ho⟩ := lexBody_last f (off + utf8Len ((c :: cs).take (tokLen (c :: cs)))) ((c :: cs).drop (tokLen (c :: cs)))
        refine ⟨o, ?_⟩
        rw [List.getLast?_cons]
        simp only [ho, Option.getD_some]

theorem absToks_last (off : Nat) (s : Str) : ((lexBodyAll off s).map absTok).getLast? = some (.sym .Eof) := by
  obtain ⟨o, ho⟩ := lexBody_last (s.length + 1) off s
  unfold lexBodyAll
  rw [List.getLast?_map, ho]
  rfl

/-- the initial parser state is a valid cursor at position 0 -/
theorem init_cursor (all : List ATok) (line : Nat) (h : all.getLast? = some (.sym .Eof)) :
    JT all line 0 { toks := all, line := line } := by
  have hne : all ≠ [] := by intro e; rw [e] at h; cases h
  refine ⟨⟨by simp, by simp [countEol], by simp⟩, Nat.le_refl _, ?_, trivial⟩
  show 0 < all.length
  exact List.length_pos_iff.mpr hne

/-- **The body parser never panics**, for every token list the lexer can produce (any list ending
in `Eof`), every header, every line offset and *every* amount of fuel. -/
theorem C09_body_no_panic (hdr : List String) (line fuel : Nat) (atoks : List ATok)
    (h : atoks.getLast? = some (.sym .Eof)) (m : String) :
    parseBlock hdr fuel none [] { toks := atoks, line := line } ≠ .panic m := by
  have := (blockOK (l0 := line) h hdr fuel).block 0 none [] (by intro k hk; cases hk) trivial _ (init_cursor atoks line h)
  intro hp
  rw [hp] at this
  exact this

/-- **Parsing any string never panics**: `ParsedTestCase::parse` returns a parsed test, a parse
error, or (in the model only) "out of fuel" — never a panic.  (`C09_terminates` below rules out
"out of fuel".) -/
theorem C09_no_panic (s : Str) (m : String) : parseTest s ≠ .panic m := by
  unfold parseTest
  cases hh : parseHeaderAll s with
  | err spans => simp
  | ok names line off rest =>
    simp only
    have hl := absToks_last off rest
    unfold parseBody
    cases hp : parseBlock (names.map (·.1)) (parseFuel ((lexBodyAll off rest).map absTok).length) none []
        { toks := (lexBodyAll off rest).map absTok, line := line } with
    | ok b st => simp
    | err t l => simp
    | fuel => simp
    | panic m' => exact absurd hp (C09_body_no_panic _ _ _ _ hl m')

/-- the header lexer/parser has no panic outcome at all -/
theorem C09_header_total (s : Str) : (∃ names line off rest, parseHeaderAll s = .ok names line off rest) ∨
    ∃ spans, parseHeaderAll s = .err spans := by
  cases h : parseHeaderAll s with
  | ok names line off rest => exact Or.inl ⟨names, line, off, rest, rfl⟩
  | err spans => exact Or.inr ⟨spans, rfl⟩

/-- **Parsing terminates**: the recursion of the parser is bounded by the number of tokens, so the
model never reports "out of fuel" — for every string `parseTest` is a parsed test or a parse error.
(Header scanner and body lexer are structural recursions on the text, one character or more per
step; the parser's fuel `parseFuel` bounds the *depth* of its recursion and is always enough.) -/
theorem C09_terminates (s : Str) : parseTest s ≠ .fuel := by
  unfold parseTest
  cases hh : parseHeaderAll s with
  | err spans => simp
  | ok names line off rest =>
    simp only
    have := parseBody_gsat (names.map (·.1)) line ((lexBodyAll off rest).map absTok)
    cases hp : parseBody (names.map (·.1)) line ((lexBodyAll off rest).map absTok) with
    | ok b st => simp
    | err t l => simp
    | panic m => simp
    | fuel => rw [hp] at this; exact this.elim

/-- `parseTest` is total in the plain sense: a parsed test or an error, nothing else -/
theorem C09_total (s : Str) : (∃ p, parseTest s = .ok p) ∨ ∃ tag spans, parseTest s = .err tag spans := by
  cases h : parseTest s with
  | ok p => exact Or.inl ⟨p, rfl⟩
  | err t l => exact Or.inr ⟨t, l, rfl⟩
  | panic m => exact absurd h (C09_no_panic s m)
  | fuel => exact absurd h (C09_terminates s)

/-- **Every location of a returned parse error lies in the source text on character boundaries**:
both ends of every span are byte lengths of prefixes of the source made of whole characters
(`IsBnd`, hence `≤` the length of the text), and no span runs backwards.  Covers the header's
errors, every error of the body parser (token spans, ranges between two tokens, the end of input). -/
theorem C09_error_spans_valid (s : Str) (tag : String) (spans : List (Nat × Nat))
    (h : parseTest s = .err tag spans) : ∀ sp ∈ spans, SpanOK s sp := by
  unfold parseTest at h
  have hH := parseHeader_spans s (s.length + 1) [] s 1 [] rfl (by intro x hx; cases hx)
  rw [utf8Len_nil] at hH
  change HdrPost s (parseHeaderAll s) at hH
  cases hh : parseHeaderAll s with
  | err sp0 =>
    rw [hh] at h hH
    simp only [ParseOut.err.injEq] at h
    obtain ⟨_, rfl⟩ := h
    exact hH
  | ok names line off rest =>
    rw [hh] at h hH
    simp only at h
    obtain ⟨_, pre, hsrc, hoff⟩ := hH
    subst hoff
    have hg := parseBody_gsat (names.map (·.1)) line ((lexBodyAll (utf8Len pre) rest).map absTok)
    cases hp : parseBody (names.map (·.1)) line ((lexBodyAll (utf8Len pre) rest).map absTok) with
    | ok b st => rw [hp] at h; cases h
    | panic m => rw [hp] at h; cases h
    | fuel => rw [hp] at h; cases h
    | err t l =>
      rw [hp] at h hg
      simp only [ParseOut.err.injEq] at h
      obtain ⟨_, rfl⟩ := h
      intro sp hsp
      simp only [List.mem_map] at hsp
      obtain ⟨loc, hl, rfl⟩ := hsp
      have hok := hg loc hl
      rw [List.length_map] at hok
      cases loc with
      | tok i => exact tokSpan_ok s pre rest hsrc i hok
      | range i j => exact tokSpan_range s pre rest hsrc i j hok.1 hok.2
      | inputEnd => exact ⟨isBnd_len s, isBnd_len s, Nat.le_refl _⟩

/-- the spans a *successful* parse records — header names, first `C` of a column, first read of a
name, `declare` statements — are usable too (they are what a later binding error points at) -/
theorem C09_parsed_spans_valid (s : Str) (p : Parsed) (h : parseTest s = .ok p) :
    (∀ sp ∈ p.sigSpans, SpanOK s sp) ∧ (∀ x ∈ p.expIn, SpanOK s x.2) ∧ (∀ x ∈ p.reads, SpanOK s x.2) ∧
    (∀ x ∈ p.virt, SpanOK s x.2.1) := by
  unfold parseTest at h
  have hH := parseHeader_spans s (s.length + 1) [] s 1 [] rfl (by intro x hx; cases hx)
  rw [utf8Len_nil] at hH
  change HdrPost s (parseHeaderAll s) at hH
  cases hh : parseHeaderAll s with
  | err sp0 => rw [hh] at h; cases h
  | ok names line off rest =>
    rw [hh] at h hH
    simp only at h
    obtain ⟨hnames, pre, hsrc, hoff⟩ := hH
    subst hoff
    have hg := parseBody_gsat (names.map (·.1)) line ((lexBodyAll (utf8Len pre) rest).map absTok)
    cases hp : parseBody (names.map (·.1)) line ((lexBodyAll (utf8Len pre) rest).map absTok) with
    | err t l => rw [hp] at h; cases h
    | panic m => rw [hp] at h; cases h
    | fuel => rw [hp] at h; cases h
    | ok b st =>
      rw [hp] at h hg
      simp only [ParseOut.ok.injEq] at h
      subst h
      have hG : G _ 0 st := hg
      rw [List.length_map] at hG
      refine ⟨?_, ?_, ?_, ?_⟩
      · intro sp hsp
        simp only [List.mem_map] at hsp
        obtain ⟨x, hx, rfl⟩ := hsp
        exact hnames x hx
      · intro x hx
        simp only [List.mem_map] at hx
        obtain ⟨⟨n, i⟩, hr, rfl⟩ := hx
        exact tokSpan_ok s pre rest hsrc i (hG.expIn _ hr)
      · intro x hx
        simp only [List.mem_map] at hx
        obtain ⟨⟨n, i⟩, hr, rfl⟩ := hx
        exact tokSpan_ok s pre rest hsrc i (hG.reads _ hr)
      · intro x hx
        simp only [List.mem_map] at hx
        obtain ⟨⟨n, ⟨i, j⟩, e⟩, hr, rfl⟩ := hx
        have := hG.virt _ hr
        exact tokSpan_range s pre rest hsrc i j this.1 this.2

/-- the hypothesis is met: an error behind multi-byte characters (`ü` occupies bytes 7 and 8) -/
example : (match parseTest ['é',' ','A','\n','1',' ','ü',' ','2','\n'] with
    | .err _ sp => sp == [(7, 9)] | _ => false) = true := by decide +kernel

end Dtr
