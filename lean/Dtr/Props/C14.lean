import Dtr.Proofs.RowIt
import Dtr.Model.AfterError
/-!
# C14 — virtual signals are computed from the same row's outputs, blind to variables
-/
namespace Dtr

/-- **The value of a virtual entry** is its expression evaluated in the swapped context: outputs =
this call's answer (set just before), variables = the spare store. -/
theorem C14_virtual_value (tc : TestCase) (outs : List OutEntry) (c : Ctx) (i : EIdx) (e : Expr) :
    extractOne tc outs c (i, .virt e) =
      match evalE e c with
      | .ok (v, c') => .ok (.val v, c')
      | .err er => .err (.expr er)
      | .panic m => .panic m := by
  simp only [extractOne]
  cases evalE e c with
  | ok p => obtain ⟨v, c'⟩ := p; rfl
  | err er => rfl
  | panic m => rfl

/-- **Blind to variables**: with the spare store empty (which it always is, see below), a name
inside a virtual-signal expression means the device output of that name, whatever variables exist. -/
theorem C14_blind_to_variables (c : Ctx) (name : String) (h : c.alt.values = []) :
    c.swapVars.get name = c.outOf name := by
  simp [Ctx.swapVars, Ctx.get, FMap.get, h, Ctx.outOf]

/-- the spare store is empty after construction and no `next` changes it -/
theorem C14_spare_store_invariant {δ : Type} (tc : TestCase) (drv : Driver δ) (fuel : Nat) (s s' : RowIt) (d d' : δ)
    (r : DataRow) (calls : List Call) (h : s.next tc drv fuel d = .item (.row r) s' d' calls) :
    s'.ctx.alt = s.ctx.alt := by
  unfold RowIt.next at h
  cases hg : getRow tc fuel s with
  | err e => simp [hg] at h
  | panic m => simp [hg] at h
  | fuel => simp [hg] at h
  | none s1 => simp [hg] at h
  | row ev sg =>
    have hctx := getRow_ctx tc fuel s sg ev hg
    simp only [hg] at h
    split at h
    · split at h
      · cases h
      · next d1 outs hrw =>
        split at h
        · next vals c2 hx =>
          cases h
          -- extraction swaps twice
          unfold extractOutputs at hx
          split at hx
          · cases hx
          · split at hx
            · next vs c3 he =>
              cases hx
              have hk : ∀ (ps : List (EIdx × OIdx)) (ca cb : Ctx) (vs : List OutVal),
                  extractAll tc outs ca ps = .ok (vs, cb) → cb.vars = ca.vars ∧ cb.alt = ca.alt := by
                intro ps
                induction ps with
                | nil => intro ca cb vs h; simp [extractAll] at h; obtain ⟨_, rfl⟩ := h; exact ⟨rfl, rfl⟩
                | cons p ps ih =>
                  intro ca cb vs h
                  simp only [extractAll] at h
                  split at h
                  · next v c1 h1 =>
                    split at h
                    · next vs' c4 h2 =>
                      cases h
                      have h1' : c1.vars = ca.vars ∧ c1.alt = ca.alt := by
                        unfold extractOne at h1
                        split at h1
                        · split at h1
                          · cases h1
                          · split at h1
                            · cases h1
                            · split at h1 <;> cases h1; exact ⟨rfl, rfl⟩
                        · split at h1
                          · next v' c'' hev => cases h1; exact ⟨(evalE_vars hev).1, (evalE_vars hev).2.1⟩
                          · cases h1
                          · cases h1
                        · cases h1; exact ⟨rfl, rfl⟩
                      have := ih c1 cb vs' h2
                      exact ⟨this.1.trans h1'.1, this.2.trans h1'.2⟩
                    · cases h
                    · cases h
                  · cases h
                  · cases h
              have := hk _ _ _ _ he
              simp only [Ctx.swapVars, Ctx.setOutputs] at this ⊢
              exact this.1.trans hctx.2.1
            · cases hx
            · cases hx
        · cases h
        · cases h
    · split at h
      · cases h
      · cases h; exact hctx.2.1

/-- **A `Z` or `X` output read by a virtual-signal expression makes the row an error item** (not a
panic, not a value). -/
theorem C14_zx_is_error (tc : TestCase) (outs : List OutEntry) (c : Ctx) (i : EIdx) (name : String) (v : OutVal)
    (hv : v = .z ∨ v = .x) (hg : c.get name = some v) :
    extractOne tc outs c (i, .virt (.var name)) = .err (.expr (.unexpectedValue name v)) := by
  rcases hv with rfl | rfl <;> simp [extractOne, evalE, evalG, hg]

/-- virtual signals are 64 bits wide and their expected value comes from the column of their name
(or `X`): instances of `C07_virtual_64` and `C06_expected_binding`. -/
theorem C14_index_is_virtual (tc : TestCase) (outs : List OutEntry) (i : EIdx) (s : Signal) (e : Expr)
    (hs : tc.signals[i.sig]? = some s) (ht : s.typ = .virt e) :
    oidxFor tc outs i = .ok (.virt e, i.sig) := by
  simp [oidxFor, hs, ht]

/-- **The blindness survives a refused answer**: behind an error item of the IO step — a driver error, an answer of the
wrong shape, a virtual signal that cannot be evaluated — the spare store is still the one it was (the two stores are
swapped back also on the error path), so the virtual signals of the following rows are again evaluated without the
program's variables (`RowIt.nextC`: the state of the code behind every item). -/
theorem C14_spare_store_behind_error {δ : Type} (tc : TestCase) (drv : Driver δ) (fuel : Nat) (s s' : RowIt) (d d' : δ)
    (e : IterErr) (calls : List Call) (hc : calls ≠ [])
    (h : s.nextC tc drv fuel d = .item (.err e) s' d' calls) :
    s'.ctx.alt = s.ctx.alt := by
  unfold RowIt.nextC at h
  cases hg : getRow tc fuel s with
  | err e1 => simp only [hg, NextOut.item.injEq] at h; exact absurd h.2.2.2.symm hc
  | panic m => simp [hg] at h
  | fuel => simp [hg] at h
  | none s1 => simp [hg] at h
  | row ev sg =>
    have hctx := getRow_ctx tc fuel s sg ev hg
    simp only [hg] at h
    split at h
    · split at h
      · simp only [NextOut.item.injEq] at h; rw [← h.2.1]; exact hctx.2.1
      · split at h
        · cases h
        · simp only [NextOut.item.injEq] at h
          rw [← h.2.1]
          simp only
          unfold extractCtxAfter
          split
          · exact hctx.2.1
          · exact hctx.2.1
        · cases h
    · split at h
      · simp only [NextOut.item.injEq] at h; rw [← h.2.1]; exact hctx.2.1
      · cases h

end Dtr
