import Dtr.Model.Dig
import Dtr.Proofs.PosOf
/-!
# C16 — loading a `.dig` document is total and recovers the circuit interface and its tests

Partial by nature: the text → DOM step is roxmltree's and is trusted (the correspondence run feeds
the model the DOM roxmltree actually built, for well-formed and for corrupted documents alike).
Proved: everything after it, for every DOM.
-/
namespace Dtr

/-- the first signal with a given name -/
def firstNamed (n : String) (sigs : List Signal) : Option Signal := sigs.find? (fun s => s.name == n)

def isInputTyp (s : Signal) : Bool := match s.typ with | .input _ => true | _ => false

theorem makeBidirectional_ok (n : String) : ∀ (sigs : List Signal) (s : Signal),
    firstNamed n sigs = some s → isInputTyp s = true →
    ∃ sigs', makeBidirectional n sigs = .ok sigs' ∧
      ∀ m, m ≠ n → firstNamed m sigs' = firstNamed m sigs
  | [], s, h, _ => by simp [firstNamed] at h
  | x :: rest, s, h, hin => by
    simp only [firstNamed, List.find?] at h
    by_cases hx : (x.name == n) = true
    · simp only [hx] at h
      cases h
      simp only [makeBidirectional, hx, if_true]
      cases ht : x.typ with
      | input d =>
        refine ⟨_, rfl, ?_⟩
        intro m hm
        have : (x.name == m) = false := by
          have : x.name = n := by simpa using hx
          simp [this, Ne.symm hm]
        simp [firstNamed, List.find?, this]
      | output => simp [isInputTyp, ht] at hin
      | bidir d => simp [isInputTyp, ht] at hin
      | virt e => simp [isInputTyp, ht] at hin
    · have hx' : (x.name == n) = false := by simpa using hx
      simp only [hx'] at h
      obtain ⟨rest', hr, hk⟩ := makeBidirectional_ok n rest s h hin
      refine ⟨x :: rest', by simp [makeBidirectional, hx', hr], ?_⟩
      intro m hm
      simp only [firstNamed, List.find?]
      cases (x.name == m)
      · exact hk m hm
      · rfl

theorem makeAll_ok : ∀ (ns : List String) (sigs : List Signal), ns.Nodup →
    (∀ n ∈ ns, ∃ s, firstNamed n sigs = some s ∧ isInputTyp s = true) →
    ∃ sigs', makeAllBidirectional ns sigs = .ok sigs'
  | [], sigs, _, _ => ⟨sigs, rfl⟩
  | n :: ns, sigs, hnd, h => by
    obtain ⟨s, hs, hi⟩ := h n (by simp)
    obtain ⟨sigs1, h1, hk⟩ := makeBidirectional_ok n sigs s hs hi
    have hnd' := (List.nodup_cons.mp hnd)
    obtain ⟨sigs', h'⟩ := makeAll_ok ns sigs1 hnd'.2 (by
      intro m hm
      have hne : m ≠ n := fun e => hnd'.1 (e ▸ hm)
      obtain ⟨s', hs', hi'⟩ := h m (by simp [hm])
      exact ⟨s', by rw [hk m hne]; exact hs', hi'⟩)
    exact ⟨sigs', by simp [makeAllBidirectional, h1, h']⟩

theorem dedup_mem : ∀ (l : List String) (a : String), a ∈ dedupNames l → a ∈ l
  | [], a, h => by simp [dedupNames] at h
  | x :: xs, a, h => by
    simp only [dedupNames] at h
    split at h
    · exact List.mem_cons_of_mem _ (dedup_mem xs a h)
    · simp only [List.mem_cons] at h
      rcases h with rfl | h
      · simp
      · exact List.mem_cons_of_mem _ (dedup_mem xs a h)

theorem dedup_nodup : ∀ (l : List String), (dedupNames l).Nodup
  | [] => by simp [dedupNames]
  | x :: xs => by
    simp only [dedupNames]
    split
    · exact dedup_nodup xs
    · next hc =>
      refine List.nodup_cons.mpr ⟨?_, dedup_nodup xs⟩
      intro hm
      have := dedup_mem xs x hm
      simp [this] at hc

/-- every name the classification marks as bidirectional is the name of an input-capable signal -/
theorem classify_bi (signals : List Signal) : ∀ (names : List String) (n : String),
    n ∈ (classifyNames signals names).1 → signals.any (fun s => s.name == n && s.isInput) = true
  | [], n, h => by simp [classifyNames] at h
  | name :: rest, n, h => by
    simp only [classifyNames] at h
    split at h
    · next stripped hs =>
      split at h
      · next hc =>
        simp only [List.mem_cons] at h
        rcases h with rfl | h
        · simp only [Bool.and_eq_true] at hc; exact hc.2
        · exact classify_bi signals rest n h
      · exact classify_bi signals rest n h
    · exact classify_bi signals rest n h

/-- in `inputs ++ outputs` the first signal of a name that some input-capable signal carries is an input -/
theorem first_is_input (inputs outputs : List Signal)
    (hin : ∀ s ∈ inputs, isInputTyp s = true) (hout : ∀ s ∈ outputs, s.isInput = false) (n : String)
    (h : (inputs ++ outputs).any (fun s => s.name == n && s.isInput) = true) :
    ∃ s, firstNamed n (inputs ++ outputs) = some s ∧ isInputTyp s = true := by
  simp only [List.any_append, Bool.or_eq_true, List.any_eq_true, Bool.and_eq_true] at h
  have hI : ∃ x ∈ inputs, (x.name == n) = true := by
    rcases h with ⟨x, hx, hn, _⟩ | ⟨x, hx, _, hi⟩
    · exact ⟨x, hx, hn⟩
    · rw [hout x hx] at hi; cases hi
  obtain ⟨x, hx, hn⟩ := hI
  cases hf : inputs.find? (fun s => s.name == n) with
  | none =>
    have := List.find?_eq_none.mp hf x hx
    simp [hn] at this
  | some s =>
    refine ⟨s, by simp [firstNamed, List.find?_append, hf], hin s (List.mem_of_find?_eq_some hf)⟩

theorem digInputs_typ (doc : Xml) : ∀ s ∈ digInputs doc, isInputTyp s = true := by
  intro s hs
  simp only [digInputs, List.mem_filterMap] at hs
  obtain ⟨node, _, hs⟩ := hs
  split at hs
  · cases hs; rfl
  · cases hs

theorem digOutputs_typ (doc : Xml) : ∀ s ∈ digOutputs doc, s.isInput = false := by
  intro s hs
  simp only [digOutputs, List.mem_map] at hs
  obtain ⟨⟨n', b'⟩, _, rfl⟩ := hs
  rfl

theorem digAssemble_no_panic (inputs outputs : List Signal) (tests : List TestDesc)
    (hin : ∀ s ∈ inputs, isInputTyp s = true) (hout : ∀ s ∈ outputs, s.isInput = false) :
    ∀ m, digAssemble inputs outputs tests ≠ .panic m := by
  intro m
  unfold digAssemble
  simp only
  cases hm : tests.mapM (fun t => headerNames t.source) with
  | none => simp
  | some hdrs =>
    simp only
    split
    · simp
    · have key : ∃ sigs', makeAllBidirectional (dedupNames (classifyNames (inputs ++ outputs) hdrs.flatten).1)
          (inputs ++ outputs) = .ok sigs' := by
        apply makeAll_ok
        · exact dedup_nodup _
        · intro n hn
          have hn' := dedup_mem _ n hn
          exact first_is_input inputs outputs hin hout n (classify_bi _ hdrs.flatten n hn')
      obtain ⟨sigs', hk⟩ := key
      simp [hk]

/-- **Loading never panics**, for every DOM: the `expect` and the `unreachable!` of the
bidirectional rewrite cannot be reached. -/
theorem C16_no_panic (doc : Xml) : ∀ m, digParse doc ≠ .panic m :=
  digAssemble_no_panic _ _ _ (digInputs_typ doc) (digOutputs_typ doc)

/-- a signal is rewritten to bidirectional only if a test header uses `<name>_out` where no pin is
itself called `<name>_out` and `<name>` is an input -/
theorem C16_bidirectional_only_if (signals : List Signal) (names : List String) (n : String)
    (h : n ∈ (classifyNames signals names).1) :
    signals.any (fun s => s.name == n && s.isInput) = true ∧
    ∃ name ∈ names, stripOut name = some n ∧ signals.any (fun s => s.name == name) = false := by
  refine ⟨classify_bi signals names n h, ?_⟩
  induction names with
  | nil => simp [classifyNames] at h
  | cons name rest ih =>
    simp only [classifyNames] at h
    split at h
    · next stripped hs =>
      split at h
      · next hc =>
        simp only [List.mem_cons] at h
        rcases h with rfl | h
        · refine ⟨name, by simp, hs, ?_⟩
          simp only [Bool.and_eq_true, Bool.not_eq_true'] at hc
          exact hc.1
        · obtain ⟨nm, hm, h1, h2⟩ := ih h
          exact ⟨nm, by simp [hm], h1, h2⟩
      · obtain ⟨nm, hm, h1, h2⟩ := ih h
        exact ⟨nm, by simp [hm], h1, h2⟩
    · obtain ⟨nm, hm, h1, h2⟩ := ih h
      exact ⟨nm, by simp [hm], h1, h2⟩

/-- the tests are kept as extracted, in document order, and the rewrite keeps names, widths and order
of the signals (inputs first, then outputs) -/
theorem C16_assemble (inputs outputs : List Signal) (tests : List TestDesc) (f : DigFile)
    (h : digAssemble inputs outputs tests = .ok f) : f.tests = tests := by
  unfold digAssemble at h
  simp only at h
  split at h
  · cases h
  · split at h
    · cases h
    · split at h
      · cases h; rfl
      · cases h
      · cases h

/-- `load_test(i)`: an out-of-range index is an error; otherwise it is "parse source `i`, bind the
result to the file's signals" -/
theorem C16_load_test (f : DigFile) (n : Nat) :
    (f.tests.length ≤ n → loadTest f n = .indexOutOfBounds) ∧
    (∀ t, f.tests[n]? = some t → loadTest f n = loadSource f.signals t.source) := by
  constructor
  · intro h; simp [loadTest, List.getElem?_eq_none h]
  · intro t ht; simp [loadTest, ht]

/-- `load_test_by_name` selects the first test with that label; an unknown name is an error -/
theorem C16_load_by_name (f : DigFile) (name : String) :
    (f.tests.find? (fun t => t.name == name) = none → loadTestByName f name = .notFound) ∧
    (∀ n, posOf (fun (t : TestDesc) => t.name == name) f.tests = some n →
      loadTestByName f name = loadTest f n ∧
      ∃ h : n < f.tests.length, f.tests.find? (fun t => t.name == name) = some f.tests[n]) := by
  constructor
  · intro h
    cases hp : posOf (fun (t : TestDesc) => t.name == name) f.tests with
    | none => simp [loadTestByName, hp]
    | some n =>
      obtain ⟨hlt, _, hf⟩ := posOf_some _ f.tests n hp
      rw [hf] at h; cases h
  · intro n hn
    obtain ⟨hlt, _, hf⟩ := posOf_some _ f.tests n hn
    exact ⟨by simp [loadTestByName, hn], hlt, hf⟩

/-- **Comments and processing instructions are not character data** (fix F18): removing every node that is neither
text nor an element from the children of an element leaves its character data — label, width, source text — unchanged,
wherever those nodes stood. -/
theorem C16_text_ignores_comments (t : String) (a : List (String × String)) (cs : List Xml) :
    (Xml.elem t a (cs.filter (fun c => match c with | .other => false | _ => true))).text? = (Xml.elem t a cs).text? := by
  have h : ∀ cs : List Xml, Xml.textsOf (cs.filter (fun c => match c with | .other => false | _ => true)) = Xml.textsOf cs := by
    intro cs
    induction cs with
    | nil => rfl
    | cons c cs ih =>
      cases c with
      | other => simp [List.filter, Xml.textsOf, ih]
      | text s => simp [List.filter, Xml.textsOf, ih]
      | elem t' a' cs' => simp [List.filter, Xml.textsOf, ih]
  simp only [Xml.text?, h]

/-- the character data of an element is the concatenation of its text children in document order -/
example : (Xml.elem "dataString" [] [.text "A B\n0 0\n", .other, .text "1 1\n"]).text? = some "A B\n0 0\n1 1\n" := by
  decide

end Dtr
