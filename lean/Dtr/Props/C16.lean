import Dtr.Model.Dig
import Dtr.Proofs.PosOf
/-!
# C16 — loading a `.dig` document is total and recovers the circuit interface and its tests

Partial by nature: the text → DOM step is roxmltree's and is trusted (the correspondence run feeds
the model the DOM roxmltree actually built, for well-formed and for corrupted documents alike).
Proved: everything after it, for every DOM.
-/
namespace Dtr

/-- the first signal with a given name -/
def firstNamed (n : String) (sigs : List Signal) : Option Signal := sigs.find? (fun s => s.name == n)

def isInputTyp (s : Signal) : Bool := match s.typ with | .input _ => true | _ => false

theorem makeBidirectional_ok (n : String) : ∀ (sigs : List Signal) (s : Signal),
    firstNamed n sigs = some s → isInputTyp s = true →
    ∃ sigs', makeBidirectional n sigs = .ok sigs' ∧
      ∀ m, m ≠ n → firstNamed m sigs' = firstNamed m sigs
  | [], s, h, _ => by simp [firstNamed] at h
  | x :: rest, s, h, hin => by
    simp only [firstNamed, List.find?] at h
    by_cases hx : (x.name == n) = true
    · simp only [hx] at h
      cases h
      simp only [makeBidirectional, hx, if_true]
      cases ht : x.typ with
      | input d =>
        refine ⟨_, rfl, ?_⟩
        intro m hm
        have : (x.name == m) = false := by
          have : x.name = n := by simpa using hx
          simp [this, Ne.symm hm]
        simp [firstNamed, List.find?, this]
      | output => simp [isInputTyp, ht] at hin
      | bidir d => simp [isInputTyp, ht] at hin
      | virt e => simp [isInputTyp, ht] at hin
    · have hx' : (x.name == n) = false := by simpa using hx
      simp only [hx'] at h
      obtain ⟨rest', hr, hk⟩ := makeBidirectional_ok n rest s h hin
      refine ⟨x :: rest', by simp [makeBidirectional, hx', hr], ?_⟩
      intro m hm
      simp only [firstNamed, List.find?]
      cases (x.name == m)
      · exact hk m hm
      · rfl

theorem makeAll_ok : ∀ (ns : List String) (sigs : List Signal), ns.Nodup →
    (∀ n ∈ ns, ∃ s, firstNamed n sigs = some s ∧ isInputTyp s = true) →
    ∃ sigs', makeAllBidirectional ns sigs = .ok sigs'
  | [], sigs, _, _ => ⟨sigs, rfl⟩
  | n :: ns, sigs, hnd, h => by
    obtain ⟨s, hs, hi⟩ := h n (by simp)
    obtain ⟨sigs1, h1, hk⟩ := makeBidirectional_ok n sigs s hs hi
    have hnd' := (List.nodup_cons.mp hnd)
    obtain ⟨sigs', h'⟩ := makeAll_ok ns sigs1 hnd'.2 (by
      intro m hm
      have hne : m ≠ n := fun e => hnd'.1 (e ▸ hm)
      obtain ⟨s', hs', hi'⟩ := h m (by simp [hm])
      exact ⟨s', by rw [hk m hne]; exact hs', hi'⟩)
    exact ⟨sigs', by simp [makeAllBidirectional, h1, h']⟩

theorem dedup_mem : ∀ (l : List String) (a : String), a ∈ dedupNames l → a ∈ l
  | [], a, h => by simp [dedupNames] at h
  | x :: xs, a, h => by
    simp only [dedupNames] at h
    split at h
    · exact List.mem_cons_of_mem _ (dedup_mem xs a h)
    · simp only [List.mem_cons] at h
      rcases h with rfl | h
      · simp
      · exact List.mem_cons_of_mem _ (dedup_mem xs a h)

theorem dedup_nodup : ∀ (l : List String), (dedupNames l).Nodup
  | [] => by simp [dedupNames]
  | x :: xs => by
    simp only [dedupNames]
    split
    · exact dedup_nodup xs
    · next hc =>
      refine List.nodup_cons.mpr ⟨?_, dedup_nodup xs⟩
      intro hm
      have := dedup_mem xs x hm
      simp [this] at hc

/-- every name the classification marks as bidirectional is the name of an input-capable signal -/
theorem classify_bi (signals : List Signal) : ∀ (names : List String) (n : String),
    n ∈ (classifyNames signals names).1 → signals.any (fun s => s.name == n && s.isInput) = true
  | [], n, h => by simp [classifyNames] at h
  | name :: rest, n, h => by
    simp only [classifyNames] at h
    split at h
    · next stripped hs =>
      split at h
      · next hc =>
        simp only [List.mem_cons] at h
        rcases h with rfl | h
        · simp only [Bool.and_eq_true] at hc; exact hc.2
        · exact classify_bi signals rest n h
      · exact classify_bi signals rest n h
    · exact classify_bi signals rest n h

/-- in `inputs ++ outputs` the first signal of a name that some input-capable signal carries is an input -/
theorem first_is_input (inputs outputs : List Signal)
    (hin : ∀ s ∈ inputs, isInputTyp s = true) (hout : ∀ s ∈ outputs, s.isInput = false) (n : String)
    (h : (inputs ++ outputs).any (fun s => s.name == n && s.isInput) = true) :
    ∃ s, firstNamed n (inputs ++ outputs) = some s ∧ isInputTyp s = true := by
  simp only [List.any_append, Bool.or_eq_true, List.any_eq_true, Bool.and_eq_true] at h
  have hI : ∃ x ∈ inputs, (x.name == n) = true := by
    rcases h with ⟨x, hx, hn, _⟩ | ⟨x, hx, _, hi⟩
    · exact ⟨x, hx, hn⟩
    · rw [hout x hx] at hi; cases hi
  obtain ⟨x, hx, hn⟩ := hI
  cases hf : inputs.find? (fun s => s.name == n) with
  | none =>
    have := List.find?_eq_none.mp hf x hx
    simp [hn] at this
  | some s =>
    refine ⟨s, by simp [firstNamed, List.find?_append, hf], hin s (List.mem_of_find?_eq_some hf)⟩

theorem digInputs_typ (doc : Xml) : ∀ s ∈ digInputs doc, isInputTyp s = true := by
  intro s hs
  simp only [digInputs, List.mem_filterMap] at hs
  obtain ⟨node, _, hs⟩ := hs
  split at hs
  · cases hs; rfl
  · cases hs

theorem digOutputs_typ (doc : Xml) : ∀ s ∈ digOutputs doc, s.isInput = false := by
  intro s hs
  simp only [digOutputs, List.mem_map] at hs
  obtain ⟨⟨n', b'⟩, _, rfl⟩ := hs
  rfl

theorem digAssemble_no_panic (inputs outputs : List Signal) (tests : List TestDesc)
    (hin : ∀ s ∈ inputs, isInputTyp s = true) (hout : ∀ s ∈ outputs, s.isInput = false) :
    ∀ m, digAssemble inputs outputs tests ≠ .panic m := by
  intro m
  unfold digAssemble
  simp only
  cases hm : tests.mapM (fun t => headerNames t.source) with
  | none => simp
  | some hdrs =>
    simp only
    split
    · simp
    · have key : ∃ sigs', makeAllBidirectional (dedupNames (classifyNames (inputs ++ outputs) hdrs.flatten).1)
          (inputs ++ outputs) = .ok sigs' := by
        apply makeAll_ok
        · exact dedup_nodup _
        · intro n hn
          have hn' := dedup_mem _ n hn
          exact first_is_input inputs outputs hin hout n (classify_bi _ hdrs.flatten n hn')
      obtain ⟨sigs', hk⟩ := key
      simp [hk]

/-- **Loading never panics**, for every DOM: the `expect` and the `unreachable!` of the
bidirectional rewrite cannot be reached. -/
theorem C16_no_panic (doc : Xml) : ∀ m, digParse doc ≠ .panic m :=
  digAssemble_no_panic _ _ _ (digInputs_typ doc) (digOutputs_typ doc)

/-- a signal is rewritten to bidirectional only if a test header uses `<name>_out` where no pin is
itself called `<name>_out` and `<name>` is an input -/
theorem C16_bidirectional_only_if (signals : List Signal) (names : List String) (n : String)
    (h : n ∈ (classifyNames signals names).1) :
    signals.any (fun s => s.name == n && s.isInput) = true ∧
    ∃ name ∈ names, stripOut name = some n ∧ signals.any (fun s => s.name == name) = false := by
  refine ⟨classify_bi signals names n h, ?_⟩
  induction names with
  | nil => simp [classifyNames] at h
  | cons name rest ih =>
    simp only [classifyNames] at h
    split at h
    · next stripped hs =>
      split at h
      · next hc =>
        simp only [List.mem_cons] at h
        rcases h with rfl | h
        · refine ⟨name, by simp, hs, ?_⟩
          simp only [Bool.and_eq_true, Bool.not_eq_true'] at hc
          exact hc.1
        · obtain ⟨nm, hm, h1, h2⟩ := ih h
          exact ⟨nm, by simp [hm], h1, h2⟩
      · obtain ⟨nm, hm, h1, h2⟩ := ih h
        exact ⟨nm, by simp [hm], h1, h2⟩
    · obtain ⟨nm, hm, h1, h2⟩ := ih h
      exact ⟨nm, by simp [hm], h1, h2⟩

/-- the tests are kept as extracted, in document order, and the rewrite keeps names, widths and order
of the signals (inputs first, then outputs) -/
theorem C16_assemble (inputs outputs : List Signal) (tests : List TestDesc) (f : DigFile)
    (h : digAssemble inputs outputs tests = .ok f) : f.tests = tests := by
  unfold digAssemble at h
  simp only at h
  split at h
  · cases h
  · split at h
    · cases h
    · split at h
      · cases h; rfl
      · cases h
      · cases h

/-- `load_test(i)`: an out-of-range index is an error; otherwise it is "parse source `i`, bind the
result to the file's signals" -/
theorem C16_load_test (f : DigFile) (n : Nat) :
    (f.tests.length ≤ n → loadTest f n = .indexOutOfBounds) ∧
    (∀ t, f.tests[n]? = some t → loadTest f n = loadSource f.signals t.source) := by
  constructor
  · intro h; simp [loadTest, List.getElem?_eq_none h]
  · intro t ht; simp [loadTest, ht]

/-- `load_test_by_name` selects the first test with that label; an unknown name is an error -/
theorem C16_load_by_name (f : DigFile) (name : String) :
    (f.tests.find? (fun t => t.name == name) = none → loadTestByName f name = .notFound) ∧
    (∀ n, posOf (fun (t : TestDesc) => t.name == name) f.tests = some n →
      loadTestByName f name = loadTest f n ∧
      ∃ h : n < f.tests.length, f.tests.find? (fun t => t.name == name) = some f.tests[n]) := by
  constructor
  · intro h
    cases hp : posOf (fun (t : TestDesc) => t.name == name) f.tests with
    | none => simp [loadTestByName, hp]
    | some n =>
      obtain ⟨hlt, _, hf⟩ := posOf_some _ f.tests n hp
      rw [hf] at h; cases h
  · intro n hn
    obtain ⟨hlt, _, hf⟩ := posOf_some _ f.tests n hn
    exact ⟨by simp [loadTestByName, hn], hlt, hf⟩

/-- **Comments and processing instructions are not character data** (fix F18): removing every node that is neither
text nor an element from the children of an element leaves its character data — label, width, source text — unchanged,
wherever those nodes stood. -/
theorem C16_text_ignores_comments (t : String) (a : List (String × String)) (cs : List Xml) :
    (Xml.elem t a (cs.filter (fun c => match c with | .other => false | _ => true))).text? = (Xml.elem t a cs).text? := by
  have h : ∀ cs : List Xml, Xml.textsOf (cs.filter (fun c => match c with | .other => false | _ => true)) = Xml.textsOf cs := by
    intro cs
    induction cs with
    | nil => rfl
    | cons c cs ih =>
      cases c with
      | other => simp [List.filter, Xml.textsOf, ih]
      | text s => simp [List.filter, Xml.textsOf, ih]
      | elem t' a' cs' => simp [List.filter, Xml.textsOf, ih]
  simp only [Xml.text?, h]

/-- the character data of an element is the concatenation of its text children in document order -/
example : (Xml.elem "dataString" [] [.text "A B\n0 0\n", .other, .text "1 1\n"]).text? = some "A B\n0 0\n1 1\n" := by
  decide


/-! ## The assembled signal list -/


/-- undo the bidirectional rewrite of one signal -/
def unBidir (s : Signal) : Signal :=
  match s.typ with
  | .bidir d => { s with typ := .input d }
  | _ => s

def isBidirTyp (s : Signal) : Bool := match s.typ with | .bidir _ => true | _ => false

theorem unBidir_of_not_bidir (s : Signal) (h : isBidirTyp s = false) : unBidir s = s := by
  unfold unBidir
  cases ht : s.typ <;> simp [isBidirTyp, ht] at h ⊢

/-- one rewrite step changes nothing but the type of one input, to the bidirectional type with the same default -/
theorem makeBidirectional_unBidir (n : String) : ∀ (sigs sigs' : List Signal),
    makeBidirectional n sigs = .ok sigs' → sigs'.map unBidir = sigs.map unBidir
  | [], sigs', h => by simp [makeBidirectional] at h
  | x :: rest, sigs', h => by
    simp only [makeBidirectional] at h
    split at h
    · cases ht : x.typ with
      | input d =>
        simp only [ht] at h
        cases h
        have : x = { name := x.name, bits := x.bits, typ := .input d } := by
          cases x; simp_all
        simp only [List.map_cons, unBidir, ht]
        rw [← this]
      | output => simp [ht] at h
      | bidir d => simp [ht] at h
      | virt e => simp [ht] at h
    · cases hr : makeBidirectional n rest with
      | ok rest' =>
        simp only [hr] at h
        cases h
        simp [makeBidirectional_unBidir n rest rest' hr]
      | err e => simp [hr] at h
      | panic m => simp [hr] at h

theorem makeAll_unBidir : ∀ (ns : List String) (sigs sigs' : List Signal),
    makeAllBidirectional ns sigs = .ok sigs' → sigs'.map unBidir = sigs.map unBidir
  | [], sigs, sigs', h => by simp [makeAllBidirectional] at h; rw [h]
  | n :: ns, sigs, sigs', h => by
    simp only [makeAllBidirectional] at h
    cases h1 : makeBidirectional n sigs with
    | ok s1 =>
      simp only [h1] at h
      rw [makeAll_unBidir ns s1 sigs' h, makeBidirectional_unBidir n sigs s1 h1]
    | err e => simp [h1] at h
    | panic m => simp [h1] at h

/-- a bidirectional signal behind a rewrite step was one before, or is the one named -/
theorem makeBidirectional_bidir (n : String) : ∀ (sigs sigs' : List Signal),
    makeBidirectional n sigs = .ok sigs' → ∀ s' ∈ sigs', isBidirTyp s' = true → s'.name = n ∨ s' ∈ sigs
  | [], sigs', h => by simp [makeBidirectional] at h
  | x :: rest, sigs', h => by
    simp only [makeBidirectional] at h
    split at h
    · next hx =>
      cases ht : x.typ with
      | input d =>
        simp only [ht] at h
        cases h
        intro s' hs' _
        simp only [List.mem_cons] at hs'
        rcases hs' with rfl | hs'
        · left; simpa using hx
        · right; simp [hs']
      | output => simp [ht] at h
      | bidir d => simp [ht] at h
      | virt e => simp [ht] at h
    · cases hr : makeBidirectional n rest with
      | ok rest' =>
        simp only [hr] at h
        cases h
        intro s' hs' hb
        simp only [List.mem_cons] at hs'
        rcases hs' with rfl | hs'
        · right; simp
        · rcases makeBidirectional_bidir n rest rest' hr s' hs' hb with h1 | h1
          · exact Or.inl h1
          · right; simp [h1]
      | err e => simp [hr] at h
      | panic m => simp [hr] at h

theorem makeAll_bidir : ∀ (ns : List String) (sigs sigs' : List Signal),
    makeAllBidirectional ns sigs = .ok sigs' → ∀ s' ∈ sigs', isBidirTyp s' = true → s'.name ∈ ns ∨ s' ∈ sigs
  | [], sigs, sigs', h => by
    simp [makeAllBidirectional] at h; subst h
    intro s' hs' _; exact Or.inr hs'
  | n :: ns, sigs, sigs', h => by
    simp only [makeAllBidirectional] at h
    cases h1 : makeBidirectional n sigs with
    | ok s1 =>
      simp only [h1] at h
      intro s' hs' hb
      rcases makeAll_bidir ns s1 sigs' h s' hs' hb with h2 | h2
      · left; simp [h2]
      · rcases makeBidirectional_bidir n sigs s1 h1 s' h2 hb with h3 | h3
        · left; simp [h3]
        · exact Or.inr h3
    | err e => simp [h1] at h
    | panic m => simp [h1] at h

/-- a rewrite step makes the FIRST signal of that name bidirectional and leaves the first signal of every other name
as it is -/
theorem makeBidirectional_first (n : String) : ∀ (sigs sigs' : List Signal),
    makeBidirectional n sigs = .ok sigs' →
    (∃ s, firstNamed n sigs' = some s ∧ isBidirTyp s = true) ∧
    ∀ m, m ≠ n → firstNamed m sigs' = firstNamed m sigs
  | [], sigs', h => by simp [makeBidirectional] at h
  | x :: rest, sigs', h => by
    simp only [makeBidirectional] at h
    split at h
    · next hx =>
      cases ht : x.typ with
      | input d =>
        simp only [ht] at h
        cases h
        refine ⟨⟨{ x with typ := .bidir d }, by simp [firstNamed, List.find?, hx], rfl⟩, ?_⟩
        intro m hm
        have : (x.name == m) = false := by
          have : x.name = n := by simpa using hx
          simp [this, Ne.symm hm]
        simp [firstNamed, List.find?, this]
      | output => simp [ht] at h
      | bidir d => simp [ht] at h
      | virt e => simp [ht] at h
    · next hx =>
      have hx' : (x.name == n) = false := by simpa using hx
      cases hr : makeBidirectional n rest with
      | ok rest' =>
        simp only [hr] at h
        cases h
        obtain ⟨⟨s, hs, hb⟩, hk⟩ := makeBidirectional_first n rest rest' hr
        refine ⟨⟨s, by simp [firstNamed, List.find?, hx']; exact hs, hb⟩, ?_⟩
        intro m hm
        simp only [firstNamed, List.find?]
        cases (x.name == m)
        · exact hk m hm
        · rfl
      | err e => simp [hr] at h
      | panic m => simp [hr] at h

theorem makeAll_first : ∀ (ns : List String) (sigs sigs' : List Signal), ns.Nodup →
    makeAllBidirectional ns sigs = .ok sigs' →
    (∀ n ∈ ns, ∃ s, firstNamed n sigs' = some s ∧ isBidirTyp s = true) ∧
    ∀ m, m ∉ ns → firstNamed m sigs' = firstNamed m sigs
  | [], sigs, sigs', _, h => by
    simp [makeAllBidirectional] at h; subst h
    exact ⟨by simp, fun _ _ => rfl⟩
  | n :: ns, sigs, sigs', hnd, h => by
    simp only [makeAllBidirectional] at h
    have hnd' := List.nodup_cons.mp hnd
    cases h1 : makeBidirectional n sigs with
    | ok s1 =>
      simp only [h1] at h
      obtain ⟨hn, hk1⟩ := makeBidirectional_first n sigs s1 h1
      obtain ⟨hall, hk⟩ := makeAll_first ns s1 sigs' hnd'.2 h
      constructor
      · intro m hm
        simp only [List.mem_cons] at hm
        rcases hm with rfl | hm
        · obtain ⟨s, hs, hb⟩ := hn
          exact ⟨s, by rw [hk _ hnd'.1]; exact hs, hb⟩
        · exact hall m hm
      · intro m hm
        simp only [List.mem_cons, not_or] at hm
        rw [hk m hm.2, hk1 m hm.1]
    | err e => simp [h1] at h
    | panic m => simp [h1] at h

/-- the names the assembly rewrites -/
def bidirNames (inputs outputs : List Signal) (tests : List TestDesc) : List String :=
  match tests.mapM (fun t => headerNames t.source) with
  | none => []
  | some hdrs => dedupNames (classifyNames (inputs ++ outputs) hdrs.flatten).1

theorem assemble_ok_inv (inputs outputs : List Signal) (tests : List TestDesc) (f : DigFile)
    (h : digAssemble inputs outputs tests = .ok f) :
    makeAllBidirectional (bidirNames inputs outputs tests) (inputs ++ outputs) = .ok f.signals := by
  unfold digAssemble at h
  simp only at h
  unfold bidirNames
  split at h
  · cases h
  · next hdrs hm =>
    simp only [hm]
    split at h
    · cases h
    · split at h
      · next sigs hs => cases h; exact hs
      · cases h
      · cases h


theorem mem_dedup : ∀ (l : List String) (a : String), a ∈ l → a ∈ dedupNames l
  | [], a, h => by simp at h
  | x :: xs, a, h => by
    simp only [dedupNames]
    simp only [List.mem_cons] at h
    split
    · next hc =>
      rcases h with rfl | h
      · exact mem_dedup xs a (by simpa using hc)
      · exact mem_dedup xs a h
    · rcases h with rfl | h
      · simp
      · exact List.mem_cons_of_mem _ (mem_dedup xs a h)

theorem not_bidir_of_input (s : Signal) (h : isInputTyp s = true) : isBidirTyp s = false := by
  cases ht : s.typ <;> simp [isInputTyp, isBidirTyp, ht] at h ⊢

theorem not_bidir_of_not_isInput (s : Signal) (h : s.isInput = false) : isBidirTyp s = false := by
  cases ht : s.typ <;> simp [Signal.isInput, isBidirTyp, ht] at h ⊢

theorem map_unBidir_id : ∀ (l : List Signal), (∀ s ∈ l, isBidirTyp s = false) → l.map unBidir = l
  | [], _ => rfl
  | x :: xs, h => by
    simp only [List.map_cons]
    rw [unBidir_of_not_bidir x (h x (by simp)), map_unBidir_id xs (fun s hs => h s (by simp [hs]))]

theorem pins_not_bidir (doc : Xml) : ∀ s ∈ digInputs doc ++ digOutputs doc, isBidirTyp s = false := by
  intro s hs
  simp only [List.mem_append] at hs
  rcases hs with hs | hs
  · exact not_bidir_of_input s (digInputs_typ doc s hs)
  · exact not_bidir_of_not_isInput s (digOutputs_typ doc s hs)

/-- **Faithful — names, widths, defaults, kinds, order**: turning the bidirectional signals of a loaded file back into
inputs gives exactly the extracted pins — the labelled `In`/`Clock` elements in document order, then the labelled `Out`
elements in document order — each with the extracted name, width and default.  The rewrite changes nothing else. -/
theorem C16_signals_kept (doc : Xml) (f : DigFile) (h : digParse doc = .ok f) :
    f.signals.map unBidir = digInputs doc ++ digOutputs doc := by
  have h1 := assemble_ok_inv _ _ _ f h
  rw [makeAll_unBidir _ _ _ h1]
  exact map_unBidir_id _ (pins_not_bidir doc)

/-- **Bidirectional exactly when the tests say so**: a loaded signal is bidirectional only if its name is one the test
headers mark (`C16_bidirectional_only_if` says what that means), and for every marked name the first signal of that name
is bidirectional. -/
theorem C16_bidirectional_iff (doc : Xml) (f : DigFile) (h : digParse doc = .ok f) :
    (∀ s ∈ f.signals, isBidirTyp s = true → s.name ∈ bidirNames (digInputs doc) (digOutputs doc) (digTests doc)) ∧
    (∀ n ∈ bidirNames (digInputs doc) (digOutputs doc) (digTests doc),
      ∃ s, firstNamed n f.signals = some s ∧ isBidirTyp s = true) := by
  have h1 := assemble_ok_inv _ _ _ f h
  constructor
  · intro s hs hb
    rcases makeAll_bidir _ _ _ h1 s hs hb with h2 | h2
    · exact h2
    · rw [pins_not_bidir doc s h2] at hb; cases hb
  · have hnd : (bidirNames (digInputs doc) (digOutputs doc) (digTests doc)).Nodup := by
      unfold bidirNames
      split
      · simp
      · exact dedup_nodup _
    exact (makeAll_first _ _ _ hnd h1).1

/-- the marked names are those the classification finds in the headers of all tests -/
theorem C16_bidir_names (inputs outputs : List Signal) (tests : List TestDesc) (hdrs : List (List String))
    (hm : tests.mapM (fun t => headerNames t.source) = some hdrs) (n : String) :
    n ∈ bidirNames inputs outputs tests ↔ n ∈ (classifyNames (inputs ++ outputs) hdrs.flatten).1 := by
  unfold bidirNames
  simp only [hm]
  exact ⟨dedup_mem _ n, mem_dedup _ n⟩

theorem classify_plain (signals : List Signal) : ∀ (names : List String) (n : String),
    n ∈ (classifyNames signals names).2 → n ∈ names
  | [], n, h => by simp [classifyNames] at h
  | name :: rest, n, h => by
    simp only [classifyNames] at h
    split at h
    · split at h
      · exact List.mem_cons_of_mem _ (classify_plain signals rest n h)
      · simp only [List.mem_cons] at h
        rcases h with rfl | h
        · simp
        · exact List.mem_cons_of_mem _ (classify_plain signals rest n h)
    · simp only [List.mem_cons] at h
      rcases h with rfl | h
      · simp
      · exact List.mem_cons_of_mem _ (classify_plain signals rest n h)

theorem mapM_none_iff {α β : Type} (g : α → Option β) : ∀ (l : List α),
    l.mapM g = none ↔ ∃ a ∈ l, g a = none
  | [] => by simp
  | a :: as => by
    simp only [List.mapM_cons, List.mem_cons]
    cases ha : g a with
    | none => simp [ha]
    | some b =>
      have ih := mapM_none_iff g as
      cases hr : as.mapM g with
      | none =>
        have := ih.mp hr
        obtain ⟨x, hx, hg⟩ := this
        simp only [Option.bind_eq_bind, Option.bind_some, Option.bind_none, true_iff]
        exact ⟨x, Or.inr hx, hg⟩
      | some bs =>
        simp only [Option.bind_eq_bind, Option.bind_some, Option.pure_def, reduceCtorEq, false_iff]
        rintro ⟨x, hx | hx, hg⟩
        · subst hx; rw [ha] at hg; cases hg
        · have := ih.mpr ⟨x, hx, hg⟩
          rw [hr] at this; cases this

theorem makeBidirectional_no_err (n : String) : ∀ (sigs : List Signal) (e : DigErr), makeBidirectional n sigs ≠ .err e
  | [], e => by simp [makeBidirectional]
  | x :: rest, e => by
    simp only [makeBidirectional]
    split
    · cases x.typ <;> simp
    · have := makeBidirectional_no_err n rest
      cases hr : makeBidirectional n rest with
      | ok r => simp
      | err e' => exact absurd hr (this e')
      | panic m => simp

theorem makeAll_no_err : ∀ (ns : List String) (sigs : List Signal) (e : DigErr), makeAllBidirectional ns sigs ≠ .err e
  | [], sigs, e => by simp [makeAllBidirectional]
  | n :: ns, sigs, e => by
    simp only [makeAllBidirectional]
    cases h1 : makeBidirectional n sigs with
    | ok s1 => exact makeAll_no_err ns s1 e
    | err e' => exact absurd h1 (makeBidirectional_no_err n sigs e')
    | panic m => simp

/-- **The two ways a description is refused** (neither is a panic): a test whose source has no header line, and a
header name that is neither a pin, nor the `_out` side of an input, nor a virtual signal the test declares itself
(fix F22) — every name reported missing stands in the header of a test that does not declare it, and names no signal. -/
theorem C16_errors (inputs outputs : List Signal) (tests : List TestDesc) :
    (digAssemble inputs outputs tests = .err .emptyTest ↔ ∃ t ∈ tests, headerNames t.source = none) ∧
    (∀ ms, digAssemble inputs outputs tests = .err (.missingSignals ms) →
      ms ≠ [] ∧ ∃ hdrs, tests.mapM (fun t => headerNames t.source) = some hdrs ∧
        ∀ n ∈ ms, n ∈ hdrs.flatten ∧ (inputs ++ outputs).any (fun s => s.name == n) = false ∧
          ∃ p ∈ tests.zip hdrs, n ∈ p.2 ∧ (declaredNames p.1.source).contains n = false) := by
  constructor
  · rw [← mapM_none_iff]
    unfold digAssemble
    simp only
    cases hm : tests.mapM (fun t => headerNames t.source) with
    | none => simp
    | some hdrs =>
      simp only
      split
      · simp
      · cases hr : makeAllBidirectional (dedupNames (classifyNames (inputs ++ outputs) hdrs.flatten).1) (inputs ++ outputs) with
        | ok r => simp
        | err e => exact absurd hr (makeAll_no_err _ _ e)
        | panic m => simp
  · intro ms h
    unfold digAssemble at h
    simp only at h
    cases hm : tests.mapM (fun t => headerNames t.source) with
    | none => simp [hm] at h
    | some hdrs =>
      simp only [hm] at h
      split at h
      · next hne =>
        cases h
        refine ⟨by intro he; rw [he] at hne; simp at hne, hdrs, rfl, ?_⟩
        intro n hn
        simp only [List.mem_filter, Bool.not_eq_true'] at hn
        obtain ⟨hmem, hnot⟩ := hn
        simp only [List.mem_flatten, List.mem_map] at hmem
        obtain ⟨l, ⟨p, hp, rfl⟩, hnl⟩ := hmem
        simp only [pinNamesOf, List.mem_filter, Bool.not_eq_true'] at hnl
        have hin : n ∈ p.2 := classify_plain _ _ n hnl.1
        have hp2 : p.2 ∈ hdrs := (List.of_mem_zip hp).2
        exact ⟨List.mem_flatten.mpr ⟨p.2, hp2, hin⟩, hnot, p, hp, hin, hnl.2⟩
      · cases hr : makeAllBidirectional (dedupNames (classifyNames (inputs ++ outputs) hdrs.flatten).1) (inputs ++ outputs) with
        | ok r => simp [hr] at h
        | err e => exact absurd hr (makeAll_no_err _ _ e)
        | panic m => simp [hr] at h

/-- **Exactly when a description is refused for a missing signal** (with fix F22): some test has, in its header, a name
that is not the `_out` side of an input (`classifyNames … .2`), that the test does not declare itself, and that is no pin.
In particular a column for a virtual signal the test declares never makes the document unloadable. -/
theorem C16_missing_iff (inputs outputs : List Signal) (tests : List TestDesc) (hdrs : List (List String))
    (hm : tests.mapM (fun t => headerNames t.source) = some hdrs) :
    (∃ ms, digAssemble inputs outputs tests = .err (.missingSignals ms)) ↔
    ∃ p ∈ tests.zip hdrs, ∃ n ∈ (classifyNames (inputs ++ outputs) p.2).2,
      (declaredNames p.1.source).contains n = false ∧ (inputs ++ outputs).any (fun s => s.name == n) = false := by
  unfold digAssemble
  simp only [hm]
  constructor
  · rintro ⟨ms, h⟩
    split at h
    · next hne =>
      cases h
      -- the list of missing names is not empty: take its head
      cases hl : ((((tests.zip hdrs).map (fun p => pinNamesOf (inputs ++ outputs) p.1 p.2)).flatten).filter
          (fun n => !((inputs ++ outputs).any (fun s => s.name == n)))) with
      | nil => rw [hl] at hne; simp at hne
      | cons n rest =>
        have hn : n ∈ ((((tests.zip hdrs).map (fun p => pinNamesOf (inputs ++ outputs) p.1 p.2)).flatten).filter
            (fun n => !((inputs ++ outputs).any (fun s => s.name == n)))) := by rw [hl]; simp
        simp only [List.mem_filter, Bool.not_eq_true'] at hn
        obtain ⟨hmem, hnot⟩ := hn
        simp only [List.mem_flatten, List.mem_map] at hmem
        obtain ⟨l, ⟨p, hp, rfl⟩, hnl⟩ := hmem
        simp only [pinNamesOf, List.mem_filter, Bool.not_eq_true'] at hnl
        exact ⟨p, hp, n, hnl.1, hnl.2, hnot⟩
    · cases hr : makeAllBidirectional (dedupNames (classifyNames (inputs ++ outputs) hdrs.flatten).1) (inputs ++ outputs) with
      | ok r => simp [hr] at h
      | err e => exact absurd hr (makeAll_no_err _ _ e)
      | panic m => simp [hr] at h
  · rintro ⟨p, hp, n, hn, hd, hs⟩
    have hmem : n ∈ ((((tests.zip hdrs).map (fun p => pinNamesOf (inputs ++ outputs) p.1 p.2)).flatten).filter
        (fun n => !((inputs ++ outputs).any (fun s => s.name == n)))) := by
      simp only [List.mem_filter, Bool.not_eq_true', List.mem_flatten, List.mem_map]
      refine ⟨⟨pinNamesOf (inputs ++ outputs) p.1 p.2, ⟨p, hp, rfl⟩, ?_⟩, hs⟩
      simp only [pinNamesOf, List.mem_filter, Bool.not_eq_true']
      exact ⟨hn, hd⟩
    split
    · exact ⟨_, rfl⟩
    · next hne =>
      exfalso
      apply hne
      cases hl : ((((tests.zip hdrs).map (fun p => pinNamesOf (inputs ++ outputs) p.1 p.2)).flatten).filter
          (fun n => !((inputs ++ outputs).any (fun s => s.name == n)))) with
      | nil => rw [hl] at hmem; simp at hmem
      | cons a rest => simp

/-- **An attribute is looked up among the element's own entries** (fix F19): the value `attrib` returns is a child of an
`entry` child of an `elementAttributes` child of the element, and that entry carries the key as the character data of a
`string` child — entries nested deeper, inside some value, are never used; and the entry has at least two elements: a key
is never its own value (fix F21). -/
theorem C16_attrib_own_entry (node : Xml) (label : String) (v : Xml) (h : attrib node label = some v) :
    ∃ attribs ∈ node.children, attribs.tag = "elementAttributes" ∧
      ∃ entry ∈ attribs.children, entry.tag = "entry" ∧ v ∈ entry.children ∧ v.isElem = true ∧
        2 ≤ (entry.children.filter Xml.isElem).length ∧
        ∃ k ∈ entry.children, k.tag = "string" ∧ k.text? = some label := by
  unfold attrib at h
  split at h
  · cases h
  · next attribs ha =>
    simp only at h
    split at h
    · cases h
    · next entry he =>
      refine ⟨attribs, List.mem_of_find?_eq_some ha, by simpa using List.find?_some ha, ?_⟩
      have hmem := List.mem_of_find?_eq_some he
      have hp := List.find?_some he
      simp only [List.mem_filter] at hmem
      refine ⟨entry, hmem.1, by simpa using hmem.2, ?_⟩
      split at h
      · cases h
      unfold Xml.lastElemChild at h
      have hv := List.mem_of_find?_eq_some h
      refine ⟨by simpa using hv, List.find?_some h, by omega, ?_⟩
      split at hp
      · cases hp
      · next s hs =>
        unfold Xml.firstElemChild at hs
        simp only [Bool.and_eq_true, beq_iff_eq] at hp
        exact ⟨s, List.mem_of_find?_eq_some hs, hp.1, hp.2⟩


def pinX (kind label : String) : Xml :=
  .elem "visualElement" [] [.elem "elementName" [] [.text kind],
    .elem "elementAttributes" [] [.elem "entry" [] [.elem "string" [] [.text "Label"], .elem "string" [] [.text label]]]]
def testX (src : String) : Xml :=
  .elem "visualElement" [] [.elem "elementName" [] [.text "Testcase"],
    .elem "elementAttributes" [] [.elem "entry" [] [.elem "string" [] [.text "Testdata"],
      .elem "testData" [] [.elem "dataString" [] [.text src]]]]]
def exDoc : Xml := .elem "circuit" [] [.elem "visualElements" [] [pinX "Out" "Q", pinX "In" "A", testX "A A_out Q\n0 0 0\n"]]
/-- the hypotheses are satisfiable: a document with an input `A`, an output `Q` and a test whose header uses `A_out`
loads, and `A` comes out bidirectional, in front of `Q` -/
example : (match digParse exDoc with
    | .ok f => f.signals.map (fun s => (s.name, isInputTyp s, s.isInput, s.isOutput)) == [("A", false, true, true), ("Q", false, false, true)]
    | _ => false) = true := by decide +kernel


/-! ## A column for a signal the test declares itself (fix F22) -/

def exDocV : Xml := .elem "circuit" [] [.elem "visualElements" []
  [pinX "In" "A", pinX "Out" "B", testX "A B\n0 1\n", testX "A B V\ndeclare V = B + 1;\n0 1 2\n"]]
/-- a test with a column for the virtual signal it declares loads: the document keeps the pins as they are, and
`load_test(1)` is the source parsed and bound — the declared signal appended, 64 bits wide -/
example : (match digParse exDocV with
    | .ok f => f.signals.map (·.name) == ["A", "B"] &&
        (match loadTest f 1 with | .ok tc => tc.signals.map (fun s => (s.name, s.bits)) == [("A", 1), ("B", 1), ("V", 64)] | _ => false)
    | _ => false) = true := by decide +kernel

def exDocV2 : Xml := .elem "circuit" [] [.elem "visualElements" []
  [pinX "In" "A", pinX "Out" "B", testX "A B V\ndeclare V = B + 1;\n0 1 2\n", testX "A B V\n0 1 2\n"]]
/-- … but only for the test that declares it: the same column in a test without the declaration names no signal -/
example : (match digParse exDocV2 with | .err (.missingSignals ms) => ms == ["V"] | _ => false) = true := by decide +kernel

/-! ## Empty text nodes (fix F20) -/


theorem str_empty_of_toList (s : String) (h : s.toList.isEmpty = true) : s = "" := by
  have : s.toList = [] := by simpa using h
  exact String.toList_inj.mp (by simpa using this)

theorem foldl_skip_empty : ∀ (l : List String) (acc : String),
    (l.filter (fun s => !s.toList.isEmpty)).foldl (· ++ ·) acc = l.foldl (· ++ ·) acc
  | [], _ => rfl
  | x :: xs, acc => by
    simp only [List.filter]
    cases hx : x.toList.isEmpty with
    | true =>
      have : x = "" := str_empty_of_toList x hx
      subst this
      simp only [Bool.not_true, List.foldl_cons, String.append_empty]
      exact foldl_skip_empty xs acc
    | false =>
      simp only [Bool.not_false, List.foldl_cons]
      exact foldl_skip_empty xs (acc ++ x)

theorem textsOf_filter_empty : ∀ cs : List Xml,
    Xml.textsOf (cs.filter (fun c => match c with | .text s => !s.toList.isEmpty | _ => true)) =
      (Xml.textsOf cs).filter (fun s => !s.toList.isEmpty)
  | [] => rfl
  | c :: cs => by
    cases c with
    | other => simp [List.filter, Xml.textsOf, textsOf_filter_empty cs]
    | elem t a cs' => simp [List.filter, Xml.textsOf, textsOf_filter_empty cs]
    | text s =>
      simp only [List.filter]
      cases hs : s.toList.isEmpty <;> simp [Xml.textsOf, hs, textsOf_filter_empty cs]

/-- **Empty text nodes are no character data** (fix F20): removing the empty text nodes among the children of an element — what an
empty CDATA section leaves behind — does not change its character data; in particular `<string><![CDATA[]]></string>` has none, like
`<string></string>`. -/
theorem C16_text_ignores_empty_nodes (t : String) (a : List (String × String)) (cs : List Xml) :
    (Xml.elem t a (cs.filter (fun c => match c with | .text s => !s.toList.isEmpty | _ => true))).text? = (Xml.elem t a cs).text? := by
  simp only [Xml.text?, textsOf_filter_empty, foldl_skip_empty]

example : (Xml.elem "string" [] [.text ""]).text? = none ∧ (Xml.elem "string" [] []).text? = none := by decide


end Dtr
