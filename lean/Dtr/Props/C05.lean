import Dtr.Proofs.Expand
import Dtr.Proofs.ExpandClosed
import Dtr.Props.C06
/-!
# C05 — clock (`C`) and don't-care (`X`) inputs expand into the documented row sequences

Specification side: `Dtr/Spec/Expand.lean` (`tripleOf`, `expR`).  Implementation side: the row stack
of `get_row` (`popRow` = `expand_x`; `expand_c`; `pop`, re-run on every call), `drain` = `popRow`
until the stack is empty.
-/
namespace Dtr

/-- **The lazy LIFO algorithm yields exactly the specified sequence.**  For a source row `r` with at
most `k` input `X`s (any number and position of `C`, `X`, numbers, `Z`; `blankOutOfRange` is the
load-time guarantee that expected columns lie inside the row), popping rows until the stack is empty
yields `expR k r`, in that order, whatever lies below it on the stack (`rest`, which drains
afterwards to `out`). -/
theorem C05_drain_eq_spec (tc : TestCase) (k : Nat) (r : CRow) (rest : List CRow) (f : Nat) (out : List CRow)
    (hk : numInputX tc r.entries ≤ k) (hwf : blankOutOfRange tc r.entries.length = false)
    (hrest : drain tc f rest = some out) :
    drain tc (f + (expR tc k r).length) (r :: rest) = some (expR tc k r ++ out) :=
  drain_cons tc k r rest f out hk hwf hrest

/-- the usual case: the stack holds just the row the statement iterator produced -/
theorem C05_drain_single (tc : TestCase) (r : CRow) (hwf : blankOutOfRange tc r.entries.length = false) :
    drain tc (expR tc (numInputX tc r.entries) r).length [r] = some (expR tc (numInputX tc r.entries) r) := by
  have := drain_cons tc (numInputX tc r.entries) r [] 0 [] (Nat.le_refl _) hwf rfl
  simpa using this

/-- **`2^k` assignments, one full clock triple per assignment.** -/
theorem C05_count (tc : TestCase) (r : CRow) :
    (expR tc (numInputX tc r.entries) r).length =
      2 ^ numInputX tc r.entries * (if hasInputCFrom tc r.entries 0 then 3 else 1) :=
  expR_length tc _ r rfl

/-- **The clock triple, column by column**: in the three writes every input `C` is 0, then 1, then
0; the first two are unchecked (and have their pure expected columns blanked, which is not
observable because unchecked rows report no outputs); the third keeps the row's own
checked/unchecked flag and *all* its other entries — the row's expected values included; every other
input entry is held in all three. -/
theorem C05_triple_columns (tc : TestCase) (r : CRow) (h : hasInputCFrom tc r.entries 0 = true) :
    tripleOf tc r = [⟨clockBlank tc 0 r.entries, r.line, false, r.xcols⟩, ⟨clockBlank tc 1 r.entries, r.line, false, r.xcols⟩,
                     ⟨clockLow tc 0 r.entries, r.line, r.upd, r.xcols⟩] ∧
    (∀ (v : Int64) (j : Nat), (clockLow tc v r.entries)[j]? =
        r.entries[j]?.map (fun e => if isInputC tc j e then .num v else e)) ∧
    (∀ (v : Int64) (j : Nat), (clockBlank tc v r.entries)[j]? =
        r.entries[j]?.map (fun e => if isInputC tc j e then .num v else if isPureExp tc j then .x else e)) := by
  refine ⟨by simp [tripleOf, h], ?_, ?_⟩
  · intro v j; simp [clockLow, mapIdxFrom_getElem?]
  · intro v j; simp [clockBlank, mapIdxFrom_getElem?]

/-- a row without `C` in input columns is executed as itself -/
theorem C05_no_clock (tc : TestCase) (r : CRow) (h : hasInputCFrom tc r.entries 0 = false) :
    tripleOf tc r = [r] := by simp [tripleOf, h]

/-- **The `X` split**: a row whose right-most input `X` sits in column `i` stands for the rows of
its `0`-variant followed by the rows of its `1`-variant (so the right-most `X` varies slowest, the
left-most fastest, `0` before `1`); that column really holds `X` and really is an input column. -/
theorem C05_split (tc : TestCase) (k : Nat) (r : CRow) (i : Nat) (h : lastInputX tc r.entries = some i) :
    expR tc (k + 1) r = expR tc k { r with entries := r.entries.set i (.num 0), xcols := i :: r.xcols } ++
                        expR tc k { r with entries := r.entries.set i (.num 1), xcols := i :: r.xcols } ∧
    r.entries[i]? = some .x ∧ entryIsInput tc i = true := by
  have := lastX_some_is tc r.entries 0 i h
  exact ⟨by simp [expR, h], by simpa using this.1, this.2⟩

/-- **`X` and `Z` in columns that are not input columns are never expanded or touched** in the
checked rows: every checked row of the expansion agrees with the source row in every non-input column. -/
theorem C05_expected_not_expanded (tc : TestCase) : ∀ (k : Nat) (r : CRow) (row : CRow),
    row ∈ expR tc k r → row.upd = true → ∀ j, entryIsInput tc j = false → row.entries[j]? = r.entries[j]?
  | 0, r, row, hmem, hupd, j, hj => by
    simp only [expR, tripleOf] at hmem
    split at hmem
    · simp only [List.mem_cons, List.mem_nil_iff, or_false] at hmem
      rcases hmem with rfl | rfl | rfl
      · cases hupd
      · cases hupd
      · simp only [clockLow, mapIdxFrom_getElem?, Nat.zero_add]
        cases r.entries[j]? with
        | none => rfl
        | some e => simp [isInputC, hj]
    · simp only [List.mem_cons, List.mem_nil_iff, or_false] at hmem
      subst hmem; rfl
  | k+1, r, row, hmem, hupd, j, hj => by
    cases h : lastInputX tc r.entries with
    | none =>
      have : expR tc (k + 1) r = expR tc 0 r := by simp [expR, h]
      rw [this] at hmem
      exact C05_expected_not_expanded tc 0 r row hmem hupd j hj
    | some i =>
      have hin := (lastX_some_is tc r.entries 0 i h).2
      have hne : i ≠ j := fun e => by rw [e, hj] at hin; cases hin
      simp only [expR, h, List.mem_append] at hmem
      rcases hmem with hmem | hmem
      · have := C05_expected_not_expanded tc k _ row hmem hupd j hj
        simpa [List.getElem?_set_ne hne] using this
      · have := C05_expected_not_expanded tc k _ row hmem hupd j hj
        simpa [List.getElem?_set_ne hne] using this

/-- `get_row` uses exactly this stack discipline: when the stack is not empty it pops from it without
consulting the statement iterator (rows are produced lazily, one per call). -/
theorem C05_get_row_pops (tc : TestCase) (fuel : Nat) (s : RowIt) (top : CRow) (rest : List CRow)
    (hne : s.cache ≠ []) (hp : popRow tc s.cache = .ok (top, rest)) :
    ∃ ev, getRow tc fuel s = .row ev { s with cache := rest, prev := some top.entries } ∨
          ∃ m, getRow tc fuel s = .panic m := by
  have hemp : s.cache.isEmpty = false := by cases hc : s.cache <;> simp_all
  unfold getRow
  simp only [hemp, Bool.false_eq_true, if_false, hp]
  cases genInputs tc top.entries (changedFlags s.prev top.entries) with
  | ok ins =>
    cases genExpected tc top.entries top.xcols with
    | ok exps => exact ⟨_, Or.inl rfl⟩
    | err e => exact ⟨default, Or.inr ⟨_, rfl⟩⟩
    | panic m => exact ⟨default, Or.inr ⟨_, rfl⟩⟩
  | err e => exact ⟨default, Or.inr ⟨_, rfl⟩⟩
  | panic m => exact ⟨default, Or.inr ⟨_, rfl⟩⟩

/-! Non-vacuity: the twelve rows of `C X X 1` (three input columns, one expected column). -/
def exTc : TestCase :=
  { stmts := [], signals := [⟨"CLK", 1, .input (.val 0)⟩, ⟨"A", 1, .input (.val 0)⟩, ⟨"B", 1, .input (.val 0)⟩, ⟨"Q", 1, .output⟩],
    inIdx := [.entry 0 0, .entry 1 1, .entry 2 2], expIdx := [.entry 3 3], reads := [] }

example : numInputX exTc [.c, .x, .x, .num 1] = 2 ∧ blankOutOfRange exTc 4 = false ∧
    (expR exTc 2 { entries := [.c, .x, .x, .num 1], line := 7, upd := true }).map (fun r => (r.entries, r.upd)) =
      [([.num 0, .num 0, .num 0, .x], false), ([.num 1, .num 0, .num 0, .x], false), ([.num 0, .num 0, .num 0, .num 1], true),
       ([.num 0, .num 1, .num 0, .x], false), ([.num 1, .num 1, .num 0, .x], false), ([.num 0, .num 1, .num 0, .num 1], true),
       ([.num 0, .num 0, .num 1, .x], false), ([.num 1, .num 0, .num 1, .x], false), ([.num 0, .num 0, .num 1, .num 1], true),
       ([.num 0, .num 1, .num 1, .x], false), ([.num 1, .num 1, .num 1, .x], false), ([.num 0, .num 1, .num 1, .num 1], true)] := by
  decide

/-- **Closed form**: a row with `k` `X`s in input columns is executed once for each of the `2^k`
assignments, in numerical order of the assignment number `j`, where the `t`-th such column from
the left gets bit `t` of `j` — the left-most varies fastest, `0` before `1` — each assignment as its
full clock triple.  (`expR`, the recursive specification the other theorems use, is this list.) -/
theorem C05_closed_form (tc : TestCase) (r : CRow) :
    expR tc (numInputX tc r.entries) r =
      (List.range (2 ^ numInputX tc r.entries)).flatMap
        (fun j => tripleOf tc { r with entries := assignFrom tc r.entries 0 j,
                                       xcols := inputXColsFrom tc r.entries 0 ++ r.xcols }) :=
  expR_closed tc _ r rfl

/-- what `assignFrom` does, spelled out on an example: `X 5 X` in three input columns, assignment 2 = binary 10:
the left `X` gets bit 0 (= 0), the right `X` bit 1 (= 1) -/
example (tc : TestCase) (h : ∀ i, entryIsInput tc i = true) :
    assignFrom tc [.x, .num 5, .x] 0 2 = [.num 0, .num 5, .num 1] := by
  simp [assignFrom, isInputX, h]

/-- every input column that holds `X` is among the `X` columns -/
theorem mem_inputXCols (tc : TestCase) : ∀ (es : List REntry) (c j : Nat) (e : REntry), es[j]? = some e →
    isInputX tc (c + j) e = true → (c + j) ∈ inputXColsFrom tc es c
  | [], c, j, e, h, _ => by simp at h
  | a :: es, c, 0, e, h, hx => by
    simp only [List.getElem?_cons_zero, Option.some.injEq] at h
    subst h
    simp only [Nat.add_zero] at hx ⊢
    simp [inputXColsFrom, hx]
  | a :: es, c, j+1, e, h, hx => by
    simp only [List.getElem?_cons_succ] at h
    have ih := mem_inputXCols tc es (c + 1) j e h (by rw [show c + 1 + j = c + (j + 1) by omega]; exact hx)
    rw [show c + 1 + j = c + (j + 1) by omega] at ih
    simp only [inputXColsFrom]
    split
    · exact List.mem_cons_of_mem _ ih
    · exact ih

/-- **An `X` stays a don't-care for the expected value, also in a column that drives an input** (fix F23).  Every row a
source row stands for remembers the input columns whose `X` was expanded (`C05_closed_form`: `xcols` holds all of them),
and an expected entry taken from such a column is `X` — not the 0 or 1 the input side received. -/
theorem C05_expanded_x_expected_x (tc : TestCase) (entries : List REntry) (xcols : List Nat) (col sig : Nat) (e : ExpEntry)
    (hx : xcols.contains col = true) (h : expectedFor tc entries xcols (.entry col sig) = .ok e) : e.value = .x := by
  simp only [expectedFor] at h
  split at h
  · cases h
  · simp only [hx, if_true, Res.ok.injEq] at h
    rw [← h]

/-- … and the rows of the expansion do remember them: in every row of the closed form, a column that held `X` in an input
column of the source row is among the remembered ones -/
theorem C05_expansion_remembers_x (tc : TestCase) (r : CRow) (j : Nat) (e : REntry) (hj : r.entries[j]? = some e)
    (hx : isInputX tc j e = true) : (inputXColsFrom tc r.entries 0 ++ r.xcols).contains j = true := by
  have := mem_inputXCols tc r.entries 0 j e hj (by simpa using hx)
  simp only [Nat.zero_add] at this
  simp [this]

/-- **An expansion survives the failure of one of its calls.**  When the call made for one row of an expansion fails —
the driver returns an error, or its answer is refused — the rows of the expansion that have not been handed out yet stay
on the row stack: a caller who goes on receives the rest of the clock triple / of the `X` assignments exactly as
`C05_drain_eq_spec` describes the draining of that stack (`RowIt.nextC`: the state of the code behind every item). -/
theorem C05_expansion_survives_errors {δ : Type} (tc : TestCase) (drv : Driver δ) (fuel : Nat) (s s' : RowIt) (d d' : δ)
    (e : IterErr) (calls : List Call) (hc : calls ≠ [])
    (h : s.nextC tc drv fuel d = .item (.err e) s' d' calls) :
    ∃ ev sg, getRow tc fuel s = .row ev sg ∧ s'.cache = sg.cache :=
  let ⟨ev, sg, hg, _, hcache, _⟩ := C06_prev_behind_every_item tc drv fuel s s' d d' (.err e) calls hc h
  ⟨ev, sg, hg, hcache⟩

end Dtr
