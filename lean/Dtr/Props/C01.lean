import Dtr.Proofs.Run
import Dtr.Proofs.ScopeDiscipline
import Dtr.Proofs.KeysOK
import Dtr.Proofs.RunErr
import Dtr.Proofs.Resume
import Dtr.Proofs.AfterErrorBasic
/-!
# C01 — control flow and variables determine exactly which rows run, and in what order

Specification side: the big-step semantics of `Dtr/Spec/BigStep.lean`.  Implementation side: the
seven-state resumable iterator `step` / `nextRow` of `Dtr/Model/StmtIter.lean`.
-/
namespace Dtr
variable {W : Type} (D : Device W)

/-- **The resumable state machine refines the sequential reading of the program.**  Whenever the
big-step semantics runs a block `ss` from system state `σ` to `σ'` (context, device state and the
log of yielded rows), the iterator — positioned in front of `ss`, with anything (`rest`) after it —
reaches the position behind `ss` with exactly the same system state; for every program (any nesting
of let / loop / repeat / while / resetRandom around data rows), every device. -/
theorem C01_machine_refines_bigstep (fuel : Nat) (ss rest : List Stmt) (σ σ' : Sys W)
    (h : execBlock D fuel ss σ = some σ') :
    Steps D (.mk (ss ++ rest) .iterate, σ) (.mk rest .iterate, σ') :=
  (sound D fuel).block ss rest σ σ' h

/-- the same for a single loop: entered with its counter bound, left with its scope closed -/
theorem C01_loop_refines (fuel : Nat) (var : String) (n cur : Int64) (body rest : List Stmt) (σ σ' : Sys W)
    (h : loopIter D fuel var n body cur σ = some σ') :
    Steps D (.mk rest (.startInner ⟨var, n, body, cur⟩), σ) (.mk rest .iterate, σ') :=
  (sound D fuel).loop var n body cur rest σ σ' h

theorem C01_while_refines (fuel : Nat) (cond : Expr) (body rest : List Stmt) (σ σ' : Sys W)
    (h : whileIter D fuel cond body σ = some σ') :
    Steps D (.mk rest (.startWhile ⟨cond, body⟩), σ) (.mk rest .iterate, σ') :=
  (sound D fuel).whil cond body rest σ σ' h

/-- **Repeated `next` yields exactly the rows of the big-step run, in order, then `None`.**  If the
sequential reading of the whole program terminates in `σ'`, then a caller who keeps calling
`next_with_context` (the device reacting after every yielded row) sees `None` after finitely many
calls, in exactly the system state `σ'` — in particular with the same log of yielded rows. -/
theorem C01_next_yields_exactly (fuel : Nat) (ss : List Stmt) (σ σ' : Sys W)
    (h : execBlock D fuel ss σ = some σ') :
    ∃ f, runNext D f f (It.new ss) σ = some σ' := by
  have hs := C01_machine_refines_bigstep D fuel ss [] σ σ' h
  simp only [List.append_nil] at hs
  have hdone : runAll D 1 (.mk [] .iterate) σ' = some σ' := by
    simp [runAll, step]
  obtain ⟨f, hf⟩ := Steps_runAll D hs 1 σ' hdone
  exact ⟨f, runAll_runNext D f _ σ σ' hf⟩

/-- **A loop whose bound is `≤ 0` does not run its body at all**, and the bound is evaluated once,
on entry: the statement costs one evaluation of the bound and nothing else. -/
theorem C01_loop_nonpositive (fuel : Nat) (var : String) (max : Expr) (body : List Stmt) (σ : Sys W)
    (n : Int64) (c' : Ctx) (he : evalE max σ.ctx = .ok (n, c')) (hn : n ≤ 0) :
    execStmt D (fuel + 1) (.loop var max body) σ = some { σ with ctx := c' } := by
  simp [execStmt, he, hn]

/-- **Loop entry**: bound evaluated once, a scope opened, the counter bound to 0. -/
theorem C01_loop_entry (fuel : Nat) (var : String) (max : Expr) (body : List Stmt) (σ : Sys W)
    (n : Int64) (c' : Ctx) (he : evalE max σ.ctx = .ok (n, c')) (hn : ¬ n ≤ 0) :
    execStmt D (fuel + 1) (.loop var max body) σ =
      loopIter D fuel var n body 0 { σ with ctx := c'.pushFrame.set var 0 } := by
  simp [execStmt, he, hn]

/-- **Each row's entries**: `bits(k, e)` evaluates `e` once and expands most-significant-bit first
into `k` one-bit entries — entry `j` is bit `k-1-j` of the value. -/
theorem C01_bits_msb_first (k : Nat) (e : Expr) (c c' : Ctx) (v : Int64) (he : evalE e c = .ok (v, c')) :
    ∃ es, evalEntry (.bits k e) c = .ok (es, c') ∧ es.length = k ∧
      ∀ j (hj : j < k), es[j]? = some (.num ((v >>> Int64.ofNat (k - 1 - j)) &&& 1)) := by
  refine ⟨(List.range k).reverse.map (bitOf v), by simp [evalEntry, he], by simp, ?_⟩
  intro j hj
  simp [List.getElem?_map, List.getElem?_reverse, hj, bitOf]

/-- literals, parenthesised expressions, `X`, `Z`, `C` give one entry each -/
theorem C01_entry_single (c : Ctx) :
    (∀ n, evalEntry (.num n) c = .ok ([.num n], c)) ∧ evalEntry .x c = .ok ([.x], c) ∧
    evalEntry .z c = .ok ([.z], c) ∧ evalEntry .c c = .ok ([.c], c) ∧
    (∀ e v c', evalE e c = .ok (v, c') → evalEntry (.expr e) c = .ok ([.num v], c')) := by
  refine ⟨fun _ => rfl, rfl, rfl, rfl, ?_⟩
  intro e v c' h; simp [evalEntry, h]

/-- **`FramedMap` implements a stack of scopes** (innermost first): under its representation
invariant — which every operation preserves — `push_frame` opens an empty scope, `pop_frame` closes
the innermost one, `set` binds or rebinds in the innermost scope only, `get` finds the innermost
binding. -/
theorem C01_framedmap_refines_scopes (m : FMap Int64) (h : m.Inv) (k : String) (v : Int64) :
    (FMap.empty : FMap Int64).Inv ∧ (FMap.empty : FMap Int64).abs = [[]] ∧
    m.pushFrame.Inv ∧ m.pushFrame.abs = Scopes.push m.abs ∧
    m.popFrame.Inv ∧ m.popFrame.abs = Scopes.pop m.abs ∧
    (m.set k v).Inv ∧ (m.set k v).abs = Scopes.set m.abs k v ∧
    m.get k = Scopes.lookup k m.abs :=
  ⟨FMap.inv_empty, FMap.abs_empty, FMap.inv_push m h, FMap.abs_push m, FMap.inv_pop m h, FMap.abs_pop m,
   FMap.inv_set m k v h, FMap.abs_set m k v h, FMap.get_abs m k⟩

/-- **Scopes are restored.**  Along the sequential reading of the program, for a device that does
not touch the variable store: any statement (in particular `let` and a whole `while`) leaves the
number of scopes and every scope below the innermost one exactly as they were; a completed
`loop` / `repeat` statement leaves the *whole* scope stack exactly as it found it — everything bound
inside, the counter included, is gone and whatever it shadowed is visible again. -/
theorem C01_scopes_restored (hD : D.KeepsVars) (fuel : Nat) (σ σ' : Sys W) (hinv : σ.ctx.vars.Inv) :
    (∀ s, execStmt D fuel s σ = some σ' → σ'.ctx.scopes.tail = σ.ctx.scopes.tail) ∧
    (∀ var max body, execStmt D fuel (.loop var max body) σ = some σ' → σ'.ctx.scopes = σ.ctx.scopes) := by
  refine ⟨fun s h => ((discipline D hD fuel).stmt s σ σ' hinv h).2, ?_⟩
  intro var max body h
  cases fuel with
  | zero => simp [execStmt] at h
  | succ fuel =>
    simp only [execStmt] at h
    split at h
    · next n c' he =>
      have hv := (evalE_vars he).1
      have hinv' : c'.vars.Inv := by rw [hv]; exact hinv
      split at h
      · cases h; unfold Ctx.scopes; rw [hv]
      · have hp : c'.pushFrame.vars.Inv := FMap.inv_push c'.vars hinv'
        obtain ⟨i2, s2⟩ := scopes_set c'.pushFrame var 0 hp
        have hps : c'.pushFrame.scopes = [] :: c'.scopes := FMap.abs_push c'.vars
        obtain ⟨b, bs, hb⟩ : ∃ b bs, c'.scopes = b :: bs := by
          cases hc : c'.scopes with
          | nil => exact absurd hc (scopes_ne_nil c')
          | cons b bs => exact ⟨b, bs, rfl⟩
        have htail : (c'.pushFrame.set var 0).scopes.tail = b :: bs := by
          rw [s2, hps]; simp [Scopes.set, hb]
        obtain ⟨_, s3⟩ := (discipline D hD fuel).loop var n body 0 _ σ' b bs i2 htail h
        rw [s3, ← hb]; unfold Ctx.scopes; rw [hv]
    · cases h

/-! Non-vacuity: a two-level program run by the big-step semantics (device: does nothing). -/
def exDev : Device Unit := ⟨fun w _ c => (w, c)⟩
def exProg : List Stmt :=
  [.letS "a" (.num 2),
   .loop "i" (.num 2) [.row [.expr (.bin .add (.var "i") (.var "a"))] 4],
   .loop "j" (.num 0) [.row [.num 9] 7],
   .row [.expr (.var "a")] 9]

example : ((execBlock exDev 20 exProg ⟨{ rng := default }, (), []⟩).map
    (fun σ => σ.log.map (fun r => (r.entries, r.line)))) =
    some [([.num 2], 4), ([.num 3], 4), ([.num 2], 9)] := by
  decide

/-- the `for` reading of a loop: the body runs with the counter set to `i`, then to `i+1`, … as long
as the next value is below `n`, then the scope is closed; `k` counts the passes -/
inductive ForRun (D : Device W) (var : String) (n : Int64) (body : List Stmt) : Nat → Int64 → Sys W → Sys W → Prop where
  | last {fuel i σ σ2} : execBlock D fuel body { σ with ctx := σ.ctx.set var i } = some σ2 → ¬ (i + 1 < n) →
      ForRun D var n body 1 i σ { σ2 with ctx := σ2.ctx.popFrame }
  | next {fuel k i σ σ2 σ'} : execBlock D fuel body { σ with ctx := σ.ctx.set var i } = some σ2 → i + 1 < n →
      ForRun D var n body k (i + 1) σ2 σ' →
      ForRun D var n body (k + 1) i σ σ'

theorem satSucc_lt (i n : Int64) (h : i < n) : satSucc i = i + 1 := by
  unfold satSucc
  split
  · next he =>
    subst he
    exfalso
    have := Int64.le_maxValue n
    exact absurd h (Int64.not_lt.mpr this)
  · rfl

/-- **The `for` reading**: `loop(v, n)` runs its body once for each counter value from the current
one up to `n - 1`, in order — the variable is set to that value before each pass, *whatever the body
did to it* (the counter is the loop's own) — each pass starting from the state the previous one left,
and then closes its scope. -/
theorem C01_for_loop (D : Device W) (var : String) (n : Int64) (body : List Stmt) :
    ∀ (fuel : Nat) (σ σ' : Sys W) (i : Int64), i < n →
      loopIter D fuel var n body i { σ with ctx := σ.ctx.set var i } = some σ' → ∃ k, ForRun D var n body k i σ σ'
  | 0, σ, σ', i, _, h => by simp [loopIter] at h
  | fuel+1, σ, σ', i, hlt, h => by
    simp only [loopIter] at h
    cases hb : execBlock D fuel body { σ with ctx := σ.ctx.set var i } with
    | none => simp [hb] at h
    | some σ2 =>
      simp only [hb, satSucc_lt i n hlt] at h
      by_cases hn : i + 1 < n
      · simp only [hn, if_true] at h
        obtain ⟨k, hr⟩ := C01_for_loop D var n body fuel σ2 σ' (i + 1) hn h
        exact ⟨k + 1, .next hb hn hr⟩
      · simp only [hn, if_false, Option.some.injEq] at h
        subst h
        exact ⟨1, .last hb hn⟩

/-- the whole statement: bound evaluated once; nothing when it is `≤ 0`; otherwise a scope is opened
and the passes run for the counter values `0, 1, …` -/
theorem C01_loop_is_for (D : Device W) (fuel : Nat) (var : String) (max : Expr) (body : List Stmt)
    (σ σ' : Sys W) (n : Int64) (c' : Ctx) (he : evalE max σ.ctx = .ok (n, c')) (hn : ¬ n ≤ 0)
    (h : execStmt D (fuel + 1) (.loop var max body) σ = some σ') :
    ∃ k, ForRun D var n body k 0 { σ with ctx := c'.pushFrame } σ' := by
  rw [C01_loop_entry D fuel var max body σ n c' he hn] at h
  exact C01_for_loop D var n body fuel { σ with ctx := c'.pushFrame } σ' 0 (Int64.not_le.mp hn) h

/-- the number of passes is the bound: `k` passes starting at counter `i` means `i + k = n` (as integers) -/
theorem ForRun_count (D : Device W) (var : String) (n : Int64) (body : List Stmt) :
    ∀ (k : Nat) (i : Int64) (σ σ' : Sys W), i < n → ForRun D var n body k i σ σ' → i.toInt + k = n.toInt := by
  intro k i σ σ' hlt h
  induction h with
  | @last fuel i σ σ2 _ hn =>
    rename_i hlt'
    have h1 : i.toInt < n.toInt := Int64.lt_iff_toInt_lt.mp hlt
    have hmax : n.toInt ≤ Int64.maxValue.toInt := Int64.le_iff_toInt_le.mp (Int64.le_maxValue n)
    have hmin : Int64.minValue.toInt ≤ i.toInt := Int64.le_iff_toInt_le.mp (Int64.minValue_le i)
    have hadd : (i + 1).toInt = i.toInt + 1 := by
      rw [Int64.toInt_add]
      have : (1 : Int64).toInt = 1 := by decide
      rw [this]
      apply Int.bmod_eq_of_le
      · have : Int64.minValue.toInt = -(2^63) := by decide
        omega
      · have : Int64.maxValue.toInt = 2^63 - 1 := by decide
        omega
    have h2 : ¬ (i + 1).toInt < n.toInt := fun hh => hn (Int64.lt_iff_toInt_lt.mpr hh)
    omega
  | @next fuel k i σ σ2 σ' _ hn _ ih =>
    have h1 : i.toInt < n.toInt := Int64.lt_iff_toInt_lt.mp hlt
    have hmax : n.toInt ≤ Int64.maxValue.toInt := Int64.le_iff_toInt_le.mp (Int64.le_maxValue n)
    have hmin : Int64.minValue.toInt ≤ i.toInt := Int64.le_iff_toInt_le.mp (Int64.minValue_le i)
    have hadd : (i + 1).toInt = i.toInt + 1 := by
      rw [Int64.toInt_add]
      have : (1 : Int64).toInt = 1 := by decide
      rw [this]
      apply Int.bmod_eq_of_le
      · have : Int64.minValue.toInt = -(2^63) := by decide
        omega
      · have : Int64.maxValue.toInt = 2^63 - 1 := by decide
        omega
    have := ih hn
    push_cast
    omega

/-! ### runs that end in an evaluation error -/

/-- **The refinement also holds for runs that end in an evaluation error.**  When the sequential
reading of the block meets its first statement that cannot be evaluated (error `e`) in system state
`σe` — whose log holds exactly the rows yielded until then — the iterator reaches, by the same
micro-steps, a position in that very system state whose next turn returns `e`: the rows before the
error are exactly the prescribed ones, in order, and nothing is yielded after them. -/
theorem C01_error_refines (fuel : Nat) (ss rest : List Stmt) (σ : Sys W) (e : ExprErr) (σe : Sys W)
    (h : errBlock D fuel ss σ = some (e, σe)) :
    ∃ it, Steps D (.mk (ss ++ rest) .iterate, σ) (it, σe) ∧ step it σe.ctx = .err e :=
  (esound D fuel).block ss rest σ e σe h

/-- **Repeated `next` yields exactly the rows before the error, in order, then the error.**  A caller
who keeps calling `next_with_context` (the device reacting after every yielded row) receives the error
`e` after finitely many calls, having seen the same rows and with the device in the same state as in
the sequential reading. -/
theorem C01_next_yields_then_error (fuel : Nat) (ss : List Stmt) (σ : Sys W) (e : ExprErr) (σe : Sys W)
    (h : errBlock D fuel ss σ = some (e, σe)) :
    ∃ f σe', runNextE D f f (It.new ss) σ = some (e, σe') ∧ σe'.log = σe.log ∧ σe'.world = σe.world := by
  obtain ⟨it, hs, he⟩ := C01_error_refines D fuel ss [] σ e σe h
  simp only [List.append_nil] at hs
  have h1 : runAllE D 1 it σe = some (e, σe) := by simp [runAllE, he]
  obtain ⟨f, hf⟩ := Steps_runAllE D hs 1 _ h1
  obtain ⟨σe', hr, hl, hw⟩ := runAllE_runNextE D f _ σ e σe hf
  exact ⟨f, σe', hr, hl, hw⟩

/-- Non-vacuity: the second pass of the loop divides by zero; one row was yielded before. -/
def exProgErr : List Stmt :=
  [.loop "i" (.num 3) [.row [.expr (.bin .div (.num 6) (.bin .sub (.num 1) (.var "i")))] 2],
   .row [.num 1] 4]

example : ((errBlock exDev 20 exProgErr ⟨{ rng := default }, (), []⟩).map
    (fun p => (p.1, p.2.log.map (fun r => (r.entries, r.line))))) =
    some (.divZero, [([.num 6], 2)]) := by
  decide

/-! ### runs that are resumed: from any state of the iterator, and behind an evaluation error -/

/-- **The refinement holds from every state of the iterator**, not only from the start of a program: whenever
the sequential reading of what an iterator state has left to do (`execIt`, `Spec/BigStepResume`: the rest of
the innermost active block, the rest of the current pass of the loop around it, the remaining counter values
below its bound, what follows the loop, and so on outwards) runs from `σ` to `σ'`, the machine started in that
state reaches its end in `σ'` — same rows, in order, same device state. -/
theorem C01_resume_refines (fuel : Nat) (it : It) (σ σ' : Sys W) (h : execIt D fuel it σ = some σ') :
    Steps D (it, σ) (.mk [] .iterate, σ') :=
  resume_sound D fuel it σ σ' h

/-- … and the caller who keeps calling `next_with_context` from that state sees exactly those rows, then `None` -/
theorem C01_resume_next_yields_exactly (fuel : Nat) (it : It) (σ σ' : Sys W) (h : execIt D fuel it σ = some σ') :
    ∃ f, runNext D f f it σ = some σ' := by
  have hs := C01_resume_refines D fuel it σ σ' h
  have hdone : runAll D 1 (.mk [] .iterate) σ' = some σ' := by
    simp [runAll, step]
  obtain ⟨f, hf⟩ := Steps_runAll D hs 1 σ' hdone
  exact ⟨f, runAll_runNext D f _ σ σ' hf⟩

/-- **Going on behind an evaluation error.**  When a turn of the iterator fails (`step it σ.ctx = .err e`), the
state the code is left in (`stepPost`, `Model/AfterError`) has the variables and outputs of the moment of the
failure, and from it the run continues as the sequential reading of that state prescribes: a caller who goes on
calling `next` sees exactly those rows, in order, then `None`. -/
theorem C01_continues_behind_error (fuel : Nat) (it : It) (σ σ' : Sys W)
    (h : execIt D fuel (stepPost it σ.ctx).1 { σ with ctx := (stepPost it σ.ctx).2 } = some σ') :
    (stepPost it σ.ctx).2.vars = σ.ctx.vars ∧ (stepPost it σ.ctx).2.outs = σ.ctx.outs ∧
    Steps D ((stepPost it σ.ctx).1, { σ with ctx := (stepPost it σ.ctx).2 }) (.mk [] .iterate, σ') ∧
    ∃ f, runNext D f f (stepPost it σ.ctx).1 { σ with ctx := (stepPost it σ.ctx).2 } = some σ' :=
  ⟨(stepPost_fields it σ.ctx).1, (stepPost_fields it σ.ctx).2.2, C01_resume_refines D fuel _ _ σ' h,
   C01_resume_next_yields_exactly D fuel _ _ σ' h⟩

/-- **What that reading is, at the failing statement**: a `let`, data row or loop header that cannot be evaluated
is skipped — the reading of the state behind it is the sequential reading of the statements that *follow* it in
its block — and inside a loop the rest of the pass, the remaining passes and the rest of the program follow as
usual (`execIt` of the enclosing states). -/
theorem C01_failed_statement_reading (fuel : Nat) (s : Stmt) (rest : List Stmt) (c : Ctx) (e : ExprErr) (σ : Sys W)
    (herr : step (.mk (s :: rest) .iterate) c = .err e) :
    execIt D fuel (stepPost (.mk (s :: rest) .iterate) c).1 σ = execBlock D fuel rest σ := by
  cases s with
  | letS name ex => simp [stepPost, execIt, execState]
  | row data line => simp [stepPost, execIt, execState]
  | loop var max body => simp [stepPost, execIt, execState]
  | resetRandom => simp [step] at herr
  | «while» cond body => simp [step] at herr

/-- the reading of an iterator inside a loop: its own, then the rest of the loop (`afterPass`: next counter value
and test), then what follows the loop -/
theorem C01_resume_inside_loop (fuel : Nat) (it : It) (ls : LoopState) (rest : List Stmt) (σ : Sys W) :
    execIt D fuel (.mk rest (.inner it ls)) σ =
      (execIt D fuel it σ).bind (fun σ2 => (afterPass D fuel ls σ2).bind (fun σ3 => execBlock D fuel rest σ3)) := by
  simp only [execIt, execState]
  cases execIt D fuel it σ with
  | none => rfl
  | some σ2 =>
    simp only [Option.bind]
    cases afterPass D fuel ls σ2 <;> rfl

/-- Non-vacuity: resumed behind the division by zero of `exProgErr` (second pass of the loop), the run goes on
with the third pass (6 / (1-2) = -6) and the row behind the loop. -/
example : (((execIt exDev 20 (stepPost (.mk [] (.inner (.mk [.row [.expr (.bin .div (.num 6) (.bin .sub (.num 1) (.var "i")))] 2] .iterate)
      ⟨"i", 3, [.row [.expr (.bin .div (.num 6) (.bin .sub (.num 1) (.var "i")))] 2], 1⟩))
      ((({ rng := default } : Ctx).pushFrame.set "i" 1))).1
    ⟨(({ rng := default } : Ctx).pushFrame.set "i" 1), (), []⟩).map (fun σ => σ.log.map (fun r => (r.entries, r.line))))) =
    some [([.num (-6)], 2)] := by
  decide

end Dtr
