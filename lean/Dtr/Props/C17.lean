import Dtr.Model.StmtIter
import Dtr.Model.AfterError
import Dtr.Proofs.AsLiterals
/-!
# C17 — `random(n)` stays in range, draws once per evaluation, and `resetRandom` replays

The generator is an external component with a recorded contract (`Rng`): the value it delivers is
`f` of the sequence of bounds requested since the last (re)seed.  What is proved is what the
*code around it* does with it; that rand's `StdRng`/`gen_range` honours the contract (range, and
equal request histories after re-seeding giving equal values) is checked on every logged draw of
every correspondence run, not proved.
-/
namespace Dtr

/-- the sampler contract of `gen_range(1..n)`: for a non-empty range the value lies in `[1, n)` —
in particular in `[0, n)`, which is all the property asks -/
def Rng.InRange (g : Rng) : Prop := ∀ (hist : List Int64) (n : Int64), 1 < n → 0 ≤ g.f (hist ++ [n]) ∧ g.f (hist ++ [n]) < n

/-- **What `random(a)` does**: evaluate `a` once; a bound `≤ 1` is an error and draws nothing;
otherwise exactly one value is drawn, with the bound appended to the request history, and that
value is the result. -/
theorem C17_random (get : String → Option OutVal) (a : Expr) (g g' : Rng) (v : Int64)
    (h : evalG get (.call "random" [a]) g = .ok (v, g')) :
    ∃ n g1, evalG get a g = .ok (n, g1) ∧ 1 < n ∧ v = g1.f (g1.hist ++ [n]) ∧
      g'.hist = g1.hist ++ [n] ∧ g'.total = g1.total + 1 ∧ g'.f = g1.f := by
  simp only [evalG, funcArity] at h
  simp only [List.length_cons, List.length_nil, bne_self_eq_false, Bool.false_eq_true, if_false, if_true] at h
  split at h
  · next n g1 he =>
    split at h
    · cases h
    · next hn =>
      cases h
      refine ⟨n, g1, he, ?_, rfl, rfl, rfl, rfl⟩
      exact Int64.not_le.mp hn
  · cases h
  · cases h

/-- **Range**: under the sampler contract every delivered value satisfies `0 ≤ r < n`. -/
theorem C17_range (get : String → Option OutVal) (a : Expr) (g g' : Rng) (v : Int64)
    (hc : ∀ g1 : Rng, g1.f = g.f → g1.InRange)
    (hf : ∀ n g1, evalG get a g = .ok (n, g1) → g1.f = g.f)
    (h : evalG get (.call "random" [a]) g = .ok (v, g')) :
    ∃ n g1, evalG get a g = .ok (n, g1) ∧ 0 ≤ v ∧ v < n := by
  obtain ⟨n, g1, he, hn, hv, _⟩ := C17_random get a g g' v h
  have := hc g1 (hf n g1 he) g1.hist n hn
  exact ⟨n, g1, he, hv ▸ this.1, hv ▸ this.2⟩

/-- an empty range (`n ≤ 1`) is an error item and consumes no draw -/
theorem C17_empty_range (get : String → Option OutVal) (a : Expr) (g g1 : Rng) (n : Int64)
    (he : evalG get a g = .ok (n, g1)) (hn : n ≤ 1) :
    evalG get (.call "random" [a]) g = .err (.emptyRange n) := by
  simp [evalG, funcArity, he, hn]

/-- **Evaluation never touches the generator function and only ever appends to the request
history** — one entry per `random` node that is actually evaluated (the draw counter says how many). -/
theorem C17_history_grows (get : String → Option OutVal) : ∀ (e : Expr) (g g' : Rng) (v : Int64),
    evalG get e g = .ok (v, g') →
      g'.f = g.f ∧ ∃ ds : List Int64, g'.hist = g.hist ++ ds ∧ g'.total = g.total + ds.length
  | .num n, g, g', v, h => by simp [evalG] at h; obtain ⟨_, rfl⟩ := h; exact ⟨rfl, [], by simp, by simp⟩
  | .var s, g, g', v, h => by
    simp only [evalG] at h
    split at h
    · cases h
    · cases h; exact ⟨rfl, [], by simp, by simp⟩
    · cases h
  | .un o e, g, g', v, h => by
    simp only [evalG] at h
    split at h
    · next v1 g1 he => cases h; exact C17_history_grows get e g g' v1 he
    · cases h
    · cases h
  | .bin o l r, g, g', v, h => by
    simp only [evalG] at h
    split at h
    · next a g1 hl =>
      split at h
      · next b g2 hr =>
        split at h
        · cases h
          obtain ⟨f1, d1, h1, t1⟩ := C17_history_grows get l g g1 a hl
          obtain ⟨f2, d2, h2, t2⟩ := C17_history_grows get r g1 g' b hr
          exact ⟨f2.trans f1, d1 ++ d2, by rw [h2, h1, List.append_assoc], by rw [t2, t1, List.length_append]; omega⟩
        · cases h
      · cases h
      · cases h
    · cases h
    · cases h
  | .call name args, g, g', v, h => by
    unfold evalG at h
    cases hfa : funcArity name with
    | none => simp [hfa] at h
    | some ar =>
      simp only [hfa] at h
      by_cases hne : (ar != args.length) = true
      · simp [hne] at h
      · simp only [hne, Bool.false_eq_true, if_false] at h
        by_cases hr : name = "random"
        · simp only [hr, if_true] at h
          match args, h with
          | [], h => cases h
          | [a], h =>
            simp only at h
            cases he : evalG get a g with
            | ok p =>
              obtain ⟨n, g1⟩ := p
              simp only [he] at h
              by_cases hn : n ≤ 1
              · simp [hn] at h
              · simp only [hn, if_false] at h
                cases h
                obtain ⟨f1, d1, h1, t1⟩ := C17_history_grows get a g g1 n he
                exact ⟨f1, d1 ++ [n], by simp [Rng.draw, h1], by simp [Rng.draw, t1]; omega⟩
            | err e => simp [he] at h
            | panic m => simp [he] at h
          | _ :: _ :: _, h => cases h
        · simp only [hr, if_false] at h
          by_cases hi : name = "ite"
          · simp only [hi, if_true] at h
            match args, h with
            | [], h => cases h
            | [_], h => cases h
            | [_, _], h => cases h
            | [t, a, b], h =>
              simp only at h
              cases hc : evalG get t g with
              | ok p =>
                obtain ⟨c, g1⟩ := p
                simp only [hc] at h
                obtain ⟨f1, d1, h1, t1⟩ := C17_history_grows get t g g1 c hc
                by_cases hz : c = 0
                · simp only [hz, if_true] at h
                  obtain ⟨f2, d2, h2, t2⟩ := C17_history_grows get b g1 g' v h
                  exact ⟨f2.trans f1, d1 ++ d2, by rw [h2, h1, List.append_assoc], by rw [t2, t1, List.length_append]; omega⟩
                · simp only [hz, if_false] at h
                  obtain ⟨f2, d2, h2, t2⟩ := C17_history_grows get a g1 g' v h
                  exact ⟨f2.trans f1, d1 ++ d2, by rw [h2, h1, List.append_assoc], by rw [t2, t1, List.length_append]; omega⟩
              | err e => simp [hc] at h
              | panic m => simp [hc] at h
            | _ :: _ :: _ :: _ :: _, h => cases h
          · simp [hi] at h

/-- **An evaluation that fails has drawn too — and nothing else**: whatever the outcome of an evaluation, the
generator it leaves behind (`rngAfter`: the draws in front of the failing sub-expression have been made) has
the same function and a request history that extends the old one, one entry per draw made.  So a caller who
goes on behind an error item sees later draws, and the replay after `resetRandom`, exactly as `C17_reset_replays`
says: the generator is still a function of the bounds requested since the last (re)seed. -/
theorem C17_failed_eval_history (get : String → Option OutVal) : ∀ (e : Expr) (g : Rng),
    (rngAfter get e g).f = g.f ∧
    ∃ ds : List Int64, (rngAfter get e g).hist = g.hist ++ ds ∧ (rngAfter get e g).total = g.total + ds.length
  | .num n, g => ⟨rfl, [], by simp [rngAfter], by simp [rngAfter]⟩
  | .var s, g => ⟨rfl, [], by simp [rngAfter], by simp [rngAfter]⟩
  | .un o e, g => by simpa [rngAfter] using C17_failed_eval_history get e g
  | .bin o l r, g => by
    simp only [rngAfter]
    cases hl : evalG get l g with
    | ok p =>
      obtain ⟨a, g1⟩ := p
      simp only
      obtain ⟨f1, d1, h1, t1⟩ := C17_history_grows get l g g1 a hl
      obtain ⟨f2, d2, h2, t2⟩ := C17_failed_eval_history get r g1
      exact ⟨f2.trans f1, d1 ++ d2, by rw [h2, h1, List.append_assoc], by rw [t2, t1, List.length_append]; omega⟩
    | err er => exact C17_failed_eval_history get l g
    | panic m => exact C17_failed_eval_history get l g
  | .call name args, g => by
    unfold rngAfter
    cases ha : funcArity name with
    | none => exact ⟨rfl, [], by simp, by simp⟩
    | some ar =>
      simp only
      by_cases hne : (ar != args.length) = true
      · rw [if_pos hne]; exact ⟨rfl, [], by simp, by simp⟩
      · rw [if_neg hne]
        by_cases hr : name = "random"
        · rw [if_pos hr]
          match args with
          | [] => exact ⟨rfl, [], by simp, by simp⟩
          | _ :: _ :: _ => exact ⟨rfl, [], by simp, by simp⟩
          | [a] =>
            simp only
            cases h1 : evalG get a g with
            | ok p =>
              obtain ⟨mx, g1⟩ := p
              simp only
              obtain ⟨f1, d1, hh1, t1⟩ := C17_history_grows get a g g1 mx h1
              split
              · exact ⟨f1, d1, hh1, t1⟩
              · refine ⟨by simp [Rng.draw, f1], d1 ++ [mx], ?_, ?_⟩
                · simp [Rng.draw, hh1]
                · simp [Rng.draw, t1]; omega
            | err er => exact C17_failed_eval_history get a g
            | panic m => exact C17_failed_eval_history get a g
        · rw [if_neg hr]
          by_cases hi : name = "ite"
          · rw [if_pos hi]
            match args with
            | [] => exact ⟨rfl, [], by simp, by simp⟩
            | [_] => exact ⟨rfl, [], by simp, by simp⟩
            | [_, _] => exact ⟨rfl, [], by simp, by simp⟩
            | _ :: _ :: _ :: _ :: _ => exact ⟨rfl, [], by simp, by simp⟩
            | [t, a, b] =>
              simp only
              cases h1 : evalG get t g with
              | ok p =>
                obtain ⟨x, g1⟩ := p
                simp only
                obtain ⟨f1, d1, hh1, t1⟩ := C17_history_grows get t g g1 x h1
                split
                · obtain ⟨f2, d2, h2, t2⟩ := C17_failed_eval_history get b g1
                  exact ⟨f2.trans f1, d1 ++ d2, by rw [h2, hh1, List.append_assoc], by rw [t2, t1, List.length_append]; omega⟩
                · obtain ⟨f2, d2, h2, t2⟩ := C17_failed_eval_history get a g1
                  exact ⟨f2.trans f1, d1 ++ d2, by rw [h2, hh1, List.append_assoc], by rw [t2, t1, List.length_append]; omega⟩
              | err er => exact C17_failed_eval_history get t g
              | panic m => exact C17_failed_eval_history get t g
          · rw [if_neg hi]; exact ⟨rfl, [], by simp, by simp⟩

/-- an empty `random` range draws nothing itself: the generator behind `random(n)`, n ≤ 1, is the one behind `n` -/
theorem C17_empty_range_no_draw (get : String → Option OutVal) (a : Expr) (g g1 : Rng) (n : Int64)
    (he : evalG get a g = .ok (n, g1)) (hn : n ≤ 1) : rngAfter get (.call "random" [a]) g = g1 := by
  simp [rngAfter, funcArity, he, hn]

/-- **No draw for the unselected branch of `ite`**: the generator after `ite(c,a,b)` is the
generator after `c` followed by the selected branch alone. -/
theorem C17_ite_no_draw (get : String → Option OutVal) (c a b : Expr) (g g1 : Rng) (vc : Int64)
    (hc : evalG get c g = .ok (vc, g1)) :
    evalG get (.call "ite" [c, a, b]) g = if vc = 0 then evalG get b g1 else evalG get a g1 := by
  simp [evalG, funcArity, hc]

/-- **`resetRandom` restarts the generator**: afterwards its state is the state right after seeding,
whatever was drawn before — so the following draws repeat, for the same sequence of bounds, the
values drawn from the start of the run. -/
theorem C17_reset_replays (g : Rng) :
    g.reset.hist = [] ∧ g.reset.f = g.f ∧
    ∀ (g0 : Rng), g0.f = g.f → g0.hist = [] → ∀ (bs : List Int64),
      (bs.foldl (fun (st : Rng × List Int64) b => ((st.1.draw b).2, st.2 ++ [(st.1.draw b).1])) (g.reset, [])).2 =
      (bs.foldl (fun (st : Rng × List Int64) b => ((st.1.draw b).2, st.2 ++ [(st.1.draw b).1])) (g0, [])).2 := by
  refine ⟨rfl, rfl, ?_⟩
  intro g0 hf hh bs
  -- the two generators agree on everything a draw looks at
  suffices H : ∀ (bs : List Int64) (ga gb : Rng) (acc : List Int64), ga.f = gb.f → ga.hist = gb.hist →
      (bs.foldl (fun (st : Rng × List Int64) b => ((st.1.draw b).2, st.2 ++ [(st.1.draw b).1])) (ga, acc)).2 =
      (bs.foldl (fun (st : Rng × List Int64) b => ((st.1.draw b).2, st.2 ++ [(st.1.draw b).1])) (gb, acc)).2 from
    H bs g.reset g0 [] hf.symm (by simp [Rng.reset, hh])
  intro bs
  induction bs with
  | nil => intro ga gb acc _ _; rfl
  | cons b bs ih =>
    intro ga gb acc hf hh
    simp only [List.foldl_cons]
    have hv : (ga.draw b).1 = (gb.draw b).1 := by simp [Rng.draw, hf, hh]
    rw [hv]
    exact ih _ _ _ (by simp [Rng.draw, hf]) (by simp [Rng.draw, hh])

/-- the statement `resetRandom;` does exactly that to the context, and nothing else -/
theorem C17_reset_stmt (rest : List Stmt) (c : Ctx) :
    step (.mk (.resetRandom :: rest) .iterate) c = .cont (.mk rest .iterate) { c with rng := c.rng.reset } := rfl

/-- **Drawn values behave like literals**: once drawn, the value enters the computation exactly as
the literal `v` would (nothing else of the generator is ever consulted by the evaluator). -/
theorem C17_as_literal (get : String → Option OutVal) (v : Int64) (g : Rng) :
    evalG get (.num v) g = .ok (v, g) := rfl

/-! Non-vacuity: a generator honouring the contract, a draw, and a replay after reset. -/
def exRng : Rng := { f := fun hist => Int64.ofNat (hist.length % 2) }
example : evalG (fun _ => none) (.call "random" [.num 5]) exRng = .ok (1, { exRng with hist := [5], total := 1 }) := by
  simp [evalG, funcArity, Rng.draw, exRng]

/-- **As if the drawn values had been written as literals.**  Let an evaluation of `e` succeed with value `v`,
taking the generator from `g` to `g'`, and let `litG get e g` be `e` with every call of `random` that this
evaluation performs replaced by the literal it drew (calls in the branch of an `ite` that is not taken are not
performed and stay).  Then the substituted expression evaluates to the same `v` from *any* generator state and
draws nothing; and the generator state behind the evaluation is the one the substitution computes. -/
theorem C17_as_if_literals (get : String → Option OutVal) (e : Expr) (g g' : Rng) (v : Int64)
    (h : evalG get e g = .ok (v, g')) :
    (∀ g0 : Rng, evalG get (litG get e g).1 g0 = .ok (v, g0)) ∧ (litG get e g).2 = g' :=
  ⟨(litG_spec get e g g' v h).2, (litG_spec get e g g' v h).1⟩

/-- the substitution at work: `ite(0, random(5), 7 + random(3))` draws once, for the bound 3 (the generator of
the example answers 1), and becomes `ite(0, random(5), 7 + 1)` -/
example : (litG (fun _ => none) (.call "ite" [.num 0, .call "random" [.num 5], .bin .add (.num 7) (.call "random" [.num 3])]) exRng).1 =
    .call "ite" [.num 0, .call "random" [.num 5], .bin .add (.num 7) (.num 1)] := by
  simp [litG, evalG, funcArity, Rng.draw, exRng]

end Dtr
