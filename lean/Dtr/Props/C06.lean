import Dtr.Proofs.RowIt
import Dtr.Proofs.PosOf
import Dtr.Model.AfterError
/-!
# C06 — values are bound to signals by header name; every row is a complete vector
-/
namespace Dtr

/-- indices (counted from `i`) of the signals satisfying `p`, in signal-list order -/
def sigIdxWhere (p : Signal → Bool) : Nat → List Signal → List Nat
  | _, [] => []
  | i, s :: rest => (if p s then [i] else []) ++ sigIdxWhere p (i + 1) rest

/-- the header column an output-capable / virtual signal takes its expected value from -/
def expectedColumnName (s : Signal) : String :=
  match s.typ with
  | .bidir _ => s.name ++ "_out"
  | _ => s.name

theorem indicesFor_spec (hdr : List String) (i : Nat) (s : Signal) :
    (indicesFor hdr i s).1 = (if s.isInput then [idxOf hdr s.name i] else []) ∧
    (indicesFor hdr i s).2 = (if s.isOutput || s.isVirtual then [idxOf hdr (expectedColumnName s) i] else []) := by
  unfold indicesFor expectedColumnName Signal.isInput Signal.isOutput Signal.isVirtual
  cases s.typ <;> simp

/-- **Binding by header name, inputs**: the input indices are, in signal-list order, exactly one per
input-capable signal; each refers to the header column *named like the signal*, or to the default
when the header omits it — wherever the signal sits in the list. -/
theorem C06_input_binding (hdr : List String) : ∀ (i : Nat) (sigs : List Signal),
    (buildIndices hdr i sigs).1.map (·.sig) = sigIdxWhere Signal.isInput i sigs ∧
    ∀ e ∈ (buildIndices hdr i sigs).1, ∃ s, sigs[e.sig - i]? = some s ∧ i ≤ e.sig ∧ s.isInput = true ∧
      e = idxOf hdr s.name e.sig
  | i, [] => by simp [buildIndices, sigIdxWhere]
  | i, s :: rest => by
    obtain ⟨ih1, ih2⟩ := C06_input_binding hdr (i + 1) rest
    have hs := (indicesFor_spec hdr i s).1
    simp only [buildIndices, sigIdxWhere, List.map_append, ih1, hs]
    constructor
    · by_cases h : s.isInput = true
      · have : (idxOf hdr s.name i).sig = i := by unfold idxOf; split <;> rfl
        simp [h, this]
      · simp [h]
    · intro e he
      simp only [List.mem_append] at he
      rcases he with he | he
      · by_cases h : s.isInput = true
        · simp only [h, if_true, List.mem_cons, List.mem_nil_iff, or_false] at he
          subst he
          have : (idxOf hdr s.name i).sig = i := by unfold idxOf; split <;> rfl
          exact ⟨s, by simp [this], by omega, h, by rw [this]⟩
        · simp [h] at he
      · obtain ⟨s', h1, h2, h3, h4⟩ := ih2 e he
        refine ⟨s', ?_, by omega, h3, h4⟩
        have : e.sig - i = (e.sig - (i + 1)) + 1 := by omega
        rw [this]; simpa using h1

/-- **Binding by header name, expected values**: one expected index per output-capable or virtual
signal, in signal-list order; it refers to the column named like the signal (`<name>_out` for a
bidirectional one), or is the default (`X`) when the header omits it. -/
theorem C06_expected_binding (hdr : List String) : ∀ (i : Nat) (sigs : List Signal),
    (buildIndices hdr i sigs).2.map (·.sig) = sigIdxWhere (fun s => s.isOutput || s.isVirtual) i sigs ∧
    ∀ e ∈ (buildIndices hdr i sigs).2, ∃ s, sigs[e.sig - i]? = some s ∧ i ≤ e.sig ∧
      (s.isOutput || s.isVirtual) = true ∧ e = idxOf hdr (expectedColumnName s) e.sig
  | i, [] => by simp [buildIndices, sigIdxWhere]
  | i, s :: rest => by
    obtain ⟨ih1, ih2⟩ := C06_expected_binding hdr (i + 1) rest
    have hs := (indicesFor_spec hdr i s).2
    simp only [buildIndices, sigIdxWhere, List.map_append, ih1, hs]
    constructor
    · by_cases h : (s.isOutput || s.isVirtual) = true
      · have : (idxOf hdr (expectedColumnName s) i).sig = i := by unfold idxOf; split <;> rfl
        simp [h, this]
      · simp [h]
    · intro e he
      simp only [List.mem_append] at he
      rcases he with he | he
      · by_cases h : (s.isOutput || s.isVirtual) = true
        · simp only [h, if_true, List.mem_cons, List.mem_nil_iff, or_false] at he
          subst he
          have : (idxOf hdr (expectedColumnName s) i).sig = i := by unfold idxOf; split <;> rfl
          exact ⟨s, by simp [this], by omega, h, by rw [this]⟩
        · simp [h] at he
      · obtain ⟨s', h1, h2, h3, h4⟩ := ih2 e he
        refine ⟨s', ?_, by omega, h3, h4⟩
        have : e.sig - i = (e.sig - (i + 1)) + 1 := by omega
        rw [this]; simpa using h1

/-- **Every row is a complete vector**: `inputs` has exactly one entry per input index (hence per
input-capable signal), in that order, each carrying that index's signal; `expected` likewise. -/
theorem C06_vectors_complete (tc : TestCase) (entries : List REntry) (changed : List Bool)
    (ins : List InEntry) (exps : List ExpEntry)
    (xcols : List Nat) (h1 : genInputs tc entries changed = .ok ins) (h2 : genExpected tc entries xcols = .ok exps) :
    ins.map (·.sig) = tc.inIdx.map (·.sig) ∧ exps.map (·.sig) = tc.expIdx.map (·.sig) := by
  constructor
  · obtain ⟨hl, hk⟩ := mapRes_ok _ _ _ h1
    apply List.ext_getElem (by simp [hl])
    intro i hi1 hi2
    simp only [List.length_map] at hi1 hi2
    have := hk i hi2 hi1
    simp only [List.getElem_map]
    cases hx : tc.inIdx[i] with
    | entry col sig =>
      simp only [hx, inputFor] at this
      split at this
      · cases this
      · split at this
        · cases this
        · split at this <;> (first | cases this | (injection this with this; rw [← this]; rfl))
        · split at this <;> (first | cases this | (injection this with this; rw [← this]; rfl))
        · cases this
    | dflt sig =>
      simp only [hx, inputFor] at this
      split at this
      · cases this
      · split at this
        · cases this
        · injection this with this; rw [← this]; rfl
  · obtain ⟨hl, hk⟩ := mapRes_ok _ _ _ h2
    apply List.ext_getElem (by simp [hl])
    intro i hi1 hi2
    simp only [List.length_map] at hi1 hi2
    have := hk i hi2 hi1
    simp only [List.getElem_map]
    cases hx : tc.expIdx[i] with
    | entry col sig =>
      simp only [hx, expectedFor] at this
      split at this
      · cases this
      · split at this
        · injection this with this; rw [← this]; rfl
        · split at this <;> (first | cases this | (injection this with this; rw [← this]; rfl))
    | dflt sig =>
      simp only [hx, expectedFor] at this
      split at this
      · cases this
      · injection this with this; rw [← this]; rfl

/-- an input the header omits is always at its default and never flagged as changed; an omitted
expected value is `X` -/
theorem C06_defaults (tc : TestCase) (entries : List REntry) (changed : List Bool) (sig : Nat) :
    (∀ e, inputFor tc entries changed (.dflt sig) = .ok e →
        e.changed = false ∧ ∃ s, tc.signals[sig]? = some s ∧ s.default? = some e.value) ∧
    (∀ xcols e, expectedFor tc entries xcols (.dflt sig) = .ok e → e.value = .x) := by
  constructor
  · intro e h
    simp only [inputFor] at h
    split at h
    · cases h
    · next s hs =>
      split at h
      · cases h
      · next v hv => cases h; exact ⟨rfl, s, hs, hv⟩
  · intro xcols e h
    simp only [expectedFor] at h
    split at h
    · cases h
    · cases h; rfl

/-- **`changed = false` is sound**: an input entry that is not flagged carries the same value its
signal had in the previous row handed to the driver (`prev` is that row: `get_row` stores every row
it pops). -/
theorem C06_changed_sound (tc : TestCase) (prev entries : List REntry) (chg' : List Bool) (col sig : Nat)
    (e e' : InEntry)
    (h : inputFor tc entries (changedFlags (some prev) entries) (.entry col sig) = .ok e)
    (hprev : inputFor tc prev chg' (.entry col sig) = .ok e')
    (hc : e.changed = false) : e.value = e'.value := by
  simp only [inputFor] at h hprev
  split at h
  · cases h
  · next s hs =>
    simp only [hs] at hprev
    have hflag : ∀ ch, (changedFlags (some prev) entries)[col]? = some ch → ch = false →
        entries[col]? = prev[col]? := by
      intro ch hch hf
      simp only [changedFlags, List.getElem?_map, List.getElem?_zip_eq_some, Option.map_eq_some_iff] at hch
      obtain ⟨⟨a, b⟩, ⟨ha, hb⟩, hne⟩ := hch
      subst hf
      simp only [bne_eq_false_iff_eq] at hne
      rw [ha, hb, hne]
    split at h
    · cases h
    · next n hn =>
      split at h
      · cases h
      · next ch hch =>
        cases h
        have := hflag ch hch hc
        rw [hn] at this
        simp only [← this] at hprev
        split at hprev <;> cases hprev
        rfl
    · next hz =>
      split at h
      · cases h
      · next ch hch =>
        cases h
        have := hflag ch hch hc
        rw [hz] at this
        simp only [← this] at hprev
        split at hprev <;> cases hprev
        rfl
    · cases h

/-- before the first row every entry is flagged as changed (there is no previous row) -/
theorem C06_first_row_all_changed (entries : List REntry) :
    changedFlags none entries = entries.map (fun _ => true) := rfl

/-- `get_row` records the row it hands out as the previous row -/
theorem C06_prev_is_last_row (tc : TestCase) (fuel : Nat) (s sg : RowIt) (ev : EvRow)
    (h : getRow tc fuel s = .row ev sg) :
    ∃ top : CRow, sg.prev = some top.entries ∧ genInputs tc top.entries (changedFlags s.prev top.entries) = .ok ev.inputs := by
  obtain ⟨top, h1, _, _, h4, _⟩ := getRow_row tc fuel s sg ev h
  exact ⟨top, h1, by simpa using h4⟩

/-- **The previous row is the last vector handed to the driver — also when that call failed.**  Whatever item a
`next()` returns for a row it took from `get_row` — the row, a driver error, a refused answer —, the iterator keeps
that row as the previous row (and the rest of the expansion on the row stack): the `changed` flags of the next row are
relative to what the device was last sent.  (`RowIt.nextC`: the state of the code behind every item.) -/
theorem C06_prev_behind_every_item {δ : Type} (tc : TestCase) (drv : Driver δ) (fuel : Nat) (s s' : RowIt) (d d' : δ)
    (i : Item) (calls : List Call) (hc : calls ≠ [])
    (h : s.nextC tc drv fuel d = .item i s' d' calls) :
    ∃ ev sg, getRow tc fuel s = .row ev sg ∧ s'.prev = sg.prev ∧ s'.cache = sg.cache ∧
      ∃ c, calls = [c] ∧ c.inputs = ev.inputs := by
  unfold RowIt.nextC at h
  split at h
  · simp only [NextOut.item.injEq] at h; exact absurd h.2.2.2.symm hc
  · cases h
  · cases h
  · cases h
  · next ev sg hg =>
    refine ⟨ev, sg, hg, ?_⟩
    split at h
    · split at h
      · simp only [NextOut.item.injEq] at h
        obtain ⟨_, h2, _, h4⟩ := h
        subst h2; exact ⟨rfl, rfl, _, h4.symm, rfl⟩
      · next d1 outs hrw =>
        simp only at h
        split at h
        · simp only [NextOut.item.injEq] at h
          obtain ⟨_, h2, _, h4⟩ := h
          subst h2; exact ⟨rfl, rfl, _, h4.symm, rfl⟩
        · simp only [NextOut.item.injEq] at h
          obtain ⟨_, h2, _, h4⟩ := h
          subst h2; exact ⟨rfl, rfl, _, h4.symm, rfl⟩
        · cases h
    · split at h
      · simp only [NextOut.item.injEq] at h
        obtain ⟨_, h2, _, h4⟩ := h
        subst h2; exact ⟨rfl, rfl, _, h4.symm, rfl⟩
      · simp only [NextOut.item.injEq] at h
        obtain ⟨_, h2, _, h4⟩ := h
        subst h2; exact ⟨rfl, rfl, _, h4.symm, rfl⟩

end Dtr
