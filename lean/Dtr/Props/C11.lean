import Dtr.Spec.Accept
import Dtr.Props.C06
/-!
# C11 — binding a test to a signal list succeeds exactly when the two fit together
-/
namespace Dtr

theorem checkDuplicates_none (virt : List String) : ∀ (sigs : List Signal) (seen : List String),
    checkDuplicates virt sigs seen = none ↔
      (∀ s ∈ sigs, s.name ∉ seen) ∧ (sigs.map (·.name)).Nodup ∧ ∀ v ∈ virt, v ∉ seen ∧ v ∉ sigs.map (·.name)
  | [], seen => by
    simp only [checkDuplicates, Option.map_eq_none_iff, List.find?_eq_none, List.contains_iff_mem]
    simp
  | s :: rest, seen => by
    simp only [checkDuplicates]
    by_cases hs : seen.contains s.name = true
    · simp only [hs, if_true]
      simp only [List.contains_iff_mem] at hs
      constructor
      · intro h; cases h
      · intro ⟨h, _, _⟩
        exact absurd hs (h s (by simp))
    · simp only [hs, Bool.false_eq_true, if_false]
      rw [checkDuplicates_none virt rest (seen ++ [s.name])]
      simp only [List.contains_iff_mem] at hs
      simp only [List.mem_append, List.mem_cons, List.mem_nil_iff, or_false, not_or, List.map_cons,
        List.nodup_cons, List.mem_map, not_exists, not_and, forall_eq_or_imp]
      constructor
      · intro ⟨h1, h2, h3⟩
        refine ⟨⟨hs, fun x hx => (h1 x hx).1⟩, ⟨fun x hx hn => (h1 x hx).2 hn, h2⟩, ?_⟩
        intro v hv
        obtain ⟨⟨a, b⟩, c⟩ := h3 v hv
        exact ⟨a, b, c⟩
      · intro ⟨⟨h0, h1⟩, ⟨h2a, h2⟩, h3⟩
        refine ⟨fun x hx => ⟨h1 x hx, fun hn => h2a x hx hn⟩, h2, ?_⟩
        intro v hv
        obtain ⟨a, b, c⟩ := h3 v hv
        exact ⟨⟨a, b⟩, c⟩

theorem buildReads_ok (signals : List Signal) : ∀ (names : List String),
    (∃ is, buildReads signals names = .ok is) ↔
      ∀ n ∈ names, ∃ s ∈ signals, s.name = n ∧ s.isOutput = true
  | [] => by simp [buildReads]
  | name :: rest => by
    simp only [buildReads]
    cases hp : posOf (fun s => s.name == name && s.isOutput) signals with
    | none =>
      have hf := posOf_none _ signals hp
      simp only [List.find?_eq_none, Bool.and_eq_true, beq_iff_eq, not_and] at hf
      constructor
      · intro ⟨_, h⟩; cases h
      · intro h
        obtain ⟨s, hs, hn, ho⟩ := h name (by simp)
        exact absurd ho (by simpa using hf s hs hn)
    | some i =>
      obtain ⟨hlt, hpi, _⟩ := posOf_some _ signals i hp
      simp only [Bool.and_eq_true, beq_iff_eq] at hpi
      have ih := buildReads_ok signals rest
      cases hr : buildReads signals rest with
      | ok is =>
        simp only
        constructor
        · intro _ n hn
          simp only [List.mem_cons] at hn
          rcases hn with rfl | hn
          · exact ⟨signals[i], List.getElem_mem _, hpi.1, hpi.2⟩
          · exact (ih.mp ⟨is, hr⟩) n hn
        · intro _; exact ⟨_, rfl⟩
      | err e =>
        simp only
        constructor
        · intro ⟨_, h⟩; cases h
        · intro h
          have := ih.mpr (fun n hn => h n (by simp [hn]))
          obtain ⟨is, his⟩ := this
          rw [hr] at his; cases his
      | panic m =>
        simp only
        constructor
        · intro ⟨_, h⟩; cases h
        · intro h
          have := ih.mpr (fun n hn => h n (by simp [hn]))
          obtain ⟨is, his⟩ := this
          rw [hr] at his; cases his

/-- every input-capable signal contributes its index -/
theorem input_index_mem (hdr : List String) : ∀ (i0 : Nat) (sigs : List Signal) (i : Nat) (s : Signal),
    sigs[i]? = some s → s.isInput = true → idxOf hdr s.name (i0 + i) ∈ (buildIndices hdr i0 sigs).1
  | i0, [], i, s, h, _ => by simp at h
  | i0, x :: rest, 0, s, h, hi => by
    simp only [List.getElem?_cons_zero, Option.some.injEq] at h
    subst h
    simp only [buildIndices, (indicesFor_spec hdr i0 x).1, hi, if_true, Nat.add_zero]
    simp
  | i0, x :: rest, i+1, s, h, hi => by
    simp only [List.getElem?_cons_succ] at h
    have := input_index_mem hdr (i0 + 1) rest i s h hi
    simp only [buildIndices, List.mem_append]
    right
    have e : i0 + 1 + i = i0 + (i + 1) := by omega
    rw [← e]; exact this

theorem expected_index_mem (hdr : List String) : ∀ (i0 : Nat) (sigs : List Signal) (i : Nat) (s : Signal),
    sigs[i]? = some s → (s.isOutput || s.isVirtual) = true →
    idxOf hdr (expectedColumnName s) (i0 + i) ∈ (buildIndices hdr i0 sigs).2
  | i0, [], i, s, h, _ => by simp at h
  | i0, x :: rest, 0, s, h, hi => by
    simp only [List.getElem?_cons_zero, Option.some.injEq] at h
    subst h
    simp only [buildIndices, (indicesFor_spec hdr i0 x).2, hi, if_true, Nat.add_zero]
    simp
  | i0, x :: rest, i+1, s, h, hi => by
    simp only [List.getElem?_cons_succ] at h
    have := expected_index_mem hdr (i0 + 1) rest i s h hi
    simp only [buildIndices, List.mem_append]
    right
    have e : i0 + 1 + i = i0 + (i + 1) := by omega
    rw [← e]; exact this

/-- in a duplicate-free header, the column found by name is the column holding that name -/
theorem posOf_nodup (hdr : List String) (hnd : hdr.Nodup) (col : Nat) (h : String) (hc : hdr[col]? = some h) :
    posOf (fun n => n == h) hdr = some col := by
  induction hdr generalizing col with
  | nil => simp at hc
  | cons a rest ih =>
    simp only [List.nodup_cons] at hnd
    cases col with
    | zero =>
      simp only [List.getElem?_cons_zero, Option.some.injEq] at hc
      simp [posOf, hc]
    | succ col =>
      simp only [List.getElem?_cons_succ] at hc
      have hne : (a == h) = false := by
        cases hb : (a == h) with
        | false => rfl
        | true =>
          have : a = h := by simpa using hb
          exact absurd (this ▸ List.mem_of_getElem? hc) hnd.1
      simp [posOf, hne, ih hnd.2 col hc]

/-- a header column is referred to by some index iff it names a signal -/
theorem column_covered (hdr : List String) (hnd : hdr.Nodup) (sigs : List Signal) (col : Nat) (h : String)
    (hc : hdr[col]? = some h) :
    (((buildIndices hdr 0 sigs).1 ++ (buildIndices hdr 0 sigs).2).any (fun e => e.indexes col) = true) ↔
      ∃ s ∈ sigs, Names h s := by
  have hpos := posOf_nodup hdr hnd col h hc
  constructor
  · intro hany
    simp only [List.any_eq_true, List.mem_append] at hany
    obtain ⟨e, he, hidx⟩ := hany
    rcases he with he | he
    · obtain ⟨s, hs, _, hin, heq⟩ := (C06_input_binding hdr 0 sigs).2 e he
      refine ⟨s, List.mem_of_getElem? hs, ?_⟩
      rw [heq] at hidx
      unfold idxOf at hidx
      split at hidx
      · next c hp =>
        simp only [EIdx.indexes, beq_iff_eq] at hidx
        subst hidx
        obtain ⟨hlt, hpc, _⟩ := posOf_some _ hdr c hp
        have hh : hdr[c] = h := by
          have := List.getElem?_eq_getElem hlt ▸ hc
          simpa using this
        have : h = s.name := by rw [← hh]; simpa using hpc
        unfold Names
        cases hst : s.typ with
        | input d => exact this
        | bidir d => exact Or.inl this
        | output => simp [Signal.isInput, hst] at hin
        | virt e => simp [Signal.isInput, hst] at hin
      · simp [EIdx.indexes] at hidx
    · obtain ⟨s, hs, _, hout, heq⟩ := (C06_expected_binding hdr 0 sigs).2 e he
      refine ⟨s, List.mem_of_getElem? hs, ?_⟩
      rw [heq] at hidx
      unfold idxOf at hidx
      split at hidx
      · next c hp =>
        simp only [EIdx.indexes, beq_iff_eq] at hidx
        subst hidx
        obtain ⟨hlt, hpc, _⟩ := posOf_some _ hdr c hp
        have hh : hdr[c] = h := by
          have := List.getElem?_eq_getElem hlt ▸ hc
          simpa using this
        have : h = expectedColumnName s := by rw [← hh]; simpa using hpc
        unfold Names
        cases hst : s.typ with
        | input d => simp [Signal.isOutput, Signal.isVirtual, hst] at hout
        | bidir d => right; simpa [expectedColumnName, hst] using this
        | output => simpa [expectedColumnName, hst] using this
        | virt e => simpa [expectedColumnName, hst] using this
      · simp [EIdx.indexes] at hidx
  · intro ⟨s, hs, hn⟩
    obtain ⟨i, hi, hsi⟩ := List.getElem_of_mem hs
    have hget : sigs[i]? = some s := by rw [List.getElem?_eq_getElem hi, hsi]
    simp only [List.any_eq_true, List.mem_append]
    -- which side of the signal does the column name?
    have hcase : (s.isInput = true ∧ h = s.name) ∨ ((s.isOutput || s.isVirtual) = true ∧ h = expectedColumnName s) := by
      unfold Names at hn
      cases hst : s.typ with
      | input d => left; simp only [hst] at hn; exact ⟨by simp [Signal.isInput, hst], hn⟩
      | output => right; simp only [hst] at hn; exact ⟨by simp [Signal.isOutput, hst], by simpa [expectedColumnName, hst] using hn⟩
      | virt e => right; simp only [hst] at hn; exact ⟨by simp [Signal.isVirtual, hst], by simpa [expectedColumnName, hst] using hn⟩
      | bidir d =>
        simp only [hst] at hn
        rcases hn with hn | hn
        · left; exact ⟨by simp [Signal.isInput, hst], hn⟩
        · right; exact ⟨by simp [Signal.isOutput, hst], by simpa [expectedColumnName, hst] using hn⟩
    rcases hcase with ⟨hin, rfl⟩ | ⟨hout, rfl⟩
    · refine ⟨idxOf hdr s.name i, Or.inl ?_, ?_⟩
      · have := input_index_mem hdr 0 sigs i s hget hin; simpa using this
      · simp [idxOf, hpos, EIdx.indexes]
    · refine ⟨idxOf hdr (expectedColumnName s) i, Or.inr ?_, ?_⟩
      · have := expected_index_mem hdr 0 sigs i s hget hout; simpa using this
      · simp [idxOf, hpos, EIdx.indexes]

theorem missingColumns_nil (hdr : List String) (idx : List EIdx) :
    missingColumns hdr idx = [] ↔ ∀ col h, hdr[col]? = some h → idx.any (fun e => e.indexes col) = true := by
  unfold missingColumns
  simp only [List.map_eq_nil_iff, List.filter_eq_nil_iff, Bool.not_eq_true', Bool.not_eq_false]
  constructor
  · intro hall col h hc
    have hmem : (h, col) ∈ hdr.zipIdx := by
      rw [List.mem_zipIdx_iff_getElem?]; simpa using hc
    simpa using hall (h, col) hmem
  · intro hall ⟨h, col⟩ hmem
    rw [List.mem_zipIdx_iff_getElem?] at hmem
    simpa using hall col h (by simpa using hmem)

/-- **Binding succeeds if and only if header, program and signal list fit together** (`Accept`,
written over names), for every parsed test with a duplicate-free header (which the parser
guarantees) and every signal list — and it never panics. -/
theorem C11_bind_iff (p : Parsed) (sigs : List Signal) (hnd : p.signals.Nodup) :
    (∃ tc, withSignals p sigs = .ok tc) ↔ Accept p sigs := by
  unfold withSignals Accept
  have hdup := checkDuplicates_none (p.virt.map (·.1)) sigs []
  cases hcd : checkDuplicates (p.virt.map (·.1)) sigs [] with
  | some e =>
    simp only
    constructor
    · intro ⟨_, h⟩; cases h
    · intro ⟨h1, h2, _⟩
      have : checkDuplicates (p.virt.map (·.1)) sigs [] = none :=
        hdup.mpr ⟨by simp, h1, fun v hv => ⟨by simp, h2 v hv⟩⟩
      rw [hcd] at this; cases this
  | none =>
    obtain ⟨_, hnodup, hvirt⟩ := hdup.mp hcd
    simp only
    have hmiss := missingColumns_nil p.signals
      ((buildIndices p.signals 0 (allSignals p sigs)).1 ++ (buildIndices p.signals 0 (allSignals p sigs)).2)
    have hcov : (∀ col h, p.signals[col]? = some h →
        ((buildIndices p.signals 0 (allSignals p sigs)).1 ++ (buildIndices p.signals 0 (allSignals p sigs)).2).any
          (fun e => e.indexes col) = true) ↔ ∀ h ∈ p.signals, ∃ s ∈ allSignals p sigs, Names h s := by
      constructor
      · intro hall h hh
        obtain ⟨col, hlt, hcol⟩ := List.getElem_of_mem hh
        have hc : p.signals[col]? = some h := by rw [List.getElem?_eq_getElem hlt, hcol]
        exact (column_covered p.signals hnd _ col h hc).mp (hall col h hc)
      · intro hall col h hc
        exact (column_covered p.signals hnd _ col h hc).mpr (hall h (List.mem_of_getElem? hc))
    have hA : allSignals p sigs = sigs ++ List.map (fun x => ({ name := x.1, bits := 64, typ := SigType.virt x.2.2 } : Signal)) p.virt := rfl
    rw [← hA]
    cases hbi : buildIndices p.signals 0 (allSignals p sigs) with
    | mk inIdx expIdx =>
      simp only [hbi] at hmiss hcov ⊢
      cases hm : missingColumns p.signals (inIdx ++ expIdx) with
      | cons a as =>
        simp only
        constructor
        · intro ⟨_, h⟩; cases h
        · intro ⟨_, _, h3, _⟩
          have := hmiss.mpr (hcov.mpr h3)
          rw [hm] at this; cases this
      | nil =>
        have h3 := hcov.mp (hmiss.mp hm)
        simp only
        cases hb : badExpectedInput (allSignals p sigs) (p.expIn.map (·.1)) with
        | some n =>
          simp only
          constructor
          · intro ⟨_, h⟩; cases h
          · intro ⟨_, _, _, h4, _⟩
            unfold badExpectedInput at hb
            have hn := List.mem_of_find?_eq_some hb
            have hp := List.find?_some hb
            obtain ⟨s, hs, hsn, hsi⟩ := h4 n hn
            simp only [Bool.not_eq_true', List.any_eq_false, Bool.and_eq_true, beq_iff_eq, not_and,
              Bool.not_eq_true] at hp
            have := hp s hs hsn
            rw [hsi] at this; cases this
        | none =>
          have h4 : ∀ c ∈ p.expIn.map (·.1), ∃ s ∈ allSignals p sigs, s.name = c ∧ s.isInput = true := by
            intro c hc
            unfold badExpectedInput at hb
            have := List.find?_eq_none.mp hb c hc
            simp only [Bool.not_eq_true', Bool.not_eq_false, List.any_eq_true, Bool.and_eq_true, beq_iff_eq] at this
            exact this
          simp only
          have hr := buildReads_ok (allSignals p sigs) (p.reads.map (·.1))
          cases hbr : buildReads (allSignals p sigs) (p.reads.map (·.1)) with
          | ok reads =>
            simp only
            constructor
            · intro _
              exact ⟨hnodup, fun v hv => (hvirt v hv).2, h3, h4, hr.mp ⟨reads, hbr⟩⟩
            · intro _; exact ⟨_, rfl⟩
          | err e =>
            simp only
            constructor
            · intro ⟨_, h⟩; cases h
            · intro ⟨_, _, _, _, h5⟩
              obtain ⟨is, his⟩ := hr.mpr h5
              rw [hbr] at his; cases his
          | panic m =>
            simp only
            constructor
            · intro ⟨_, h⟩; cases h
            · intro ⟨_, _, _, _, h5⟩
              obtain ⟨is, his⟩ := hr.mpr h5
              rw [hbr] at his; cases his

/-- `build_read_outputs` never panics, hence neither does binding -/
theorem buildReads_no_panic (signals : List Signal) : ∀ (names : List String) (m : String),
    buildReads signals names ≠ .panic m
  | [], m => by simp [buildReads]
  | name :: rest, m => by
    simp only [buildReads]
    split
    · simp
    · have := buildReads_no_panic signals rest
      split
      · simp
      · simp
      · next m' hm => exact absurd hm (this m')

theorem C11_never_panics (p : Parsed) (sigs : List Signal) (m : String) : withSignals p sigs ≠ .panic m := by
  unfold withSignals
  split
  · simp
  · simp only
    split
    · simp
    · split
      · simp
      · split
        · simp
        · next m' hm => exact absurd hm (buildReads_no_panic _ _ m')
        · simp

end Dtr
