import Dtr.Proofs.RowIt
import Dtr.Model.AfterError
/-!
# C02 — driver protocol: defaults first, then exactly one call per row, passed verbatim

Statements about the ghost call log the model appends to at every driver call, for *every* driver
(any state machine; `wo` may be its own `write_input` or the provided forwarding one).
-/
namespace Dtr

/-- **Constructor: exactly one output-reading call**, carrying the default vector, whether the
constructor then succeeds or fails (driver error, or a read output the driver does not supply). -/
theorem C02_ctor_one_call {δ : Type} (tc : TestCase) (drv : Driver δ) (d : δ) (rng : Rng) (ins : List InEntry)
    (hd : defaultInputs tc = .ok ins) :
    (∀ s d' log, tryNew tc drv d rng = .ok s d' log →
        log = [⟨.readWrite, ins, (drv.rw d ins).2⟩] ∧ d' = (drv.rw d ins).1) ∧
    (∀ e d' log, tryNew tc drv d rng = .err e d' log →
        log = [⟨.readWrite, ins, (drv.rw d ins).2⟩] ∧ d' = (drv.rw d ins).1) := by
  constructor
  · intro s d' log h
    unfold tryNew at h
    simp only [hd] at h
    cases hrw : drv.rw d ins with
    | mk d1 resp =>
      simp only [hrw] at h ⊢
      cases resp with
      | fail e => cases h
      | ok outs =>
        simp only at h
        cases hb : buildOutIdx tc outs with
        | ok oi => simp only [hb] at h; cases h; exact ⟨rfl, rfl⟩
        | err e => simp only [hb] at h; cases h
        | panic m => simp only [hb] at h; cases h
  · intro e d' log h
    unfold tryNew at h
    simp only [hd] at h
    cases hrw : drv.rw d ins with
    | mk d1 resp =>
      simp only [hrw] at h ⊢
      cases resp with
      | fail e' => cases h; exact ⟨rfl, rfl⟩
      | ok outs =>
        simp only at h
        cases hb : buildOutIdx tc outs with
        | ok oi => simp only [hb] at h; cases h
        | err e' => simp only [hb] at h; cases h; exact ⟨rfl, rfl⟩
        | panic m => simp only [hb] at h; cases h

/-- **…carrying every input index's signal at its default, `changed = false`**, in the order of the
input indices (one per input-capable signal in signal-list order: `C06_inputs_complete`). -/
theorem C02_ctor_defaults (tc : TestCase) (ins : List InEntry) (hd : defaultInputs tc = .ok ins) :
    ins.length = tc.inIdx.length ∧
    ∀ i (h : i < tc.inIdx.length) (h' : i < ins.length),
      ∃ s v, tc.signals[tc.inIdx[i].sig]? = some s ∧ s.default? = some v ∧ ins[i] = ⟨tc.inIdx[i].sig, v, false⟩ := by
  have := mapRes_ok _ _ _ hd
  refine ⟨this.1, ?_⟩
  intro i h h'
  have hi := this.2 i h h'
  simp only [defaultFor] at hi
  split at hi
  · cases hi
  · next s hs =>
    split at hi
    · cases hi
    · next v hv => injection hi with hi; exact ⟨s, v, hs, hv, hi.symm⟩

theorem extractOne_not_driver (tc : TestCase) (outs : List OutEntry) (c : Ctx) (p : EIdx × OIdx) (e : Nat) :
    extractOne tc outs c p ≠ .err (.driver e) := by
  unfold extractOne
  split
  · split
    · simp
    · split
      · simp
      · split <;> simp
  · split <;> simp
  · simp

theorem extractAll_not_driver (tc : TestCase) (outs : List OutEntry) : ∀ (ps : List (EIdx × OIdx)) (c : Ctx) (e : Nat),
    extractAll tc outs c ps ≠ .err (.driver e)
  | [], c, e => by simp [extractAll]
  | p :: ps, c, e => by
    simp only [extractAll]
    cases h1 : extractOne tc outs c p with
    | ok q =>
      obtain ⟨v, c1⟩ := q
      simp only
      cases h2 : extractAll tc outs c1 ps with
      | ok r => simp
      | err e' => simp only; intro h; cases h; exact extractAll_not_driver tc outs ps c1 e h2
      | panic m => simp
    | err e' => simp only; intro h; cases h; exact extractOne_not_driver tc outs c p e h1
    | panic m => simp

theorem extractOutputs_not_driver (tc : TestCase) (oi : List OIdx) (n : Nat) (outs : List OutEntry) (c : Ctx) (e : Nat) :
    (extractOutputs tc oi n outs c).1 ≠ .err (.driver e) := by
  unfold extractOutputs
  split
  · simp
  · cases h : extractAll tc outs c.swapVars (tc.expIdx.zip oi) with
    | ok q => simp
    | err e' => simp only; intro h'; cases h'; exact extractAll_not_driver tc outs _ _ e h
    | panic m => simp

/-- **One `next`, at most one call; a yielded row, exactly one — carrying exactly the row's inputs;
the write-only call exactly for unchecked rows, whose `outputs` are empty; nothing when `None`.** -/
theorem C02_next_calls {δ : Type} (tc : TestCase) (drv : Driver δ) (fuel : Nat) (s : RowIt) (d : δ) :
    match s.next tc drv fuel d with
    | .none _ d' => d' = d
    | .item (.row r) _ _ calls =>
        ∃ c, calls = [c] ∧ c.inputs = r.inputs ∧ (c.kind = .writeOnly → r.outputs = [])
    | .item (.err (.driver e)) _ _ calls => ∃ c, calls = [c] ∧ c.resp = .fail e
    | .item (.err _) _ _ calls => calls.length ≤ 1
    | .panic _ calls => calls.length ≤ 1
    | .fuel => True := by
  unfold RowIt.next
  cases hg : getRow tc fuel s with
  | err e => simp
  | panic m => simp
  | fuel => simp
  | none s' => simp
  | row ev sg =>
    simp only
    by_cases hu : ev.upd = true
    · simp only [hu, if_true]
      cases hrw : drv.rw d ev.inputs with
      | mk d1 resp =>
        cases resp with
        | fail e => simp
        | ok outs =>
          simp only
          cases hx : extractOutputs tc sg.outIdx sg.numOut outs (sg.ctx.setOutputs (outsOf outs)) with
          | mk res c2 =>
            cases res with
            | ok vals => simp [intoDataRow]
            | err e =>
              cases e with
              | driver e' =>
                have := extractOutputs_not_driver tc sg.outIdx sg.numOut outs (sg.ctx.setOutputs (outsOf outs)) e'
                rw [hx] at this; exact absurd rfl this
              | wrongNumberOfOutputs a b => simp
              | wrongOutputOrder => simp
              | missingOutputs n => simp
              | expr e' => simp
            | panic m => simp
    · simp only [hu, Bool.false_eq_true, if_false]
      cases hwo : drv.wo d ev.inputs with
      | mk d1 resp =>
        cases resp with
        | some e => simp
        | none => simp [intoDataRow]

/-- **The same accounting for a `next()` behind an error item** (`RowIt.nextC`: the state the code is left in
behind an error item, `Model/AfterError`): the end makes no call, a row exactly one call with the row's
inputs, a driver error is the failing call itself, any other error item at most one call. -/
theorem C02_next_calls_continued {δ : Type} (tc : TestCase) (drv : Driver δ) (fuel : Nat) (s : RowIt) (d : δ) :
    match s.nextC tc drv fuel d with
    | .none _ d' => d' = d
    | .item (.row r) _ _ calls =>
        ∃ c, calls = [c] ∧ c.inputs = r.inputs ∧ (c.kind = .writeOnly → r.outputs = [])
    | .item (.err (.driver e)) _ _ calls => ∃ c, calls = [c] ∧ c.resp = .fail e
    | .item (.err _) _ _ calls => calls.length ≤ 1
    | .panic _ calls => calls.length ≤ 1
    | .fuel => True := by
  unfold RowIt.nextC
  cases hg : getRow tc fuel s with
  | err e => simp
  | panic m => simp
  | fuel => simp
  | none s' => simp
  | row ev sg =>
    simp only
    by_cases hu : ev.upd = true
    · simp only [hu, if_true]
      cases hrw : drv.rw d ev.inputs with
      | mk d1 resp =>
        cases resp with
        | fail e => simp
        | ok outs =>
          simp only
          cases hx : extractOutputs tc sg.outIdx sg.numOut outs (sg.ctx.setOutputs (outsOf outs)) with
          | mk res c2 =>
            cases res with
            | ok vals => simp [intoDataRow]
            | err e =>
              cases e with
              | driver e' =>
                have := extractOutputs_not_driver tc sg.outIdx sg.numOut outs (sg.ctx.setOutputs (outsOf outs)) e'
                rw [hx] at this; exact absurd rfl this
              | wrongNumberOfOutputs a b => simp
              | wrongOutputOrder => simp
              | missingOutputs n => simp
              | expr e' => simp
            | panic m => simp
    · simp only [hu, Bool.false_eq_true, if_false]
      cases hwo : drv.wo d ev.inputs with
      | mk d1 resp =>
        cases resp with
        | some e => simp
        | none => simp [intoDataRow]

/-- what one `next()` contributed to the history: the item (`none` = the end) and the calls made for it -/
def StepAccounted (i : Option Item) (calls : List Call) : Prop :=
  match i with
  | none => calls = []
  | some (.row r) => ∃ c, calls = [c] ∧ c.inputs = r.inputs ∧ (c.kind = .writeOnly → r.outputs = [])
  | some (.err (.driver e)) => ∃ c, calls = [c] ∧ c.resp = .fail e
  | some (.err _) => calls.length ≤ 1

/-- the history of `n` calls of `next()`, continued behind every item: items with their calls -/
def traceC {δ : Type} (tc : TestCase) (drv : Driver δ) (fuel : Nat) : Nat → RowIt → δ → List (Option Item × List Call)
  | 0, _, _ => []
  | n+1, s, d =>
    match s.nextC tc drv fuel d with
    | .item i s' d' calls => (some i, calls) :: traceC tc drv fuel n s' d'
    | .none s' d' => (none, []) :: traceC tc drv fuel n s' d'
    | .panic _ _ => []
    | .fuel => []

/-- **Every driver call of a run is accounted for, also when the caller goes on behind error items**: in the
history of any number of `next()` calls from any state, each `next()` made exactly the calls its item accounts
for — one per row (with the row's inputs), the failing one for a driver error, none at the end. -/
theorem C02_continued_run {δ : Type} (tc : TestCase) (drv : Driver δ) (fuel : Nat) :
    ∀ (n : Nat) (s : RowIt) (d : δ), ∀ p ∈ traceC tc drv fuel n s d, StepAccounted p.1 p.2
  | 0, _, _, p, hp => by simp [traceC] at hp
  | n+1, s, d, p, hp => by
    have h1 := C02_next_calls_continued tc drv fuel s d
    simp only [traceC] at hp
    cases hx : s.nextC tc drv fuel d with
    | panic m c => simp [hx] at hp
    | fuel => simp [hx] at hp
    | none s' d' =>
      simp only [hx, List.mem_cons] at hp
      rcases hp with rfl | hp
      · simp [StepAccounted]
      · exact C02_continued_run tc drv fuel n s' d' p hp
    | item i s' d' calls =>
      simp only [hx, List.mem_cons] at hp
      rw [hx] at h1
      rcases hp with rfl | hp
      · cases i with
        | row r => simpa [StepAccounted] using h1
        | err e =>
          cases e with
          | driver e' => simpa [StepAccounted] using h1
          | wrongNumberOfOutputs a b => simpa [StepAccounted] using h1
          | wrongOutputOrder => simpa [StepAccounted] using h1
          | missingOutputs ns => simpa [StepAccounted] using h1
          | expr e' => simpa [StepAccounted] using h1
      · exact C02_continued_run tc drv fuel n s' d' p hp

/-- the kind of the call is decided by the row's checked flag alone -/
theorem C02_call_kind {δ : Type} (tc : TestCase) (drv : Driver δ) (fuel : Nat) (s s' : RowIt) (d d' : δ)
    (r : DataRow) (c : Call) (h : s.next tc drv fuel d = .item (.row r) s' d' [c]) :
    ∃ ev sg, getRow tc fuel s = .row ev sg ∧ (c.kind = .readWrite ↔ ev.upd = true) := by
  unfold RowIt.next at h
  cases hg : getRow tc fuel s with
  | err e => simp [hg] at h
  | panic m => simp [hg] at h
  | fuel => simp [hg] at h
  | none s1 => simp [hg] at h
  | row ev sg =>
    refine ⟨ev, sg, rfl, ?_⟩
    simp only [hg] at h
    by_cases hu : ev.upd = true
    · simp only [hu, if_true] at h
      cases hrw : drv.rw d ev.inputs with
      | mk d1 resp =>
        cases resp with
        | fail e => simp [hrw] at h
        | ok outs =>
          simp only [hrw] at h
          split at h
          · cases h; simp [hu]
          · cases h
          · cases h
    · simp only [hu, Bool.false_eq_true, if_false] at h
      cases hwo : drv.wo d ev.inputs with
      | mk d1 resp =>
        cases resp with
        | some e => simp [hwo] at h
        | none => simp only [hwo] at h; cases h; simp [hu]

/-- the statement iterator, once exhausted, stays exhausted -/
theorem nextRow_none_stable : ∀ (f : Nat) (it it' : It) (c c' : Ctx), nextRow f it c = .none it' c' →
    it' = .mk [] .iterate ∧ c' = c' ∧ ∀ f', nextRow (f' + 1) it' c' = .none it' c'
  | 0, it, it', c, c', h => by simp [nextRow] at h
  | f+1, it, it', c, c', h => by
    simp only [nextRow] at h
    cases hs : step it c with
    | yield r i2 c2 => simp [hs] at h
    | cont i2 c2 => simp only [hs] at h; exact nextRow_none_stable f i2 it' c2 c' h
    | err e => simp [hs] at h
    | panic m => simp [hs] at h
    | done i2 c2 =>
      simp only [hs, NextRes.none.injEq] at h
      obtain ⟨rfl, rfl⟩ := h
      -- `done` is only ever returned as `.done (.mk [] .iterate) c`
      have : i2 = .mk [] .iterate := by
        cases it with
        | mk rest st =>
          cases st with
          | iterate =>
            cases rest with
            | nil => simp [step] at hs; exact hs.1.symm
            | cons s rest' =>
              cases s <;> simp only [step] at hs
              · split at hs <;> cases hs
              · split at hs <;> cases hs
              · split at hs <;> cases hs
              · cases hs
              · cases hs
          | startLoop ls => simp only [step] at hs; split at hs <;> cases hs
          | startInner ls => simp [step] at hs
          | inner i3 ls => simp only [step] at hs; split at hs <;> cases hs
          | endInner ls => simp only [step] at hs; split at hs <;> cases hs
          | startWhile ws =>
            simp only [step] at hs
            split at hs
            · split at hs <;> cases hs
            · cases hs
            · cases hs
          | whileInner i3 ws => simp only [step] at hs; split at hs <;> cases hs
      subst this
      exact ⟨rfl, rfl, fun f' => by simp [nextRow, step]⟩

/-- **Nothing is sent once `next()` has returned `None`**: every later `next()` returns `None`
again, without a call and without touching the driver. -/
theorem C02_quiescent_after_none {δ : Type} (tc : TestCase) (drv : Driver δ) (fuel : Nat) (s s' : RowIt) (d d' : δ)
    (h : s.next tc drv (fuel + 1) d = .none s' d') :
    s'.next tc drv (fuel + 1) d' = .none s' d' := by
  unfold RowIt.next at h ⊢
  cases hg : getRow tc (fuel + 1) s with
  | err e => simp [hg] at h
  | panic m => simp [hg] at h
  | fuel => simp [hg] at h
  | row ev sg =>
    simp only [hg] at h
    split at h
    · split at h
      · cases h
      · split at h <;> cases h
    · split at h <;> cases h
  | none s1 =>
    simp only [hg, NextOut.none.injEq] at h
    obtain ⟨rfl, rfl⟩ := h
    -- `get_row` returned `None`: the stack was empty and the statement iterator exhausted
    unfold getRow at hg
    by_cases hemp : s.cache.isEmpty = true
    · simp only [hemp, if_true] at hg
      cases hn : nextRow (fuel + 1) s.it s.ctx with
      | none it c =>
        simp only [hn, GetRowRes.none.injEq] at hg
        subst hg
        obtain ⟨_, _, hst⟩ := nextRow_none_stable (fuel + 1) s.it it s.ctx c hn
        have : getRow tc (fuel + 1) { s with it := it, ctx := c } = .none { s with it := it, ctx := c } := by
          unfold getRow
          simp only [hemp, if_true, hst fuel]
        simp [this]
      | row r it c =>
        simp only [hn] at hg
        split at hg
        · cases hg
        · cases hg
        · split at hg
          · cases hg
          · cases hg
          · split at hg <;> cases hg
      | err e => simp [hn] at hg
      | panic m => simp [hn] at hg
      | fuel => simp [hn] at hg
    · have hemp' : s.cache.isEmpty = false := by simpa using hemp
      simp only [hemp', Bool.false_eq_true, if_false] at hg
      split at hg
      · cases hg
      · cases hg
      · split at hg
        · cases hg
        · cases hg
        · split at hg <;> cases hg

/-- `nextC` ends exactly where `next` ends, in the same state -/
theorem nextC_none_iff {δ : Type} (tc : TestCase) (drv : Driver δ) (fuel : Nat) (s s' : RowIt) (d d' : δ) :
    s.nextC tc drv fuel d = .none s' d' ↔ s.next tc drv fuel d = .none s' d' := by
  unfold RowIt.nextC RowIt.next
  cases getRow tc fuel s with
  | err e => simp
  | panic m => simp
  | fuel => simp
  | none s1 => simp
  | row r s1 =>
    simp only
    split
    · cases drv.rw d r.inputs with
      | mk d1 resp =>
        cases resp with
        | fail e => simp
        | ok outs =>
          simp only
          cases extractOutputs tc s1.outIdx s1.numOut outs (s1.ctx.setOutputs (outsOf outs)) with
          | mk res c2 => cases res <;> simp
    · cases drv.wo d r.inputs with
      | mk d1 resp => cases resp <;> simp

/-- **The end is final also for a caller who went on behind error items**: once `next()` has returned `None`, every
further call returns `None` again, in the same state, without a driver call. -/
theorem C02_quiescent_after_none_continued {δ : Type} (tc : TestCase) (drv : Driver δ) (fuel : Nat) (s s' : RowIt) (d d' : δ)
    (h : s.nextC tc drv (fuel + 1) d = .none s' d') :
    s'.nextC tc drv (fuel + 1) d' = .none s' d' :=
  (nextC_none_iff tc drv (fuel + 1) s' s' d' d').mpr
    (C02_quiescent_after_none tc drv fuel s s' d d' ((nextC_none_iff tc drv (fuel + 1) s s' d d').mp h))

/-- the provided `write_input` forwards to the output-reading method and discards the answer -/
theorem C02_default_write_input {δ : Type} (rw : δ → List InEntry → δ × DrvResp) (d : δ) (ins : List InEntry) :
    (Driver.defaultWo rw d ins).1 = (rw d ins).1 ∧
    ((Driver.defaultWo rw d ins).2 = none ↔ ∃ outs, (rw d ins).2 = .ok outs) := by
  unfold Driver.defaultWo
  cases h : rw d ins with
  | mk d' resp => cases resp <;> simp

end Dtr
