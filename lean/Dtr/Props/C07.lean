import Dtr.Proofs.Mask
import Dtr.Proofs.MapRes
/-!
# C07 — values from the program are reduced to the width of the signal they drive

Property theorems only (helper lemmas live in `Dtr/Proofs`).  The model keeps the two sites of the
code (`inputFor` for `generate_input_entries`, `expectedFor` for `generate_expected_entries`);
both use `bitMask`, the model of `bit_mask`.
-/
namespace Dtr

/-- **Arithmetic law.** For widths below 64 the masked value is the program's 64-bit value reduced
modulo `2^bits` (mathematical, non-negative remainder — so negative values map to their unsigned bit
pattern), for every 64-bit value. -/
theorem C07_mask (bits : Nat) (n : Int64) (h : bits ≤ 63) :
    (n &&& bitMask bits).toInt = n.toInt % ((2 ^ bits : Nat) : Int) := by
  rw [toInt_emod_two_pow n bits (by omega), ← masked_toNat n bits (by omega)]
  rw [← Int64.toInt_toBitVec, BitVec.toInt_eq_toNat_cond]
  have hlt : (n &&& bitMask bits).toBitVec.toNat < 2 ^ 63 := by
    rw [masked_toNat n bits (by omega)]
    exact Nat.lt_of_lt_of_le (Nat.mod_lt _ (Nat.two_pow_pos bits)) (Nat.pow_le_pow_right (by omega) h)
  have : 2 * (n &&& bitMask bits).toBitVec.toNat < 2 ^ 64 := by omega
  rw [if_pos this]

/-- in particular the result lies in `[0, 2^bits)` -/
theorem C07_mask_range (bits : Nat) (n : Int64) (h : bits ≤ 63) :
    0 ≤ (n &&& bitMask bits).toInt ∧ (n &&& bitMask bits).toInt < ((2 ^ bits : Nat) : Int) := by
  rw [C07_mask bits n h]
  have hpos : (0 : Int) < ((2 ^ bits : Nat) : Int) := by exact_mod_cast Nat.two_pow_pos bits
  exact ⟨Int.emod_nonneg _ (by omega), Int.emod_lt_of_pos _ hpos⟩

/-- **A 64-bit signal keeps the value unchanged** (and so does any wider declaration). -/
theorem C07_mask64 (bits : Nat) (n : Int64) (h : 64 ≤ bits) : n &&& bitMask bits = n := by
  rw [bitMask_ge bits h, and_neg_one]

/-- **Input path.** An input entry bound to a column holding the number `n` carries `n` masked to
the width of its signal; `Z` passes through. -/
theorem C07_input_site (tc : TestCase) (entries : List REntry) (changed : List Bool) (col sig : Nat)
    (s : Signal) (e : InEntry) (hs : tc.signals[sig]? = some s)
    (h : inputFor tc entries changed (.entry col sig) = .ok e) :
    (∀ n, entries[col]? = some (.num n) → e.value = .val (n &&& bitMask s.bits)) ∧
    (entries[col]? = some .z → e.value = .z) := by
  simp only [inputFor, hs] at h
  constructor
  · intro n hn
    simp only [hn] at h
    split at h <;> cases h; rfl
  · intro hz
    simp only [hz] at h
    split at h <;> cases h; rfl

/-- **Expected path.** Same law; `Z` and `X` pass through. -/
theorem C07_expected_site (tc : TestCase) (entries : List REntry) (xcols : List Nat) (col sig : Nat)
    (s : Signal) (e : ExpEntry) (hs : tc.signals[sig]? = some s) (hx : xcols.contains col = false)
    (h : expectedFor tc entries xcols (.entry col sig) = .ok e) :
    (∀ n, entries[col]? = some (.num n) → e.value = .val (n &&& bitMask s.bits)) ∧
    (entries[col]? = some .z → e.value = .z) ∧ (entries[col]? = some .x → e.value = .x) := by
  simp only [expectedFor, hs, hx, Bool.false_eq_true, if_false] at h
  refine ⟨?_, ?_, ?_⟩
  · intro n hn; simp only [hn] at h; cases h; rfl
  · intro hz; simp only [hz] at h; cases h; rfl
  · intro hx; simp only [hx] at h; cases h; rfl

/-- every element of the vectors handed out is produced by the two site functions -/
theorem C07_vectors (tc : TestCase) (entries : List REntry) (changed : List Bool)
    (ins : List InEntry) (exps : List ExpEntry)
    (xcols : List Nat) (h1 : genInputs tc entries changed = .ok ins) (h2 : genExpected tc entries xcols = .ok exps) :
    (ins.length = tc.inIdx.length ∧
      ∀ i (h : i < tc.inIdx.length) (h' : i < ins.length), inputFor tc entries changed tc.inIdx[i] = .ok ins[i]) ∧
    (exps.length = tc.expIdx.length ∧
      ∀ i (h : i < tc.expIdx.length) (h' : i < exps.length), expectedFor tc entries xcols tc.expIdx[i] = .ok exps[i]) :=
  ⟨mapRes_ok _ _ _ h1, mapRes_ok _ _ _ h2⟩

/-- **Virtual signals are 64 bits wide**: binding appends them with `bits = 64` (a caller cannot
construct a virtual signal: `VirtualExpr` has a private field). -/
theorem C07_virtual_64 (p : Parsed) (sigs : List Signal) (tc : TestCase)
    (hnv : ∀ s ∈ sigs, s.isVirtual = false) (h : withSignals p sigs = .ok tc) :
    ∀ s ∈ tc.signals, s.isVirtual = true → s.bits = 64 := by
  unfold withSignals at h
  split at h
  · cases h
  · dsimp only at h
    split at h
    · cases h
    · split at h
      · cases h
      · split at h
        · cases h
        · cases h
        · cases h
          intro s hs hv
          simp only [List.mem_append, List.mem_map] at hs
          rcases hs with hs | ⟨⟨n, sp, e⟩, _, rfl⟩
          · rw [hnv s hs] at hv; cases hv
          · rfl

/-! Non-vacuity: concrete instances of the hypotheses and of the law. -/
example : ((-1 : Int64) &&& bitMask 4).toInt = 15 := by decide
example : ((Int64.minValue) &&& bitMask 63).toInt = 0 := by decide
example : ((-1 : Int64) &&& bitMask 64) = -1 := by decide
example : inputFor { stmts := [], signals := [⟨"A", 4, .input (.val 0)⟩], inIdx := [.entry 0 0], expIdx := [], reads := [] }
    [.num (-1)] [true] (.entry 0 0) = .ok ⟨0, .val 15, true⟩ := by
  simp [inputFor]; decide

end Dtr
