import Dtr.Props.C02
import Dtr.Proofs.BEq
/-!
# C13 — driver failures and contract violations surface as errors, never as wrong rows
-/
namespace Dtr

/-- **A failing constructor call makes `try_new` return that very error.** -/
theorem C13_ctor_error_passthrough {δ : Type} (tc : TestCase) (drv : Driver δ) (d d1 : δ) (rng : Rng)
    (ins : List InEntry) (e : Nat) (hd : defaultInputs tc = .ok ins) (hrw : drv.rw d ins = (d1, .fail e)) :
    tryNew tc drv d rng = .err (.driver e) d1 [⟨.readWrite, ins, .fail e⟩] := by
  simp [tryNew, hd, hrw]

/-- **A failing call for a row makes that row's item the very same driver error** — for the
output-reading call of a checked row and for the write-only call of an unchecked one. -/
theorem C13_row_error_passthrough {δ : Type} (tc : TestCase) (drv : Driver δ) (fuel : Nat) (s sg : RowIt) (d d1 : δ)
    (ev : EvRow) (e : Nat) (hg : getRow tc fuel s = .row ev sg) :
    (ev.upd = true → drv.rw d ev.inputs = (d1, .fail e) →
      s.next tc drv fuel d = .item (.err (.driver e)) sg d1 [⟨.readWrite, ev.inputs, .fail e⟩]) ∧
    (ev.upd = false → drv.wo d ev.inputs = (d1, some e) →
      s.next tc drv fuel d = .item (.err (.driver e)) sg d1 [⟨.writeOnly, ev.inputs, .fail e⟩]) := by
  constructor
  · intro hu hrw; simp [RowIt.next, hg, hu, hrw]
  · intro hu hwo; simp [RowIt.next, hg, hu, hwo]

/-- an error item of kind "driver" only ever comes from the driver (never from a check of the iterator) -/
theorem C13_driver_errors_are_the_drivers {δ : Type} (tc : TestCase) (drv : Driver δ) (fuel : Nat) (s s' : RowIt)
    (d d' : δ) (e : Nat) (calls : List Call) (h : s.next tc drv fuel d = .item (.err (.driver e)) s' d' calls) :
    ∃ c, calls = [c] ∧ c.resp = .fail e := by
  have := C02_next_calls tc drv fuel s d
  rw [h] at this
  exact this

/-- **Layout deviation, length**: an answer with another number of outputs than the first answer
makes the checked row an error. -/
theorem C13_wrong_length (tc : TestCase) (oi : List OIdx) (n : Nat) (outs : List OutEntry) (c : Ctx)
    (h : outs.length ≠ n) :
    (extractOutputs tc oi n outs c).1 = .err (.wrongNumberOfOutputs n outs.length) := by
  simp [extractOutputs, h]

/-- **Layout deviation, order / substitution**: if the position learnt for an expected signal holds
another signal in this answer, the entry — hence the row — is an error. -/
theorem C13_wrong_order (tc : TestCase) (outs : List OutEntry) (c : Ctx) (i : EIdx) (n : Nat) (es : Signal) (o : OutEntry)
    (hs : tc.signals[i.sig]? = some es) (ho : outs[n]? = some o) (hne : o.1 ≠ es) :
    extractOne tc outs c (i, .output n) = .err .wrongOutputOrder := by
  have : (es == o.1) = false := by
    cases hb : (es == o.1) with
    | false => rfl
    | true => exact absurd ((Signal.beq_iff es o.1).mp hb).symm hne
  simp [extractOne, hs, ho, this]

/-- **No misattribution**: whatever the driver does, a value extracted for an expected signal from
an answer is a value that very answer pairs with that very signal — or `X` for a signal the layout
never supplied. -/
theorem C13_no_misattribution (tc : TestCase) (outs : List OutEntry) (c c' : Ctx) (i : EIdx) (oi : OIdx) (v : OutVal)
    (es : Signal) (hs : tc.signals[i.sig]? = some es) (hnv : ∀ e, oi ≠ .virt e)
    (h : extractOne tc outs c (i, oi) = .ok (v, c')) :
    (es, v) ∈ outs ∨ (oi = .none ∧ v = .x) := by
  cases oi with
  | none => simp [extractOne] at h; exact Or.inr ⟨rfl, h.1.symm⟩
  | virt e => exact absurd rfl (hnv e)
  | output n =>
    simp only [extractOne, hs] at h
    split at h
    · cases h
    · next o ho =>
      split at h
      · next heq =>
        cases h
        have : es = o.1 := (Signal.beq_iff es o.1).mp heq
        left
        rw [this]
        exact List.mem_of_getElem? ho
      · cases h

/-- a driver that answers its `k`-th call with `sc k`, whatever it is handed (a response history) -/
def scriptDrv (sc : Nat → DrvResp) : Driver Nat :=
  { rw := fun k _ => (k + 1, sc k), wo := Driver.defaultWo (fun k _ => (k + 1, sc k)) }

/-- one `next()` against a response history depends only on the response to the call it makes:
two histories that agree on call number `k` give the same step from call counter `k` -/
theorem next_script_congr (tc : TestCase) (sc₁ sc₂ : Nat → DrvResp) (fuel : Nat) (s : RowIt) (k : Nat)
    (h : sc₁ k = sc₂ k) :
    RowIt.next tc (scriptDrv sc₁) fuel s k = RowIt.next tc (scriptDrv sc₂) fuel s k := by
  unfold RowIt.next
  cases getRow tc fuel s with
  | err e => rfl
  | panic m => rfl
  | fuel => rfl
  | none s' => rfl
  | row r s' =>
    simp only [scriptDrv, Driver.defaultWo, h]

/-- when `get_row` hands out a row, `next()` makes exactly one call: the counter advances by one,
whatever the outcome -/
theorem next_script_row (tc : TestCase) (sc : Nat → DrvResp) (fuel : Nat) (s s' : RowIt) (k : Nat) (r : EvRow)
    (hg : getRow tc fuel s = .row r s') :
    match RowIt.next tc (scriptDrv sc) fuel s k with
    | .item _ _ k' _ => k' = k + 1
    | .panic _ calls => calls.length = 1
    | .none _ _ => False
    | .fuel => False := by
  unfold RowIt.next
  simp only [hg, scriptDrv, Driver.defaultWo]
  by_cases hu : r.upd = true
  · simp only [hu, if_true]
    cases hsc : sc k with
    | fail e => simp
    | ok outs =>
      simp only
      cases hx : extractOutputs tc s'.outIdx s'.numOut outs (s'.ctx.setOutputs (outsOf outs)) with
      | mk res c2 => cases res <;> simp
  · simp only [hu, if_false]
    cases hsc : sc k with
    | fail e => simp
    | ok outs => simp

/-- when `get_row` does not hand out a row, `next()` does not consult the driver at all -/
theorem next_script_norow (tc : TestCase) (sc₁ sc₂ : Nat → DrvResp) (fuel : Nat) (s : RowIt) (k : Nat)
    (hg : ∀ r s', getRow tc fuel s ≠ .row r s') :
    RowIt.next tc (scriptDrv sc₁) fuel s k = RowIt.next tc (scriptDrv sc₂) fuel s k ∧
    match RowIt.next tc (scriptDrv sc₁) fuel s k with
    | .item _ _ k' _ => k' = k
    | .panic _ calls => calls.length = 0
    | .none _ k' => k' = k
    | .fuel => True := by
  unfold RowIt.next
  cases h : getRow tc fuel s with
  | err e => simp
  | panic m => simp
  | fuel => simp
  | none s' => simp
  | row r s' => exact absurd h (hg r s')

/-- the items of the first `n` calls of `next()` (stopping at the first error item or the end), and
the number of driver calls made by then -/
def runS (tc : TestCase) (sc : Nat → DrvResp) (fuel : Nat) : Nat → RowIt → Nat → List Item × Nat
  | 0, _, k => ([], k)
  | n+1, s, k =>
    match RowIt.next tc (scriptDrv sc) fuel s k with
    | .item (.row r) s' k' _ => (.row r :: (runS tc sc fuel n s' k').1, (runS tc sc fuel n s' k').2)
    | .item (.err e) _ k' _ => ([.err e], k')
    | .none _ k' => ([], k')
    | .panic _ calls => ([], k + calls.length)
    | .fuel => ([], k)

theorem runS_counter_mono (tc : TestCase) (sc : Nat → DrvResp) (fuel : Nat) :
    ∀ (n : Nat) (s : RowIt) (k : Nat), k ≤ (runS tc sc fuel n s k).2
  | 0, s, k => by simp [runS]
  | n+1, s, k => by
    simp only [runS]
    by_cases hg : ∃ r s', getRow tc fuel s = .row r s'
    · obtain ⟨r, s', hg⟩ := hg
      have hr := next_script_row tc sc fuel s s' k r hg
      cases hx : RowIt.next tc (scriptDrv sc) fuel s k with
      | panic m c => simp
      | fuel => simp
      | none s2 k' => rw [hx] at hr; exact hr.elim
      | item i s2 k' c =>
        rw [hx] at hr
        cases i with
        | err e => simp; omega
        | row r2 =>
          simp only
          have := runS_counter_mono tc sc fuel n s2 k'
          omega
    · have hg' : ∀ r s', getRow tc fuel s ≠ .row r s' := fun r s' h => hg ⟨r, s', h⟩
      have hr := (next_script_norow tc sc sc fuel s k hg').2
      cases hx : RowIt.next tc (scriptDrv sc) fuel s k with
      | panic m c => simp
      | fuel => simp
      | none s2 k' => rw [hx] at hr; simp; omega
      | item i s2 k' c =>
        rw [hx] at hr
        cases i with
        | err e => simp; omega
        | row r2 =>
          simp only
          have := runS_counter_mono tc sc fuel n s2 k'
          omega

/-- **Prefix determinacy**: two response histories that agree on their first `m` responses give
identical runs as long as no more than `m` calls have been made — every item before the one that
makes call `m + 1` is the same, in particular all rows before a fault equal the fault-free run. -/
theorem C13_prefix_determinacy (tc : TestCase) (sc₁ sc₂ : Nat → DrvResp) (fuel m : Nat)
    (hag : ∀ j, j < m → sc₁ j = sc₂ j) :
    ∀ (n : Nat) (s : RowIt) (k : Nat), (runS tc sc₁ fuel n s k).2 ≤ m →
      runS tc sc₁ fuel n s k = runS tc sc₂ fuel n s k
  | 0, s, k, _ => by simp [runS]
  | n+1, s, k, hle => by
    -- in either case the two steps coincide
    have hcong : RowIt.next tc (scriptDrv sc₁) fuel s k = RowIt.next tc (scriptDrv sc₂) fuel s k := by
      by_cases hg : ∃ r s', getRow tc fuel s = .row r s'
      · obtain ⟨r, s', hg⟩ := hg
        -- a call is made: its number is below `m`
        have hr := next_script_row tc sc₁ fuel s s' k r hg
        have hk : k < m := by
          simp only [runS] at hle
          cases hx : RowIt.next tc (scriptDrv sc₁) fuel s k with
          | panic m' c => rw [hx] at hr hle; simp only at hr hle; omega
          | fuel => rw [hx] at hr; exact hr.elim
          | none s2 k' => rw [hx] at hr; exact hr.elim
          | item i s2 k' c =>
            rw [hx] at hr hle
            cases i with
            | err e => simp only at hr hle; omega
            | row r2 =>
              simp only at hr hle
              have := runS_counter_mono tc sc₁ fuel n s2 k'
              omega
        exact next_script_congr tc sc₁ sc₂ fuel s k (hag k hk)
      · exact (next_script_norow tc sc₁ sc₂ fuel s k (fun r s' h => hg ⟨r, s', h⟩)).1
    simp only [runS] at hle ⊢
    rw [← hcong]
    cases hx : RowIt.next tc (scriptDrv sc₁) fuel s k with
    | panic m' c => rfl
    | fuel => rfl
    | none s' k' => rfl
    | item i s' k' c =>
      cases i with
      | err e => rfl
      | row r =>
        simp only [hx] at hle
        simp only
        rw [C13_prefix_determinacy tc sc₁ sc₂ fuel m hag n s' k' hle]

end Dtr
