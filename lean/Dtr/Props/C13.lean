import Dtr.Props.C02
import Dtr.Proofs.BEq
/-!
# C13 — driver failures and contract violations surface as errors, never as wrong rows
-/
namespace Dtr

/-- **A failing constructor call makes `try_new` return that very error.** -/
theorem C13_ctor_error_passthrough {δ : Type} (tc : TestCase) (drv : Driver δ) (d d1 : δ) (rng : Rng)
    (ins : List InEntry) (e : Nat) (hd : defaultInputs tc = .ok ins) (hrw : drv.rw d ins = (d1, .fail e)) :
    tryNew tc drv d rng = .err (.driver e) d1 [⟨.readWrite, ins, .fail e⟩] := by
  simp [tryNew, hd, hrw]

/-- **A failing call for a row makes that row's item the very same driver error** — for the
output-reading call of a checked row and for the write-only call of an unchecked one. -/
theorem C13_row_error_passthrough {δ : Type} (tc : TestCase) (drv : Driver δ) (fuel : Nat) (s sg : RowIt) (d d1 : δ)
    (ev : EvRow) (e : Nat) (hg : getRow tc fuel s = .row ev sg) :
    (ev.upd = true → drv.rw d ev.inputs = (d1, .fail e) →
      s.next tc drv fuel d = .item (.err (.driver e)) sg d1 [⟨.readWrite, ev.inputs, .fail e⟩]) ∧
    (ev.upd = false → drv.wo d ev.inputs = (d1, some e) →
      s.next tc drv fuel d = .item (.err (.driver e)) sg d1 [⟨.writeOnly, ev.inputs, .fail e⟩]) := by
  constructor
  · intro hu hrw; simp [RowIt.next, hg, hu, hrw]
  · intro hu hwo; simp [RowIt.next, hg, hu, hwo]

/-- an error item of kind "driver" only ever comes from the driver (never from a check of the iterator) -/
theorem C13_driver_errors_are_the_drivers {δ : Type} (tc : TestCase) (drv : Driver δ) (fuel : Nat) (s s' : RowIt)
    (d d' : δ) (e : Nat) (calls : List Call) (h : s.next tc drv fuel d = .item (.err (.driver e)) s' d' calls) :
    ∃ c, calls = [c] ∧ c.resp = .fail e := by
  have := C02_next_calls tc drv fuel s d
  rw [h] at this
  exact this

/-- **Layout deviation, length**: an answer with another number of outputs than the first answer
makes the checked row an error. -/
theorem C13_wrong_length (tc : TestCase) (oi : List OIdx) (n : Nat) (outs : List OutEntry) (c : Ctx)
    (h : outs.length ≠ n) :
    (extractOutputs tc oi n outs c).1 = .err (.wrongNumberOfOutputs n outs.length) := by
  simp [extractOutputs, h]

/-- **Layout deviation, order / substitution**: if the position learnt for an expected signal holds
another signal in this answer, the entry — hence the row — is an error. -/
theorem C13_wrong_order (tc : TestCase) (outs : List OutEntry) (c : Ctx) (i : EIdx) (n : Nat) (es : Signal) (o : OutEntry)
    (hs : tc.signals[i.sig]? = some es) (ho : outs[n]? = some o) (hne : o.1 ≠ es) :
    extractOne tc outs c (i, .output n) = .err .wrongOutputOrder := by
  have : (es == o.1) = false := by
    cases hb : (es == o.1) with
    | false => rfl
    | true => exact absurd ((Signal.beq_iff es o.1).mp hb).symm hne
  simp [extractOne, hs, ho, this]

/-- **No misattribution**: whatever the driver does, a value extracted for an expected signal from
an answer is a value that very answer pairs with that very signal — or `X` for a signal the layout
never supplied. -/
theorem C13_no_misattribution (tc : TestCase) (outs : List OutEntry) (c c' : Ctx) (i : EIdx) (oi : OIdx) (v : OutVal)
    (es : Signal) (hs : tc.signals[i.sig]? = some es) (hnv : ∀ e, oi ≠ .virt e)
    (h : extractOne tc outs c (i, oi) = .ok (v, c')) :
    (es, v) ∈ outs ∨ (oi = .none ∧ v = .x) := by
  cases oi with
  | none => simp [extractOne] at h; exact Or.inr ⟨rfl, h.1.symm⟩
  | virt e => exact absurd rfl (hnv e)
  | output n =>
    simp only [extractOne, hs] at h
    split at h
    · cases h
    · next o ho =>
      split at h
      · next heq =>
        cases h
        have : es = o.1 := (Signal.beq_iff es o.1).mp heq
        left
        rw [this]
        exact List.mem_of_getElem? ho
      · cases h

end Dtr
