import Dtr.Props.C10
import Dtr.Props.C11
/-!
# Non-vacuity: one concrete test that meets the hypotheses the property theorems share

The theorems of C01–C06, C10, C11, C13, C14, C18, C19 are implications from "the text parses", "the parsed test binds", "the test is
well-formed", "the constructor succeeds", "`next` yields a row".  Here a concrete program with a clocked row, a `let`, a loop, an
expression entry and a declared signal is parsed, bound, constructed and run against a concrete driver **by the kernel**
(`decide +kernel` evaluates the model's definitions): every one of those hypotheses is satisfiable, and the run is the expected one.
These are examples — tests of the model inside Lean — not theorems about all inputs.
-/
namespace Dtr
namespace NonVacuity

/-- a small complete test: a clocked row, a `let`, a loop with an expression entry, a declared signal -/
def src : Str := "A CLK Q V\ndeclare V = Q + 1;\n1 C 0 1\nlet a = 2;\nloop(i,2)\n(a+i) 0 X X\nend loop\n".toList

def sigs : List Signal :=
  [⟨"Q", 4, .output⟩, ⟨"CLK", 1, .input (.val 0)⟩, ⟨"A", 4, .input (.val 0)⟩]

/-- a driver that always answers `Q = 0` and counts its calls -/
def drv : Driver Nat :=
  { rw := fun n _ => (n + 1, .ok [(⟨"Q", 4, .output⟩, .val 0)]),
    wo := Driver.defaultWo (fun n _ => (n + 1, .ok [(⟨"Q", 4, .output⟩, .val 0)])) }

def rng : Rng := { f := fun _ => 0 }

/-- the items of the first `n` calls of `next`, with the number of driver calls made so far -/
def run (tc : TestCase) : Nat → RowIt → Nat → List (Option Item × Nat)
  | 0, _, _ => []
  | n+1, s, d =>
    match s.next tc drv 1000 d with
    | .item i s' d' _ => (some i, d') :: run tc n s' d'
    | .none _ d' => [(none, d')]
    | _ => []

def rowsOf (src : Str) (sigs : List Signal) (n : Nat) : List (Option Item × Nat) :=
  match parseTest src with
  | .ok p =>
    match withSignals p sigs with
    | .ok tc =>
      match tryNew tc drv 0 rng with
      | .ok s d _ => run tc n s d
      | _ => []
    | _ => []
  | _ => []

-- parsed: three statements (the declaration is none), the header as written
example : (match parseTest src with | .ok p => p.stmts.length == 3 && p.signals == ["A", "CLK", "Q", "V"] | _ => false) = true := by
  decide +kernel

-- bound: the three given signals plus the declared one
example : (match parseTest src with
    | .ok p => (match withSignals p sigs with | .ok tc => tc.signals.map (·.name) == ["Q", "CLK", "A", "V"] | _ => false)
    | _ => false) = true := by
  decide +kernel

-- the constructor makes exactly one call
example : (match parseTest src with
    | .ok p => (match withSignals p sigs with
      | .ok tc => (match tryNew tc drv 0 rng with | .ok _ d log => d == 1 && log.length == 1 | _ => false)
      | _ => false)
    | _ => false) = true := by
  decide +kernel

-- the run: a clock triple (two unchecked rows, then the checked one), two passes of the loop, the end — one call per row
example : ((rowsOf src sigs 10).map (fun x => (match x.1 with
      | some (.row r) => (r.line, r.inputs.map (·.value), r.outputs.map (fun o => (o.output, o.expected)))
      | _ => (0, [], []), x.2))) =
    [ ((3, [.val 0, .val 1], []), 2),
      ((3, [.val 1, .val 1], []), 3),
      ((3, [.val 0, .val 1], [(.val 0, .val 0), (.val 1, .val 1)]), 4),
      ((6, [.val 0, .val 2], [(.val 0, .x), (.val 1, .x)]), 5),
      ((6, [.val 0, .val 3], [(.val 0, .x), (.val 1, .x)]), 6),
      ((0, [], []), 6) ] := by
  decide +kernel

-- binding refuses a `C` in the column of an output (C11's "otherwise")
example : (match parseTest "Q A\nC 0\n".toList with
    | .ok p => (match withSignals p [⟨"Q", 1, .output⟩, ⟨"A", 1, .input (.val 0)⟩] with | .err _ => true | _ => false)
    | _ => false) = true := by
  decide +kernel

/-! ### a run that goes on behind error items (`RowIt.nextC`, the hypotheses of the continued-run theorems) -/

/-- a loop whose header cannot be evaluated on the second pass of the enclosing loop, a row that divides by zero, a `let`
whose `random` range is empty; rows in between and behind -/
def srcErr : Str :=
  "A Q
let x = 7;
loop(i,3)
loop(j,2/(1-i))
(x+j) X
end loop
end loop
(1/0) X
let y = random(0);
(x) X
".toList

/-- the items of the first `n` calls of `next`, continued behind every item; with `vars()` behind rows -/
def runC (tc : TestCase) : Nat → RowIt → Nat → List (String × List (String × Int64))
  | 0, _, _ => []
  | n+1, s, d =>
    match s.nextC tc drv 1000 d with
    | .item (.row r) s' d' _ => (s!"row {r.line} {repr (r.inputs.map (·.value))}", s'.vars) :: runC tc n s' d'
    | .item (.err _) s' d' _ => ("error", s'.vars) :: runC tc n s' d'
    | .none _ _ => [("end", [])]
    | _ => [("panic", [])]

def itemsOfC (src : Str) (sigs : List Signal) (n : Nat) : List (String × List (String × Int64)) :=
  match parseTest src with
  | .ok p =>
    match withSignals p sigs with
    | .ok tc =>
      match tryNew tc drv 0 rng with
      | .ok s d _ => runC tc n s d
      | _ => []
    | _ => []
  | _ => []

-- pass i=0: two rows (j = 0, 1); pass i=1: the inner header fails (2/0) — one error item, the inner loop is skipped and no
-- scope is left open; pass i=2: bound 2/(1-2) = -2, no pass; behind the loops only `x` is in scope; the row `(1/0) X` is an error
-- item and is skipped; the `let` with the empty `random` range is an error item and is skipped; the last row comes; then the end
example : ((itemsOfC srcErr [⟨"Q", 4, .output⟩, ⟨"A", 4, .input (.val 0)⟩] 12).map (fun x => (x.1 == "error", x.2.map (·.1)))) =
    [ (false, ["j", "i", "x"]), (false, ["j", "i", "x"]), (true, ["i", "x"]), (true, ["x"]), (true, ["x"]), (false, ["x"]), (false, []) ] := by
  decide +kernel

-- the hypotheses of `C15_static_eq_dynamic_continued` are satisfiable: the static run and a dynamic run of `srcErr`, both
-- continued behind its three evaluation errors, have six items each — rows and evaluation errors — and they agree
def shapeC (is : List CItem) : List (Option (Nat × List InVal) × Bool) :=
  is.map (fun i => match i with
    | .row r => (some (r.line, r.inputs.map (·.value)), false)
    | .evalErr _ => (none, true))

example : (match parseTest srcErr with
    | .ok p =>
      (match withSignals p [⟨"Q", 4, .output⟩, ⟨"A", 4, .input (.val 0)⟩] with
      | .ok tc =>
        (match tryIterStatic tc rng, tryNew tc drv 0 rng with
        | .ok s₁, .ok s₂ d _ =>
          (match itemsC tc staticDriver 1000 6 s₁ (), itemsC tc drv 1000 6 s₂ d with
          | some (is₁, _, _), some (is₂, _, _) =>
            shapeC is₁ == shapeC is₂ &&
            shapeC is₁ == [(some (5, [.val 7]), false), (some (5, [.val 8]), false), (none, true), (none, true), (none, true),
                           (some (10, [.val 7]), false)]
          | _, _ => false)
        | _, _ => false)
      | _ => false)
    | _ => false) = true := by
  decide +kernel

-- fix F23 on its own input: the one column `B_out` is the input's column and the `_out` (expected) column of the bidirectional
-- `B`; the `X` is expanded for the input (0, then 1) and stays `X` for the expected value of `B`, whatever the device answers
def drvB : Driver Nat :=
  { rw := fun n _ => (n + 1, .ok [(⟨"B", 1, .bidir (.val 0)⟩, .val 1)]),
    wo := Driver.defaultWo (fun n _ => (n + 1, .ok [(⟨"B", 1, .bidir (.val 0)⟩, .val 1)])) }

def runB (tc : TestCase) : Nat → RowIt → Nat → List (List InVal × List ExpVal)
  | 0, _, _ => []
  | n+1, s, d =>
    match s.next tc drvB 1000 d with
    | .item (.row r) s' d' _ => (r.inputs.map (·.value), r.outputs.map (·.expected)) :: runB tc n s' d'
    | _ => []

example : (match parseTest "B_out\nX\n".toList with
    | .ok p =>
      (match withSignals p [⟨"B_out", 1, .input (.val 0)⟩, ⟨"B", 1, .bidir (.val 0)⟩] with
      | .ok tc =>
        (match tryNew tc drvB 0 rng with
        | .ok s d _ => runB tc 5 s d == [([.val 0, .val 0], [.x]), ([.val 1, .val 0], [.x])]
        | _ => false)
      | _ => false)
    | _ => false) = true := by
  decide +kernel

/-- the text is accepted: the hypotheses of `C10_accepted_wf` / `C10_accepted_never_panics` / `C11_bind_iff` are met -/
theorem accepted : ∃ p tc, parseTest src = .ok p ∧ withSignals p sigs = .ok tc := by
  have h : (match parseTest src with
      | .ok p => (match withSignals p sigs with | .ok _ => true | _ => false)
      | _ => false) = true := by decide +kernel
  cases hp : parseTest src with
  | ok p =>
    rw [hp] at h
    simp only at h
    cases hb : withSignals p sigs with
    | ok tc => exact ⟨p, tc, rfl, hb⟩
    | err e => rw [hb] at h; cases h
    | panic m => rw [hb] at h; cases h
  | err t l => rw [hp] at h; cases h
  | panic m => rw [hp] at h; cases h
  | fuel => rw [hp] at h; cases h

/-- … hence a well-formed test exists, and the end-to-end theorem applies to it -/
example : ∃ tc w, TestCase.WF tc w := by
  obtain ⟨p, tc, hp, hb⟩ := accepted
  refine ⟨tc, _, C10_accepted_wf src p sigs tc hp hb ?_⟩
  intro sg hsg e he
  simp only [sigs, List.mem_cons, List.mem_nil_iff, or_false] at hsg
  rcases hsg with rfl | rfl | rfl <;> cases he

end NonVacuity
end Dtr
