import Dtr.Proofs.ScopeDiscipline
import Dtr.Proofs.AfterErrorBasic
import Dtr.Model.RowIter
/-!
# C18 — `vars()` reports the variables in scope at the row just yielded
-/
namespace Dtr

/-- `vars()` is the flattening of the variable store of the iterator's context -/
theorem C18_vars_is_flatten (s : RowIt) : s.vars = s.ctx.vars.flatten := rfl

/-- **Innermost binding wins, every name once.**  For every name, `flatten` reports exactly the
binding a lookup through the scope stack finds (so bindings of closed scopes are absent and shadowed
bindings are reported again once the shadowing scope is closed — see `C01_scopes_restored`). -/
theorem C18_flatten_innermost (m : FMap Int64) (k : String) :
    (m.flatten.find? (fun e => e.1 == k)).map (·.2) = Scopes.lookup k m.abs ∧
    (m.flatten.map (·.1)).Nodup :=
  ⟨(FMap.flatten_find m k).trans (FMap.get_abs m k), FMap.flatten_nodup m⟩

theorem extractAll_vars (tc : TestCase) (outs : List OutEntry) :
    ∀ (ps : List (EIdx × OIdx)) (c c' : Ctx) (vs : List OutVal), extractAll tc outs c ps = .ok (vs, c') →
      c'.vars = c.vars ∧ c'.alt = c.alt
  | [], c, c', vs, h => by simp [extractAll] at h; obtain ⟨_, rfl⟩ := h; exact ⟨rfl, rfl⟩
  | p :: ps, c, c', vs, h => by
    simp only [extractAll] at h
    split at h
    · next v c1 h1 =>
      split at h
      · next vs' c2 h2 =>
        cases h
        have ih := extractAll_vars tc outs ps c1 c' vs' h2
        have h1' : c1.vars = c.vars ∧ c1.alt = c.alt := by
          unfold extractOne at h1
          split at h1
          · split at h1
            · cases h1
            · split at h1
              · cases h1
              · split at h1 <;> cases h1; exact ⟨rfl, rfl⟩
          · split at h1
            · next v' c'' he => cases h1; exact ⟨(evalE_vars he).1, (evalE_vars he).2.1⟩
            · cases h1
            · cases h1
          · cases h1; exact ⟨rfl, rfl⟩
        exact ⟨ih.1.trans h1'.1, ih.2.trans h1'.2⟩
      · cases h
      · cases h
    · cases h
    · cases h

/-- **Device IO and virtual-signal evaluation leave the variables alone**: `swap_vars` is undone on
the way out, and refreshing the outputs does not touch the variable store — so outputs and virtual
signals never appear among the variables. -/
theorem C18_io_keeps_variables (tc : TestCase) (oi : List OIdx) (n : Nat) (outs : List OutEntry) (c c2 : Ctx)
    (vals : List OutVal)
    (h : extractOutputs tc oi n outs (c.setOutputs (outsOf outs)) = (.ok vals, c2)) :
    c2.vars = c.vars ∧ c2.alt = c.alt := by
  unfold extractOutputs at h
  split at h
  · cases h
  · split at h
    · next vs c' he =>
      cases h
      have := extractAll_vars tc outs _ _ _ _ he
      simp only [Ctx.swapVars, Ctx.setOutputs] at this ⊢
      exact ⟨this.2, this.1⟩
    · cases h
    · cases h

/-- **After a yielded row, `vars()` is the flattening of the variable store as `get_row` left it**
— i.e. as it was when the row was evaluated (`get_row` on a non-empty stack does not touch the
context at all, on an empty one it stops right after the statement iterator yielded the row). -/
theorem C18_vars_after_row {δ : Type} (tc : TestCase) (drv : Driver δ) (fuel : Nat) (s s' : RowIt) (d d' : δ)
    (r : DataRow) (calls : List Call) (h : s.next tc drv fuel d = .item (.row r) s' d' calls) :
    ∃ ev sg, getRow tc fuel s = .row ev sg ∧ s'.vars = sg.ctx.vars.flatten := by
  unfold RowIt.next at h
  split at h
  · cases h
  · cases h
  · cases h
  · cases h
  · next ev sg hg =>
    refine ⟨ev, sg, hg, ?_⟩
    split at h
    · split at h
      · cases h
      · next d1 outs hrw =>
        simp only at h
        split at h
        · next vals c2 hx =>
          cases h
          have := C18_io_keeps_variables tc sg.outIdx sg.numOut outs sg.ctx c2 vals hx
          simp [RowIt.vars, this.1]
        · cases h
        · cases h
    · split at h
      · cases h
      · cases h; rfl

/-- **Behind an error item of the IO step** — a driver error, an answer of the wrong shape, a virtual signal
that cannot be evaluated — `vars()` is still the flattening of the variable store as `get_row` left it:
the stores are swapped back also when the answer is refused. -/
theorem C18_vars_behind_io_error {δ : Type} (tc : TestCase) (drv : Driver δ) (fuel : Nat) (s s' : RowIt) (d d' : δ)
    (e : IterErr) (calls : List Call) (hc : calls ≠ [])
    (h : s.nextC tc drv fuel d = .item (.err e) s' d' calls) :
    ∃ ev sg, getRow tc fuel s = .row ev sg ∧ s'.vars = sg.ctx.vars.flatten := by
  unfold RowIt.nextC at h
  split at h
  · simp only [NextOut.item.injEq] at h; exact absurd h.2.2.2.symm hc
  · cases h
  · cases h
  · cases h
  · next ev sg hg =>
    refine ⟨ev, sg, hg, ?_⟩
    split at h
    · split at h
      · simp only [NextOut.item.injEq] at h; rw [← h.2.1]; rfl
      · next d1 outs hrw =>
        simp only at h
        split at h
        · cases h
        · simp only [NextOut.item.injEq] at h
          rw [← h.2.1]
          simp only [RowIt.vars]
          unfold extractCtxAfter
          split <;> rfl
        · cases h
    · split at h
      · simp only [NextOut.item.injEq] at h; rw [← h.2.1]; rfl
      · cases h

/-- **A statement that cannot be evaluated changes no variable**: in the state a failing turn of the statement
iterator leaves behind, the variable stores and the outputs are what they were (only the generator has moved). -/
theorem C18_eval_error_keeps_variables (it : It) (c : Ctx) :
    (stepPost it c).2.vars = c.vars ∧ (stepPost it c).2.alt = c.alt ∧ (stepPost it c).2.outs = c.outs :=
  stepPost_fields it c

/-- draining expansions does not touch the context -/
theorem C18_expansion_keeps_context (tc : TestCase) (fuel : Nat) (s sg : RowIt) (ev : EvRow)
    (hne : s.cache ≠ []) (h : getRow tc fuel s = .row ev sg) : sg.ctx = s.ctx := by
  have hemp : s.cache.isEmpty = false := by cases hc : s.cache <;> simp_all
  unfold getRow at h
  simp only [hemp, Bool.false_eq_true, if_false] at h
  split at h
  · cases h
  · cases h
  · split at h
    · cases h
    · cases h
    · split at h
      · cases h
      · cases h
      · cases h; rfl

/-! Non-vacuity: shadowing and uncovering. -/
example : ((((FMap.empty : FMap Int64).set "a" 1).pushFrame.set "a" 2).set "i" 0).flatten = [("i", 0), ("a", 2)] ∧
    ((((FMap.empty : FMap Int64).set "a" 1).pushFrame.set "a" 2).set "i" 0).popFrame.flatten = [("a", 1)] := by
  decide

end Dtr
