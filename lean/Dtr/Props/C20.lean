import Dtr.Proofs.LexClean
import Dtr.Proofs.SrcTables
import Dtr.Proofs.Radix
import Dtr.Model.Bind
import Dtr.Proofs.LineInsert
import Dtr.Proofs.LineErase
/-!
# C20 — layout is irrelevant: blank space, comments and literal radix do not change rows

The body lexer's output is a list of tokens with kind, text and byte span; the parser only sees the
abstract tokens `absTok` (kind, identifier name, numeric value), and byte spans only decorate error
locations.  The theorems: (1) inserting blanks at any position the lexer passes between tokens, or a
comment in front of a line end, leaves the list of (kind, text) pairs, hence of abstract tokens,
unchanged; (2) renderings of a number in the radices the lexer knows denote the same abstract token;
(3) the parse outcome and the bound test are functions of the abstract token list.

(4) a blank or comment-only *line* inserted at any line start behind the header adds exactly one `Eol`
token behind an `Eol` (or at the very start of the body), and the parser — shown by a relational pass
over its model, `Proofs/ParserEol` — then returns the same statements up to their `line` fields, the
same recorded names, or fails as before (`C20_blank_line_insert`); the `line` of every row is given, for
both texts, by `C19_source_line`.  (5) blanks inserted in the header line, anywhere but inside a name, change nothing but byte offsets
(`C20_header_blanks`).
-/
namespace Dtr

/-- kind and text of a token -/
def Tok.kt (t : Tok) : Kind × Str := (t.kind, t.text)

theorem absTok_kt (t u : Tok) (h : t.kt = u.kt) : absTok t = absTok u := by
  cases t; cases u
  simp only [Tok.kt, Prod.mk.injEq] at h
  obtain ⟨rfl, rfl⟩ := h
  rfl

theorem map_absTok_of_kt (a b : List Tok) (h : a.map Tok.kt = b.map Tok.kt) : a.map absTok = b.map absTok := by
  induction a generalizing b with
  | nil => cases b <;> simp_all
  | cons t a ih =>
    cases b with
    | nil => simp at h
    | cons u b =>
      simp only [List.map_cons, List.cons.injEq] at h ⊢
      exact ⟨absTok_kt t u h.1, ih b h.2⟩

/-- the text lexes without an `Error` token -/
def NoErrorTokens (s : Str) : Prop := ∀ t ∈ lexBodyAll 0 s, t.kind ≠ .Error

/-- `p` is a position of `s` that the body lexer passes between two tokens (the start, the end of
any token, any position inside a run of blanks or inside a comment) -/
def TokenBoundary (s : Str) (p : Nat) : Prop := Boundary (s.length + 1) s p

theorem lexBodyAll_kt (off : Nat) (s : Str) : (lexBodyAll off s).map Tok.kt = lexKT (s.length + 1) s := by
  exact lexBody_kt (s.length + 1) off s

theorem clean_of_noErrorTokens (s : Str) (h : NoErrorTokens s) : Clean (s.length + 1) s := by
  apply clean_of_noError _ _ (by omega)
  intro t ht
  rw [← lexBodyAll_kt 0 s] at ht
  obtain ⟨u, hu, rfl⟩ := List.mem_map.1 ht
  exact h u hu

/-- the general form: text `w = x :: l` without newline, starting with a character no token
contains, that the lexer skips in front of `s.drop p` -/
theorem layout_insert (s : Str) (p : Nat) (x : Char) (l : Str) (off off' : Nat) (bf : Stopper x)
    (hw : ∀ a ∈ x :: l, (a != '\n') = true) (hB : TokenBoundary s p) (hE : NoErrorTokens s)
    (hS : Skips (x :: l) (s.drop p)) :
    (lexBodyAll off' (insL s p (x :: l))).map absTok = (lexBodyAll off s).map absTok := by
  apply map_absTok_of_kt
  rw [lexBodyAll_kt, lexBodyAll_kt, insL_length]
  have := lex_insL x l bf hw (s.length + 1) s p hB (clean_of_noErrorTokens s hE) (by omega) hS
  have e : s.length + (x :: l).length + 1 = s.length + 1 + (x :: l).length := by omega
  rw [e]; exact this

/-- **Blank space**: inserting any non-empty run of blanks (spaces, tabs, carriage returns, form
feeds) at a token boundary of a body text that lexes without error tokens leaves the sequence of
abstract tokens — all the parser sees — unchanged.  (Read right to left it is the removal of
blanks; iterated, any change of the amount of blank space between tokens.) -/
theorem C20_blank_insert (s : Str) (p : Nat) (w : Str) (off off' : Nat)
    (hw : ∀ b ∈ w, isBlank b = true) (hB : TokenBoundary s p) (hE : NoErrorTokens s) :
    (lexBodyAll off' (insL s p w)).map absTok = (lexBodyAll off s).map absTok := by
  cases w with
  | nil =>
    have : insL s p [] = s := by simp [insL]
    rw [this]; apply map_absTok_of_kt; rw [lexBodyAll_kt, lexBodyAll_kt]
  | cons x l =>
    have hx := hw x (by simp)
    refine layout_insert s p x l off off' (stopper_blank hx) ?_ hB hE (skips_blanks _ hw _)
    intro a ha
    exact (blank_not_special (hw a ha)).2

/-- **Comments**: inserting `#` followed by any newline-free text at a token boundary that is
followed by a line break or the end of the text leaves the sequence of abstract tokens unchanged. -/
theorem C20_comment_insert (s : Str) (p : Nat) (txt : Str) (off off' : Nat)
    (ht : ∀ a ∈ txt, (a != '\n') = true) (hB : TokenBoundary s p) (hE : NoErrorTokens s)
    (hr : s.drop p = [] ∨ ∃ r, s.drop p = '\n' :: r) :
    (lexBodyAll off' (insL s p ('#' :: txt))).map absTok = (lexBodyAll off s).map absTok := by
  refine layout_insert s p '#' txt off off' stopper_hash ?_ hB hE (skips_comment txt _ ht hr)
  intro a ha
  rcases List.mem_cons.1 ha with rfl | ha
  · decide
  · exact ht a ha

/-- the same holds for the texts themselves, not only for what the parser sees -/
theorem C20_insert_keeps_texts (s : Str) (p : Nat) (w : Str) (off off' : Nat)
    (hw : ∀ b ∈ w, isBlank b = true) (hB : TokenBoundary s p) (hE : NoErrorTokens s) :
    (lexBodyAll off' (insL s p w)).map Tok.kt = (lexBodyAll off s).map Tok.kt := by
  cases w with
  | nil =>
    have : insL s p [] = s := by simp [insL]
    rw [this, lexBodyAll_kt, lexBodyAll_kt]
  | cons x l =>
    have hx := hw x (by simp)
    rw [lexBodyAll_kt, lexBodyAll_kt, insL_length]
    have := lex_insL x l (stopper_blank hx) (fun a ha => (blank_not_special (hw a ha)).2) (s.length + 1) s p hB
      (clean_of_noErrorTokens s hE) (by omega) (skips_blanks _ hw _)
    have e : s.length + (x :: l).length + 1 = s.length + 1 + (x :: l).length := by omega
    rw [e]; exact this

/-- **Radix**: the standard renderings of one number as a decimal, hexadecimal (either letter
case, either prefix case), binary and leading-zero octal literal are the same abstract token.  (Which
kind the lexer gives each rendering is its own matter, covered by the token-dump correspondence.) -/
theorem C20_radix (n : Nat) (up : Bool) (x b : Char) (s e : Nat) :
    let dec := absTok ⟨.DecInt, render up 10 n, s, e⟩
    absTok ⟨.HexInt, '0' :: x :: render up 16 n, s, e⟩ = dec ∧
    absTok ⟨.BinInt, '0' :: b :: render up 2 n, s, e⟩ = dec ∧
    absTok ⟨.OctInt, '0' :: render up 8 n, s, e⟩ = dec ∧
    dec = .num (if n < 2 ^ 63 then some (Int64.ofNat n) else none) := by
  have h10 := natOfDigits_render up 10 n (by omega) (by omega)
  have h16 := natOfDigits_render up 16 n (by omega) (by omega)
  have h2 := natOfDigits_render up 2 n (by omega) (by omega)
  have h8 := natOfDigits_render up 8 n (by omega) (by omega)
  simp only [absTok, parseRadix, List.drop_succ_cons, List.drop_zero, natOfDigits_zero, h10, h16, h2, h8]
  simp

/-- leading zeros and the case of hexadecimal digits do not matter either -/
theorem C20_radix_leading_zero (r : Nat) (ds : Str) : parseRadix r ('0' :: ds) = parseRadix r ds := by
  simp [parseRadix, natOfDigits_zero]

theorem C20_radix_case (n : Nat) : natOfDigits 16 (render true 16 n) = natOfDigits 16 (render false 16 n) := by
  rw [natOfDigits_render _ _ _ (by omega) (by omega), natOfDigits_render _ _ _ (by omega) (by omega)]

/-- **The parser sees abstract tokens only**: two body texts with the same abstract token list have
the same parse outcome — statements, recorded names, error tag, token-index locations. -/
theorem C20_parse_factors (hdr : List String) (line : Nat) (off off' : Nat) (s s' : Str)
    (h : (lexBodyAll off' s').map absTok = (lexBodyAll off s).map absTok) :
    parseBody hdr line ((lexBodyAll off' s').map absTok) = parseBody hdr line ((lexBodyAll off s).map absTok) := by
  rw [h]

/-- what binding uses of a parse result: everything but the byte spans -/
def Parsed.core (p : Parsed) : List Stmt × List String × List String × List String × List (String × Expr) :=
  (p.stmts, p.signals, p.expIn.map (·.1), p.reads.map (·.1), p.virt.map (fun v => (v.1, v.2.2)))

/-- **Binding ignores spans**: parse results that differ only in byte spans bind to the same test,
so every row of every run is the same. -/
theorem C20_bind_ignores_spans (p q : Parsed) (sigs : List Signal) (h : p.core = q.core) :
    withSignals p sigs = withSignals q sigs := by
  simp only [Parsed.core, Prod.mk.injEq] at h
  obtain ⟨h1, h2, h3, h4, h5⟩ := h
  have hv1 : p.virt.map (·.1) = q.virt.map (·.1) := by
    have := congrArg (List.map Prod.fst) h5
    simpa [List.map_map, Function.comp_def] using this
  have hv2 : p.virt.map (fun (x : String × (Nat × Nat) × Expr) => match x with
        | (n, _, e) => ({ name := n, bits := 64, typ := .virt e } : Signal)) =
      q.virt.map (fun (x : String × (Nat × Nat) × Expr) => match x with
        | (n, _, e) => ({ name := n, bits := 64, typ := .virt e } : Signal)) := by
    have := congrArg (List.map (fun (x : String × Expr) => ({ name := x.1, bits := 64, typ := .virt x.2 } : Signal))) h5
    simpa [List.map_map, Function.comp_def] using this
  unfold withSignals
  rw [hv1, hv2, h1, h2, h3, h4]

/-- non-vacuity: a concrete body, a boundary, and the two insertions -/
example : TokenBoundary ['1', ' ', '0', '\n', 'l', 'e', 't', ' ', 'a', '=', '2', ';'] 3 ∧
    TokenBoundary ['1', ' ', '0', '\n', 'l', 'e', 't', ' ', 'a', '=', '2', ';'] 9 ∧
    ¬ TokenBoundary ['1', ' ', '0', '\n', 'l', 'e', 't', ' ', 'a', '=', '2', ';'] 5 := by
  refine ⟨?_, ?_, ?_⟩ <;> (unfold TokenBoundary; decide +kernel)

/-- what a run depends on, without the line numbers: statements with `line` erased, header names, recorded names -/
def Parsed.coreE (p : Parsed) : List Stmt × List String × List String × List String × List (String × Expr) :=
  (Stmts.erase p.stmts, p.signals, p.expIn.map (·.1), p.reads.map (·.1), p.virt.map (fun v => (v.1, v.2.2)))

/-- **Blank and comment-only lines**: let the source be a header part `H` followed by the body `L ++ R`
(the header parser hands back exactly `L ++ R`), where `L` is empty or ends in a newline — so `R` starts at
a line start — and let `w` be blanks optionally followed by a `#` comment.  Inserting the line `w ++ "\n"`
in front of `R` leaves the verdict unchanged, and an accepted test has the same statements up to their
`line` fields, the same header and the same recorded reads, clock columns and virtual signals — for every
text, well-formed or not.  (Iterated: any number of inserted lines, anywhere behind the header.) -/
theorem C20_blank_line_insert (H L R w : Str) (names : List (String × Nat × Nat)) (line off : Nat)
    (hH : parseHeaderAll (H ++ (L ++ R)) = .ok names line off (L ++ R))
    (hL : L = [] ∨ L.getLast? = some '\n') (hw : BlankLine w) :
    (∃ p p', parseTest (H ++ (L ++ R)) = .ok p ∧ parseTest (H ++ (L ++ (w ++ '\n' :: R))) = .ok p' ∧
      p'.coreE = p.coreE) ∨
    ((∀ p, parseTest (H ++ (L ++ R)) ≠ .ok p) ∧ (∀ p, parseTest (H ++ (L ++ (w ++ '\n' :: R))) ≠ .ok p)) := by
  -- the header
  obtain ⟨h, hs, hall⟩ := parseHeader_indep _ _ _ _ _ _ _ _ _ hH
  have hh : H = h := List.append_cancel_right hs
  subst hh
  have hH' : parseHeaderAll (H ++ (L ++ (w ++ '\n' :: R))) = .ok names line (off) (L ++ (w ++ '\n' :: R)) :=
    hall _ _ (Nat.lt_succ_self _)
  -- lexer and parser
  obtain ⟨P, S, hP, h1, h2⟩ := abs_insert_line L R w off off hL hw
  have hsame := parseBody_eol (names.map (·.1)) line P S hP
  unfold parseTest
  rw [hH, hH']
  simp only
  rw [h1, h2]
  rcases hsame with ⟨b, st, b', st', e1, e2, hb, hsim⟩ | ⟨n1, n2⟩
  · left
    rw [e1, e2]
    refine ⟨_, _, rfl, rfl, ?_⟩
    simp only [Parsed.coreE, Prod.mk.injEq, List.map_map, Function.comp_def]
    refine ⟨hb, trivial, ?_, ?_, ?_⟩
    · have := hsim.expIn; simpa [List.map_map, Function.comp_def] using this
    · have := hsim.reads; simpa [List.map_map, Function.comp_def] using this
    · have := hsim.virt; simpa [List.map_map, Function.comp_def] using this
  · right
    constructor
    · intro p hp
      cases hr : parseBody (names.map (·.1)) line (P ++ S) with
      | ok b st => exact n1 b st hr
      | err t l => rw [hr] at hp; cases hp
      | panic m => rw [hr] at hp; cases hp
      | fuel => rw [hr] at hp; cases hp
    · intro p hp
      cases hr : parseBody (names.map (·.1)) line (P ++ .sym .Eol :: S) with
      | ok b st => exact n2 b st hr
      | err t l => rw [hr] at hp; cases hp
      | panic m => rw [hr] at hp; cases hp
      | fuel => rw [hr] at hp; cases hp

/-- the hypotheses are met: a comment line inserted in front of the second row of a two-row test -/
example : (match parseHeaderAll ("A B\n".toList ++ ("0 1\n".toList ++ "1 0\n".toList)) with
      | .ok names line off rest => names.map (·.1) == ["A", "B"] && line == 2 && off == 4 &&
          rest == "0 1\n".toList ++ "1 0\n".toList
      | .err _ => false) = true ∧
    ("0 1\n".toList = [] ∨ "0 1\n".toList.getLast? = some '\n') ∧ BlankLine "  # note".toList := by
  refine ⟨by decide +kernel, Or.inr (by decide), ⟨"  ".toList, by decide, Or.inr ⟨" note".toList, by decide, by decide⟩⟩⟩

def Res.mapOk {ε α β : Type} (f : α → β) : Res ε α → Res ε β
  | .ok a => .ok (f a)
  | .err e => .err e
  | .panic m => .panic m

/-- binding copies the statements and looks at nothing else of them -/
theorem withSignals_stmts (p p' : Parsed) (sigs : List Signal)
    (h2 : p'.signals = p.signals) (h3 : p'.expIn.map (·.1) = p.expIn.map (·.1))
    (h4 : p'.reads.map (·.1) = p.reads.map (·.1))
    (h5 : p'.virt.map (fun v => (v.1, v.2.2)) = p.virt.map (fun v => (v.1, v.2.2))) :
    withSignals p' sigs = (withSignals p sigs).mapOk (fun tc => { tc with stmts := p'.stmts }) := by
  have hv1 : p'.virt.map (·.1) = p.virt.map (·.1) := by
    have := congrArg (List.map Prod.fst) h5
    simpa [List.map_map, Function.comp_def] using this
  have hv2 : p'.virt.map (fun (x : String × (Nat × Nat) × Expr) => match x with
        | (n, _, e) => ({ name := n, bits := 64, typ := .virt e } : Signal)) =
      p.virt.map (fun (x : String × (Nat × Nat) × Expr) => match x with
        | (n, _, e) => ({ name := n, bits := 64, typ := .virt e } : Signal)) := by
    have := congrArg (List.map (fun (x : String × Expr) => ({ name := x.1, bits := 64, typ := .virt x.2 } : Signal))) h5
    simpa [List.map_map, Function.comp_def] using this
  unfold withSignals
  rw [hv1, hv2, h2, h3, h4]
  cases checkDuplicates (p.virt.map (·.1)) sigs [] with
  | some e => rfl
  | none =>
    simp only
    cases missingColumns p.signals
        ((buildIndices p.signals 0 (sigs ++ p.virt.map (fun (x : String × (Nat × Nat) × Expr) => match x with
          | (n, _, e) => ({ name := n, bits := 64, typ := .virt e } : Signal)))).1 ++
         (buildIndices p.signals 0 (sigs ++ p.virt.map (fun (x : String × (Nat × Nat) × Expr) => match x with
          | (n, _, e) => ({ name := n, bits := 64, typ := .virt e } : Signal)))).2) with
    | cons a as => rfl
    | nil =>
      simp only
      cases badExpectedInput (sigs ++ p.virt.map (fun (x : String × (Nat × Nat) × Expr) => match x with
          | (n, _, e) => ({ name := n, bits := 64, typ := .virt e } : Signal))) (p.expIn.map (·.1)) with
      | some n => rfl
      | none =>
        simp only
        cases buildReads (sigs ++ p.virt.map (fun (x : String × (Nat × Nat) × Expr) => match x with
          | (n, _, e) => ({ name := n, bits := 64, typ := .virt e } : Signal))) (p.reads.map (·.1)) with
        | err e => rfl
        | panic m => rfl
        | ok reads => rfl

/-- parse results with the same `coreE` bind to test cases that are equal up to the `line` fields, or fail alike -/
theorem C20_bind_up_to_lines (p p' : Parsed) (sigs : List Signal) (h : p'.coreE = p.coreE) :
    (∃ tc tc', withSignals p sigs = .ok tc ∧ withSignals p' sigs = .ok tc' ∧ tc'.er = tc.er) ∨
    (∃ e, withSignals p sigs = .err e ∧ withSignals p' sigs = .err e) ∨
    (∃ m, withSignals p sigs = .panic m ∧ withSignals p' sigs = .panic m) := by
  simp only [Parsed.coreE, Prod.mk.injEq] at h
  obtain ⟨h1, h2, h3, h4, h5⟩ := h
  rw [withSignals_stmts p p' sigs h2 h3 h4 h5]
  cases hw : withSignals p sigs with
  | ok tc =>
    refine Or.inl ⟨tc, _, rfl, rfl, ?_⟩
    have hs : tc.stmts = p.stmts := by
      unfold withSignals at hw
      split at hw
      · cases hw
      · simp only at hw
        split at hw
        · cases hw
        · split at hw
          · cases hw
          · split at hw
            · cases hw
            · cases hw
            · cases hw; rfl
    simp only [TestCase.er, hs, h1]
  | err e => exact Or.inr (Or.inl ⟨e, rfl, rfl⟩)
  | panic m => exact Or.inr (Or.inr ⟨m, rfl, rfl⟩)

/-- **Rows are unchanged except `line`**: test cases that are equal up to the `line` fields of their
statements behave alike under every driver — the constructor ends the same way (same call, same error),
and from then on every `next()` yields the same item (inputs with their `changed` flags, outputs,
expected values, error) with the same driver calls, up to the `line` of a row; the runs end alike.
With `C20_blank_line_insert` and `C20_bind_up_to_lines`: inserting blank or comment-only lines changes
nothing of a run but `line`, and `line` is what `C19_source_line` says for both texts. -/
theorem C20_run_ignores_lines {δ : Type} (tc tc' : TestCase) (h : tc'.er = tc.er) (drv : Driver δ) (d : δ)
    (rng : Rng) (fuel : Nat) :
    (tryNew tc' drv d rng).er = (tryNew tc drv d rng).er ∧
    ∀ (n : Nat) (s s' : RowIt) (d1 : δ), s'.er = s.er →
      (runN tc' drv fuel n s' d1).map (fun p => (p.1.er, p.2)) = (runN tc drv fuel n s d1).map (fun p => (p.1.er, p.2)) ∧
      endN tc' drv fuel n s' d1 = endN tc drv fuel n s d1 := by
  refine ⟨?_, fun n s s' d1 hs => runN_er tc tc' h drv fuel n s s' d1 hs⟩
  rw [← tryNew_er, ← tryNew_er, h]

/-- **Blank space in the header line**: let the text be blank lines `P`, then `A ++ B` with `A` the part of
the header line in front of the insertion point (no newline in it), the point not being inside a name.
Inserting any run of blanks `w` there leaves the verdict unchanged, and an accepted test is the same test —
statements with their lines, header, recorded names; only byte offsets of later error messages move. -/
theorem C20_header_blanks (P A B w : Str) (hP : ∀ c ∈ P, isBlank c = true ∨ c = '\n')
    (hA : ∀ c ∈ A, c ≠ '\n') (hbd : HdrBoundary A B) (hw : ∀ b ∈ w, isBlank b = true) :
    (∃ p p', parseTest (P ++ (A ++ B)) = .ok p ∧ parseTest (P ++ (A ++ (w ++ B))) = .ok p' ∧ p'.core = p.core) ∨
    ((∀ p, parseTest (P ++ (A ++ B)) ≠ .ok p) ∧ (∀ p, parseTest (P ++ (A ++ (w ++ B))) ≠ .ok p)) := by
  have h1 := parseHeaderAll_lead P (A ++ B) hP
  have h2 := parseHeaderAll_lead P (A ++ (w ++ B)) hP
  have hs := parseHeader_ins w hw ((A ++ B).length + 1) (utf8Len P) (utf8Len P) (1 + nlCount P) [] [] A B rfl hA hbd
    (Nat.lt_succ_self _)
  have e : (A ++ (w ++ B)).length + 1 = (A ++ B).length + 1 + w.length := by simp; omega
  rw [← e, ← h1, ← h2] at hs
  unfold parseTest
  cases ha : parseHeaderAll (P ++ (A ++ B)) with
  | err sp =>
    cases hb : parseHeaderAll (P ++ (A ++ (w ++ B))) with
    | err sp' => right; exact ⟨fun p hp => by simp at hp, fun p hp => by simp at hp⟩
    | ok n l o r => rw [ha, hb] at hs; exact hs.elim
  | ok n1 l1 o1 r1 =>
    cases hb : parseHeaderAll (P ++ (A ++ (w ++ B))) with
    | err sp' => rw [ha, hb] at hs; exact hs.elim
    | ok n2 l2 o2 r2 =>
      rw [ha, hb] at hs
      obtain ⟨hn, hl, hr⟩ := hs
      subst hl; subst hr
      simp only
      have htok : (lexBodyAll o2 r2).map absTok = (lexBodyAll o1 r2).map absTok := by
        apply map_absTok_of_kt; rw [lexBodyAll_kt, lexBodyAll_kt]
      rw [htok, hn]
      cases hpb : parseBody (n1.map (·.1)) l2 ((lexBodyAll o1 r2).map absTok) with
      | ok b st =>
        left
        refine ⟨_, _, rfl, rfl, ?_⟩
        simp only [Parsed.core, hn, List.map_map, Function.comp_def]
      | err t l => right; exact ⟨fun p hp => by simp at hp, fun p hp => by simp at hp⟩
      | panic m => right; exact ⟨fun p hp => by simp at hp, fun p hp => by simp at hp⟩
      | fuel => right; exact ⟨fun p hp => by simp at hp, fun p hp => by simp at hp⟩

/-- the hypotheses are met: two blanks inserted between the names `A` and `B` of a header behind a blank line -/
example : (∀ c ∈ " \n".toList, isBlank c = true ∨ c = '\n') ∧ (∀ c ∈ "A".toList, c ≠ '\n') ∧
    HdrBoundary "A".toList " B\n1 0\n".toList ∧ (∀ b ∈ "  ".toList, isBlank b = true) := by
  refine ⟨by decide, by decide, Or.inr (Or.inr (Or.inr ⟨' ', "B\n1 0\n".toList, rfl, by decide⟩)), by decide⟩

/-- **The fixed spellings of the lexer model are the `#[token("…")]` attributes of `src/lexer/token.rs`**
(translated on every run): none missing, none added.  (Vacuous when the translator does not recognise the source's shape.) -/
theorem C20_token_spellings_from_source : tokenSpellingsOK = true := tokenSpellings_from_source

end Dtr
