import Dtr.Props.C12
import Dtr.Proofs.Expand
/-!
# C19 — each row reports the source line it came from

Proved at the level of tokens and of the header text; the link "one `Eol` token per `\n` character,
in order, and none inside comments or other tokens" is the lexer's and is covered by the token-dump
correspondence (test-level): the clause is marked partial in the evidence.
-/
namespace Dtr

/-- **Rows of an accepted body**: the `line` of every data row (plain or `repeat`, at any depth) is
the line counter after the header plus the number of `Eol` tokens in front of the row's first token
— blank lines, comment-only lines and statements before it all count, nothing else does. -/
theorem C19_row_line_tokens (hdr : List String) (line fuel : Nat) (atoks : List ATok)
    (h : atoks.getLast? = some (.sym .Eof)) (b : List Stmt) (st' : PState)
    (hok : parseBlock hdr fuel none [] { toks := atoks, line := line } = .ok b st') :
    Stmts.ok atoks line hdr.length b :=
  (C12_accepted_shape hdr line fuel atoks h b st' hok).1

/-- what `Stmts.ok` says about a row, spelled out -/
theorem C19_row_line_unfold (all : List ATok) (l0 w : Nat) (data : List DataEntry) (line : Nat)
    (h : Stmt.ok all l0 w (.row data line)) : ∃ p, p ≤ all.length ∧ line = l0 + countEol (all.take p) := by
  simp only [Stmt.ok] at h; exact h.2.2

def countNl (s : Str) : Nat := s.count '\n'

theorem takeWhile_mem {q : Char → Bool} : ∀ (s : Str) (c : Char), c ∈ s.takeWhile q → q c = true
  | [], c, h => by simp at h
  | x :: xs, c, h => by
    simp only [List.takeWhile] at h
    split at h
    · next hq =>
      simp only [List.mem_cons] at h
      rcases h with rfl | h
      · exact hq
      · exact takeWhile_mem xs c h
    · simp at h

theorem take_tw (q : Char → Bool) : ∀ (s : Str), s.take (tw q s) = s.takeWhile q
  | [] => rfl
  | c :: cs => by
    simp only [tw, List.takeWhile]
    split
    · simp only [List.length_cons, List.take_succ_cons]; rw [← tw, take_tw q cs]
    · simp

theorem takeWhile_hdr_no_nl (s : Str) : countNl (s.take (tw isHdrName s)) = 0 := by
  unfold countNl
  rw [take_tw]
  apply List.count_eq_zero.mpr
  intro hm
  have := takeWhile_mem s '\n' hm
  simp [isHdrName] at this

/-- **The header's line counter**: the line counter handed to the body parser is `1 +` the number of
`\n` characters of the source up to and including the header's own line break. -/
theorem parseHeader_line : ∀ (f off line : Nat) (acc : List (String × Nat × Nat)) (s : Str)
    (names : List (String × Nat × Nat)) (l o : Nat) (rest : Str),
    parseHeader f off line acc s = .ok names l o rest →
      ∃ pre, s = pre ++ '\n' :: rest ∧ l = line + countNl pre + 1
  | 0, off, line, acc, s, names, l, o, rest, h => by simp [parseHeader] at h
  | f+1, off, line, acc, [], names, l, o, rest, h => by simp [parseHeader] at h
  | f+1, off, line, acc, c :: cs, names, l, o, rest, h => by
    simp only [parseHeader] at h
    split at h
    · next hb =>
      obtain ⟨pre, hp, hl⟩ := parseHeader_line f _ _ acc cs names l o rest h
      refine ⟨c :: pre, by rw [hp]; rfl, ?_⟩
      have : c ≠ '\n' := by
        intro e; subst e; simp [isBlank] at hb
      simp [countNl, List.count_cons, this] at hl ⊢
      omega
    · split at h
      · next hc =>
        have hc' : c = '\n' := by simpa using hc
        split at h
        · obtain ⟨pre, hp, hl⟩ := parseHeader_line f _ _ acc cs names l o rest h
          refine ⟨c :: pre, by rw [hp]; rfl, ?_⟩
          simp [countNl, List.count_cons, hc'] at hl ⊢
          omega
        · cases h; exact ⟨[], by simp [hc'], by simp [countNl]⟩
      · split at h
        · cases h
        · obtain ⟨pre, hp, hl⟩ := parseHeader_line f _ _ _ _ names l o rest h
          refine ⟨(c :: cs).take (tw isHdrName (c :: cs)) ++ pre, ?_, ?_⟩
          · rw [List.append_assoc, ← hp, List.take_append_drop]
          · have := takeWhile_hdr_no_nl (c :: cs)
            simp only [countNl, List.count_append] at this hl ⊢
            omega

theorem C19_header_line (s : Str) (names : List (String × Nat × Nat)) (l o : Nat) (rest : Str)
    (h : parseHeaderAll s = .ok names l o rest) : ∃ pre, s = pre ++ '\n' :: rest ∧ l = 1 + countNl pre + 1 :=
  parseHeader_line _ _ _ [] s names l o rest h

/-- **`X` / `C` expansions keep the line** of the source row. -/
theorem C19_expansion_keeps_line (tc : TestCase) : ∀ (k : Nat) (r : CRow) (row : CRow),
    row ∈ expR tc k r → row.line = r.line
  | 0, r, row, h => by
    simp only [expR, tripleOf] at h
    split at h <;> simp only [List.mem_cons, List.mem_nil_iff, or_false] at h
    · rcases h with rfl | rfl | rfl <;> rfl
    · subst h; rfl
  | k+1, r, row, h => by
    cases hx : lastInputX tc r.entries with
    | none =>
      have : expR tc (k + 1) r = expR tc 0 r := by simp [expR, hx]
      rw [this] at h; exact C19_expansion_keeps_line tc 0 r row h
    | some i =>
      simp only [expR, hx, List.mem_append] at h
      rcases h with h | h
      · exact C19_expansion_keeps_line tc k { r with entries := r.entries.set i (.num 0) } row h
      · exact C19_expansion_keeps_line tc k { r with entries := r.entries.set i (.num 1) } row h

/-- **Every iteration of a loop yields the row with the line recorded in the program**: the
statement iterator copies `line` from the statement, `get_row` and `into_data_row` pass it on. -/
theorem C19_yield_keeps_line (data : List DataEntry) (line : Nat) (rest : List Stmt) (c : Ctx) (r : CRow)
    (it' : It) (c' : Ctx) (h : step (.mk (.row data line :: rest) .iterate) c = .yield r it' c') : r.line = line := by
  simp only [step] at h
  split at h
  · cases h; rfl
  · cases h
  · cases h

theorem C19_data_row_line (r : EvRow) (vals : List OutVal) : (intoDataRow r vals).line = r.line := rfl

end Dtr
