import Dtr.Props.C12
import Dtr.Proofs.Expand
import Dtr.Proofs.LexLines
/-!
# C19 — each row reports the source line it came from

Proved at the level of tokens and of the header text; the link "one `Eol` token per `\n` character,
in order, and none inside comments or other tokens" is the lexer's and is covered by the token-dump
correspondence (test-level): the clause is marked partial in the evidence.
-/
namespace Dtr

/-- **Rows of an accepted body**: the `line` of every data row (plain or `repeat`, at any depth) is
the line counter after the header plus the number of `Eol` tokens in front of the row's first token
— blank lines, comment-only lines and statements before it all count, nothing else does. -/
theorem C19_row_line_tokens (hdr : List String) (line fuel : Nat) (atoks : List ATok)
    (h : atoks.getLast? = some (.sym .Eof)) (b : List Stmt) (st' : PState)
    (hok : parseBlock hdr fuel none [] { toks := atoks, line := line } = .ok b st') :
    Stmts.ok atoks line hdr.length b :=
  (C12_accepted_shape hdr line fuel atoks h b st' hok).1

/-- what `Stmts.ok` says about a row, spelled out -/
theorem C19_row_line_unfold (all : List ATok) (l0 w : Nat) (data : List DataEntry) (line : Nat)
    (h : Stmt.ok all l0 w (.row data line)) : ∃ p, p ≤ all.length ∧ line = l0 + countEol (all.take p) := by
  simp only [Stmt.ok] at h; exact h.2.2

def countNl (s : Str) : Nat := s.count '\n'

theorem takeWhile_mem {q : Char → Bool} : ∀ (s : Str) (c : Char), c ∈ s.takeWhile q → q c = true
  | [], c, h => by simp at h
  | x :: xs, c, h => by
    simp only [List.takeWhile] at h
    split at h
    · next hq =>
      simp only [List.mem_cons] at h
      rcases h with rfl | h
      · exact hq
      · exact takeWhile_mem xs c h
    · simp at h

theorem take_tw (q : Char → Bool) : ∀ (s : Str), s.take (tw q s) = s.takeWhile q
  | [] => rfl
  | c :: cs => by
    simp only [tw, List.takeWhile]
    split
    · simp only [List.length_cons, List.take_succ_cons]; rw [← tw, take_tw q cs]
    · simp

theorem takeWhile_hdr_no_nl (s : Str) : countNl (s.take (tw isHdrName s)) = 0 := by
  unfold countNl
  rw [take_tw]
  apply List.count_eq_zero.mpr
  intro hm
  have := takeWhile_mem s '\n' hm
  simp [isHdrName] at this

/-- **The header's line counter**: the line counter handed to the body parser is `1 +` the number of
`\n` characters of the source up to and including the header's own line break. -/
theorem parseHeader_line : ∀ (f off line : Nat) (acc : List (String × Nat × Nat)) (s : Str)
    (names : List (String × Nat × Nat)) (l o : Nat) (rest : Str),
    parseHeader f off line acc s = .ok names l o rest →
      ∃ pre, s = pre ++ '\n' :: rest ∧ l = line + countNl pre + 1
  | 0, off, line, acc, s, names, l, o, rest, h => by simp [parseHeader] at h
  | f+1, off, line, acc, [], names, l, o, rest, h => by simp [parseHeader] at h
  | f+1, off, line, acc, c :: cs, names, l, o, rest, h => by
    simp only [parseHeader] at h
    split at h
    · next hb =>
      obtain ⟨pre, hp, hl⟩ := parseHeader_line f _ _ acc cs names l o rest h
      refine ⟨c :: pre, by rw [hp]; rfl, ?_⟩
      have : c ≠ '\n' := by
        intro e; subst e; simp [isBlank] at hb
      simp [countNl, List.count_cons, this] at hl ⊢
      omega
    · split at h
      · next hc =>
        have hc' : c = '\n' := by simpa using hc
        split at h
        · obtain ⟨pre, hp, hl⟩ := parseHeader_line f _ _ acc cs names l o rest h
          refine ⟨c :: pre, by rw [hp]; rfl, ?_⟩
          simp [countNl, List.count_cons, hc'] at hl ⊢
          omega
        · cases h; exact ⟨[], by simp [hc'], by simp [countNl]⟩
      · split at h
        · cases h
        · obtain ⟨pre, hp, hl⟩ := parseHeader_line f _ _ _ _ names l o rest h
          refine ⟨(c :: cs).take (tw isHdrName (c :: cs)) ++ pre, ?_, ?_⟩
          · rw [List.append_assoc, ← hp, List.take_append_drop]
          · have := takeWhile_hdr_no_nl (c :: cs)
            simp only [countNl, List.count_append] at this hl ⊢
            omega

theorem C19_header_line (s : Str) (names : List (String × Nat × Nat)) (l o : Nat) (rest : Str)
    (h : parseHeaderAll s = .ok names l o rest) : ∃ pre, s = pre ++ '\n' :: rest ∧ l = 1 + countNl pre + 1 :=
  parseHeader_line _ _ _ [] s names l o rest h

/-- **`X` / `C` expansions keep the line** of the source row. -/
theorem C19_expansion_keeps_line (tc : TestCase) : ∀ (k : Nat) (r : CRow) (row : CRow),
    row ∈ expR tc k r → row.line = r.line
  | 0, r, row, h => by
    simp only [expR, tripleOf] at h
    split at h <;> simp only [List.mem_cons, List.mem_nil_iff, or_false] at h
    · rcases h with rfl | rfl | rfl <;> rfl
    · subst h; rfl
  | k+1, r, row, h => by
    cases hx : lastInputX tc r.entries with
    | none =>
      have : expR tc (k + 1) r = expR tc 0 r := by simp [expR, hx]
      rw [this] at h; exact C19_expansion_keeps_line tc 0 r row h
    | some i =>
      simp only [expR, hx, List.mem_append] at h
      rcases h with h | h
      · exact C19_expansion_keeps_line tc k { r with entries := r.entries.set i (.num 0), xcols := i :: r.xcols } row h
      · exact C19_expansion_keeps_line tc k { r with entries := r.entries.set i (.num 1), xcols := i :: r.xcols } row h

/-- **Every iteration of a loop yields the row with the line recorded in the program**: the
statement iterator copies `line` from the statement, `get_row` and `into_data_row` pass it on. -/
theorem C19_yield_keeps_line (data : List DataEntry) (line : Nat) (rest : List Stmt) (c : Ctx) (r : CRow)
    (it' : It) (c' : Ctx) (h : step (.mk (.row data line :: rest) .iterate) c = .yield r it' c') : r.line = line := by
  simp only [step] at h
  split at h
  · cases h; rfl
  · cases h
  · cases h

theorem C19_data_row_line (r : EvRow) (vals : List OutVal) : (intoDataRow r vals).line = r.line := rfl

theorem absTok_eol (t : Tok) : (absTok t = .sym .Eol) ↔ t.kind = .Eol := by
  unfold absTok
  cases hk : t.kind <;> simp

theorem countEol_map_absTok : ∀ (l : List Tok), countEol (l.map absTok) = sumEol (l.map (fun t => (t.kind, 0)))
  | [] => rfl
  | t :: ts => by
    simp only [List.map_cons, countEol, sumEol, countEol_map_absTok ts, kEol]
    by_cases h : t.kind = .Eol
    · simp [h, (absTok_eol t).2 h]
    · have : absTok t ≠ .sym .Eol := fun e => h ((absTok_eol t).1 e)
      simp [h, this]

theorem sumEol_kinds : ∀ (a b : List (Kind × Nat)), a.map (·.1) = b.map (·.1) → sumEol a = sumEol b
  | [], [], _ => rfl
  | [], _ :: _, h => by simp at h
  | _ :: _, [], h => by simp at h
  | x :: xs, y :: ys, h => by
    simp only [List.map_cons, List.cons.injEq] at h
    simp only [sumEol, h.1, sumEol_kinds xs ys h.2]

/-- **One `Eol` token per newline character** (the lexer's half of the claim): the number of `Eol`
tokens in front of token number `p` of a body text is the number of newline characters in front of
that token's first character (`c` = its character offset in the body text). -/
theorem C19_tokens_count_newlines (off : Nat) (rest : Str) (p : Nat) (k : Kind) (c : Nat)
    (h : (lexKP (rest.length + 1) 0 rest)[p]? = some (k, c)) :
    countEol (((lexBodyAll off rest).map absTok).take p) = nlCount (rest.take c) := by
  have hl := lexKP_lines (rest.length + 1) 0 rest p k c h
  rw [← List.map_take, countEol_map_absTok]
  have hk : (((lexBodyAll off rest).take p).map (fun t => ((t.kind, 0) : Kind × Nat))).map (·.1) =
      ((lexKP (rest.length + 1) 0 rest).take p).map (·.1) := by
    have h1 : (lexBodyAll off rest).map (fun t => t.kind) = (lexKP (rest.length + 1) 0 rest).map (·.1) := by
      rw [lexKP_kinds]
      have := lexBody_kt (rest.length + 1) off rest
      simp only [lexBodyAll]
      rw [← this]
      simp [List.map_map, Function.comp_def]
    simp only [List.map_map, Function.comp_def, List.map_take]
    rw [h1]
  rw [sumEol_kinds _ _ hk, hl.2]
  simp

/-- **The line of a row is one plus the number of newline characters in front of it**: with the
header accepted (`l` = line counter after it), a row whose first token is token number `p` of the
body — at character offset `c` of the body text — is given the line `l + #Eol before p`
(`parseRow_line`, `C19_row_line_tokens`), and that number is `1 +` the number of `\n` characters of
the source in front of the row's first character. -/
theorem C19_source_line (src : Str) (names : List (String × Nat × Nat)) (l o : Nat) (rest : Str)
    (hh : parseHeaderAll src = .ok names l o rest) (p : Nat) (k : Kind) (c : Nat)
    (h : (lexKP (rest.length + 1) 0 rest)[p]? = some (k, c)) :
    l + countEol (((lexBodyAll o rest).map absTok).take p) =
      1 + nlCount (src.take (src.length - rest.length + c)) := by
  obtain ⟨pre, hsrc, hl⟩ := C19_header_line src names l o rest hh
  rw [C19_tokens_count_newlines o rest p k c h, hl, hsrc]
  have e : (pre ++ '\n' :: rest).length - rest.length + c = (pre ++ ['\n']).length + c := by simp; omega
  rw [e]
  have e2 : pre ++ '\n' :: rest = (pre ++ ['\n']) ++ rest := by simp
  rw [e2, List.take_length_add_append, nlCount_append, nlCount_append]
  simp [nlCount, countNl]
  omega

end Dtr
