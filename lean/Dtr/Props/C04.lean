import Dtr.Proofs.RowIt
import Dtr.Proofs.AfterErrorBasic
/-!
# C04 — expressions that read outputs see the most recently read device values
-/
namespace Dtr

/-- **Lookup order**: a variable in scope takes precedence; otherwise the outputs map is consulted. -/
theorem C04_lookup_order (c : Ctx) (k : String) :
    (∀ n, c.vars.get k = some n → c.get k = some (.val n)) ∧
    (c.vars.get k = none → c.get k = c.outOf k) := by
  constructor
  · intro n h; simp [Ctx.get, h]
  · intro h; simp [Ctx.get, h]

/-- a name evaluates to its number; a `Z` or `X` value is an error item; an unknown name too -/
theorem C04_var_eval (get : String → Option OutVal) (name : String) (g : Rng) :
    (∀ n, get name = some (.val n) → evalG get (.var name) g = .ok (n, g)) ∧
    (get name = some .z → evalG get (.var name) g = .err (.unexpectedValue name .z)) ∧
    (get name = some .x → evalG get (.var name) g = .err (.unexpectedValue name .x)) ∧
    (get name = none → evalG get (.var name) g = .err (.unassigned name)) := by
  refine ⟨?_, ?_, ?_, ?_⟩
  · intro n h; simp [evalG, h]
  · intro h; simp [evalG, h]
  · intro h; simp [evalG, h]
  · intro h; simp [evalG, h]

/-- **After construction the outputs map is the first answer.** -/
theorem C04_outs_after_ctor {δ : Type} (tc : TestCase) (drv : Driver δ) (d d' : δ) (rng : Rng) (s : RowIt)
    (log : List Call) (h : tryNew tc drv d rng = .ok s d' log) :
    ∃ ins outs, log = [⟨.readWrite, ins, .ok outs⟩] ∧ s.ctx.outs = outsOf outs ∧ s.ctx.alt.values = [] := by
  unfold tryNew at h
  split at h
  · cases h
  · cases h
  · next ins _ =>
    split at h
    · cases h
    · next d1 outs _ =>
      simp only at h
      split at h
      · cases h
      · cases h
      · cases h; exact ⟨ins, outs, rfl, rfl, rfl⟩

/-- **Invariant of every `next` that yields a row**: afterwards the outputs map is the answer of
this call if it was an output-reading one, and is untouched by a write-only call; evaluating the row
itself (which happened before the call) did not change it either — so every expression is evaluated
against the answer of the latest output-reading call made before it. -/
theorem C04_outs_invariant {δ : Type} (tc : TestCase) (drv : Driver δ) (fuel : Nat) (s s' : RowIt) (d d' : δ)
    (r : DataRow) (c : Call) (h : s.next tc drv fuel d = .item (.row r) s' d' [c]) :
    (∀ outs, c.resp = .ok outs → c.kind = .readWrite → s'.ctx.outs = outsOf outs) ∧
    (c.kind = .writeOnly → s'.ctx.outs = s.ctx.outs) := by
  unfold RowIt.next at h
  cases hg : getRow tc fuel s with
  | err e => simp [hg] at h
  | panic m => simp [hg] at h
  | fuel => simp [hg] at h
  | none s1 => simp [hg] at h
  | row ev sg =>
    have hctx := getRow_ctx tc fuel s sg ev hg
    simp only [hg] at h
    by_cases hu : ev.upd = true
    · simp only [hu, if_true] at h
      cases hrw : drv.rw d ev.inputs with
      | mk d1 resp =>
        cases resp with
        | fail e => simp [hrw] at h
        | ok outs =>
          simp only [hrw] at h
          split at h
          · next vals c2 hx =>
            cases h
            constructor
            · intro outs' ho _
              cases ho
              -- extraction only swaps the variable stores and advances the generator
              unfold extractOutputs at hx
              split at hx
              · cases hx
              · split at hx
                · next vs c3 he =>
                  cases hx
                  have hk : ∀ (ps : List (EIdx × OIdx)) (ca cb : Ctx) (vs : List OutVal),
                      extractAll tc outs ca ps = .ok (vs, cb) → cb.outs = ca.outs := by
                    intro ps
                    induction ps with
                    | nil => intro ca cb vs h; simp [extractAll] at h; obtain ⟨_, rfl⟩ := h; rfl
                    | cons p ps ih =>
                      intro ca cb vs h
                      simp only [extractAll] at h
                      split at h
                      · next v c1 h1 =>
                        split at h
                        · next vs' c4 h2 =>
                          cases h
                          have h1' : c1.outs = ca.outs := by
                            unfold extractOne at h1
                            split at h1
                            · split at h1
                              · cases h1
                              · split at h1
                                · cases h1
                                · split at h1 <;> cases h1; rfl
                            · split at h1
                              · next v' c'' hev => cases h1; exact (evalE_vars hev).2.2
                              · cases h1
                              · cases h1
                            · cases h1; rfl
                          exact (ih c1 cb vs' h2).trans h1'
                        · cases h
                        · cases h
                      · cases h
                      · cases h
                  have := hk _ _ _ _ he
                  simpa [Ctx.swapVars, Ctx.setOutputs] using this
                · cases hx
                · cases hx
            · intro hk; cases hk
          · cases h
          · cases h
    · simp only [hu, Bool.false_eq_true, if_false] at h
      cases hwo : drv.wo d ev.inputs with
      | mk d1 resp =>
        cases resp with
        | some e => simp [hwo] at h
        | none =>
          simp only [hwo] at h
          cases h
          refine ⟨?_, fun _ => hctx.1⟩
          intro _ _ hk; cases hk

/-- **A read output the driver does not supply makes the constructor fail** — after its single call,
before any row is run. -/
theorem C04_missing_output_ctor (tc : TestCase) (outs : List OutEntry) (pairs : List (OIdx × Nat))
    (hp : mapRes (oidxFor tc outs) tc.expIdx = .ok pairs) (r : Nat) (s : Signal)
    (hr : r ∈ tc.reads) (hs : tc.signals[r]? = some s)
    (hmiss : ((pairs.filter (fun p => match p.1 with | .output _ => true | _ => false)).map (·.2)).contains r = false) :
    ∃ e, buildOutIdx tc outs = .err e ∨ ∃ m, buildOutIdx tc outs = .panic m := by
  unfold buildOutIdx
  simp only [hp]
  cases hm : mapRes (missingFor tc ((pairs.filter (fun p => match p.1 with | .output _ => true | _ => false)).map (·.2))) tc.reads with
  | err e => exact ⟨e, Or.inl rfl⟩
  | panic m => exact ⟨default, Or.inr ⟨m, rfl⟩⟩
  | ok ms =>
    simp only
    -- the entry for `r` is `some s.name`
    obtain ⟨hl, hk⟩ := mapRes_ok _ _ _ hm
    obtain ⟨i, hi, hri⟩ := List.getElem_of_mem hr
    have := hk i hi (by omega)
    rw [hri] at this
    simp only [missingFor, hmiss, Bool.false_eq_true, if_false, hs] at this
    injection this with this
    have hmem : some s.name ∈ ms := by rw [this]; exact List.getElem_mem _
    cases hf : ms.filterMap id with
    | nil =>
      have : s.name ∈ ms.filterMap id := List.mem_filterMap.mpr ⟨some s.name, hmem, rfl⟩
      rw [hf] at this; cases this
    | cons a as => exact ⟨_, Or.inl rfl⟩

/-- **The outputs map behind an error item** (`RowIt.nextC`: the state of the code behind every item).  A call that
*failed* refreshes nothing: the map is what it was.  An answer that was *read but refused* — wrong number or order of
outputs, a virtual signal that cannot be evaluated — has been stored before it was examined: the map is that answer
(`set_outputs` comes before `extract_output_values`).  So also behind an error item every expression is evaluated
against the latest answer the driver gave to an output-reading call. -/
theorem C04_outs_behind_error {δ : Type} (tc : TestCase) (drv : Driver δ) (fuel : Nat) (s s' : RowIt) (d d' : δ)
    (e : IterErr) (c : Call) (h : s.nextC tc drv fuel d = .item (.err e) s' d' [c]) :
    (∀ n, c.resp = .fail n → s'.ctx.outs = s.ctx.outs) ∧
    (∀ outs, c.resp = .ok outs → s'.ctx.outs = outsOf outs) := by
  unfold RowIt.nextC at h
  cases hg : getRow tc fuel s with
  | err e1 => simp [hg] at h
  | panic m => simp [hg] at h
  | fuel => simp [hg] at h
  | none s1 => simp [hg] at h
  | row ev sg =>
    have hctx := getRow_ctx tc fuel s sg ev hg
    simp only [hg] at h
    by_cases hu : ev.upd = true
    · simp only [hu, if_true] at h
      cases hrw : drv.rw d ev.inputs with
      | mk d1 resp =>
        cases resp with
        | fail n =>
          simp only [hrw, NextOut.item.injEq, List.cons.injEq, and_true] at h
          obtain ⟨_, h2, _, h4⟩ := h
          subst h2; subst h4
          exact ⟨fun _ _ => hctx.1, (fun _ hk => by cases hk)⟩
        | ok outs =>
          simp only [hrw] at h
          split at h
          · cases h
          · simp only [NextOut.item.injEq, List.cons.injEq, and_true] at h
            obtain ⟨_, h2, _, h4⟩ := h
            subst h2; subst h4
            refine ⟨(fun _ hk => by cases hk), ?_⟩
            intro outs' ho
            cases ho
            simp only
            unfold extractCtxAfter
            split <;> rfl
          · cases h
    · simp only [hu, Bool.false_eq_true, if_false] at h
      cases hwo : drv.wo d ev.inputs with
      | mk d1 resp =>
        cases resp with
        | some n =>
          simp only [hwo, NextOut.item.injEq, List.cons.injEq, and_true] at h
          obtain ⟨_, h2, _, h4⟩ := h
          subst h2; subst h4
          exact ⟨fun _ _ => hctx.1, (fun _ hk => by cases hk)⟩
        | none => simp [hwo] at h

/-- an evaluation error refreshes nothing either: the outputs map behind it is the one before it -/
theorem C04_outs_behind_eval_error (it : It) (c : Ctx) : (stepPost it c).2.outs = c.outs := (stepPost_fields it c).2.2

end Dtr
