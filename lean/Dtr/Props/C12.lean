import Dtr.Props.C09
import Dtr.Proofs.SrcTables
import Dtr.Proofs.ParserDenotes
/-!
# C12 — malformed programs are rejected, never silently accepted

Soundness of acceptance w.r.t. the shape the grammar demands, read off the postconditions of the
parser induction (`Dtr/Proofs/ParserBlocks.lean`).  What an accepted body guarantees:
-/
namespace Dtr

/-- **What acceptance guarantees.**  If the body parser accepts a token list (ending in `Eof`), then
* every data row, at any nesting depth, has exactly the header's width (a `bits(k,…)` entry counting
  as `k` columns) and no `bits` entry is wider than 64;
* the top-level block ended at the final `Eof` (nothing was left over, in particular no stray `end`);
* every row's `line` is the header's line plus the number of `Eol` tokens before the row (C19). -/
theorem C12_accepted_shape (hdr : List String) (line fuel : Nat) (atoks : List ATok)
    (h : atoks.getLast? = some (.sym .Eof)) (b : List Stmt) (st' : PState)
    (hok : parseBlock hdr fuel none [] { toks := atoks, line := line } = .ok b st') :
    Stmts.ok atoks line hdr.length b ∧
    ((1 ≤ st'.pos ∧ atoks[st'.pos - 1]? = some (.sym .Eof)) ∨ atoks[st'.pos]? = some (.sym .Eof)) := by
  have := (blockOK (l0 := line) h hdr fuel).block 0 none [] (by intro k hk; cases hk) trivial _ (init_cursor atoks line h)
  rw [hok] at this
  exact ⟨this.2.1, this.2.2⟩

/-- **A nested block is accepted only if it was closed by `end <its kind>`**: the two tokens
consumed last are `end` and the block's own keyword, and they lie inside the block (at or after
the position `n` where it started).  Hence an unterminated block, a block closed by the wrong
keyword (`end while` for a `loop`), and a file cut off anywhere inside a block — with or without a
trailing newline — are never accepted. -/
theorem C12_block_terminated (hdr : List String) (l0 fuel n : Nat) (all : List ATok) (k : Kind) (hk : k ≠ .Eof)
    (h : all.getLast? = some (.sym .Eof)) (acc : List Stmt) (hacc : Stmts.ok all l0 hdr.length acc)
    (st : PState) (hst : JT all l0 n st) (b : List Stmt) (st' : PState)
    (hok : parseBlock hdr fuel (some k) acc st = .ok b st') :
    n + 2 ≤ st'.pos ∧ all[st'.pos - 2]? = some (.sym .End) ∧ all[st'.pos - 1]? = some (.sym k) := by
  have := (blockOK (l0 := l0) h hdr fuel).block n (some k) acc (by intro k' hk'; cases hk'; exact hk) hacc st hst
  rw [hok] at this
  exact this.2.2

/-- in particular: if no `end` token follows, the block is rejected -/
theorem C12_truncated_block_rejected (hdr : List String) (l0 fuel n : Nat) (all : List ATok) (k : Kind) (hk : k ≠ .Eof)
    (h : all.getLast? = some (.sym .Eof)) (st : PState) (hst : JT all l0 n st)
    (hno : ∀ i, n ≤ i → all[i]? ≠ some (.sym .End)) (b : List Stmt) (st' : PState) :
    parseBlock hdr fuel (some k) [] st ≠ .ok b st' := by
  intro hok
  obtain ⟨h1, h2, _⟩ := C12_block_terminated hdr l0 fuel n all k hk h [] trivial st hst b st' hok
  exact hno (st'.pos - 2) (by omega) h2

/-- an integer literal that does not fit in 63 bits is never accepted as a number -/
theorem C12_big_literal_rejected (st : PState) (rest : List ATok) (h : st.toks = .num none :: rest) :
    ∃ t l, parseNumber st = .err t l := by
  simp [parseNumber, bind, PM.bind, curPos, getTok, h, failP]

/-- an unknown function name, or a wrong number of arguments, is never accepted: `parse_factor`
builds a call only for a table function with exactly its arity -/
theorem C12_function_table : funcArity "random" = some 1 ∧ funcArity "ite" = some 3 ∧ funcArity "signExt" = some 2 ∧
    ∀ name, name ≠ "random" → name ≠ "ite" → name ≠ "signExt" → funcArity name = none := by
  refine ⟨by decide, by decide, by decide, ?_⟩
  intro name h1 h2 h3
  simp [funcArity, h1, h2, h3]

/-- duplicate header names are rejected: an accepted header has pairwise distinct names -/
theorem parseHeader_nodup : ∀ (f off line : Nat) (acc : List (String × Nat × Nat)) (s : Str)
    (names : List (String × Nat × Nat)) (l o : Nat) (rest : Str),
    (acc.map (·.1)).Nodup → parseHeader f off line acc s = .ok names l o rest → (names.map (·.1)).Nodup
  | 0, off, line, acc, s, names, l, o, rest, _, h => by simp [parseHeader] at h
  | f+1, off, line, acc, [], names, l, o, rest, _, h => by simp [parseHeader] at h
  | f+1, off, line, acc, c :: cs, names, l, o, rest, hacc, h => by
    simp only [parseHeader] at h
    split at h
    · exact parseHeader_nodup f _ _ acc cs names l o rest hacc h
    · split at h
      · split at h
        · exact parseHeader_nodup f _ _ acc cs names l o rest hacc h
        · cases h; exact hacc
      · split at h
        · cases h
        · next hf =>
          refine parseHeader_nodup f _ _ _ _ names l o rest ?_ h
          simp only [List.map_append, List.map_cons, List.map_nil]
          rw [List.nodup_append]
          refine ⟨hacc, by simp, ?_⟩
          intro a ha b hb
          simp only [List.mem_cons, List.mem_nil_iff, or_false] at hb
          subst hb
          intro e
          simp only [List.mem_map] at ha
          obtain ⟨x, hx, hxa⟩ := ha
          have := List.find?_eq_none.mp hf x hx
          simp [hxa, e] at this

theorem C12_header_names_distinct (s : Str) (names : List (String × Nat × Nat)) (l o : Nat) (rest : Str)
    (h : parseHeaderAll s = .ok names l o rest) : (names.map (·.1)).Nodup :=
  parseHeader_nodup _ _ _ [] s names l o rest (by simp) h

/-- a header is accepted only if it is followed by a line break: the remaining text starts right
after a `\n` of the source -/
theorem parseHeader_newline : ∀ (f off line : Nat) (acc : List (String × Nat × Nat)) (s : Str)
    (names : List (String × Nat × Nat)) (l o : Nat) (rest : Str),
    parseHeader f off line acc s = .ok names l o rest → ∃ pre, s = pre ++ '\n' :: rest
  | 0, off, line, acc, s, names, l, o, rest, h => by simp [parseHeader] at h
  | f+1, off, line, acc, [], names, l, o, rest, h => by simp [parseHeader] at h
  | f+1, off, line, acc, c :: cs, names, l, o, rest, h => by
    simp only [parseHeader] at h
    split at h
    · obtain ⟨pre, hp⟩ := parseHeader_newline f _ _ acc cs names l o rest h
      exact ⟨c :: pre, by rw [hp]; rfl⟩
    · split at h
      · next hc =>
        have hc' : c = '\n' := by simpa using hc
        split at h
        · obtain ⟨pre, hp⟩ := parseHeader_newline f _ _ acc cs names l o rest h
          exact ⟨c :: pre, by rw [hp]; rfl⟩
        · cases h; exact ⟨[], by simp [hc']⟩
      · split at h
        · cases h
        · obtain ⟨pre, hp⟩ := parseHeader_newline f _ _ _ _ names l o rest h
          refine ⟨(c :: cs).take (tw isHdrName (c :: cs)) ++ pre, ?_⟩
          rw [List.append_assoc, ← hp, List.take_append_drop]

theorem C12_header_needs_newline (s : Str) (names : List (String × Nat × Nat)) (l o : Nat) (rest : Str)
    (h : parseHeaderAll s = .ok names l o rest) : ∃ pre, s = pre ++ '\n' :: rest :=
  parseHeader_newline _ _ _ [] s names l o rest h

/-- **What is accepted is a phrase of the grammar** (`Spec/Grammar.lean`), and the statements returned are what
that phrase denotes: the tokens the body parser consumed form lines, each a data row, a `let … ;`, a
`resetRandom;`, a `declare … ;`, a `repeat(…)` row, or a `loop(…)` / `while(…)` header, its body lines and
`end loop` / `end while`, every line but the last ended by a line break; expressions are factors joined by
binary operators, factors are literals, names, calls `name(e, …, e)` of a table function at its arity, unary
operators and `( e )`; row entries are numbers, `C`/`X`/`Z`, `( e )` and `bits(k, e)` with `k ≤ 64`.  Any text
that violates the grammar — a missing `;`, `)` or `,`, an unterminated or wrongly terminated block, an unknown
function — therefore is not accepted. -/
theorem C12_accepted_in_grammar (hdr : List String) (line : Nat) (atoks : List ATok) (b : List Stmt) (st' : PState)
    (hok : parseBody hdr line atoks = .ok b st') : ∃ u, atoks = u ++ st'.toks ∧ DTop u b := by
  unfold parseBody at hok
  obtain ⟨u, hu, b', hb, hD⟩ := (blockD hdr (parseFuel atoks.length)).block none [] _ _ _ hok
  simp only [List.nil_append] at hb
  subst hb
  exact ⟨u, hu, hD⟩

/-- the same for a nested block: it ends with `end <kind>` -/
theorem C12_block_in_grammar (hdr : List String) (fuel : Nat) (k : Kind) (st : PState) (b : List Stmt) (st' : PState)
    (hok : parseBlock hdr fuel (some k) [] st = .ok b st') : ∃ u, st.toks = u ++ st'.toks ∧ DNested k u b := by
  obtain ⟨u, hu, b', hb, hD⟩ := (blockD hdr fuel).block (some k) [] _ _ _ hok
  simp only [List.nil_append] at hb
  subst hb
  exact ⟨u, hu, hD⟩

/-- a phrase that is a nested block ends in `end <kind>` -/
theorem DNested.ends : ∀ {k : Kind} {u : List ATok} {b : List Stmt}, DNested k u b →
    ∃ pre, u = pre ++ [.sym .End, .sym k]
  | _, _, _, .close k => ⟨[], rfl⟩
  | _, _, _, .blank k rest b h => by obtain ⟨pre, hp⟩ := h.ends; exact ⟨.sym .Eol :: pre, by rw [hp]; rfl⟩
  | _, _, _, .stmt k ts s rest b _ h => by
    obtain ⟨pre, hp⟩ := h.ends; exact ⟨ts ++ .sym .Eol :: pre, by rw [hp]; simp⟩
  | _, _, _, .decl k ts rest b _ h => by
    obtain ⟨pre, hp⟩ := h.ends; exact ⟨ts ++ .sym .Eol :: pre, by rw [hp]; simp⟩

/-- **The function table is the source's** `FUNC_TABLE` (`src/expr.rs`, translated on every run): same names, same
numbers of arguments.  (Vacuous when the translator does not recognise the source's shape.) -/
theorem C12_function_table_from_source : funcTableOK = true := funcTable_from_source

end Dtr
