import Dtr.Spec.BigStep
/-!
# The sequential reading of a program that ends in an evaluation error

`errBlock … = some (e, σe)`: reading the block statement by statement (as `execBlock` does), the
first thing that cannot be evaluated is met in system state `σe` — whose log holds the rows yielded
until then — and the evaluation error is `e`.  The successful part of the run is described by the
functions of `BigStep.lean`; only the path to the failing statement is new.
-/
namespace Dtr
variable {W : Type} (D : Device W)

mutual
def errBlock : Nat → List Stmt → Sys W → Option (ExprErr × Sys W)
  | 0, _, _ => none
  | _+1, [], _ => none
  | fuel+1, s :: rest, σ =>
    match execStmt D fuel s σ with
    | some σ' => errBlock fuel rest σ'
    | none => errStmt fuel s σ
def errStmt : Nat → Stmt → Sys W → Option (ExprErr × Sys W)
  | 0, _, _ => none
  | fuel+1, s, σ =>
    match s with
    | .letS _ e =>
      match evalE e σ.ctx with
      | .err er => some (er, σ)
      | _ => none
    | .row data _ =>
      match evalRow data σ.ctx with
      | .err er => some (er, σ)
      | _ => none
    | .resetRandom => none
    | .loop var max body =>
      match evalE max σ.ctx with
      | .ok (n, c') =>
        if n ≤ 0 then none
        else errLoop fuel var n body 0 { σ with ctx := c'.pushFrame.set var 0 }
      | .err er => some (er, σ)
      | .panic _ => none
    | .while cond body => errWhile fuel cond body σ
def errLoop : Nat → String → Int64 → List Stmt → Int64 → Sys W → Option (ExprErr × Sys W)
  | 0, _, _, _, _, _ => none
  | fuel+1, var, n, body, cur, σ1 =>
    match execBlock D fuel body σ1 with
    | some σ2 =>
      if satSucc cur < n then errLoop fuel var n body (satSucc cur) { σ2 with ctx := σ2.ctx.set var (satSucc cur) }
      else none
    | none => errBlock fuel body σ1
def errWhile : Nat → Expr → List Stmt → Sys W → Option (ExprErr × Sys W)
  | 0, _, _, _ => none
  | fuel+1, cond, body, σ1 =>
    match evalE cond σ1.ctx with
    | .ok (v, c') =>
      if v = 0 then none
      else match execBlock D fuel body { σ1 with ctx := c' } with
        | some σ2 => errWhile fuel cond body σ2
        | none => errBlock fuel body { σ1 with ctx := c' }
    | .err er => some (er, σ1)
    | .panic _ => none
end

end Dtr
