import Dtr.Model.StmtIter
/-!
# Big-step semantics of the statement language  (specification side of C01)

A structured, fuel-indexed "sequential reading of the program": statements execute top to bottom;
`loop(v, e)` evaluates `e` once, does nothing when the value is `≤ 0`, otherwise opens a scope and
runs the body once for each counter value `0, 1, …` below the bound — setting `v` to that value
before each pass, whatever the body did to `v` — then closes the scope; `while(c)` runs its body for as long as `c` evaluates non-zero and opens no scope; `let`
binds in the innermost scope; a data row is evaluated in the environment of the moment it is
reached, appended to the log of rows, and handed to the device (`respond`, an arbitrary function:
it stands for everything that happens between two calls of the statement iterator — the IO of the
row's expansions and the refresh of the outputs the expressions can read).

`none` means "no result with this fuel, or an evaluation error / stuck configuration".
-/
namespace Dtr

/-- the device side: any state `W` and any reaction to a yielded row -/
structure Device (W : Type) where
  respond : W → CRow → Ctx → W × Ctx

structure Sys (W : Type) where
  ctx : Ctx
  world : W
  log : List CRow

variable {W : Type} (D : Device W)

/-- a yielded row: logged, then the device reacts -/
def Sys.emit (σ : Sys W) (r : CRow) (c' : Ctx) : Sys W :=
  ⟨(D.respond σ.world r c').2, (D.respond σ.world r c').1, σ.log ++ [r]⟩

mutual
def execBlock : Nat → List Stmt → Sys W → Option (Sys W)
  | 0, _, _ => none
  | _+1, [], σ => some σ
  | fuel+1, s :: rest, σ =>
    match execStmt fuel s σ with
    | none => none
    | some σ' => execBlock fuel rest σ'
def execStmt : Nat → Stmt → Sys W → Option (Sys W)
  | 0, _, _ => none
  | fuel+1, s, σ =>
    match s with
    | .letS name e =>
      match evalE e σ.ctx with
      | .ok (v, c') => some { σ with ctx := c'.set name v }
      | _ => none
    | .row data line =>
      match evalRow data σ.ctx with
      | .ok (es, c') => some (σ.emit D { entries := es, line := line, upd := true } c')
      | _ => none
    | .resetRandom => some { σ with ctx := σ.ctx.resetRandom }
    | .loop var max body =>
      match evalE max σ.ctx with
      | .ok (n, c') =>
        if n ≤ 0 then some { σ with ctx := c' }
        else loopIter fuel var n body 0 { σ with ctx := c'.pushFrame.set var 0 }
      | _ => none
    | .while cond body => whileIter fuel cond body σ
/-- the pass for counter value `cur` (the variable has been set to it), then the next value and the test -/
def loopIter : Nat → String → Int64 → List Stmt → Int64 → Sys W → Option (Sys W)
  | 0, _, _, _, _, _ => none
  | fuel+1, var, n, body, cur, σ1 =>
    match execBlock fuel body σ1 with
    | none => none
    | some σ2 =>
      if satSucc cur < n then loopIter fuel var n body (satSucc cur) { σ2 with ctx := σ2.ctx.set var (satSucc cur) }
      else some { σ2 with ctx := σ2.ctx.popFrame }
def whileIter : Nat → Expr → List Stmt → Sys W → Option (Sys W)
  | 0, _, _, _ => none
  | fuel+1, cond, body, σ1 =>
    match evalE cond σ1.ctx with
    | .ok (v, c') =>
      if v = 0 then some { σ1 with ctx := c' }
      else match execBlock fuel body { σ1 with ctx := c' } with
        | none => none
        | some σ2 => whileIter fuel cond body σ2
    | _ => none
end

/-- one micro-step of the whole system: a turn of the iterator's `loop`, and — when it yields — the
device's reaction -/
inductive Micro : It × Sys W → It × Sys W → Prop where
  | cont {it it' c c' w l} : step it c = .cont it' c' → Micro (it, ⟨c, w, l⟩) (it', ⟨c', w, l⟩)
  | yield {it it' c c' w l r} : step it c = .yield r it' c' →
      Micro (it, ⟨c, w, l⟩) (it', (Sys.mk c w l).emit D r c')

inductive Steps : It × Sys W → It × Sys W → Prop where
  | refl (a) : Steps a a
  | head {a b c} : Micro D a b → Steps b c → Steps a c

end Dtr
