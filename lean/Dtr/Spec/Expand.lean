import Dtr.Model.RowIter
/-!
# Specification of the `X` / `C` expansion  (C05)

`expR` is the declarative reading of the property: a row without `X` in input columns stands for
its clock triple (or for itself when it has no `C` in an input column); a row with such `X`s stands
for the rows of its `0`-variant followed by the rows of its `1`-variant, splitting on the
right-most `X` — so the right-most `X` varies slowest and the left-most fastest, `0` before `1`.
Nothing in it mentions a stack, laziness or re-scanning.
-/
namespace Dtr

/-- number of `X` entries in input columns, columns counted from `i` -/
def numInputXFrom (tc : TestCase) : List REntry → Nat → Nat
  | [], _ => 0
  | e :: es, i => (if isInputX tc i e then 1 else 0) + numInputXFrom tc es (i + 1)

def numInputX (tc : TestCase) (es : List REntry) : Nat := numInputXFrom tc es 0

/-- what a row without input `X` is executed as: three writes — clock columns 0, 1, 0 with every
other entry held (pure expected columns are blanked in the two unchecked ones) — the last one
checked against the row's expected values; or the row itself when no input column holds `C` -/
def tripleOf (tc : TestCase) (r : CRow) : List CRow :=
  if hasInputCFrom tc r.entries 0 then
    [⟨clockBlank tc 0 r.entries, r.line, false, r.xcols⟩, ⟨clockBlank tc 1 r.entries, r.line, false, r.xcols⟩,
     ⟨clockLow tc 0 r.entries, r.line, r.upd, r.xcols⟩]
  else [r]

/-- the rows a source row stands for; `k` bounds the number of input `X`s -/
def expR (tc : TestCase) : Nat → CRow → List CRow
  | 0, r => tripleOf tc r
  | k+1, r =>
    match lastInputX tc r.entries with
    | none => tripleOf tc r
    | some i => expR tc k { r with entries := r.entries.set i (.num 0), xcols := i :: r.xcols } ++
                expR tc k { r with entries := r.entries.set i (.num 1), xcols := i :: r.xcols }

/-- what the iterator does with its row stack: `popRow` until it is empty -/
def drain (tc : TestCase) : Nat → List CRow → Option (List CRow)
  | _, [] => some []
  | 0, _ :: _ => none
  | f+1, r :: rest =>
    match popRow tc (r :: rest) with
    | .ok (top, rest') => (drain tc f rest').map (top :: ·)
    | _ => none

end Dtr
