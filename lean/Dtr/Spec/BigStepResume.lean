import Dtr.Spec.BigStep
/-!
# The sequential reading of a run that is *resumed* in the middle

`execBlock` reads a whole program.  A caller who has stopped in the middle — after some rows, or behind an
error item — holds an iterator in some state; what the rest of the run must do is again a sequential
reading: finish what the innermost active block has left, then the rest of the current pass of the loop
around it, the remaining passes of that loop (counter values `cur+1, …` below the bound), then what follows
the loop, and so on outwards.  `execIt` writes that down by recursion over the iterator state, in terms of
the very functions of `Spec/BigStep` (`execBlock`, `loopIter`, `whileIter`).
-/
namespace Dtr
variable {W : Type} (D : Device W)

/-- after a pass of a loop with state `ls`: the next counter value and the test, as in `loopIter` -/
def afterPass (fuel : Nat) (ls : LoopState) (σ2 : Sys W) : Option (Sys W) :=
  if satSucc ls.cur < ls.max then
    loopIter D fuel ls.var ls.max ls.stmts (satSucc ls.cur) { σ2 with ctx := σ2.ctx.set ls.var (satSucc ls.cur) }
  else some { σ2 with ctx := σ2.ctx.popFrame }

mutual
/-- the reading of an iterator: what its state has left to do, then its remaining statements -/
def execIt (fuel : Nat) : It → Sys W → Option (Sys W)
  | .mk rest st, σ =>
    match execState fuel st σ with
    | some σ1 => execBlock D fuel rest σ1
    | none => none
def execState (fuel : Nat) : ItState → Sys W → Option (Sys W)
  | .iterate, σ => some σ
  | .startLoop ls, σ =>
    if ls.max ≤ 0 then some σ
    else loopIter D fuel ls.var ls.max ls.stmts ls.cur { σ with ctx := σ.ctx.pushFrame.set ls.var 0 }
  | .startInner ls, σ => loopIter D fuel ls.var ls.max ls.stmts ls.cur σ
  | .inner it ls, σ =>
    match execIt fuel it σ with
    | some σ2 => afterPass D fuel ls σ2
    | none => none
  | .endInner ls, σ => afterPass D fuel ls σ
  | .startWhile ws, σ => whileIter D fuel ws.cond ws.stmts σ
  | .whileInner it ws, σ =>
    match execIt fuel it σ with
    | some σ2 => whileIter D fuel ws.cond ws.stmts σ2
    | none => none
end

end Dtr
