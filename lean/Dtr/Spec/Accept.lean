import Dtr.Model.Bind
/-!
# When does a parsed test fit a signal list?  (specification side of C11)

Written over names only — no indices, no positions.
-/
namespace Dtr

/-- the signal list the test is bound to: the caller's signals followed by the declared virtual ones -/
def allSignals (p : Parsed) (sigs : List Signal) : List Signal :=
  sigs ++ p.virt.map (fun (n, _, e) => { name := n, bits := 64, typ := .virt e })

/-- header column `h` names signal `s`: an input, output or virtual signal by its name, a
bidirectional one by `<name>` (its input side) or `<name>_out` (its output side) -/
def Names (h : String) (s : Signal) : Prop :=
  match s.typ with
  | .input _ => h = s.name
  | .output => h = s.name
  | .virt _ => h = s.name
  | .bidir _ => h = s.name ∨ h = s.name ++ "_out"

def Accept (p : Parsed) (sigs : List Signal) : Prop :=
  -- the signal names are distinct, also from the names of declared virtual signals
  (sigs.map (·.name)).Nodup ∧
  (∀ v ∈ p.virt.map (·.1), v ∉ sigs.map (·.name)) ∧
  -- every header column names a signal
  (∀ h ∈ p.signals, ∃ s ∈ allSignals p sigs, Names h s) ∧
  -- every column that holds `C` in some row is an input-capable signal
  (∀ c ∈ p.expIn.map (·.1), ∃ s ∈ allSignals p sigs, s.name = c ∧ s.isInput = true) ∧
  -- every identifier read where no variable of that name is in scope names an output-capable signal
  (∀ r ∈ p.reads.map (·.1), ∃ s ∈ allSignals p sigs, s.name = r ∧ s.isOutput = true)

end Dtr
