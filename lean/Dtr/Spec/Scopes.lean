import Dtr.Model.FramedMap
/-!
# Scope stacks  (specification side of the variable store: C01, C18)

A stack of scopes, innermost first; the last one is the global scope.  `let` binds or rebinds in
the innermost scope, lookup finds the innermost binding, closing a scope drops everything bound in
it and uncovers what it shadowed.
-/
namespace Dtr
namespace Scopes
variable {α : Type}

abbrev T (α : Type) := List (List (String × α))

def push (s : T α) : T α := [] :: s

/-- closing the innermost scope; closing the global scope just empties it -/
def pop : T α → T α
  | [] => [[]]
  | [_] => [[]]
  | _ :: rest => rest

/-- bind or rebind in one scope -/
def bind (k : String) (v : α) (sc : List (String × α)) : List (String × α) :=
  match FMap.setIn k v sc with
  | some sc' => sc'
  | none => sc ++ [(k, v)]

def set (s : T α) (k : String) (v : α) : T α :=
  match s with
  | [] => [[(k, v)]]
  | sc :: rest => bind k v sc :: rest

/-- the binding of `k` in one scope (the latest entry, should a scope hold several) -/
def inScope (k : String) (sc : List (String × α)) : Option α :=
  (sc.reverse.find? (fun e => e.1 == k)).map (·.2)

/-- innermost binding -/
def lookup (k : String) : T α → Option α
  | [] => none
  | sc :: rest => match inScope k sc with
    | some v => some v
    | none => lookup k rest

end Scopes

/-- the scope stack a `FramedMap` represents: cut `values` at the recorded frame offsets -/
def FMap.scopesOf {α : Type} : List (String × α) → List Nat → Scopes.T α
  | vs, [] => [vs]
  | vs, f :: fs => vs.drop f :: FMap.scopesOf (vs.take f) fs

def FMap.abs {α : Type} (m : FMap α) : Scopes.T α := FMap.scopesOf m.values m.frames

/-- representation invariant: frame offsets are non-increasing from the innermost outwards and lie
within `values` -/
def FMap.InvL : Nat → List Nat → Prop
  | _, [] => True
  | len, f :: fs => f ≤ len ∧ FMap.InvL f fs

def FMap.Inv {α : Type} (m : FMap α) : Prop := FMap.InvL m.values.length m.frames

end Dtr
