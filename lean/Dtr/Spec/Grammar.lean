import Dtr.Model.Parser
/-!
# The grammar of the test language, with the tree each phrase denotes  (specification side of C08 / C12)

`DExpr ts e`: the token list `ts` is an expression and denotes the tree `e`; likewise for factors,
argument lists, data rows, statements and blocks.  Binary operator chains denote the tree that
`BTree.add` builds from the in-order sequence (C08's theorems say which tree that is: the one and
only tree with that in-order sequence in which precedence decreases towards the root and equal
levels associate to the left).
-/
namespace Dtr

mutual
/-- a factor: a literal, a name, a function call, a unary operator applied to a factor, a parenthesised expression -/
inductive DFactor : List ATok → Expr → Prop where
  | num (v : Int64) : DFactor [.num (some v)] (.num v)
  | var (s : String) : DFactor [.ident s] (.var s)
  | call (name : String) (ts : List ATok) (args : List Expr) :
      funcArity name = some args.length → DArgs ts args →
      DFactor (.ident name :: .sym .LParen :: (ts ++ [.sym .RParen])) (.call name args)
  | un (k : Kind) (u : UnOp) (ts : List ATok) (e : Expr) :
      unOpOf (.sym k) = some u → DFactor ts e → DFactor (.sym k :: ts) (.un u e)
  | paren (ts : List ATok) (e : Expr) : DExpr ts e → DFactor (.sym .LParen :: (ts ++ [.sym .RParen])) e
/-- an expression: a factor followed by any number of (binary operator, factor) pairs -/
inductive DExpr : List ATok → Expr → Prop where
  | chain (ts0 : List ATok) (e0 : Expr) (rest : List ATok) (ps : List (BinOp × Expr)) :
      DFactor ts0 e0 → DChain rest ps →
      DExpr (ts0 ++ rest) ((ps.foldl (fun t p => t.add p.1 p.2) (BTree.atom e0)).toExpr)
inductive DChain : List ATok → List (BinOp × Expr) → Prop where
  | nil : DChain [] []
  | cons (t : ATok) (o : BinOp) (ts : List ATok) (e : Expr) (rest : List ATok) (ps : List (BinOp × Expr)) :
      binOpOf t = some o → DFactor ts e → DChain rest ps → DChain (t :: (ts ++ rest)) ((o, e) :: ps)
/-- one or more expressions separated by commas -/
inductive DArgs : List ATok → List Expr → Prop where
  | one (ts : List ATok) (e : Expr) : DExpr ts e → DArgs ts [e]
  | cons (ts : List ATok) (e : Expr) (rest : List ATok) (es : List Expr) :
      DExpr ts e → DArgs rest es → DArgs (ts ++ .sym .Comma :: rest) (e :: es)
end

/-- one entry of a data row -/
inductive DEntry : List ATok → DataEntry → Prop where
  | expr (ts : List ATok) (e : Expr) : DExpr ts e → DEntry (.sym .LParen :: (ts ++ [.sym .RParen])) (.expr e)
  | bits (n : Int64) (ts : List ATok) (e : Expr) : ¬ n > 64 → DExpr ts e →
      DEntry (.sym .Bits :: .sym .LParen :: .num (some n) :: .sym .Comma :: (ts ++ [.sym .RParen])) (.bits n.toNatClampNeg e)
  | c (s : String) : s = "c" ∨ s = "C" → DEntry [.ident s] .c
  | x (s : String) : s = "x" ∨ s = "X" → DEntry [.ident s] .x
  | z (s : String) : s = "z" ∨ s = "Z" → DEntry [.ident s] .z
  | num (v : Int64) : DEntry [.num (some v)] (.num v)

/-- a data row: entries one after the other -/
inductive DRow : List ATok → List DataEntry → Prop where
  | nil : DRow [] []
  | cons (ts : List ATok) (d : DataEntry) (rest : List ATok) (ds : List DataEntry) :
      DEntry ts d → DRow rest ds → DRow (ts ++ rest) (d :: ds)

mutual
/-- a statement, without the line break that follows it; `none` for a `declare` (it adds no statement) -/
inductive DStmt : List ATok → Option Stmt → Prop where
  | row (ts : List ATok) (d : List DataEntry) (line : Nat) : DRow ts d → DStmt ts (some (.row d line))
  | loop (v : String) (te : List ATok) (max : Expr) (tb : List ATok) (body : List Stmt) :
      DExpr te max → DNested .Loop tb body →
      DStmt (.sym .Loop :: .sym .LParen :: .ident v :: .sym .Comma :: (te ++ .sym .RParen :: .sym .Eol :: tb))
        (some (.loop v max body))
  | repeat (te : List ATok) (max : Expr) (tr : List ATok) (d : List DataEntry) (line : Nat) :
      DExpr te max → DRow tr d →
      DStmt (.sym .Repeat :: .sym .LParen :: (te ++ .sym .RParen :: tr)) (some (.loop "n" max [.row d line]))
  | letS (name : String) (te : List ATok) (e : Expr) : DExpr te e →
      DStmt (.sym .Let :: .ident name :: .sym .Equal :: (te ++ [.sym .Semi])) (some (.letS name e))
  | reset : DStmt [.sym .ResetRandom, .sym .Semi] (some .resetRandom)
  | while (te : List ATok) (c : Expr) (tb : List ATok) (body : List Stmt) :
      DExpr te c → DNested .While tb body →
      DStmt (.sym .While :: .sym .LParen :: (te ++ .sym .RParen :: .sym .Eol :: tb)) (some (.while c body))
  | declare (name : String) (te : List ATok) (e : Expr) : DExpr te e →
      DStmt (.sym .Declare :: .ident name :: .sym .Equal :: (te ++ [.sym .Semi])) none
/-- the body of a `loop` / `while` block up to and including its `end <kind>`: lines, each a statement or nothing,
each ended by a line break -/
inductive DNested : Kind → List ATok → List Stmt → Prop where
  | close (k : Kind) : DNested k [.sym .End, .sym k] []
  | blank (k : Kind) (rest : List ATok) (b : List Stmt) : DNested k rest b → DNested k (.sym .Eol :: rest) b
  | stmt (k : Kind) (ts : List ATok) (s : Stmt) (rest : List ATok) (b : List Stmt) :
      DStmt ts (some s) → DNested k rest b → DNested k (ts ++ .sym .Eol :: rest) (s :: b)
  | decl (k : Kind) (ts : List ATok) (rest : List ATok) (b : List Stmt) :
      DStmt ts none → DNested k rest b → DNested k (ts ++ .sym .Eol :: rest) b
end

/-- the body of a test: lines as in a block; the last statement need not be followed by a line break; the
end of the input closes it -/
inductive DTop : List ATok → List Stmt → Prop where
  | eof : DTop [.sym .Eof] []
  | lastStmt (ts : List ATok) (s : Stmt) : DStmt ts (some s) → DTop ts [s]
  | lastDecl (ts : List ATok) : DStmt ts none → DTop ts []
  | blank (rest : List ATok) (b : List Stmt) : DTop rest b → DTop (.sym .Eol :: rest) b
  | stmt (ts : List ATok) (s : Stmt) (rest : List ATok) (b : List Stmt) :
      DStmt ts (some s) → DTop rest b → DTop (ts ++ .sym .Eol :: rest) (s :: b)
  | decl (ts : List ATok) (rest : List ATok) (b : List Stmt) :
      DStmt ts none → DTop rest b → DTop (ts ++ .sym .Eol :: rest) b

end Dtr
