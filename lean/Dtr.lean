import Dtr.Model.Ast
import Dtr.Model.FramedMap
import Dtr.Model.Lexer
import Dtr.Model.Parser
import Dtr.Model.Bind
import Dtr.Model.Eval
import Dtr.Model.StmtIter
import Dtr.Model.RowIter
